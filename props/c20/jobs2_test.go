// Jobs that do not start with a file decode: single boxes, parameter-set / SEI bundles, and the writer side
// (values BUILT from caller-owned byte slices that several goroutines share read-only).
package c20

import (
	"bytes"
	"encoding/binary"
	"fmt"

	"github.com/Eyevinn/mp4ff/aac"
	"github.com/Eyevinn/mp4ff/avc"
	"github.com/Eyevinn/mp4ff/bits"
	"github.com/Eyevinn/mp4ff/hevc"
	"github.com/Eyevinn/mp4ff/mp4"
	"github.com/Eyevinn/mp4ff/sei"
)

// ---------------------------------------------------------------------------------------------
// "nalus" inputs: a bundle of byte strings in ONE shared slice. The jobs hand sub-slices of the shared slice
// (capacity NOT clipped) to the library, so that a write or an append of the library into a caller's slice shows
// up in the pristine-copy comparison of the shared slice.

// psItem is one byte string of a bundle.
//
//	V S P  HEVC VPS, SPS, PPS NAL unit (AVC: S P)
//	E      complete SEI NAL unit
//	D      sample: 4-byte length prefixed NAL units
//	A      SEI message: payload type (1 byte) + payload bytes
type psItem struct {
	Role string `json:"role"`
	Data []byte `json:"data"`
}

func bundleBytes(items []psItem) ([]byte, error) {
	var out []byte
	for _, it := range items {
		if len(it.Role) != 1 {
			return nil, fmt.Errorf("role %q", it.Role)
		}
		out = append(out, it.Role[0])
		out = binary.BigEndian.AppendUint32(out, uint32(len(it.Data)))
		out = append(out, it.Data...)
	}
	if len(out) == 0 {
		return nil, fmt.Errorf("no items")
	}
	return out, nil
}

type bundleItem struct {
	role byte
	data []byte // sub-slice of the shared slice, capacity reaches to the end of the shared slice
}

func splitBundle(shared []byte) ([]bundleItem, error) {
	var out []bundleItem
	for pos := 0; pos < len(shared); {
		if pos+5 > len(shared) {
			return nil, fmt.Errorf("not a bundle")
		}
		n := int(binary.BigEndian.Uint32(shared[pos+1:]))
		if n < 0 || pos+5+n > len(shared) || !bytes.Contains([]byte("VSPEDA"), shared[pos:pos+1]) {
			return nil, fmt.Errorf("not a bundle")
		}
		out = append(out, bundleItem{shared[pos], shared[pos+5 : pos+5+n]})
		pos += 5 + n
	}
	return out, nil
}

func itemsOf(items []bundleItem, role byte) [][]byte {
	var out [][]byte
	for _, it := range items {
		if it.role == role {
			out = append(out, it.data)
		}
	}
	return out
}

func isNaluAct(act string) bool {
	switch act {
	case "ps-parse", "build-init", "build-frag", "build-confrec", "build-sei", "nalu-annexb":
		return true
	}
	return false
}

// runNaluJob executes a job on a bundle. codec: "avc" | "hevc".
func runNaluJob(j job, codec string, shared []byte) result {
	var w bytes.Buffer
	fail := func(what string, err error) result {
		return result{out: w.Bytes(), err: what + ": " + err.Error()}
	}
	items, err := splitBundle(shared)
	if err != nil {
		return fail(j.Act, err)
	}
	vpss, spss, ppss := itemsOf(items, 'V'), itemsOf(items, 'S'), itemsOf(items, 'P')
	seis, samples, msgs := itemsOf(items, 'E'), itemsOf(items, 'D'), itemsOf(items, 'A')
	hv := codec == "hevc"

	switch j.Act {
	case "ps-parse":
		// the parsers get the caller's slices themselves: they are documented as readers
		if !hv {
			spsMap := map[uint32]*avc.SPS{}
			ppsMap := map[uint32]*avc.PPS{}
			var first *avc.SPS
			for i, n := range spss {
				for _, vui := range []bool{true, false} {
					sps, err := avc.ParseSPSNALUnit(n, vui)
					if err != nil {
						fmt.Fprintf(&w, "sps %d: %v\n", i, err)
						continue
					}
					spsMap[sps.ParameterID] = sps
					if first == nil {
						first = sps
					}
					fmt.Fprintf(&w, "sps %d vui=%v %dx%d %s %s\n", i, vui, sps.Width, sps.Height, avc.CodecString("avc1", sps), jsonOf(sps))
				}
			}
			for i, n := range ppss {
				pps, err := avc.ParsePPSNALUnit(n, spsMap)
				if err != nil {
					fmt.Fprintf(&w, "pps %d: %v\n", i, err)
					continue
				}
				ppsMap[pps.PicParameterSetID] = pps
				fmt.Fprintf(&w, "pps %d %s\n", i, jsonOf(pps))
			}
			for i, n := range seis {
				ms, err := avc.ParseSEINalu(n, first)
				fmt.Fprintf(&w, "sei %d err=%v\n", i, err)
				for _, m := range ms {
					fmt.Fprintf(&w, "  %d %d %s %x\n", m.Type(), m.Size(), m.String(), m.Payload())
				}
			}
			for i, s := range samples {
				fmt.Fprintf(&w, "sample %d types=%v idr=%v ps=%v\n", i, avc.FindNaluTypes(s), avc.IsIDRSample(s), avc.HasParameterSets(s))
				nalus, err := avc.GetNalusFromSample(s)
				if err != nil {
					fmt.Fprintf(&w, "  nalus: %v\n", err)
					continue
				}
				for k, n := range nalus {
					if len(n) == 0 {
						continue
					}
					switch avc.GetNaluType(n[0]) {
					case avc.NALU_NON_IDR, avc.NALU_IDR:
						sh, err := avc.ParseSliceHeader(n, spsMap, ppsMap)
						if err != nil {
							fmt.Fprintf(&w, "  n%d slice: %v\n", k, err)
						} else {
							fmt.Fprintf(&w, "  n%d slice %s\n", k, jsonOf(sh))
						}
					case avc.NALU_SEI:
						ms, err := avc.ParseSEINalu(n, first)
						fmt.Fprintf(&w, "  n%d sei %d err=%v\n", k, len(ms), err)
					}
				}
			}
		} else {
			spsMap := map[uint32]*hevc.SPS{}
			ppsMap := map[uint32]*hevc.PPS{}
			var first *hevc.SPS
			for i, n := range spss {
				sps, err := hevc.ParseSPSNALUnit(n)
				if err != nil {
					fmt.Fprintf(&w, "sps %d: %v\n", i, err)
					continue
				}
				spsMap[uint32(sps.SpsID)] = sps
				if first == nil {
					first = sps
				}
				wd, ht := sps.ImageSize()
				fmt.Fprintf(&w, "sps %d %dx%d %s %s\n", i, wd, ht, hevc.CodecString("hvc1", sps), jsonOf(sps))
			}
			for i, n := range ppss {
				pps, err := hevc.ParsePPSNALUnit(n, spsMap)
				if err != nil {
					fmt.Fprintf(&w, "pps %d: %v\n", i, err)
					continue
				}
				ppsMap[pps.PicParameterSetID] = pps
				fmt.Fprintf(&w, "pps %d id=%d sps=%d qp=%d\n", i, pps.PicParameterSetID, pps.SeqParameterSetID, pps.InitQpMinus26)
			}
			for i, n := range seis {
				ms, err := hevc.ParseSEINalu(n, first)
				fmt.Fprintf(&w, "sei %d err=%v\n", i, err)
				for _, m := range ms {
					fmt.Fprintf(&w, "  %d %d %s %x\n", m.Type(), m.Size(), m.String(), m.Payload())
				}
			}
			for i, s := range samples {
				fmt.Fprintf(&w, "sample %d types=%v rap=%v idr=%v ps=%v\n", i, hevc.FindNaluTypes(s), hevc.IsRAPSample(s), hevc.IsIDRSample(s), hevc.HasParameterSets(s))
				nalus, err := avc.GetNalusFromSample(s)
				if err != nil {
					fmt.Fprintf(&w, "  nalus: %v\n", err)
					continue
				}
				for k, n := range nalus {
					if len(n) < 2 {
						continue
					}
					if t := hevc.GetNaluType(n[0]); hevc.IsVideoNaluType(t) {
						sh, err := hevc.ParseSliceHeader(n, spsMap, ppsMap)
						if err != nil {
							fmt.Fprintf(&w, "  n%d slice: %v\n", k, err)
						} else {
							fmt.Fprintf(&w, "  n%d slice %s\n", k, jsonOf(sh))
						}
					} else if t == hevc.NALU_SEI_PREFIX {
						ms, err := hevc.ParseSEINalu(n, first)
						fmt.Fprintf(&w, "  n%d sei %d err=%v\n", k, len(ms), err)
					}
				}
			}
		}

	case "build-init":
		// an init segment built from the caller's parameter sets (shared with the other goroutines)
		init := mp4.CreateEmptyInit()
		init.AddEmptyTrack(90000, "video", "und")
		trak := init.Moov.Trak
		if len(spss) == 0 {
			return result{err: "build-init: no SPS"}
		}
		if !hv {
			typ := []string{"avc1", "avc3"}[j.Mode&1]
			if err := trak.SetAVCDescriptor(typ, spss, ppss, true); err != nil {
				return fail("SetAVCDescriptor", err)
			}
		} else {
			typ := []string{"hvc1", "hev1"}[j.Mode&1]
			if err := trak.SetHEVCDescriptor(typ, vpss, spss, ppss, seis, true); err != nil {
				return fail("SetHEVCDescriptor", err)
			}
		}
		switch (j.Mode >> 1) & 3 {
		case 1:
			init.AddEmptyTrack(48000, "audio", "eng")
			if err := init.Moov.Traks[1].SetAACDescriptor([]byte{aac.AAClc, aac.HEAACv1, aac.HEAACv2}[(j.Mode>>3)%3], []int{48000, 24000, 44100, 22050}[(j.Mode>>5)&3]); err != nil {
				return fail("SetAACDescriptor", err)
			}
			hdr, err := aac.NewADTSHeader(48000, 2, aac.AAClc, 100)
			if err != nil {
				return fail("NewADTSHeader", err)
			}
			enc := hdr.Encode()
			back, off, err := aac.DecodeADTSHeader(bytes.NewReader(enc))
			fmt.Fprintf(&w, "adts %x off=%d err=%v", enc, off, err)
			if back != nil {
				fmt.Fprintf(&w, " freq=%d", back.Frequency())
			}
			w.WriteString("\n")
		case 2:
			init.AddEmptyTrack(48000, "audio", "swe")
			dac3 := &mp4.Dac3Box{FSCod: byte(j.Mode>>3) % 3, BSID: 8, ACMod: byte(j.Mode>>5) & 7, LFEOn: byte(j.Mode>>8) & 1, BitRateCode: byte(j.Mode>>9) % 19}
			if err := init.Moov.Traks[1].SetAC3Descriptor(dac3); err != nil {
				return fail("SetAC3Descriptor", err)
			}
		case 3:
			init.AddEmptyTrack(48000, "audio", "en-GB")
			dec3 := &mp4.Dec3Box{DataRate: 192, NumIndSub: 0, EC3Subs: []mp4.EC3Sub{{FSCod: byte(j.Mode>>3) % 3, BSID: 16, ACMod: byte(j.Mode>>5) & 7, LFEOn: byte(j.Mode>>8) & 1, NumDepSub: 1, ChanLoc: uint16(j.Mode>>9) & 0x1ff}}}
			if err := init.Moov.Traks[1].SetEC3Descriptor(dec3); err != nil {
				return fail("SetEC3Descriptor", err)
			}
		}
		if err := init.Encode(&w); err != nil {
			return fail("Init.Encode", err)
		}
		sw := bits.NewFixedSliceWriter(int(init.Size()))
		if err := init.EncodeSW(sw); err != nil {
			return fail("Init.EncodeSW", err)
		}
		w.Write(sw.Bytes())
		if err := init.Info(&w, infoLvl, "", "  "); err != nil {
			return fail("Init.Info", err)
		}

	case "build-frag":
		// fragments built from the caller's sample data
		if len(samples) == 0 {
			return result{err: "build-frag: no samples"}
		}
		seg := mp4.NewMediaSegment()
		if j.Mode&2 != 0 {
			seg = mp4.NewMediaSegmentWithoutStyp()
		}
		if j.Mode&1 == 0 {
			frag, err := mp4.CreateFragment(7, 1)
			if err != nil {
				return fail("CreateFragment", err)
			}
			seg.AddFragment(frag)
			t := uint64(9000)
			for i, s := range samples {
				fl := uint32(mp4.NonSyncSampleFlags)
				if i == 0 {
					fl = mp4.SyncSampleFlags
				}
				frag.AddFullSample(mp4.FullSample{Sample: mp4.NewSample(fl, 3000, uint32(len(s)), int32(i%3)*1500), DecodeTime: t, Data: s})
				t += 3000
			}
		} else {
			frag, err := mp4.CreateMultiTrackFragment(8, []uint32{1, 2})
			if err != nil {
				return fail("CreateMultiTrackFragment", err)
			}
			seg.AddFragment(frag)
			t := uint64(0)
			for i, s := range samples {
				fs := mp4.FullSample{Sample: mp4.NewSample(mp4.SyncSampleFlags, 1024, uint32(len(s)), 0), DecodeTime: t, Data: s}
				if err := frag.AddFullSampleToTrack(fs, uint32(1+(i/2)%2)); err != nil {
					return fail("AddFullSampleToTrack", err)
				}
				t += 512
			}
		}
		if j.Mode&4 != 0 {
			seg.EncOptimize = mp4.OptimizeTrun
		}
		if err := seg.Encode(&w); err != nil {
			return fail("Segment.Encode", err)
		}
		sw := bits.NewFixedSliceWriter(int(seg.Size()))
		if err := seg.EncodeSW(sw); err != nil {
			return fail("Segment.EncodeSW", err)
		}
		w.Write(sw.Bytes())
		for _, fr := range seg.Fragments {
			if err := fr.Info(&w, infoLvl, "", "  "); err != nil {
				return fail("Fragment.Info", err)
			}
		}

	case "build-confrec":
		include := j.Mode&1 == 0
		if !hv {
			rec, err := avc.CreateAVCDecConfRec(spss, ppss, include)
			if err != nil {
				return fail("CreateAVCDecConfRec", err)
			}
			if err := rec.Encode(&w); err != nil {
				return fail("DecConfRec.Encode", err)
			}
			sw := bits.NewFixedSliceWriter(int(rec.Size()))
			if err := rec.EncodeSW(sw); err != nil {
				return fail("DecConfRec.EncodeSW", err)
			}
			back, err := avc.DecodeAVCDecConfRec(sw.Bytes())
			fmt.Fprintf(&w, "\nback err=%v %s\n", err, jsonOf(back))
			box, err := mp4.CreateAvcC(spss, ppss, include)
			if err != nil {
				return fail("CreateAvcC", err)
			}
			if err := box.Encode(&w); err != nil {
				return fail("AvcC.Encode", err)
			}
			if err := box.Info(&w, infoLvl, "", "  "); err != nil {
				return fail("AvcC.Info", err)
			}
		} else {
			cpl := j.Mode&2 == 0
			rec, err := hevc.CreateHEVCDecConfRec(vpss, spss, ppss, cpl, cpl, cpl, include)
			if err != nil {
				return fail("CreateHEVCDecConfRec", err)
			}
			if len(seis) > 0 {
				rec.AddNaluArrays([]hevc.NaluArray{hevc.NewNaluArray(cpl, hevc.NALU_SEI_PREFIX, seis)})
			}
			if err := rec.Encode(&w); err != nil {
				return fail("DecConfRec.Encode", err)
			}
			sw := bits.NewFixedSliceWriter(int(rec.Size()))
			if err := rec.EncodeSW(sw); err != nil {
				return fail("DecConfRec.EncodeSW", err)
			}
			back, err := hevc.DecodeHEVCDecConfRec(sw.Bytes())
			fmt.Fprintf(&w, "\nback err=%v %s\n", err, jsonOf(back))
			box, err := mp4.CreateHvcC(vpss, spss, ppss, cpl, cpl, cpl, include)
			if err != nil {
				return fail("CreateHvcC", err)
			}
			if err := box.Encode(&w); err != nil {
				return fail("HvcC.Encode", err)
			}
			if err := box.Info(&w, infoLvl, "", "  "); err != nil {
				return fail("HvcC.Info", err)
			}
		}

	case "build-sei":
		// SEI messages constructed over the caller's payload slices, written, and parsed back
		cd := sei.AVC
		if hv {
			cd = sei.HEVC
		}
		var out []sei.SEIMessage
		for i, m := range msgs {
			if len(m) == 0 {
				continue
			}
			sd := sei.NewSEIData(uint(m[0]), m[1:])
			msg, err := sei.DecodeSEIMessage(sd, cd)
			if err != nil {
				fmt.Fprintf(&w, "msg %d type %d: %v\n", i, m[0], err)
				continue
			}
			fmt.Fprintf(&w, "msg %d type %d size %d %s\n", i, msg.Type(), msg.Size(), msg.String())
			out = append(out, msg)
		}
		if j.Mode&1 == 1 && len(msgs) > 0 && len(msgs[0]) > 17 {
			out = append(out, sei.NewUnregisteredSEI(sei.NewSEIData(sei.SEIUserDataUnregisteredType, msgs[0][1:]), msgs[0][1:17]))
		}
		var nb bytes.Buffer
		if hv {
			nb.Write([]byte{39 << 1, 1})
		} else {
			nb.WriteByte(6)
		}
		if err := sei.WriteSEIMessages(&nb, out); err != nil {
			return fail("WriteSEIMessages", err)
		}
		w.Write(nb.Bytes())
		var back []sei.SEIMessage
		if hv {
			back, err = hevc.ParseSEINalu(nb.Bytes(), nil)
		} else {
			back, err = avc.ParseSEINalu(nb.Bytes(), nil)
		}
		fmt.Fprintf(&w, "\nback %d err=%v\n", len(back), err)
		for _, m := range back {
			fmt.Fprintf(&w, "  %d %d %s\n", m.Type(), m.Size(), m.String())
		}

	case "nalu-annexb":
		for i, s := range samples {
			annexbOf(&w, fmt.Sprintf("s%d", i), s)
			if hv {
				bs := avc.ConvertSampleToByteStream(clone(s))
				v, sp, pp := hevc.GetParameterSetsFromByteStream(bs)
				fmt.Fprintf(&w, " ps=%d/%d/%d", len(v), len(sp), len(pp))
			} else {
				bs := avc.ConvertSampleToByteStream(clone(s))
				sp, pp := avc.GetParameterSetsFromByteStream(bs)
				fmt.Fprintf(&w, " ps=%d/%d first=%x", len(sp), len(pp), avc.GetFirstAVCVideoNALUFromByteStream(bs))
			}
		}
	default:
		return result{err: "unknown action " + j.Act}
	}
	return result{out: w.Bytes()}
}

// annexbOf writes the Annex B conversions of one sample (length-prefixed NAL units). ConvertSampleToByteStream and
// ConvertByteStreamToNaluSample work in place by contract, so they get private copies.
func annexbOf(w *bytes.Buffer, label string, s []byte) {
	nalus, err := avc.GetNalusFromSample(clone(s))
	fmt.Fprintf(w, "%s nalus=%d err=%v\n", label, len(nalus), err)
	bs := avc.ConvertSampleToByteStream(clone(s))
	w.Write(bs)
	for _, n := range avc.ExtractNalusFromByteStream(bs) {
		fmt.Fprintf(w, " n%d", len(n))
	}
	back := avc.ConvertByteStreamToNaluSample(clone(bs))
	w.Write(back)
	three := bytes.ReplaceAll(clone(bs), []byte{0, 0, 0, 1}, []byte{0, 0, 1})
	w.Write(avc.ConvertByteStreamToNaluSample(three))
}

// ---------------------------------------------------------------------------------------------
// "box" inputs: one box written by internal/boxgen

// runBoxJob: DecodeBox / DecodeBoxSR of the shared slice -> Info -> Encode -> EncodeSW, plus the accessors
// that read package-level tables (AC-3 / E-AC-3 channel tables, AAC frequency tables).
func runBoxJob(j job, shared []byte) result {
	var w bytes.Buffer
	fail := func(what string, err error) result {
		return result{out: w.Bytes(), err: what + ": " + err.Error()}
	}
	var b mp4.Box
	var err error
	if j.SR {
		b, err = mp4.DecodeBoxSR(0, bits.NewFixedSliceReader(shared))
		if err != nil {
			return fail("DecodeBoxSR", err)
		}
	} else {
		b, err = mp4.DecodeBox(0, bytes.NewReader(shared))
		if err != nil {
			return fail("DecodeBox", err)
		}
	}
	fmt.Fprintf(&w, "%s %d\n", b.Type(), b.Size())
	if err := b.Info(&w, infoLvl, "", "  "); err != nil {
		return fail("Info", err)
	}
	switch x := b.(type) {
	case *mp4.Dac3Box:
		n, cm := x.ChannelInfo()
		fmt.Fprintf(&w, "dac3 %d %x %d %d\n", n, cm, x.BitrateBps(), x.SamplingFrequency())
	case *mp4.Dec3Box:
		n, cm := x.ChannelInfo()
		fmt.Fprintf(&w, "dec3 %d %x\n", n, cm)
	case *mp4.EsdsBox:
		if dc := x.DecConfigDescriptor; dc != nil && dc.DecSpecificInfo != nil {
			asc, err := aac.DecodeAudioSpecificConfig(bytes.NewReader(dc.DecSpecificInfo.DecConfig))
			fmt.Fprintf(&w, "asc err=%v %s\n", err, jsonOf(asc))
			if err == nil {
				var ab bytes.Buffer
				err = asc.Encode(&ab)
				fmt.Fprintf(&w, "asc enc err=%v %x\n", err, ab.Bytes())
			}
		}
	case *mp4.PrftBox:
		fmt.Fprintf(&w, "prft flags=%d %q\n", x.Flags, mp4.PrftFlagsInterpretation[x.Flags])
	}
	if j.Mode&1 == 0 {
		if err := b.Encode(&w); err != nil {
			return fail("Encode", err)
		}
	} else {
		sw := bits.NewFixedSliceWriter(int(b.Size()) + 16)
		if err := b.EncodeSW(sw); err != nil {
			return fail("EncodeSW", err)
		}
		w.Write(sw.Bytes())
	}
	return result{out: w.Bytes()}
}
