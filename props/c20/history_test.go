// History independence across processes: the jobs of a case computed by a fresh process (this test binary
// started again in worker mode) must give what they gave in the long-lived test process. A package-level cache
// that keeps the FIRST value it saw for a key is consistent within one process whatever the order of the calls
// (the in-process reverse pass cannot see it), but the fresh process, which runs the jobs in reverse order, meets
// the near-duplicate inputs of the case in the other order and with nothing computed before.
package c20

import (
	"bytes"
	"crypto/sha256"
	"encoding/hex"
	"encoding/json"
	"fmt"
	"os"
	"os/exec"

	"verif/internal/harness"
)

const workerEnv = "VERIF_C20_WORKER"

type workerReq struct {
	Case  jobMixCase `json:"case"`
	Order []int      `json:"order"` // the jobs to run, in this order
}

type digest struct {
	Job   int    `json:"job"`
	Len   int    `json:"len"`
	Sum   string `json:"sum"`
	Head  string `json:"head,omitempty"` // the output itself when it is short
	Err   string `json:"err,omitempty"`
	Panic string `json:"panic,omitempty"`
}

func digestOf(job int, r result) digest {
	sum := sha256.Sum256(r.out)
	d := digest{Job: job, Len: len(r.out), Sum: hex.EncodeToString(sum[:]), Err: r.err, Panic: r.panic}
	if len(r.out) <= 2048 {
		d.Head = hex.EncodeToString(r.out)
	}
	return d
}

// workerMain: read one request from stdin, run its jobs alone in the given order, write the digests to stdout.
func workerMain() {
	var req workerReq
	if err := json.NewDecoder(os.Stdin).Decode(&req); err != nil {
		fmt.Fprintf(os.Stderr, "c20 worker: %v\n", err)
		os.Exit(3)
	}
	c := &req.Case
	if fail := c.validate(); fail != nil {
		fmt.Fprintf(os.Stderr, "c20 worker: %s\n", fail.Msg)
		os.Exit(3)
	}
	shared := make([][]byte, len(c.Inputs))
	for i := range c.Inputs {
		b, err := c.Inputs[i].materialise()
		if err != nil {
			fmt.Fprintf(os.Stderr, "c20 worker: input %d: %v\n", i, err)
			os.Exit(3)
		}
		shared[i] = b
	}
	var st stats
	private := privateFlags(c, &st)
	out := make([]digest, 0, len(req.Order))
	for _, i := range req.Order {
		if i < 0 || i >= len(c.Jobs) {
			os.Exit(3)
		}
		j := c.Jobs[i]
		out = append(out, digestOf(i, runJobRecovered(j, &c.Inputs[j.Input], shared[j.Input], private[i])))
	}
	if err := json.NewEncoder(os.Stdout).Encode(out); err != nil {
		os.Exit(3)
	}
	os.Exit(0)
}

func freshProcess(c *jobMixCase, order []int) ([]digest, error) {
	// /proc/self/exe stays executable when the file of the test binary is removed or replaced during the run
	exe := "/proc/self/exe"
	if _, err := os.Stat(exe); err != nil {
		if exe, err = os.Executable(); err != nil {
			return nil, err
		}
	}
	cc := *c
	cc.Fresh = 0
	req, err := json.Marshal(workerReq{Case: cc, Order: order})
	if err != nil {
		return nil, err
	}
	cmd := exec.Command(exe)
	// atexit_sleep_ms: a race-instrumented binary sleeps one second before it exits otherwise
	cmd.Env = append(os.Environ(), workerEnv+"=1", "GORACE=atexit_sleep_ms=0 "+os.Getenv("GORACE"))
	cmd.Stdin = bytes.NewReader(req)
	var stdout, stderr bytes.Buffer
	cmd.Stdout, cmd.Stderr = &stdout, &stderr
	if err := cmd.Run(); err != nil {
		return nil, fmt.Errorf("%v: %s", err, stderr.String())
	}
	var out []digest
	if err := json.Unmarshal(stdout.Bytes(), &out); err != nil {
		return nil, fmt.Errorf("worker output: %v", err)
	}
	if len(out) != len(order) {
		return nil, fmt.Errorf("worker returned %d results for %d jobs", len(out), len(order))
	}
	return out, nil
}

// checkFresh compares the results of the first pass alone (ref) with those of fresh processes.
func checkFresh(c *jobMixCase, ref []result, st *stats) *harness.Fail {
	var batches [][]int
	switch c.Fresh {
	case 1:
		var order []int
		for i := len(c.Jobs) - 1; i >= 0; i-- {
			order = append(order, i)
		}
		batches = append(batches, order)
	case 2:
		for i := range c.Jobs {
			batches = append(batches, []int{i})
		}
	default:
		return harness.Failf("harness|c20|bad-case", "fresh = %d", c.Fresh)
	}
	for _, order := range batches {
		ds, err := freshProcess(c, order)
		if err != nil {
			ds, err = freshProcess(c, order) // once more: fork under load
		}
		if err != nil {
			return harness.Failf("harness|c20|worker", "fresh process: %v", err)
		}
		st.freshProcs++
		for _, d := range ds {
			st.freshJobs++
			j := c.Jobs[d.Job]
			here := digestOf(d.Job, ref[d.Job])
			what := ""
			switch {
			case here.Panic != d.Panic:
				what = fmt.Sprintf("panic: here %q, fresh process %q", here.Panic, d.Panic)
			case here.Err != d.Err:
				what = fmt.Sprintf("error: here %q, fresh process %q", here.Err, d.Err)
			case here.Len != d.Len || here.Sum != d.Sum:
				what = fmt.Sprintf("output: here %d bytes sha256 %s, fresh process %d bytes sha256 %s", here.Len, here.Sum, d.Len, d.Sum)
				if fb, err := hex.DecodeString(d.Head); err == nil && d.Head != "" {
					at := diffAt(ref[d.Job].out, fb)
					what += fmt.Sprintf("; first difference at %d: %s vs %s", at, harness.HexTrunc(ref[d.Job].out[at:], 16), harness.HexTrunc(fb[at:], 16))
				}
			}
			if what != "" {
				return harness.Failf("C20|"+j.apiName()+"|result differs from the result of a fresh process",
					"g%d (fresh process ran the jobs %v in this order): %s\njobs:\n%s", d.Job, order, what, jobList(c))
			}
		}
	}
	return nil
}

// nearDupBytes derives a near-duplicate of an input: same length, same leading bytes, same box types and sizes;
// the payload of every mdat box from its 5th byte on is changed; without mdat payload the last byte is changed.
// nil: no near-duplicate (empty input).
func nearDupBytes(b []byte) []byte {
	if len(b) == 0 {
		return nil
	}
	d := clone(b)
	changed := false
	for pos := 0; pos+8 <= len(d); {
		size := int(uint32(d[pos])<<24 | uint32(d[pos+1])<<16 | uint32(d[pos+2])<<8 | uint32(d[pos+3]))
		hdr := 8
		if size == 1 && pos+16 <= len(d) {
			hi := uint32(d[pos+8])<<24 | uint32(d[pos+9])<<16 | uint32(d[pos+10])<<8 | uint32(d[pos+11])
			lo := uint32(d[pos+12])<<24 | uint32(d[pos+13])<<16 | uint32(d[pos+14])<<8 | uint32(d[pos+15])
			if hi != 0 || int(lo) < 16 {
				break
			}
			size, hdr = int(lo), 16
		} else if size == 0 {
			size = len(d) - pos
		}
		if size < hdr || pos+size > len(d) {
			break
		}
		if string(d[pos+4:pos+8]) == "mdat" {
			for k := pos + hdr + 4; k < pos+size; k++ {
				d[k] ^= 0x5a
				changed = true
			}
		}
		pos += size
	}
	if !changed {
		d[len(d)-1] ^= 0x01
	}
	return d
}
