// Static inventory of the package-level variables of the library (go/parser over the checkout): every variable
// that is not an error value is listed in stateInventory together with the job kinds that reach it. A variable
// that is not listed (a cache, a scratch buffer, a sync.Once added later) is reported in the evidence notes and
// on stdout: no job kind is known to exercise it, so the dynamic check says nothing about it.
package c20

import (
	"fmt"
	"go/ast"
	"go/parser"
	"go/printer"
	"go/token"
	"os"
	"path/filepath"
	"sort"
	"strings"
)

var libPackages = []string{"aac", "av1", "avc", "bits", "hevc", "mp4", "sei", "internal"}

// stateInventory: package-level variables of /repo that are not error values -> the jobs that reach them.
var stateInventory = map[string]string{
	"mp4.decoders":                  "registry written in init() and by Set/RemoveBoxDecoder (never called here); read by every DecodeFile / DecodeBox job (reader path)",
	"mp4.decodersSR":                "same registry for the SliceReader path; read by every DecodeFileSR / DecodeBoxSR job",
	"mp4.sgeDecoders":               "sample group entry registry; read by sgpd decoding: synth files, box jobs of type sgpd / moov / traf",
	"mp4.PrftFlagsInterpretation":   "read-only table; prft Info and a direct read in the box job (type prft), synth media files",
	"mp4.AC3SampleRates":            "read-only table; dac3 / dec3 Info, SamplingFrequency: box jobs (dac3, dec3, ac-3, ec-3), build-init with SetAC3Descriptor / SetEC3Descriptor",
	"mp4.AC3acmodChannelTable":      "read-only table; dac3 Info and ChannelInfo: box jobs (dac3, ac-3), build-init with SetAC3Descriptor",
	"mp4.AC3BitrateCodesKbps":       "read-only table; dac3 Info and BitrateBps: box jobs (dac3, ac-3)",
	"mp4.CustomChannelMapLocations": "read-only table; dac3 / dec3 ChannelInfo: box jobs, build-init with SetAC3Descriptor / SetEC3Descriptor",
	"mp4.EC3ChannelLocationBits":    "read-only table; dec3 ChannelInfo and Info: box jobs (dec3, ec-3), build-init with SetEC3Descriptor",
	"mp4.uuidTfxd":                  "byte slice compared in the uuid box decoder / Size / Encode / Info: box jobs (uuid), PIFF repository file, synth files",
	"mp4.uuidTfrf":                  "as uuidTfxd",
	"mp4.uuidPiffSenc":              "as uuidTfxd",
	"aac.FrequencyTable":            "read-only table; aac.DecodeAudioSpecificConfig in the box job (esds), ADTSHeader.Frequency in build-init (AAC)",
	"aac.ReverseFrequencies":        "read-only table; AudioSpecificConfig.Encode through SetAACDescriptor and aac.NewADTSHeader in build-init (AAC), re-encode in the box job (esds)",
	"internal.commitVersion":        "string read by internal.GetVersion, which only the commands under cmd/ call: not reachable through the library API",
	"internal.commitDate":           "as commitVersion",
}

type pkgVar struct {
	name  string // pkg.name
	decl  string // type or initialiser, shortened
	isErr bool
}

func packageLevelVars(repo string) ([]pkgVar, error) {
	var out []pkgVar
	fset := token.NewFileSet()
	for _, pkg := range libPackages {
		files, err := filepath.Glob(filepath.Join(repo, pkg, "*.go"))
		if err != nil {
			return nil, err
		}
		sort.Strings(files)
		for _, fn := range files {
			if strings.HasSuffix(fn, "_test.go") {
				continue
			}
			src, err := os.ReadFile(fn)
			if err != nil {
				return nil, err
			}
			f, err := parser.ParseFile(fset, fn, src, parser.SkipObjectResolution)
			if err != nil {
				return nil, err
			}
			for _, d := range f.Decls {
				gd, ok := d.(*ast.GenDecl)
				if !ok || gd.Tok != token.VAR {
					continue
				}
				for _, sp := range gd.Specs {
					vs := sp.(*ast.ValueSpec)
					for i, id := range vs.Names {
						if id.Name == "_" {
							continue
						}
						var sb strings.Builder
						if vs.Type != nil {
							_ = printer.Fprint(&sb, fset, vs.Type)
						}
						isErr := false
						if i < len(vs.Values) {
							var vb strings.Builder
							_ = printer.Fprint(&vb, fset, vs.Values[i])
							v := vb.String()
							isErr = strings.HasPrefix(v, "errors.New(") || strings.HasPrefix(v, "fmt.Errorf(")
							if k := strings.IndexByte(v, '\n'); k >= 0 {
								v = v[:k] + " ..."
							}
							sb.WriteString(" = " + v)
						}
						out = append(out, pkgVar{name: pkg + "." + id.Name, decl: strings.TrimSpace(sb.String()), isErr: isErr})
					}
				}
			}
		}
	}
	return out, nil
}

// inventoryReport returns the listed variables found, the unlisted ones, and the listed ones that are gone.
func inventoryReport(repo string) (listed, unlisted, gone []string, nErr int, err error) {
	vars, err := packageLevelVars(repo)
	if err != nil {
		return nil, nil, nil, 0, err
	}
	seen := map[string]bool{}
	for _, v := range vars {
		seen[v.name] = true
		switch {
		case v.isErr:
			nErr++
		case stateInventory[v.name] != "":
			listed = append(listed, v.name)
		default:
			unlisted = append(unlisted, fmt.Sprintf("%s (%s)", v.name, v.decl))
		}
	}
	for name := range stateInventory {
		if !seen[name] {
			gone = append(gone, name)
		}
	}
	sort.Strings(gone)
	return
}
