package c20

import (
	"bytes"
	"testing"

	"github.com/Eyevinn/mp4ff/avc"
	"github.com/Eyevinn/mp4ff/hevc"
	"github.com/Eyevinn/mp4ff/mp4"
	"pgregory.net/rapid"
)

// TestSelfGeneratedParameterSets: the parameter sets of psgen_test.go say what they were written to say (harness
// self-test, not a property of the library: a failure means the near-duplicate inputs are not what they claim).
func TestSelfGeneratedParameterSets(t *testing.T) {
	rapid.Check(t, func(rt *rapid.T) {
		a, b := genPSPair(rt)
		if bytes.Equal(a.sps, b.sps) || bytes.Equal(a.pps, b.pps) {
			rt.Fatalf("siblings are equal")
		}
		if len(a.sps) == len(b.sps) && !bytes.Equal(a.sps[:4], b.sps[:4]) {
			rt.Fatalf("SPS heads differ: %x %x", a.sps, b.sps)
		}
		for _, p := range []psSet{a, b} {
			var w, h int
			if p.codec == "avc" {
				sps, err := avc.ParseSPSNALUnit(p.sps, true)
				if err != nil {
					rt.Fatalf("avc sps %x: %v", p.sps, err)
				}
				w, h = int(sps.Width), int(sps.Height)
				if int(sps.ParameterID) != p.head.SPSID {
					rt.Fatalf("sps id %d, want %d", sps.ParameterID, p.head.SPSID)
				}
				pps, err := avc.ParsePPSNALUnit(p.pps, map[uint32]*avc.SPS{sps.ParameterID: sps})
				if err != nil || int(pps.PicParameterSetID) != p.head.PPSID {
					rt.Fatalf("avc pps %x: %v %+v", p.pps, err, pps)
				}
			} else {
				sps, err := hevc.ParseSPSNALUnit(p.sps)
				if err != nil {
					rt.Fatalf("hevc sps %x: %v", p.sps, err)
				}
				ww, hh := sps.ImageSize()
				w, h = int(ww), int(hh)
				if int(sps.SpsID) != p.head.SPSID {
					rt.Fatalf("sps id %d, want %d", sps.SpsID, p.head.SPSID)
				}
				pps, err := hevc.ParsePPSNALUnit(p.pps, map[uint32]*hevc.SPS{uint32(sps.SpsID): sps})
				if err != nil || int(pps.PicParameterSetID) != p.head.PPSID {
					rt.Fatalf("hevc pps %x: %v %+v", p.pps, err, pps)
				}
			}
			if w != p.width || h != p.height {
				rt.Fatalf("%s: size %dx%d, written for %dx%d", p.codec, w, h, p.width, p.height)
			}
			box, err := mp4.DecodeBox(0, bytes.NewReader(p.stsd()))
			if err != nil {
				rt.Fatalf("stsd: %v", err)
			}
			stsd := box.(*mp4.StsdBox)
			var buf bytes.Buffer
			if err := stsd.Encode(&buf); err != nil || !bytes.Equal(buf.Bytes(), p.stsd()) {
				rt.Fatalf("stsd does not round-trip: %v\n%x\n%x", err, buf.Bytes(), p.stsd())
			}
			if p.codec == "avc" && (stsd.AvcX == nil || stsd.AvcX.AvcC == nil || len(stsd.AvcX.AvcC.SPSnalus) != 1) {
				rt.Fatalf("no avcC")
			}
			if p.codec == "hevc" && (stsd.HvcX == nil || stsd.HvcX.HvcC == nil || len(stsd.HvcX.HvcC.GetNalusForType(hevc.NALU_SPS)) != 1) {
				rt.Fatalf("no hvcC")
			}
		}
	})
}
