package c20

// Leg "held": objects that are kept while other objects are decoded. The job-mix leg runs decode + use as one
// step per job, so a decoder that hands out memory it later reuses (a buffer pool, a package-level scratch
// slice, a cached look-ahead) is only seen there when two goroutines happen to overlap. Here the order is
// forced: every item of a case is decoded first (one after the other, or by goroutines that wait for each other
// at a barrier), only then each decoded object is inspected and encoded, and the result must be what the same
// item gives when it is decoded and used alone. No interleaving is needed for a stale or shared buffer to show.

import (
	"bytes"
	"encoding/json"
	"fmt"
	"reflect"
	"strings"
	"sync"
	"testing"

	"github.com/Eyevinn/mp4ff/avc"
	"github.com/Eyevinn/mp4ff/bits"
	"github.com/Eyevinn/mp4ff/hevc"
	"github.com/Eyevinn/mp4ff/mp4"
	"github.com/Eyevinn/mp4ff/sei"
	"pgregory.net/rapid"

	"verif/internal/boxgen"
	"verif/internal/harness"
)

type heldCase struct {
	Kind  string             `json:"kind"`          // "box" | "file" | "es"
	Typ   string             `json:"typ,omitempty"` // box type; "es": codec ("avc" | "hevc")
	Items []harness.HexBytes `json:"items"`         // "es": bundles (bundleBytes of parameter sets, SEI NAL units, SEI payloads, samples)
	SR    []bool             `json:"sr"`            // per item: SliceReader decoder (else io.Reader)
	Par   bool               `json:"par,omitempty"` // the items are decoded by goroutines (barrier before the use)
	Rev   bool               `json:"rev,omitempty"` // the held objects are used in reverse order
	// Mutate: after all items are decoded, every exported field reachable from the FIRST object is overwritten
	// (what an owner may do with its own decoded structure); the first object is not used afterwards, the others
	// must still give the result of the run alone: independently decoded objects share no memory
	Mutate bool `json:"mutate,omitempty"`
	// OneBuffer: the io.Reader decodes of a sequential case all read from ONE *bytes.Buffer that the caller resets
	// and refills for every item (reuse of a reader object for the next input); what was decoded from it earlier
	// must not change
	OneBuffer bool `json:"oneBuffer,omitempty"`
}

func init() { harness.RegisterReplay("held", harness.Replayer(checkHeld)) }

type heldObj struct {
	box  mp4.Box
	file *mp4.File
	es   []interface{} // "es": values returned by the codec helpers (structs, messages, byte slices), not yet rendered
	err  string
}

// heldDecodeFrom is heldDecode (io.Reader path) reading from a caller-owned buffer that is refilled for every item.
func heldDecodeFrom(kind string, buf *bytes.Buffer, data []byte) (o heldObj) {
	defer func() {
		if r := recover(); r != nil {
			o = heldObj{err: "panic: " + errClass(fmt.Sprint(r))}
		}
	}()
	buf.Reset()
	buf.Write(data)
	if kind == "box" {
		b, err := mp4.DecodeBox(0, buf)
		if err != nil {
			return heldObj{err: "error: " + errClass(err.Error())}
		}
		return heldObj{box: b}
	}
	f, err := mp4.DecodeFile(buf)
	if err != nil {
		return heldObj{err: "error: " + errClass(err.Error())}
	}
	return heldObj{file: f}
}

func heldDecode(kind string, data []byte, sr bool) (o heldObj) {
	defer func() {
		if r := recover(); r != nil {
			o = heldObj{err: "panic: " + errClass(fmt.Sprint(r))}
		}
	}()
	d := clone(data) // every decode owns its input: aliasing the input is not what this leg is about
	switch kind {
	case "avc", "hevc":
		return heldObj{es: esCompute(kind, d)}
	case "box":
		var b mp4.Box
		var err error
		if sr {
			b, err = mp4.DecodeBoxSR(0, bits.NewFixedSliceReader(d))
		} else {
			b, err = mp4.DecodeBox(0, bytes.NewReader(d))
		}
		if err != nil {
			return heldObj{err: "error: " + errClass(err.Error())}
		}
		return heldObj{box: b}
	default:
		var f *mp4.File
		var err error
		if sr {
			f, err = mp4.DecodeFileSR(bits.NewFixedSliceReader(d))
		} else {
			f, err = mp4.DecodeFile(bytes.NewReader(d))
		}
		if err != nil {
			return heldObj{err: "error: " + errClass(err.Error())}
		}
		return heldObj{file: f}
	}
}

// heldUse: what a user does with a decoded object: dump it, encode it with both encoders.
func heldUse(o heldObj) (res string) {
	if o.err != "" {
		return o.err
	}
	defer func() {
		if r := recover(); r != nil {
			res = "panic in use: " + errClass(fmt.Sprint(r))
		}
	}()
	var sb strings.Builder
	var info, enc bytes.Buffer
	if o.es != nil {
		return esRender(o.es)
	}
	if o.box != nil {
		if err := o.box.Info(&info, "all:1", "", "  "); err != nil {
			sb.WriteString("info error: " + errClass(err.Error()) + "\n")
		}
		sb.WriteString(info.String())
		if err := o.box.Encode(&enc); err != nil {
			sb.WriteString("encode error: " + errClass(err.Error()) + "\n")
		} else {
			fmt.Fprintf(&sb, "enc %x\n", enc.Bytes())
		}
		sw := bits.NewFixedSliceWriter(int(o.box.Size()) + 16)
		if err := o.box.EncodeSW(sw); err != nil {
			sb.WriteString("encodesw error: " + errClass(err.Error()) + "\n")
		} else {
			fmt.Fprintf(&sb, "encsw %x\n", sw.Bytes())
		}
		return sb.String()
	}
	if err := o.file.Info(&info, "all:1", "", "  "); err != nil {
		sb.WriteString("info error: " + errClass(err.Error()) + "\n")
	}
	sb.WriteString(info.String())
	o.file.FragEncMode = mp4.EncModeBoxTree
	if err := o.file.Encode(&enc); err != nil {
		sb.WriteString("encode error: " + errClass(err.Error()) + "\n")
	} else {
		fmt.Fprintf(&sb, "enc %x\n", enc.Bytes())
	}
	// reading the samples of every fragment (with the trex of its track) is a read: the file encodes as before
	if o.file.Init != nil && o.file.Init.Moov != nil && o.file.Init.Moov.Mvex != nil {
		n := 0
		for _, sg := range o.file.Segments {
			for _, fr := range sg.Fragments {
				if fr.Moof == nil || fr.Mdat == nil {
					continue
				}
				for _, tf := range fr.Moof.Trafs {
					if tf.Tfhd == nil {
						continue
					}
					trex, _ := o.file.Init.Moov.Mvex.GetTrex(tf.Tfhd.TrackID)
					func() {
						defer func() { _ = recover() }()
						ss, err := fr.GetFullSamples(trex)
						if err == nil {
							n += len(ss)
						}
					}()
				}
			}
		}
		var again bytes.Buffer
		if err := o.file.Encode(&again); err == nil && enc.Len() > 0 && !bytes.Equal(again.Bytes(), enc.Bytes()) {
			fmt.Fprintf(&sb, "%s after reading %d samples the file encodes differently\n", readChangedMarker, n)
		}
	}
	return sb.String()
}

// esCompute runs the codec helpers on a bundle and returns what they returned, unrendered: parsed parameter sets,
// SEI messages and the slices their Payload() calls hand out, serialised typed messages, NAL unit lists.
func esCompute(codec string, bundle []byte) []interface{} {
	items, err := splitBundle(bundle)
	if err != nil {
		return []interface{}{"not a bundle"}
	}
	spss, ppss := itemsOf(items, 'S'), itemsOf(items, 'P')
	seis, samples, msgs := itemsOf(items, 'E'), itemsOf(items, 'D'), itemsOf(items, 'A')
	var out []interface{}
	keepMsgs := func(ms []sei.SEIMessage, err error) {
		out = append(out, fmt.Sprint(err))
		for _, m := range ms {
			out = append(out, m, m.Payload()) // the message and the slice Payload() handed out
		}
	}
	if codec == "avc" {
		spsMap := map[uint32]*avc.SPS{}
		var first *avc.SPS
		for _, n := range spss {
			if sps, err := avc.ParseSPSNALUnit(n, true); err == nil {
				spsMap[sps.ParameterID] = sps
				if first == nil {
					first = sps
				}
				out = append(out, sps)
			}
		}
		for _, n := range ppss {
			if pps, err := avc.ParsePPSNALUnit(n, spsMap); err == nil {
				out = append(out, pps)
			}
		}
		for _, n := range seis {
			keepMsgs(avc.ParseSEINalu(n, first))
		}
		for _, s := range samples {
			nalus, err := avc.GetNalusFromSample(s)
			out = append(out, nalus, fmt.Sprint(err))
			bs := avc.ConvertSampleToByteStream(clone(s))
			out = append(out, bs, avc.ExtractNalusFromByteStream(bs))
			if sp, pp := avc.GetParameterSets(s); len(sp)+len(pp) > 0 {
				out = append(out, sp, pp)
			}
		}
	} else {
		spsMap := map[uint32]*hevc.SPS{}
		var first *hevc.SPS
		for _, n := range spss {
			if sps, err := hevc.ParseSPSNALUnit(n); err == nil {
				spsMap[uint32(sps.SpsID)] = sps
				if first == nil {
					first = sps
				}
				out = append(out, sps)
			}
		}
		for _, n := range ppss {
			if pps, err := hevc.ParsePPSNALUnit(n, spsMap); err == nil {
				out = append(out, pps)
			}
		}
		for _, n := range seis {
			keepMsgs(hevc.ParseSEINalu(n, first))
		}
		for _, s := range samples {
			nalus, err := avc.GetNalusFromSample(s)
			out = append(out, nalus, fmt.Sprint(err))
			if v, sp, pp := hevc.GetParameterSets(s); len(v)+len(sp)+len(pp) > 0 {
				out = append(out, v, sp, pp)
			}
		}
	}
	// SEI payloads decoded one by one (type byte + payload), and typed messages serialised again
	for _, a := range msgs {
		if len(a) == 0 {
			continue
		}
		sd := sei.NewSEIData(uint(a[0]), clone(a[1:]))
		var m sei.SEIMessage
		var err error
		if codec == "avc" {
			m, err = sei.DecodeSEIMessage(sd, sei.AVC)
		} else {
			m, err = sei.DecodeSEIMessage(sd, sei.HEVC)
		}
		out = append(out, fmt.Sprint(err))
		if err == nil && m != nil {
			out = append(out, m, m.Payload())
		}
	}
	return out
}

func esRender(vals []interface{}) string {
	var sb strings.Builder
	for i, v := range vals {
		switch x := v.(type) {
		case string:
			fmt.Fprintf(&sb, "%d %s\n", i, x)
		case []byte:
			fmt.Fprintf(&sb, "%d bytes %x\n", i, x)
		case [][]byte:
			fmt.Fprintf(&sb, "%d list %x\n", i, x)
		case sei.SEIMessage:
			fmt.Fprintf(&sb, "%d sei %d %d %s %x\n", i, x.Type(), x.Size(), x.String(), x.Payload())
		default:
			fmt.Fprintf(&sb, "%d %s\n", i, jsonOf(x))
		}
	}
	return sb.String()
}

// scramble overwrites every exported field reachable from v: numbers +1, booleans flipped, strings extended,
// bytes of byte slices xor-ed. Unexported fields are left alone (an owner cannot reach them).
func scramble(v reflect.Value, seen map[uintptr]bool, depth int) {
	if depth > 40 || !v.IsValid() {
		return
	}
	switch v.Kind() {
	case reflect.Ptr:
		if v.IsNil() || seen[v.Pointer()] {
			return
		}
		seen[v.Pointer()] = true
		scramble(v.Elem(), seen, depth+1)
	case reflect.Interface:
		if !v.IsNil() {
			scramble(v.Elem(), seen, depth+1)
		}
	case reflect.Struct:
		t := v.Type()
		for i := 0; i < v.NumField(); i++ {
			if t.Field(i).PkgPath != "" { // unexported
				continue
			}
			scramble(v.Field(i), seen, depth+1)
		}
	case reflect.Slice:
		if v.IsNil() {
			return
		}
		if v.Len() > 0 {
			if p := v.Pointer(); seen[p] {
				return
			} else {
				seen[p] = true
			}
		}
		fallthrough
	case reflect.Array:
		for i := 0; i < v.Len() && i < 4096; i++ {
			scramble(v.Index(i), seen, depth+1)
		}
	case reflect.Int, reflect.Int8, reflect.Int16, reflect.Int32, reflect.Int64:
		if v.CanSet() {
			v.SetInt(v.Int() + 1)
		}
	case reflect.Uint, reflect.Uint8, reflect.Uint16, reflect.Uint32, reflect.Uint64:
		if v.CanSet() {
			if v.Kind() == reflect.Uint8 {
				v.SetUint(v.Uint() ^ 0x5a)
			} else {
				v.SetUint(v.Uint() + 1)
			}
		}
	case reflect.Bool:
		if v.CanSet() {
			v.SetBool(!v.Bool())
		}
	case reflect.String:
		if v.CanSet() {
			v.SetString(v.String() + "~")
		}
	}
}

const readChangedMarker = "READ-CHANGED-THE-FILE:"

func checkHeld(c heldCase) *harness.Fail {
	n := len(c.Items)
	if n < 2 || n > 8 || len(c.SR) != n || (c.Kind != "box" && c.Kind != "file" && c.Kind != "es") {
		return harness.Failf("harness|c20|bad-case", "held case with %d items", n)
	}
	kind := c.Kind
	if kind == "es" {
		kind = c.Typ
		if kind != "avc" && kind != "hevc" {
			return harness.Failf("harness|c20|bad-case", "held es case with codec %q", c.Typ)
		}
	}
	api := func(i int) string {
		if c.Kind == "es" {
			return c.Typ + " parameter set / SEI / NAL unit helpers"
		}
		name := map[string]string{"box": "DecodeBox", "file": "DecodeFile"}[c.Kind]
		if c.SR[i] {
			name += "SR"
		}
		return name
	}
	// alone: decode and use, one item after the other
	alone := make([]string, n)
	for i := range c.Items {
		alone[i] = heldUse(heldDecode(kind, c.Items[i], c.SR[i]))
	}
	for i := range alone {
		if k := strings.Index(alone[i], readChangedMarker); k >= 0 {
			return harness.Failf("C20|GetFullSamples|reading the samples of a decoded file changed what the file encodes to", "%s item %d: %s", c.Kind, i, firstLine(alone[i][k:], 200))
		}
	}
	// held: all decoded first
	objs := make([]heldObj, n)
	if c.Par {
		raceMu.Lock()
		before := raceErrors()
		report := captureStderr(func() {
			var wg sync.WaitGroup
			start := make(chan struct{})
			for i := range c.Items {
				wg.Add(1)
				go func(i int) {
					defer wg.Done()
					<-start
					objs[i] = heldDecode(kind, c.Items[i], c.SR[i])
				}(i)
			}
			close(start)
			wg.Wait()
		})
		after := raceErrors()
		raceMu.Unlock()
		if after > before {
			return harness.Failf("C20|race|"+raceKey(report), "%d data race report(s) while %d goroutines decoded %s items of type %q:\n%s", after-before, n, c.Kind, c.Typ, trimReport(report))
		}
	} else {
		var shared bytes.Buffer
		for i := range c.Items {
			if c.OneBuffer && !c.SR[i] && c.Kind != "es" {
				objs[i] = heldDecodeFrom(kind, &shared, c.Items[i])
			} else {
				objs[i] = heldDecode(kind, c.Items[i], c.SR[i])
			}
		}
		if c.OneBuffer {
			shared.Reset()
			shared.Write(bytes.Repeat([]byte{0xa5}, 4096)) // the caller goes on using its buffer
		}
	}
	if c.Mutate && c.Kind != "es" {
		func() {
			defer func() { _ = recover() }()
			switch {
			case objs[0].box != nil:
				scramble(reflect.ValueOf(objs[0].box), map[uintptr]bool{}, 0)
			case objs[0].file != nil:
				scramble(reflect.ValueOf(objs[0].file), map[uintptr]bool{}, 0)
			}
		}()
	}
	order := make([]int, n)
	for i := range order {
		order[i] = i
		if c.Rev {
			order[i] = n - 1 - i
		}
	}
	for _, i := range order {
		if c.Mutate && c.Kind != "es" && i == 0 {
			continue
		}
		got := heldUse(objs[i])
		if got != alone[i] {
			at := 0
			for at < len(got) && at < len(alone[i]) && got[at] == alone[i][at] {
				at++
			}
			lo := at - 60
			if lo < 0 {
				lo = 0
			}
			key := "C20|held:" + api(i) + "+Info+Encode|result of an object kept while others were decoded differs from the run alone"
			if c.Mutate {
				key = "C20|held:" + api(i) + "+Info+Encode|result changed after the exported fields of ANOTHER, independently decoded object were overwritten"
			}
			if c.Kind == "es" {
				key = "C20|held:" + c.Typ + " codec helpers|values returned earlier changed while the same calls ran on other input"
			}
			return harness.Failf(key,
				"%s item %d of %d (type %q, %d bytes): first difference at %d: held %q, alone %q", c.Kind, i, n, c.Typ, len(c.Items[i]), at, firstLine(got[lo:], 160), firstLine(alone[i][lo:], 160))
		}
	}
	return nil
}

func genHeld(t *rapid.T) heldCase {
	var c heldCase
	n := rapid.IntRange(2, 4).Draw(t, "nItems")
	if k := rapid.IntRange(0, 5).Draw(t, "heldKind"); k == 5 {
		// two bundles of parameter sets, SEI NAL units, SEI payloads and samples: the near-duplicate pair of the
		// job-mix inputs (same structure, ids and sizes; other values and last bytes)
		ins := genNalusInputs(t, true)
		c.Kind, c.Typ = "es", ins[0].Codec
		for _, in := range ins {
			b, err := bundleBytes(in.Items)
			if err != nil {
				t.Fatalf("bundle: %v", err)
			}
			c.Items = append(c.Items, b)
		}
		n = len(c.Items)
	} else if k == 0 {
		c.Kind = "file"
		kind := rapid.SampledFrom([]string{"prog", "init", "media", "frag"}).Draw(t, "synthKind")
		c.Typ = kind
		first := boxgen.File(t, kind, boxgen.Opt{})
		c.Items = append(c.Items, first)
		for i := 1; i < n; i++ {
			if rapid.Bool().Draw(t, "redrawn") {
				c.Items = append(c.Items, boxgen.File(t, kind, boxgen.Opt{}))
			} else {
				c.Items = append(c.Items, tweakTail(first, rapid.Byte().Draw(t, "tailXor")))
			}
		}
	} else {
		c.Kind = "box"
		switch rapid.IntRange(0, 3).Draw(t, "boxTypeFrom") {
		case 0, 1:
			c.Typ = boxgen.LeafTypes()[rapid.IntRange(0, len(boxgen.LeafTypes())-1).Draw(t, "leafType")]
		case 2:
			c.Typ = boxgen.ContainerTypes()[rapid.IntRange(0, len(boxgen.ContainerTypes())-1).Draw(t, "containerType")]
		default:
			c.Typ = tableBoxTypes[rapid.IntRange(0, len(tableBoxTypes)-1).Draw(t, "tableType")]
		}
		opt := boxgen.Opt{}
		first := boxgen.Box(t, c.Typ, opt)
		c.Items = append(c.Items, first)
		for i := 1; i < n; i++ {
			if rapid.IntRange(0, 2).Draw(t, "redrawn") != 0 {
				c.Items = append(c.Items, boxgen.Box(t, c.Typ, opt)) // same type, other content (and usually size)
			} else {
				c.Items = append(c.Items, tweakTail(first, rapid.Byte().Draw(t, "tailXor")))
			}
		}
	}
	pathMode := rapid.IntRange(0, 2).Draw(t, "paths") // all io.Reader, all SliceReader, mixed
	for i := 0; i < n; i++ {
		switch pathMode {
		case 0:
			c.SR = append(c.SR, false)
		case 1:
			c.SR = append(c.SR, true)
		default:
			c.SR = append(c.SR, rapid.Bool().Draw(t, "sr"))
		}
	}
	c.Par = rapid.IntRange(0, 2).Draw(t, "par") == 0
	c.Rev = rapid.Bool().Draw(t, "rev")
	c.Mutate = c.Kind != "es" && rapid.IntRange(0, 2).Draw(t, "mutate") == 0
	c.OneBuffer = c.Kind != "es" && !c.Par && rapid.IntRange(0, 2).Draw(t, "oneBuffer") == 0
	return c
}

func TestHeld(t *testing.T) {
	harness.RunRapid(t, "held", func(rt *rapid.T) {
		c := genHeld(rt)
		raw, _ := json.Marshal(c)
		distinct := false
		for i := 1; i < len(c.Items); i++ {
			distinct = distinct || !bytes.Equal(c.Items[i], c.Items[0])
		}
		classes := []string{"held-" + c.Kind, fmt.Sprintf("held-items-%d", len(c.Items))}
		if c.Kind == "es" {
			classes = append(classes, "held-es-"+c.Typ)
		}
		if c.Kind == "box" {
			classes = append(classes, "held-type-"+c.Typ)
		}
		if c.Par {
			classes = append(classes, "held-decoded-by-goroutines")
		}
		if c.Mutate {
			classes = append(classes, "held-first-object-overwritten-before-the-others-are-used")
		}
		if c.OneBuffer {
			classes = append(classes, "held-one-reused-bytes.Buffer-as-reader")
		}
		allSR, anySR := true, false
		for _, s := range c.SR {
			allSR, anySR = allSR && s, anySR || s
		}
		switch {
		case allSR:
			classes = append(classes, "held-path-slicereader")
		case !anySR:
			classes = append(classes, "held-path-reader")
		default:
			classes = append(classes, "held-path-mixed")
		}
		harness.Rec.Case(distinct, raw, classes...)
		if harness.Rec.WantSample() {
			harness.Rec.Sample(map[string]interface{}{"kind": "held", "what": c.Kind, "typ": c.Typ, "items": len(c.Items), "sr": c.SR, "par": c.Par, "first": harness.HexTrunc(c.Items[0], 48)})
		}
		f := harness.Guarded(func() *harness.Fail { return checkHeld(c) })
		harness.Report(rt, "held", c, f)
	})
}
