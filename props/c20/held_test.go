package c20

// Leg "held": objects that are kept while other objects are decoded. The job-mix leg runs decode + use as one
// step per job, so a decoder that hands out memory it later reuses (a buffer pool, a package-level scratch
// slice, a cached look-ahead) is only seen there when two goroutines happen to overlap. Here the order is
// forced: every item of a case is decoded first (one after the other, or by goroutines that wait for each other
// at a barrier), only then each decoded object is inspected and encoded, and the result must be what the same
// item gives when it is decoded and used alone. No interleaving is needed for a stale or shared buffer to show.

import (
	"bytes"
	"encoding/json"
	"fmt"
	"strings"
	"sync"
	"testing"

	"github.com/Eyevinn/mp4ff/bits"
	"github.com/Eyevinn/mp4ff/mp4"
	"pgregory.net/rapid"

	"verif/internal/boxgen"
	"verif/internal/harness"
)

type heldCase struct {
	Kind  string             `json:"kind"` // "box" | "file"
	Typ   string             `json:"typ,omitempty"`
	Items []harness.HexBytes `json:"items"`
	SR    []bool             `json:"sr"`            // per item: SliceReader decoder (else io.Reader)
	Par   bool               `json:"par,omitempty"` // the items are decoded by goroutines (barrier before the use)
	Rev   bool               `json:"rev,omitempty"` // the held objects are used in reverse order
}

func init() { harness.RegisterReplay("held", harness.Replayer(checkHeld)) }

type heldObj struct {
	box  mp4.Box
	file *mp4.File
	err  string
}

func heldDecode(kind string, data []byte, sr bool) (o heldObj) {
	defer func() {
		if r := recover(); r != nil {
			o = heldObj{err: "panic: " + errClass(fmt.Sprint(r))}
		}
	}()
	d := clone(data) // every decode owns its input: aliasing the input is not what this leg is about
	switch kind {
	case "box":
		var b mp4.Box
		var err error
		if sr {
			b, err = mp4.DecodeBoxSR(0, bits.NewFixedSliceReader(d))
		} else {
			b, err = mp4.DecodeBox(0, bytes.NewReader(d))
		}
		if err != nil {
			return heldObj{err: "error: " + errClass(err.Error())}
		}
		return heldObj{box: b}
	default:
		var f *mp4.File
		var err error
		if sr {
			f, err = mp4.DecodeFileSR(bits.NewFixedSliceReader(d))
		} else {
			f, err = mp4.DecodeFile(bytes.NewReader(d))
		}
		if err != nil {
			return heldObj{err: "error: " + errClass(err.Error())}
		}
		return heldObj{file: f}
	}
}

// heldUse: what a user does with a decoded object: dump it, encode it with both encoders.
func heldUse(o heldObj) (res string) {
	if o.err != "" {
		return o.err
	}
	defer func() {
		if r := recover(); r != nil {
			res = "panic in use: " + errClass(fmt.Sprint(r))
		}
	}()
	var sb strings.Builder
	var info, enc bytes.Buffer
	if o.box != nil {
		if err := o.box.Info(&info, "all:1", "", "  "); err != nil {
			sb.WriteString("info error: " + errClass(err.Error()) + "\n")
		}
		sb.WriteString(info.String())
		if err := o.box.Encode(&enc); err != nil {
			sb.WriteString("encode error: " + errClass(err.Error()) + "\n")
		} else {
			fmt.Fprintf(&sb, "enc %x\n", enc.Bytes())
		}
		sw := bits.NewFixedSliceWriter(int(o.box.Size()) + 16)
		if err := o.box.EncodeSW(sw); err != nil {
			sb.WriteString("encodesw error: " + errClass(err.Error()) + "\n")
		} else {
			fmt.Fprintf(&sb, "encsw %x\n", sw.Bytes())
		}
		return sb.String()
	}
	if err := o.file.Info(&info, "all:1", "", "  "); err != nil {
		sb.WriteString("info error: " + errClass(err.Error()) + "\n")
	}
	sb.WriteString(info.String())
	o.file.FragEncMode = mp4.EncModeBoxTree
	if err := o.file.Encode(&enc); err != nil {
		sb.WriteString("encode error: " + errClass(err.Error()) + "\n")
	} else {
		fmt.Fprintf(&sb, "enc %x\n", enc.Bytes())
	}
	return sb.String()
}

func checkHeld(c heldCase) *harness.Fail {
	n := len(c.Items)
	if n < 2 || n > 8 || len(c.SR) != n || (c.Kind != "box" && c.Kind != "file") {
		return harness.Failf("harness|c20|bad-case", "held case with %d items", n)
	}
	api := func(i int) string {
		name := map[string]string{"box": "DecodeBox", "file": "DecodeFile"}[c.Kind]
		if c.SR[i] {
			name += "SR"
		}
		return name
	}
	// alone: decode and use, one item after the other
	alone := make([]string, n)
	for i := range c.Items {
		alone[i] = heldUse(heldDecode(c.Kind, c.Items[i], c.SR[i]))
	}
	// held: all decoded first
	objs := make([]heldObj, n)
	if c.Par {
		raceMu.Lock()
		before := raceErrors()
		report := captureStderr(func() {
			var wg sync.WaitGroup
			start := make(chan struct{})
			for i := range c.Items {
				wg.Add(1)
				go func(i int) {
					defer wg.Done()
					<-start
					objs[i] = heldDecode(c.Kind, c.Items[i], c.SR[i])
				}(i)
			}
			close(start)
			wg.Wait()
		})
		after := raceErrors()
		raceMu.Unlock()
		if after > before {
			return harness.Failf("C20|race|"+raceKey(report), "%d data race report(s) while %d goroutines decoded %s items of type %q:\n%s", after-before, n, c.Kind, c.Typ, trimReport(report))
		}
	} else {
		for i := range c.Items {
			objs[i] = heldDecode(c.Kind, c.Items[i], c.SR[i])
		}
	}
	order := make([]int, n)
	for i := range order {
		order[i] = i
		if c.Rev {
			order[i] = n - 1 - i
		}
	}
	for _, i := range order {
		got := heldUse(objs[i])
		if got != alone[i] {
			at := 0
			for at < len(got) && at < len(alone[i]) && got[at] == alone[i][at] {
				at++
			}
			lo := at - 60
			if lo < 0 {
				lo = 0
			}
			return harness.Failf("C20|held:"+api(i)+"+Info+Encode|result of an object kept while others were decoded differs from the run alone",
				"%s item %d of %d (type %q, %d bytes): first difference at %d: held %q, alone %q", c.Kind, i, n, c.Typ, len(c.Items[i]), at, firstLine(got[lo:], 160), firstLine(alone[i][lo:], 160))
		}
	}
	return nil
}

func genHeld(t *rapid.T) heldCase {
	var c heldCase
	n := rapid.IntRange(2, 4).Draw(t, "nItems")
	if rapid.IntRange(0, 4).Draw(t, "heldFiles") == 0 {
		c.Kind = "file"
		kind := rapid.SampledFrom([]string{"prog", "init", "media", "frag"}).Draw(t, "synthKind")
		c.Typ = kind
		first := boxgen.File(t, kind, boxgen.Opt{})
		c.Items = append(c.Items, first)
		for i := 1; i < n; i++ {
			if rapid.Bool().Draw(t, "redrawn") {
				c.Items = append(c.Items, boxgen.File(t, kind, boxgen.Opt{}))
			} else {
				c.Items = append(c.Items, tweakTail(first, rapid.Byte().Draw(t, "tailXor")))
			}
		}
	} else {
		c.Kind = "box"
		switch rapid.IntRange(0, 3).Draw(t, "boxTypeFrom") {
		case 0, 1:
			c.Typ = boxgen.LeafTypes()[rapid.IntRange(0, len(boxgen.LeafTypes())-1).Draw(t, "leafType")]
		case 2:
			c.Typ = boxgen.ContainerTypes()[rapid.IntRange(0, len(boxgen.ContainerTypes())-1).Draw(t, "containerType")]
		default:
			c.Typ = tableBoxTypes[rapid.IntRange(0, len(tableBoxTypes)-1).Draw(t, "tableType")]
		}
		opt := boxgen.Opt{}
		first := boxgen.Box(t, c.Typ, opt)
		c.Items = append(c.Items, first)
		for i := 1; i < n; i++ {
			if rapid.IntRange(0, 2).Draw(t, "redrawn") != 0 {
				c.Items = append(c.Items, boxgen.Box(t, c.Typ, opt)) // same type, other content (and usually size)
			} else {
				c.Items = append(c.Items, tweakTail(first, rapid.Byte().Draw(t, "tailXor")))
			}
		}
	}
	pathMode := rapid.IntRange(0, 2).Draw(t, "paths") // all io.Reader, all SliceReader, mixed
	for i := 0; i < n; i++ {
		switch pathMode {
		case 0:
			c.SR = append(c.SR, false)
		case 1:
			c.SR = append(c.SR, true)
		default:
			c.SR = append(c.SR, rapid.Bool().Draw(t, "sr"))
		}
	}
	c.Par = rapid.IntRange(0, 2).Draw(t, "par") == 0
	c.Rev = rapid.Bool().Draw(t, "rev")
	return c
}

func TestHeld(t *testing.T) {
	harness.RunRapid(t, "held", func(rt *rapid.T) {
		c := genHeld(rt)
		raw, _ := json.Marshal(c)
		distinct := false
		for i := 1; i < len(c.Items); i++ {
			distinct = distinct || !bytes.Equal(c.Items[i], c.Items[0])
		}
		classes := []string{"held-" + c.Kind, fmt.Sprintf("held-items-%d", len(c.Items))}
		if c.Kind == "box" {
			classes = append(classes, "held-type-"+c.Typ)
		}
		if c.Par {
			classes = append(classes, "held-decoded-by-goroutines")
		}
		allSR, anySR := true, false
		for _, s := range c.SR {
			allSR, anySR = allSR && s, anySR || s
		}
		switch {
		case allSR:
			classes = append(classes, "held-path-slicereader")
		case !anySR:
			classes = append(classes, "held-path-reader")
		default:
			classes = append(classes, "held-path-mixed")
		}
		harness.Rec.Case(distinct, raw, classes...)
		if harness.Rec.WantSample() {
			harness.Rec.Sample(map[string]interface{}{"kind": "held", "what": c.Kind, "typ": c.Typ, "items": len(c.Items), "sr": c.SR, "par": c.Par, "first": harness.HexTrunc(c.Items[0], 48)})
		}
		f := harness.Guarded(func() *harness.Fail { return checkHeld(c) })
		harness.Report(rt, "held", c, f)
	})
}
