// C20 — independent objects can be used from concurrent goroutines; the library has no hidden shared mutable
// state; a call is a pure function of its inputs.
//
// rapid draws a pool of inputs and a job list, one job per goroutine (2..16). Inputs:
//   - files: harness-written progressive and fragmented files (video samples are length-prefixed NAL units, the
//     video sample entry is the harvested avc1 of the repository or carries GENERATED AVC / HEVC parameter sets),
//     files of the grammar generator internal/boxgen, a few files of the repository;
//   - "box": one box of internal/boxgen (weighted towards the types whose decoders / Info / accessors read
//     package-level tables or go through a second registry: prft, dac3, dec3, esds, uuid, sgpd, ...);
//   - "nalus": a bundle of parameter sets, SEI NAL units, SEI payloads and samples in ONE shared slice;
//   - near-duplicate pairs (class near-duplicate-inputs): every generated kind comes, one time in three, with a
//     sibling that has the same leading bytes, the same box types and sizes, the same parameter-set ids, and
//     different content behind them (picture size, QP, last bytes of every sample / of the box).
//
// Jobs: file jobs decode "their" input from the SHARED, read-only byte slice (mp4.DecodeFile over a private
// bytes.Reader / bytes.Buffer, or mp4.DecodeFileSR over the shared slice itself) and then work only on the
// structures they decoded: Info dump, Encode / EncodeSW in both fragment encode modes, sample extraction, lazy
// decode + CopySampleData, InitProtect + EncryptFragment (cenc, cbcs), DecryptInit + DecryptSegment, Annex-B
// conversions and parameter-set / SEI parsing on private copies of the sample bytes. Box jobs: DecodeBox /
// DecodeBoxSR -> Info -> Encode / EncodeSW plus the table-reading accessors. Bundle jobs: parse the parameter
// sets / SEI / slice headers straight from the shared slice, and the WRITER side: CreateEmptyInit + AddEmptyTrack
// + SetAVCDescriptor / SetHEVCDescriptor (+ AAC / AC-3 / E-AC-3 descriptors), CreateFragment /
// CreateMultiTrackFragment + AddFullSample(ToTrack) + MediaSegment.Encode, CreateAVCDecConfRec /
// CreateHEVCDecConfRec / CreateAvcC / CreateHvcC, SEI message construction + WriteSEIMessages - all over
// sub-slices of the shared slice (capacity not clipped, so that an append of the library lands in the shared
// slice as well). The box-decoder registry is never touched.
//
// Oracle:
//   - all jobs run in parallel goroutines released by one barrier; the number of race reports of the race
//     detector (runtime.RaceErrors, package built with -race) must not grow; the report itself is captured from
//     stderr and the library frames of the two accesses form the failure key;
//   - every job is also run alone (first pass, order A). By default AFTER the goroutines, so that the
//     goroutines meet the package state as cold as the process has it (a memoising or lazily initialised
//     package-level variable would be warmed up by the reference run and then only be read); with seqFirst
//     beforehand. After each single job every shared input slice must still equal its pristine copy (a decoder
//     that aliases the caller's buffer and later writes through it, a builder that writes into or appends to the
//     caller's slices, is found here deterministically, race window or not; in-place crypto writes happen in
//     assembly, which the race detector does not see);
//   - every goroutine's outcome (bytes, error text, panic message) equals the outcome of the same job run alone.
//     A job that panics alone, and the same way in its goroutine, is not a C20 matter (crash properties): class
//     job-panics-alone, excluded and counted, message in the evidence notes;
//   - history independence in the process: every job once more, alone, in REVERSE order, each right after polluter
//     calls of the same action on (1) another input of the case, (2) its near-duplicate sibling, (3) a derived
//     near-duplicate of its own input; the outcome must equal the first pass;
//   - history independence across processes (fresh = 1 | 2, one case in five): the jobs are computed by this
//     test binary started again as a worker - one process that runs them in reverse order, or one process per
//     job - and must give the outcome of the first pass. This is the only comparison that sees a memo which keeps
//     the FIRST value per key: it is self-consistent within one process whatever the order;
//   - the shared slices still equal their pristine copies after the goroutines ran.
//
// The test binary is meant to be built with `go test -race`; without -race everything but the race reports is still checked.
package c20

import (
	"bytes"
	"encoding/hex"
	"encoding/json"
	"fmt"
	"os"
	"path/filepath"
	"regexp"
	"sort"
	"strings"
	"sync"
	"sync/atomic"
	"testing"

	"github.com/Eyevinn/mp4ff/avc"
	"github.com/Eyevinn/mp4ff/bits"
	"github.com/Eyevinn/mp4ff/hevc"
	"github.com/Eyevinn/mp4ff/mp4"
	"pgregory.net/rapid"

	"verif/internal/boxgen"
	"verif/internal/fragbuild"
	"verif/internal/harness"
	"verif/internal/mp4build"
)

func TestMain(m *testing.M) {
	if os.Getenv(workerEnv) != "" {
		workerMain() // a fresh process started by checkFresh: no test runs, no evidence is written
		return
	}
	harness.Main(m)
}

func init() {
	harness.RegisterReplay("jobmix", harness.Replayer(checkJobMix))
	// development aid: VERIF_C20_NOAVOID=all or a comma-separated list of switch names evaluates the
	// known-defect argument classes as well
	if v := os.Getenv("VERIF_C20_NOAVOID"); v == "all" {
		avoidKnown = map[string]bool{}
	} else if v != "" {
		for _, name := range strings.Split(v, ",") {
			delete(avoidKnown, name)
		}
	}
}

func TestReplay(t *testing.T) { harness.ReplayPath(t) }

// avoidKnown lists the confirmed library defects whose argument class is avoided (and counted) so that the
// search continues behind them. Each name has a reproducer /verif/replay/C20/kf-<name>.json (those cases
// carry "noAvoid": true, so replaying them shows the failure).
var avoidKnown = map[string]bool{
	// mp4.DecodeFileSR / DecodeMdatSR keep a sub-slice of the caller's buffer as MdatBox.Data
	// (bits.FixedSliceReader.ReadBytes), Fragment.GetFullSamples hands out sub-slices of that, and
	// DecryptSegment / EncryptFragment (CryptSampleCenc, cryptSampleCbcs) work in place: the caller's input
	// buffer is overwritten, and two goroutines that decode the same shared slice with DecodeFileSR race.
	// Avoided: a job "DecodeFileSR + decrypt/encrypt" gets a private copy of the input instead of the shared slice.
	"sr-decode-crypt-writes-shared-input": true,
}

type input struct {
	Kind    string                `json:"kind"`           // "prog" | "frag" | "repo" | "synth" | "box" | "nalus"
	Data    harness.HexBytes      `json:"data,omitempty"` // "synth": a file written by the grammar generator internal/boxgen
	Tracks  []mp4build.Track      `json:"tracks,omitempty"`
	Layout  *mp4build.ProgLayout  `json:"layout,omitempty"`
	FTracks []fragbuild.Track     `json:"ftracks,omitempty"`
	FLayout *fragbuild.FileLayout `json:"flayout,omitempty"`
	Paths   []string              `json:"paths,omitempty"` // "repo": files of the checkout, concatenated (init + segment)
	Key     string                `json:"key,omitempty"`   // hex key of an encrypted repository file
	Typ     string                `json:"typ,omitempty"`   // "box": the type the single box in Data was generated for
	Codec   string                `json:"codec,omitempty"` // "nalus": "avc" | "hevc"
	Items   []psItem              `json:"items,omitempty"` // "nalus": parameter sets, SEI, samples in one shared slice
	// Sib: 1 + index of the near-duplicate sibling of this input (same leading bytes / same ids and sizes,
	// different content behind them), 0: none
	Sib int `json:"sib,omitempty"`
}

type job struct {
	Input int    `json:"input"`
	SR    bool   `json:"sr,omitempty"`  // decode with mp4.DecodeFileSR over the shared slice (else mp4.DecodeFile over a bytes.Reader)
	Buf   bool   `json:"buf,omitempty"` // DecodeFile over a *bytes.Buffer that wraps the shared slice (read only) instead of a bytes.Reader
	Act   string `json:"act"`
	Mode  int    `json:"mode,omitempty"` // File.FragEncMode for the encoding actions
}

type jobMixCase struct {
	Inputs []input `json:"inputs"`
	Jobs   []job   `json:"jobs"` // one goroutine each
	// SeqFirst: compute the sequential reference before the goroutines run (default: afterwards)
	SeqFirst bool `json:"seqFirst,omitempty"`
	NoAvoid  bool `json:"noAvoid,omitempty"`
	// Fresh: 1 = every job is also computed in ONE fresh process (jobs in reverse order), 2 = every job in a
	// fresh process of its own; the results must equal those of this process. 0: no fresh process.
	Fresh int `json:"fresh,omitempty"`
}

func (j job) crypt() bool { return j.Act == "decrypt" || strings.HasPrefix(j.Act, "encrypt-") }

func (j job) apiName() string {
	if isNaluAct(j.Act) {
		return j.Act
	}
	if j.Act == "box" {
		if j.SR {
			return "DecodeBoxSR+Info+Encode"
		}
		return "DecodeBox+Info+Encode"
	}
	dec := "DecodeFile"
	if j.SR && j.Act != "lazycopy" {
		dec = "DecodeFileSR"
	}
	switch j.Act {
	case "decrypt":
		return dec + "+DecryptSegment"
	case "encrypt-cenc", "encrypt-cbcs":
		return dec + "+EncryptFragment"
	}
	return dec + "+" + j.Act
}

type stats struct {
	skipped     map[string]int64
	outcomes    map[string]int64 // how the jobs ended when run alone
	panicsAlone int64
	panicMsgs   []string // api + message of the jobs that panic alone
	polluters   int64    // polluter calls made in the reverse pass
	freshProcs  int64    // fresh processes started
	freshJobs   int64    // jobs compared with a fresh process
}

func errClass(s string) string {
	out := make([]byte, 0, len(s))
	for i := 0; i < len(s) && len(out) < 56; i++ {
		if s[i] >= '0' && s[i] <= '9' {
			if n := len(out); n == 0 || out[n-1] != 'N' {
				out = append(out, 'N')
			}
			continue
		}
		out = append(out, s[i])
	}
	return string(out)
}

func (c *jobMixCase) avoid(st *stats, name string) bool {
	if c.NoAvoid || !avoidKnown[name] {
		return false
	}
	if st.skipped == nil {
		st.skipped = map[string]int64{}
	}
	st.skipped[name]++
	return true
}

// ---------------------------------------------------------------------------------------------
// inputs

var (
	fileMu    sync.Mutex
	fileCache = map[string][]byte{}
	stsdOnce  sync.Once
	fVid, fAu []byte
	stsdErr   error
)

func fragStsd() ([]byte, []byte, error) {
	stsdOnce.Do(func() { fVid, fAu, stsdErr = fragbuild.HarvestStsd(harness.E.RepoDir) })
	return fVid, fAu, stsdErr
}

func repoFile(rel string) ([]byte, error) {
	if rel == "" || strings.Contains(rel, "..") {
		return nil, fmt.Errorf("path %q", rel)
	}
	fileMu.Lock()
	defer fileMu.Unlock()
	if b, ok := fileCache[rel]; ok {
		return b, nil
	}
	b, err := os.ReadFile(filepath.Join(harness.E.RepoDir, rel))
	if err != nil {
		return nil, err
	}
	fileCache[rel] = b
	return b, nil
}

// materialise returns a fresh copy of the input bytes.
func (in *input) materialise() ([]byte, error) {
	switch in.Kind {
	case "prog":
		if in.Layout == nil {
			return nil, fmt.Errorf("no layout")
		}
		file, _, err := mp4build.BuildProgressive(in.Tracks, *in.Layout)
		return file, err
	case "frag":
		if in.FLayout == nil {
			return nil, fmt.Errorf("no layout")
		}
		init, segs, truth, err := fragbuild.Build(in.FTracks, *in.FLayout)
		if err != nil {
			return nil, err
		}
		return fragbuild.Concat(init, segs, truth), nil
	case "synth", "box":
		if len(in.Data) == 0 {
			return nil, fmt.Errorf("no data")
		}
		return clone(in.Data), nil
	case "nalus":
		return bundleBytes(in.Items)
	case "repo":
		var out []byte
		for _, p := range in.Paths {
			b, err := repoFile(p)
			if err != nil {
				return nil, err
			}
			out = append(out, b...)
		}
		if len(out) == 0 {
			return nil, fmt.Errorf("no paths")
		}
		return out, nil
	}
	return nil, fmt.Errorf("kind %q", in.Kind)
}

// ---------------------------------------------------------------------------------------------
// jobs

var (
	// cryptArgs: IV (16 bytes, or its first 8), key (16 bytes), 16 spare bytes: one backing array, shared read-only
	cryptArgs         = append(append(append([]byte{}, encIV...), encKey...), 0xa1, 0xa2, 0xa3, 0xa4, 0xa5, 0xa6, 0xa7, 0xa8, 0xa9, 0xaa, 0xab, 0xac, 0xad, 0xae, 0xaf, 0xb0)
	cryptArgsPristine = append([]byte{}, cryptArgs...)
	cryptArgsModified atomic.Bool
	encKey            = []byte{0x00, 0x11, 0x22, 0x33, 0x44, 0x55, 0x66, 0x77, 0x88, 0x99, 0xaa, 0xbb, 0xcc, 0xdd, 0xee, 0xff}
	encIV             = []byte{0x10, 0x21, 0x32, 0x43, 0x54, 0x65, 0x76, 0x87, 0x98, 0xa9, 0xba, 0xcb, 0xdc, 0xed, 0xfe, 0x0f}
	encKID            = "11112222333344445555666677778888"
	infoLvl           = "all:1"
)

type result struct {
	out   []byte
	err   string // error text of the library call that ended the job, "" if it ran to its end
	panic string // recovered panic with stack
}

// jsonOf is a deterministic dump (no pointer values as %+v would print).
func jsonOf(v interface{}) string {
	b, err := json.Marshal(v)
	if err != nil {
		return "json: " + err.Error()
	}
	return string(b)
}

func clone(b []byte) []byte { return append([]byte(nil), b...) }

// progSamples returns the bytes of all samples of a track of a progressive file decoded in memory.
func progSamples(f *mp4.File, trak *mp4.TrakBox) ([][]byte, []mp4.Sample, error) {
	n := trak.GetNrSamples()
	if n == 0 {
		return nil, nil, nil
	}
	meta, err := trak.GetSampleData(1, n)
	if err != nil {
		return nil, nil, fmt.Errorf("GetSampleData: %w", err)
	}
	var buf bytes.Buffer
	if err := f.CopySampleData(&buf, nil, trak, 1, n, nil); err != nil {
		return nil, nil, fmt.Errorf("CopySampleData: %w", err)
	}
	all := buf.Bytes()
	out := make([][]byte, 0, n)
	pos := 0
	for _, s := range meta {
		if pos+int(s.Size) > len(all) {
			return nil, nil, fmt.Errorf("sample sizes exceed the copied data")
		}
		out = append(out, all[pos:pos+int(s.Size)])
		pos += int(s.Size)
	}
	return out, meta, nil
}

type videoTrack struct {
	codec   string // "avc" | "hevc"
	stsd    *mp4.StsdBox
	samples [][]byte // aliases of the decoded structures: copy before any in-place call
}

// videoTracks collects the avc/hevc tracks of a decoded file with (up to max) samples each.
func videoTracks(f *mp4.File, max int) ([]videoTrack, error) {
	moov := f.Moov
	if moov == nil {
		return nil, nil
	}
	var out []videoTrack
	for _, trak := range moov.Traks {
		if trak.Mdia == nil || trak.Mdia.Minf == nil || trak.Mdia.Minf.Stbl == nil || trak.Mdia.Minf.Stbl.Stsd == nil {
			continue
		}
		stsd := trak.Mdia.Minf.Stbl.Stsd
		vt := videoTrack{stsd: stsd}
		switch {
		case stsd.AvcX != nil && stsd.AvcX.AvcC != nil:
			vt.codec = "avc"
		case stsd.HvcX != nil && stsd.HvcX.HvcC != nil:
			vt.codec = "hevc"
		default:
			continue
		}
		if !f.IsFragmented() {
			if f.Mdat != nil && !f.Mdat.IsLazy() {
				ss, _, err := progSamples(f, trak)
				if err != nil {
					return nil, err
				}
				vt.samples = ss
			}
		} else if moov.Mvex != nil {
			for _, trex := range moov.Mvex.Trexs {
				if trex.TrackID != trak.Tkhd.TrackID {
					continue
				}
				for _, seg := range f.Segments {
					for _, fr := range seg.Fragments {
						if fr.Moof == nil || fr.Mdat == nil {
							continue
						}
						fss, err := fr.GetFullSamples(trex)
						if err != nil {
							return nil, fmt.Errorf("GetFullSamples: %w", err)
						}
						for _, fs := range fss {
							vt.samples = append(vt.samples, fs.Data)
						}
					}
				}
			}
		}
		if len(vt.samples) > max {
			vt.samples = vt.samples[:max]
		}
		out = append(out, vt)
	}
	return out, nil
}

// runJobRecovered is runJob with a panic turned into a result (compared like output and error text).
func runJobRecovered(j job, in *input, shared []byte, private bool) (res result) {
	defer func() {
		if r := recover(); r != nil {
			res = result{panic: fmt.Sprintf("panic: %v", r)}
		}
	}()
	return runJob(j, in, shared, private)
}

// runJob executes one job on the shared bytes. private: hand DecodeFileSR a private copy instead.
func runJob(j job, in *input, shared []byte, private bool) (res result) {
	// a panic is not recovered here (runJobRecovered)
	key := in.Key
	if isNaluAct(j.Act) {
		return runNaluJob(j, in.Codec, shared)
	}
	if j.Act == "box" {
		return runBoxJob(j, shared)
	}
	var w bytes.Buffer
	fail := func(what string, err error) result {
		return result{out: w.Bytes(), err: what + ": " + err.Error()}
	}
	var f *mp4.File
	var err error
	switch {
	case j.Act == "lazycopy":
		rs := bytes.NewReader(shared)
		f, err = mp4.DecodeFile(rs, mp4.WithDecodeMode(mp4.DecModeLazyMdat))
		if err != nil {
			return fail("DecodeFile(lazy)", err)
		}
		if f.IsFragmented() || f.Moov == nil || f.Mdat == nil {
			return result{err: "lazycopy: not a progressive file"}
		}
		ws := make([]byte, 16)
		for ti, trak := range f.Moov.Traks {
			n := trak.GetNrSamples()
			if n == 0 {
				continue
			}
			fmt.Fprintf(&w, "track %d: %d samples\n", ti, n)
			if err := f.CopySampleData(&w, rs, trak, 1, n, ws); err != nil {
				return fail("CopySampleData", err)
			}
			if n > 1 {
				if err := f.CopySampleData(&w, rs, trak, n/2+1, n, nil); err != nil {
					return fail("CopySampleData", err)
				}
			}
		}
		if f.Mdat.IsLazy() && f.Mdat.GetLazyDataSize() > 1 {
			d, err := f.Mdat.ReadData(int64(f.Mdat.PayloadAbsoluteOffset()), int64(f.Mdat.GetLazyDataSize())-1, rs)
			if err != nil {
				return fail("ReadData", err)
			}
			w.Write(d)
		}
		return result{out: w.Bytes()}
	case j.SR:
		data := shared
		if private {
			data = clone(shared)
		}
		f, err = mp4.DecodeFileSR(bits.NewFixedSliceReader(data))
		if err != nil {
			return fail("DecodeFileSR", err)
		}
	case j.Buf:
		f, err = mp4.DecodeFile(bytes.NewBuffer(shared[:len(shared):len(shared)]))
		if err != nil {
			return fail("DecodeFile(bytes.Buffer)", err)
		}
	default:
		f, err = mp4.DecodeFile(bytes.NewReader(shared))
		if err != nil {
			return fail("DecodeFile", err)
		}
	}

	switch j.Act {
	case "decode":
		fmt.Fprintf(&w, "fragmented=%v size=%d segments=%d\n", f.IsFragmented(), f.Size(), len(f.Segments))
		for _, b := range f.Children {
			fmt.Fprintf(&w, "%s %d\n", b.Type(), b.Size())
		}
	case "info":
		if err := f.Info(&w, infoLvl, "", "  "); err != nil {
			return fail("Info", err)
		}
	case "encode":
		f.FragEncMode = mp4.EncFragFileMode(j.Mode & 1)
		if err := f.Encode(&w); err != nil {
			return fail("Encode", err)
		}
	case "encodeSW":
		f.FragEncMode = mp4.EncFragFileMode(j.Mode & 1)
		sw := bits.NewFixedSliceWriter(int(f.Size()) + 64)
		if err := f.EncodeSW(sw); err != nil {
			return fail("EncodeSW", err)
		}
		w.Write(sw.Bytes())
	case "mutate", "brands":
		// the decoded structure is this goroutine's own: changing it must not reach the shared input or the
		// structures other goroutines decoded from it ("brands": only appends and header fields, no write into
		// sample data, so that it also runs on the shared slice after DecodeFileSR, which aliases mdat data)
		inPlace := j.Act == "mutate"
		if f.Ftyp != nil {
			f.Ftyp.AddCompatibleBrands([]string{"vrf1", "vrf2", "vrf3", "vrf4", "vrf5", "vrf6"})
		}
		for _, seg := range f.Segments {
			if seg.Styp != nil {
				seg.Styp.AddCompatibleBrands([]string{"vrf1", "vrf2", "vrf3", "vrf4"})
			}
			for _, fr := range seg.Fragments {
				if inPlace && fr.Mdat != nil && len(fr.Mdat.Data) > 0 {
					fr.Mdat.Data[0] ^= 0xff
					fr.Mdat.Data[len(fr.Mdat.Data)-1] ^= 0xff
				}
				if fr.Moof != nil && fr.Moof.Mfhd != nil {
					fr.Moof.Mfhd.SequenceNumber += 1000
				}
			}
		}
		if inPlace && f.Mdat != nil && len(f.Mdat.Data) > 0 {
			f.Mdat.Data[0] ^= 0xff
			f.Mdat.Data[len(f.Mdat.Data)-1] ^= 0xff
		}
		if f.Moov != nil && f.Moov.Mvhd != nil {
			f.Moov.Mvhd.NextTrackID += 7
			for _, trak := range f.Moov.Traks {
				if trak.Mdia != nil && trak.Mdia.Hdlr != nil {
					trak.Mdia.Hdlr.Name += " (changed)"
				}
			}
		}
		// every uuid box of the tree gets another identity through its setter
		var walk func(bs []mp4.Box, depth int)
		walk = func(bs []mp4.Box, depth int) {
			for _, b := range bs {
				if u, ok := b.(*mp4.UUIDBox); ok {
					_ = u.SetUUID("00112233-4455-6677-8899-aabbccddeeff")
				}
				if c, ok := b.(interface{ GetChildren() []mp4.Box }); ok && depth < 12 {
					walk(c.GetChildren(), depth+1)
				}
			}
		}
		walk(f.Children, 0)
		f.FragEncMode = mp4.EncFragFileMode(j.Mode & 1)
		if err := f.Encode(&w); err != nil {
			return fail("Encode", err)
		}
	case "samples":
		if !f.IsFragmented() {
			if f.Moov == nil || f.Mdat == nil {
				return result{err: "samples: no moov/mdat"}
			}
			for ti, trak := range f.Moov.Traks {
				ss, meta, err := progSamples(f, trak)
				if err != nil {
					return fail("samples", err)
				}
				for i, s := range ss {
					fmt.Fprintf(&w, "t%d s%d %+v %x\n", ti, i+1, meta[i], s)
				}
			}
		} else {
			if f.Init == nil || f.Init.Moov == nil || f.Init.Moov.Mvex == nil {
				return result{err: "samples: no init/mvex"}
			}
			for si, seg := range f.Segments {
				for fi, fr := range seg.Fragments {
					if fr.Moof == nil || fr.Mdat == nil {
						continue
					}
					for _, trex := range f.Init.Moov.Mvex.Trexs {
						fss, err := fr.GetFullSamples(trex)
						if err != nil {
							fmt.Fprintf(&w, "seg %d frag %d track %d: %v\n", si, fi, trex.TrackID, err)
							continue
						}
						for i, fs := range fss {
							fmt.Fprintf(&w, "seg %d frag %d track %d s%d %+v t=%d %x\n", si, fi, trex.TrackID, i, fs.Sample, fs.DecodeTime, fs.Data)
						}
					}
				}
			}
		}
	case "encrypt-cenc", "encrypt-cbcs":
		scheme := strings.TrimPrefix(j.Act, "encrypt-")
		if !f.IsFragmented() || f.Init == nil || f.Init.Moov == nil || f.Init.Moov.Mvex == nil || f.Init.Moov.Mvex.Trex == nil {
			return result{err: "encrypt: not a fragmented file with init"}
		}
		kid, err := mp4.NewUUIDFromString(encKID)
		if err != nil {
			return fail("NewUUIDFromString", err)
		}
		// key and IV are handed over as sub-slices of one buffer all goroutines share (read-only): an 8- or 16-byte IV
		// with the key and spare bytes behind it in the same backing array
		iv := cryptArgs[:16:len(cryptArgs)]
		if j.Mode&2 != 0 {
			iv = cryptArgs[:8:len(cryptArgs)]
		}
		key := cryptArgs[16:32:len(cryptArgs)]
		defer func() {
			if !bytes.Equal(cryptArgs, cryptArgsPristine) {
				cryptArgsModified.Store(true)
			}
		}()
		encKey, encIV := key, iv
		ipd, err := mp4.InitProtect(f.Init, encKey, encIV, scheme, kid, nil)
		if err != nil {
			return fail("InitProtect", err)
		}
		for _, seg := range f.Segments {
			for _, fr := range seg.Fragments {
				if fr.Moof == nil || fr.Mdat == nil {
					return result{err: "encrypt: incomplete fragment"}
				}
				if err := mp4.EncryptFragment(fr, encKey, encIV, ipd); err != nil {
					return fail("EncryptFragment", err)
				}
			}
		}
		f.FragEncMode = mp4.EncModeSegment
		if err := f.Encode(&w); err != nil {
			return fail("Encode", err)
		}
	case "decrypt":
		k, err := hex.DecodeString(key)
		if err != nil || len(k) != 16 {
			return result{err: "decrypt: no key for this input"}
		}
		if !f.IsFragmented() || f.Init == nil || f.Init.Moov == nil || f.Init.Moov.Mvex == nil {
			return result{err: "decrypt: not a fragmented file with init"}
		}
		di, err := mp4.DecryptInit(f.Init)
		if err != nil {
			return fail("DecryptInit", err)
		}
		if err := f.Init.Encode(&w); err != nil {
			return fail("Init.Encode", err)
		}
		for _, seg := range f.Segments {
			if err := mp4.DecryptSegment(seg, di, k); err != nil {
				return fail("DecryptSegment", err)
			}
			if err := seg.Encode(&w); err != nil {
				return fail("Segment.Encode", err)
			}
		}
	case "annexb":
		vts, err := videoTracks(f, 6)
		if err != nil {
			return fail("annexb", err)
		}
		for ti, vt := range vts {
			for si, s := range vt.samples {
				annexbOf(&w, fmt.Sprintf("t%d s%d", ti, si), s)
			}
		}
	case "params":
		vts, err := videoTracks(f, 4)
		if err != nil {
			return fail("params", err)
		}
		for ti, vt := range vts {
			switch vt.codec {
			case "avc":
				avcC := vt.stsd.AvcX.AvcC
				spsMap := map[uint32]*avc.SPS{}
				var first *avc.SPS
				for _, n := range avcC.SPSnalus {
					sps, err := avc.ParseSPSNALUnit(clone(n), true)
					if err != nil {
						fmt.Fprintf(&w, "t%d sps: %v\n", ti, err)
						continue
					}
					spsMap[sps.ParameterID] = sps
					if first == nil {
						first = sps
					}
					fmt.Fprintf(&w, "t%d sps %s\n", ti, jsonOf(sps))
				}
				for _, n := range avcC.PPSnalus {
					pps, err := avc.ParsePPSNALUnit(clone(n), spsMap)
					if err != nil {
						fmt.Fprintf(&w, "t%d pps: %v\n", ti, err)
						continue
					}
					fmt.Fprintf(&w, "t%d pps %s\n", ti, jsonOf(pps))
				}
				for si, s := range vt.samples {
					nalus, err := avc.GetNalusFromSample(clone(s))
					if err != nil {
						fmt.Fprintf(&w, "t%d s%d: %v\n", ti, si, err)
						continue
					}
					for _, n := range nalus {
						if len(n) == 0 || avc.GetNaluType(n[0]) != avc.NALU_SEI {
							continue
						}
						msgs, err := avc.ParseSEINalu(n, first)
						fmt.Fprintf(&w, "t%d s%d sei err=%v\n", ti, si, err)
						for _, m := range msgs {
							fmt.Fprintf(&w, "  %d %d %s\n", m.Type(), m.Size(), m.String())
						}
					}
				}
			case "hevc":
				hvcC := vt.stsd.HvcX.HvcC
				spsMap := map[uint32]*hevc.SPS{}
				var first *hevc.SPS
				for _, n := range hvcC.GetNalusForType(hevc.NALU_SPS) {
					sps, err := hevc.ParseSPSNALUnit(clone(n))
					if err != nil {
						fmt.Fprintf(&w, "t%d sps: %v\n", ti, err)
						continue
					}
					spsMap[uint32(sps.SpsID)] = sps
					if first == nil {
						first = sps
					}
					fmt.Fprintf(&w, "t%d sps %s\n", ti, jsonOf(sps))
				}
				for _, n := range hvcC.GetNalusForType(hevc.NALU_PPS) {
					pps, err := hevc.ParsePPSNALUnit(clone(n), spsMap)
					if err != nil {
						fmt.Fprintf(&w, "t%d pps: %v\n", ti, err)
						continue
					}
					fmt.Fprintf(&w, "t%d pps id=%d sps=%d\n", ti, pps.PicParameterSetID, pps.SeqParameterSetID)
				}
				for si, s := range vt.samples {
					nalus, err := avc.GetNalusFromSample(clone(s))
					if err != nil {
						fmt.Fprintf(&w, "t%d s%d: %v\n", ti, si, err)
						continue
					}
					for _, n := range nalus {
						if len(n) < 2 || hevc.GetNaluType(n[0]) != hevc.NALU_SEI_PREFIX {
							continue
						}
						msgs, err := hevc.ParseSEINalu(n, first)
						fmt.Fprintf(&w, "t%d s%d sei err=%v\n", ti, si, err)
						for _, m := range msgs {
							fmt.Fprintf(&w, "  %d %d %s\n", m.Type(), m.Size(), m.String())
						}
					}
				}
			}
		}
	default:
		return result{err: "unknown action " + j.Act}
	}
	return result{out: w.Bytes()}
}

// ---------------------------------------------------------------------------------------------
// the oracle

var raceMu sync.Mutex // one concurrent phase at a time (stderr capture, race counter)

// raceOnly (development aid, VERIF_C20_RACEONLY=1): a job that modifies its shared input alone is not reported at
// once; the input is restored and the concurrent phase runs, so that the race detector shows the conflict.
var raceOnly = os.Getenv("VERIF_C20_RACEONLY") == "1"

func jobList(c *jobMixCase) string {
	var sb strings.Builder
	for i, j := range c.Jobs {
		kind := "?"
		if j.Input >= 0 && j.Input < len(c.Inputs) {
			kind = c.Inputs[j.Input].Kind
			if kind == "repo" {
				kind = strings.Join(c.Inputs[j.Input].Paths, "+")
			}
		}
		fmt.Fprintf(&sb, "  g%d: input %d (%s) %s\n", i, j.Input, kind, j.apiName())
	}
	return sb.String()
}

func checkJobMix(c jobMixCase) *harness.Fail {
	var st stats
	return evalJobMix(&c, &st)
}

// privateFlags: which jobs get a private copy of their input (avoided known findings).
func privateFlags(c *jobMixCase, st *stats) []bool {
	private := make([]bool, len(c.Jobs))
	for i, j := range c.Jobs {
		if j.SR && (j.crypt() || j.Act == "mutate") && c.avoid(st, "sr-decode-crypt-writes-shared-input") {
			private[i] = true // DecodeFileSR aliases the input as MdatBox.Data (known finding): writing through it is the same mechanism
		}
	}
	return private
}

func (c *jobMixCase) validate() *harness.Fail {
	if len(c.Jobs) == 0 || len(c.Inputs) == 0 {
		return harness.Failf("harness|c20|bad-case", "no jobs or inputs")
	}
	for _, j := range c.Jobs {
		if j.Input < 0 || j.Input >= len(c.Inputs) {
			return harness.Failf("harness|c20|bad-case", "job input %d of %d", j.Input, len(c.Inputs))
		}
	}
	for i, in := range c.Inputs {
		if in.Sib < 0 || in.Sib > len(c.Inputs) || in.Sib == i+1 {
			return harness.Failf("harness|c20|bad-case", "input %d: sibling %d", i, in.Sib)
		}
	}
	return nil
}

func evalJobMix(c *jobMixCase, st *stats) *harness.Fail {
	if fail := c.validate(); fail != nil {
		return fail
	}
	shared := make([][]byte, len(c.Inputs))
	pristine := make([][]byte, len(c.Inputs))
	for i := range c.Inputs {
		b, err := c.Inputs[i].materialise()
		if err != nil {
			return harness.Failf("harness|c20|build", "input %d: %v", i, err)
		}
		shared[i], pristine[i] = b, clone(b)
	}
	private := privateFlags(c, st)
	modified := func() int {
		for i := range shared {
			if !bytes.Equal(shared[i], pristine[i]) {
				return i
			}
		}
		return -1
	}

	ref := make([]result, len(c.Jobs))
	conc := make([]result, len(c.Jobs))
	rev := make([]result, len(c.Jobs))

	inputModified := func(i int, j job, phase string, k int) *harness.Fail {
		at := diffAt(shared[k], pristine[k])
		return harness.Failf("C20|"+j.apiName()+"|shared input slice modified",
			"job g%d %s: input %d (%d bytes) differs from its pristine copy from offset %d on: now %s, was %s\njobs:\n%s",
			i, phase, k, len(pristine[k]), at, harness.HexTrunc(shared[k][at:], 16), harness.HexTrunc(pristine[k][at:], 16), jobList(c))
	}

	// the jobs alone, one after the other (order A); every shared slice must survive every single job. A job that
	// panics alone is a matter of the crash properties (C04/C16): the panic is its outcome here, counted in class
	// job-panics-alone, and compared with the outcome of the goroutine like output and error text.
	runAlone := func() *harness.Fail {
		for i, j := range c.Jobs {
			ref[i] = runJobRecovered(j, &c.Inputs[j.Input], shared[j.Input], private[i])
			if k := modified(); k >= 0 && raceOnly {
				copy(shared[k], pristine[k]) // development aid: let the concurrent phase show the conflict itself
			} else if k >= 0 {
				return inputModified(i, j, "alone", k)
			}
		}
		if st.outcomes == nil {
			st.outcomes = map[string]int64{}
		}
		for i, j := range c.Jobs {
			switch {
			case ref[i].panic != "":
				st.outcomes["job-panics-alone:"+j.apiName()+":"+errClass(ref[i].panic)]++
				st.panicsAlone++
				st.panicMsgs = append(st.panicMsgs, j.apiName()+": "+firstLine(ref[i].panic, 160))
			case ref[i].err == "":
				st.outcomes["job-completed:"+j.Act]++
			default:
				st.outcomes["job-ended-with-error:"+j.Act+":"+errClass(ref[i].err)]++
			}
		}
		return nil
	}

	// all jobs in parallel goroutines released by one barrier
	runTogether := func() *harness.Fail {
		raceMu.Lock()
		before := raceErrors()
		report := captureStderr(func() {
			start := make(chan struct{})
			var wg sync.WaitGroup
			for i := range c.Jobs {
				wg.Add(1)
				go func(i int) {
					defer wg.Done()
					j := c.Jobs[i]
					<-start
					conc[i] = runJobRecovered(j, &c.Inputs[j.Input], shared[j.Input], private[i])
				}(i)
			}
			close(start)
			wg.Wait()
		})
		after := raceErrors()
		raceMu.Unlock()
		if after > before {
			fmt.Printf("C20-RACE %d report(s) during this job list:\n%s", after-before, jobList(c))
			return harness.Failf("C20|race|"+raceKey(report), "%d data race report(s) while these goroutines ran:\n%s%s", after-before, jobList(c), trimReport(report))
		}
		return nil
	}

	// History independence: every job once more, alone, in REVERSE order, each one right after "polluter" calls
	// of the same action on other inputs: (1) another input of the case (different leading bytes: evicts a
	// one-entry cache), (2) the near-duplicate sibling of the job's input if the case has one, (3) a derived
	// near-duplicate of the job's input (same leading bytes and sizes, different content behind them). A
	// memoising package-level variable keyed on a prefix / an id / a box type and size answers the job with the
	// polluter's value. The polluters' results are not looked at.
	derived := map[int][]byte{}
	runReverse := func() *harness.Fail {
		for i := len(c.Jobs) - 1; i >= 0; i-- {
			j := c.Jobs[i]
			in := &c.Inputs[j.Input]
			if len(c.Inputs) > 1 {
				k := (j.Input + 1) % len(c.Inputs)
				if k+1 == in.Sib {
					k = (k + 1) % len(c.Inputs)
				}
				if k != j.Input {
					runJobRecovered(j, &c.Inputs[k], shared[k], private[i])
					st.polluters++
				}
			}
			if in.Sib > 0 {
				runJobRecovered(j, &c.Inputs[in.Sib-1], shared[in.Sib-1], private[i])
				st.polluters++
			}
			d, ok := derived[j.Input]
			if !ok {
				d = nearDupBytes(pristine[j.Input])
				derived[j.Input] = d
			}
			if d != nil {
				runJobRecovered(j, in, clone(d), true)
				st.polluters++
			}
			if k := modified(); k >= 0 {
				return inputModified(i, j, "as a polluter (same action on another input)", k)
			}
			rev[i] = runJobRecovered(j, in, shared[j.Input], private[i])
			if k := modified(); k >= 0 {
				return inputModified(i, j, "alone (reverse pass)", k)
			}
		}
		return nil
	}

	// Order: with SeqFirst the reference is computed beforehand; otherwise the goroutines run first, on whatever
	// state the process has (lazily initialised or memoised package state would be warmed up by the reference run
	// and then only be read), and the reference is computed afterwards.
	concModified := -1
	if c.SeqFirst {
		if fail := runAlone(); fail != nil {
			return fail
		}
		if fail := runTogether(); fail != nil {
			return fail
		}
		concModified = modified()
	} else {
		if fail := runTogether(); fail != nil {
			return fail
		}
		if concModified = modified(); concModified >= 0 {
			for i := range shared {
				copy(shared[i], pristine[i]) // find the job that does it alone, for a specific key
			}
		}
		if fail := runAlone(); fail != nil {
			return fail
		}
	}
	if concModified >= 0 && !raceOnly {
		return harness.Failf("C20|concurrent run|shared input slice modified", "input %d differs from its pristine copy after the goroutines ran, but no job modifies it alone\njobs:\n%s", concModified, jobList(c))
	}

	differs := func(i int, j job, g, r result, rel, what, other string) *harness.Fail {
		switch {
		case g.panic != r.panic:
			return harness.Failf("C20|"+j.apiName()+"|panic "+rel, "g%d: %s %q, %s %q\njobs:\n%s", i, what, g.panic, other, r.panic, jobList(c))
		case g.err != r.err:
			return harness.Failf("C20|"+j.apiName()+"|error "+rel, "g%d: %s %q, %s %q\njobs:\n%s", i, what, g.err, other, r.err, jobList(c))
		case !bytes.Equal(g.out, r.out):
			at := diffAt(g.out, r.out)
			return harness.Failf("C20|"+j.apiName()+"|result "+rel, "g%d: %d bytes %s, %d bytes %s, first difference at %d: %s vs %s\njobs:\n%s",
				i, len(g.out), what, len(r.out), other, at, harness.HexTrunc(g.out[at:], 16), harness.HexTrunc(r.out[at:], 16), jobList(c))
		}
		return nil
	}

	// every goroutine got what it gets alone (a panic only in one of the two runs included)
	for i, j := range c.Jobs {
		g, r := conc[i], ref[i]
		if g.panic != r.panic {
			return harness.Failf("C20|"+j.apiName()+"|panic only in the concurrent run", "g%d: concurrent %q, alone %q\njobs:\n%s", i, g.panic, r.panic, jobList(c))
		}
		if fail := differs(i, j, g, r, "differs from the run alone", "concurrently", "alone"); fail != nil {
			return fail
		}
	}

	// every job gives the same result whatever was computed before it
	if fail := runReverse(); fail != nil {
		return fail
	}
	for i, j := range c.Jobs {
		if fail := differs(i, j, rev[i], ref[i], "depends on the calls made before it", "after the polluters (reverse pass)", "in the first pass alone"); fail != nil {
			return fail
		}
	}

	if cryptArgsModified.Load() {
		copy(cryptArgs, cryptArgsPristine)
		cryptArgsModified.Store(false)
		return harness.Failf("C20|InitProtect+EncryptFragment|the caller's key / IV buffer was modified", "the bytes of the shared buffer from which key and IV were cut (IV at the front, spare capacity behind it) differ from their pristine copy after these jobs:\n%s", jobList(c))
	}
	// ... and the same result as a process that has computed nothing else before
	if c.Fresh != 0 {
		if fail := checkFresh(c, ref, st); fail != nil {
			return fail
		}
	}

	return nil
}

func firstLine(s string, max int) string {
	if i := strings.IndexByte(s, '\n'); i >= 0 {
		s = s[:i]
	}
	if len(s) > max {
		s = s[:max] + "..."
	}
	return s
}

func sortedKeys(m map[string]int64) []string {
	out := make([]string, 0, len(m))
	for k := range m {
		out = append(out, k)
	}
	sort.Strings(out)
	return out
}

func diffAt(a, b []byte) int {
	for i := 0; i < len(a) && i < len(b); i++ {
		if a[i] != b[i] {
			return i
		}
	}
	if len(a) < len(b) {
		return len(a)
	}
	return len(b)
}

var (
	accessRe = regexp.MustCompile(`(?m)^(?:Previous )?(?:[Aa]tomic )?(?:[Rr]ead|[Ww]rite) at 0x[0-9a-f]+ by (?:main )?goroutine`)
	frameRe  = regexp.MustCompile(`(?m)^  (github\.com/Eyevinn/mp4ff/[^\s(]+(?:\([^)]*\))?[^\s(]*)\(`)
)

// raceKey names the first library function on the stack of each of the two conflicting accesses of the first report.
func raceKey(report string) string {
	i := strings.Index(report, "WARNING: DATA RACE")
	if i < 0 {
		return "race report (see stderr)"
	}
	rep := report[i:]
	if j := strings.Index(rep[10:], "=================="); j > 0 {
		rep = rep[:j+10]
	}
	locs := accessRe.FindAllStringIndex(rep, -1)
	var fns []string
	for k, l := range locs {
		end := len(rep)
		if k+1 < len(locs) {
			end = locs[k+1][0]
		}
		blk := rep[l[0]:end]
		if g := strings.Index(blk, "\n\n"); g > 0 {
			blk = blk[:g]
		}
		fn := "non-library code"
		if m := frameRe.FindStringSubmatch(blk); m != nil {
			fn = strings.TrimPrefix(m[1], "github.com/Eyevinn/mp4ff/")
		}
		fns = append(fns, fn)
		if len(fns) == 2 {
			break
		}
	}
	sort.Strings(fns)
	if len(fns) == 0 {
		return "race report (see stderr)"
	}
	return strings.Join(fns, " <-> ")
}

func trimReport(r string) string {
	lines := strings.Split(r, "\n")
	if len(lines) > 70 {
		lines = append(lines[:70], "...")
	}
	return strings.Join(lines, "\n")
}

// ---------------------------------------------------------------------------------------------
// generator, evidence

type repoEntry struct {
	in     input
	acts   []string
	weight int
}

var repoPool = []repoEntry{
	{input{Kind: "repo", Paths: []string{"mp4/testdata/init.mp4", "mp4/testdata/1.m4s"}},
		[]string{"decode", "info", "encode", "encodeSW", "samples", "annexb", "params", "encrypt-cenc", "encrypt-cbcs"}, 4},
	{input{Kind: "repo", Paths: []string{"mp4/testdata/hvc1_init.mp4", "mp4/testdata/hvc1_seg_1.m4s"}},
		[]string{"decode", "info", "encode", "encodeSW", "samples", "annexb", "params", "encrypt-cenc", "encrypt-cbcs"}, 3},
	{input{Kind: "repo", Paths: []string{"mp4/testdata/cbcs.mp4"}, Key: "22bdb0063805260307ee5045c0f3835a"},
		[]string{"decode", "info", "encode", "samples", "decrypt", "decrypt", "decrypt"}, 4},
	{input{Kind: "repo", Paths: []string{"cmd/mp4ff-decrypt/testdata/PIFF/audio/init.mp4", "cmd/mp4ff-decrypt/testdata/PIFF/audio/segment-1.0001.m4s"}, Key: "602a9289bfb9b1995b75ac63f123fc86"},
		[]string{"decode", "info", "encode", "samples", "decrypt", "decrypt", "decrypt"}, 3},
	{input{Kind: "repo", Paths: []string{"mp4/testdata/prog_8s_enc_dashinit.mp4"}, Key: "63cb5f7184dd4b689a5c5ff11ee6a328"},
		[]string{"decode", "encode", "decrypt", "decrypt"}, 1},
	{input{Kind: "repo", Paths: []string{"mp4/testdata/cbcs_audio.mp4"}, Key: "5ffd93861fa776e96cccd934898fc1c8"},
		[]string{"decode", "encode", "decrypt", "decrypt"}, 1},
	{input{Kind: "repo", Paths: []string{"mp4/testdata/prog_8s.mp4"}},
		[]string{"decode", "lazycopy", "samples", "annexb", "params", "encode"}, 1},
}

var (
	progActs    = []string{"decode", "info", "encode", "encodeSW", "samples", "lazycopy", "params", "annexb", "mutate", "brands"}
	fragActs    = []string{"decode", "info", "encode", "encodeSW", "samples", "params", "annexb", "mutate", "brands"}
	synthActs   = []string{"decode", "info", "info", "encode", "encodeSW", "mutate", "brands"}
	fragEncActs = []string{"decode", "info", "encode", "encodeSW", "samples", "encrypt-cenc", "encrypt-cbcs", "encrypt-cenc", "encrypt-cbcs"}
)

// genInput draws one input, or an input and its near-duplicate sibling (dup): same leading bytes, same box types
// and sizes / same parameter-set ids, different content behind them.
func genInput(t *rapid.T) ([]input, []string) {
	kind := rapid.SampledFrom([]string{"prog", "prog", "frag", "frag", "fragenc", "fragenc", "repo", "repo", "synth", "synth", "box", "box", "nalus", "nalus"}).Draw(t, "inputKind")
	dup := false
	if kind != "repo" && kind != "fragenc" {
		dup = rapid.IntRange(0, 2).Draw(t, "nearDuplicate") == 0
	}
	switch kind {
	case "box":
		return genBoxInputs(t, dup), boxActs
	case "nalus":
		return genNalusInputs(t, dup), nalusActs
	case "synth":
		// every box type and version/flag shape of the grammar generator (sample groups of every grouping type,
		// sample entries, uuid boxes, ...): registries and per-type decoders are exercised concurrently
		kind := rapid.SampledFrom([]string{"prog", "init", "media", "frag", "frag"}).Draw(t, "synthKind")
		a := input{Kind: "synth", Data: boxgen.File(t, kind, boxgen.Opt{})}
		if !dup {
			return []input{a}, synthActs
		}
		return []input{a, {Kind: "synth", Data: tweakTail(a.Data, rapid.Byte().Draw(t, "tailXor"))}}, synthActs
	case "prog":
		// the video track carries the harvested avc1 entry of the repository, or generated parameter sets
		// (always for a near-duplicate pair); its samples are length-prefixed NAL units
		opt := mp4build.GenOpt{MaxSamples: 10, MaxSampleSize: 40, MaxTracks: 2}
		var pa, pb psSet
		codec := "avc"
		custom := dup || rapid.Bool().Draw(t, "generatedPS")
		if custom {
			pa, pb = genPSPair(t)
			opt.VideoStsd, codec = pa.stsd(), pa.codec
		}
		tracks := mp4build.GenTracks(t, opt)
		for ti := range tracks {
			if tracks[ti].Handler != "vide" {
				continue
			}
			if custom {
				tracks[ti].Width, tracks[ti].Height = uint16(pa.width), uint16(pa.height)
			}
			for si := range tracks[ti].Samples {
				naluStructure(t, codec, tracks[ti].Samples[si].Data)
			}
		}
		lay := mp4build.GenProgLayout(t, tracks)
		a := input{Kind: "prog", Tracks: tracks, Layout: &lay}
		if !dup {
			return []input{a}, progActs
		}
		x := rapid.Byte().Draw(t, "tailXor")
		b := deepCopy(a)
		for ti := range b.Tracks {
			if b.Tracks[ti].Handler == "vide" {
				b.Tracks[ti].StsdRaw = pb.stsd()
				b.Tracks[ti].Width, b.Tracks[ti].Height = uint16(pb.width), uint16(pb.height)
			}
			for si := range b.Tracks[ti].Samples {
				b.Tracks[ti].Samples[si].Data = tweakTail(b.Tracks[ti].Samples[si].Data, x)
			}
		}
		return []input{a, b}, progActs
	case "frag":
		v, au, err := fragStsd()
		if err != nil {
			t.Fatalf("harvest: %v", err)
		}
		var pa, pb psSet
		codec := "avc"
		custom := dup || rapid.Bool().Draw(t, "generatedPS")
		if custom {
			pa, pb = genPSPair(t)
			v, codec = pa.stsd(), pa.codec
		}
		// NoNonEmsgAtTopSidxAnchor: mp4.DecodeFile panics (finding of the fragment checks)
		opt := fragbuild.GenOpt{VideoStsd: v, AudioStsd: au, NoNonEmsgAtTopSidxAnchor: true, MaxSamples: 6, MaxSegments: 2, MaxFrags: 2}
		tracks := fragbuild.GenTracks(t, opt)
		for ti := range tracks {
			if tracks[ti].Handler != "vide" {
				continue
			}
			if custom {
				tracks[ti].Width, tracks[ti].Height = uint16(pa.width), uint16(pa.height)
			}
			for si := range tracks[ti].Samples {
				naluStructure(t, codec, tracks[ti].Samples[si].Data)
			}
		}
		lay := fragbuild.GenLayout(t, tracks, opt)
		a := input{Kind: "frag", FTracks: tracks, FLayout: &lay}
		if !dup {
			return []input{a}, fragActs
		}
		x := rapid.Byte().Draw(t, "tailXor")
		b := deepCopy(a)
		for ti := range b.FTracks {
			if b.FTracks[ti].Handler == "vide" {
				b.FTracks[ti].StsdRaw = pb.stsd()
				b.FTracks[ti].Width, b.FTracks[ti].Height = uint16(pb.width), uint16(pb.height)
			}
			for si := range b.FTracks[ti].Samples {
				b.FTracks[ti].Samples[si].Data = tweakTail(b.FTracks[ti].Samples[si].Data, x)
			}
		}
		return []input{a, b}, fragActs
	case "fragenc":
		// one audio track, every fragment one traf with one trun: what InitProtect/EncryptFragment accept
		_, a, err := fragStsd()
		if err != nil {
			t.Fatalf("harvest: %v", err)
		}
		n := rapid.IntRange(1, 8).Draw(t, "nSamples")
		tr := fragbuild.Track{ID: rapid.Uint32Range(1, 5).Draw(t, "trackID"), Timescale: 48000, Handler: "soun", StsdRaw: a, Trex: fragbuild.TrexDefaults{DescIdx: 1}}
		for i := 0; i < n; i++ {
			size := rapid.IntRange(1, 80).Draw(t, "size")
			d := make([]byte, size)
			for k := range d {
				d[k] = byte(i*31 + k*7 + 1)
			}
			tr.Samples = append(tr.Samples, fragbuild.Sample{Data: d, Dur: 1024, Flags: fragbuild.FlagsSync})
		}
		nFrags := rapid.IntRange(1, 3).Draw(t, "nFrags")
		if nFrags > n {
			nFrags = n
		}
		lay := fragbuild.FileLayout{SeqStart: 1}
		seg := fragbuild.Segment{Styp: rapid.Bool().Draw(t, "styp")}
		for f := 0; f < nFrags; f++ {
			cnt := (f+1)*n/nFrags - f*n/nFrags
			seg.Frags = append(seg.Frags, fragbuild.Frag{Runs: []fragbuild.Run{{Track: 0, N: cnt}}, MdatLarge: rapid.IntRange(0, 4).Draw(t, "mdatLarge") == 0})
		}
		lay.Segments = []fragbuild.Segment{seg}
		return []input{{Kind: "frag", FTracks: []fragbuild.Track{tr}, FLayout: &lay}}, fragEncActs
	default:
		var idx []int
		for i, e := range repoPool {
			for k := 0; k < e.weight; k++ {
				idx = append(idx, i)
			}
		}
		e := repoPool[rapid.SampledFrom(idx).Draw(t, "repoFile")]
		return []input{e.in}, e.acts
	}
}

func genJobMix(t *rapid.T) jobMixCase {
	var c jobMixCase
	nIn := rapid.IntRange(1, 3).Draw(t, "nInputs")
	var acts [][]string
	for i := 0; i < nIn; i++ {
		ins, a := genInput(t)
		if len(ins) == 2 {
			ins[0].Sib, ins[1].Sib = len(c.Inputs)+2, len(c.Inputs)+1
		}
		for _, in := range ins {
			c.Inputs = append(c.Inputs, in)
			acts = append(acts, a)
		}
	}
	nIn = len(c.Inputs)
	g := rapid.SampledFrom([]int{2, 2, 3, 3, 4, 4, 5, 6, 8, 8, 12, 16}).Draw(t, "goroutines")
	heavy := 0
	for i := 0; i < g; i++ {
		k := rapid.IntRange(0, nIn-1).Draw(t, "jobInput")
		if in := c.Inputs[k]; in.Kind == "repo" && len(in.Paths) == 1 && in.Key != "" && in.Paths[0] != "mp4/testdata/cbcs.mp4" || in.Kind == "repo" && in.Paths[0] == "mp4/testdata/prog_8s.mp4" {
			// the large files: at most four goroutines on them
			heavy++
			if heavy > 4 {
				for kk := range c.Inputs {
					if c.Inputs[kk].Kind != "repo" {
						k = kk
					}
				}
			}
		}
		j := job{Input: k, Act: rapid.SampledFrom(acts[k]).Draw(t, "act")}
		if sib := c.Inputs[k].Sib; sib > 0 && i > 0 && c.Jobs[i-1].Input == sib-1 && rapid.Bool().Draw(t, "sameActAsSibling") {
			j.Act = c.Jobs[i-1].Act // the same call on the two near-duplicates, one right after the other
		}
		j.SR = rapid.Bool().Draw(t, "sr")
		if !j.SR && j.Act != "lazycopy" {
			j.Buf = rapid.IntRange(0, 2).Draw(t, "buf") == 0
		}
		if isNaluAct(j.Act) {
			j.SR, j.Buf = false, false
			j.Mode = rapid.IntRange(0, 1<<14-1).Draw(t, "buildMode")
		} else {
			j.Mode = rapid.IntRange(0, 1).Draw(t, "mode")
			if j.crypt() && j.Act != "decrypt" {
				j.Mode |= 2 * rapid.IntRange(0, 1).Draw(t, "iv8") // bit 1: an 8-byte IV (the front of the shared buffer)
			}
		}
		c.Jobs = append(c.Jobs, j)
	}
	c.SeqFirst = rapid.IntRange(0, 3).Draw(t, "seqFirst") == 0
	// fresh processes are expensive (a race-instrumented binary starts): three cases in sixteen, mostly one process
	// for all jobs
	c.Fresh = rapid.SampledFrom([]int{0, 0, 0, 0, 0, 0, 0, 0, 0, 0, 0, 0, 0, 1, 1, 2}).Draw(t, "fresh")
	return c
}

func classify(c *jobMixCase) (nontrivial bool, classes []string) {
	set := map[string]bool{}
	perInput := map[int]map[string]bool{}
	for _, j := range c.Jobs {
		set["act-"+j.Act] = true
		if j.SR && j.Act != "lazycopy" {
			set["decode-DecodeFileSR-on-shared-slice"] = true
			if j.crypt() {
				set["sr-decode+crypt"] = true
			}
		} else {
			set["decode-DecodeFile-reader"] = true
		}
		if perInput[j.Input] == nil {
			perInput[j.Input] = map[string]bool{}
		}
		perInput[j.Input][j.apiName()] = true
		in := c.Inputs[j.Input]
		set["input-"+in.Kind] = true
		if in.Kind == "nalus" {
			set["input-nalus-"+in.Codec] = true
		}
		if in.Kind == "box" {
			for _, tt := range tableBoxTypes {
				if tt == in.Typ {
					set["box-type-with-package-level-table-or-second-registry"] = true
				}
			}
		}
		if strings.HasPrefix(j.Act, "build-") {
			set["writer-side-job-on-shared-caller-slices"] = true
		}
		if j.Act == "annexb" && (in.Kind == "prog" || in.Kind == "frag") {
			set["annexb-on-generated-"+in.Kind] = true
		}
		if j.Act == "encode" || j.Act == "encodeSW" {
			set[fmt.Sprintf("%s-mode-%d", j.Act, j.Mode&1)] = true
		}
	}
	for _, kinds := range perInput {
		if len(kinds) >= 2 {
			nontrivial = true
		}
	}
	// near-duplicate inputs: both siblings of a pair have a job; strongest when it is the same action
	for i, in := range c.Inputs {
		if in.Sib == 0 || in.Sib-1 < i {
			continue
		}
		set["near-duplicate-pair-in-case"] = true
		if perInput[i] != nil && perInput[in.Sib-1] != nil {
			set["near-duplicate-inputs"] = true
			nontrivial = true
			for api := range perInput[i] {
				if perInput[in.Sib-1][api] {
					set["near-duplicate-inputs-same-action-on-both"] = true
				}
			}
		}
	}
	switch c.Fresh {
	case 1:
		set["fresh-process-all-jobs-reverse-order"] = true
	case 2:
		set["fresh-process-per-job"] = true
	}
	g := len(c.Jobs)
	switch {
	case g <= 2:
		set["goroutines-2"] = true
	case g <= 4:
		set["goroutines-3..4"] = true
	case g <= 8:
		set["goroutines-5..8"] = true
	default:
		set["goroutines-9..16"] = true
	}
	if nontrivial {
		set["different-jobs-on-one-shared-slice"] = true
	}
	if c.SeqFirst {
		set["order-reference-then-goroutines"] = true
	} else {
		set["order-goroutines-then-reference"] = true
	}
	for k := range set {
		classes = append(classes, k)
	}
	sort.Strings(classes)
	return
}

func TestJobMix(t *testing.T) {
	if !raceEnabled {
		t.Log("built without -race: only result comparison and input integrity are checked")
		harness.Rec.Note("built without -race")
	}
	if harness.E.Shard == 0 {
		// static inventory of the package-level variables of the checkout (see inventory_test.go)
		listed, unlisted, gone, nErr, err := inventoryReport(harness.E.RepoDir)
		if err != nil {
			t.Logf("inventory: %v", err)
			harness.Rec.Note("package-level inventory failed: " + err.Error())
		}
		harness.Rec.ClassN("package-level-vars:error-values", int64(nErr))
		harness.Rec.ClassN("package-level-vars:listed-with-a-job-kind-that-reaches-them", int64(len(listed)))
		harness.Rec.ClassN("package-level-vars:NOT-listed", int64(len(unlisted)))
		for _, v := range unlisted {
			fmt.Printf("C20-INVENTORY unlisted package-level variable: %s\n", v)
			harness.Rec.Note("package-level variable of the library that is not in the C20 inventory (no job kind is known to reach it): " + v)
		}
		for _, v := range gone {
			harness.Rec.Note("C20 inventory lists a package-level variable that the checkout does not have: " + v)
		}
	}
	harness.RunRapid(t, "jobmix", func(rt *rapid.T) {
		c := genJobMix(rt)
		raw, _ := json.Marshal(c)
		nt, classes := classify(&c)
		harness.Rec.Case(nt, raw, classes...)
		harness.Rec.ClassN("goroutines-run", int64(len(c.Jobs)))
		if harness.Rec.WantSample() && nt && len(raw) < 6000 {
			harness.Rec.Sample(map[string]interface{}{"kind": "jobmix", "case": c})
		}
		var st stats
		f := harness.Guarded(func() *harness.Fail { return evalJobMix(&c, &st) })
		for _, k := range sortedKeys(st.outcomes) {
			harness.Rec.ClassN(k, st.outcomes[k])
		}
		harness.Rec.ClassN("polluter-calls-in-reverse-pass", st.polluters)
		harness.Rec.ClassN("fresh-processes-started", st.freshProcs)
		harness.Rec.ClassN("jobs-compared-with-fresh-process", st.freshJobs)
		if st.panicsAlone > 0 {
			// not a C20 matter when the goroutine panics the same way (crash properties C04/C16): excluded, counted
			harness.Rec.Exclude("job-panics-alone")
			harness.Rec.ClassN("job-panics-alone", st.panicsAlone)
			for _, m := range st.panicMsgs {
				harness.Rec.Note("job-panics-alone: " + m)
			}
		}
		names := make([]string, 0, len(st.skipped))
		for name := range st.skipped {
			names = append(names, name)
		}
		sort.Strings(names)
		for _, name := range names {
			harness.Rec.Exclude(name)
			harness.Rec.ClassN("avoided-jobs:"+name, st.skipped[name])
		}
		harness.Report(rt, "jobmix", c, f)
	})
}

// ---------------------------------------------------------------------------------------------
// reproducers of the known findings (regenerate with VERIF_C20_WRITE_KF=1 go test -tags verif ./props/c20 -run TestWriteKnownFindingRepros)

func knownFindingCases() map[string]jobMixCase {
	cbcs := repoPool[2].in
	return map[string]jobMixCase{
		"sr-decode-crypt-writes-shared-input": {Inputs: []input{cbcs},
			Jobs: []job{{Input: 0, SR: true, Act: "decrypt"}, {Input: 0, SR: true, Act: "decrypt"}}, NoAvoid: true},
		// the same mechanism through EncryptFragment (init.mp4 + 1.m4s of the repository)
		"sr-decode-crypt-writes-shared-input-encrypt": {Inputs: []input{repoPool[0].in},
			Jobs: []job{{Input: 0, SR: true, Act: "encrypt-cenc"}, {Input: 0, SR: true, Act: "samples"}}, NoAvoid: true},
	}
}

func TestWriteKnownFindingRepros(t *testing.T) {
	if os.Getenv("VERIF_C20_WRITE_KF") == "" {
		t.Skip("VERIF_C20_WRITE_KF not set")
	}
	dir := harness.E.VerifDir + "/replay/C20"
	if err := os.MkdirAll(dir, 0o755); err != nil {
		t.Fatal(err)
	}
	for name, c := range knownFindingCases() {
		c := c
		f := harness.Guarded(func() *harness.Fail { return checkJobMix(c) })
		if f == nil {
			t.Errorf("%s: the case does not fail (defect repaired?)", name)
			continue
		}
		raw, _ := json.Marshal(c)
		msg := f.Msg
		if i := strings.Index(msg, "\n"); i > 0 {
			msg = msg[:i]
		}
		b, _ := json.MarshalIndent(harness.ReplayFile{Property: "C20", Kind: "jobmix", Key: f.Key, Msg: msg, Case: raw}, "", " ")
		if err := os.WriteFile(dir+"/kf-"+name+".json", append(b, '\n'), 0o644); err != nil {
			t.Fatal(err)
		}
		t.Logf("%s: %s: %s", name, f.Key, msg)
	}
}
