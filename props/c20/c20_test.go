// C20 — independent objects can be used from concurrent goroutines.
//
// rapid draws a pool of input files (harness-written progressive and fragmented files, a few files of the
// repository) and a job list, one job per goroutine (2..16). Every job decodes "its" input from the SHARED,
// read-only byte slice (mp4.DecodeFile over a private bytes.Reader, or mp4.DecodeFileSR over the shared
// slice itself) and then works only on the structures it decoded: Info dump, Encode / EncodeSW in both
// fragment encode modes, sample extraction, lazy decode + CopySampleData, InitProtect + EncryptFragment
// (cenc, cbcs), DecryptInit + DecryptSegment, Annex-B conversions and parameter-set / SEI parsing on private
// copies of the sample bytes. The box-decoder registry is never touched.
//
// Oracle:
//   - all jobs run in parallel goroutines released by one barrier; the number of race reports of the race
//     detector (runtime.RaceErrors, package built with -race) must not grow; the report itself is captured from
//     stderr and the library frames of the two accesses form the failure key;
//   - every job is also run alone (sequential reference). By default AFTER the goroutines, so that the
//     goroutines meet the package state as cold as the process has it (a memoising or lazily initialised
//     package-level variable would be warmed up by the reference run and then only be read); with seqFirst
//     beforehand. After each single job every shared input slice must still equal its pristine copy (a decoder
//     that aliases the caller's buffer and later writes through it is found here deterministically, race
//     window or not; in-place crypto writes happen in assembly, which the race detector does not see);
//   - every goroutine's output (bytes, error text, panic) equals the output of the same job run alone;
//   - the shared slices still equal their pristine copies after the goroutines ran.
//
// The test binary is meant to be built with `go test -race`; without -race everything but the race reports is still checked.
package c20

import (
	"bytes"
	"encoding/hex"
	"encoding/json"
	"fmt"
	"os"
	"path/filepath"
	"regexp"
	"sort"
	"strings"
	"sync"
	"testing"

	"github.com/Eyevinn/mp4ff/avc"
	"github.com/Eyevinn/mp4ff/bits"
	"github.com/Eyevinn/mp4ff/hevc"
	"github.com/Eyevinn/mp4ff/mp4"
	"pgregory.net/rapid"

	"verif/internal/boxgen"
	"verif/internal/fragbuild"
	"verif/internal/harness"
	"verif/internal/mp4build"
)

func TestMain(m *testing.M) { harness.Main(m) }

func init() {
	harness.RegisterReplay("jobmix", harness.Replayer(checkJobMix))
	// development aid: VERIF_C20_NOAVOID=all or a comma-separated list of switch names evaluates the
	// known-defect argument classes as well
	if v := os.Getenv("VERIF_C20_NOAVOID"); v == "all" {
		avoidKnown = map[string]bool{}
	} else if v != "" {
		for _, name := range strings.Split(v, ",") {
			delete(avoidKnown, name)
		}
	}
}

func TestReplay(t *testing.T) { harness.ReplayPath(t) }

// avoidKnown lists the confirmed library defects whose argument class is avoided (and counted) so that the
// search continues behind them. Each name has a reproducer /verif/replay/C20/kf-<name>.json (those cases
// carry "noAvoid": true, so replaying them shows the failure).
var avoidKnown = map[string]bool{
	// mp4.DecodeFileSR / DecodeMdatSR keep a sub-slice of the caller's buffer as MdatBox.Data
	// (bits.FixedSliceReader.ReadBytes), Fragment.GetFullSamples hands out sub-slices of that, and
	// DecryptSegment / EncryptFragment (CryptSampleCenc, cryptSampleCbcs) work in place: the caller's input
	// buffer is overwritten, and two goroutines that decode the same shared slice with DecodeFileSR race.
	// Avoided: a job "DecodeFileSR + decrypt/encrypt" gets a private copy of the input instead of the shared slice.
	"sr-decode-crypt-writes-shared-input": true,
}

type input struct {
	Kind    string                `json:"kind"`           // "prog" | "frag" | "repo" | "synth"
	Data    harness.HexBytes      `json:"data,omitempty"` // "synth": a file written by the grammar generator internal/boxgen
	Tracks  []mp4build.Track      `json:"tracks,omitempty"`
	Layout  *mp4build.ProgLayout  `json:"layout,omitempty"`
	FTracks []fragbuild.Track     `json:"ftracks,omitempty"`
	FLayout *fragbuild.FileLayout `json:"flayout,omitempty"`
	Paths   []string              `json:"paths,omitempty"` // "repo": files of the checkout, concatenated (init + segment)
	Key     string                `json:"key,omitempty"`   // hex key of an encrypted repository file
}

type job struct {
	Input int    `json:"input"`
	SR    bool   `json:"sr,omitempty"`  // decode with mp4.DecodeFileSR over the shared slice (else mp4.DecodeFile over a bytes.Reader)
	Buf   bool   `json:"buf,omitempty"` // DecodeFile over a *bytes.Buffer that wraps the shared slice (read only) instead of a bytes.Reader
	Act   string `json:"act"`
	Mode  int    `json:"mode,omitempty"` // File.FragEncMode for the encoding actions
}

type jobMixCase struct {
	Inputs []input `json:"inputs"`
	Jobs   []job   `json:"jobs"` // one goroutine each
	// SeqFirst: compute the sequential reference before the goroutines run (default: afterwards)
	SeqFirst bool `json:"seqFirst,omitempty"`
	NoAvoid  bool `json:"noAvoid,omitempty"`
}

var allActs = []string{"decode", "info", "encode", "encodeSW", "samples", "lazycopy", "encrypt-cenc", "encrypt-cbcs", "decrypt", "annexb", "params", "mutate", "brands"}

func (j job) crypt() bool { return j.Act == "decrypt" || strings.HasPrefix(j.Act, "encrypt-") }

func (j job) apiName() string {
	dec := "DecodeFile"
	if j.SR && j.Act != "lazycopy" {
		dec = "DecodeFileSR"
	}
	switch j.Act {
	case "decrypt":
		return dec + "+DecryptSegment"
	case "encrypt-cenc", "encrypt-cbcs":
		return dec + "+EncryptFragment"
	}
	return dec + "+" + j.Act
}

type stats struct {
	skipped  map[string]int64
	outcomes map[string]int64 // how the jobs ended when run alone
}

func errClass(s string) string {
	out := make([]byte, 0, len(s))
	for i := 0; i < len(s) && len(out) < 56; i++ {
		if s[i] >= '0' && s[i] <= '9' {
			if n := len(out); n == 0 || out[n-1] != 'N' {
				out = append(out, 'N')
			}
			continue
		}
		out = append(out, s[i])
	}
	return string(out)
}

func (c *jobMixCase) avoid(st *stats, name string) bool {
	if c.NoAvoid || !avoidKnown[name] {
		return false
	}
	if st.skipped == nil {
		st.skipped = map[string]int64{}
	}
	st.skipped[name]++
	return true
}

// ---------------------------------------------------------------------------------------------
// inputs

var (
	fileMu    sync.Mutex
	fileCache = map[string][]byte{}
	stsdOnce  sync.Once
	fVid, fAu []byte
	stsdErr   error
)

func fragStsd() ([]byte, []byte, error) {
	stsdOnce.Do(func() { fVid, fAu, stsdErr = fragbuild.HarvestStsd(harness.E.RepoDir) })
	return fVid, fAu, stsdErr
}

func repoFile(rel string) ([]byte, error) {
	if rel == "" || strings.Contains(rel, "..") {
		return nil, fmt.Errorf("path %q", rel)
	}
	fileMu.Lock()
	defer fileMu.Unlock()
	if b, ok := fileCache[rel]; ok {
		return b, nil
	}
	b, err := os.ReadFile(filepath.Join(harness.E.RepoDir, rel))
	if err != nil {
		return nil, err
	}
	fileCache[rel] = b
	return b, nil
}

// materialise returns a fresh copy of the input bytes.
func (in *input) materialise() ([]byte, error) {
	switch in.Kind {
	case "prog":
		if in.Layout == nil {
			return nil, fmt.Errorf("no layout")
		}
		file, _, err := mp4build.BuildProgressive(in.Tracks, *in.Layout)
		return file, err
	case "frag":
		if in.FLayout == nil {
			return nil, fmt.Errorf("no layout")
		}
		init, segs, truth, err := fragbuild.Build(in.FTracks, *in.FLayout)
		if err != nil {
			return nil, err
		}
		return fragbuild.Concat(init, segs, truth), nil
	case "synth":
		if len(in.Data) == 0 {
			return nil, fmt.Errorf("no data")
		}
		return clone(in.Data), nil
	case "repo":
		var out []byte
		for _, p := range in.Paths {
			b, err := repoFile(p)
			if err != nil {
				return nil, err
			}
			out = append(out, b...)
		}
		if len(out) == 0 {
			return nil, fmt.Errorf("no paths")
		}
		return out, nil
	}
	return nil, fmt.Errorf("kind %q", in.Kind)
}

// ---------------------------------------------------------------------------------------------
// jobs

var (
	encKey  = []byte{0x00, 0x11, 0x22, 0x33, 0x44, 0x55, 0x66, 0x77, 0x88, 0x99, 0xaa, 0xbb, 0xcc, 0xdd, 0xee, 0xff}
	encIV   = []byte{0x10, 0x21, 0x32, 0x43, 0x54, 0x65, 0x76, 0x87, 0x98, 0xa9, 0xba, 0xcb, 0xdc, 0xed, 0xfe, 0x0f}
	encKID  = "11112222333344445555666677778888"
	infoLvl = "all:1"
)

type result struct {
	out   []byte
	err   string // error text of the library call that ended the job, "" if it ran to its end
	panic string // recovered panic with stack
}

// jsonOf is a deterministic dump (no pointer values as %+v would print).
func jsonOf(v interface{}) string {
	b, err := json.Marshal(v)
	if err != nil {
		return "json: " + err.Error()
	}
	return string(b)
}

func clone(b []byte) []byte { return append([]byte(nil), b...) }

// progSamples returns the bytes of all samples of a track of a progressive file decoded in memory.
func progSamples(f *mp4.File, trak *mp4.TrakBox) ([][]byte, []mp4.Sample, error) {
	n := trak.GetNrSamples()
	if n == 0 {
		return nil, nil, nil
	}
	meta, err := trak.GetSampleData(1, n)
	if err != nil {
		return nil, nil, fmt.Errorf("GetSampleData: %w", err)
	}
	var buf bytes.Buffer
	if err := f.CopySampleData(&buf, nil, trak, 1, n, nil); err != nil {
		return nil, nil, fmt.Errorf("CopySampleData: %w", err)
	}
	all := buf.Bytes()
	out := make([][]byte, 0, n)
	pos := 0
	for _, s := range meta {
		if pos+int(s.Size) > len(all) {
			return nil, nil, fmt.Errorf("sample sizes exceed the copied data")
		}
		out = append(out, all[pos:pos+int(s.Size)])
		pos += int(s.Size)
	}
	return out, meta, nil
}

type videoTrack struct {
	codec   string // "avc" | "hevc"
	stsd    *mp4.StsdBox
	samples [][]byte // aliases of the decoded structures: copy before any in-place call
}

// videoTracks collects the avc/hevc tracks of a decoded file with (up to max) samples each.
func videoTracks(f *mp4.File, max int) ([]videoTrack, error) {
	moov := f.Moov
	if moov == nil {
		return nil, nil
	}
	var out []videoTrack
	for _, trak := range moov.Traks {
		if trak.Mdia == nil || trak.Mdia.Minf == nil || trak.Mdia.Minf.Stbl == nil || trak.Mdia.Minf.Stbl.Stsd == nil {
			continue
		}
		stsd := trak.Mdia.Minf.Stbl.Stsd
		vt := videoTrack{stsd: stsd}
		switch {
		case stsd.AvcX != nil && stsd.AvcX.AvcC != nil:
			vt.codec = "avc"
		case stsd.HvcX != nil && stsd.HvcX.HvcC != nil:
			vt.codec = "hevc"
		default:
			continue
		}
		if !f.IsFragmented() {
			if f.Mdat != nil && !f.Mdat.IsLazy() {
				ss, _, err := progSamples(f, trak)
				if err != nil {
					return nil, err
				}
				vt.samples = ss
			}
		} else if moov.Mvex != nil {
			for _, trex := range moov.Mvex.Trexs {
				if trex.TrackID != trak.Tkhd.TrackID {
					continue
				}
				for _, seg := range f.Segments {
					for _, fr := range seg.Fragments {
						if fr.Moof == nil || fr.Mdat == nil {
							continue
						}
						fss, err := fr.GetFullSamples(trex)
						if err != nil {
							return nil, fmt.Errorf("GetFullSamples: %w", err)
						}
						for _, fs := range fss {
							vt.samples = append(vt.samples, fs.Data)
						}
					}
				}
			}
		}
		if len(vt.samples) > max {
			vt.samples = vt.samples[:max]
		}
		out = append(out, vt)
	}
	return out, nil
}

// runJob executes one job on the shared bytes. private: hand DecodeFileSR a private copy instead.
func runJob(j job, shared []byte, key string, private bool) (res result) {
	// a panic is not recovered here: alone it reaches harness.Guarded, in a goroutine it is recovered and compared
	var w bytes.Buffer
	fail := func(what string, err error) result {
		return result{out: w.Bytes(), err: what + ": " + err.Error()}
	}
	var f *mp4.File
	var err error
	switch {
	case j.Act == "lazycopy":
		rs := bytes.NewReader(shared)
		f, err = mp4.DecodeFile(rs, mp4.WithDecodeMode(mp4.DecModeLazyMdat))
		if err != nil {
			return fail("DecodeFile(lazy)", err)
		}
		if f.IsFragmented() || f.Moov == nil || f.Mdat == nil {
			return result{err: "lazycopy: not a progressive file"}
		}
		ws := make([]byte, 16)
		for ti, trak := range f.Moov.Traks {
			n := trak.GetNrSamples()
			if n == 0 {
				continue
			}
			fmt.Fprintf(&w, "track %d: %d samples\n", ti, n)
			if err := f.CopySampleData(&w, rs, trak, 1, n, ws); err != nil {
				return fail("CopySampleData", err)
			}
			if n > 1 {
				if err := f.CopySampleData(&w, rs, trak, n/2+1, n, nil); err != nil {
					return fail("CopySampleData", err)
				}
			}
		}
		if f.Mdat.IsLazy() && f.Mdat.GetLazyDataSize() > 1 {
			d, err := f.Mdat.ReadData(int64(f.Mdat.PayloadAbsoluteOffset()), int64(f.Mdat.GetLazyDataSize())-1, rs)
			if err != nil {
				return fail("ReadData", err)
			}
			w.Write(d)
		}
		return result{out: w.Bytes()}
	case j.SR:
		data := shared
		if private {
			data = clone(shared)
		}
		f, err = mp4.DecodeFileSR(bits.NewFixedSliceReader(data))
		if err != nil {
			return fail("DecodeFileSR", err)
		}
	case j.Buf:
		f, err = mp4.DecodeFile(bytes.NewBuffer(shared[:len(shared):len(shared)]))
		if err != nil {
			return fail("DecodeFile(bytes.Buffer)", err)
		}
	default:
		f, err = mp4.DecodeFile(bytes.NewReader(shared))
		if err != nil {
			return fail("DecodeFile", err)
		}
	}

	switch j.Act {
	case "decode":
		fmt.Fprintf(&w, "fragmented=%v size=%d segments=%d\n", f.IsFragmented(), f.Size(), len(f.Segments))
		for _, b := range f.Children {
			fmt.Fprintf(&w, "%s %d\n", b.Type(), b.Size())
		}
	case "info":
		if err := f.Info(&w, infoLvl, "", "  "); err != nil {
			return fail("Info", err)
		}
	case "encode":
		f.FragEncMode = mp4.EncFragFileMode(j.Mode & 1)
		if err := f.Encode(&w); err != nil {
			return fail("Encode", err)
		}
	case "encodeSW":
		f.FragEncMode = mp4.EncFragFileMode(j.Mode & 1)
		sw := bits.NewFixedSliceWriter(int(f.Size()) + 64)
		if err := f.EncodeSW(sw); err != nil {
			return fail("EncodeSW", err)
		}
		w.Write(sw.Bytes())
	case "mutate", "brands":
		// the decoded structure is this goroutine's own: changing it must not reach the shared input or the
		// structures other goroutines decoded from it ("brands": only appends and header fields, no write into
		// sample data, so that it also runs on the shared slice after DecodeFileSR, which aliases mdat data)
		inPlace := j.Act == "mutate"
		if f.Ftyp != nil {
			f.Ftyp.AddCompatibleBrands([]string{"vrf1", "vrf2", "vrf3", "vrf4", "vrf5", "vrf6"})
		}
		for _, seg := range f.Segments {
			if seg.Styp != nil {
				seg.Styp.AddCompatibleBrands([]string{"vrf1", "vrf2", "vrf3", "vrf4"})
			}
			for _, fr := range seg.Fragments {
				if inPlace && fr.Mdat != nil && len(fr.Mdat.Data) > 0 {
					fr.Mdat.Data[0] ^= 0xff
					fr.Mdat.Data[len(fr.Mdat.Data)-1] ^= 0xff
				}
				if fr.Moof != nil && fr.Moof.Mfhd != nil {
					fr.Moof.Mfhd.SequenceNumber += 1000
				}
			}
		}
		if inPlace && f.Mdat != nil && len(f.Mdat.Data) > 0 {
			f.Mdat.Data[0] ^= 0xff
			f.Mdat.Data[len(f.Mdat.Data)-1] ^= 0xff
		}
		if f.Moov != nil && f.Moov.Mvhd != nil {
			f.Moov.Mvhd.NextTrackID += 7
			for _, trak := range f.Moov.Traks {
				if trak.Mdia != nil && trak.Mdia.Hdlr != nil {
					trak.Mdia.Hdlr.Name += " (changed)"
				}
			}
		}
		f.FragEncMode = mp4.EncFragFileMode(j.Mode & 1)
		if err := f.Encode(&w); err != nil {
			return fail("Encode", err)
		}
	case "samples":
		if !f.IsFragmented() {
			if f.Moov == nil || f.Mdat == nil {
				return result{err: "samples: no moov/mdat"}
			}
			for ti, trak := range f.Moov.Traks {
				ss, meta, err := progSamples(f, trak)
				if err != nil {
					return fail("samples", err)
				}
				for i, s := range ss {
					fmt.Fprintf(&w, "t%d s%d %+v %x\n", ti, i+1, meta[i], s)
				}
			}
		} else {
			if f.Init == nil || f.Init.Moov == nil || f.Init.Moov.Mvex == nil {
				return result{err: "samples: no init/mvex"}
			}
			for si, seg := range f.Segments {
				for fi, fr := range seg.Fragments {
					if fr.Moof == nil || fr.Mdat == nil {
						continue
					}
					for _, trex := range f.Init.Moov.Mvex.Trexs {
						fss, err := fr.GetFullSamples(trex)
						if err != nil {
							fmt.Fprintf(&w, "seg %d frag %d track %d: %v\n", si, fi, trex.TrackID, err)
							continue
						}
						for i, fs := range fss {
							fmt.Fprintf(&w, "seg %d frag %d track %d s%d %+v t=%d %x\n", si, fi, trex.TrackID, i, fs.Sample, fs.DecodeTime, fs.Data)
						}
					}
				}
			}
		}
	case "encrypt-cenc", "encrypt-cbcs":
		scheme := strings.TrimPrefix(j.Act, "encrypt-")
		if !f.IsFragmented() || f.Init == nil || f.Init.Moov == nil || f.Init.Moov.Mvex == nil || f.Init.Moov.Mvex.Trex == nil {
			return result{err: "encrypt: not a fragmented file with init"}
		}
		kid, err := mp4.NewUUIDFromString(encKID)
		if err != nil {
			return fail("NewUUIDFromString", err)
		}
		ipd, err := mp4.InitProtect(f.Init, encKey, encIV, scheme, kid, nil)
		if err != nil {
			return fail("InitProtect", err)
		}
		for _, seg := range f.Segments {
			for _, fr := range seg.Fragments {
				if fr.Moof == nil || fr.Mdat == nil {
					return result{err: "encrypt: incomplete fragment"}
				}
				if err := mp4.EncryptFragment(fr, encKey, encIV, ipd); err != nil {
					return fail("EncryptFragment", err)
				}
			}
		}
		f.FragEncMode = mp4.EncModeSegment
		if err := f.Encode(&w); err != nil {
			return fail("Encode", err)
		}
	case "decrypt":
		k, err := hex.DecodeString(key)
		if err != nil || len(k) != 16 {
			return result{err: "decrypt: no key for this input"}
		}
		if !f.IsFragmented() || f.Init == nil || f.Init.Moov == nil || f.Init.Moov.Mvex == nil {
			return result{err: "decrypt: not a fragmented file with init"}
		}
		di, err := mp4.DecryptInit(f.Init)
		if err != nil {
			return fail("DecryptInit", err)
		}
		if err := f.Init.Encode(&w); err != nil {
			return fail("Init.Encode", err)
		}
		for _, seg := range f.Segments {
			if err := mp4.DecryptSegment(seg, di, k); err != nil {
				return fail("DecryptSegment", err)
			}
			if err := seg.Encode(&w); err != nil {
				return fail("Segment.Encode", err)
			}
		}
	case "annexb":
		vts, err := videoTracks(f, 6)
		if err != nil {
			return fail("annexb", err)
		}
		for ti, vt := range vts {
			for si, s := range vt.samples {
				// the Annex-B conversions work in place: private copies
				nalus, err := avc.GetNalusFromSample(clone(s))
				fmt.Fprintf(&w, "t%d s%d nalus=%d err=%v\n", ti, si, len(nalus), err)
				bs := avc.ConvertSampleToByteStream(clone(s))
				w.Write(bs)
				for _, n := range avc.ExtractNalusFromByteStream(bs) {
					fmt.Fprintf(&w, " n%d", len(n))
				}
				back := avc.ConvertByteStreamToNaluSample(clone(bs))
				w.Write(back)
				three := bytes.ReplaceAll(clone(bs), []byte{0, 0, 0, 1}, []byte{0, 0, 1})
				w.Write(avc.ConvertByteStreamToNaluSample(three))
			}
		}
	case "params":
		vts, err := videoTracks(f, 4)
		if err != nil {
			return fail("params", err)
		}
		for ti, vt := range vts {
			switch vt.codec {
			case "avc":
				avcC := vt.stsd.AvcX.AvcC
				spsMap := map[uint32]*avc.SPS{}
				var first *avc.SPS
				for _, n := range avcC.SPSnalus {
					sps, err := avc.ParseSPSNALUnit(clone(n), true)
					if err != nil {
						fmt.Fprintf(&w, "t%d sps: %v\n", ti, err)
						continue
					}
					spsMap[sps.ParameterID] = sps
					if first == nil {
						first = sps
					}
					fmt.Fprintf(&w, "t%d sps %s\n", ti, jsonOf(sps))
				}
				for _, n := range avcC.PPSnalus {
					pps, err := avc.ParsePPSNALUnit(clone(n), spsMap)
					if err != nil {
						fmt.Fprintf(&w, "t%d pps: %v\n", ti, err)
						continue
					}
					fmt.Fprintf(&w, "t%d pps %s\n", ti, jsonOf(pps))
				}
				for si, s := range vt.samples {
					nalus, err := avc.GetNalusFromSample(clone(s))
					if err != nil {
						fmt.Fprintf(&w, "t%d s%d: %v\n", ti, si, err)
						continue
					}
					for _, n := range nalus {
						if len(n) == 0 || avc.GetNaluType(n[0]) != avc.NALU_SEI {
							continue
						}
						msgs, err := avc.ParseSEINalu(n, first)
						fmt.Fprintf(&w, "t%d s%d sei err=%v\n", ti, si, err)
						for _, m := range msgs {
							fmt.Fprintf(&w, "  %d %d %s\n", m.Type(), m.Size(), m.String())
						}
					}
				}
			case "hevc":
				hvcC := vt.stsd.HvcX.HvcC
				spsMap := map[uint32]*hevc.SPS{}
				var first *hevc.SPS
				for _, n := range hvcC.GetNalusForType(hevc.NALU_SPS) {
					sps, err := hevc.ParseSPSNALUnit(clone(n))
					if err != nil {
						fmt.Fprintf(&w, "t%d sps: %v\n", ti, err)
						continue
					}
					spsMap[uint32(sps.SpsID)] = sps
					if first == nil {
						first = sps
					}
					fmt.Fprintf(&w, "t%d sps %s\n", ti, jsonOf(sps))
				}
				for _, n := range hvcC.GetNalusForType(hevc.NALU_PPS) {
					pps, err := hevc.ParsePPSNALUnit(clone(n), spsMap)
					if err != nil {
						fmt.Fprintf(&w, "t%d pps: %v\n", ti, err)
						continue
					}
					fmt.Fprintf(&w, "t%d pps id=%d sps=%d\n", ti, pps.PicParameterSetID, pps.SeqParameterSetID)
				}
				for si, s := range vt.samples {
					nalus, err := avc.GetNalusFromSample(clone(s))
					if err != nil {
						fmt.Fprintf(&w, "t%d s%d: %v\n", ti, si, err)
						continue
					}
					for _, n := range nalus {
						if len(n) < 2 || hevc.GetNaluType(n[0]) != hevc.NALU_SEI_PREFIX {
							continue
						}
						msgs, err := hevc.ParseSEINalu(n, first)
						fmt.Fprintf(&w, "t%d s%d sei err=%v\n", ti, si, err)
						for _, m := range msgs {
							fmt.Fprintf(&w, "  %d %d %s\n", m.Type(), m.Size(), m.String())
						}
					}
				}
			}
		}
	default:
		return result{err: "unknown action " + j.Act}
	}
	return result{out: w.Bytes()}
}

// ---------------------------------------------------------------------------------------------
// the oracle

var raceMu sync.Mutex // one concurrent phase at a time (stderr capture, race counter)

// raceOnly (development aid, VERIF_C20_RACEONLY=1): a job that modifies its shared input alone is not reported at
// once; the input is restored and the concurrent phase runs, so that the race detector shows the conflict.
var raceOnly = os.Getenv("VERIF_C20_RACEONLY") == "1"

func jobList(c *jobMixCase) string {
	var sb strings.Builder
	for i, j := range c.Jobs {
		kind := "?"
		if j.Input >= 0 && j.Input < len(c.Inputs) {
			kind = c.Inputs[j.Input].Kind
			if kind == "repo" {
				kind = strings.Join(c.Inputs[j.Input].Paths, "+")
			}
		}
		fmt.Fprintf(&sb, "  g%d: input %d (%s) %s\n", i, j.Input, kind, j.apiName())
	}
	return sb.String()
}

func checkJobMix(c jobMixCase) *harness.Fail {
	var st stats
	return evalJobMix(&c, &st)
}

func evalJobMix(c *jobMixCase, st *stats) *harness.Fail {
	if len(c.Jobs) == 0 || len(c.Inputs) == 0 {
		return harness.Failf("harness|c20|bad-case", "no jobs or inputs")
	}
	shared := make([][]byte, len(c.Inputs))
	pristine := make([][]byte, len(c.Inputs))
	for i := range c.Inputs {
		b, err := c.Inputs[i].materialise()
		if err != nil {
			return harness.Failf("harness|c20|build", "input %d: %v", i, err)
		}
		shared[i], pristine[i] = b, clone(b)
	}
	for _, j := range c.Jobs {
		if j.Input < 0 || j.Input >= len(c.Inputs) {
			return harness.Failf("harness|c20|bad-case", "job input %d of %d", j.Input, len(c.Inputs))
		}
	}
	private := make([]bool, len(c.Jobs))
	for i, j := range c.Jobs {
		if j.SR && (j.crypt() || j.Act == "mutate") && c.avoid(st, "sr-decode-crypt-writes-shared-input") {
			private[i] = true // DecodeFileSR aliases the input as MdatBox.Data (known finding): writing through it is the same mechanism
		}
	}
	modified := func() int {
		for i := range shared {
			if !bytes.Equal(shared[i], pristine[i]) {
				return i
			}
		}
		return -1
	}

	ref := make([]result, len(c.Jobs))
	conc := make([]result, len(c.Jobs))

	// the jobs alone, one after the other; every shared slice must survive every single job
	runAlone := func() *harness.Fail {
		for i, j := range c.Jobs {
			ref[i] = runJob(j, shared[j.Input], c.Inputs[j.Input].Key, private[i]) // a panic here reaches harness.Guarded
			if k := modified(); k >= 0 && raceOnly {
				copy(shared[k], pristine[k]) // development aid: let the concurrent phase show the conflict itself
			} else if k >= 0 {
				at := diffAt(shared[k], pristine[k])
				return harness.Failf("C20|"+j.apiName()+"|shared input slice modified",
					"job g%d alone: input %d (%d bytes) differs from its pristine copy from offset %d on: now %s, was %s\njobs:\n%s",
					i, k, len(pristine[k]), at, harness.HexTrunc(shared[k][at:], 16), harness.HexTrunc(pristine[k][at:], 16), jobList(c))
			}
		}
		if st.outcomes == nil {
			st.outcomes = map[string]int64{}
		}
		for i, j := range c.Jobs {
			if ref[i].err == "" {
				st.outcomes["job-completed:"+j.Act]++
			} else {
				st.outcomes["job-ended-with-error:"+j.Act+":"+errClass(ref[i].err)]++
			}
		}
		return nil
	}

	// all jobs in parallel goroutines released by one barrier
	runTogether := func() *harness.Fail {
		raceMu.Lock()
		before := raceErrors()
		report := captureStderr(func() {
			start := make(chan struct{})
			var wg sync.WaitGroup
			for i := range c.Jobs {
				wg.Add(1)
				go func(i int) {
					defer wg.Done()
					defer func() {
						if r := recover(); r != nil {
							conc[i].panic = fmt.Sprintf("panic: %v", r)
						}
					}()
					j := c.Jobs[i]
					<-start
					conc[i] = runJob(j, shared[j.Input], c.Inputs[j.Input].Key, private[i])
				}(i)
			}
			close(start)
			wg.Wait()
		})
		after := raceErrors()
		raceMu.Unlock()
		if after > before {
			fmt.Printf("C20-RACE %d report(s) during this job list:\n%s", after-before, jobList(c))
			return harness.Failf("C20|race|"+raceKey(report), "%d data race report(s) while these goroutines ran:\n%s%s", after-before, jobList(c), trimReport(report))
		}
		return nil
	}

	// Order: with SeqFirst the reference is computed beforehand; otherwise the goroutines run first, on whatever
	// state the process has (lazily initialised or memoised package state would be warmed up by the reference run
	// and then only be read), and the reference is computed afterwards.
	concModified := -1
	if c.SeqFirst {
		if fail := runAlone(); fail != nil {
			return fail
		}
		if fail := runTogether(); fail != nil {
			return fail
		}
		concModified = modified()
	} else {
		if fail := runTogether(); fail != nil {
			return fail
		}
		if concModified = modified(); concModified >= 0 {
			for i := range shared {
				copy(shared[i], pristine[i]) // find the job that does it alone, for a specific key
			}
		}
		if fail := runAlone(); fail != nil {
			return fail
		}
	}
	if concModified >= 0 && !raceOnly {
		return harness.Failf("C20|concurrent run|shared input slice modified", "input %d differs from its pristine copy after the goroutines ran, but no job modifies it alone\njobs:\n%s", concModified, jobList(c))
	}

	// 3. every goroutine got what it gets alone
	for i, j := range c.Jobs {
		r, g := ref[i], conc[i]
		switch {
		case g.panic != r.panic:
			return harness.Failf("C20|"+j.apiName()+"|panic only in the concurrent run", "g%d: concurrent %q, alone %q\njobs:\n%s", i, g.panic, r.panic, jobList(c))
		case g.err != r.err:
			return harness.Failf("C20|"+j.apiName()+"|error differs from the run alone", "g%d: concurrent %q, alone %q\njobs:\n%s", i, g.err, r.err, jobList(c))
		case !bytes.Equal(g.out, r.out):
			at := diffAt(g.out, r.out)
			return harness.Failf("C20|"+j.apiName()+"|result differs from the run alone", "g%d: %d bytes concurrently, %d bytes alone, first difference at %d: %s vs %s\njobs:\n%s",
				i, len(g.out), len(r.out), at, harness.HexTrunc(g.out[at:], 16), harness.HexTrunc(r.out[at:], 16), jobList(c))
		}
	}

	return nil
}

func sortedKeys(m map[string]int64) []string {
	out := make([]string, 0, len(m))
	for k := range m {
		out = append(out, k)
	}
	sort.Strings(out)
	return out
}

func diffAt(a, b []byte) int {
	for i := 0; i < len(a) && i < len(b); i++ {
		if a[i] != b[i] {
			return i
		}
	}
	if len(a) < len(b) {
		return len(a)
	}
	return len(b)
}

var (
	accessRe = regexp.MustCompile(`(?m)^(?:Previous )?(?:[Aa]tomic )?(?:[Rr]ead|[Ww]rite) at 0x[0-9a-f]+ by (?:main )?goroutine`)
	frameRe  = regexp.MustCompile(`(?m)^  (github\.com/Eyevinn/mp4ff/[^\s(]+(?:\([^)]*\))?[^\s(]*)\(`)
)

// raceKey names the first library function on the stack of each of the two conflicting accesses of the first report.
func raceKey(report string) string {
	i := strings.Index(report, "WARNING: DATA RACE")
	if i < 0 {
		return "race report (see stderr)"
	}
	rep := report[i:]
	if j := strings.Index(rep[10:], "=================="); j > 0 {
		rep = rep[:j+10]
	}
	locs := accessRe.FindAllStringIndex(rep, -1)
	var fns []string
	for k, l := range locs {
		end := len(rep)
		if k+1 < len(locs) {
			end = locs[k+1][0]
		}
		blk := rep[l[0]:end]
		if g := strings.Index(blk, "\n\n"); g > 0 {
			blk = blk[:g]
		}
		fn := "non-library code"
		if m := frameRe.FindStringSubmatch(blk); m != nil {
			fn = strings.TrimPrefix(m[1], "github.com/Eyevinn/mp4ff/")
		}
		fns = append(fns, fn)
		if len(fns) == 2 {
			break
		}
	}
	sort.Strings(fns)
	if len(fns) == 0 {
		return "race report (see stderr)"
	}
	return strings.Join(fns, " <-> ")
}

func trimReport(r string) string {
	lines := strings.Split(r, "\n")
	if len(lines) > 70 {
		lines = append(lines[:70], "...")
	}
	return strings.Join(lines, "\n")
}

// ---------------------------------------------------------------------------------------------
// generator, evidence

type repoEntry struct {
	in     input
	acts   []string
	weight int
}

var repoPool = []repoEntry{
	{input{Kind: "repo", Paths: []string{"mp4/testdata/init.mp4", "mp4/testdata/1.m4s"}},
		[]string{"decode", "info", "encode", "encodeSW", "samples", "annexb", "params", "encrypt-cenc", "encrypt-cbcs"}, 4},
	{input{Kind: "repo", Paths: []string{"mp4/testdata/hvc1_init.mp4", "mp4/testdata/hvc1_seg_1.m4s"}},
		[]string{"decode", "info", "encode", "encodeSW", "samples", "annexb", "params", "encrypt-cenc", "encrypt-cbcs"}, 3},
	{input{Kind: "repo", Paths: []string{"mp4/testdata/cbcs.mp4"}, Key: "22bdb0063805260307ee5045c0f3835a"},
		[]string{"decode", "info", "encode", "samples", "decrypt", "decrypt", "decrypt"}, 4},
	{input{Kind: "repo", Paths: []string{"cmd/mp4ff-decrypt/testdata/PIFF/audio/init.mp4", "cmd/mp4ff-decrypt/testdata/PIFF/audio/segment-1.0001.m4s"}, Key: "602a9289bfb9b1995b75ac63f123fc86"},
		[]string{"decode", "info", "encode", "samples", "decrypt", "decrypt", "decrypt"}, 3},
	{input{Kind: "repo", Paths: []string{"mp4/testdata/prog_8s_enc_dashinit.mp4"}, Key: "63cb5f7184dd4b689a5c5ff11ee6a328"},
		[]string{"decode", "encode", "decrypt", "decrypt"}, 1},
	{input{Kind: "repo", Paths: []string{"mp4/testdata/cbcs_audio.mp4"}, Key: "5ffd93861fa776e96cccd934898fc1c8"},
		[]string{"decode", "encode", "decrypt", "decrypt"}, 1},
	{input{Kind: "repo", Paths: []string{"mp4/testdata/prog_8s.mp4"}},
		[]string{"decode", "lazycopy", "samples", "annexb", "params", "encode"}, 1},
}

var (
	progActs    = []string{"decode", "info", "encode", "encodeSW", "samples", "lazycopy", "params", "mutate", "brands"}
	fragActs    = []string{"decode", "info", "encode", "encodeSW", "samples", "params", "mutate", "brands"}
	synthActs   = []string{"decode", "info", "info", "encode", "encodeSW", "mutate", "brands"}
	fragEncActs = []string{"decode", "info", "encode", "encodeSW", "samples", "encrypt-cenc", "encrypt-cbcs", "encrypt-cenc", "encrypt-cbcs"}
)

func genInput(t *rapid.T) (input, []string) {
	switch rapid.SampledFrom([]string{"prog", "prog", "frag", "frag", "fragenc", "fragenc", "repo", "repo", "synth", "synth"}).Draw(t, "inputKind") {
	case "synth":
		// every box type and version/flag shape of the grammar generator (sample groups of every grouping type,
		// sample entries, uuid boxes, ...): registries and per-type decoders are exercised concurrently
		kind := rapid.SampledFrom([]string{"prog", "init", "media", "frag", "frag"}).Draw(t, "synthKind")
		return input{Kind: "synth", Data: boxgen.File(t, kind, boxgen.Opt{})}, synthActs
	case "prog":
		tracks := mp4build.GenTracks(t, mp4build.GenOpt{MaxSamples: 10, MaxSampleSize: 40, MaxTracks: 2})
		lay := mp4build.GenProgLayout(t, tracks)
		return input{Kind: "prog", Tracks: tracks, Layout: &lay}, progActs
	case "frag":
		v, a, err := fragStsd()
		if err != nil {
			t.Fatalf("harvest: %v", err)
		}
		// NoNonEmsgAtTopSidxAnchor: mp4.DecodeFile panics (finding of the fragment checks)
		opt := fragbuild.GenOpt{VideoStsd: v, AudioStsd: a, NoNonEmsgAtTopSidxAnchor: true, MaxSamples: 6, MaxSegments: 2, MaxFrags: 2}
		tracks := fragbuild.GenTracks(t, opt)
		lay := fragbuild.GenLayout(t, tracks, opt)
		return input{Kind: "frag", FTracks: tracks, FLayout: &lay}, fragActs
	case "fragenc":
		// one audio track, every fragment one traf with one trun: what InitProtect/EncryptFragment accept
		_, a, err := fragStsd()
		if err != nil {
			t.Fatalf("harvest: %v", err)
		}
		n := rapid.IntRange(1, 8).Draw(t, "nSamples")
		tr := fragbuild.Track{ID: rapid.Uint32Range(1, 5).Draw(t, "trackID"), Timescale: 48000, Handler: "soun", StsdRaw: a, Trex: fragbuild.TrexDefaults{DescIdx: 1}}
		for i := 0; i < n; i++ {
			size := rapid.IntRange(1, 80).Draw(t, "size")
			d := make([]byte, size)
			for k := range d {
				d[k] = byte(i*31 + k*7 + 1)
			}
			tr.Samples = append(tr.Samples, fragbuild.Sample{Data: d, Dur: 1024, Flags: fragbuild.FlagsSync})
		}
		nFrags := rapid.IntRange(1, 3).Draw(t, "nFrags")
		if nFrags > n {
			nFrags = n
		}
		lay := fragbuild.FileLayout{SeqStart: 1}
		seg := fragbuild.Segment{Styp: rapid.Bool().Draw(t, "styp")}
		for f := 0; f < nFrags; f++ {
			cnt := (f+1)*n/nFrags - f*n/nFrags
			seg.Frags = append(seg.Frags, fragbuild.Frag{Runs: []fragbuild.Run{{Track: 0, N: cnt}}, MdatLarge: rapid.IntRange(0, 4).Draw(t, "mdatLarge") == 0})
		}
		lay.Segments = []fragbuild.Segment{seg}
		return input{Kind: "frag", FTracks: []fragbuild.Track{tr}, FLayout: &lay}, fragEncActs
	default:
		var idx []int
		for i, e := range repoPool {
			for k := 0; k < e.weight; k++ {
				idx = append(idx, i)
			}
		}
		e := repoPool[rapid.SampledFrom(idx).Draw(t, "repoFile")]
		return e.in, e.acts
	}
}

func genJobMix(t *rapid.T) jobMixCase {
	var c jobMixCase
	nIn := rapid.IntRange(1, 3).Draw(t, "nInputs")
	acts := make([][]string, nIn)
	for i := 0; i < nIn; i++ {
		in, a := genInput(t)
		c.Inputs = append(c.Inputs, in)
		acts[i] = a
	}
	g := rapid.SampledFrom([]int{2, 2, 3, 3, 4, 4, 5, 6, 8, 8, 12, 16}).Draw(t, "goroutines")
	heavy := 0
	for i := 0; i < g; i++ {
		k := rapid.IntRange(0, nIn-1).Draw(t, "jobInput")
		if in := c.Inputs[k]; in.Kind == "repo" && len(in.Paths) == 1 && in.Key != "" && in.Paths[0] != "mp4/testdata/cbcs.mp4" || in.Kind == "repo" && in.Paths[0] == "mp4/testdata/prog_8s.mp4" {
			// the large files: at most four goroutines on them
			heavy++
			if heavy > 4 {
				for kk := range c.Inputs {
					if c.Inputs[kk].Kind != "repo" {
						k = kk
					}
				}
			}
		}
		j := job{Input: k, Act: rapid.SampledFrom(acts[k]).Draw(t, "act")}
		j.SR = rapid.Bool().Draw(t, "sr")
		if !j.SR && j.Act != "lazycopy" {
			j.Buf = rapid.IntRange(0, 2).Draw(t, "buf") == 0
		}
		j.Mode = rapid.IntRange(0, 1).Draw(t, "mode")
		c.Jobs = append(c.Jobs, j)
	}
	c.SeqFirst = rapid.IntRange(0, 3).Draw(t, "seqFirst") == 0
	return c
}

func classify(c *jobMixCase) (nontrivial bool, classes []string) {
	set := map[string]bool{}
	perInput := map[int]map[string]bool{}
	for _, j := range c.Jobs {
		set["act-"+j.Act] = true
		if j.SR && j.Act != "lazycopy" {
			set["decode-DecodeFileSR-on-shared-slice"] = true
			if j.crypt() {
				set["sr-decode+crypt"] = true
			}
		} else {
			set["decode-DecodeFile-reader"] = true
		}
		if perInput[j.Input] == nil {
			perInput[j.Input] = map[string]bool{}
		}
		perInput[j.Input][j.apiName()] = true
		in := c.Inputs[j.Input]
		set["input-"+in.Kind] = true
		if j.Act == "encode" || j.Act == "encodeSW" {
			set[fmt.Sprintf("%s-mode-%d", j.Act, j.Mode&1)] = true
		}
	}
	for _, kinds := range perInput {
		if len(kinds) >= 2 {
			nontrivial = true
		}
	}
	g := len(c.Jobs)
	switch {
	case g <= 2:
		set["goroutines-2"] = true
	case g <= 4:
		set["goroutines-3..4"] = true
	case g <= 8:
		set["goroutines-5..8"] = true
	default:
		set["goroutines-9..16"] = true
	}
	if nontrivial {
		set["different-jobs-on-one-shared-slice"] = true
	}
	if c.SeqFirst {
		set["order-reference-then-goroutines"] = true
	} else {
		set["order-goroutines-then-reference"] = true
	}
	for k := range set {
		classes = append(classes, k)
	}
	sort.Strings(classes)
	return
}

func TestJobMix(t *testing.T) {
	if !raceEnabled {
		t.Log("built without -race: only result comparison and input integrity are checked")
		harness.Rec.Note("built without -race")
	}
	harness.RunRapid(t, "jobmix", func(rt *rapid.T) {
		c := genJobMix(rt)
		raw, _ := json.Marshal(c)
		nt, classes := classify(&c)
		harness.Rec.Case(nt, raw, classes...)
		harness.Rec.ClassN("goroutines-run", int64(len(c.Jobs)))
		if harness.Rec.WantSample() && nt && len(raw) < 6000 {
			harness.Rec.Sample(map[string]interface{}{"kind": "jobmix", "case": c})
		}
		var st stats
		f := harness.Guarded(func() *harness.Fail { return evalJobMix(&c, &st) })
		for _, k := range sortedKeys(st.outcomes) {
			harness.Rec.ClassN(k, st.outcomes[k])
		}
		names := make([]string, 0, len(st.skipped))
		for name := range st.skipped {
			names = append(names, name)
		}
		sort.Strings(names)
		for _, name := range names {
			harness.Rec.Exclude(name)
			harness.Rec.ClassN("avoided-jobs:"+name, st.skipped[name])
		}
		harness.Report(rt, "jobmix", c, f)
	})
}

// ---------------------------------------------------------------------------------------------
// reproducers of the known findings (regenerate with VERIF_C20_WRITE_KF=1 go test -tags verif ./props/c20 -run TestWriteKnownFindingRepros)

func knownFindingCases() map[string]jobMixCase {
	cbcs := repoPool[2].in
	return map[string]jobMixCase{
		"sr-decode-crypt-writes-shared-input": {Inputs: []input{cbcs},
			Jobs: []job{{Input: 0, SR: true, Act: "decrypt"}, {Input: 0, SR: true, Act: "decrypt"}}, NoAvoid: true},
		// the same mechanism through EncryptFragment (init.mp4 + 1.m4s of the repository)
		"sr-decode-crypt-writes-shared-input-encrypt": {Inputs: []input{repoPool[0].in},
			Jobs: []job{{Input: 0, SR: true, Act: "encrypt-cenc"}, {Input: 0, SR: true, Act: "samples"}}, NoAvoid: true},
	}
}

func TestWriteKnownFindingRepros(t *testing.T) {
	if os.Getenv("VERIF_C20_WRITE_KF") == "" {
		t.Skip("VERIF_C20_WRITE_KF not set")
	}
	dir := harness.E.VerifDir + "/replay/C20"
	if err := os.MkdirAll(dir, 0o755); err != nil {
		t.Fatal(err)
	}
	for name, c := range knownFindingCases() {
		c := c
		f := harness.Guarded(func() *harness.Fail { return checkJobMix(c) })
		if f == nil {
			t.Errorf("%s: the case does not fail (defect repaired?)", name)
			continue
		}
		raw, _ := json.Marshal(c)
		msg := f.Msg
		if i := strings.Index(msg, "\n"); i > 0 {
			msg = msg[:i]
		}
		b, _ := json.MarshalIndent(harness.ReplayFile{Property: "C20", Kind: "jobmix", Key: f.Key, Msg: msg, Case: raw}, "", " ")
		if err := os.WriteFile(dir+"/kf-"+name+".json", append(b, '\n'), 0o644); err != nil {
			t.Fatal(err)
		}
		t.Logf("%s: %s: %s", name, f.Key, msg)
	}
}
