//go:build !race

package c20

const raceEnabled = false

func raceErrors() int { return 0 }

func captureStderr(fn func()) string {
	fn()
	return ""
}
