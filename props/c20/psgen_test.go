// Independent byte-level writers of small AVC / HEVC parameter sets, SEI NAL units and of the stsd box that
// carries them (no library call): the near-duplicate inputs of C20 are built from these. Two parameter sets
// drawn with the same "head" (profile, constraint flags, level, ids) and different picture sizes have the same
// length and the same first bytes, and differ only behind them.
package c20

import (
	"encoding/binary"
)

type bitw struct {
	b []byte
	n uint // bits used in the last byte (0 = byte aligned)
}

func (w *bitw) bit(v uint64) {
	if w.n == 0 {
		w.b = append(w.b, 0)
	}
	if v&1 == 1 {
		w.b[len(w.b)-1] |= 1 << (7 - w.n)
	}
	w.n = (w.n + 1) & 7
}

func (w *bitw) u(v uint64, nbits int) {
	for i := nbits - 1; i >= 0; i-- {
		w.bit(v >> uint(i))
	}
}

func (w *bitw) ue(v uint64) {
	v++
	l := 0
	for x := v; x > 1; x >>= 1 {
		l++
	}
	w.u(0, l)
	w.u(v, l+1)
}

func (w *bitw) se(v int64) {
	if v > 0 {
		w.ue(uint64(2*v - 1))
	} else {
		w.ue(uint64(-2 * v))
	}
}

func (w *bitw) trailing() {
	w.bit(1)
	for w.n != 0 {
		w.bit(0)
	}
}

// escapeRBSP inserts emulation prevention bytes (ISO/IEC 14496-10 7.4.1).
func escapeRBSP(rbsp []byte) []byte {
	out := make([]byte, 0, len(rbsp)+4)
	zeros := 0
	for _, c := range rbsp {
		if zeros >= 2 && c <= 3 {
			out = append(out, 3)
			zeros = 0
		}
		out = append(out, c)
		if c == 0 {
			zeros++
		} else {
			zeros = 0
		}
	}
	return out
}

// psHead is what two near-duplicate parameter sets have in common.
type psHead struct {
	Profile    int // avc: 66 | 77 | 100; hevc: general_profile_idc 1 | 2
	Constraint int // avc: constraint_set flags byte
	Level      int // level_idc
	SPSID      int
	PPSID      int
	PocType    int // avc: 0 | 2
	Crop       bool
}

// avcSPS writes a sequence parameter set NAL unit (7.3.2.1.1) without VUI. wMbs, hMbs: picture size in macroblocks.
func avcSPS(h psHead, wMbs, hMbs int) []byte {
	w := &bitw{}
	w.u(uint64(h.Profile), 8)
	w.u(uint64(h.Constraint), 8)
	w.u(uint64(h.Level), 8)
	w.ue(uint64(h.SPSID))
	if h.Profile == 100 {
		w.ue(1) // chroma_format_idc
		w.ue(0) // bit_depth_luma_minus8
		w.ue(0) // bit_depth_chroma_minus8
		w.bit(0)
		w.bit(0) // seq_scaling_matrix_present_flag
	}
	w.ue(4) // log2_max_frame_num_minus4
	w.ue(uint64(h.PocType))
	if h.PocType == 0 {
		w.ue(2) // log2_max_pic_order_cnt_lsb_minus4
	}
	w.ue(3)  // max_num_ref_frames
	w.bit(0) // gaps_in_frame_num_value_allowed_flag
	w.ue(uint64(wMbs - 1))
	w.ue(uint64(hMbs - 1))
	w.bit(1) // frame_mbs_only_flag
	w.bit(1) // direct_8x8_inference_flag
	if h.Crop {
		w.bit(1)
		w.ue(0)
		w.ue(1)
		w.ue(0)
		w.ue(2)
	} else {
		w.bit(0)
	}
	w.bit(0) // vui_parameters_present_flag
	w.trailing()
	return append([]byte{0x67}, escapeRBSP(w.b)...)
}

// avcPPS writes a picture parameter set NAL unit (7.3.2.2); qp is pic_init_qp_minus26.
func avcPPS(h psHead, qp int) []byte {
	w := &bitw{}
	w.ue(uint64(h.PPSID))
	w.ue(uint64(h.SPSID))
	w.bit(0) // entropy_coding_mode_flag
	w.bit(0) // bottom_field_pic_order_in_frame_present_flag
	w.ue(0)  // num_slice_groups_minus1
	w.ue(0)
	w.ue(0)
	w.bit(0)  // weighted_pred_flag
	w.u(0, 2) // weighted_bipred_idc
	w.se(int64(qp))
	w.se(0)
	w.se(0)
	w.bit(1) // deblocking_filter_control_present_flag
	w.bit(0)
	w.bit(0)
	w.trailing()
	return append([]byte{0x68}, escapeRBSP(w.b)...)
}

func hevcPTL(w *bitw, h psHead) {
	w.u(0, 2) // general_profile_space
	w.bit(0)  // general_tier_flag
	w.u(uint64(h.Profile), 5)
	w.u(uint64(1)<<(31-uint(h.Profile)), 32) // general_profile_compatibility_flag[profile]
	w.bit(1)                                 // general_progressive_source_flag
	w.bit(0)
	w.bit(0)
	w.bit(1) // general_frame_only_constraint_flag
	w.u(0, 43)
	w.bit(0)
	w.u(uint64(h.Level), 8)
}

func hevcVPS(h psHead) []byte {
	w := &bitw{}
	w.u(0, 4) // vps_video_parameter_set_id
	w.bit(1)
	w.bit(1)
	w.u(0, 6) // vps_max_layers_minus1
	w.u(0, 3) // vps_max_sub_layers_minus1
	w.bit(1)  // vps_temporal_id_nesting_flag
	w.u(0xffff, 16)
	hevcPTL(w, h)
	w.bit(1) // vps_sub_layer_ordering_info_present_flag
	w.ue(3)
	w.ue(1)
	w.ue(0)
	w.u(0, 6) // vps_max_layer_id
	w.ue(0)   // vps_num_layer_sets_minus1
	w.bit(0)  // vps_timing_info_present_flag
	w.bit(0)  // vps_extension_flag
	w.trailing()
	return append([]byte{32 << 1, 1}, escapeRBSP(w.b)...)
}

// hevcSPS writes a sequence parameter set NAL unit (ITU-T H.265 7.3.2.2) without VUI; w8, h8: picture size in units of 8 luma samples.
func hevcSPS(h psHead, w8, h8 int) []byte {
	w := &bitw{}
	w.u(0, 4) // sps_video_parameter_set_id
	w.u(0, 3) // sps_max_sub_layers_minus1
	w.bit(1)  // sps_temporal_id_nesting_flag
	hevcPTL(w, h)
	w.ue(uint64(h.SPSID))
	w.ue(1) // chroma_format_idc
	w.ue(uint64(w8 * 8))
	w.ue(uint64(h8 * 8))
	w.bit(0) // conformance_window_flag
	w.ue(0)
	w.ue(0)
	w.ue(4)  // log2_max_pic_order_cnt_lsb_minus4
	w.bit(1) // sps_sub_layer_ordering_info_present_flag
	w.ue(3)
	w.ue(1)
	w.ue(0)
	w.ue(0) // log2_min_luma_coding_block_size_minus3
	w.ue(2) // log2_diff_max_min_luma_coding_block_size
	w.ue(0) // log2_min_luma_transform_block_size_minus2
	w.ue(3) // log2_diff_max_min_luma_transform_block_size
	w.ue(1)
	w.ue(1)
	w.bit(0) // scaling_list_enabled_flag
	w.bit(0) // amp_enabled_flag
	w.bit(1) // sample_adaptive_offset_enabled_flag
	w.bit(0) // pcm_enabled_flag
	w.ue(0)  // num_short_term_ref_pic_sets
	w.bit(0) // long_term_ref_pics_present_flag
	w.bit(1) // sps_temporal_mvp_enabled_flag
	w.bit(1) // strong_intra_smoothing_enabled_flag
	w.bit(0) // vui_parameters_present_flag
	w.bit(0) // sps_extension_present_flag
	w.trailing()
	return append([]byte{33 << 1, 1}, escapeRBSP(w.b)...)
}

// hevcPPS writes a picture parameter set NAL unit (7.3.2.3.1); qp is init_qp_minus26.
func hevcPPS(h psHead, qp int) []byte {
	w := &bitw{}
	w.ue(uint64(h.PPSID))
	w.ue(uint64(h.SPSID))
	w.bit(0)  // dependent_slice_segments_enabled_flag
	w.bit(0)  // output_flag_present_flag
	w.u(0, 3) // num_extra_slice_header_bits
	w.bit(0)  // sign_data_hiding_enabled_flag
	w.bit(0)  // cabac_init_present_flag
	w.ue(0)
	w.ue(0)
	w.se(int64(qp))
	w.bit(0) // constrained_intra_pred_flag
	w.bit(0) // transform_skip_enabled_flag
	w.bit(0) // cu_qp_delta_enabled_flag
	w.se(0)
	w.se(0)
	w.bit(0) // pps_slice_chroma_qp_offsets_present_flag
	w.bit(0) // weighted_pred_flag
	w.bit(0) // weighted_bipred_flag
	w.bit(0) // transquant_bypass_enabled_flag
	w.bit(0) // tiles_enabled_flag
	w.bit(0) // entropy_coding_sync_enabled_flag
	w.bit(0) // pps_loop_filter_across_slices_enabled_flag
	w.bit(0) // deblocking_filter_control_present_flag
	w.bit(0) // pps_scaling_list_data_present_flag
	w.bit(0) // lists_modification_present_flag
	w.ue(0)  // log2_parallel_merge_level_minus2
	w.bit(0) // slice_segment_header_extension_present_flag
	w.bit(0) // pps_extension_present_flag
	w.trailing()
	return append([]byte{34 << 1, 1}, escapeRBSP(w.b)...)
}

// seiNalu writes an SEI NAL unit with the given messages (payload type, payload bytes).
type seiMsg struct {
	Type    int
	Payload []byte
}

func seiNalu(codec string, msgs []seiMsg) []byte {
	var rbsp []byte
	for _, m := range msgs {
		t := m.Type
		for ; t >= 255; t -= 255 {
			rbsp = append(rbsp, 0xff)
		}
		rbsp = append(rbsp, byte(t))
		n := len(m.Payload)
		for ; n >= 255; n -= 255 {
			rbsp = append(rbsp, 0xff)
		}
		rbsp = append(rbsp, byte(n))
		rbsp = append(rbsp, m.Payload...)
	}
	rbsp = append(rbsp, 0x80)
	hdr := []byte{0x06}
	if codec == "hevc" {
		hdr = []byte{39 << 1, 1}
	}
	return append(hdr, escapeRBSP(rbsp)...)
}

func be32(v int) []byte { return binary.BigEndian.AppendUint32(nil, uint32(v)) }
func be16(v int) []byte { return binary.BigEndian.AppendUint16(nil, uint16(v)) }

func rawBox(typ string, payload ...[]byte) []byte {
	n := 8
	for _, p := range payload {
		n += len(p)
	}
	out := append(be32(n), typ...)
	for _, p := range payload {
		out = append(out, p...)
	}
	return out
}

// videoStsd writes an stsd box with one avc1 / hvc1 sample entry that carries the parameter sets.
func videoStsd(codec string, h psHead, width, height int, vps, sps, pps []byte) []byte {
	var conf []byte
	entry := "avc1"
	if codec == "avc" {
		rec := []byte{1, byte(h.Profile), byte(h.Constraint), byte(h.Level), 0xff, 0xe1}
		rec = append(rec, be16(len(sps))...)
		rec = append(rec, sps...)
		rec = append(rec, 1)
		rec = append(rec, be16(len(pps))...)
		rec = append(rec, pps...)
		if h.Profile == 100 {
			rec = append(rec, 0xfd, 0xf8, 0xf8, 0)
		}
		conf = rawBox("avcC", rec)
	} else {
		entry = "hvc1"
		rec := []byte{1, byte(h.Profile)}
		rec = append(rec, be32(1<<(31-uint(h.Profile)))...)
		rec = append(rec, 0x90, 0, 0, 0, 0, 0, byte(h.Level))
		rec = append(rec, 0xf0, 0, 0xfc, 0xfd, 0xf8, 0xf8, 0, 0, 0x0f, 3)
		for _, a := range []struct {
			typ  byte
			nalu []byte
		}{{32, vps}, {33, sps}, {34, pps}} {
			rec = append(rec, 0x80|a.typ, 0, 1)
			rec = append(rec, be16(len(a.nalu))...)
			rec = append(rec, a.nalu...)
		}
		conf = rawBox("hvcC", rec)
	}
	vse := make([]byte, 78)
	vse[7] = 1 // data_reference_index
	copy(vse[24:], be16(width))
	copy(vse[26:], be16(height))
	copy(vse[28:], []byte{0, 0x48, 0, 0, 0, 0x48, 0, 0}) // 72 dpi
	vse[41] = 1                                          // frame_count
	copy(vse[74:], []byte{0, 0x18, 0xff, 0xff})
	return rawBox("stsd", []byte{0, 0, 0, 0, 0, 0, 0, 1}, rawBox(entry, vse, conf))
}
