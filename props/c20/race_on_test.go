//go:build race

package c20

import (
	"fmt"
	"io"
	"os"
	"path/filepath"
	"runtime"
	"syscall"

	"verif/internal/harness"
)

const raceEnabled = true

// raceErrors is the number of data race reports so far (the counter the testing package uses as well).
func raceErrors() int { return runtime.RaceErrors() }

// captureStderr runs fn with file descriptor 2 redirected to a temporary file (the race detector writes its
// reports to fd 2 directly), restores it, copies what was written to the real stderr and returns it.
func captureStderr(fn func()) string {
	// a fixed file below the output directory: if the process dies inside fn (Go's "fatal error: concurrent map
	// writes" is not recoverable) the trace is found there
	_ = os.MkdirAll(harness.E.OutDir, 0o755)
	name := filepath.Join(harness.E.OutDir, fmt.Sprintf("c20-stderr.%s.%d.txt", harness.E.Leg, harness.E.Shard))
	tmp, err := os.OpenFile(name, os.O_CREATE|os.O_RDWR|os.O_TRUNC, 0o644)
	if err != nil {
		fn()
		return ""
	}
	defer tmp.Close()
	saved, err := syscall.Dup(2)
	if err != nil {
		fn()
		return ""
	}
	if err := syscall.Dup3(int(tmp.Fd()), 2, 0); err != nil {
		syscall.Close(saved)
		fn()
		return ""
	}
	func() {
		defer func() {
			_ = syscall.Dup3(saved, 2, 0)
			syscall.Close(saved)
		}()
		fn()
	}()
	if _, err := tmp.Seek(0, io.SeekStart); err != nil {
		return ""
	}
	b, _ := io.ReadAll(tmp)
	if len(b) > 0 {
		os.Stderr.Write(b)
	}
	return string(b)
}
