// Generators of the inputs added for history independence and the writer side: parameter-set bundles, single
// boxes, files that carry generated parameter sets, and the near-duplicate sibling of each of them.
package c20

import (
	"encoding/binary"
	"encoding/json"

	"pgregory.net/rapid"

	"verif/internal/boxgen"
)

// psSet is one set of parameter sets written by psgen_test.go.
type psSet struct {
	codec         string
	head          psHead
	vps, sps, pps []byte
	width, height int
}

func (p psSet) stsd() []byte {
	return videoStsd(p.codec, p.head, p.width, p.height, p.vps, p.sps, p.pps)
}

// genPSPair draws two sets with the same head (nal header, profile, constraint flags, level, ids): the SPSs have
// the same length (same ue(v) code lengths for all sizes drawn) and the same first 4 bytes and differ in the
// picture size only; the PPSs differ in the initial QP.
func genPSPair(t *rapid.T) (a, b psSet) {
	codec := rapid.SampledFrom([]string{"avc", "avc", "hevc"}).Draw(t, "psCodec")
	var h psHead
	if codec == "avc" {
		h.Profile = rapid.SampledFrom([]int{66, 77, 100}).Draw(t, "profile")
		h.Constraint = rapid.SampledFrom([]int{0, 0x40, 0xc0}).Draw(t, "constraint")
		h.Level = rapid.SampledFrom([]int{30, 31, 40}).Draw(t, "level")
		h.PocType = rapid.SampledFrom([]int{0, 2}).Draw(t, "pocType")
		h.Crop = rapid.Bool().Draw(t, "crop")
	} else {
		h.Profile = rapid.IntRange(1, 2).Draw(t, "profile")
		h.Level = rapid.SampledFrom([]int{93, 120, 123}).Draw(t, "level")
	}
	h.SPSID = rapid.IntRange(0, 3).Draw(t, "spsID")
	h.PPSID = rapid.IntRange(0, 5).Draw(t, "ppsID")
	w0 := rapid.IntRange(16, 31).Draw(t, "wUnits")
	h0 := rapid.IntRange(16, 31).Draw(t, "hUnits")
	w1 := rapid.IntRange(16, 31).Draw(t, "wUnitsSibling")
	h1 := 16 + (h0-16+1+rapid.IntRange(0, 14).Draw(t, "hUnitsSibling"))%16
	qp0 := rapid.IntRange(-3, 3).Draw(t, "qp")
	qp1 := qp0 + 1
	mk := func(wu, hu, qp int) psSet {
		p := psSet{codec: codec, head: h}
		if codec == "avc" {
			p.sps, p.pps = avcSPS(h, wu, hu), avcPPS(h, qp)
			p.width, p.height = wu*16, hu*16
			if h.Crop {
				p.width -= 2
				p.height -= 4
			}
		} else {
			p.vps, p.sps, p.pps = hevcVPS(h), hevcSPS(h, wu, hu), hevcPPS(h, qp)
			p.width, p.height = wu*8, hu*8
		}
		return p
	}
	return mk(w0, h0, qp0), mk(w1, h1, qp1)
}

var (
	avcNalTypes  = []byte{0x65, 0x41, 0x21, 0x06, 0x09, 0x67, 0x68, 0x0c}
	hevcNalTypes = []byte{19, 20, 1, 0, 39, 40, 35, 32, 33, 34, 21}
	scPatterns   = [][]byte{{0, 0, 1}, {0, 0, 3}, {0, 0, 0, 1}, {0, 0, 0}, {0, 0, 2}}
)

// naluStructure rewrites sample data IN PLACE (same size) into 1..3 length-prefixed NAL units with valid headers;
// the payload keeps its filler bytes, sometimes with a start-code / emulation-prevention pattern put in.
func naluStructure(t *rapid.T, codec string, d []byte) {
	hl := 1
	if codec == "hevc" {
		hl = 2
	}
	min := 4 + hl + 1
	if len(d) < min {
		return
	}
	maxParts := len(d) / min
	if maxParts > 3 {
		maxParts = 3
	}
	parts := rapid.IntRange(1, maxParts).Draw(t, "naluParts")
	pos := 0
	for p := 0; p < parts; p++ {
		end := len(d) * (p + 1) / parts
		binary.BigEndian.PutUint32(d[pos:], uint32(end-pos-4))
		if codec == "hevc" {
			d[pos+4] = rapid.SampledFrom(hevcNalTypes).Draw(t, "hevcNalType") << 1
			d[pos+5] = 1
		} else {
			d[pos+4] = rapid.SampledFrom(avcNalTypes).Draw(t, "avcNalType")
		}
		body := d[pos+4+hl : end]
		if len(body) >= 5 && rapid.IntRange(0, 2).Draw(t, "scPattern") == 0 {
			pat := rapid.SampledFrom(scPatterns).Draw(t, "pattern")
			at := rapid.IntRange(0, len(body)-len(pat)).Draw(t, "patternAt")
			copy(body[at:], pat)
		}
		pos = end
	}
}

// tweakTail changes the last byte(s) of a copy of d (never the NAL length fields of naluStructure).
func tweakTail(d []byte, x byte) []byte {
	out := clone(d)
	if x == 0 {
		x = 1
	}
	if n := len(out); n > 0 {
		out[n-1] ^= x
		if n >= 12 {
			out[n-2] ^= x>>1 | 1
		}
	}
	return out
}

// deepCopy through JSON (the case is stored as JSON anyway).
func deepCopy[T any](v T) T {
	raw, err := json.Marshal(v)
	if err != nil {
		panic(err)
	}
	var out T
	if err := json.Unmarshal(raw, &out); err != nil {
		panic(err)
	}
	return out
}

// tableBoxTypes: box types whose decoders / Info / accessors read package-level tables of the library, or that
// go through a second registry (sample group entries, uuid sub-types, descriptors, codec configuration records).
var tableBoxTypes = []string{"prft", "dac3", "dec3", "esds", "uuid", "sgpd", "sbgp", "senc", "avcC", "hvcC", "av1C", "stsd",
	"emsg", "trun", "mp4a", "ac-3", "ec-3", "avc1", "hvc1", "encv", "enca", "moov", "moof", "traf", "meta", "sidx", "pssh", "tfra", "ilst"}

// genBoxInputs draws one box (and its near-duplicate: the same type drawn again, or the same bytes with a changed tail).
func genBoxInputs(t *rapid.T, dup bool) []input {
	var typ string
	switch rapid.IntRange(0, 3).Draw(t, "boxTypeFrom") {
	case 0:
		typ = rapid.SampledFrom(boxgen.LeafTypes()).Draw(t, "leafType")
	case 1:
		typ = rapid.SampledFrom(boxgen.ContainerTypes()).Draw(t, "containerType")
	default:
		typ = rapid.SampledFrom(tableBoxTypes).Draw(t, "tableType")
	}
	opt := boxgen.Opt{Hostile: rapid.IntRange(0, 5).Draw(t, "hostile") == 0}
	a := input{Kind: "box", Typ: typ, Data: boxgen.Box(t, typ, opt)}
	if !dup {
		return []input{a}
	}
	b := input{Kind: "box", Typ: typ}
	if rapid.Bool().Draw(t, "siblingRedrawn") {
		b.Data = boxgen.Box(t, typ, opt) // same type, another payload (and usually another size)
	} else {
		b.Data = tweakTail(a.Data, rapid.Byte().Draw(t, "tailXor")) // same type and size
	}
	return []input{a, b}
}

var seiTypes = []int{0, 1, 4, 5, 6, 45, 136, 137, 144, 147}

func genSEIPayload(t *rapid.T, typ int) []byte {
	switch typ {
	case 137:
		return rapid.SliceOfN(rapid.Byte(), 24, 24).Draw(t, "seiPayload")
	case 144:
		return rapid.SliceOfN(rapid.Byte(), 4, 4).Draw(t, "seiPayload")
	case 5:
		return rapid.SliceOfN(rapid.Byte(), 16, 40).Draw(t, "seiPayload")
	case 4:
		if rapid.Bool().Draw(t, "cea608") {
			// ITU-T T.35 country US, provider ATSC, "GA94", cc_data with one or two triplets
			n := rapid.IntRange(1, 2).Draw(t, "ccCount")
			p := []byte{0xb5, 0x00, 0x31, 'G', 'A', '9', '4', 0x03, 0xc0 | byte(n), 0xff}
			for i := 0; i < n; i++ {
				p = append(p, 0xfc|byte(i&1), rapid.Byte().Draw(t, "cc1"), rapid.Byte().Draw(t, "cc2"))
			}
			return append(p, 0xff)
		}
	}
	return rapid.SliceOfN(rapid.Byte(), 0, 30).Draw(t, "seiPayload")
}

// genNalusInputs draws a bundle (parameter sets, SEI NAL units, samples, SEI payloads) and, with dup, its
// near-duplicate: same structure, ids and sizes; other picture size / QP; other last bytes.
func genNalusInputs(t *rapid.T, dup bool) []input {
	pa, pb := genPSPair(t)
	codec := pa.codec
	type plan struct {
		role string
		data []byte // for E D A; nil for parameter sets
		ps   int    // 1 vps, 2 sps, 3 pps
	}
	var plans []plan
	if codec == "hevc" {
		plans = append(plans, plan{role: "V", ps: 1})
	}
	plans = append(plans, plan{role: "S", ps: 2}, plan{role: "P", ps: 3})
	for i, n := 0, rapid.IntRange(0, 2).Draw(t, "nSEINalus"); i < n; i++ {
		var msgs []seiMsg
		for k, m := 0, rapid.IntRange(1, 3).Draw(t, "nMsgs"); k < m; k++ {
			typ := rapid.SampledFrom(seiTypes).Draw(t, "seiType")
			msgs = append(msgs, seiMsg{typ, genSEIPayload(t, typ)})
		}
		plans = append(plans, plan{role: "E", data: seiNalu(codec, msgs)})
	}
	for i, n := 0, rapid.IntRange(0, 3).Draw(t, "nSEIPayloads"); i < n; i++ {
		typ := rapid.SampledFrom(seiTypes).Draw(t, "seiType")
		plans = append(plans, plan{role: "A", data: append([]byte{byte(typ)}, genSEIPayload(t, typ)...)})
	}
	nSamples := rapid.IntRange(0, 4).Draw(t, "nSamples")
	withPS := make([]bool, nSamples)
	for i := 0; i < nSamples; i++ {
		d := rapid.SliceOfN(rapid.Byte(), 6, 48).Draw(t, "sampleData")
		naluStructure(t, codec, d)
		withPS[i] = rapid.IntRange(0, 2).Draw(t, "samplePS") == 0
		plans = append(plans, plan{role: "D", data: d})
	}
	x := rapid.Byte().Draw(t, "tailXor")
	build := func(p psSet, tweak bool) input {
		in := input{Kind: "nalus", Codec: codec}
		si := 0
		for _, pl := range plans {
			var d []byte
			switch pl.ps {
			case 1:
				d = p.vps
			case 2:
				d = p.sps
			case 3:
				d = p.pps
			default:
				d = pl.data
				if tweak {
					d = tweakTail(d, x)
				}
				if pl.role == "D" {
					if withPS[si] { // the sample starts with the parameter sets, as an avc3 / hev1 sync sample does
						var pre []byte
						for _, n := range [][]byte{p.vps, p.sps, p.pps} {
							if n != nil {
								pre = binary.BigEndian.AppendUint32(pre, uint32(len(n)))
								pre = append(pre, n...)
							}
						}
						d = append(pre, d...)
					}
					si++
				}
			}
			in.Items = append(in.Items, psItem{Role: pl.role, Data: clone(d)})
		}
		return in
	}
	a := build(pa, false)
	if !dup {
		return []input{a}
	}
	return []input{a, build(pb, true)}
}

var (
	boxActs   = []string{"box", "box", "box", "box", "info", "decode"}
	nalusActs = []string{"ps-parse", "ps-parse", "build-init", "build-init", "build-frag", "build-confrec", "build-sei", "nalu-annexb"}
)
