package c04

// Native coverage-guided fuzzing of the same oracle (thorough tier only, leg "fuzz"): Go's fuzzing engine mutates
// (entry point, decode flags, Info level, encode variant, bytes) under coverage feedback from the library; every input
// goes through checkData, i.e. the panic, watchdog, neither-structure-nor-error, input-unmodified and per-stage
// allocation rules of the rapid leg. The per-stage CPU-time rule is left to the rapid leg: the instrumented binary and
// sixteen busy workers shift its constants. The corpus starts from the stored replay files and the small seed files.
// A failing input is written as an ordinary replay file (kind "container"), which the driver replays afterwards with
// the uninstrumented binary.

import (
	"encoding/json"
	"os"
	"path/filepath"
	"strings"
	"testing"

	"verif/internal/harness"
	"verif/internal/seeds"
)

func FuzzContainer(f *testing.F) {
	harness.LimitFuzzWorker(4 << 30)
	repo := harness.E.RepoDir
	files, _ := filepath.Glob(filepath.Join(harness.E.VerifDir, "replay", "C04", "*.json"))
	for _, p := range files {
		b, err := os.ReadFile(p)
		if err != nil || strings.Contains(filepath.Base(p), "kf-") {
			continue
		}
		var rf harness.ReplayFile
		var c containerCase
		if json.Unmarshal(b, &rf) != nil || json.Unmarshal(rf.Case, &c) != nil {
			continue
		}
		if d := c.bytes(); len(d) > 0 && len(d) <= 32<<10 {
			f.Add(uint8(0), uint8(c.Flags), uint8(1), uint8(c.Enc), d)
		}
	}
	for i, name := range seeds.Names(repo, 8<<10) {
		if i%3 == 0 {
			f.Add(uint8(i), uint8(0), uint8(1), uint8(i), seeds.Get(repo, name))
		}
	}
	f.Fuzz(func(t *testing.T, entry, flags, info, enc uint8, data []byte) {
		if len(data) > 64<<10 {
			return
		}
		c := containerCase{Data: data, Origin: "fuzz", Entry: entries[int(entry)%len(entries)], Flags: int(flags) & 3,
			Info: infoLevels[int(info)%len(infoLevels)], Enc: int(enc) & 15}
		raw, _ := json.Marshal(c)
		harness.SetCurrentCase("container", raw)
		lastRun = runInfo{}
		fail := checkData(c, data)
		if fail != nil && strings.HasPrefix(fail.Key, "C04|time|") {
			return
		}
		harness.FuzzReport(t, "container", c, fail)
	})
}
