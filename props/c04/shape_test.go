package c04

import (
	"testing"

	"verif/internal/boxmut"
	"verif/internal/boxwalk"
)

// TestShapeOps: the scale mutations keep a well-formed input well-formed (every size field consistent), which is the
// point of them: the decoder must not be able to reject the result early.
func TestShapeOps(t *testing.T) {
	inner := boxwalk.Make("moov", append(boxwalk.Make("mvhd", make([]byte, 100)), boxwalk.Make("trak", boxwalk.Make("tkhd", make([]byte, 84)))...))
	seed := append(boxwalk.Make("ftyp", []byte("isom\x00\x00\x00\x00isom")), inner...)
	seed = append(seed, boxwalk.Make("free", []byte{1, 2, 3})...)
	nBoxes := func(d []byte) int {
		tree, err := boxwalk.WalkAll(d)
		if err != nil {
			t.Fatalf("not well-formed: %v", err)
		}
		return len(boxwalk.Flatten(tree))
	}
	base := nBoxes(seed)
	for box := 0; box < base; box++ {
		for _, cont := range boxmut.NestContainers {
			for _, n := range []int{1, 10, 1000} {
				out := boxmut.Apply(seed, []boxmut.Mut{{Op: "nest", Box: box, N: n, Str: cont}})
				want := base + n
				if cont == "zzzz" {
					want = -1 // opaque to the walker: everything below is hidden
				}
				if got := nBoxes(out); want >= 0 && got != want {
					t.Fatalf("nest box=%d %s x%d: %d boxes, want %d", box, cont, n, got, want)
				}
				hl := 8
				if cont == "meta" {
					hl = 12
				}
				if len(out) != len(seed)+n*hl {
					t.Fatalf("nest box=%d %s x%d: length %d", box, cont, n, len(out))
				}
			}
		}
		for _, unit := range []string{"", "trak0", "free", "trun"} {
			for where := 0; where <= 2; where++ {
				for _, n := range []int{1, 10, 1000} {
					out := boxmut.Apply(seed, []boxmut.Mut{{Op: "repeat", Box: box, N: n, Str: unit, Off: where}})
					got := nBoxes(out)
					if len(out) == len(seed) {
						continue // unit too large
					}
					if got < base+n {
						t.Fatalf("repeat box=%d %q where=%d x%d: %d boxes, want >= %d", box, unit, where, n, got, base+n)
					}
				}
			}
		}
	}
	// grow: a table keeps its framing, the count follows
	stts := boxwalk.Make("stts", []byte{0, 0, 0, 0, 0, 0, 0, 2, 0, 0, 0, 1, 0, 0, 0, 10, 0, 0, 0, 3, 0, 0, 0, 20})
	file := append(boxwalk.Make("moov", boxwalk.Make("trak", append(boxwalk.Make("free", nil), stts...))), boxwalk.Make("free", nil)...)
	for _, k := range []int{2, 16, 65536} {
		out := boxmut.Apply(file, []boxmut.Mut{{Op: "grow", Box: 3, N: k, Off: 4}})
		tree, err := boxwalk.WalkAll(out)
		if err != nil {
			t.Fatalf("grow x%d: %v", k, err)
		}
		g := boxwalk.Find(tree, "stts")[0]
		cnt := int(out[g.PayloadStart()+4])<<24 | int(out[g.PayloadStart()+5])<<16 | int(out[g.PayloadStart()+6])<<8 | int(out[g.PayloadStart()+7])
		if cnt*8 != g.Size-16 || cnt < 4 || (k == 65536 && g.Size < 1<<19) {
			t.Fatalf("grow x%d: count %d, box size %d", k, cnt, g.Size)
		}
	}
	// the two shapes the time oracle is aimed at
	deep := boxmut.Apply(boxwalk.Make("free", nil), []boxmut.Mut{{Op: "nest", N: 25000, Str: "udta"}})
	if len(deep) != 8+25000*8 || nBoxes(deep) != 25001 {
		t.Fatalf("deep nest: %d bytes", len(deep))
	}
	wide := boxmut.Apply(boxwalk.Make("moov", nil), []boxmut.Mut{{Op: "repeat", N: 100000, Str: "trak0", Off: 2}})
	if tree, _ := boxwalk.WalkAll(wide); len(tree) != 1 || len(tree[0].Children) != 100000 {
		t.Fatalf("wide repeat: %d bytes", len(wide))
	}
}
