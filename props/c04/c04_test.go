// C04 — untrusted container input never crashes, hangs or balloons memory.
// Cases run in isolated worker processes (ulimit -v, current case persisted, watchdog); see DESIGN 2.5.
package c04

import (
	"bytes"
	"encoding/json"
	"fmt"
	"io"
	"os"
	"reflect"
	"runtime"
	"strconv"
	"strings"
	"syscall"
	"testing"
	"testing/iotest"
	"time"
	"unsafe"

	"github.com/Eyevinn/mp4ff/bits"
	"github.com/Eyevinn/mp4ff/mp4"
	"pgregory.net/rapid"

	"verif/internal/boxgen"
	"verif/internal/boxmut"
	"verif/internal/boxwalk"
	"verif/internal/harness"
	"verif/internal/seeds"
)

func TestMain(m *testing.M) { harness.Main(m) }

func init() {
	harness.RegisterReplay("container", harness.Replayer(checkContainer))
	// development aid: VERIF_C04_NOAVOID=all or a comma-separated list of switch names
	if v := os.Getenv("VERIF_C04_NOAVOID"); v == "all" {
		avoidKnown = map[string]bool{}
	} else if v != "" {
		for _, name := range strings.Split(v, ",") {
			delete(avoidKnown, name)
		}
	}
}

func TestReplay(t *testing.T) { harness.ReplayPath(t) }

// avoidKnown lists input shapes on which the unchanged library contradicts the property. A generated case of such a
// shape is counted (harness.Rec.Exclude(name)) instead of being judged, so that the check stays green and the search
// goes on behind it: cases whose recipe announces the shape are not executed at all (they may take a minute or exhaust
// the address space), any other case is classified after an allocation or time failure by scanning its bytes
// (scanShape). Reproducers are parked under /verif/replay/C04/pending/ (they carry "noAvoid": true).
var avoidKnown = map[string]bool{
	// Containers nested N deep cost O(N^2) in time (decode, Info, Size/Encode) and in memory (Info): every level of
	// DecodeContainerChildren / ContainerInfo / EncodeContainer asks its child for Size(), which walks the whole subtree
	// again (mp4/container.go), Info repeats an indentation that grows with the depth, and an error from the bottom is
	// wrapped once per level. 25 000 nested udta boxes (200 KB) take 5-15 s per stage and 650 MB in Info.
	"nest-depth>=1000": true,
	// A container with N children of certain kinds costs O(N^2): MoovBox.AddChild walks all children for every trak
	// (mp4/moov.go; 200 000 empty trak boxes, 1.6 MB, take about 50 s to decode), 100 000 saiz boxes in one parent
	// allocate 40 GB in total. Recipes with a "repeat" of 10 000 copies or more are not executed; an input with
	// 10 000 trak boxes in one moov that fails for time is attributed to the same switch.
	"repeat>=10000": true,
	// The io.Reader decoders wrap the reader once per container level (io.LimitedReader plus a position counter, mp4/
	// container.go, mp4/box.go), so one Read call costs O(depth). With a reader that delivers ONE byte per call (legal
	// io.Reader behaviour; the harness' entry DecodeFileOneByte) every input byte travels through all levels: 100
	// nested udta boxes around a box of a 200 KB file cost 2.2 us per byte (0.44 s, bound 0.3 s); the product
	// depth x length is the same weakness as nest-depth>=1000, reached earlier through the reader.
	"nest-depth>=32+one-byte-reader": true,
	// File.CopySampleData trusts the sample tables of the decoded moov: chunk offsets outside the mdat box panic in the
	// non-lazy branch (mp4/file.go: mdat.Data[offset-payloadStart : ...]), an stsc entry with samples_per_chunk 0 divides
	// by zero and an empty stsc is indexed in StscBox.GetContainingChunks, a sample number beyond stsz panics in
	// StszBox.GetSampleSize, huge counts allocate gigabytes. Sample access is outside the wording of C04, so the lazy
	// read stage leaves CopySampleData out (MdatBox.ReadData/CopyData remain).
	"copysampledata-hostile-tables": true,
}

type containerCase struct {
	Seed   string           `json:"seed"`            // name in the seed pool, "" when Data is given
	Muts   []boxmut.Mut     `json:"muts,omitempty"`  // mutation recipe applied to the seed
	Data   harness.HexBytes `json:"data,omitempty"`  // explicit bytes (random / hand-written cases; filled in for reports)
	Synth  harness.HexBytes `json:"synth,omitempty"` // bytes written by the grammar generator internal/boxgen (Muts apply on top)
	Origin string           `json:"origin,omitempty"`
	// Entry: DecodeFile | DecodeFileLazy (ReadSeeker, lazy mdat, then every sample through the lazy read API) |
	// DecodeFileOneByte (not a Seeker, one byte per Read) | DecodeFileSR | DecodeBox | DecodeBoxSR | DecodeBoxLazyMdat
	Entry string `json:"entry"`
	Flags int    `json:"flags"` // bit0 DecISMFlag, bit1 DecStartOnMoof
	Info  string `json:"info"`  // Info detail levels
	Enc   int    `json:"enc"`   // bit0 box-tree mode, bit1 EncodeSW, bit2 OptimizeTrun, bit3 second encode
	// NoAvoid: execute the case even if its shape is listed in avoidKnown (parked reproducers)
	NoAvoid bool `json:"noAvoid,omitempty"`
}

func (c containerCase) bytes() []byte {
	if c.Seed == "" && c.Synth != nil {
		return boxmut.Apply(c.Synth, c.Muts)
	}
	if c.Seed == "" {
		return c.Data
	}
	s := seeds.Get(harness.E.RepoDir, c.Seed)
	if s == nil {
		return c.Data
	}
	return boxmut.Apply(s, c.Muts)
}

// avoid reports whether the named switch applies to this case.
func (c containerCase) avoid(name string) bool { return !c.NoAvoid && avoidKnown[name] }

// avoidRecipe names the switch that keeps this case from being built and executed, judged by the recipe alone.
func (c containerCase) avoidRecipe() string {
	for _, m := range c.Muts {
		if m.Op == "nest" && m.N >= 1000 && m.Str != "zzzz" && c.avoid("nest-depth>=1000") {
			return "nest-depth>=1000"
		}
		if m.Op == "repeat" && m.N >= 10000 && c.avoid("repeat>=10000") {
			return "repeat>=10000"
		}
	}
	return ""
}

// shape: the scale features of an input that the known findings are keyed by.
type shape struct {
	depth    int   // deepest nesting of boxes the library decodes as containers
	maxTraks int   // most trak children of one moov
	implicit int64 // samples declared by trun boxes that carry no per-sample field (at most 1024 each are admitted)
}

// scanShape walks the box structure iteratively (no recursion, no error values: the input may be 25 000 levels deep).
func scanShape(data []byte) (sh shape) {
	type frame struct {
		end, traks int
		typ        string
	}
	stack := []frame{{end: len(data)}}
	pos := 0
	pop := func() {
		top := stack[len(stack)-1]
		if top.typ == "moov" && top.traks > sh.maxTraks {
			sh.maxTraks = top.traks
		}
		if top.end > pos { // never backwards: a child may end behind its parent (see below), the scan stays linear
			pos = top.end
		}
		stack = stack[:len(stack)-1]
	}
	for len(stack) > 0 {
		top := &stack[len(stack)-1]
		if pos+8 > top.end {
			pop()
			continue
		}
		size, hdr := int(uint32(data[pos])<<24|uint32(data[pos+1])<<16|uint32(data[pos+2])<<8|uint32(data[pos+3])), 8
		typ := string(data[pos+4 : pos+8])
		switch size {
		case 0:
			size = top.end - pos
		case 1:
			hdr = 16
			if pos+16 > top.end || data[pos+8]|data[pos+9]|data[pos+10]|data[pos+11] != 0 {
				pop()
				continue
			}
			size = int(uint32(data[pos+12])<<24 | uint32(data[pos+13])<<16 | uint32(data[pos+14])<<8 | uint32(data[pos+15]))
		}
		// The slice-reader decoders bound a child by what is left of the whole input, not by its parent
		// (decodeBoxSRAndInputSize: NrRemainingBytes); a child that ends behind its parent is decoded, with all that
		// it contains, before the parent notices. The depth counted here follows that view (an over-approximation
		// for the reader path, which is the safe direction for a shape that is only asked about from 1000 levels on).
		if size < hdr || size > len(data)-pos {
			pop()
			continue
		}
		if top.typ == "moov" && typ == "trak" {
			top.traks++
		}
		if typ == "trun" && size >= hdr+8 {
			p := pos + hdr
			flags := uint32(data[p+1])<<16 | uint32(data[p+2])<<8 | uint32(data[p+3])
			count := uint32(data[p+4])<<24 | uint32(data[p+5])<<16 | uint32(data[p+6])<<8 | uint32(data[p+7])
			if flags&0xf00 == 0 && count <= 1024 {
				sh.implicit += int64(count)
			}
		}
		skip := -1
		switch {
		case typ == "meta":
			skip = 4
		case typ == "stsd" || typ == "dref":
			skip = 8
		case boxwalk.IsContainer(typ) && len(typ) == 4 && typ[0] >= 'a' && typ[0] <= 'z' && typ != "stpp" && typ != "wvtt" && typ != "evte" &&
			typ != "avc1" && typ != "avc3" && typ != "hvc1" && typ != "hev1" && typ != "encv" && typ != "av01" && typ != "vvc1" && typ != "vvi1" &&
			typ != "vp08" && typ != "vp09" && typ != "avs3" && typ != "mp4a" && typ != "enca" && typ != "mha1" && typ != "mhm1":
			skip = 0 // plain containers
		case typ == "wvtt" || typ == "evte":
			skip = 8 // sample entries decode their children as well: 65536 copies of a 30-byte wvtt entry whose size
			// field reaches past the next copy are 20 000 levels to the library
		case typ == "avc1" || typ == "avc3" || typ == "hvc1" || typ == "hev1" || typ == "encv" || typ == "av01" || typ == "vvc1" ||
			typ == "vvi1" || typ == "vp08" || typ == "vp09" || typ == "avs3":
			skip = 78
		case typ == "mp4a" || typ == "enca" || typ == "mha1" || typ == "mhm1":
			skip = 28
		}
		if skip >= 0 && hdr+skip <= size {
			stack = append(stack, frame{end: pos + size, typ: typ})
			if len(stack)-1 > sh.depth {
				sh.depth = len(stack) - 1
			}
			pos += hdr + skip
			continue
		}
		pos += size
	}
	return sh
}

// implicitOf returns the number of samples declared by trun boxes without per-sample fields (memoised for the last input).
var implicitMemo struct {
	data *byte
	n    int
	v    int64
}

func implicitOf(data []byte) int64 {
	if len(data) == 0 {
		return 0
	}
	if implicitMemo.data == &data[0] && implicitMemo.n == len(data) {
		return implicitMemo.v
	}
	// a flat scan for trun headers wherever they stand (the library decodes children of many box types, more than
	// scanShape descends into): an over-approximation, which is the safe direction for an allowance
	var v int64
	for i := 4; i+12 <= len(data); i++ {
		if data[i] == 't' && data[i+1] == 'r' && data[i+2] == 'u' && data[i+3] == 'n' {
			flags := uint32(data[i+5])<<16 | uint32(data[i+6])<<8 | uint32(data[i+7])
			count := uint32(data[i+8])<<24 | uint32(data[i+9])<<16 | uint32(data[i+10])<<8 | uint32(data[i+11])
			if flags&0xf00 == 0 && count <= 1024 {
				v += int64(count)
			}
		}
	}
	implicitMemo.data, implicitMemo.n, implicitMemo.v = &data[0], len(data), v
	return implicitMemo.v
}

// avoidShape names the switch whose shape the bytes have ("" if none): asked after an allocation or time failure.
func (c containerCase) avoidShape(data []byte) string {
	if c.NoAvoid {
		return ""
	}
	sh := scanShape(data)
	switch {
	case sh.depth >= 1000 && c.avoid("nest-depth>=1000"):
		return "nest-depth>=1000"
	case sh.maxTraks >= 10000 && c.avoid("repeat>=10000"):
		return "repeat>=10000"
	case c.Entry == "DecodeFileOneByte" && sh.depth >= 32 && c.avoid("nest-depth>=32+one-byte-reader"):
		return "nest-depth>=32+one-byte-reader"
	}
	return ""
}

// ---------------------------------------------------------------------------------------------
// Bounds. n = len(input). Every stage (decode, Info, Size, each encode) is judged on its own.
//
// Allocation: allocConst + allocSmall*min(n, allocKnee) + allocPerByte*n. The steep part covers the library's
// deliberate admission of tiny boxes that declare many entries (a 16-byte trun with up to 1024 samples: 16 KiB of
// Sample structs, ~40 KiB of Info text), which a constant bounds as long as there are few of them; beyond the knee only
// a modest multiple of the input remains legitimate. The first run reads runtime/metrics (cheap, coarse); a stage
// above a quarter of the bound is measured again with runtime.ReadMemStats (exact), and that value is judged.
// Measured on the unchanged tree (quick tier, 560 000 cases, known shapes aside): 0.96 of the bound for a 22-byte subs
// box whose subsample_count is 65535 (4.3 MB: DecodeSubsSR appends 65535 entries before it looks at the reader's error;
// one such box per decode, so it stays inside the constant), otherwise at most 0.18 (1.5 MiB for a sidx that declares
// 65535 references; 61 MB = 58 bytes/byte for a 1 MB table produced by "grow").
//
// Time, in CPU time of the executing thread (see cpuNow): a stage that takes longer than timeSoft(n) makes the whole
// pipeline run twice more, in process, and the minimum is compared with timeHard(n). Measured on the unchanged tree
// (known shapes aside) under a load average of 75-160 on 16 cores: worst stage 0.06 of timeHard (6.5 ms for a 3.5 KB
// file that holds 100 nested trak boxes; 35 ms for Info of a 576 KB file = 0.06 us/byte); 0.15 for a single,
// unrepeated measurement. Inputs of the trun-implicit-samples family below the size at which they fail reach 0.3
// (100 such boxes in a 3 KB file: 25-30 ms of Info) and 0.44 with 48 busy loops next to the 14 shards: thread CPU time
// inflates by a factor of about 1.8 on an oversubscribed machine (shared cores and caches), wall time inflated by 100
// (99 ms, minimum of three, for a stage that needs 1 ms). The wall-clock watchdog (10 s + 10 us/byte per pipeline
// run) stays for true hangs.
//
// Development aids: VERIF_C04_SOFTDIV=k divides the soft limits (more cases measured three times),
// VERIF_C04_DUMPRATIO=r keeps every passing case whose worst ratio exceeds r, VERIF_C04_NOAVOID=all|names.
const (
	allocConst   = 4 << 20
	allocSmall   = 16384
	allocKnee    = 4096
	allocPerByte = 256

	timeSoftConst   = 25 * time.Millisecond
	timeSoftPerByte = 250 * time.Nanosecond
	timeHardConst   = 100 * time.Millisecond
	timeHardPerByte = 1 * time.Microsecond
)

// Allowance for samples without per-sample fields. The library deliberately admits a trun that carries no per-sample
// field and declares up to 1024 samples (TrunBox: "expectedSize" rule): 16 bytes of Sample struct per declared sample at
// decode, about 40 bytes of text and 0.25 us in Info at level 1. That is a FIXED multiple of the input (a 16-byte box
// per 1024 samples), which is all the property asks for; a bound that counts input bytes only would have to carry the
// factor 2500 for every byte. Instead a case that exceeds a bound is judged again with the declared implicit samples
// (counted by scanShape from the input bytes, at most 1024 per trun) added: implicitAlloc bytes and implicitTime per
// sample. Cases that pass only with the allowance are counted (class "passes-with-implicit-sample-allowance").
const (
	implicitAlloc = 128
	implicitTime  = 1 * time.Microsecond
)

func allocBound(n int) uint64 {
	k := n
	if k > allocKnee {
		k = allocKnee
	}
	return allocConst + allocSmall*uint64(k) + allocPerByte*uint64(n)
}

// softDiv (development aid, VERIF_C04_SOFTDIV): divides the soft limit, so that more cases are measured three times
// when the worst ordinary ratio is surveyed.
var softDiv = func() time.Duration {
	if v, err := strconv.Atoi(os.Getenv("VERIF_C04_SOFTDIV")); err == nil && v > 0 {
		return time.Duration(v)
	}
	return 1
}()

// dumpRatio (development aid, VERIF_C04_DUMPRATIO): passing cases whose worst allocation or time ratio exceeds it are
// written to out/<ID>/violations as dev-ratio-* files.
var dumpRatio = func() float64 {
	v, _ := strconv.ParseFloat(os.Getenv("VERIF_C04_DUMPRATIO"), 64)
	return v
}()

func timeSoft(n int) time.Duration {
	return (timeSoftConst + time.Duration(n)*timeSoftPerByte) / softDiv
}
func timeHard(n int) time.Duration { return timeHardConst + time.Duration(n)*timeHardPerByte }

// stageRec is the measurement of one stage of the pipeline.
type stageRec struct {
	name  string // decode | reads | info | size | encode | encode2
	dur   time.Duration
	alloc uint64
	ok    bool
}

// unbounded: stages outside the wording of the property (only panics and hangs count there).
var unbounded = map[string]bool{"reads": true}

type runResult struct {
	stages                 []stageRec
	decoded, info, encoded bool
	neither                bool // the decoder returned neither a structure nor an error
}

// exactAlloc: measure allocation with runtime.ReadMemStats (stops the world and flushes the per-P caches: exact, about
// 100 us per reading) instead of runtime/metrics (cheap; the per-P statistics are folded in span by span, which was
// seen to attribute up to 1.7 MB to a stage that decodes an empty input). Set for the repeated runs.
var exactAlloc bool

func heapAllocs() uint64 {
	if exactAlloc {
		var ms runtime.MemStats
		runtime.ReadMemStats(&ms)
		return ms.TotalAlloc
	}
	return harness.HeapAllocs()
}

func (r *runResult) stage(name string, fn func() bool) bool {
	a0 := heapAllocs()
	t0 := cpuNow()
	ok := fn()
	d := cpuNow() - t0
	r.stages = append(r.stages, stageRec{name: name, dur: d, alloc: heapAllocs() - a0, ok: ok})
	return ok
}

// cpuNow returns the CPU time consumed so far by the calling thread (clock_gettime(CLOCK_THREAD_CPUTIME_ID)); the
// pipeline runs with the goroutine locked to its thread. The time oracle is about the work an input causes, and the
// shards share the machine with 13 siblings and whatever else runs: wall time under an 8-fold oversubscribed machine
// showed 100 ms for stages that need 1 ms of CPU. Time in which nothing is computed (a blocked read, a deadlock) is
// left to the wall-clock watchdog. If the clock is not available the wall clock is used.
func cpuNow() time.Duration {
	var ts syscall.Timespec
	const clockThreadCPUTimeID = 3
	if _, _, errno := syscall.Syscall(syscall.SYS_CLOCK_GETTIME, clockThreadCPUTimeID, uintptr(unsafe.Pointer(&ts)), 0); errno != 0 {
		return time.Duration(time.Now().UnixNano())
	}
	return time.Duration(ts.Sec)*time.Second + time.Duration(ts.Nsec)
}

// runInfo is what the last checkData call observed (evidence classes; never part of the verdict).
type runInfo struct {
	res          runResult
	avoided      string  // switch that kept the case from being executed
	avoidedAfter string  // switch that a failure of the executed case was attributed to
	allocRatio   float64 // worst stage allocation / bound
	timeRatio    float64 // worst stage time / hard bound (after repetition, if any)
	repeated     bool
}

var lastRun runInfo

// worst ratios seen by this process (reported as a note in the evidence)
var worstAlloc, worstTime struct {
	ratio float64
	what  string
}

func checkContainer(c containerCase) *harness.Fail {
	_, f := evalCase(c)
	return f
}

// evalCase builds the bytes of the case and judges them; data is nil when the recipe itself is a known shape.
func evalCase(c containerCase) (data []byte, f *harness.Fail) {
	lastRun = runInfo{}
	if name := c.avoidRecipe(); name != "" {
		lastRun.avoided = name
		harness.Rec.Exclude(name)
		return nil, nil
	}
	data = c.bytes()
	return data, checkData(c, data)
}

func watchedRun(c containerCase, data []byte, exact bool) (res runResult, f *harness.Fail) {
	exactAlloc = exact
	defer func() { exactAlloc = false }()
	runtime.LockOSThread()
	defer runtime.UnlockOSThread()
	harness.StartWatch(10*time.Second + time.Duration(len(data))*10*time.Microsecond)
	f = harness.Guarded(func() *harness.Fail { res = runContainer(c, data); return nil })
	harness.StopWatch()
	return res, f
}

// knownShape turns an allocation or time failure on an input of a known shape into a counted exclusion.
func knownShape(c containerCase, data []byte, f *harness.Fail) *harness.Fail {
	if name := c.avoidShape(data); name != "" {
		lastRun.avoidedAfter = name
		harness.Rec.Exclude(name)
		return nil
	}
	// a reproducer of a recorded scale finding (noAvoid): which stage exceeds which bound first depends on small
	// details of the library (a change in Info's buffering moves the first failure from the decode time to the Info
	// allocation), so the finding is keyed by the shape, not by the stage
	if c.NoAvoid {
		sh := scanShape(data)
		switch {
		case sh.depth >= 1000:
			return harness.Failf("C04|resources|nest-depth>=1000", "%s: %s", f.Key, f.Msg)
		case sh.maxTraks >= 10000:
			return harness.Failf("C04|resources|repeat>=10000", "%s: %s", f.Key, f.Msg)
		case c.Entry == "DecodeFileOneByte" && sh.depth >= 32:
			return harness.Failf("C04|resources|nest-depth>=32+one-byte-reader", "%s: %s", f.Key, f.Msg)
		}
	}
	return f
}

func checkData(c containerCase, data []byte) *harness.Fail {
	// A nest of 1000 levels or more (as the library sees it) is the recorded finding whatever the recipe was: the error
	// from the bottom is wrapped once per level and 20 000 levels exhaust the address space before any bound can be
	// judged, so the shape is asked about before the case runs (counted like the recipes that announce it).
	if !c.NoAvoid && c.avoid("nest-depth>=1000") && scanShape(data).depth >= 1000 {
		lastRun.avoided = "nest-depth>=1000"
		harness.Rec.Exclude("nest-depth>=1000")
		return nil
	}
	pristine := append([]byte{}, data...)
	res, f := watchedRun(c, data, false)
	lastRun.res = res
	if f != nil {
		return f
	}
	if res.neither {
		return harness.Failf("C04|"+c.Entry+"|neither structure nor error", "the decoder returned (nil, nil) for %d input bytes", len(data))
	}
	n := len(data)
	var wa, wt float64 // worst ratios of this case; they count for the process only if the case passes
	var waWhat, wtWhat string
	// First run: cheap measurements. A stage over a soft limit (a quarter of the allocation bound, timeSoft) makes the
	// whole pipeline run twice more, in process, with exact allocation accounting; the verdict is on the minimum.
	bound := allocBound(n)
	allocs := map[string]uint64{}
	durs := map[string]time.Duration{}
	over := false
	for _, s := range res.stages {
		allocs[s.name], durs[s.name] = s.alloc, s.dur
		if !unbounded[s.name] && (s.dur > timeSoft(n) || s.alloc > bound/4/uint64(softDiv)) {
			over = true
		}
	}
	for rep := 0; over && rep < 2; rep++ {
		again, f := watchedRun(c, data, true)
		if f != nil {
			return f
		}
		over = false
		for _, s := range again.stages {
			if d, ok := durs[s.name]; ok && s.dur < d {
				durs[s.name] = s.dur
			}
			if a, ok := allocs[s.name]; ok && (s.alloc < a || !lastRun.repeated) {
				allocs[s.name] = s.alloc // the first exact value replaces the cheap one
			}
			if !unbounded[s.name] && durs[s.name] > timeSoft(n) {
				over = true
			}
		}
		lastRun.repeated = true
	}
	hard := timeHard(n)
	for _, s := range res.stages {
		if unbounded[s.name] {
			continue
		}
		a := allocs[s.name]
		r := float64(a) / float64(bound)
		if r > lastRun.allocRatio {
			lastRun.allocRatio = r
		}
		if r > wa {
			wa, waWhat = r, fmt.Sprintf("%s %s: %d bytes allocated for %d input bytes (exact: %v)", c.Entry, s.name, a, n, lastRun.repeated)
		}
		if a > bound && implicitOf(data) > 0 && a <= bound+implicitAlloc*uint64(implicitOf(data)) {
			harness.Rec.Class("passes-with-implicit-sample-allowance")
			continue
		}
		if a > bound {
			return knownShape(c, data, harness.Failf("alloc|"+c.Entry+"|"+s.name, "%d bytes allocated for %d input bytes (bound %d + %d x min(len,%d) + %d x len)",
				a, n, allocConst, allocSmall, allocKnee, allocPerByte))
		}
	}
	for _, s := range res.stages {
		if unbounded[s.name] {
			continue
		}
		d := durs[s.name]
		r := float64(d) / float64(hard)
		if r > lastRun.timeRatio {
			lastRun.timeRatio = r
		}
		if r > wt {
			wt, wtWhat = r, fmt.Sprintf("%s %s: %s for %d input bytes (repeated: %v)", c.Entry, s.name, d, n, lastRun.repeated)
		}
		if d > hard && implicitOf(data) > 0 && d <= hard+implicitTime*time.Duration(implicitOf(data)) {
			harness.Rec.Class("passes-with-implicit-sample-allowance")
			continue
		}
		if d > hard {
			return knownShape(c, data, harness.Failf("C04|time|"+c.Entry+"|"+s.name, "%s of CPU time (minimum of 3 runs) for %d input bytes (bound %s + %s x len)",
				d, n, timeHardConst, timeHardPerByte))
		}
	}
	if !bytes.Equal(data, pristine) {
		return harness.Failf("C04|"+c.Entry+"|input bytes modified", "")
	}
	if dumpRatio > 0 && (wa > dumpRatio || wt > dumpRatio) { // development aid: keep the cases that come close to a bound
		raw, _ := json.Marshal(c)
		harness.WriteViolation(&harness.ReplayFile{Property: "C04", Kind: "container", Key: fmt.Sprintf("dev-ratio-%.2f-%.2f", wa, wt), Msg: waWhat + "; " + wtWhat, Case: raw})
	}
	if wa > worstAlloc.ratio {
		worstAlloc.ratio, worstAlloc.what = wa, waWhat
	}
	if wt > worstTime.ratio {
		worstTime.ratio, worstTime.what = wt, wtWhat
	}
	return nil
}

type discard struct{ n int }

func (d *discard) Write(p []byte) (int, error) { d.n += len(p); return len(p), nil }

// isNil reports a nil interface or a nil pointer inside one.
func isNil(v interface{}) bool {
	if v == nil {
		return true
	}
	rv := reflect.ValueOf(v)
	return rv.Kind() == reflect.Ptr && rv.IsNil()
}

// encodeWriter returns a slice writer for a structure that reports the given size. A wrong Size() must not turn into
// an allocation finding of ours, so the buffer is capped (and it is allocated outside the measured stages).
func encodeWriter(size uint64, n int) bits.SliceWriter {
	if size > uint64(n)*4+1<<20 {
		size = uint64(n)*4 + 1<<20
	}
	return bits.NewFixedSliceWriter(int(size))
}

// noAvoidRun: the case being run carries NoAvoid (read by lazyReads).
var noAvoidRun bool

func runContainer(c containerCase, data []byte) (res runResult) {
	noAvoidRun = c.NoAvoid
	var opts []mp4.Option
	var fl mp4.DecFileFlags
	if c.Flags&1 != 0 {
		fl |= mp4.DecISMFlag
	}
	if c.Flags&2 != 0 {
		fl |= mp4.DecStartOnMoof
	}
	if fl != 0 {
		opts = append(opts, mp4.WithDecodeFlags(fl))
	}
	var file *mp4.File
	var box mp4.Box
	var err error
	known := true
	res.stage("decode", func() bool {
		switch c.Entry {
		case "DecodeFile":
			file, err = mp4.DecodeFile(bytes.NewReader(data), opts...)
		case "DecodeFileLazy":
			file, err = mp4.DecodeFile(bytes.NewReader(data), append(opts, mp4.WithDecodeMode(mp4.DecModeLazyMdat))...)
		case "DecodeFileOneByte":
			file, err = mp4.DecodeFile(iotest.OneByteReader(bytes.NewReader(data)), opts...)
		case "DecodeFileSR":
			file, err = mp4.DecodeFileSR(bits.NewFixedSliceReader(data), opts...)
		case "DecodeBox":
			box, err = mp4.DecodeBox(0, bytes.NewReader(data))
		case "DecodeBoxSR":
			box, err = mp4.DecodeBoxSR(0, bits.NewFixedSliceReader(data))
		case "DecodeBoxLazyMdat":
			box, err = mp4.DecodeBoxLazyMdat(0, bytes.NewReader(data))
		default:
			known = false
		}
		return err == nil
	})
	if err != nil || !known {
		return res
	}
	if file == nil && isNil(box) {
		res.neither = true
		return res
	}
	res.decoded = true
	w := &discard{}
	if file != nil {
		if c.Entry == "DecodeFileLazy" {
			res.stage("reads", func() bool { return lazyReads(file, data) })
		}
		res.info = res.stage("info", func() bool { return file.Info(w, c.Info, "", "  ") == nil })
		var size uint64
		res.stage("size", func() bool { size = file.Size(); _ = file.IsFragmented(); return true })
		if c.Enc&1 != 0 {
			file.FragEncMode = mp4.EncModeBoxTree
		}
		if c.Enc&4 != 0 {
			file.EncOptimize = mp4.OptimizeTrun
		}
		for round := 0; round < 1+(c.Enc>>3)&1; round++ {
			name := "encode"
			if round > 0 {
				name = "encode2"
				size = file.Size()
			}
			var ok bool
			if c.Enc&2 != 0 {
				sw := encodeWriter(size, len(data))
				ok = res.stage(name, func() bool { return file.EncodeSW(sw) == nil })
			} else {
				ok = res.stage(name, func() bool { return file.Encode(w) == nil })
			}
			res.encoded = res.encoded || ok
		}
		return res
	}
	res.info = res.stage("info", func() bool { return box.Info(w, c.Info, "", "  ") == nil })
	var size uint64
	res.stage("size", func() bool { size = box.Size(); _ = box.Type(); return true })
	if c.Enc&2 != 0 {
		sw := encodeWriter(size, len(data))
		res.encoded = res.stage("encode", func() bool { return box.EncodeSW(sw) == nil })
	} else {
		res.encoded = res.stage("encode", func() bool { return box.Encode(io.Writer(w)) == nil })
	}
	return res
}

// lazyReads fetches, after a lazy-mdat decode, every sample the decoded structure describes through the lazy read API
// (File.CopySampleData for progressive files, MdatBox.ReadData/CopyData for fragments). The structure may be as odd as
// the input; the harness only asks for what a caller could ask for without dereferencing a missing box itself, never
// asks for more bytes than the input has, and keeps the total work linear in the input. Errors are fine.
func lazyReads(file *mp4.File, data []byte) bool {
	rs := bytes.NewReader(data)
	w := &discard{}
	n := int64(len(data))
	budget := 4*n + 4096
	ok := true
	if !file.IsFragmented() && file.Moov != nil && file.Mdat != nil {
		for _, trak := range file.Moov.Traks {
			if trak == nil || trak.Mdia == nil || trak.Mdia.Minf == nil || trak.Mdia.Minf.Stbl == nil {
				continue
			}
			stbl := trak.Mdia.Minf.Stbl
			if stbl.Stsz == nil || stbl.Stsc == nil || (stbl.Stco == nil && stbl.Co64 == nil) {
				continue
			}
			ns := int64(stbl.Stsz.GetNrSamples())
			if ns > n+1 {
				ns = n + 1
			}
			if ns == 0 {
				continue
			}
			if avoidKnown["copysampledata-hostile-tables"] && !noAvoidRun {
				harness.Rec.Exclude("copysampledata-hostile-tables")
				continue
			}
			if file.CopySampleData(w, rs, trak, 1, uint32(ns), nil) != nil {
				ok = false
			}
			if file.CopySampleData(w, rs, trak, uint32(ns), uint32(ns), make([]byte, 7)) != nil {
				ok = false
			}
		}
	}
	readMdat := func(m *mp4.MdatBox) {
		ps := int64(m.PayloadAbsoluteOffset())
		ls := int64(m.GetLazyDataSize())
		for _, r := range [][2]int64{{ps, 0}, {ps, 1}, {ps - 1, 1}, {ps + ls - 1, 1}, {ps + ls, 1}, {-1, 1}, {0, -1}, {ps, ls}, {ps, ls + 1}} {
			if r[1] > n {
				continue // never ask for more than the input holds
			}
			if _, err := m.ReadData(r[0], r[1], rs); err != nil {
				ok = false
			}
			if _, err := m.CopyData(r[0], r[1], rs, w); err != nil {
				ok = false
			}
		}
	}
	if file.Mdat != nil {
		readMdat(file.Mdat)
	}
	for _, seg := range file.Segments {
		if seg == nil {
			continue
		}
		for _, frag := range seg.Fragments {
			if frag == nil || frag.Moof == nil || frag.Mdat == nil {
				continue
			}
			readMdat(frag.Mdat)
			for _, traf := range frag.Moof.Trafs {
				if traf == nil || traf.Tfhd == nil {
					continue
				}
				base := int64(frag.Moof.StartPos)
				if traf.Tfhd.HasBaseDataOffset() {
					base = int64(traf.Tfhd.BaseDataOffset)
				}
				for _, trun := range traf.Truns {
					if trun == nil {
						continue
					}
					off := base
					if trun.HasDataOffset() {
						off += int64(trun.DataOffset)
					}
					for _, s := range trun.Samples {
						size := int64(s.Size)
						if !trun.HasSampleSize() {
							size = int64(traf.Tfhd.DefaultSampleSize)
						}
						if size <= n && budget > 0 {
							budget -= size + 16
							if _, err := frag.Mdat.ReadData(off, size, rs); err != nil {
								ok = false
							}
						}
						off += size
					}
				}
			}
		}
	}
	return ok
}

// ---------------------------------------------------------------------------------------------

var entries = []string{"DecodeFile", "DecodeFile", "DecodeFileLazy", "DecodeFileOneByte", "DecodeFileSR", "DecodeFileSR", "DecodeBox", "DecodeBoxSR", "DecodeBoxLazyMdat"}
var infoLevels = []string{"", "all:1", "trun:1,senc:1", "all:2", "stts:1,ctts:1,stsz:1,stsc:1,sidx:1,saiz:1,sbgp:1,sgpd:1"}

// uniform draws a (nearly) uniform index in [0,n); rapid's integer generators favour small values and the bounds.
func uniform(t *rapid.T, label string, n int) int {
	v := rapid.Uint64().Draw(t, label)
	v ^= v >> 30
	v *= 0xbf58476d1ce4e5b9
	v ^= v >> 27
	v *= 0x94d049bb133111eb
	v ^= v >> 31
	v += rapid.Uint64().Draw(t, label+"'")
	v ^= v >> 33
	v *= 0xff51afd7ed558ccd
	v ^= v >> 33
	return int(v % uint64(n))
}

// fieldValues: the values a length, count or index field breaks on (truncated to the width written).
var fieldValues = []uint64{0, 1, 0x7f, 0x80, 0xff, 0xffff, 0x7fffffff, 0xffffffff}

// genLeafFields draws 1-4 typed overwrites (u8/u16/u32, boundary values) at uniformly drawn payload offsets of the
// single box in synth. The grammar generator frames most leaves correctly but draws few hostile values inside codec
// configuration records and descriptor lengths (dac3, dec3, av1C, hvcC arrays, avcC counts, esds, subs, ssix, leva,
// tlou/alou, tfra length sizes); this puts them there without knowing the layout.
func genLeafFields(t *rapid.T, synth []byte) []boxmut.Mut {
	pl := len(synth) - 8
	if tree, _ := boxwalk.WalkAll(synth); len(tree) > 0 {
		pl = tree[0].Size - tree[0].HdrSize
	}
	if pl < 1 {
		pl = 1
	}
	n := rapid.IntRange(1, 4).Draw(t, "nfields")
	out := make([]boxmut.Mut, 0, n)
	for i := 0; i < n; i++ {
		out = append(out, boxmut.Mut{Op: "payload", Box: 0,
			Off: uniform(t, "fieldOff", pl),
			N:   rapid.SampledFrom([]int{1, 1, 2, 4}).Draw(t, "fieldWidth"),
			Val: fieldValues[uniform(t, "fieldVal", len(fieldValues))]})
	}
	return out
}

var leafSet = func() map[string]bool {
	m := map[string]bool{}
	for _, l := range boxgen.LeafTypes() {
		m[l] = true
	}
	return m
}()

func genCase(t *rapid.T, smallNames, allNames []string) containerCase {
	c := containerCase{
		Entry: rapid.SampledFrom(entries).Draw(t, "entry"),
		Flags: rapid.SampledFrom([]int{0, 0, 0, 1, 2, 3}).Draw(t, "flags"),
		Info:  rapid.SampledFrom(infoLevels).Draw(t, "info"),
		Enc:   rapid.IntRange(0, 15).Draw(t, "enc"),
	}
	const shapePerMille = 10 // "nest", "repeat" and "grow" mutations: 1 % of the mutations each
	switch mode := rapid.IntRange(0, 27).Draw(t, "mode"); {
	case mode >= 20: // grammar-generated box or file: well framed, values legal (20-22) or hostile (23-27), then mutated or not
		o := boxgen.Opt{Hostile: mode >= 23}
		leaf := false
		if strings.HasPrefix(c.Entry, "DecodeBox") {
			typ := rapid.SampledFrom(synthTypes).Draw(t, "synthType")
			c.Origin = "box:" + typ
			c.Synth = boxgen.Box(t, typ, o)
			leaf = leafSet[typ]
		} else {
			kind := rapid.SampledFrom([]string{"prog", "init", "media", "frag", "frag", "any"}).Draw(t, "synthKind")
			c.Origin = "file:" + kind
			c.Synth = boxgen.File(t, kind, o)
		}
		if o.Hostile {
			c.Origin += ":hostile"
		}
		if rapid.Bool().Draw(t, "synthMutate") {
			if leaf && rapid.Bool().Draw(t, "leafFields") {
				c.Muts = genLeafFields(t, c.Synth)
			} else {
				c.Muts = boxmut.GenExt(t, 2, shapePerMille)
			}
		}
	case mode == 0: // random bytes with a valid first header
		typ := rapid.SampledFrom([]string{"moov", "moof", "ftyp", "styp", "sidx", "mdat", "trun", "senc", "stsd", "meta", "uuid", "emsg", "mfra", "zzzz"}).Draw(t, "type")
		pl := rapid.SliceOfN(rapid.OneOf(rapid.SampledFrom([]byte{0, 0, 1, 0xff}), rapid.Byte()), 0, 60).Draw(t, "payload")
		c.Data = boxwalk.Make(typ, pl)
		if rapid.Bool().Draw(t, "tail") {
			c.Data = append(c.Data, rapid.SliceOfN(rapid.Byte(), 0, 20).Draw(t, "tailbytes")...)
		}
	case mode == 1: // unmodified seed under a drawn configuration
		c.Seed = rapid.SampledFrom(allNames).Draw(t, "seed")
	case mode < 5:
		c.Seed = rapid.SampledFrom(allNames).Draw(t, "seed")
		c.Muts = boxmut.GenExt(t, 4, shapePerMille)
	default:
		c.Seed = rapid.SampledFrom(smallNames).Draw(t, "seed")
		c.Muts = boxmut.GenExt(t, 4, shapePerMille)
	}
	if strings.HasPrefix(c.Entry, "DecodeBox") && c.Seed != "" && rapid.Bool().Draw(t, "pickbox") {
		// box-level entry points: start inside the file at a drawn box
		c.Muts = append([]boxmut.Mut{{Op: "cutto", Box: rapid.IntRange(0, 200).Draw(t, "cutbox")}}, c.Muts...)
	}
	return c
}

var synthTypes = append(append([]string{"moov", "trak", "stbl", "stsd", "moof", "traf", "moof", "traf", "sgpd", "sbgp", "senc", "saiz", "saio", "trun", "tfhd", "sidx", "tfra", "mfra", "meta", "udta", "stsc", "stsz", "ctts", "elst", "pssh", "emsg", "subs"}, boxgen.LeafTypes()...), boxgen.ContainerTypes()...)

func sizeBucket(n int) string {
	switch {
	case n == 0:
		return "0"
	case n < 64:
		return "<64"
	case n < 1<<10:
		return "<1K"
	case n < 16<<10:
		return "<16K"
	case n < 256<<10:
		return "<256K"
	case n < 1<<20:
		return "<1M"
	}
	return ">=1M"
}

func ratioBucket(r float64) string {
	switch {
	case r <= 1.0/1024:
		return "<=1/1024"
	case r <= 1.0/256:
		return "<=1/256"
	case r <= 1.0/64:
		return "<=1/64"
	case r <= 1.0/16:
		return "<=1/16"
	case r <= 1.0/4:
		return "<=1/4"
	case r <= 1:
		return "<=1"
	}
	return ">1"
}

func TestContainer(t *testing.T) {
	repo := harness.E.RepoDir
	small := seeds.Names(repo, 16<<10)
	all := seeds.Names(repo, harness.Pick(200<<10, 300<<10))
	if len(small) < 20 || len(all) < 40 {
		t.Fatalf("seed pool too small: %d / %d", len(small), len(all))
	}
	harness.RunRapid(t, "container", func(rt *rapid.T) {
		c := genCase(rt, small, all)
		raw, _ := json.Marshal(c)
		harness.SetCurrentCase("container", raw)
		data, f := evalCase(c)
		run := lastRun
		origin := "mutated-seed"
		nt := true // non-trivial: the bytes differ from every input the repository's own tests decode
		if c.Synth != nil {
			origin = "grammar"
			if strings.HasSuffix(c.Origin, ":hostile") {
				origin = "grammar-hostile"
			}
		} else if c.Seed == "" {
			origin = "random-with-valid-header"
		} else if data != nil && bytes.Equal(data, seeds.Get(repo, c.Seed)) {
			origin = "unmodified-seed" // no recipe, or a recipe none of whose operations applied
			nt = false
		}
		cls := []string{"origin-" + origin, "entry-" + c.Entry, fmt.Sprintf("flags-%d", c.Flags)}
		if data != nil {
			cls = append(cls, "size-"+sizeBucket(len(data)))
		}
		if c.Synth != nil {
			cls = append(cls, "synth-"+strings.TrimSuffix(c.Origin, ":hostile"))
		}
		leafFields := c.Synth != nil && len(c.Muts) > 0
		for _, m := range c.Muts {
			cls = append(cls, "mut-"+m.Op)
			switch m.Op {
			case "nest":
				cls = append(cls, fmt.Sprintf("nest-%s", m.Str), fmt.Sprintf("nest-depth-%d", m.N))
			case "repeat":
				cls = append(cls, fmt.Sprintf("repeat-%d", m.N))
			case "grow":
				cls = append(cls, fmt.Sprintf("grow-%d", m.N))
			}
			if m.Op != "payload" || m.Box != 0 {
				leafFields = false
			}
		}
		if leafFields && leafSet[strings.TrimPrefix(strings.TrimSuffix(c.Origin, ":hostile"), "box:")] {
			cls = append(cls, "leaf-field-overwrite")
		}
		switch {
		case run.avoided != "":
			cls = append(cls, "stage-not-run-known-shape")
		case run.avoidedAfter != "":
			cls = append(cls, "stage-failed-known-shape")
		case run.res.encoded:
			cls = append(cls, "stage-decoded+info+encoded")
		case run.res.decoded:
			cls = append(cls, "stage-decoded")
		default:
			cls = append(cls, "stage-rejected")
		}
		if run.res.decoded {
			if run.res.info {
				cls = append(cls, "info-ok")
			} else {
				cls = append(cls, "info-err")
			}
			cls = append(cls, fmt.Sprintf("enc-%d", c.Enc))
			for _, s := range run.res.stages {
				if s.name == "reads" {
					if s.ok {
						cls = append(cls, "lazy-reads-ok")
					} else {
						cls = append(cls, "lazy-reads-err")
					}
				}
			}
		}
		if run.avoided == "" && run.avoidedAfter == "" {
			cls = append(cls, "alloc-ratio"+ratioBucket(run.allocRatio), "time-ratio"+ratioBucket(run.timeRatio))
			if run.repeated {
				cls = append(cls, "time-stage-repeated")
			}
		}
		harness.Rec.Case(nt, raw, cls...)
		if nt && run.res.decoded && harness.Rec.WantSample() {
			harness.Rec.Sample(map[string]interface{}{"kind": "container", "case": c})
		}
		if f != nil && (c.Seed != "" || c.Synth != nil) {
			c.Data = data // make the replay file self-contained
			if len(c.Data) > 64<<10 {
				c.Data = nil
			}
		}
		harness.Report(rt, "container", c, f)
	})
	harness.ClearCurrentCase()
	harness.Rec.Note(fmt.Sprintf("shard %d: worst allocation/bound %.4f (%s); worst time/bound %.4f (%s)",
		harness.E.Shard, worstAlloc.ratio, worstAlloc.what, worstTime.ratio, worstTime.what))
}
