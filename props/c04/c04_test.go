// C04 — untrusted container input never crashes, hangs or balloons memory.
// Cases run in isolated worker processes (ulimit -v, current case persisted, watchdog); see DESIGN 2.5.
package c04

import (
	"bytes"
	"encoding/json"
	"fmt"
	"io"
	"strings"
	"testing"
	"time"

	"github.com/Eyevinn/mp4ff/bits"
	"github.com/Eyevinn/mp4ff/mp4"
	"pgregory.net/rapid"

	"verif/internal/boxgen"
	"verif/internal/boxmut"
	"verif/internal/boxwalk"
	"verif/internal/harness"
	"verif/internal/seeds"
)

func TestMain(m *testing.M) { harness.Main(m) }

func init() { harness.RegisterReplay("container", harness.Replayer(checkContainer)) }

func TestReplay(t *testing.T) { harness.ReplayPath(t) }

type containerCase struct {
	Seed   string           `json:"seed"`            // name in the seed pool, "" when Data is given
	Muts   []boxmut.Mut     `json:"muts,omitempty"`  // mutation recipe applied to the seed
	Data   harness.HexBytes `json:"data,omitempty"`  // explicit bytes (random / hand-written cases; filled in for reports)
	Synth  harness.HexBytes `json:"synth,omitempty"` // bytes written by the grammar generator internal/boxgen (Muts apply on top)
	Origin string           `json:"origin,omitempty"`
	Entry  string           `json:"entry"` // DecodeFile | DecodeFileLazy | DecodeFileSR | DecodeBox | DecodeBoxSR | DecodeBoxLazyMdat
	Flags  int              `json:"flags"` // bit0 DecISMFlag, bit1 DecStartOnMoof
	Info   string           `json:"info"`  // Info detail levels
	Enc    int              `json:"enc"`   // bit0 box-tree mode, bit1 EncodeSW, bit2 OptimizeTrun, bit3 second encode
}

func (c containerCase) bytes() []byte {
	if c.Seed == "" && c.Synth != nil {
		return boxmut.Apply(c.Synth, c.Muts)
	}
	if c.Seed == "" {
		return c.Data
	}
	s := seeds.Get(harness.E.RepoDir, c.Seed)
	if s == nil {
		return c.Data
	}
	return boxmut.Apply(s, c.Muts)
}

const allocConst = 4 << 20
const allocPerByte = 16384

type stageInfo struct {
	decoded, info, encoded bool
}

var lastStage stageInfo

func checkContainer(c containerCase) *harness.Fail {
	data := c.bytes()
	pristine := append([]byte{}, data...)
	harness.StartWatch(10*time.Second + time.Duration(len(data))*10*time.Microsecond)
	before := harness.HeapAllocs()
	var st stageInfo
	f := harness.Guarded(func() *harness.Fail { st = runContainer(c, data); return nil })
	alloc := harness.HeapAllocs() - before
	harness.StopWatch()
	lastStage = st
	if f != nil {
		return f
	}
	if alloc > allocConst+allocPerByte*uint64(len(data)) {
		stage := "decode"
		if st.decoded {
			stage = "info/encode"
		}
		return harness.Failf("alloc|"+c.Entry+"|"+stage, "%d bytes allocated for %d input bytes (bound %d + %d x len)", alloc, len(data), allocConst, allocPerByte)
	}
	if !bytes.Equal(data, pristine) {
		return harness.Failf("C04|"+c.Entry+"|input bytes modified", "")
	}
	return nil
}

type discard struct{ n int }

func (d *discard) Write(p []byte) (int, error) { d.n += len(p); return len(p), nil }

func runContainer(c containerCase, data []byte) (st stageInfo) {
	var opts []mp4.Option
	var fl mp4.DecFileFlags
	if c.Flags&1 != 0 {
		fl |= mp4.DecISMFlag
	}
	if c.Flags&2 != 0 {
		fl |= mp4.DecStartOnMoof
	}
	if fl != 0 {
		opts = append(opts, mp4.WithDecodeFlags(fl))
	}
	var file *mp4.File
	var box mp4.Box
	var err error
	switch c.Entry {
	case "DecodeFile":
		file, err = mp4.DecodeFile(bytes.NewReader(data), opts...)
	case "DecodeFileLazy":
		file, err = mp4.DecodeFile(bytes.NewReader(data), append(opts, mp4.WithDecodeMode(mp4.DecModeLazyMdat))...)
	case "DecodeFileSR":
		file, err = mp4.DecodeFileSR(bits.NewFixedSliceReader(data), opts...)
	case "DecodeBox":
		box, err = mp4.DecodeBox(0, bytes.NewReader(data))
	case "DecodeBoxSR":
		box, err = mp4.DecodeBoxSR(0, bits.NewFixedSliceReader(data))
	case "DecodeBoxLazyMdat":
		box, err = mp4.DecodeBoxLazyMdat(0, bytes.NewReader(data))
	}
	if err != nil || (file == nil && box == nil) {
		return st
	}
	st.decoded = true
	w := &discard{}
	if file != nil {
		if file.Info(w, c.Info, "", "  ") == nil {
			st.info = true
		}
		_ = file.Size()
		_ = file.IsFragmented()
		if c.Enc&1 != 0 {
			file.FragEncMode = mp4.EncModeBoxTree
		}
		if c.Enc&4 != 0 {
			file.EncOptimize = mp4.OptimizeTrun
		}
		for rounds := 0; rounds < 1+(c.Enc>>3)&1; rounds++ {
			if c.Enc&2 != 0 {
				size := file.Size()
				if size > uint64(len(data))*4+1<<20 {
					size = uint64(len(data))*4 + 1<<20 // a wrong Size() must not turn into an allocation finding of ours
				}
				sw := bits.NewFixedSliceWriter(int(size))
				if file.EncodeSW(sw) == nil {
					st.encoded = true
				}
			} else {
				if file.Encode(w) == nil {
					st.encoded = true
				}
			}
		}
		return st
	}
	if box.Info(w, c.Info, "", "  ") == nil {
		st.info = true
	}
	size := box.Size()
	_ = box.Type()
	if c.Enc&2 != 0 {
		if size > uint64(len(data))*4+1<<20 {
			size = uint64(len(data))*4 + 1<<20
		}
		sw := bits.NewFixedSliceWriter(int(size))
		if box.EncodeSW(sw) == nil {
			st.encoded = true
		}
	} else if box.Encode(io.Writer(w)) == nil {
		st.encoded = true
	}
	return st
}

// ---------------------------------------------------------------------------------------------

var entries = []string{"DecodeFile", "DecodeFile", "DecodeFileLazy", "DecodeFileSR", "DecodeFileSR", "DecodeBox", "DecodeBoxSR", "DecodeBoxLazyMdat"}
var infoLevels = []string{"", "all:1", "trun:1,senc:1", "all:2", "stts:1,ctts:1,stsz:1,stsc:1,sidx:1,saiz:1,sbgp:1,sgpd:1"}

func genCase(t *rapid.T, smallNames, allNames []string) containerCase {
	c := containerCase{
		Entry: rapid.SampledFrom(entries).Draw(t, "entry"),
		Flags: rapid.SampledFrom([]int{0, 0, 0, 1, 2, 3}).Draw(t, "flags"),
		Info:  rapid.SampledFrom(infoLevels).Draw(t, "info"),
		Enc:   rapid.IntRange(0, 15).Draw(t, "enc"),
	}
	switch mode := rapid.IntRange(0, 27).Draw(t, "mode"); {
	case mode >= 20: // grammar-generated box or file: well framed, values legal (20-22) or hostile (23-27), then mutated or not
		o := boxgen.Opt{Hostile: mode >= 23}
		if strings.HasPrefix(c.Entry, "DecodeBox") {
			typ := rapid.SampledFrom(synthTypes).Draw(t, "synthType")
			c.Origin = "box:" + typ
			c.Synth = boxgen.Box(t, typ, o)
		} else {
			kind := rapid.SampledFrom([]string{"prog", "init", "media", "frag", "frag", "any"}).Draw(t, "synthKind")
			c.Origin = "file:" + kind
			c.Synth = boxgen.File(t, kind, o)
		}
		if o.Hostile {
			c.Origin += ":hostile"
		}
		if rapid.Bool().Draw(t, "synthMutate") {
			c.Muts = boxmut.Gen(t, 2)
		}
	case mode == 0: // random bytes with a valid first header
		typ := rapid.SampledFrom([]string{"moov", "moof", "ftyp", "styp", "sidx", "mdat", "trun", "senc", "stsd", "meta", "uuid", "emsg", "mfra", "zzzz"}).Draw(t, "type")
		pl := rapid.SliceOfN(rapid.OneOf(rapid.SampledFrom([]byte{0, 0, 1, 0xff}), rapid.Byte()), 0, 60).Draw(t, "payload")
		c.Data = boxwalk.Make(typ, pl)
		if rapid.Bool().Draw(t, "tail") {
			c.Data = append(c.Data, rapid.SliceOfN(rapid.Byte(), 0, 20).Draw(t, "tailbytes")...)
		}
	case mode == 1: // unmodified seed under a drawn configuration
		c.Seed = rapid.SampledFrom(allNames).Draw(t, "seed")
	case mode < 5:
		c.Seed = rapid.SampledFrom(allNames).Draw(t, "seed")
		c.Muts = boxmut.Gen(t, 4)
	default:
		c.Seed = rapid.SampledFrom(smallNames).Draw(t, "seed")
		c.Muts = boxmut.Gen(t, 4)
	}
	if strings.HasPrefix(c.Entry, "DecodeBox") && c.Seed != "" && rapid.Bool().Draw(t, "pickbox") {
		// box-level entry points: start inside the file at a drawn box
		c.Muts = append([]boxmut.Mut{{Op: "cutto", Box: rapid.IntRange(0, 200).Draw(t, "cutbox")}}, c.Muts...)
	}
	return c
}

var synthTypes = append(append([]string{"moov", "trak", "stbl", "stsd", "moof", "traf", "moof", "traf", "sgpd", "sbgp", "senc", "saiz", "saio", "trun", "tfhd", "sidx", "tfra", "mfra", "meta", "udta", "stsc", "stsz", "ctts", "elst", "pssh", "emsg", "subs"}, boxgen.LeafTypes()...), boxgen.ContainerTypes()...)

func TestContainer(t *testing.T) {
	repo := harness.E.RepoDir
	small := seeds.Names(repo, 16<<10)
	all := seeds.Names(repo, harness.Pick(200<<10, 300<<10))
	if len(small) < 20 || len(all) < 40 {
		t.Fatalf("seed pool too small: %d / %d", len(small), len(all))
	}
	harness.RunRapid(t, "container", func(rt *rapid.T) {
		c := genCase(rt, small, all)
		raw, _ := json.Marshal(c)
		harness.SetCurrentCase("container", raw)
		f := checkContainer(c)
		origin := "mutated-seed"
		if c.Synth != nil {
			origin = "grammar"
			if strings.HasSuffix(c.Origin, ":hostile") {
				origin = "grammar-hostile"
			}
		} else if c.Seed == "" {
			origin = "random-with-valid-header"
		} else if len(c.Muts) == 0 {
			origin = "unmodified-seed"
		}
		cls := []string{"origin-" + origin, "entry-" + c.Entry, fmt.Sprintf("flags-%d", c.Flags)}
		for _, m := range c.Muts {
			cls = append(cls, "mut-"+m.Op)
		}
		switch {
		case lastStage.encoded:
			cls = append(cls, "stage-decoded+info+encoded")
		case lastStage.decoded:
			cls = append(cls, "stage-decoded")
		default:
			cls = append(cls, "stage-rejected")
		}
		nt := origin != "unmodified-seed"
		harness.Rec.Case(nt, raw, cls...)
		if nt && lastStage.decoded && harness.Rec.WantSample() {
			harness.Rec.Sample(map[string]interface{}{"kind": "container", "case": c})
		}
		if f != nil && (c.Seed != "" || c.Synth != nil) {
			c.Data = c.bytes() // make the replay file self-contained
			if len(c.Data) > 64<<10 {
				c.Data = nil
			}
		}
		harness.Report(rt, "container", c, f)
	})
	harness.ClearCurrentCase()
}
