package c10

// Reproducers of the known findings of mp4ff-crop: minimal hand-made cases, written as replay files by
//   VERIF_C10_WRITE_KF=1 go test -tags verif ./props/c10 -run TestWriteKnownFindingRepros
// (each case must fail on the unchanged tool; "noAvoid" makes the replay show the failure).

import (
	"encoding/json"
	"os"
	"strings"
	"testing"

	"verif/internal/harness"
	"verif/internal/mp4build"
)

func kfTrack(id uint32, handler string, ts uint32, durs []uint32, syncs []int) mp4build.Track {
	v, a, err := mp4build.DefaultStsd()
	if err != nil {
		panic(err)
	}
	tr := mp4build.Track{ID: id, Timescale: ts, Handler: handler, StsdRaw: a}
	if handler == "vide" {
		tr.StsdRaw, tr.Width, tr.Height = v, 16, 16
	}
	isSync := map[int]bool{}
	for _, s := range syncs {
		isSync[s] = true
	}
	for i, d := range durs {
		tr.Samples = append(tr.Samples, mp4build.Sample{Data: []byte{byte(id), byte(i + 1), 0xaa}, Dur: d, Sync: syncs == nil || isSync[i+1]})
	}
	return tr
}

func kfCase(durMS uint64, tracks []mp4build.Track, layouts []mp4build.TrackLayout) cropCase {
	lay := mp4build.ProgLayout{Tracks: layouts, MovieTimescale: 1000}
	lay.ChunkOrder = mp4build.SequentialChunkOrder(lay.Tracks)
	return cropCase{Tracks: tracks, Layout: lay, DurMS: durMS, NoAvoid: true}
}

func knownFindingCases() map[string]cropCase {
	v2 := kfTrack(1, "vide", 1000, []uint32{10, 10, 10, 10, 10, 10, 10, 10}, nil)
	v2.StsdRaw = mp4build.StsdRepeat(v2.StsdRaw, 2)
	v2.Samples[6].Sync = true
	for i := range v2.Samples {
		v2.Samples[i].Sync = i == 0 || i == 6
	}
	v3 := kfTrack(1, "vide", 1000, []uint32{10, 10, 10, 10, 10, 10, 10, 10, 10}, []int{1, 6})
	v3.StsdRaw = mp4build.StsdRepeat(v3.StsdRaw, 2)
	return map[string]cropCase{
		// chunks 1-2 (1 sample, description #1), chunks 3-4 (2 samples, #2), chunk 5 (3 samples, #1); sync
		// samples 1 and 6, -d 50 -> 5 samples kept, the cut is inside chunk 4: the description of the
		// new last entry is read at index first_chunk-1 = 2 of the per-entry slice [1 2 1] -> #1 instead of #2
		"multiple-sample-descriptions-wrong-index": kfCase(50,
			[]mp4build.Track{v3},
			[]mp4build.TrackLayout{{ChunkSizes: []int{1, 1, 2, 2, 3}, DescIDs: []uint32{1, 1, 2, 2, 1}, CttsVersion: -1, Stss: true}}),
		// 4 samples of 10 ms in one chunk, sync samples 1 and 3, -d 20: samples 1..2 are kept, the cut is
		// inside the first (only) chunk of the stsc run -> stsc (1,4,1),(1,2,1)
		"stsc-duplicate-first-chunk": kfCase(20,
			[]mp4build.Track{kfTrack(1, "vide", 1000, []uint32{10, 10, 10, 10}, []int{1, 3})},
			[]mp4build.TrackLayout{{ChunkSizes: []int{4}, CttsVersion: -1, Stss: true}}),
		// no stss: every sample is a sync sample; -d 20 -> the end time is the start of sample 3 (20 ms),
		// 2 samples start before it; the tool keeps 3
		"ref-track-without-stss": kfCase(20,
			[]mp4build.Track{kfTrack(1, "vide", 1000, []uint32{10, 10, 10, 10}, nil)},
			[]mp4build.TrackLayout{{ChunkSizes: []int{1, 1, 1, 1}, CttsVersion: -1}}),
		// the same file, -d 35 (inside the last sample): SttsBox.GetDecodeTime(N+1) -> index out of range
		"ref-track-without-stss-panic": kfCase(35,
			[]mp4build.Track{kfTrack(1, "vide", 1000, []uint32{10, 10, 10, 10}, nil)},
			[]mp4build.TrackLayout{{ChunkSizes: []int{1, 1, 1, 1}, CttsVersion: -1}}),
		// timescale 25, -d 1: the request is tick 0, sample 1 is the sync sample at or after it, no sample
		// starts before the end time -> GetDecodeTime(0) panics
		"track-keeps-no-sample": kfCase(1,
			[]mp4build.Track{kfTrack(1, "vide", 25, []uint32{1, 1, 1}, []int{1, 2, 3})},
			[]mp4build.TrackLayout{{ChunkSizes: []int{1, 1, 1}, CttsVersion: -1, Stss: true}}),
		// video cut at 20 ms, audio in timescale 1 (samples of 1 s): the audio end time is tick 0
		"track-keeps-no-sample-second-track": kfCase(20,
			[]mp4build.Track{kfTrack(1, "vide", 1000, []uint32{10, 10, 10, 10}, []int{1, 3}), kfTrack(2, "soun", 1, []uint32{1, 1}, nil)},
			[]mp4build.TrackLayout{{ChunkSizes: []int{1, 1, 1, 1}, CttsVersion: -1, Stss: true}, {ChunkSizes: []int{1, 1}, CttsVersion: -1}}),
		// stss box without entries (no sync sample at all)
		"ref-track-stss-empty": kfCase(10,
			[]mp4build.Track{kfTrack(1, "vide", 1000, []uint32{10, 10}, []int{})},
			[]mp4build.TrackLayout{{ChunkSizes: []int{1, 1}, CttsVersion: -1, Stss: true}}),
		// two sample descriptions: chunks 1-3 (1 sample each) use #1, chunks 4-5 (2 samples each) use #2; sync
		// samples 1 and 7, -d 60 -> 6 samples kept, the cut is inside chunk 5: cropStsc asks for the
		// description of CHUNK 4 in a slice with one element per ENTRY (2)
		"multiple-sample-descriptions": kfCase(60,
			[]mp4build.Track{v2},
			[]mp4build.TrackLayout{{ChunkSizes: []int{1, 1, 1, 2, 2, 1}, DescIDs: []uint32{1, 1, 1, 2, 2, 2}, CttsVersion: -1, Stss: true}}),
	}
}

// pendingFindingCases: minimal reproducers of findings that wait for triage; written by
//
//	VERIF_C10_WRITE_PENDING=1 go test -tags verif ./props/c10 -run TestWritePendingFindingRepros
//
// to /verif/replay/C10/pending/new-<name>.json (a directory the driver does not replay).
func pendingFindingCases() map[string]cropCase {
	return map[string]cropCase{
		// durations 10,10,0,10,10 ms, sync samples 1, 3 and 4, -d 20: sample 3 (duration 0) is the first sync
		// sample that starts at or after 20 ms, so the end time is 20 ms and samples 1..2 start before it;
		// GetSampleNrAtTime(20) answers 4, the tool keeps 3 samples
		"zero-duration-sample-starts-at-cut-time": kfCase(20,
			[]mp4build.Track{kfTrack(1, "vide", 1000, []uint32{10, 10, 0, 10, 10}, []int{1, 3, 4})},
			[]mp4build.TrackLayout{{ChunkSizes: []int{5}, CttsVersion: -1, Stss: true}}),
	}
}

func TestWritePendingFindingRepros(t *testing.T) {
	if os.Getenv("VERIF_C10_WRITE_PENDING") == "" {
		t.Skip("VERIF_C10_WRITE_PENDING not set")
	}
	writeRepros(t, harness.E.VerifDir+"/replay/C10/pending", "new-", pendingFindingCases())
}

func TestWriteKnownFindingRepros(t *testing.T) {
	if os.Getenv("VERIF_C10_WRITE_KF") == "" {
		t.Skip("VERIF_C10_WRITE_KF not set")
	}
	writeRepros(t, harness.E.VerifDir+"/replay/C10", "kf-", knownFindingCases())
}

func writeRepros(t *testing.T, dir, prefix string, cases map[string]cropCase) {
	needBin(t, "mp4ff-crop")
	defer cleanupTmp()
	if err := os.MkdirAll(dir, 0o755); err != nil {
		t.Fatal(err)
	}
	for name, c := range cases {
		c := c
		f := harness.Guarded(func() *harness.Fail { return checkCrop(c) })
		if f == nil {
			t.Errorf("%s: the case does not fail (defect repaired?)", name)
			continue
		}
		raw, _ := json.Marshal(c)
		msg := f.Msg
		if i := strings.Index(msg, "\n"); i > 0 {
			msg = msg[:i]
		}
		b, _ := json.MarshalIndent(harness.ReplayFile{Property: "C10", Kind: "crop", Key: f.Key, Msg: msg, Case: raw}, "", " ")
		if err := os.WriteFile(dir+"/"+prefix+name+".json", append(b, '\n'), 0o644); err != nil {
			t.Fatal(err)
		}
		t.Logf("%s: %s -- %s", name, f.Key, msg)
	}
}
