// C10 — mp4ff-crop: when the tool succeeds, its output is a decodable progressive file in which each
// track's samples are exactly the first k samples of that track in the input.
//
// A per-sample model and a progressive layout are drawn (internal/mp4build: the harness' own writer),
// the file is written to a scratch directory, the mp4ff-crop BINARY is run on it and its output file is
// read with the harness' own byte-level parser (internal/tablemodel). k is computed from the model by
// the statement of the property, not by the tool's algorithm. At the end the library's own decoder
// (mp4.DecodeFile) must accept the output as well.
package c10

import (
	"bytes"
	"encoding/binary"
	"encoding/json"
	"fmt"
	"os"
	"path/filepath"
	"sort"
	"strings"
	"testing"

	"github.com/Eyevinn/mp4ff/mp4"
	"pgregory.net/rapid"

	"verif/internal/harness"
	"verif/internal/mp4build"
	"verif/internal/tablemodel"
)

func TestMain(m *testing.M) { harness.Main(m) }

func init() {
	harness.RegisterReplay("crop", harness.Replayer(checkCrop))
	// development aid: VERIF_C10_NOAVOID=all or a comma-separated list of switch names
	if v := os.Getenv("VERIF_C10_NOAVOID"); v == "all" {
		avoidKnown = map[string]bool{}
	} else if v != "" {
		for _, name := range strings.Split(v, ",") {
			delete(avoidKnown, name)
		}
	}
}

func TestReplay(t *testing.T) { harness.ReplayPath(t); cleanupTmp() }

// avoidKnown lists the confirmed defects of mp4ff-crop that are stepped around (and counted) so that
// the search continues behind them. Each name has a reproducer /verif/replay/C10/kf-<name>.json whose
// case carries "noAvoid": true, so that replaying it shows the failure.
var avoidKnown = map[string]bool{
	// cropStsc appends the entry for the shortened last chunk even when that chunk is the first chunk of
	// the stsc run, which leaves two entries with the same first_chunk. Oracle side: the first entry of
	// such a pair at the end of the output stsc is ignored (exactly what the repair would remove), all
	// other checks run on the result.
	"stsc-duplicate-first-chunk": false, // repaired in /repo (fix: 64bba92)
	// findEndTime: without stss on the reference track the end time is the END of the first sample at or
	// after the requested duration (one sample too many). Generator side: the reference track gets an
	// stss (legal also when all samples are sync samples).
	"ref-track-without-stss": false, // repaired in /repo (fix: 21cc500)
	// a track that keeps no sample (its first sample does not start before the end time, e.g. a track in
	// a coarse timescale) makes findTrakEnds call SttsBox.GetDecodeTime(0), which panics; the same for
	// findEndTime when the requested duration maps to tick 0 of the reference track. Generator side:
	// such cases are not run.
	"track-keeps-no-sample": false, // repaired in /repo (fix: 21cc500)
	// findEndTime indexes stss.SampleNumber[len-1] without looking at the length: an stss without entries
	// (a track without sync samples) on the reference track is an index-out-of-range panic. Generator
	// side: such cases are not run.
	"ref-track-stss-empty": false, // repaired in /repo (fix: 21cc500)
	// cropStsc asks StscBox.GetSampleDescriptionID for a CHUNK number, the method indexes its per-ENTRY
	// slice with it (and the slice is not cropped): index out of range, or the description index of the
	// wrong entry, when a track uses more than one sample description. Generator side: all chunks use
	// sample description 1.
	"multiple-sample-descriptions": false, // repaired in /repo (fix: 5b2332b)
	// Not yet triaged (reproducer replay/C10/pending/new-zero-duration-sample-starts-at-cut-time.json):
	// SttsBox.GetSampleNrAtTime(t) skips table entries with sample_delta 0, so when a sample of duration 0
	// (not the last of the track) starts exactly at t it answers the first sample AFTER the run of
	// zero-duration samples instead of the first sample that starts at t. findEndTime (request on the
	// reference track) and findTrakEnds (end time on every track) then keep the zero-duration samples that
	// start AT the end time (or choose a later sync sample). Generator side: a case in which one of those
	// query times is the start time of a non-final zero-duration sample is not run; all other cases with
	// zero durations in the middle are.
	"zero-duration-sample-starts-at-cut-time": false, // repaired in /repo (fix: 8b1d3f8)
}

type cropCase struct {
	Tracks  []mp4build.Track    `json:"tracks"`
	Layout  mp4build.ProgLayout `json:"layout"`
	DurMS   uint64              `json:"durMS"`
	NoAvoid bool                `json:"noAvoid,omitempty"` // ignore avoidKnown (reproducers of known findings)
	// Gap > 0: the input file is written sparse: Gap bytes (a hole, zeros) are inserted into the mdat payload in
	// front of the chunk Layout.ChunkOrder[GapAtChunk], size field and co64 offsets patched (mp4build.Inflate): chunk
	// offsets around and beyond 2^31 / 2^32 in a file of several GiB that costs no disk space. The model, and with
	// it everything the output has to hold, is unchanged.
	Gap        uint64 `json:"gap,omitempty"`
	GapAtChunk int    `json:"gapAtChunk,omitempty"`
}

func (c *cropCase) avoid(name string) bool { return !c.NoAvoid && avoidKnown[name] }

// ---------------------------------------------------------------------------------------------
// what the statement demands, computed from the model

// refTrack is the index of the reference track: the first video track, else the first audio track
// (usage text: "crops ... to just before a sync frame"; findEndTime's doc comment: "closest video sync
// frame, or audio frame if no video").
func refTrack(tracks []mp4build.Track) int {
	for i, t := range tracks {
		if t.Handler == "vide" {
			return i
		}
	}
	for i, t := range tracks {
		if t.Handler == "soun" {
			return i
		}
	}
	return -1
}

type expectation struct {
	Ref     int
	Request uint64 // requested duration in ticks of the reference track (integer part)
	Defined bool   // a sync sample of the reference track starts at or after the request
	End     uint64 // its start, reference timescale
	K       []int  // per track: number of samples that start before End converted to the track's timescale (integer part)
	KExact  []int  // the same with exact rational comparison (evidence only)
}

func isSync(tl mp4build.TrackLayout, s mp4build.Sample) bool { return !tl.Stss || s.Sync }

func expect(c *cropCase) expectation {
	e := expectation{Ref: refTrack(c.Tracks)}
	ref := c.Tracks[e.Ref]
	refTs := uint64(ref.Timescale)
	e.Request = c.DurMS * refTs / 1000
	var start uint64
	for _, s := range ref.Samples {
		if start >= e.Request && isSync(c.Layout.Tracks[e.Ref], s) {
			e.Defined, e.End = true, start
			break
		}
		start += uint64(s.Dur)
	}
	for _, tr := range c.Tracks {
		n := len(tr.Samples)
		if !e.Defined {
			e.K = append(e.K, n)
			e.KExact = append(e.KExact, n)
			continue
		}
		endT := e.End * uint64(tr.Timescale) / refTs
		k, kx := 0, 0
		var st uint64
		for _, s := range tr.Samples {
			if st < endT {
				k++
			}
			if st*refTs < e.End*uint64(tr.Timescale) { // st/ts < End/refTs
				kx++
			}
			st += uint64(s.Dur)
		}
		e.K = append(e.K, k)
		e.KExact = append(e.KExact, kx)
	}
	return e
}

// ---------------------------------------------------------------------------------------------
// oracle

type evalInfo struct {
	classes    []string
	excluded   []string
	nontrivial bool
}

func (i *evalInfo) class(s ...string) { i.classes = append(i.classes, s...) }

func checkCrop(c cropCase) *harness.Fail {
	f, _ := evalCrop(&c)
	return f
}

func exitReason(stderr string) string {
	s := strings.TrimSpace(stderr)
	if i := strings.LastIndex(s, "error: "); i >= 0 {
		s = s[i+len("error: "):]
	}
	s = numRe.ReplaceAllString(s, "N")
	if i := strings.Index(s, "\n"); i >= 0 {
		s = s[:i]
	}
	if len(s) > 90 {
		s = s[:90]
	}
	return s
}

// stscBoxes locates the stsc box of every trak of a file (in trak order).
func stscBoxes(file []byte) ([]tablemodel.RawBox, error) {
	top, err := tablemodel.WalkBoxes(file, 0)
	if err != nil {
		return nil, err
	}
	var out []tablemodel.RawBox
	for _, b := range top {
		if b.Type != "moov" {
			continue
		}
		kids, err := b.Children()
		if err != nil {
			return nil, err
		}
		for _, trak := range kids {
			if trak.Type != "trak" {
				continue
			}
			cur := trak
			for _, typ := range []string{"mdia", "minf", "stbl", "stsc"} {
				ks, err := cur.Children()
				if err != nil {
					return nil, err
				}
				found := false
				for _, k := range ks {
					if k.Type == typ {
						cur, found = k, true
						break
					}
				}
				if !found {
					return nil, fmt.Errorf("trak at %d: no %s", trak.Start, typ)
				}
			}
			out = append(out, cur)
		}
	}
	return out, nil
}

// duplicateTail reports whether the last two entries of an stsc payload have the same first_chunk.
func duplicateTail(payload []byte) bool {
	if len(payload) < 8 {
		return false
	}
	n := int(binary.BigEndian.Uint32(payload[4:]))
	if n < 2 || len(payload) != 8+12*n {
		return false
	}
	a := binary.BigEndian.Uint32(payload[8+12*(n-2):])
	b := binary.BigEndian.Uint32(payload[8+12*(n-1):])
	return a == b
}

// dropDuplicateTail rewrites, in a copy of file, an stsc box whose last two entries share first_chunk
// into the box without the first of the two, followed by a 12-byte free box: no offset moves.
func dropDuplicateTail(file []byte, b tablemodel.RawBox) []byte {
	out := append([]byte{}, file...)
	box := out[b.Start : b.Start+b.Size]
	n := int(binary.BigEndian.Uint32(box[12:]))
	binary.BigEndian.PutUint32(box[0:], uint32(b.Size-12))
	binary.BigEndian.PutUint32(box[12:], uint32(n-1))
	last := append([]byte{}, box[16+12*(n-1):16+12*n]...)
	copy(box[16+12*(n-2):], last)
	tailBox := box[len(box)-12:]
	binary.BigEndian.PutUint32(tailBox, 12)
	copy(tailBox[4:], "free")
	copy(tailBox[8:], []byte{0, 0, 0, 0})
	return out
}

func evalCrop(c *cropCase) (fail *harness.Fail, info evalInfo) {
	if f := missingBin("mp4ff-crop"); f != nil {
		return f, info
	}
	if len(c.Tracks) == 0 || refTrack(c.Tracks) < 0 || c.DurMS == 0 {
		return harness.Failf("harness|c10|bad-case", "no reference track or duration 0"), info
	}
	file, truth, err := mp4build.BuildProgressive(c.Tracks, c.Layout)
	if err != nil {
		return harness.Failf("harness|c10|build", "%v", err), info
	}
	in, err := tablemodel.ParseProgressive(file)
	if err != nil || len(in.Tracks) != len(c.Tracks) {
		return harness.Failf("harness|c10|reference-parse", "%v", err), info
	}
	ex := expect(c)
	classifyInput(c, &ex, &info)

	dir, err := caseDir()
	if err != nil {
		return harness.Failf("harness|c10|tmpdir", "%v", err), info
	}
	defer os.RemoveAll(dir)
	inPath, outPath := filepath.Join(dir, "in.mp4"), filepath.Join(dir, "out.mp4")
	if c.Gap > 0 {
		prefix, suffix, err := mp4build.Inflate(file, truth, c.Layout, c.GapAtChunk, c.Gap)
		if err != nil {
			return harness.Failf("harness|c10|bad-case", "%v", err), info
		}
		fd, err := os.Create(inPath)
		if err == nil {
			_, err = fd.WriteAt(prefix, 0)
		}
		if err == nil {
			_, err = fd.WriteAt(suffix, int64(len(prefix))+int64(c.Gap)) // the gap stays a hole
		}
		if err == nil {
			err = fd.Close()
		}
		if err != nil {
			return harness.Failf("harness|c10|tmpdir", "%v", err), info
		}
		info.class("input-sparse-file-with-inflated-mdat")
		if uint64(len(prefix))+c.Gap >= 1<<32 {
			info.class("input-chunk-offsets-beyond-2^32")
		}
	} else if err := os.WriteFile(inPath, file, 0o644); err != nil {
		return harness.Failf("harness|c10|tmpdir", "%v", err), info
	}
	res := runTool(dir, binPath("mp4ff-crop"), "-d", fmt.Sprint(c.DurMS), inPath, outPath)
	if res.StartErr != nil {
		return harness.Failf("harness|c10|cannot start tool", "%v", res.StartErr), info
	}
	if crashed, class := res.crashed(); crashed {
		info.class("exit-crash")
		return harness.Failf("C10|mp4ff-crop|panic ("+class+")", "mp4ff-crop -d %d: exit status %d, expected samples kept per track %v (reference track index %d, end time %d defined=%v)\n%s",
			c.DurMS, res.Exit, ex.K, ex.Ref, ex.End, ex.Defined, tail(res.Stderr, 1500)), info
	}
	if res.Exit != 0 {
		info.class("exit-error", "exit-error: "+exitReason(res.Stderr))
		return nil, info // no claim
	}
	info.class("exit-0")
	out, err := os.ReadFile(outPath)
	if err != nil {
		return harness.Failf("C10|mp4ff-crop|exit status 0 without output file", "%v", err), info
	}

	// ---- decodable
	if boxes, err := stscBoxes(out); err == nil {
		for ti, b := range boxes {
			if duplicateTail(b.Payload) {
				if !c.avoid("stsc-duplicate-first-chunk") {
					return harness.Failf("C10|mp4ff-crop|output stsc has two entries with the same first_chunk",
						"mp4ff-crop -d %d: stsc of output track #%d ends with two entries for chunk %d (payload %x); input chunk sizes %v, %d samples kept",
						c.DurMS, ti+1, binary.BigEndian.Uint32(b.Payload[len(b.Payload)-12:]), b.Payload, c.Layout.Tracks[min(ti, len(c.Layout.Tracks)-1)].ChunkSizes, ex.K[min(ti, len(ex.K)-1)]), info
				}
				info.excluded = append(info.excluded, "stsc-duplicate-first-chunk")
				out = dropDuplicateTail(out, b)
			}
		}
	}
	mv, err := tablemodel.ParseProgressive(out)
	if err != nil {
		return harness.Failf("C10|mp4ff-crop|output is not a decodable progressive file", "mp4ff-crop -d %d: %v (expected samples kept per track %v)", c.DurMS, err, ex.K), info
	}
	if len(mv.Tracks) != len(c.Tracks) {
		return harness.Failf("C10|mp4ff-crop|number of tracks differs", "output has %d tracks, input %d", len(mv.Tracks), len(c.Tracks)), info
	}
	if mv.NrMdat != 1 {
		return harness.Failf("C10|mp4ff-crop|output does not have exactly one mdat", "%d mdat boxes", mv.NrMdat), info
	}

	// ---- per track: exactly the first k samples
	type span struct {
		off, size uint64
		track, nr int
	}
	var chunks []span
	payLo, payHi := mv.MdatPayloadStart, mv.MdatPayloadStart+mv.MdatPayloadSize
	for ti, tr := range c.Tracks {
		tl := c.Layout.Tracks[ti]
		ot := mv.Tracks[ti]
		x := ot.X
		if ot.ID != tr.ID || ot.Timescale != tr.Timescale {
			return harness.Failf("C10|mp4ff-crop|track identity differs", "output track #%d: id %d timescale %d, input id %d timescale %d", ti+1, ot.ID, ot.Timescale, tr.ID, tr.Timescale), info
		}
		if !bytes.Equal(ot.StsdRaw, tr.StsdRaw) {
			return harness.Failf("C10|mp4ff-crop|sample description differs", "output track #%d: stsd %d bytes, input %d bytes", ti+1, len(ot.StsdRaw), len(tr.StsdRaw)), info
		}
		k := ex.K[ti]
		if x.N != k {
			return harness.Failf("C10|mp4ff-crop|number of samples kept differs",
				"mp4ff-crop -d %d: output track #%d (id %d, timescale %d%s) has %d samples; %d of its %d samples start before the end time "+
					"(reference track #%d timescale %d, request = tick %d, first sync sample at or after it starts at %d (defined=%v))",
				c.DurMS, ti+1, tr.ID, tr.Timescale, map[bool]string{true: ", reference track"}[ti == ex.Ref], x.N, k, len(tr.Samples), ex.Ref+1, c.Tracks[ex.Ref].Timescale, ex.Request, ex.End, ex.Defined), info
		}
		for i := 0; i < k; i++ {
			nr := i + 1
			s := tr.Samples[i]
			wantSdtp := byte(0)
			if tl.Sdtp {
				wantSdtp = s.Sdtp
			}
			switch {
			case x.Dur[nr] != s.Dur:
				return harness.Failf("C10|mp4ff-crop|sample duration differs", "track #%d sample %d: duration %d, input %d (output stts %v)", ti+1, nr, x.Dur[nr], s.Dur, ot.Tables.Stts), info
			case x.Cto[nr] != s.Cto:
				return harness.Failf("C10|mp4ff-crop|composition offset differs", "track #%d sample %d: cto %d, input %d (output ctts v%d %v)", ti+1, nr, x.Cto[nr], s.Cto, ot.Tables.CttsVersion, ot.Tables.Ctts), info
			case x.Sync[nr] != isSync(tl, s):
				return harness.Failf("C10|mp4ff-crop|sync flag differs", "track #%d sample %d: sync %v, input %v (output stss present %v %v)", ti+1, nr, x.Sync[nr], isSync(tl, s), ot.Tables.HasStss, ot.Tables.Stss), info
			case x.Sdtp[nr] != wantSdtp:
				return harness.Failf("C10|mp4ff-crop|sdtp entry differs", "track #%d sample %d: sdtp %#x, input %#x", ti+1, nr, x.Sdtp[nr], wantSdtp), info
			case x.Size[nr] != uint32(len(s.Data)):
				return harness.Failf("C10|mp4ff-crop|sample size differs", "track #%d sample %d: size %d, input %d", ti+1, nr, x.Size[nr], len(s.Data)), info
			case x.DescIdx[nr] != truth.Tracks[ti].SampleDescID[i]:
				return harness.Failf("C10|mp4ff-crop|sample description index differs", "track #%d sample %d: sample_description_index %d, input %d (output stsc %v)", ti+1, nr, x.DescIdx[nr], truth.Tracks[ti].SampleDescID[i], ot.Tables.Stsc), info
			}
			got := mv.SampleBytes(out, ti, nr)
			if got == nil {
				return harness.Failf("C10|mp4ff-crop|sample lies outside the output file", "track #%d sample %d: offset %d size %d, file %d bytes", ti+1, nr, x.Offset[nr], x.Size[nr], len(out)), info
			}
			if !bytes.Equal(got, s.Data) {
				return harness.Failf("C10|mp4ff-crop|sample bytes differ", "track #%d sample %d at output offset %d: %s, input %s (output chunk offsets %v, mdat payload [%d,%d))",
					ti+1, nr, x.Offset[nr], harness.HexTrunc(got, 24), harness.HexTrunc(s.Data, 24), ot.Tables.ChunkOffsets, payLo, payHi), info
			}
		}
		if tl.Stss != ot.Tables.HasStss || (tl.CttsVersion >= 0) != (ot.Tables.CttsVersion >= 0) || tl.Sdtp != ot.Tables.HasSdtp {
			return harness.Failf("C10|mp4ff-crop|set of sample table boxes differs", "track #%d: output stss %v ctts v%d sdtp %v; input stss %v ctts v%d sdtp %v",
				ti+1, ot.Tables.HasStss, ot.Tables.CttsVersion, ot.Tables.HasSdtp, tl.Stss, tl.CttsVersion, tl.Sdtp), info
		}
		for cn := 1; cn <= x.NrChunks(); cn++ {
			ch := x.Chunks[cn]
			if ch.Offset < payLo || ch.Offset+ch.Size > payHi {
				return harness.Failf("C10|mp4ff-crop|chunk offset outside the output mdat", "track #%d chunk %d: [%d,%d), mdat payload [%d,%d) (chunk offsets %v)",
					ti+1, cn, ch.Offset, ch.Offset+ch.Size, payLo, payHi, ot.Tables.ChunkOffsets), info
			}
			chunks = append(chunks, span{ch.Offset, ch.Size, ti, cn})
		}
		// header durations
		it := in.Tracks[ti]
		if ot.TkhdDuration > it.TkhdDuration {
			return harness.Failf("C10|mp4ff-crop|tkhd duration grew", "track #%d: %d, input %d", ti+1, ot.TkhdDuration, it.TkhdDuration), info
		}
		if ot.MdhdDuration > it.MdhdDuration {
			return harness.Failf("C10|mp4ff-crop|mdhd duration grew", "track #%d: %d, input %d", ti+1, ot.MdhdDuration, it.MdhdDuration), info
		}
		if len(ot.Elst) != len(it.Elst) || ot.HasEdts != it.HasEdts {
			return harness.Failf("C10|mp4ff-crop|edit list entries differ in number", "track #%d: %d entries, input %d", ti+1, len(ot.Elst), len(it.Elst)), info
		}
		for ei := range ot.Elst {
			if ot.Elst[ei].SegmentDuration > it.Elst[ei].SegmentDuration {
				return harness.Failf("C10|mp4ff-crop|elst segment duration grew", "track #%d entry %d: %d, input %d", ti+1, ei, ot.Elst[ei].SegmentDuration, it.Elst[ei].SegmentDuration), info
			}
		}
	}
	if mv.MovieDuration > in.MovieDuration {
		return harness.Failf("C10|mp4ff-crop|mvhd duration grew", "%d, input %d", mv.MovieDuration, in.MovieDuration), info
	}
	// ---- the mdat holds exactly the chunks, one after the other
	sort.Slice(chunks, func(a, b int) bool {
		if chunks[a].off != chunks[b].off {
			return chunks[a].off < chunks[b].off
		}
		if chunks[a].size != chunks[b].size { // chunks without bytes (empty samples) first: they share their offset with the next chunk
			return chunks[a].size < chunks[b].size
		}
		if chunks[a].track != chunks[b].track {
			return chunks[a].track < chunks[b].track
		}
		return chunks[a].nr < chunks[b].nr
	})
	pos := payLo
	for _, ch := range chunks {
		if ch.off != pos {
			return harness.Failf("C10|mp4ff-crop|mdat payload is not exactly the kept chunks in order", "chunk %d of track #%d starts at %d, the preceding data ends at %d (mdat payload [%d,%d))",
				ch.nr, ch.track+1, ch.off, pos, payLo, payHi), info
		}
		pos += ch.size
	}
	if pos != payHi {
		return harness.Failf("C10|mp4ff-crop|mdat payload is not exactly the kept chunks in order", "chunks end at %d, mdat payload ends at %d", pos, payHi), info
	}
	// ---- the library's decoder accepts the output
	lf, err := mp4.DecodeFile(bytes.NewReader(out))
	if err != nil {
		return harness.Failf("C10|mp4ff-crop|output is rejected by mp4.DecodeFile", "mp4ff-crop -d %d: %v (samples kept per track %v)", c.DurMS, err, ex.K), info
	}
	if lf.Moov == nil || len(lf.Moov.Traks) != len(c.Tracks) || lf.IsFragmented() {
		return harness.Failf("C10|mp4ff-crop|output decoded by mp4.DecodeFile has another structure", "moov %v, fragmented %v", lf.Moov != nil, lf.IsFragmented()), info
	}
	for ti, trak := range lf.Moov.Traks {
		if got := trak.GetNrSamples(); int(got) != ex.K[ti] {
			return harness.Failf("C10|mp4ff-crop|output decoded by mp4.DecodeFile has another structure", "track #%d: %d samples, %d kept", ti+1, got, ex.K[ti]), info
		}
	}
	classifyCut(c, &ex, &info)
	return nil, info
}

// ---------------------------------------------------------------------------------------------
// evidence

func classifyInput(c *cropCase, ex *expectation, info *evalInfo) {
	add := func(cond bool, yes, no string) {
		if cond && yes != "" {
			info.class(yes)
		}
		if !cond && no != "" {
			info.class(no)
		}
	}
	info.class(fmt.Sprintf("tracks-%d", len(c.Tracks)))
	add(len(c.Tracks) >= 2, "multi-track", "")
	add(c.Tracks[ex.Ref].Handler == "vide", "reference-video", "reference-audio")
	add(ex.Ref != 0, "reference-not-first-track", "")
	nVideo := 0
	for _, tr := range c.Tracks {
		if tr.Handler == "vide" {
			nVideo++
		}
	}
	add(nVideo >= 2, "two-video-tracks", "")
	add(!ex.Defined, "request-beyond-last-sync-sample", "")
	add(c.Layout.MdatFirst, "mdat-first", "moov-first")
	add(c.Layout.MdatLarge, "mdat-largesize", "")
	add(c.Layout.GapBytes != nil, "gaps-between-chunks", "")
	add(c.Layout.HeaderV1, "headers-v1", "")
	inter := false
	for i := 1; i < len(c.Layout.ChunkOrder); i++ {
		if c.Layout.ChunkOrder[i][0] < c.Layout.ChunkOrder[i-1][0] {
			inter = true
		}
	}
	add(inter, "chunks-interleaved-across-tracks", "")
	any := func(f func(tl mp4build.TrackLayout) bool) bool {
		for _, tl := range c.Layout.Tracks {
			if f(tl) {
				return true
			}
		}
		return false
	}
	add(any(func(tl mp4build.TrackLayout) bool { return tl.Co64 }), "co64", "")
	add(any(func(tl mp4build.TrackLayout) bool { return !tl.Co64 }), "stco", "")
	add(any(func(tl mp4build.TrackLayout) bool { return tl.CttsVersion >= 0 }), "ctts-present", "")
	add(any(func(tl mp4build.TrackLayout) bool { return tl.CttsVersion < 0 }), "ctts-absent", "")
	add(any(func(tl mp4build.TrackLayout) bool { return tl.Sdtp }), "sdtp-present", "")
	add(any(func(tl mp4build.TrackLayout) bool { return !tl.Sdtp }), "sdtp-absent", "")
	add(any(func(tl mp4build.TrackLayout) bool { return tl.Elst != nil }), "edts-present", "")
	add(any(func(tl mp4build.TrackLayout) bool { return tl.Elst == nil }), "edts-absent", "")
	add(any(func(tl mp4build.TrackLayout) bool { return tl.DescIDs != nil }), "multi-desc-ids", "")
	add(c.Layout.Tracks[ex.Ref].Stss, "reference-stss-present", "reference-stss-absent")
	ts := map[uint32]bool{}
	for _, t := range c.Tracks {
		ts[t.Timescale] = true
	}
	add(len(ts) > 1, "different-timescales", "")
	add(c.Layout.UnorderedChunks, "chunks-of-a-track-out-of-order-in-mdat", "")
	decreasing, zeroSize, zeroDur, zeroDurRef := false, false, false, false
	for ti, tr := range c.Tracks {
		tl := c.Layout.Tracks[ti]
		// mdat position of every chunk of the track
		at := make([]int, len(tl.ChunkSizes))
		for oi, tc := range c.Layout.ChunkOrder {
			if tc[0] == ti && tc[1] >= 0 && tc[1] < len(at) {
				at[tc[1]] = oi
			}
		}
		for i := 1; i < len(at); i++ {
			decreasing = decreasing || at[i] < at[i-1]
		}
		for i, s := range tr.Samples {
			zeroSize = zeroSize || len(s.Data) == 0
			if s.Dur == 0 && i < len(tr.Samples)-1 {
				zeroDur = true
				zeroDurRef = zeroDurRef || ti == ex.Ref
			}
		}
	}
	add(decreasing, "chunk-offsets-of-a-track-not-increasing", "")
	add(zeroSize, "zero-size-sample", "")
	add(zeroDur, "zero-duration-mid-track", "")
	add(zeroDurRef, "zero-duration-mid-track-reference", "")
	if ex.Defined {
		diff := false
		for i := range ex.K {
			diff = diff || ex.K[i] != ex.KExact[i]
		}
		add(diff, "timescale-conversion-truncation-changes-k", "")
		// boundary classes of the request relative to the chosen sync sample
		add(ex.Request == ex.End, "request-exactly-at-sync-sample", "")
		add(ex.End > 0 && ex.Request+1 == ex.End, "request-one-tick-before-sync-sample", "")
	}
}

func classifyCut(c *cropCase, ex *expectation, info *evalInfo) {
	cutAny, insideStts, insideChunk, lastStsc, insideCtts, firstChunkOfRun := false, false, false, false, false, false
	zeroSizeAtCut, zeroSizeKept, zeroDurAtCut, cutInSwapped := false, false, false, false
	allKept := true
	for ti, tr := range c.Tracks {
		tl := c.Layout.Tracks[ti]
		k, n := ex.K[ti], len(tr.Samples)
		if k >= n {
			continue
		}
		allKept = false
		if k < 1 {
			continue
		}
		cutAny = true
		if len(tr.Samples[k-1].Data) == 0 || len(tr.Samples[k].Data) == 0 {
			zeroSizeAtCut = true
		}
		if tr.Samples[k-1].Dur == 0 || tr.Samples[k].Dur == 0 || (k >= 2 && tr.Samples[k-2].Dur == 0) {
			zeroDurAtCut = true
		}
		if !tl.NoMerge && tr.Samples[k-1].Dur == tr.Samples[k].Dur {
			insideStts = true
		}
		if !tl.NoMerge && tl.CttsVersion >= 0 && tr.Samples[k-1].Cto == tr.Samples[k].Cto {
			insideCtts = true
		}
		// chunk that holds sample k (the last one kept)
		sum := 0
		ci := 0
		for i, cs := range tl.ChunkSizes {
			if sum+cs >= k {
				ci = i
				break
			}
			sum += cs
		}
		// chunks 0..ci are kept: is one of them behind a later chunk of the track in the mdat?
		at := make([]int, len(tl.ChunkSizes))
		for oi, tc := range c.Layout.ChunkOrder {
			if tc[0] == ti && tc[1] >= 0 && tc[1] < len(at) {
				at[tc[1]] = oi
			}
		}
		for i := 1; i <= ci+1 && i < len(at); i++ {
			cutInSwapped = cutInSwapped || at[i] < at[i-1]
		}
		partial := sum+tl.ChunkSizes[ci] != k
		if partial {
			insideChunk = true
		}
		runs := mp4build.StscRuns(tl.ChunkSizes, tl.DescIDs, tl.NoMerge)
		ri := 0
		for i, r := range runs {
			if int(r.FirstChunk) <= ci+1 {
				ri = i
			}
		}
		if ri == len(runs)-1 {
			lastStsc = true
		}
		if partial && int(runs[ri].FirstChunk) == ci+1 {
			firstChunkOfRun = true
		}
	}
	for ti, tr := range c.Tracks {
		for i := 0; i < ex.K[ti] && i < len(tr.Samples); i++ {
			zeroSizeKept = zeroSizeKept || len(tr.Samples[i].Data) == 0
		}
	}
	if allKept {
		info.class("nothing-cropped")
	}
	if zeroSizeKept {
		info.class("zero-size-sample-kept")
	}
	if zeroSizeAtCut {
		info.class("zero-size-sample-at-cut")
	}
	if zeroDurAtCut {
		info.class("zero-duration-at-cut")
	}
	if cutInSwapped {
		info.class("cut-at-out-of-order-chunks")
	}
	if insideStts {
		info.class("cut-inside-stts-run")
	}
	if insideCtts {
		info.class("cut-inside-ctts-run")
	}
	if insideChunk {
		info.class("cut-inside-chunk")
	}
	if lastStsc {
		info.class("cut-in-last-stsc-entry")
	}
	if firstChunkOfRun {
		info.class("cut-inside-first-chunk-of-stsc-run")
	}
	info.nontrivial = cutAny && len(c.Tracks) >= 2 && (insideStts || insideChunk || lastStsc)
}

// ---------------------------------------------------------------------------------------------
// generator

// genDur draws the requested duration (ms): mostly at the start times of the reference track's
// samples (sync samples preferred) -1/0/+1 ms, else anywhere from 1 ms to beyond the end.
func genDur(t *rapid.T, c *cropCase) uint64 {
	ref := c.Tracks[refTrack(c.Tracks)]
	tl := c.Layout.Tracks[refTrack(c.Tracks)]
	ts := uint64(ref.Timescale)
	var starts, syncStarts []uint64
	var st uint64
	for _, s := range ref.Samples {
		starts = append(starts, st)
		if isSync(tl, s) {
			syncStarts = append(syncStarts, st)
		}
		st += uint64(s.Dur)
	}
	total := st
	totalMS := total * 1000 / ts
	var d uint64
	k := rapid.IntRange(0, 19).Draw(t, "durKind")
	switch {
	case k < 12: // around a sync sample, the first one only if there is no other
		if len(syncStarts) > 1 {
			d = syncStarts[rapid.IntRange(1, len(syncStarts)-1).Draw(t, "durSync")]
		} else if len(syncStarts) == 1 {
			d = syncStarts[0]
		}
		d = msAround(t, d, ts)
	case k < 15:
		d = msAround(t, starts[rapid.IntRange(0, len(starts)-1).Draw(t, "durSample")], ts)
	case k == 15:
		d = msAround(t, total, ts)
	case k == 16:
		d = totalMS + rapid.Uint64Range(1, 5000).Draw(t, "durBeyond")
	case k == 17:
		d = rapid.Uint64Range(1, 50).Draw(t, "durSmall")
	default:
		d = rapid.Uint64Range(1, totalMS+2).Draw(t, "durAny")
	}
	// a request after the start of the last sync sample cannot be served (the tool reports that there is no
	// sync sample, or no sample, at or after it): outside the kinds that aim beyond the end, three out of
	// four of those are moved to the millisecond at or before the last sync sample
	if n := len(syncStarts); n > 1 && k != 15 && k != 16 && d*ts/1000 > syncStarts[n-1] && rapid.IntRange(0, 3).Draw(t, "durClamp") != 0 {
		d = syncStarts[n-1] * 1000 / ts
	}
	if d < 1 {
		d = 1
	}
	return d
}

// msAround converts tick (timescale ts) to milliseconds rounding down or up and adds -1, 0 or +1.
func msAround(t *rapid.T, tick, ts uint64) uint64 {
	ms := tick * 1000 / ts
	if rapid.Bool().Draw(t, "msCeil") {
		ms = (tick*1000 + ts - 1) / ts
	}
	switch rapid.IntRange(0, 3).Draw(t, "msDelta") {
	case 0:
		if ms > 0 {
			ms--
		}
	case 1:
		ms++
	}
	return ms
}

func genCrop(t *rapid.T) cropCase {
	opt := mp4build.GenOpt{MaxSamples: harness.Pick(30, 60), AllowFinalZeroDur: true,
		StsdEntries: rapid.SampledFrom([]int{1, 1, 1, 1, 1, 1, 2, 3}).Draw(t, "stsdEntries")}
	// tracks of one to three samples can hardly be cropped: three cases out of four have four samples or more
	if rapid.IntRange(0, 3).Draw(t, "minSamples") != 0 {
		opt.MinSamples = 4
	}
	switch rapid.IntRange(0, 7).Draw(t, "zeroMode") { // empty samples / zero durations before the last sample
	case 0:
		opt.AllowZeroSize = true
	case 1:
		opt.AllowZeroDur = true
	case 2:
		opt.AllowZeroSize, opt.AllowZeroDur = true, true
	}
	// durations up to 2^32-1 ticks (run index x delta and the track duration exceed 32 bits) in 1 case of 8
	opt.ExtremeDur = rapid.IntRange(0, 7).Draw(t, "extremeDur") == 0
	tracks := mp4build.GenTracks(t, opt)
	// the generator puts the video track first: sometimes drop it (audio reference) or move it
	if len(tracks) >= 2 {
		switch rapid.IntRange(0, 9).Draw(t, "trackShape") {
		case 0:
			tracks = tracks[1:]
		case 1:
			tracks[0], tracks[len(tracks)-1] = tracks[len(tracks)-1], tracks[0]
		case 2, 3:
			// a second video track with a sync-sample pattern of its own (the reference is the FIRST video track)
			last := &tracks[len(tracks)-1]
			last.Handler, last.StsdRaw, last.Width, last.Height = "vide", tracks[0].StsdRaw, 320, 180
			g := rapid.IntRange(1, 5).Draw(t, "gop2")
			for i := range last.Samples {
				last.Samples[i].Sync = i%g == 0
			}
			if rapid.Bool().Draw(t, "video2First") {
				tracks[0], tracks[len(tracks)-1] = tracks[len(tracks)-1], tracks[0]
			}
		}
	}
	alignTracks(t, tracks)
	// a reference track whose only sync sample is the first one cannot be cropped at all: give three out
	// of four of those a GOP structure
	if ref := &tracks[refTrack(tracks)]; len(ref.Samples) > 2 {
		syncs := 0
		for _, s := range ref.Samples {
			if s.Sync {
				syncs++
			}
		}
		if syncs <= 1 && rapid.IntRange(0, 3).Draw(t, "addGop") != 0 {
			gop := rapid.IntRange(1, len(ref.Samples)-1).Draw(t, "gopLen")
			for i := 0; i < len(ref.Samples); i += gop {
				ref.Samples[i].Sync = true
			}
		}
	}
	c := cropCase{Tracks: tracks}
	c.Layout = mp4build.GenProgLayout(t, tracks)
	mp4build.GenEmptyChunkAt(t, &c.Layout)
	// one case in six: two chunks of a track change places in the mdat (chunk offsets of the track not increasing)
	if rapid.IntRange(0, 5).Draw(t, "swapChunks") == 0 {
		mp4build.GenSwapChunks(t, &c.Layout)
	}
	// edit lists: the drawn segment durations are unrelated to the media; three out of four get the media
	// duration (in movie timescale) as the duration of their last entry, as a real file would have
	for ti := range c.Layout.Tracks {
		tl := &c.Layout.Tracks[ti]
		if tl.Elst != nil && rapid.IntRange(0, 3).Draw(t, "elstReal") != 0 {
			var d uint64
			for _, s := range tracks[ti].Samples {
				d += uint64(s.Dur)
			}
			tl.Elst[len(tl.Elst)-1].SegmentDuration = mp4build.ScaleDur(d, tracks[ti].Timescale, c.Layout.MovieTimescale)
		}
	}
	c.DurMS = genDur(t, &c)
	// one case in ten: a sparse input of several GiB (needs moov in front of mdat and co64 everywhere)
	if rapid.IntRange(0, 9).Draw(t, "sparseInput") == 0 {
		c.Layout.MdatFirst = false
		for i := range c.Layout.Tracks {
			c.Layout.Tracks[i].Co64 = true
		}
		c.GapAtChunk = rapid.IntRange(0, len(c.Layout.ChunkOrder)).Draw(t, "gapAtChunk")
		d := uint64(rapid.IntRange(0, 64).Draw(t, "gapDelta"))
		switch rapid.IntRange(0, 3).Draw(t, "gapKind") {
		case 0:
			c.Gap = (1 << 32) - 2000 + d*40 // chunk offsets on both sides of 2^32
		case 1:
			c.Gap = (1 << 31) - 2000 + d*40
		case 2:
			c.Gap = (1 << 32) + uint64(rapid.Uint32().Draw(t, "gapBeyond"))
		default:
			c.Gap = 1 + d
		}
		if c.Gap+8+1<<20 > 0xffffffff {
			c.Layout.MdatLarge = true // the payload needs the 64-bit size field
		}
	}
	return c
}

// alignTracks rescales (seven times out of eight) the sample durations of the non-reference tracks by a
// common factor per track so that the tracks cover comparable real time (the independent draws of
// mp4build.GenTracks give tracks whose lengths differ by orders of magnitude, on which the tool mostly
// reports that a track ends before the cut). Equal durations stay equal, so the stts runs survive.
func alignTracks(t *rapid.T, tracks []mp4build.Track) {
	ref := refTrack(tracks)
	total := func(tr mp4build.Track) float64 {
		var d uint64
		for _, s := range tr.Samples {
			d += uint64(s.Dur)
		}
		return float64(d) / float64(tr.Timescale)
	}
	// the request has millisecond resolution: a reference track whose samples last microseconds can only
	// be cropped "beyond the end"; seven out of eight of those get their durations multiplied
	if n := float64(len(tracks[ref].Samples)); total(tracks[ref]) < 0.002*n && total(tracks[ref]) > 0 && rapid.IntRange(0, 7).Draw(t, "refSlow") != 0 {
		m := uint64(0.002*n/total(tracks[ref])) + 1
		for i := range tracks[ref].Samples {
			s := &tracks[ref].Samples[i]
			if v := uint64(s.Dur) * m; v < 1<<30 {
				s.Dur = uint32(v)
			}
		}
	}
	refSec := total(tracks[ref])
	// a track that ends before the cut makes the tool give up ("no matching sample found for time"): the
	// shorter-than-reference factors are used in one case out of eight only
	factors := []float64{1.0, 1.0, 1.01, 1.2, 2.0, 3.0}
	if rapid.IntRange(0, 7).Draw(t, "alignShort") == 0 {
		factors = []float64{0.5, 0.98}
	}
	for ti := range tracks {
		if ti == ref || rapid.IntRange(0, 7).Draw(t, "align") == 0 {
			continue
		}
		sec := total(tracks[ti])
		if sec <= 0 || refSec <= 0 {
			continue
		}
		factor := rapid.SampledFrom(factors).Draw(t, "alignFactor")
		// a timescale too coarse for the real time of the reference track (fewer than two ticks per sample on
		// average: the cut falls on tick 0 and the tool reports that the track keeps no sample) is replaced
		// three times out of four
		if n := float64(len(tracks[ti].Samples)); refSec*factor*float64(tracks[ti].Timescale) < 2*n && rapid.IntRange(0, 3).Draw(t, "alignTimescale") != 0 {
			old := tracks[ti].Timescale
			for _, ts := range []uint32{1000, 48000, 10000000} {
				if refSec*factor*float64(ts) >= 2*n {
					tracks[ti].Timescale = ts
					break
				}
			}
			sec = sec * float64(old) / float64(tracks[ti].Timescale)
		}
		scale := refSec * factor / sec
		for i := range tracks[ti].Samples {
			s := &tracks[ti].Samples[i]
			if s.Dur == 0 {
				continue
			}
			v := float64(s.Dur)*scale + 0.5
			switch {
			case v < 1:
				s.Dur = 1
			case v > 1<<30:
				s.Dur = 1 << 30
			default:
				s.Dur = uint32(v)
			}
		}
	}
}

// applyAvoid applies the generator-side switches: it may change the case (counted) or ask to leave it out.
func applyAvoid(c *cropCase) (skip bool, excluded []string) {
	ref := refTrack(c.Tracks)
	if c.avoid("ref-track-without-stss") && !c.Layout.Tracks[ref].Stss {
		c.Layout.Tracks[ref].Stss = true
		excluded = append(excluded, "ref-track-without-stss")
	}
	if c.avoid("multiple-sample-descriptions") {
		for ti := range c.Layout.Tracks {
			if c.Layout.Tracks[ti].DescIDs != nil {
				c.Layout.Tracks[ti].DescIDs = nil
				excluded = append(excluded, "multiple-sample-descriptions")
			}
		}
	}
	if c.avoid("ref-track-stss-empty") && c.Layout.Tracks[ref].Stss {
		any := false
		for _, s := range c.Tracks[ref].Samples {
			any = any || s.Sync
		}
		if !any {
			return true, append(excluded, "ref-track-stss-empty")
		}
	}
	if c.avoid("zero-duration-sample-starts-at-cut-time") && zeroDurAtQueryTime(c) {
		return true, append(excluded, "zero-duration-sample-starts-at-cut-time")
	}
	if c.avoid("track-keeps-no-sample") {
		ex := expect(c)
		for _, k := range ex.K {
			if k == 0 {
				return true, append(excluded, "track-keeps-no-sample")
			}
		}
	}
	return false, excluded
}

// zeroDurAtQueryTime reports whether one of the times the tool looks up in an stts (the request on the
// reference track; the end time, converted, on every track) is the start time of a zero-duration sample
// that is not the last sample of its track.
func zeroDurAtQueryTime(c *cropCase) bool {
	ex := expect(c)
	refTs := uint64(c.Tracks[ex.Ref].Timescale)
	for ti, tr := range c.Tracks {
		var times []uint64
		if ti == ex.Ref {
			times = append(times, ex.Request)
		}
		if ex.Defined {
			times = append(times, ex.End*uint64(tr.Timescale)/refTs)
		}
		var st uint64
		for i, s := range tr.Samples {
			if s.Dur == 0 && i < len(tr.Samples)-1 {
				for _, t := range times {
					if t == st {
						return true
					}
				}
			}
			st += uint64(s.Dur)
		}
	}
	return false
}

const batchSize = 16

func TestCrop(t *testing.T) {
	needBin(t, "mp4ff-crop")
	defer cleanupTmp()
	harness.RunRapid(t, "crop", func(rt *rapid.T) {
		// a batch of independent cases is drawn, run concurrently and judged in index order
		cases := make([]cropCase, 0, batchSize)
		for len(cases) < batchSize {
			c := genCrop(rt)
			skip, excluded := applyAvoid(&c)
			for _, name := range excluded {
				harness.Rec.Exclude(name)
			}
			if skip {
				// counts as a drawn case of the batch, so that a batch always ends
				cases = append(cases, cropCase{})
				continue
			}
			cases = append(cases, c)
		}
		fails := make([]*harness.Fail, len(cases))
		infos := make([]evalInfo, len(cases))
		parallel(len(cases), func(i int) {
			if cases[i].Tracks == nil {
				return
			}
			fails[i] = harness.Guarded(func() *harness.Fail {
				f, info := evalCrop(&cases[i])
				infos[i] = info
				return f
			})
		})
		for i := range cases {
			if cases[i].Tracks == nil {
				continue
			}
			raw, _ := json.Marshal(cases[i])
			harness.Rec.Case(infos[i].nontrivial, raw, infos[i].classes...)
			for _, name := range infos[i].excluded {
				harness.Rec.Exclude(name)
			}
			if infos[i].nontrivial && harness.Rec.WantSample() {
				harness.Rec.Sample(map[string]interface{}{"kind": "crop", "case": cases[i]})
			}
		}
		for i := range cases {
			if fails[i] != nil {
				harness.Report(rt, "crop", cases[i], fails[i])
			}
		}
	})
}
