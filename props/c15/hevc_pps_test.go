// C15, HEVC half: PPS oracle — hevc.ParsePPSNALUnit(data, spsMap) returns the coded values; several SPSs
// with distinct ids are in the map, pps id != sps id.
package c15

import (
	"encoding/json"
	"fmt"
	"testing"

	"github.com/Eyevinn/mp4ff/hevc"
	"pgregory.net/rapid"

	"verif/internal/esgen"
	"verif/internal/harness"
	"verif/internal/nalgen"
)

type hevcPPSCase struct {
	SPS           []nalgen.HEVCSPSTree `json:"sps"`
	PPS           nalgen.HEVCPPSTree   `json:"pps"`
	RelaxInterRPS bool                 `json:"relax_inter_rps,omitempty"`
	Hex           string               `json:"hex,omitempty"`
}

// hevcParseSPSs serialises and parses the SPS trees (each is checked against its tree) and returns the map
// keyed by sps_seq_parameter_set_id.
func hevcParseSPSs(trees []nalgen.HEVCSPSTree, relax bool) (map[uint32]*hevc.SPS, *harness.Fail) {
	m := map[uint32]*hevc.SPS{}
	for i := range trees {
		nal, _ := nalgen.HEVCWriteSPS(&trees[i])
		got, err := hevc.ParseSPSNALUnit(nal)
		if err != nil {
			return nil, harness.Failf("C15|hevc.ParseSPSNALUnit|error on a valid SPS", "ParseSPSNALUnit: %v (SPS NAL %x)", err, nal)
		}
		if f := hevcCompareSPS(&trees[i], got, relax, fmt.Sprintf("SPS NAL %x", nal)); f != nil {
			return nil, f
		}
		m[uint32(got.SpsID)] = got
	}
	return m, nil
}

func hevcComparePPS(tr *nalgen.HEVCPPSTree, got *hevc.PPS, ctx string) *harness.Fail {
	if p, w, g := hevcDiff(&tr.PPS, got, nil); p != "" {
		return hevcFieldFail("PPS", p, w, g, ctx)
	}
	return nil
}

func hevcCheckPPS(c hevcPPSCase) *harness.Fail {
	spsMap, f := hevcParseSPSs(c.SPS, c.RelaxInterRPS)
	if f != nil {
		return f
	}
	nal, _ := nalgen.HEVCWritePPS(&c.PPS)
	ctx := fmt.Sprintf("PPS NAL %x", nal)
	got, err := hevc.ParsePPSNALUnit(nal, spsMap)
	if err != nil {
		return harness.Failf("C15|hevc.ParsePPSNALUnit|error on a valid PPS", "ParsePPSNALUnit: %v (%s)", err, ctx)
	}
	return hevcComparePPS(&c.PPS, got, ctx)
}

func TestHEVCPPS(t *testing.T) {
	harness.RunRapid(t, "pps", func(rt *rapid.T) {
		// pps id: often the id of ANOTHER SPS in the map (a parser that confuses the two ids picks the wrong SPS)
		spss, pps, _ := esgen.HEVCGenPPSSet(rt)
		var ptrs []*nalgen.HEVCSPSTree
		for i := range spss {
			ptrs = append(ptrs, &spss[i])
		}
		c := hevcPPSCase{SPS: spss, PPS: *pps, RelaxInterRPS: hevcRelaxFor(ptrs...)}
		classes := esgen.HEVCPPSClasses(pps)
		raw, _ := json.Marshal(c)
		harness.Rec.Case(esgen.HEVCNontrivial(classes, "hevc-pps-id-differs-from-sps-id"), raw, classes...)
		if harness.Rec.WantSample() {
			nal, _ := nalgen.HEVCWritePPS(pps)
			c.Hex = fmt.Sprintf("%x", nal)
			harness.Rec.Sample(map[string]interface{}{"kind": "hevcpps", "case": c})
		}
		f := harness.Guarded(func() *harness.Fail { return hevcCheckPPS(c) })
		harness.Report(rt, "hevcpps", c, f)
	})
}
