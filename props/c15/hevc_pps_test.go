// C15, HEVC half: PPS oracle — hevc.ParsePPSNALUnit(data, spsMap) returns the coded values; several SPSs
// with distinct ids are in the map, pps id != sps id.
package c15

import (
	"encoding/json"
	"fmt"
	"testing"

	"github.com/Eyevinn/mp4ff/hevc"
	"pgregory.net/rapid"

	"verif/internal/harness"
	"verif/internal/nalgen"
)

type hevcPPSCase struct {
	SPS           []nalgen.HEVCSPSTree `json:"sps"`
	PPS           nalgen.HEVCPPSTree   `json:"pps"`
	RelaxInterRPS bool                 `json:"relax_inter_rps,omitempty"`
	Hex           string               `json:"hex,omitempty"`
}

// hevcParseSPSs serialises and parses the SPS trees (each is checked against its tree) and returns the map
// keyed by sps_seq_parameter_set_id.
func hevcParseSPSs(trees []nalgen.HEVCSPSTree, relax bool) (map[uint32]*hevc.SPS, *harness.Fail) {
	m := map[uint32]*hevc.SPS{}
	for i := range trees {
		nal, _ := nalgen.HEVCWriteSPS(&trees[i])
		got, err := hevc.ParseSPSNALUnit(nal)
		if err != nil {
			return nil, harness.Failf("C15|hevc.ParseSPSNALUnit|error on a valid SPS", "ParseSPSNALUnit: %v (SPS NAL %x)", err, nal)
		}
		if f := hevcCompareSPS(&trees[i], got, relax, fmt.Sprintf("SPS NAL %x", nal)); f != nil {
			return nil, f
		}
		m[uint32(got.SpsID)] = got
	}
	return m, nil
}

func hevcComparePPS(tr *nalgen.HEVCPPSTree, got *hevc.PPS, ctx string) *harness.Fail {
	if p, w, g := hevcDiff(&tr.PPS, got, nil); p != "" {
		return hevcFieldFail("PPS", p, w, g, ctx)
	}
	return nil
}

func hevcCheckPPS(c hevcPPSCase) *harness.Fail {
	spsMap, f := hevcParseSPSs(c.SPS, c.RelaxInterRPS)
	if f != nil {
		return f
	}
	nal, _ := nalgen.HEVCWritePPS(&c.PPS)
	ctx := fmt.Sprintf("PPS NAL %x", nal)
	got, err := hevc.ParsePPSNALUnit(nal, spsMap)
	if err != nil {
		return harness.Failf("C15|hevc.ParsePPSNALUnit|error on a valid PPS", "ParsePPSNALUnit: %v (%s)", err, ctx)
	}
	return hevcComparePPS(&c.PPS, got, ctx)
}

// hevcDistinct draws n distinct values from 0..max.
func hevcDistinct(t *rapid.T, n, max int, l string) []int {
	seen := map[int]bool{}
	var out []int
	for len(out) < n {
		v := int(hevcInt(t, 0, int64(max), l))
		for seen[v] {
			v = (v + 1) % (max + 1)
		}
		seen[v] = true
		out = append(out, v)
	}
	return out
}

// hevcGenSPSSet draws n lean SPS trees with distinct ids that differ in the fields a slice header depends on.
func hevcGenSPSSet(t *rapid.T, n int, maxDim int) []nalgen.HEVCSPSTree {
	ids := hevcDistinct(t, n, 15, "spsid")
	poc0 := rapid.IntRange(0, 12).Draw(t, "poc0")
	sao0 := rapid.IntRange(0, 1).Draw(t, "sao0")
	var out []nalgen.HEVCSPSTree
	for i := 0; i < n; i++ {
		o := hevcSPSOpts{ID: ids[i], Lean: true, Log2Poc: (poc0 + 5*i) % 13, SAO: (sao0 + i) % 2, MaxDim: maxDim}
		out = append(out, *hevcGenSPS(t, o, fmt.Sprintf("s%d", i)))
	}
	return out
}

func TestHEVCPPS(t *testing.T) {
	harness.RunRapid(t, "pps", func(rt *rapid.T) {
		nSPS := rapid.IntRange(1, 3).Draw(rt, "nsps")
		spss := hevcGenSPSSet(rt, nSPS, 16888)
		ref := rapid.IntRange(0, nSPS-1).Draw(rt, "ref")
		// pps id: often the id of ANOTHER SPS in the map (a parser that confuses the two ids picks the wrong SPS)
		id := -1
		if nSPS > 1 && hevcPct(rt, 50, "idtrap") {
			id = int(spss[(ref+1)%nSPS].SPS.SpsID)
		}
		pps := hevcGenPPS(rt, &spss[ref], id, "p")
		var ptrs []*nalgen.HEVCSPSTree
		for i := range spss {
			ptrs = append(ptrs, &spss[i])
		}
		c := hevcPPSCase{SPS: spss, PPS: *pps, RelaxInterRPS: hevcRelaxFor(ptrs...)}
		classes := hevcPPSClasses(pps)
		raw, _ := json.Marshal(c)
		harness.Rec.Case(hevcNontrivial(classes, "hevc-pps-id-differs-from-sps-id"), raw, classes...)
		if harness.Rec.WantSample() {
			nal, _ := nalgen.HEVCWritePPS(pps)
			c.Hex = fmt.Sprintf("%x", nal)
			harness.Rec.Sample(map[string]interface{}{"kind": "hevcpps", "case": c})
		}
		f := harness.Guarded(func() *harness.Fail { return hevcCheckPPS(c) })
		harness.Report(rt, "hevcpps", c, f)
	})
}
