// C15, HEVC half: PPS oracle — hevc.ParsePPSNALUnit(data, spsMap) returns the coded values; several SPSs
// with distinct ids are in the map, pps id != sps id.
package c15

import (
	"encoding/json"
	"fmt"
	"os"
	"sort"
	"testing"

	"github.com/Eyevinn/mp4ff/hevc"
	"pgregory.net/rapid"

	"verif/internal/esgen"
	"verif/internal/harness"
	"verif/internal/nalgen"
)

type hevcPPSCase struct {
	SPS           []nalgen.HEVCSPSTree `json:"sps"`
	PPS           nalgen.HEVCPPSTree   `json:"pps"`
	RelaxInterRPS bool                 `json:"relax_inter_rps,omitempty"`
	Hex           string               `json:"hex,omitempty"`
}

// hevcParseSPSs serialises and parses the SPS trees (each is checked against its tree) and returns the map
// keyed by sps_seq_parameter_set_id.
func hevcParseSPSs(trees []nalgen.HEVCSPSTree, relax bool) (map[uint32]*hevc.SPS, *harness.Fail) {
	m := map[uint32]*hevc.SPS{}
	for i := range trees {
		nal, _ := nalgen.HEVCWriteSPS(&trees[i])
		got, err := hevc.ParseSPSNALUnit(nal)
		if err != nil {
			return nil, harness.Failf("C15|hevc.ParseSPSNALUnit|error on a valid SPS", "ParseSPSNALUnit: %v (SPS NAL %x)", err, nal)
		}
		if f := hevcCompareSPS(&trees[i], got, relax, fmt.Sprintf("SPS NAL %x", nal)); f != nil {
			return nil, f
		}
		m[uint32(got.SpsID)] = got
	}
	return m, nil
}

// kfCmOctantsLost parks a finding on the unchanged library (see /verif/out/hevcext-findings.md): hevc.parseColourMappingOctants
// assigns the result of every recursive call to the same variable, so for split_octant_flag = 1 the map it returns
// holds the leaves of the LAST sub-octant only; the res_coeff values coded for the other seven sub-octants are
// parsed (the bit position stays right) and dropped. While the switch is on, a colour mapping table with a coded
// split is compared like this: every entry the parser returns must be an entry that was coded under that key with
// those values (so a wrong key or value is still found), but entries that are missing are not demanded. Each such
// case is counted as an exclusion. C15_HEVC_CM_OCTANTS_STRICT=1 switches it off (the finding then shows up within a
// few hundred PPS cases).
var kfCmOctantsLost = os.Getenv("C15_HEVC_CM_OCTANTS_PARKED") != "" // repaired in /repo (fix: hevc colour mapping octants); set to re-park on an old tree

const kfCmOctantsLostKey = "C15|hevc.PPS.MultilayerExtension.ColourMappingTable.Octants|entries of all but the last sub-octant missing"

// hevcExpectedPPS is the struct the parser has to return for the tree: the coded values; the flattened colour
// mapping octants are derived here from the coded octant tree (not taken from the generator).
func hevcExpectedPPS(tr *nalgen.HEVCPPSTree) hevc.PPS {
	want := tr.PPS
	if m := want.MultilayerExtension; m != nil && m.ColourMappingTable != nil && tr.CmOctants != nil {
		mc, cm := *m, *m.ColourMappingTable
		cm.Octants = nalgen.HEVCCmOctantMap(&cm, tr.CmOctants)
		mc.ColourMappingTable = &cm
		want.MultilayerExtension = &mc
	}
	return want
}

func hevcComparePPS(tr *nalgen.HEVCPPSTree, got *hevc.PPS, ctx string) *harness.Fail {
	want := hevcExpectedPPS(tr)
	var o *hevcDiffOpts
	const octPath = "MultilayerExtension.ColourMappingTable.Octants"
	parked := false
	if m := want.MultilayerExtension; kfCmOctantsLost && m != nil && m.ColourMappingTable != nil &&
		nalgen.HEVCCmOctantHasSplit(m.ColourMappingTable, tr.CmOctants) {
		parked = true
		o = &hevcDiffOpts{Skip: map[string]bool{octPath: true}}
	}
	if p, w, g := hevcDiff(&want, got, o); p != "" {
		return hevcFieldFail("PPS", p, w, g, ctx)
	}
	if parked {
		harness.Rec.Exclude(kfCmOctantsLostKey)
		wantOct := want.MultilayerExtension.ColourMappingTable.Octants
		gotOct := got.MultilayerExtension.ColourMappingTable.Octants // both pointers non-nil: the diff above passed
		keys := make([]string, 0, len(gotOct))
		for k := range gotOct {
			keys = append(keys, k)
		}
		sort.Strings(keys)
		if len(keys) == 0 {
			return hevcFieldFail("PPS", octPath+".len", fmt.Sprint(len(wantOct)), "0", ctx)
		}
		for _, k := range keys {
			q := fmt.Sprintf("%s{%s}", octPath, k)
			wv, ok := wantOct[k]
			if !ok {
				return hevcFieldFail("PPS", q, "missing", "present", ctx)
			}
			if p, w, g := hevcDiffValueTop(q, wv, gotOct[k]); p != "" {
				return hevcFieldFail("PPS", p, w, g, ctx)
			}
		}
	}
	return nil
}

func hevcCheckPPS(c hevcPPSCase) *harness.Fail {
	spsMap, f := hevcParseSPSs(c.SPS, c.RelaxInterRPS)
	if f != nil {
		return f
	}
	nal, _ := nalgen.HEVCWritePPS(&c.PPS)
	ctx := fmt.Sprintf("PPS NAL %x", nal)
	got, err := hevc.ParsePPSNALUnit(nal, spsMap)
	if err != nil {
		return harness.Failf("C15|hevc.ParsePPSNALUnit|error on a valid PPS", "ParsePPSNALUnit: %v (%s)", err, ctx)
	}
	return hevcComparePPS(&c.PPS, got, ctx)
}

func TestHEVCPPS(t *testing.T) {
	harness.RunRapid(t, "pps", func(rt *rapid.T) {
		// pps id: often the id of ANOTHER SPS in the map (a parser that confuses the two ids picks the wrong SPS)
		spss, pps, _ := esgen.HEVCGenPPSSet(rt)
		var ptrs []*nalgen.HEVCSPSTree
		for i := range spss {
			ptrs = append(ptrs, &spss[i])
		}
		c := hevcPPSCase{SPS: spss, PPS: *pps, RelaxInterRPS: hevcRelaxFor(ptrs...)}
		classes := esgen.HEVCPPSClasses(pps)
		raw, _ := json.Marshal(c)
		harness.Rec.Case(esgen.HEVCNontrivial(classes, "hevc-pps-id-differs-from-sps-id"), raw, classes...)
		if harness.Rec.WantSample() {
			nal, _ := nalgen.HEVCWritePPS(pps)
			c.Hex = fmt.Sprintf("%x", nal)
			harness.Rec.Sample(map[string]interface{}{"kind": "hevcpps", "case": c})
		}
		f := harness.Guarded(func() *harness.Fail { return hevcCheckPPS(c) })
		harness.Report(rt, "hevcpps", c, f)
	})
}
