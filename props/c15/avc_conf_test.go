// C15, AVC configuration record / codec string / sample entry built from generated parameter sets.
package c15

import (
	"bytes"
	"encoding/json"
	"fmt"
	"testing"

	"github.com/Eyevinn/mp4ff/avc"
	"github.com/Eyevinn/mp4ff/mp4"
	"pgregory.net/rapid"

	"verif/internal/esgen"
	"verif/internal/harness"
	"verif/internal/nalgen"
)

type avcConfCase struct {
	SPS         []nalgen.AVCSPSTree `json:"sps"` // SPS[0] determines the record's profile etc.
	PPS         []nalgen.AVCPPSTree `json:"pps"`
	IncludePS   bool                `json:"include_ps"`
	SampleEntry string              `json:"sample_entry"` // avc1 | avc3
	// EncodeBoxes: also encode the avcC box and the init segment made by SetAVCDescriptor, decode, compare again.
	EncodeBoxes bool `json:"encode_boxes"`
}

// avcRefDecConfRec serialises AVCDecoderConfigurationRecord (ISO/IEC 14496-15 5.3.3.1.2) with lengthSizeMinusOne=3.
// ext: whether chroma_format / bit depths / numOfSequenceParameterSetExt(=0) follow.
func avcRefDecConfRec(profile, compat, level byte, sps, pps [][]byte, ext bool, chroma, bdl, bdc byte) []byte {
	b := []byte{1, profile, compat, level, 0xfc | 3, 0xe0 | byte(len(sps))}
	for _, n := range sps {
		b = append(b, byte(len(n)>>8), byte(len(n)))
		b = append(b, n...)
	}
	b = append(b, byte(len(pps)))
	for _, n := range pps {
		b = append(b, byte(len(n)>>8), byte(len(n)))
		b = append(b, n...)
	}
	if ext {
		b = append(b, 0xfc|chroma, 0xf8|bdl, 0xf8|bdc, 0)
	}
	return b
}

func avcEqualNalus(a, b [][]byte) bool {
	if len(a) != len(b) {
		return false
	}
	for i := range a {
		if !bytes.Equal(a[i], b[i]) {
			return false
		}
	}
	return true
}

func avcCheckRec(what string, r *avc.DecConfRec, s *avc.SPS, sps, pps [][]byte, includePS bool) *harness.Fail {
	if uint32(r.AVCProfileIndication) != s.Profile {
		return harness.Failf("C15|avc.DecConfRec.AVCProfileIndication|differs from SPS", "%s: %d, SPS profile_idc %d", what, r.AVCProfileIndication, s.Profile)
	}
	if uint32(r.ProfileCompatibility) != s.ProfileCompatibility {
		return harness.Failf("C15|avc.DecConfRec.ProfileCompatibility|differs from SPS", "%s: %#x, SPS constraint flags byte %#x", what, r.ProfileCompatibility, s.ProfileCompatibility)
	}
	if uint32(r.AVCLevelIndication) != s.Level {
		return harness.Failf("C15|avc.DecConfRec.AVCLevelIndication|differs from SPS", "%s: %d, SPS level_idc %d", what, r.AVCLevelIndication, s.Level)
	}
	wantS, wantP := sps, pps
	if !includePS {
		wantS, wantP = nil, nil
	}
	if !avcEqualNalus(r.SPSnalus, wantS) {
		return harness.Failf("C15|avc.DecConfRec.SPSnalus|not verbatim", "%s: %x, want %x", what, r.SPSnalus, wantS)
	}
	if !avcEqualNalus(r.PPSnalus, wantP) {
		return harness.Failf("C15|avc.DecConfRec.PPSnalus|not verbatim", "%s: %x, want %x", what, r.PPSnalus, wantP)
	}
	return nil
}

// avcCheckRecChroma: chroma format and bit depths (the record fields named ...Minus1 hold bit_depth_*_minus8).
func avcCheckRecChroma(what string, r *avc.DecConfRec, s *avc.SPS) *harness.Fail {
	cf := esgen.AVCChromaFormatIDC(s)
	if r.ChromaFormat != cf {
		return harness.Failf("C15|avc.DecConfRec.ChromaFormat|differs from SPS", "%s: chroma_format %d, SPS chroma_format_idc %d (profile %d)", what, r.ChromaFormat, cf, s.Profile)
	}
	if uint(r.BitDepthLumaMinus1) != s.BitDepthLumaMinus8 {
		return harness.Failf("C15|avc.DecConfRec.BitDepthLuma|differs from SPS", "%s: bit_depth_luma_minus8 %d, SPS %d (profile %d)", what, r.BitDepthLumaMinus1, s.BitDepthLumaMinus8, s.Profile)
	}
	if uint(r.BitDepthChromaMinus1) != s.BitDepthChromaMinus8 {
		return harness.Failf("C15|avc.DecConfRec.BitDepthChroma|differs from SPS", "%s: bit_depth_chroma_minus8 %d, SPS %d (profile %d)", what, r.BitDepthChromaMinus1, s.BitDepthChromaMinus8, s.Profile)
	}
	return nil
}

func checkAVCConf(c avcConfCase) *harness.Fail {
	if len(c.SPS) == 0 {
		return harness.Failf("harness|bad-case", "no SPS")
	}
	_, _, spsN, ppsN, f := avcParseSets(c.SPS, c.PPS)
	if f != nil {
		return f
	}
	s := &c.SPS[0].S
	wantW, wantH := nalgen.AVCDisplaySize(&c.SPS[0])
	// profiles for which the record carries chroma_format, bit_depth_luma_minus8, bit_depth_chroma_minus8 and
	// numOfSequenceParameterSetExt behind the parameter sets: 100, 110, 122 and 144 in every edition of
	// 14496-15 (5.3.3.1.2), 244 since the condition became "not 66, 77, 88"; for these the reference record
	// writes the four bytes and every encode/decode step is compared with the SPS values. (The library has no
	// input for SPS extension NAL units: numOfSequenceParameterSetExt is 0 in the reference.)
	extSure := s.Profile == 100 || s.Profile == 110 || s.Profile == 122 || s.Profile == 144 || s.Profile == 244
	// profiles for which the record (per the library's Size and per the newer editions) has those fields
	extStruct := s.Profile != 66 && s.Profile != 77 && s.Profile != 88

	// 1. CreateAVCDecConfRec
	rec, err := avc.CreateAVCDecConfRec(spsN, ppsN, c.IncludePS)
	if err != nil {
		return harness.Failf("C15|avc.CreateAVCDecConfRec|error on valid parameter sets", "%v (sps %x)", err, spsN[0])
	}
	if f := avcCheckRec("CreateAVCDecConfRec", rec, s, spsN, ppsN, c.IncludePS); f != nil {
		return f
	}
	if extStruct {
		if f := avcCheckRecChroma("CreateAVCDecConfRec", rec, s); f != nil {
			return f
		}
	}
	// 2. Encode against an independent serialisation; Decode gives the same values back
	var buf bytes.Buffer
	if err := rec.Encode(&buf); err != nil {
		return harness.Failf("C15|avc.DecConfRec.Encode|error", "%v", err)
	}
	var recS, recP [][]byte
	if c.IncludePS {
		recS, recP = spsN, ppsN
	}
	ref := avcRefDecConfRec(byte(s.Profile), byte(s.ProfileCompatibility), byte(s.Level), recS, recP, extSure,
		esgen.AVCChromaFormatIDC(s), byte(s.BitDepthLumaMinus8), byte(s.BitDepthChromaMinus8))
	enc := buf.Bytes()
	cmp := enc
	if !extSure && len(cmp) > len(ref) {
		cmp = cmp[:len(ref)] // whether/what follows for other profiles is the business of C01/C02
	}
	if !bytes.Equal(cmp, ref) {
		return harness.Failf("C15|avc.DecConfRec.Encode|bytes differ from reference record", "encoded %x, reference %x", enc, ref)
	}
	dec, err := avc.DecodeAVCDecConfRec(enc)
	if err != nil {
		return harness.Failf("C15|avc.DecodeAVCDecConfRec|error on encoded record", "%v (%x)", err, enc)
	}
	if f := avcCheckRec("Decode(Encode(CreateAVCDecConfRec))", &dec, s, spsN, ppsN, c.IncludePS); f != nil {
		return f
	}
	if extSure {
		if f := avcCheckRecChroma("Decode(Encode(CreateAVCDecConfRec))", &dec, s); f != nil {
			return f
		}
	}
	// 3. codec string (14496-15 Annex E / RFC 6381: avc1.PPCCLL)
	parsed, err := avc.ParseSPSNALUnit(spsN[0], true)
	if err != nil {
		return harness.Failf("C15|avc.ParseSPSNALUnit|error on valid SPS", "%v", err)
	}
	const hexd = "0123456789ABCDEF"
	wantCodec := c.SampleEntry + "."
	for _, b := range []byte{byte(s.Profile), byte(s.ProfileCompatibility), byte(s.Level)} {
		wantCodec += string([]byte{hexd[b>>4], hexd[b&15]})
	}
	if got := avc.CodecString(c.SampleEntry, parsed); got != wantCodec {
		return harness.Failf("C15|avc.CodecString|differs from PPCCLL", "got %q, want %q", got, wantCodec)
	}
	// 4. CreateAvcC
	avcC, err := mp4.CreateAvcC(spsN, ppsN, c.IncludePS)
	if err != nil {
		return harness.Failf("C15|mp4.CreateAvcC|error on valid parameter sets", "%v", err)
	}
	if f := avcCheckRec("CreateAvcC", &avcC.DecConfRec, s, spsN, ppsN, c.IncludePS); f != nil {
		return f
	}
	if extStruct {
		if f := avcCheckRecChroma("CreateAvcC", &avcC.DecConfRec, s); f != nil {
			return f
		}
	}
	buf.Reset()
	if err := avcC.Encode(&buf); err != nil {
		return harness.Failf("C15|mp4.AvcCBox.Encode|error", "%v", err)
	}
	box := buf.Bytes()
	if c.EncodeBoxes {
		// size field == length; payload == reference record; for the profiles where the editions of 14496-15 differ
		// about the four trailing bytes, they are either absent or hold the SPS values
		ok := len(box) >= 8+len(ref) && string(box[4:8]) == "avcC" && bytes.Equal(box[8:8+len(ref)], ref) &&
			int(box[0])<<24|int(box[1])<<16|int(box[2])<<8|int(box[3]) == len(box)
		if ok && len(box) != 8+len(ref) {
			full := avcRefDecConfRec(byte(s.Profile), byte(s.ProfileCompatibility), byte(s.Level), recS, recP, true,
				esgen.AVCChromaFormatIDC(s), byte(s.BitDepthLumaMinus8), byte(s.BitDepthChromaMinus8))
			ok = !extSure && extStruct && bytes.Equal(box[8:], full)
		}
		if !ok {
			return harness.Failf("C15|mp4.AvcCBox.Encode|bytes differ from reference box", "encoded %x, reference payload %x", box, ref)
		}
	}
	// 5. SetAVCDescriptor
	if c.SampleEntry == "avc1" && !c.IncludePS {
		return nil // rejected by contract (avc1 carries the parameter sets)
	}
	init := mp4.CreateEmptyInit()
	init.AddEmptyTrack(90000, "video", "und")
	trak := init.Moov.Trak
	if err := trak.SetAVCDescriptor(c.SampleEntry, spsN, ppsN, c.IncludePS); err != nil {
		return harness.Failf("C15|mp4.SetAVCDescriptor|error on valid parameter sets", "%v", err)
	}
	chk := func(what string, trak *mp4.TrakBox, chroma bool) *harness.Fail {
		vse := trak.Mdia.Minf.Stbl.Stsd.AvcX
		if vse == nil || vse.AvcC == nil {
			return harness.Failf("C15|mp4.SetAVCDescriptor|no sample entry", "%s: stsd has no avc sample entry with avcC", what)
		}
		if vse.Type() != c.SampleEntry {
			return harness.Failf("C15|mp4.SetAVCDescriptor|sample entry type", "%s: %s, want %s", what, vse.Type(), c.SampleEntry)
		}
		if uint(vse.Width) != wantW || uint(vse.Height) != wantH {
			return harness.Failf("C15|mp4.VisualSampleEntry.WidthHeight|differs from SPS-derived size", "%s: %dx%d, cropping formula gives %dx%d (sps %x)", what, vse.Width, vse.Height, wantW, wantH, spsN[0])
		}
		if uint64(trak.Tkhd.Width) != uint64(wantW)<<16 || uint64(trak.Tkhd.Height) != uint64(wantH)<<16 {
			return harness.Failf("C15|mp4.Tkhd.WidthHeight|differs from SPS-derived size", "%s: %#x x %#x, want 16.16 of %dx%d", what, trak.Tkhd.Width, trak.Tkhd.Height, wantW, wantH)
		}
		if f := avcCheckRec(what, &vse.AvcC.DecConfRec, s, spsN, ppsN, c.IncludePS); f != nil {
			return f
		}
		if chroma {
			return avcCheckRecChroma(what, &vse.AvcC.DecConfRec, s)
		}
		return nil
	}
	if f := chk("SetAVCDescriptor", trak, extStruct); f != nil {
		return f
	}
	if !c.EncodeBoxes {
		return nil
	}
	buf.Reset()
	if err := init.Encode(&buf); err != nil {
		return harness.Failf("C15|mp4.InitSegment.Encode|error", "%v", err)
	}
	file, err := mp4.DecodeFile(bytes.NewReader(buf.Bytes()))
	if err != nil {
		return harness.Failf("C15|mp4.DecodeFile|error on init segment with generated parameter sets", "%v", err)
	}
	if file.Init == nil || file.Init.Moov == nil || file.Init.Moov.Trak == nil {
		return harness.Failf("C15|mp4.DecodeFile|no init", "decoded init segment has no trak")
	}
	return chk("DecodeFile(Encode(SetAVCDescriptor))", file.Init.Moov.Trak, extSure)
}

// confCountBucket: 0..3 exactly, then the ranges that matter for the two count fields (5 and 8 bits).
func confCountBucket(n int) string {
	switch {
	case n <= 3:
		return fmt.Sprint(n)
	case n <= 31:
		return "4..31"
	default:
		return "32..255"
	}
}

func TestAVCConf(t *testing.T) {
	harness.RunRapid(t, "conf", func(rt *rapid.T) {
		var c avcConfCase
		c.SPS, c.PPS = esgen.GenAVCConfSetsOpt(rt, esgen.AVCConfProfiles)
		nSPS, nPPS := len(c.SPS), len(c.PPS)
		c.IncludePS = esgen.AVCChance(rt, 3, 4, "includePS")
		c.SampleEntry = rapid.SampledFrom([]string{"avc1", "avc3"}).Draw(rt, "sample-entry")
		p0 := c.SPS[0].S.Profile
		c.EncodeBoxes = !esgen.AVCAvoid("avc-conf-avcc-size-encode-mismatch", p0 != 66 && p0 != 77 && p0 != 88 && p0 != 100 && p0 != 110 && p0 != 122 && p0 != 144)
		cl := esgen.AVCSPSClasses(&c.SPS[0])
		cl = append(cl, fmt.Sprintf("avc-conf-%s-ps%v", c.SampleEntry, c.IncludePS), fmt.Sprintf("avc-conf-nsps%s-npps%s", confCountBucket(nSPS), confCountBucket(nPPS)))
		switch p0 {
		case 66, 77, 88:
			cl = append(cl, "avc-conf-record-without-ext-fields")
		case 100, 110, 122, 144, 244:
			// the four trailing bytes are compared byte by byte and after every decode
			cl = append(cl, "avc-conf-record-ext-fields-compared", fmt.Sprintf("avc-conf-record-ext-fields-profile-%d", p0))
			s0 := &c.SPS[0].S
			if esgen.AVCChromaFormatIDC(s0) != 1 || s0.BitDepthLumaMinus8 != 0 || s0.BitDepthChromaMinus8 != 0 {
				cl = append(cl, "avc-conf-record-ext-fields-not-420-8bit")
			}
		default:
			cl = append(cl, "avc-conf-record-ext-fields-edition-dependent")
		}
		raw, _ := json.Marshal(c)
		harness.Rec.Case(esgen.AVCNontrivial(cl, "avc-sps-profile-", "avc-sps-poc0", "avc-sps-baseline-main-extended", "avc-conf-avc1-pstrue", "avc-conf-nsps1-npps1", "avc-conf-record-without-ext-fields"), raw, cl...)
		if harness.Rec.WantSample() {
			harness.Rec.Sample(map[string]interface{}{"kind": "avcconf", "case": c})
		}
		f := harness.Guarded(func() *harness.Fail { return checkAVCConf(c) })
		avcReplayConsistent(rt, raw, f, harness.Replayer(checkAVCConf))
		harness.Report(rt, "avcconf", c, f)
	})
}
