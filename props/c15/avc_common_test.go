// C15, AVC half: shared pieces (known-defect switches, boundary-heavy draws, field-by-field diff).
package c15

import (
	"encoding/json"
	"fmt"
	"os"
	"reflect"
	"strings"

	"pgregory.net/rapid"

	"verif/internal/harness"
)

func init() {
	harness.RegisterReplay("avcsps", harness.Replayer(checkAVCSPS))
	harness.RegisterReplay("avcpps", harness.Replayer(checkAVCPPS))
	harness.RegisterReplay("avcslice", harness.Replayer(checkAVCSlice))
	harness.RegisterReplay("avcconf", harness.Replayer(checkAVCConf))
	// VERIF_C15_AVC_UNAVOID=name[,name...]|all turns known-defect avoidance switches off for one run
	// (to confirm that a defect is still there, or that it is gone after a repair).
	if v := os.Getenv("VERIF_C15_AVC_UNAVOID"); v != "" {
		for _, n := range strings.Split(v, ",") {
			if n == "all" {
				for k := range avcAvoidKnown {
					avcAvoidKnown[k] = false
				}
			} else if _, ok := avcAvoidKnown[n]; ok {
				avcAvoidKnown[n] = false
			} else {
				fmt.Fprintf(os.Stderr, "VERIF_C15_AVC_UNAVOID: unknown switch %q\n", n)
				os.Exit(2)
			}
		}
	}
}

// avcAvoidKnown: each entry names a defect of the unchanged library that was confirmed by decoding the
// bits by hand (see the reproducer under /verif/replay/C15/kf-<name>.json). While a switch is true the
// generators do not produce the feature that triggers the defect (every avoided draw is counted with
// harness.Rec.Exclude(name)); the oracles are never weakened. Set a switch to false (after the library
// has been repaired) and the corresponding check finds the defect within a few hundred cases.
var avcAvoidKnown = map[string]bool{
	// avc/sps.go reads offset_for_non_ref_pic, offset_for_top_to_bottom_field and offset_for_ref_frame[i]
	// (all se(v), 7.3.2.1.1) with ReadExpGolomb into uint fields: the caller gets the ue code number
	// (value k>0 -> 2k-1, k<=0 -> -2k). Only the values 0 and 1 survive. Avoidance: offsets in {0,1}.
	"avc-sps-poc1-offsets-unsigned": true,
	// avc/sps.go parseVUI: aspect_ratio_idc 0 ("Unspecified", a legal value of Table E-1) makes
	// GetSARfromIDC fail and ParseSPSNALUnit return an error for a valid SPS. Avoidance: idc in 1..16, 255.
	"avc-sps-aspect-ratio-idc0": false, // repaired in /repo (fix: commit), see known_findings.json
	// avc/pps.go slice_group_map_type 2: the loop over top_left/bottom_right runs iGroup <= num_slice_groups_minus1,
	// the standard (7.3.2.2) codes iGroup < num_slice_groups_minus1 pairs: one pair too many is read and
	// everything after it is shifted. Avoidance: map type 2 not generated.
	"avc-pps-slicegroup-type2-extra-pair": false, // repaired in /repo (fix: commit), see known_findings.json
	// avc/pps.go slice_group_map_type 6: pic_size_in_map_units_minus1 ue(v) is not read at all and
	// num_slice_groups_minus1+1 slice_group_id values are read instead of pic_size_in_map_units_minus1+1.
	// Avoidance: map type 6 not generated.
	"avc-pps-slicegroup-type6": false, // repaired in /repo (fix: commit), see known_findings.json
	// avc/pps.go: with pic_scaling_matrix_present_flag=1 and transform_8x8_mode_flag=0 the six 4x4 lists
	// (6 + ((chroma_format_idc != 3) ? 2 : 6) * transform_8x8_mode_flag) are not read.
	// Avoidance: the scaling matrix is only generated together with transform_8x8_mode_flag=1.
	"avc-pps-scalinglists-without-8x8": false, // repaired in /repo (fix: commit), see known_findings.json
	// avc/slice.go: `spsID := pps.PicParameterSetID` - the SPS is looked up with the PPS's own id instead of
	// its seq_parameter_set_id. Avoidance: the PPS used by the slice gets pic_parameter_set_id == seq_parameter_set_id.
	"avc-slice-spsid-via-ppsid": false, // repaired in /repo (fix: commit), see known_findings.json
	// avc/slice.go never sets SliceHeader.SeqParamID (always 0). Avoidance: the SPS used by the slice gets id 0.
	"avc-slice-seqparamid-unset": false, // repaired in /repo (fix: commit), see known_findings.json
	// avc/slice.go: the width of slice_group_change_cycle is computed from pps.PicSizeInMapUnitsMinus1 (never
	// parsed for map types 3..5, so 0) with integer division: 1 bit if SliceGroupChangeRate==1, else 0 bits;
	// the standard (7-35) says Ceil(Log2(PicSizeInMapUnits / SliceGroupChangeRate + 1)) with PicSizeInMapUnits of the SPS.
	// Avoidance: slices do not refer to a PPS with map type 3..5 (unless both widths coincide).
	"avc-slice-group-change-cycle-bits": true,
	// avc.CreateAVCDecConfRec hard-codes ChromaFormat=1, BitDepthLumaMinus1(=minus8)=0, BitDepthChromaMinus1=0.
	// Avoidance: the first SPS of a configuration record is 4:2:0 8 bit.
	"avc-conf-chroma-bitdepth-hardcoded": false, // repaired in /repo (fix: commit), see known_findings.json
	// (a finding of C01/C02, seen here through C15's init-segment round trip) avc.DecConfRec.Size counts the four
	// trailing bytes chroma_format.. for every profile except 66/77/88, EncodeSW writes them only for 100/110/122/144:
	// for the other profiles (244, 44, 83, 86, 118, 128, 134, 135, 138, 139) the avcC box says size+4 but is 4 bytes
	// short, and the enclosing init segment cannot be decoded ("moov: expected N bytes, got N-4").
	// Avoidance: for those profiles the box/init-segment encode+decode step of the conf check is not requested.
	"avc-conf-avcc-size-encode-mismatch": false, // repaired in /repo (fix: commit), see known_findings.json
}

// avcAvoid reports whether the switch is on; when the drawn feature `hit` would trigger the defect
// and the switch is on, the avoidance is counted.
func avcAvoid(name string, hit bool) bool {
	if !hit {
		return false
	}
	if avcAvoidKnown[name] {
		harness.Rec.Exclude(name)
		return true
	}
	return false
}

// avcDrawInt draws a boundary-heavy integer in [lo, hi].
func avcDrawInt(t *rapid.T, lo, hi int64, label string) int64 {
	if lo >= hi {
		return lo
	}
	switch rapid.IntRange(0, 9).Draw(t, label+"?") {
	case 0:
		return lo
	case 1:
		return hi
	case 2:
		return lo + 1
	case 3:
		return hi - 1
	case 4, 5:
		// around a power of two (of the magnitude), both signs
		k := rapid.IntRange(0, 32).Draw(t, label+"^")
		v := int64(1)<<uint(k) + int64(rapid.IntRange(-1, 1).Draw(t, label+"±"))
		if lo < 0 && rapid.Bool().Draw(t, label+"-") {
			v = -v
		}
		if v < lo || v > hi {
			return rapid.Int64Range(lo, hi).Draw(t, label)
		}
		return v
	case 6, 7:
		// small
		h := lo + 8
		if h > hi {
			h = hi
		}
		if lo < 0 && hi > 0 {
			l := int64(-4)
			if l < lo {
				l = lo
			}
			h = 4
			if h > hi {
				h = hi
			}
			return rapid.Int64Range(l, h).Draw(t, label)
		}
		return rapid.Int64Range(lo, h).Draw(t, label)
	}
	return rapid.Int64Range(lo, hi).Draw(t, label)
}

func avcDrawUint(t *rapid.T, lo, hi uint64, label string) uint {
	return uint(avcDrawInt(t, int64(lo), int64(hi), label))
}

// avcChance is true with a probability of roughly num/den. rapid's integer generators favour small values, so
// the real frequency is somewhat above num/den (measured over 30k cases: nominal 1/4 -> 28 %, 1/2 -> 49 %,
// 2/3 -> 69 %); the optional branches guarded by it are therefore reached a little more often than nominal,
// never less. The frequencies that matter are the class counters in the evidence, not these nominal values.
func avcChance(t *rapid.T, num, den int, label string) bool {
	return rapid.IntRange(1, den).Draw(t, label) <= num
}

// avcDiff compares want and got field by field. It returns the path of the first differing field
// without indices (for the key), the path with indices and both values (for the message); "" if equal.
// A nil slice equals an empty slice.
func avcDiff(want, got interface{}) (keyPath, path, w, g string) {
	return avcDiffValue("", "", reflect.ValueOf(want), reflect.ValueOf(got))
}

func avcDiffValue(kp, p string, w, g reflect.Value) (string, string, string, string) {
	switch w.Kind() {
	case reflect.Ptr:
		if w.IsNil() != g.IsNil() {
			return kp, p, avcPtrStr(w), avcPtrStr(g)
		}
		if w.IsNil() {
			return "", "", "", ""
		}
		return avcDiffValue(kp, p, w.Elem(), g.Elem())
	case reflect.Struct:
		for i := 0; i < w.NumField(); i++ {
			name := w.Type().Field(i).Name
			if a, b, c, d := avcDiffValue(kp+"."+name, p+"."+name, w.Field(i), g.Field(i)); a != "" {
				return a, b, c, d
			}
		}
		return "", "", "", ""
	case reflect.Slice, reflect.Array:
		if w.Len() != g.Len() {
			return kp, p + "(len)", fmt.Sprintf("len %d %v", w.Len(), w.Interface()), fmt.Sprintf("len %d %v", g.Len(), g.Interface())
		}
		for i := 0; i < w.Len(); i++ {
			if a, b, c, d := avcDiffValue(kp, fmt.Sprintf("%s[%d]", p, i), w.Index(i), g.Index(i)); a != "" {
				return a, b, c, d
			}
		}
		return "", "", "", ""
	default:
		if !reflect.DeepEqual(w.Interface(), g.Interface()) {
			return kp, p, fmt.Sprint(w.Interface()), fmt.Sprint(g.Interface())
		}
		return "", "", "", ""
	}
}

func avcPtrStr(v reflect.Value) string {
	if v.IsNil() {
		return "nil"
	}
	return fmt.Sprintf("&%+v", v.Elem().Interface())
}

// avcFieldFail turns a diff into a Fail with key C15|<type><field path>|value differs.
func avcFieldFail(typ string, want, got interface{}, ctx string) *harness.Fail {
	kp, p, w, g := avcDiff(want, got)
	if kp == "" && p == "" && w == "" && g == "" {
		return nil
	}
	return harness.Failf("C15|"+typ+kp+"|value differs", "%s%s: parser returned %s, coded value %s (%s)", typ, p, g, w, ctx)
}

func avcNontrivial(classes []string, baseline ...string) bool {
	for _, c := range classes {
		base := false
		for _, b := range baseline {
			if c == b || strings.HasPrefix(c, b) {
				base = true
			}
		}
		if !base {
			return true
		}
	}
	return false
}

// avcReplayConsistent re-runs the oracle on the JSON form of one case in 16 and requires the same verdict
// (guards the promise that a replay file reproduces what the property saw).
func avcReplayConsistent(t harness.TB, raw []byte, f *harness.Fail, replay func(json.RawMessage) *harness.Fail) {
	if harness.Hash(raw)%16 != 0 {
		return
	}
	f2 := replay(raw)
	if (f == nil) != (f2 == nil) || (f != nil && f.Key != f2.Key) {
		t.Fatalf("harness|replay-inconsistent: direct verdict %v, verdict on the JSON round trip of the case %v", f, f2)
	}
}
