// C15, AVC half: shared pieces (environment override of the known-defect switches, field-by-field diff).
// The switches (esgen.AVCAvoidKnown), the boundary-heavy draws and the value-tree generators live in
// verif/internal/esgen (shared with C16).
package c15

import (
	"encoding/json"
	"fmt"
	"os"
	"reflect"
	"strings"

	"verif/internal/esgen"
	"verif/internal/harness"
)

func init() {
	harness.RegisterReplay("avcsps", harness.Replayer(checkAVCSPS))
	harness.RegisterReplay("avcpps", harness.Replayer(checkAVCPPS))
	harness.RegisterReplay("avcslice", harness.Replayer(checkAVCSlice))
	harness.RegisterReplay("avcconf", harness.Replayer(checkAVCConf))
	// VERIF_C15_AVC_UNAVOID=name[,name...]|all turns known-defect avoidance switches off for one run
	// (to confirm that a defect is still there, or that it is gone after a repair).
	if v := os.Getenv("VERIF_C15_AVC_UNAVOID"); v != "" {
		for _, n := range strings.Split(v, ",") {
			if n == "all" {
				for k := range esgen.AVCAvoidKnown {
					esgen.AVCAvoidKnown[k] = false
				}
			} else if _, ok := esgen.AVCAvoidKnown[n]; ok {
				esgen.AVCAvoidKnown[n] = false
			} else {
				fmt.Fprintf(os.Stderr, "VERIF_C15_AVC_UNAVOID: unknown switch %q\n", n)
				os.Exit(2)
			}
		}
	}
}

// avcDiff compares want and got field by field. It returns the path of the first differing field
// without indices (for the key), the path with indices and both values (for the message); "" if equal.
// A nil slice equals an empty slice.
func avcDiff(want, got interface{}) (keyPath, path, w, g string) {
	return avcDiffValue("", "", reflect.ValueOf(want), reflect.ValueOf(got))
}

func avcDiffValue(kp, p string, w, g reflect.Value) (string, string, string, string) {
	switch w.Kind() {
	case reflect.Ptr:
		if w.IsNil() != g.IsNil() {
			return kp, p, avcPtrStr(w), avcPtrStr(g)
		}
		if w.IsNil() {
			return "", "", "", ""
		}
		return avcDiffValue(kp, p, w.Elem(), g.Elem())
	case reflect.Struct:
		for i := 0; i < w.NumField(); i++ {
			name := w.Type().Field(i).Name
			if a, b, c, d := avcDiffValue(kp+"."+name, p+"."+name, w.Field(i), g.Field(i)); a != "" {
				return a, b, c, d
			}
		}
		return "", "", "", ""
	case reflect.Slice, reflect.Array:
		if w.Len() != g.Len() {
			return kp, p + "(len)", fmt.Sprintf("len %d %v", w.Len(), w.Interface()), fmt.Sprintf("len %d %v", g.Len(), g.Interface())
		}
		for i := 0; i < w.Len(); i++ {
			if a, b, c, d := avcDiffValue(kp, fmt.Sprintf("%s[%d]", p, i), w.Index(i), g.Index(i)); a != "" {
				return a, b, c, d
			}
		}
		return "", "", "", ""
	default:
		if !reflect.DeepEqual(w.Interface(), g.Interface()) {
			return kp, p, fmt.Sprint(w.Interface()), fmt.Sprint(g.Interface())
		}
		return "", "", "", ""
	}
}

func avcPtrStr(v reflect.Value) string {
	if v.IsNil() {
		return "nil"
	}
	return fmt.Sprintf("&%+v", v.Elem().Interface())
}

// avcFieldFail turns a diff into a Fail with key C15|<type><field path>|value differs.
func avcFieldFail(typ string, want, got interface{}, ctx string) *harness.Fail {
	kp, p, w, g := avcDiff(want, got)
	if kp == "" && p == "" && w == "" && g == "" {
		return nil
	}
	return harness.Failf("C15|"+typ+kp+"|value differs", "%s%s: parser returned %s, coded value %s (%s)", typ, p, g, w, ctx)
}

// avcReplayConsistent re-runs the oracle on the JSON form of one case in 16 and requires the same verdict
// (guards the promise that a replay file reproduces what the property saw).
func avcReplayConsistent(t harness.TB, raw []byte, f *harness.Fail, replay func(json.RawMessage) *harness.Fail) {
	if harness.Hash(raw)%16 != 0 {
		return
	}
	f2 := replay(raw)
	if (f == nil) != (f2 == nil) || (f != nil && f.Key != f2.Key) {
		t.Fatalf("harness|replay-inconsistent: direct verdict %v, verdict on the JSON round trip of the case %v", f, f2)
	}
}
