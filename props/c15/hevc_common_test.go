// C15, HEVC half: shared helpers (avoid switches for confirmed library defects, draw helpers, field diff).
package c15

import (
	"fmt"
	"os"
	"reflect"
	"regexp"
	"strings"

	"pgregory.net/rapid"

	"verif/internal/harness"
)

func init() {
	harness.RegisterReplay("hevcsps", harness.Replayer(hevcCheckSPS))
	harness.RegisterReplay("hevcpps", harness.Replayer(hevcCheckPPS))
	harness.RegisterReplay("hevcslice", harness.Replayer(hevcCheckSlice))
	harness.RegisterReplay("hevcconf", harness.Replayer(hevcCheckConf))
	// C15_HEVC_UNAVOID=name1,name2|all switches avoid switches off without editing this file (used to
	// demonstrate that each recorded defect is found quickly).
	if s := os.Getenv("C15_HEVC_UNAVOID"); s != "" {
		for _, n := range strings.Split(s, ",") {
			n = strings.TrimSpace(n)
			if n == "all" {
				for k := range hevcAvoidKnown {
					hevcAvoidKnown[k] = false
				}
			} else if _, ok := hevcAvoidKnown[n]; ok {
				hevcAvoidKnown[n] = false
			} else if n != "" {
				fmt.Fprintf(os.Stderr, "C15_HEVC_UNAVOID: unknown switch %q\n", n)
				os.Exit(2)
			}
		}
	}
}

// hevcAvoidKnown: one switch per CONFIRMED defect of the unchanged library (each verified by decoding the
// bits by hand; minimal reproducers are /verif/replay/C15/kf-<name>.json). While a switch is true the
// generators do not produce the feature (every avoided draw is counted with harness.Rec.Exclude(name)), so
// the suite is silent on the unchanged tree; set a switch to false (or C15_HEVC_UNAVOID=<name>) and the
// defect is found within a few hundred cases.
var hevcAvoidKnown = map[string]bool{
	// hevc.parseVUI: aspect_ratio_idc = 0 ("Unspecified", Table E.1, a legal value) makes ParseSPSNALUnit fail
	// with "GetSARFromIDC: SAR bad index 0" (avc.GetSARfromIDC rejects index 0).
	"hevc-vui-aspect-ratio-idc-0": false, // repaired in /repo (fix: commit), see known_findings.json
	// hevc.SubLayerOrderingInfo.MaxLatencyIncreasePlus1 is a byte, but sps_max_latency_increase_plus1 is ue(v)
	// with range 0..2^32-2 (7.4.3.2.1): values > 255 are truncated (256 -> 0).
	"hevc-sps-max-latency-increase-byte": true,
	// hevc.parseShortTermRPS: for inter_ref_pic_set_prediction_flag = 1 the derived set (7-61, 7-62) is not
	// computed: NumNegativePics/NumPositivePics/DeltaPocS0/S1/UsedByCurrPicS0/S1 stay empty, only NumDeltaPocs
	// is counted. While avoided, the comparison of inter-predicted sets is restricted to NumDeltaPocs (flag
	// RelaxInterRPS in the case) and slices do not combine an inter-predicted active RPS with
	// ref_pic_lists_modification (where the wrong NumPicTotalCurr = 0 misparses the header).
	"hevc-strps-interpred-not-derived": true,
	// hevc.ParseSliceHeader: short_term_ref_pic_set_sps_flag = 1 with num_short_term_ref_pic_sets = 1:
	// short_term_ref_pic_set_idx is not present and inferred 0 (7.4.7.1), i.e. the slice uses RPS 0 of the SPS.
	// The library leaves ShortTermRefPicSet empty (so NumPicTotalCurr misses the short-term pictures).
	"hevc-slice-strps-idx-inferred": false, // repaired in /repo (fix: commit), see known_findings.json
	// hevc.ParseSliceHeader: num_long_term_ref_pics_sps = 1 and num_long_term_sps = 1: lt_idx_sps[i] is not
	// present and inferred 0; the library leaves the entry empty (PocLsbLt 0, UsedByCurrPicLtFlag false) and
	// does not count it in NumPicTotalCurr.
	"hevc-slice-lt-idx-inferred": false, // repaired in /repo (fix: commit), see known_findings.json
	// hevc.ParseSliceHeader: slice_deblocking_filter_disabled_flag, when not present, is inferred equal to
	// pps_deblocking_filter_disabled_flag (7.4.7.1); the library uses false, so with
	// pps_deblocking_filter_disabled_flag = 1, no override, SAO flags 0 and
	// pps_loop_filter_across_slices_enabled_flag = 1 it reads slice_loop_filter_across_slices_enabled_flag,
	// which is not in the bitstream (everything after is shifted by one bit).
	"hevc-slice-deblocking-disabled-inferred": false, // repaired in /repo (fix: commit), see known_findings.json
	// hevc.parsePredWeightTable ("Not implemented" in the source): with pps_curr_pic_ref_enabled_flag = 1 an
	// entry of RefPicListX that is the current picture has no luma_weight_lX_flag / chroma_weight_lX_flag
	// (7.3.6.3); the library reads one flag per entry regardless.
	"hevc-slice-pwt-currpic-entry": true,
}

func hevcAvoid(name string) bool {
	v, ok := hevcAvoidKnown[name]
	if !ok {
		panic("unknown hevc avoid switch " + name)
	}
	return v
}

// ---------------------------------------------------------------------------------------------
// draw helpers (all randomness through rapid)

// hevcPct: true with probability pct/100. rapid's integer generators are deliberately biased towards small
// values (IntRange(0,99) < 4 holds in ~30 % of the draws), so the decision is made from fair coin flips
// (rapid.Bool draws one bit): compare a uniform binary fraction with pct/100 bit by bit (2 flips on average).
func hevcPct(t *rapid.T, pct int, label string) bool {
	p := uint32(pct) * 65536 / 100 // 16-bit binary fraction
	for i := 15; i >= 0; i-- {
		pb := p>>uint(i)&1 == 1
		if rapid.Bool().Draw(t, label) != pb {
			return pb
		}
	}
	return false
}

// hevcInt draws from [lo,hi], boundary heavy: the ends, their neighbours and powers of two +-1 get extra weight.
func hevcInt(t *rapid.T, lo, hi int64, label string) int64 {
	if hi <= lo {
		return lo
	}
	if hi-lo < 8 {
		return rapid.Int64Range(lo, hi).Draw(t, label)
	}
	switch rapid.IntRange(0, 9).Draw(t, label+"?") {
	case 0:
		return lo
	case 1:
		return hi
	case 2:
		return lo + 1
	case 3:
		return hi - 1
	case 4:
		// a power of two (or neighbour) inside the range
		span := uint64(hi - lo)
		k := rapid.IntRange(0, 63).Draw(t, label+"k")
		for uint64(1)<<uint(k) > span {
			k--
		}
		v := lo + int64(uint64(1)<<uint(k)) + int64(rapid.IntRange(-1, 1).Draw(t, label+"d"))
		if v < lo {
			v = lo
		}
		if v > hi {
			v = hi
		}
		return v
	case 5, 6:
		// small values
		h := lo + 16
		if h > hi {
			h = hi
		}
		return rapid.Int64Range(lo, h).Draw(t, label)
	default:
		return rapid.Int64Range(lo, hi).Draw(t, label)
	}
}

// hevcUni draws from 0..n-1 (n <= 256) nearly uniformly from fair coin flips (see hevcPct).
func hevcUni(t *rapid.T, n int, label string) int {
	v := 0
	for k := 1; k < 4*n; k <<= 1 {
		v <<= 1
		if rapid.Bool().Draw(t, label) {
			v |= 1
		}
	}
	return v % n
}

func hevcU(t *rapid.T, lo, hi uint64, label string) uint64 {
	if hi > 1<<62 {
		hi = 1 << 62
	}
	return uint64(hevcInt(t, int64(lo), int64(hi), label))
}

// hevcBits draws an n-bit pattern: all zero, all one, single bit or random.
func hevcBits(t *rapid.T, n int, label string) uint64 {
	mask := uint64(1)<<uint(n) - 1
	if n >= 64 {
		mask = ^uint64(0)
	}
	switch rapid.IntRange(0, 5).Draw(t, label+"?") {
	case 0:
		return 0
	case 1:
		return mask
	case 2:
		return uint64(1) << uint(rapid.IntRange(0, n-1).Draw(t, label+"b"))
	default:
		return rapid.Uint64().Draw(t, label) & mask
	}
}

// hevcBytes draws exactly n bytes in one draw.
func hevcBytes(t *rapid.T, n int, label string) []byte {
	if n == 0 {
		return nil
	}
	return rapid.SliceOfN(rapid.Byte(), n, n).Draw(t, label)
}

// ---------------------------------------------------------------------------------------------
// field-by-field diff

var hevcIdxRe = regexp.MustCompile(`\[[0-9]+\]`)

// hevcDiffOpts: Skip holds field paths (indices stripped) that are not compared; Alt holds, per full
// path (with indices), an alternative accepted value (the standard's inferred value of an absent element).
type hevcDiffOpts struct {
	Skip map[string]bool
	Alt  map[string]interface{}
}

// hevcDiff returns the path of the first field where got differs from want ("" if none). nil and empty
// slices are equal; pointers are compared by pointee.
func hevcDiff(want, got interface{}, o *hevcDiffOpts) (path, w, g string) {
	return hevcDiffValue("", reflect.ValueOf(want), reflect.ValueOf(got), o)
}

func hevcStrip(p string) string { return hevcIdxRe.ReplaceAllString(p, "") }

func hevcDiffValue(p string, w, g reflect.Value, o *hevcDiffOpts) (string, string, string) {
	if o != nil && o.Skip[hevcStrip(p)] {
		return "", "", ""
	}
	switch w.Kind() {
	case reflect.Ptr:
		if w.IsNil() != g.IsNil() {
			return p, hevcPtrStr(w), hevcPtrStr(g)
		}
		if w.IsNil() {
			return "", "", ""
		}
		return hevcDiffValue(p, w.Elem(), g.Elem(), o)
	case reflect.Struct:
		for i := 0; i < w.NumField(); i++ {
			if !w.Type().Field(i).IsExported() {
				continue
			}
			name := w.Type().Field(i).Name
			q := name
			if p != "" {
				q = p + "." + name
			}
			if dp, dw, dg := hevcDiffValue(q, w.Field(i), g.Field(i), o); dp != "" {
				return dp, dw, dg
			}
		}
		return "", "", ""
	case reflect.Slice, reflect.Array:
		if w.Len() != g.Len() {
			return p + ".len", fmt.Sprint(w.Len()), fmt.Sprint(g.Len())
		}
		for i := 0; i < w.Len(); i++ {
			if dp, dw, dg := hevcDiffValue(fmt.Sprintf("%s[%d]", p, i), w.Index(i), g.Index(i), o); dp != "" {
				return dp, dw, dg
			}
		}
		return "", "", ""
	case reflect.Map:
		if w.Len() != g.Len() {
			return p + ".len", fmt.Sprint(w.Len()), fmt.Sprint(g.Len())
		}
		return "", "", ""
	default:
		if w.Interface() != g.Interface() {
			if o != nil {
				if alt, ok := o.Alt[p]; ok && reflect.DeepEqual(alt, g.Interface()) {
					return "", "", ""
				}
			}
			return p, fmt.Sprint(w.Interface()), fmt.Sprint(g.Interface())
		}
		return "", "", ""
	}
}

func hevcPtrStr(v reflect.Value) string {
	if v.IsNil() {
		return "nil"
	}
	return "non-nil"
}

// hevcFieldFail builds the Fail for a differing field: key C15|hevc.<Type>.<Field path without indices>|value differs.
func hevcFieldFail(typ, path, w, g, ctx string) *harness.Fail {
	return harness.Failf("C15|hevc."+typ+"."+hevcStrip(path)+"|value differs",
		"hevc.%s.%s: parser returned %s, coded value %s (%s)", typ, path, g, w, ctx)
}

func hevcHas(classes []string, c string) bool {
	for _, x := range classes {
		if x == c {
			return true
		}
	}
	return false
}

func hevcBucket(n int) string {
	switch {
	case n == 0:
		return "0"
	case n == 1:
		return "1"
	case n <= 4:
		return "2-4"
	case n <= 16:
		return "5-16"
	default:
		return "17+"
	}
}
