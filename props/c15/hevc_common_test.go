// C15, HEVC half: shared helpers (environment override of the avoid switches, field diff).
package c15

import (
	"fmt"
	"os"
	"reflect"
	"regexp"
	"sort"
	"strings"

	"verif/internal/esgen"
	"verif/internal/harness"
)

func init() {
	harness.RegisterReplay("hevcsps", harness.Replayer(hevcCheckSPS))
	harness.RegisterReplay("hevcpps", harness.Replayer(hevcCheckPPS))
	harness.RegisterReplay("hevcslice", harness.Replayer(hevcCheckSlice))
	harness.RegisterReplay("hevcconf", harness.Replayer(hevcCheckConf))
	// C15_HEVC_UNAVOID=name1,name2|all switches avoid switches off without editing this file (used to
	// demonstrate that each recorded defect is found quickly).
	if s := os.Getenv("C15_HEVC_UNAVOID"); s != "" {
		for _, n := range strings.Split(s, ",") {
			n = strings.TrimSpace(n)
			if n == "all" {
				for k := range esgen.HEVCAvoidKnown {
					esgen.HEVCAvoidKnown[k] = false
				}
			} else if _, ok := esgen.HEVCAvoidKnown[n]; ok {
				esgen.HEVCAvoidKnown[n] = false
			} else if n != "" {
				fmt.Fprintf(os.Stderr, "C15_HEVC_UNAVOID: unknown switch %q\n", n)
				os.Exit(2)
			}
		}
	}
}

// The avoid switches (esgen.HEVCAvoidKnown), the draw helpers and the value-tree generators live in
// verif/internal/esgen (shared with C16).

// ---------------------------------------------------------------------------------------------
// field-by-field diff

var hevcIdxRe = regexp.MustCompile(`\[[0-9]+\]|\{[^}]*\}`)

// hevcKeyStr prints a map key so that the order of the printed forms is a total order (numbers zero-padded).
func hevcKeyStr(k reflect.Value) string {
	switch k.Kind() {
	case reflect.Uint, reflect.Uint8, reflect.Uint16, reflect.Uint32, reflect.Uint64:
		return fmt.Sprintf("%020d", k.Uint())
	case reflect.Int, reflect.Int8, reflect.Int16, reflect.Int32, reflect.Int64:
		return fmt.Sprintf("%+021d", k.Int())
	default:
		return fmt.Sprint(k.Interface())
	}
}

// hevcDiffOpts: Skip holds field paths (indices stripped) that are not compared; Alt holds, per full
// path (with indices), an alternative accepted value (the standard's inferred value of an absent element).
type hevcDiffOpts struct {
	Skip map[string]bool
	Alt  map[string]interface{}
}

// hevcDiff returns the path of the first field where got differs from want ("" if none). nil and empty
// slices (and maps) are equal; pointers are compared by pointee; map entries appear in paths as {key}.
func hevcDiff(want, got interface{}, o *hevcDiffOpts) (path, w, g string) {
	return hevcDiffValue("", reflect.ValueOf(want), reflect.ValueOf(got), o)
}

func hevcStrip(p string) string { return hevcIdxRe.ReplaceAllString(p, "") }

func hevcDiffValue(p string, w, g reflect.Value, o *hevcDiffOpts) (string, string, string) {
	if o != nil && o.Skip[hevcStrip(p)] {
		return "", "", ""
	}
	switch w.Kind() {
	case reflect.Ptr:
		if w.IsNil() != g.IsNil() {
			return p, hevcPtrStr(w), hevcPtrStr(g)
		}
		if w.IsNil() {
			return "", "", ""
		}
		return hevcDiffValue(p, w.Elem(), g.Elem(), o)
	case reflect.Struct:
		for i := 0; i < w.NumField(); i++ {
			if !w.Type().Field(i).IsExported() {
				continue
			}
			name := w.Type().Field(i).Name
			q := name
			if p != "" {
				q = p + "." + name
			}
			if dp, dw, dg := hevcDiffValue(q, w.Field(i), g.Field(i), o); dp != "" {
				return dp, dw, dg
			}
		}
		return "", "", ""
	case reflect.Slice, reflect.Array:
		if w.Len() != g.Len() {
			return p + ".len", fmt.Sprint(w.Len()), fmt.Sprint(g.Len())
		}
		for i := 0; i < w.Len(); i++ {
			if dp, dw, dg := hevcDiffValue(fmt.Sprintf("%s[%d]", p, i), w.Index(i), g.Index(i), o); dp != "" {
				return dp, dw, dg
			}
		}
		return "", "", ""
	case reflect.Map:
		// nil and empty maps are equal (as for slices); otherwise the same keys with equal values. Keys are
		// visited in the order of their printed form (no dependence on map iteration order).
		if w.Len() != g.Len() {
			return p + ".len", fmt.Sprint(w.Len()), fmt.Sprint(g.Len())
		}
		keys := w.MapKeys()
		sort.Slice(keys, func(i, j int) bool { return hevcKeyStr(keys[i]) < hevcKeyStr(keys[j]) })
		for _, k := range keys {
			q := fmt.Sprintf("%s{%s}", p, hevcKeyStr(k))
			gv := g.MapIndex(k)
			if !gv.IsValid() {
				return q, "present", "missing"
			}
			if dp, dw, dg := hevcDiffValue(q, w.MapIndex(k), gv, o); dp != "" {
				return dp, dw, dg
			}
		}
		return "", "", ""
	default:
		if w.Interface() != g.Interface() {
			if o != nil {
				if alt, ok := o.Alt[p]; ok && reflect.DeepEqual(alt, g.Interface()) {
					return "", "", ""
				}
			}
			return p, fmt.Sprint(w.Interface()), fmt.Sprint(g.Interface())
		}
		return "", "", ""
	}
}

func hevcPtrStr(v reflect.Value) string {
	if v.IsNil() {
		return "nil"
	}
	return "non-nil"
}

// hevcFieldFail builds the Fail for a differing field: key C15|hevc.<Type>.<Field path without indices>|value differs.
func hevcFieldFail(typ, path, w, g, ctx string) *harness.Fail {
	return harness.Failf("C15|hevc."+typ+"."+hevcStrip(path)+"|value differs",
		"hevc.%s.%s: parser returned %s, coded value %s (%s)", typ, path, g, w, ctx)
}

func hevcHas(classes []string, c string) bool {
	for _, x := range classes {
		if x == c {
			return true
		}
	}
	return false
}
