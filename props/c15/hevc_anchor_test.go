// C15, HEVC half: sanity anchor of the serialisers in internal/nalgen/hevc.go against REAL encoder output:
// every HEVC VPS/SPS/PPS (and slice segment header) found in the tests and test data of /repo is parsed with
// the library, the parsed struct is serialised again with the harness' serialiser, and the bytes must be
// identical. What the library does not retain (scaling list coefficients, the coding of inter-predicted
// short-term RPSs, aspect_ratio_idc, slice_reserved_flag, lt_idx_sps) is recovered with the harness' own bit
// reader at the bit position the serialiser reports; the byte identity of everything that FOLLOWS still
// anchors the serialiser's syntax for those parts (their length must be right).
// The library has no VPS parser: VPSs are anchored with hand-decoded value trees.
package c15

import (
	"bytes"
	"encoding/hex"
	"fmt"
	"os"
	"path/filepath"
	"sort"
	"strings"
	"testing"

	"github.com/Eyevinn/mp4ff/hevc"
	"github.com/Eyevinn/mp4ff/mp4"

	"verif/internal/harness"
	"verif/internal/nalgen"
)

// hex strings of parameter sets in /repo's tests (hevc/sps_test.go, hevc/pps_test.go, hevc/sei_test.go,
// hevc/mime_test.go, mp4/hvcc_test.go, mp4/initsegment_create_test.go, cmd/mp4ff-pslister/main_test.go)
var hevcAnchorHex = []struct{ src, hex string }{
	{"hevc/sps_test.go spsNalu", "420101022000000300b0000003000003007ba0078200887db6718b92448053888892cf24a69272c9124922dc91aa48fca223ff000100016a02020201"},
	{"hevc/sps_test.go spsNaluHdr10", "420101022000000300b0000003000003009ca001e020021c4d8815ee4595602d4244024020"},
	{"hevc/sps_test.go spsNaluHrd", "42010101400000030000030000030000030096a001e02002207c4e5ad290964b8c04040000" +
		"03000400000300658017794400014fb1000004c4b3c40"},
	{"hevc/sps_test.go Zero_and_One_Palette_Size_A_Canon_2 vps", "40010c01ffff090040000003000c000003000078ac09"},
	{"hevc/sps_test.go Zero_and_One_Palette_Size_A_Canon_2 sps", "420101090040000003000c00000300007890007810021cff2d7248db3db643cd81000843"},
	{"hevc/sps_test.go Zero_and_One_Palette_Size_A_Canon_2 pps", "4401c194964c08b21bdd"},
	{"hevc/sps_test.go SPSSLIST_A_Sony_1 vps", "40010c11ffff0701000003000f8800000300007bb5057000003e90000ea6077b1000043024e0f00000030001f10000030" +
		"0000f75880f000882807b050002d0a00e36bdff90a020202c1"},
	{"hevc/sps_test.go SPSSLIST_A_Sony_1 sps", "4201010160000003000003000003000003007ba0078200887de5b59246f8f2c997932c8501e003fe03fa80203c07f2804" +
		"06010163c040018407001840c203040c206103080c10308184070018404042607f03000e1030018006001800c00600180" +
		"06003000e1030008194d10730a3cc3849cc2028709c2464e1309528240a42a09620114201182304828928b1c9362398c7" +
		"1d14c21ff5ebe4fc47f5f9be2bc21c35822828358f840787878f0583c78f0743c78f1e0481e3c78f1e0561e3c78f1e3c0" +
		"c83c78f1e3c78f0320f1e3c78f1e0561e3c78f1e0481e3c78f0743c78f0583c78787842340fc101e1e1e3c160f1e3c1d0" +
		"f1e3c7812078f1e3c7815878f1e3c78f0320f1e3c78f1e3c0c83c78f1e3c7815878f1e3c7812078f1e3c1d0f1e3c160f1" +
		"e1e1e1063c041840787878f0583c78f0743c78f1e0481e3c78f1e0561e3c78f1e3c0c83c78f1e3c78f0320f1e3c78f1e0" +
		"561e3c78f1e0481e3c78f0743c78f0583c7878784203b80202111c1f1c38168e1c381d8e1c387012470e1c387015c70e1" +
		"c3870e0328e1c3870e1c380ca3870e1c387015c70e1c387012470e1c381d8e1c38168e1c1f1c11807b8040844707c70e0" +
		"5a3870e0763870e1c0491c3870e1c0571c3870e1c380ca3870e1c3870e0328e1c3870e1c0571c3870e1c0491c3870e076" +
		"3870e05a38707c70463c07e044707c70e05a3870e0763870e1c0491c3870e1c0571c3870e1c380ca3870e1c3870e0328e" +
		"1c3870e1c0571c3870e1c0491c3870e0763870e05a38707c7045c45525ed9"},
	{"hevc/sps_test.go SPSSLIST_A_Sony_1 pps", "4401c1f5811d02a0"},
	{"hevc/sei_test.go sps", "420101014000000300400000030000030078a003c080221f7a3ee46c1bdf4f60280d00000303e80000c350601def7e00028b1c001443c8"},
	{"hevc/pps_test.go 0", "4401c0f7c0cc90"},
	{"hevc/pps_test.go 1", "4401c172b46240"},
	{"hevc/pps_test.go 2", "4401c1ac9383b240"},
	{"hevc/mime_test.go 0", "420101016000000300b0000003000003007ba003c08010e59447924525ac041400000300040000030067c36bdcf50007a12000f42640"},
	{"hevc/mime_test.go 1", "420101016000000300900000030000030078a0021c801e0596566924caf01680800001f480003a9804"},
	{"mp4/hvcc_test.go vps", "40010c01ffff022000000300b0000003000003007b18b024"},
	{"mp4/hvcc_test.go sps", "420101022000000300b0000003000003007ba0078200887db6718b92448053888892cf24a69272c9124922dc91aa48fca223ff000100016a02020201"},
	{"mp4/hvcc_test.go pps", "4401c0252f053240"},
	{"cmd/mp4ff-pslister/main_test.go vps", "40010c01ffff016000000300900000030000030078959809"},
	{"cmd/mp4ff-pslister/main_test.go sps", "420101016000000300900000030000030078a00502016965959a4932bc05a80808082000000300200000030321"},
	{"cmd/mp4ff-pslister/main_test.go pps", "4401c172b46240"},
}

// hand-decoded VPS value trees (the library cannot parse a VPS)
var hevcAnchorVPS = []struct {
	hex  string
	tree nalgen.HEVCVPSTree
}{
	{"40010c01ffff022000000300b0000003000003007b18b024", nalgen.HEVCVPSTree{
		BaseLayerInternalFlag: true, BaseLayerAvailableFlag: true, TemporalIDNestingFlag: true,
		PTL: hevc.ProfileTierLevel{GeneralProfileIDC: 2, GeneralProfileCompatibilityFlags: 0x20000000,
			GeneralProgressiveSourceFlag: true, GeneralNonPackedConstraintFlag: true, GeneralFrameOnlyConstraintFlag: true, GeneralLevelIDC: 123},
		OrderingInfos: []hevc.SubLayerOrderingInfo{{MaxDecPicBufferingMinus1: 5, MaxNumReorderPics: 4, MaxLatencyIncreasePlus1: 0}},
	}},
	{"40010c01ffff016000000300900000030000030078959809", nalgen.HEVCVPSTree{
		BaseLayerInternalFlag: true, BaseLayerAvailableFlag: true, TemporalIDNestingFlag: true,
		PTL: hevc.ProfileTierLevel{GeneralProfileIDC: 1, GeneralProfileCompatibilityFlags: 0x60000000,
			GeneralProgressiveSourceFlag: true, GeneralFrameOnlyConstraintFlag: true, GeneralLevelIDC: 120},
		SubLayerOrderingInfoPresent: true,
		OrderingInfos:               []hevc.SubLayerOrderingInfo{{MaxDecPicBufferingMinus1: 4, MaxNumReorderPics: 2, MaxLatencyIncreasePlus1: 5}},
	}},
}

// hevcSplitAnnexB splits a byte stream at 00 00 01 start codes (own implementation).
func hevcSplitAnnexB(b []byte) [][]byte {
	var starts []int
	for i := 0; i+2 < len(b); i++ {
		if b[i] == 0 && b[i+1] == 0 && b[i+2] == 1 {
			starts = append(starts, i+3)
			i += 2
		}
	}
	var out [][]byte
	for k, s := range starts {
		e := len(b)
		if k+1 < len(starts) {
			e = starts[k+1] - 3
		}
		for e > s && b[e-1] == 0 { // trailing_zero_8bits / the zero_byte of the next start code
			e--
		}
		if e > s {
			out = append(out, b[s:e])
		}
	}
	return out
}

type hevcAnchorStats struct {
	n, identical, ownReaderRPS, ownReaderScaling int
	notes                                        []string
}

// hevcAnchorSPS: parse with the library, serialise the parsed struct, compare.
func hevcAnchorSPS(t *testing.T, src string, nal []byte, st *hevcAnchorStats) *nalgen.HEVCSPSTree {
	st.n++
	got, err := hevc.ParseSPSNALUnit(nal)
	if err != nil {
		t.Errorf("%s: library cannot parse real SPS %x: %v", src, nal, err)
		return nil
	}
	tr := &nalgen.HEVCSPSTree{TemporalIDPlus1: nal[1] & 7, SPS: *got}
	if got.MultilayerExtensionFlag || got.D3ExtensionFlag {
		st.notes = append(st.notes, src+": multilayer/3D extension present, not serialisable")
		return nil
	}
	rbsp := append(append([]byte{}, nal[:2]...), nalgen.Unescape(nal[2:])...)
	// 1. scaling list coefficients are not retained: read them at the position the serialiser reports
	if got.ScalingListDataPresentFlag {
		tr.ScalingList = &nalgen.HEVCScalingListData{} // placeholder to learn the position
		_, info := nalgen.HEVCWriteSPS(tr)
		r := nalgen.NewHEVCBitReader(rbsp, info.ScalingListBit)
		tr.ScalingList = nalgen.HEVCReadScalingList(r)
		if r.Err {
			t.Errorf("%s: own reader failed on scaling_list_data", src)
			return nil
		}
		st.ownReaderScaling++
	}
	// 2. the coding of inter-predicted RPSs is not retained: read the RPS list with the own reader; when no set
	// is inter-predicted the library's (explicit) sets are serialised, else the codings read here
	if got.NumShortTermRefPicSets > 0 {
		_, info := nalgen.HEVCWriteSPS(tr)
		r := nalgen.NewHEVCBitReader(rbsp, info.StRPSBit)
		var cs []nalgen.HEVCStRPS
		var vars []nalgen.HEVCRPSVars
		inter := false
		for i := 0; i < int(got.NumShortTermRefPicSets) && !r.Err; i++ {
			c := nalgen.HEVCReadStRPS(r, i, int(got.NumShortTermRefPicSets)+1, vars)
			if r.Err {
				break
			}
			var ref *nalgen.HEVCRPSVars
			if c.InterRPSPred {
				inter = true
				ref = &vars[i-1]
			}
			cs = append(cs, c)
			vars = append(vars, nalgen.HEVCDeriveRPS(&c, ref))
		}
		if r.Err {
			t.Errorf("%s: own reader failed on the st_ref_pic_set list", src)
			return nil
		}
		if inter {
			tr.StRPS = cs
			st.ownReaderRPS++
		}
		// the library's sets against the harness' derivation (explicit sets completely, NumDeltaPocs for all)
		for i := range vars {
			if int(got.ShortTermRefPicSets[i].NumDeltaPocs) != vars[i].NumDeltaPocs() {
				t.Errorf("%s: RPS %d NumDeltaPocs: library %d, harness derivation %d", src, i, got.ShortTermRefPicSets[i].NumDeltaPocs, vars[i].NumDeltaPocs())
			}
			if !cs[i].InterRPSPred {
				w := hevcLibRPS(&vars[i])
				if p, a, b := hevcDiff(w, got.ShortTermRefPicSets[i], nil); p != "" {
					t.Errorf("%s: RPS %d %s: harness %s, library %s", src, i, p, a, b)
				}
			}
		}
	}
	// 3. aspect_ratio_info_present_flag / aspect_ratio_idc are not retained: read them at the VUI position
	if got.VUI != nil {
		_, info := nalgen.HEVCWriteSPS(tr)
		r := nalgen.NewHEVCBitReader(rbsp, info.VUIBit)
		tr.VUIExtra.AspectRatioInfoPresentFlag = r.Flag()
		if tr.VUIExtra.AspectRatioInfoPresentFlag {
			tr.VUIExtra.AspectRatioIDC = uint8(r.U(8))
		}
	}
	out, _ := nalgen.HEVCWriteSPS(tr)
	if !bytes.Equal(out, nal) {
		t.Errorf("%s: serialiser output differs from the real SPS\n real %x\n ours %x\n parsed %+v", src, nal, out, *got)
		return nil
	}
	st.identical++
	return tr
}

func hevcAnchorPPS(t *testing.T, src string, nal []byte, spsMap map[uint32]*hevc.SPS, st *hevcAnchorStats) *nalgen.HEVCPPSTree {
	st.n++
	got, err := hevc.ParsePPSNALUnit(nal, spsMap)
	if err != nil {
		t.Errorf("%s: library cannot parse real PPS %x: %v", src, nal, err)
		return nil
	}
	if got.MultilayerExtensionFlag || got.D3ExtensionFlag {
		st.notes = append(st.notes, src+": multilayer/3D extension present, not serialisable")
		return nil
	}
	tr := &nalgen.HEVCPPSTree{TemporalIDPlus1: nal[1] & 7, PPS: *got}
	if got.ScalingListDataPresentFlag {
		rbsp := append(append([]byte{}, nal[:2]...), nalgen.Unescape(nal[2:])...)
		tr.ScalingList = &nalgen.HEVCScalingListData{}
		_, info := nalgen.HEVCWritePPS(tr)
		r := nalgen.NewHEVCBitReader(rbsp, info.ScalingListBit)
		tr.ScalingList = nalgen.HEVCReadScalingList(r)
		st.ownReaderScaling++
	}
	out, _ := nalgen.HEVCWritePPS(tr)
	if !bytes.Equal(out, nal) {
		t.Errorf("%s: serialiser output differs from the real PPS\n real %x\n ours %x\n parsed %+v", src, nal, out, *got)
		return nil
	}
	st.identical++
	return tr
}

// hevcAnchorSlice: parse the header with the library, serialise it, compare the header bytes and Size.
func hevcAnchorSlice(t *testing.T, src string, nal []byte, spsMap map[uint32]*hevc.SPS, ppsMap map[uint32]*hevc.PPS,
	spsTrees map[uint32]*nalgen.HEVCSPSTree, st *hevcAnchorStats) {
	got, err := hevc.ParseSliceHeader(nal, spsMap, ppsMap)
	if err != nil {
		st.notes = append(st.notes, fmt.Sprintf("%s: library cannot parse slice header: %v", src, err))
		return
	}
	pps := ppsMap[got.PicParameterSetId]
	spsT := spsTrees[pps.SeqParameterSetID]
	if spsT == nil {
		return
	}
	st.n++
	tr := nalgen.HEVCSliceTree{NalType: nal[0] >> 1 & 0x3f, TemporalIDPlus1: nal[1] & 7, SH: *got}
	sps := &spsT.SPS
	for i := 0; i < int(got.NumLongTermSps); i++ { // lt_idx_sps is not retained: find the entry
		idx := uint32(0)
		for k, e := range sps.LongTermRefPicSets {
			if e.PocLsbLt == got.LongTermRefPicSets[i].PocLsbLt && e.UsedByCurrPicLtFlag == got.LongTermRefPicSets[i].UsedByCurrPicLtFlag {
				idx = uint32(k)
				break
			}
		}
		tr.Extra.LtIdxSps = append(tr.Extra.LtIdxSps, idx)
	}
	rps := got.ShortTermRefPicSet
	if int(rps.NumDeltaPocs) != int(rps.NumNegativePics)+int(rps.NumPositivePics) {
		st.notes = append(st.notes, src+": inter-predicted RPS in the slice header, coding not retained: skipped")
		st.n--
		return
	}
	if got.ShortTermRefPicSetSpsFlag && spsT.StRPS != nil && spsT.StRPS[got.ShortTermRefPicSetIdx].InterRPSPred {
		// the library's copy of an inter-predicted SPS set is empty; the writer takes the set from the SPS tree anyway
		st.notes = append(st.notes, src+": slice uses an inter-predicted SPS RPS (library copy has no pictures)")
	}
	out, d := nalgen.HEVCWriteSlice(&tr, spsT, pps)
	n := d.HeaderBits / 8
	real := append(append([]byte{}, nal[:2]...), nalgen.Unescape(nal[2:])...)
	if len(real) < n || !bytes.Equal(out[:2], nal[:2]) || !bytes.Equal(nalgen.Unescape(out[2:])[:n-2], real[2:n]) {
		m := n
		if m > len(real) {
			m = len(real)
		}
		t.Errorf("%s: serialised slice header differs from the real one\n real %x\n ours %x\n parsed %+v", src, real[:m], nalgen.Unescape(out[2:])[:n-2], *got)
		return
	}
	if want := nalgen.HEVCHeaderSizeInNal(nal, d.HeaderBits); int(got.Size) != want {
		t.Errorf("%s: Size %d, header occupies %d bytes", src, got.Size, want)
		return
	}
	st.identical++
}

func TestHEVCAnchor(t *testing.T) {
	var sSPS, sPPS, sSlice, sVPS hevcAnchorStats
	dummy := map[uint32]*hevc.SPS{}
	for i := uint32(0); i < 16; i++ {
		dummy[i] = &hevc.SPS{}
	}
	for _, h := range hevcAnchorHex {
		hx := h.hex
		if len(hx)%2 == 1 { // spsNaluHrd has an odd number of digits in the repo; its test ignores the error and uses the whole bytes
			hx = hx[:len(hx)-1]
		}
		nal, err := hex.DecodeString(hx)
		if err != nil {
			t.Fatalf("%s: %v", h.src, err)
		}
		switch nal[0] >> 1 & 0x3f {
		case nalgen.HEVCNalSPS:
			hevcAnchorSPS(t, h.src, nal, &sSPS)
		case nalgen.HEVCNalPPS:
			hevcAnchorPPS(t, h.src, nal, dummy, &sPPS)
		}
	}
	for _, v := range hevcAnchorVPS {
		sVPS.n++
		want, _ := hex.DecodeString(v.hex)
		tr := v.tree
		if out := nalgen.HEVCWriteVPS(&tr); !bytes.Equal(out, want) {
			t.Errorf("VPS serialiser differs from the real VPS\n real %x\n ours %x", want, out)
		} else {
			sVPS.identical++
		}
	}
	// byte streams and mp4 files below /repo
	var streams []struct {
		src  string
		nals [][]byte
	}
	_ = filepath.Walk(harness.E.RepoDir, func(p string, info os.FileInfo, err error) error {
		if err != nil || info.IsDir() {
			return nil
		}
		rel, _ := filepath.Rel(harness.E.RepoDir, p)
		switch strings.ToLower(filepath.Ext(p)) {
		case ".265", ".h265", ".hevc":
			b, err := os.ReadFile(p)
			if err == nil {
				streams = append(streams, struct {
					src  string
					nals [][]byte
				}{rel, hevcSplitAnnexB(b)})
			}
		case ".mp4", ".m4s", ".cmfv":
			if info.Size() > 8<<20 {
				return nil
			}
			b, err := os.ReadFile(p)
			if err != nil || !bytes.Contains(b, []byte("hvcC")) {
				return nil
			}
			f, err := mp4.DecodeFile(bytes.NewReader(b))
			if err != nil {
				return nil
			}
			var nals [][]byte
			var traks []*mp4.TrakBox
			if f.Init != nil && f.Init.Moov != nil {
				traks = f.Init.Moov.Traks
			} else if f.Moov != nil {
				traks = f.Moov.Traks
			}
			for _, tk := range traks {
				stsd := tk.Mdia.Minf.Stbl.Stsd
				if stsd.HvcX == nil || stsd.HvcX.HvcC == nil {
					continue
				}
				for _, a := range stsd.HvcX.HvcC.NaluArrays {
					nals = append(nals, a.Nalus...)
				}
				// samples of progressive files: length-prefixed NAL units in mdat
				if f.Mdat != nil && tk.Mdia.Minf.Stbl.Stsz != nil && tk.Mdia.Minf.Stbl.Stco != nil {
					stbl := tk.Mdia.Minf.Stbl
					for nr := 1; nr <= int(stbl.Stsz.SampleNumber) && nr <= 50; nr++ {
						chunkNr, first, err := stbl.Stsc.ChunkNrFromSampleNr(nr)
						if err != nil || chunkNr > len(stbl.Stco.ChunkOffset) {
							break
						}
						off := int64(stbl.Stco.ChunkOffset[chunkNr-1])
						for s := first; s < nr; s++ {
							off += int64(stbl.Stsz.GetSampleSize(s))
						}
						size := int64(stbl.Stsz.GetSampleSize(nr))
						if off < 0 || off+size > int64(len(b)) {
							break
						}
						sample := b[off : off+size]
						for len(sample) >= 4 {
							l := int(sample[0])<<24 | int(sample[1])<<16 | int(sample[2])<<8 | int(sample[3])
							if l < 2 || 4+l > len(sample) {
								break
							}
							nals = append(nals, sample[4:4+l])
							sample = sample[4+l:]
						}
					}
				}
			}
			if len(nals) > 0 {
				streams = append(streams, struct {
					src  string
					nals [][]byte
				}{rel, nals})
			}
		}
		return nil
	})
	sort.Slice(streams, func(i, j int) bool { return streams[i].src < streams[j].src })
	for _, s := range streams {
		spsMap := map[uint32]*hevc.SPS{}
		ppsMap := map[uint32]*hevc.PPS{}
		spsTrees := map[uint32]*nalgen.HEVCSPSTree{}
		nSlices := 0
		for i, nal := range s.nals {
			if len(nal) < 3 {
				continue
			}
			src := fmt.Sprintf("%s nal %d", s.src, i)
			switch typ := int(nal[0] >> 1 & 0x3f); {
			case typ == nalgen.HEVCNalSPS:
				if tr := hevcAnchorSPS(t, src, nal, &sSPS); tr != nil {
					p, _ := hevc.ParseSPSNALUnit(nal)
					spsMap[uint32(p.SpsID)] = p
					spsTrees[uint32(p.SpsID)] = tr
				}
			case typ == nalgen.HEVCNalPPS:
				if tr := hevcAnchorPPS(t, src, nal, spsMap, &sPPS); tr != nil {
					p, _ := hevc.ParsePPSNALUnit(nal, spsMap)
					ppsMap[p.PicParameterSetID] = p
				}
			case typ <= 9 || (typ >= 16 && typ <= 21):
				if len(ppsMap) > 0 {
					nSlices++
					hevcAnchorSlice(t, src, nal, spsMap, ppsMap, spsTrees, &sSlice)
				}
			}
		}
		t.Logf("%s: %d NAL units, %d slice segments", s.src, len(s.nals), nSlices)
	}
	t.Logf("VPS (hand-decoded trees): %d/%d identical", sVPS.identical, sVPS.n)
	t.Logf("SPS: %d/%d identical (own reader needed for scaling lists: %d, for inter-predicted RPS codings: %d)", sSPS.identical, sSPS.n, sSPS.ownReaderScaling, sSPS.ownReaderRPS)
	t.Logf("PPS: %d/%d identical (own reader needed for scaling lists: %d)", sPPS.identical, sPPS.n, sPPS.ownReaderScaling)
	t.Logf("slice segment headers: %d/%d identical", sSlice.identical, sSlice.n)
	for _, st := range []*hevcAnchorStats{&sSPS, &sPPS, &sSlice} {
		for _, n := range st.notes {
			t.Logf("note: %s", n)
		}
	}
	if sSPS.identical == 0 || sPPS.identical == 0 || sSlice.identical == 0 {
		t.Errorf("anchor found nothing to compare (repo dir %s)", harness.E.RepoDir)
	}
	harness.Rec.ClassN("hevc-anchor-sps-identical", int64(sSPS.identical))
	harness.Rec.ClassN("hevc-anchor-pps-identical", int64(sPPS.identical))
	harness.Rec.ClassN("hevc-anchor-slice-identical", int64(sSlice.identical))
	harness.Rec.ClassN("hevc-anchor-vps-identical", int64(sVPS.identical))
}
