// C15, HEVC half: value-tree generators for SPS / PPS / VPS (ranges follow the semantics of H.265 7.4.3 and E.3
// and the widths of the parser's struct fields).
package c15

import (
	"fmt"

	"github.com/Eyevinn/mp4ff/hevc"
	"pgregory.net/rapid"

	"verif/internal/harness"
	"verif/internal/nalgen"
)

// ---------------------------------------------------------------------------------------------
// profile_tier_level

var hevcLevels = []byte{30, 60, 63, 90, 93, 120, 123, 150, 153, 156, 180, 183, 186, 0, 255}

func hevcGenProfile(t *rapid.T, l string) (space byte, tier bool, idc byte, compat uint32, f [4]bool, low44 uint64) {
	if hevcPct(t, 20, l+"sp?") {
		space = byte(rapid.IntRange(0, 3).Draw(t, l+"sp"))
	}
	tier = rapid.Bool().Draw(t, l+"tier")
	if hevcPct(t, 60, l+"idc?") {
		idc = byte(rapid.IntRange(1, 11).Draw(t, l+"idc"))
	} else {
		idc = byte(rapid.IntRange(0, 31).Draw(t, l+"idc"))
	}
	switch rapid.IntRange(0, 4).Draw(t, l+"compat?") {
	case 0:
		compat = 0x60000000
	case 1:
		compat = uint32(1) << (31 - uint(idc))
	default:
		compat = uint32(hevcBits(t, 32, l+"compat"))
	}
	for i := range f {
		f[i] = rapid.Bool().Draw(t, l+"srcflag")
	}
	if hevcPct(t, 50, l+"c44?") {
		low44 = hevcBits(t, 44, l+"c44")
		if hevcPct(t, 30, l+"c44hi") {
			low44 &^= (1<<36 - 1) // only bits of the first two constraint bytes: trailing zero bytes in the codec string
		}
	}
	return
}

func hevcGenPTL(t *rapid.T, maxSub int, l string) hevc.ProfileTierLevel {
	var p hevc.ProfileTierLevel
	var f [4]bool
	var low uint64
	p.GeneralProfileSpace, p.GeneralTierFlag, p.GeneralProfileIDC, p.GeneralProfileCompatibilityFlags, f, low = hevcGenProfile(t, l+"g")
	p.GeneralProgressiveSourceFlag, p.GeneralInterlacedSourceFlag, p.GeneralNonPackedConstraintFlag, p.GeneralFrameOnlyConstraintFlag = f[0], f[1], f[2], f[3]
	p.GeneralConstraintIndicatorFlags = hevcCif(f, low)
	p.GeneralLevelIDC = rapid.SampledFrom(hevcLevels).Draw(t, l+"lvl")
	if hevcPct(t, 20, l+"lvlr") {
		p.GeneralLevelIDC = rapid.Byte().Draw(t, l+"lvlb")
	}
	if maxSub > 0 {
		p.SubLayers = make([]hevc.SubLayer, maxSub)
		for i := range p.SubLayers {
			s := &p.SubLayers[i]
			s.ProfilePresentFlag = rapid.Bool().Draw(t, l+"slp")
			s.LevelPresentFlag = rapid.Bool().Draw(t, l+"sll")
			if s.ProfilePresentFlag {
				s.ProfileSpace, s.TierFlag, s.ProfileIDC, s.ProfileCompatibilityFlags, f, low = hevcGenProfile(t, l+"s")
				s.ProgressiveSourceFlag, s.InterlacedSourceFlag, s.NonPackedConstraintFlag, s.FrameOnlyConstraintFlag = f[0], f[1], f[2], f[3]
				s.ConstraintFlags = hevcCif(f, low)
			}
			if s.LevelPresentFlag {
				s.LayerIDC = rapid.Byte().Draw(t, l+"sllvl")
			}
		}
	}
	return p
}

// hevcCif assembles the 48 bits general_progressive_source_flag .. general_inbld_flag.
func hevcCif(f [4]bool, low44 uint64) uint64 {
	v := low44 & (1<<44 - 1)
	for i, b := range f {
		if b {
			v |= 1 << uint(47-i)
		}
	}
	return v
}

// ---------------------------------------------------------------------------------------------
// scaling_list_data

func hevcGenScalingList(t *rapid.T, l string) *nalgen.HEVCScalingListData {
	d := &nalgen.HEVCScalingListData{}
	heavy := hevcPct(t, 25, l+"heavy")
	for sizeID := 0; sizeID < 4; sizeID++ {
		step := 1
		if sizeID == 3 {
			step = 3
		}
		for m := 0; m < 6; m += step {
			p := 12
			if heavy {
				p = 70
			}
			d.PredModeFlag[sizeID][m] = hevcPct(t, p, l+"pm")
			if !d.PredModeFlag[sizeID][m] {
				// scaling_list_pred_matrix_id_delta: 0..matrixId (sizeId 3: 0..matrixId/3)
				mx := m
				if sizeID == 3 {
					mx = m / 3
				}
				d.PredMatrixIDDelta[sizeID][m] = uint32(rapid.IntRange(0, mx).Draw(t, l+"pd"))
				continue
			}
			if sizeID > 1 {
				d.DcCoefMinus8[sizeID][m] = int32(hevcInt(t, -7, 247, l+"dc"))
			}
			n := nalgen.HEVCScalingCoefNum(sizeID)
			bs := hevcBytes(t, n, l+"coef")
			cs := make([]int32, n)
			small := hevcPct(t, 50, l+"small")
			for i, b := range bs {
				v := int32(int8(b)) // scaling_list_delta_coef: -128..127
				if small {
					v = v % 4
				}
				cs[i] = v
			}
			d.DeltaCoef[sizeID][m] = cs
		}
	}
	return d
}

// ---------------------------------------------------------------------------------------------
// st_ref_pic_set

func hevcDrawDeltaMinus1(t *rapid.T, l string) uint32 {
	if hevcPct(t, 85, l+"?") {
		return uint32(rapid.IntRange(0, 3).Draw(t, l))
	}
	return uint32(hevcInt(t, 0, 32767, l))
}

// hevcGenRPS draws one st_ref_pic_set( stRpsIdx ). prev are the derived sets 0..num-1 of the SPS (for an SPS
// set only prev[stRpsIdx-1] is used; for a slice header any of them via delta_idx_minus1).
func hevcGenRPS(t *rapid.T, stRpsIdx, num int, prev []nalgen.HEVCRPSVars, maxDpb int, l string) (nalgen.HEVCStRPS, nalgen.HEVCRPSVars) {
	var c nalgen.HEVCStRPS
	if stRpsIdx > 0 && hevcPct(t, 40, l+"inter") {
		c.InterRPSPred = true
		refIdx := stRpsIdx - 1
		if stRpsIdx == num { // slice header
			c.DeltaIdxMinus1 = uint32(hevcInt(t, 0, int64(stRpsIdx-1), l+"didx"))
			refIdx = stRpsIdx - (int(c.DeltaIdxMinus1) + 1)
		}
		ref := &prev[refIdx]
		c.DeltaRpsSign = rapid.Bool().Draw(t, l+"sign")
		c.AbsDeltaRpsMinus1 = hevcDrawDeltaMinus1(t, l+"abs")
		dr := c.HEVCDeltaRps()
		n := ref.NumDeltaPocs()
		c.UsedByCurrPicFlag = make([]bool, n+1)
		c.UseDeltaFlag = make([]bool, n+1)
		nNeg := ref.NumNegativePics()
		for j := 0; j <= n; j++ {
			var dPoc int64
			switch {
			case j < nNeg:
				dPoc = ref.DeltaPocS0[j] + dr
			case j < n:
				dPoc = ref.DeltaPocS1[j-nNeg] + dr
			default:
				dPoc = dr
			}
			u := rapid.Bool().Draw(t, l+"u")
			ud := u || hevcPct(t, 70, l+"ud")
			if dPoc == 0 && ud {
				// an entry with dPoc == 0 is dropped by (7-61)/(7-62) but kept by the HM reference decoder; no
				// encoder codes it. Excluded by construction (grey area of the standard, not a library finding).
				harness.Rec.Exclude("hevc-strps-dpoc-zero-entry")
				u, ud = false, false
			}
			c.UsedByCurrPicFlag[j], c.UseDeltaFlag[j] = u, ud
		}
		v := nalgen.HEVCDeriveRPS(&c, ref)
		for j := n; j >= 0 && v.NumDeltaPocs() > maxDpb; j-- { // num_negative_pics + num_positive_pics <= sps_max_dec_pic_buffering_minus1
			if c.UseDeltaFlag[j] {
				c.UsedByCurrPicFlag[j], c.UseDeltaFlag[j] = false, false
				v = nalgen.HEVCDeriveRPS(&c, ref)
			}
		}
		return c, v
	}
	mx := maxDpb
	if !hevcPct(t, 15, l+"big") && mx > 3 {
		mx = 3
	}
	nNeg := int(hevcInt(t, 0, int64(mx), l+"nneg"))
	nPos := int(hevcInt(t, 0, int64(mx-nNeg), l+"npos"))
	if hevcPct(t, 5, l+"full") {
		nNeg = rapid.IntRange(0, maxDpb).Draw(t, l+"nnegf")
		nPos = maxDpb - nNeg
	}
	for i := 0; i < nNeg; i++ {
		c.DeltaPocS0Minus1 = append(c.DeltaPocS0Minus1, hevcDrawDeltaMinus1(t, l+"d0"))
		c.UsedByCurrPicS0 = append(c.UsedByCurrPicS0, rapid.Bool().Draw(t, l+"u0"))
	}
	for i := 0; i < nPos; i++ {
		c.DeltaPocS1Minus1 = append(c.DeltaPocS1Minus1, hevcDrawDeltaMinus1(t, l+"d1"))
		c.UsedByCurrPicS1 = append(c.UsedByCurrPicS1, rapid.Bool().Draw(t, l+"u1"))
	}
	return c, nalgen.HEVCDeriveRPS(&c, nil)
}

// hevcLibRPS converts the standard's variables into the representation of hevc.ShortTermRPS (DeltaPocSX[i]
// holds delta_poc_sX_minus1[i] + 1, i.e. the distance to the previous entry).
func hevcLibRPS(v *nalgen.HEVCRPSVars) hevc.ShortTermRPS {
	r := hevc.ShortTermRPS{
		NumNegativePics: byte(v.NumNegativePics()),
		NumPositivePics: byte(v.NumPositivePics()),
		NumDeltaPocs:    byte(v.NumDeltaPocs()),
	}
	prev := int64(0)
	for i, d := range v.DeltaPocS0 {
		r.DeltaPocS0 = append(r.DeltaPocS0, uint32(prev-d))
		r.UsedByCurrPicS0 = append(r.UsedByCurrPicS0, v.UsedS0[i])
		prev = d
	}
	prev = 0
	for i, d := range v.DeltaPocS1 {
		r.DeltaPocS1 = append(r.DeltaPocS1, uint32(d-prev))
		r.UsedByCurrPicS1 = append(r.UsedByCurrPicS1, v.UsedS1[i])
		prev = d
	}
	return r
}

// ---------------------------------------------------------------------------------------------
// VUI / HRD

func hevcGenSubLayerHrdParams(t *rapid.T, n int, subPic bool, l string) []hevc.SubLayerHrdParameters {
	ps := make([]hevc.SubLayerHrdParameters, n)
	// bit_rate_value_minus1[i] > [i-1], cpb_size_value_minus1[i] <= [i-1]; 0..2^32-2
	br := hevcU(t, 0, 1<<32-2-uint64(n), l+"br")
	cpb := hevcU(t, 0, 1<<32-2, l+"cpb")
	for i := range ps {
		ps[i].BitRateValueMinus1 = uint32(br)
		ps[i].CpbSizeValueMinus1 = uint32(cpb)
		if subPic {
			ps[i].CpbSizeDuValueMinus1 = uint32(hevcU(t, 0, 1<<32-2, l+"cpbdu"))
			ps[i].BitRateDuValueMinus1 = uint32(hevcU(t, 0, 1<<32-2, l+"brdu"))
		}
		ps[i].CbrFlag = rapid.Bool().Draw(t, l+"cbr")
		br += 1 + uint64(rapid.IntRange(0, 3).Draw(t, l+"brinc"))
		if br > 1<<32-2 {
			br = 1<<32 - 2
		}
		cpb -= cpb / 3
	}
	return ps
}

func hevcGenHRD(t *rapid.T, maxSub int, l string) *hevc.HrdParameters {
	h := &hevc.HrdParameters{}
	h.NalHrdParametersPresentFlag = rapid.Bool().Draw(t, l+"nal")
	h.VclHrdParametersPresentFlag = rapid.Bool().Draw(t, l+"vcl")
	if h.NalHrdParametersPresentFlag || h.VclHrdParametersPresentFlag {
		h.SubPicHrdParamsPresentFlag = rapid.Bool().Draw(t, l+"subpic")
		if h.SubPicHrdParamsPresentFlag {
			h.TickDivisorMinus2 = rapid.Byte().Draw(t, l+"tick")
			h.DuCpbRemovalDelayIncrementLengthMinus1 = uint8(rapid.IntRange(0, 31).Draw(t, l+"du"))
			h.SubPicCpbParamsInPicTimingSeiFlag = rapid.Bool().Draw(t, l+"sei")
			h.DpbOutputDelayDuLengthMinus1 = uint8(rapid.IntRange(0, 31).Draw(t, l+"dpbdu"))
		}
		h.BitRateScale = uint8(rapid.IntRange(0, 15).Draw(t, l+"brs"))
		h.CpbSizeScale = uint8(rapid.IntRange(0, 15).Draw(t, l+"cpbs"))
		if h.SubPicHrdParamsPresentFlag {
			h.CpbSizeDuScale = uint8(rapid.IntRange(0, 15).Draw(t, l+"cpbdus"))
		}
		h.InitialCpbRemovalDelayLengthMinus1 = uint8(rapid.IntRange(0, 31).Draw(t, l+"icpb"))
		h.AuCpbRemovalDelayLengthMinus1 = uint8(rapid.IntRange(0, 31).Draw(t, l+"aucpb"))
		h.DpbOutputDelayLengthMinus1 = uint8(rapid.IntRange(0, 31).Draw(t, l+"dpbo"))
	}
	h.SubLayerHrd = make([]hevc.SubLayerHrd, maxSub+1)
	for i := range h.SubLayerHrd {
		s := &h.SubLayerHrd[i]
		s.FixedPicRateGeneralFlag = rapid.Bool().Draw(t, l+"fixg")
		if !s.FixedPicRateGeneralFlag {
			s.FixedPicRateWithinCvsFlag = rapid.Bool().Draw(t, l+"fixc")
		} else {
			s.FixedPicRateWithinCvsFlag = true // inferred (E.3.2)
		}
		if s.FixedPicRateWithinCvsFlag {
			s.ElementalDurationInTcMinus1 = uint16(hevcInt(t, 0, 2047, l+"eldur"))
		} else {
			s.LowDelayHrdFlag = rapid.Bool().Draw(t, l+"lowd")
		}
		if !s.LowDelayHrdFlag {
			if hevcPct(t, 80, l+"cpbcnt?") {
				s.CpbCntMinus1 = uint8(rapid.IntRange(0, 2).Draw(t, l+"cpbcnt"))
			} else {
				s.CpbCntMinus1 = uint8(hevcInt(t, 0, 31, l+"cpbcnt"))
			}
		}
		n := int(s.CpbCntMinus1) + 1
		if h.NalHrdParametersPresentFlag {
			s.NalHrdParameters = hevcGenSubLayerHrdParams(t, n, h.SubPicHrdParamsPresentFlag, l+"n")
		}
		if h.VclHrdParametersPresentFlag {
			s.VclHrdParameters = hevcGenSubLayerHrdParams(t, n, h.SubPicHrdParamsPresentFlag, l+"v")
		}
	}
	return h
}

func hevcGenVUI(t *rapid.T, tr *nalgen.HEVCSPSTree, l string) {
	v := &hevc.VUIParameters{}
	x := &tr.VUIExtra
	x.AspectRatioInfoPresentFlag = rapid.Bool().Draw(t, l+"ar")
	if x.AspectRatioInfoPresentFlag {
		idc := hevcUni(t, 18, l+"idc") // 17 stands for EXTENDED_SAR
		if idc == 0 && hevcAvoid("hevc-vui-aspect-ratio-idc-0") {
			harness.Rec.Exclude("hevc-vui-aspect-ratio-idc-0")
			idc = 1
		}
		if idc == 17 {
			x.AspectRatioIDC = 255
			v.SampleAspectRatioWidth = uint(hevcInt(t, 0, 65535, l+"sarw"))
			v.SampleAspectRatioHeight = uint(hevcInt(t, 0, 65535, l+"sarh"))
		} else {
			x.AspectRatioIDC = uint8(idc)
			v.SampleAspectRatioWidth, v.SampleAspectRatioHeight = nalgen.HEVCSarTable[idc][0], nalgen.HEVCSarTable[idc][1]
		}
	}
	v.OverscanInfoPresentFlag = rapid.Bool().Draw(t, l+"ovs")
	if v.OverscanInfoPresentFlag {
		v.OverscanAppropriateFlag = rapid.Bool().Draw(t, l+"ovsa")
	}
	v.VideoSignalTypePresentFlag = rapid.Bool().Draw(t, l+"vst")
	if v.VideoSignalTypePresentFlag {
		v.VideoFormat = byte(rapid.IntRange(0, 7).Draw(t, l+"vf"))
		v.VideoFullRangeFlag = rapid.Bool().Draw(t, l+"fr")
		v.ColourDescriptionFlag = rapid.Bool().Draw(t, l+"cd")
		if v.ColourDescriptionFlag {
			v.ColourPrimaries = rapid.Byte().Draw(t, l+"cp")
			v.TransferCharacteristics = rapid.Byte().Draw(t, l+"tc")
			v.MatrixCoefficients = rapid.Byte().Draw(t, l+"mc")
		}
	}
	v.ChromaLocInfoPresentFlag = rapid.Bool().Draw(t, l+"cl")
	if v.ChromaLocInfoPresentFlag {
		v.ChromaSampleLocTypeTopField = uint(rapid.IntRange(0, 5).Draw(t, l+"clt"))
		v.ChromaSampleLocTypeBottomField = uint(rapid.IntRange(0, 5).Draw(t, l+"clb"))
	}
	v.NeutralChromaIndicationFlag = rapid.Bool().Draw(t, l+"nc")
	v.FieldSeqFlag = rapid.Bool().Draw(t, l+"fs")
	v.FrameFieldInfoPresentFlag = rapid.Bool().Draw(t, l+"ffi")
	v.DefaultDisplayWindowFlag = rapid.Bool().Draw(t, l+"ddw")
	if v.DefaultDisplayWindowFlag {
		v.DefDispWinLeftOffset = uint(hevcInt(t, 0, 8191, l+"ddl"))
		v.DefDispWinRightOffset = uint(hevcInt(t, 0, 8191, l+"ddr"))
		v.DefDispWinTopOffset = uint(hevcInt(t, 0, 8191, l+"ddt"))
		v.DefDispWinBottomOffset = uint(hevcInt(t, 0, 8191, l+"ddb"))
	}
	v.TimingInfoPresentFlag = rapid.Bool().Draw(t, l+"ti")
	if v.TimingInfoPresentFlag {
		v.NumUnitsInTick = uint(hevcInt(t, 1, 1<<32-1, l+"nut"))
		v.TimeScale = uint(hevcInt(t, 1, 1<<32-1, l+"ts"))
		v.PocProportionalToTimingFlag = rapid.Bool().Draw(t, l+"ppt")
		if v.PocProportionalToTimingFlag {
			v.NumTicksPocDiffOneMinus1 = uint(hevcInt(t, 0, 1<<32-2, l+"ntp"))
		}
		v.HrdParametersPresentFlag = rapid.Bool().Draw(t, l+"hrd")
		if v.HrdParametersPresentFlag {
			v.HrdParameters = hevcGenHRD(t, int(tr.SPS.MaxSubLayersMinus1), l+"h")
		}
	}
	v.BitstreamRestrictionFlag = rapid.Bool().Draw(t, l+"bsr")
	if v.BitstreamRestrictionFlag {
		v.BitstreamResctrictions = &hevc.BitstreamRestrictions{
			TilesFixedStructureFlag:     rapid.Bool().Draw(t, l+"tfs"),
			MVOverPicBoundariesFlag:     rapid.Bool().Draw(t, l+"mvo"),
			RestrictedRefsPicsListsFlag: rapid.Bool().Draw(t, l+"rrl"),
			MinSpatialSegmentationIDC:   uint(hevcInt(t, 0, 4095, l+"mss")),
			MaxBytesPerPicDenom:         uint(rapid.IntRange(0, 16).Draw(t, l+"mbp")),
			MaxBitsPerMinCuDenom:        uint(rapid.IntRange(0, 16).Draw(t, l+"mbc")),
			Log2MaxMvLengthHorizontal:   uint(rapid.IntRange(0, 15).Draw(t, l+"mvh")),
			Log2MaxMvLengthVertical:     uint(rapid.IntRange(0, 15).Draw(t, l+"mvv")),
		}
	}
	tr.SPS.VUI = v
}

// ---------------------------------------------------------------------------------------------
// SPS

type hevcSPSOpts struct {
	ID      int  // sps_seq_parameter_set_id, -1: draw
	Lean    bool // for the PPS / slice tests: VUI, scaling lists, sub-layers and many RPSs are rare
	Log2Poc int  // log2_max_pic_order_cnt_lsb_minus4, -1: draw
	SAO     int  // sample_adaptive_offset_enabled_flag, -1: draw
	MaxDim  int  // maximum pic width/height in luma samples (<= 65535)
}

func hevcSubWH(chromaFormatIDC byte, separate bool) (uint32, uint32) {
	// Table 6-1
	switch {
	case chromaFormatIDC == 1:
		return 2, 2
	case chromaFormatIDC == 2:
		return 2, 1
	default: // monochrome, 4:4:4 (also with separate_colour_plane_flag)
		return 1, 1
	}
}

var hevcTypicalDims = [][2]int{{64, 64}, {176, 144}, {352, 288}, {416, 240}, {640, 360}, {832, 480}, {1024, 768}, {1280, 720},
	{1920, 1080}, {1920, 1088}, {2560, 1600}, {3840, 2160}, {4096, 2304}, {7680, 4320}, {8192, 4320}}

func hevcGenSPS(t *rapid.T, o hevcSPSOpts, l string) *nalgen.HEVCSPSTree {
	tr := &nalgen.HEVCSPSTree{TemporalIDPlus1: 1}
	s := &tr.SPS
	rare := func(full, lean int, lab string) bool {
		if o.Lean {
			return hevcPct(t, lean, l+lab)
		}
		return hevcPct(t, full, l+lab)
	}
	s.VpsID = byte(rapid.IntRange(0, 15).Draw(t, l+"vps"))
	if rare(40, 8, "sub?") {
		s.MaxSubLayersMinus1 = byte(rapid.IntRange(1, 6).Draw(t, l+"sub"))
	}
	s.TemporalIDNestingFlag = s.MaxSubLayersMinus1 == 0 || rapid.Bool().Draw(t, l+"nest")
	maxSub := int(s.MaxSubLayersMinus1)
	s.ProfileTierLevel = hevcGenPTL(t, maxSub, l+"ptl")
	if o.ID >= 0 {
		s.SpsID = byte(o.ID)
	} else {
		s.SpsID = byte(rapid.IntRange(0, 15).Draw(t, l+"id"))
	}
	s.ChromaFormatIDC = byte(hevcUni(t, 4, l+"chroma"))
	if hevcPct(t, 40, l+"420") {
		s.ChromaFormatIDC = 1
	}
	if s.ChromaFormatIDC == 3 {
		s.SeparateColourPlaneFlag = rapid.Bool().Draw(t, l+"sep")
	}
	// coding block sizes first: picture dimensions are multiples of MinCbSizeY
	minCbLog2 := 3 + rapid.IntRange(0, 3).Draw(t, l+"mincb")
	ctbLog2 := rapid.IntRange(minCbLog2, 6).Draw(t, l+"ctb")
	if ctbLog2 < 4 && hevcPct(t, 80, l+"ctb4") {
		ctbLog2 = 4
	}
	s.Log2MinLumaCodingBlockSizeMinus3 = byte(minCbLog2 - 3)
	s.Log2DiffMaxMinLumaCodingBlockSize = byte(ctbLog2 - minCbLog2)
	minCb := 1 << uint(minCbLog2)
	maxDim := o.MaxDim
	if maxDim == 0 {
		maxDim = 65535
	}
	dim := func(lab string, typical int) uint32 {
		if typical > 0 && typical <= maxDim {
			return uint32((typical + minCb - 1) / minCb * minCb)
		}
		return uint32(hevcInt(t, 1, int64(maxDim/minCb), l+lab)) * uint32(minCb)
	}
	if hevcPct(t, 35, l+"typ") {
		d := rapid.SampledFrom(hevcTypicalDims).Draw(t, l+"dims")
		s.PicWidthInLumaSamples, s.PicHeightInLumaSamples = dim("w", d[0]), dim("h", d[1])
	} else {
		s.PicWidthInLumaSamples, s.PicHeightInLumaSamples = dim("w", 0), dim("h", 0)
	}
	s.ConformanceWindowFlag = hevcPct(t, 50, l+"cw")
	if s.ConformanceWindowFlag {
		sw, sh := hevcSubWH(s.ChromaFormatIDC, s.SeparateColourPlaneFlag)
		// SubWidthC * ( left + right ) < pic_width_in_luma_samples
		mw := int64((s.PicWidthInLumaSamples - 1) / sw)
		mh := int64((s.PicHeightInLumaSamples - 1) / sh)
		le := hevcInt(t, 0, mw, l+"cwl")
		ri := hevcInt(t, 0, mw-le, l+"cwr")
		to := hevcInt(t, 0, mh, l+"cwt")
		bo := hevcInt(t, 0, mh-to, l+"cwb")
		s.ConformanceWindow = hevc.ConformanceWindow{LeftOffset: uint32(le), RightOffset: uint32(ri), TopOffset: uint32(to), BottomOffset: uint32(bo)}
	}
	s.BitDepthLumaMinus8 = byte(hevcInt(t, 0, 8, l+"bdl"))
	s.BitDepthChromaMinus8 = byte(hevcInt(t, 0, 8, l+"bdc"))
	if hevcPct(t, 40, l+"bd8") {
		s.BitDepthLumaMinus8, s.BitDepthChromaMinus8 = 0, 0
	}
	if o.Log2Poc >= 0 {
		s.Log2MaxPicOrderCntLsbMinus4 = byte(o.Log2Poc)
	} else {
		s.Log2MaxPicOrderCntLsbMinus4 = byte(hevcInt(t, 0, 12, l+"poc"))
	}
	pocBits := int(s.Log2MaxPicOrderCntLsbMinus4) + 4
	s.SubLayerOrderingInfoPresentFlag = rapid.Bool().Draw(t, l+"slo")
	{
		n := 1
		if s.SubLayerOrderingInfoPresentFlag {
			n = maxSub + 1
		}
		dpb, reo := 0, 0
		for i := 0; i < n; i++ {
			// sps_max_dec_pic_buffering_minus1: 0..MaxDpbSize-1 (<= 15), non-decreasing; reorder <= dpb, non-decreasing
			dpb = int(hevcInt(t, int64(dpb), 15, l+"dpb"))
			reo = rapid.IntRange(reo, dpb).Draw(t, l+"reo")
			lat := hevcInt(t, 0, 1<<32-2, l+"lat") // sps_max_latency_increase_plus1: 0..2^32-2
			if lat > 255 && hevcAvoid("hevc-sps-max-latency-increase-byte") {
				harness.Rec.Exclude("hevc-sps-max-latency-increase-byte")
				lat = 200 + lat%56
			}
			s.SubLayeringOrderingInfos = append(s.SubLayeringOrderingInfos, hevc.SubLayerOrderingInfo{
				MaxDecPicBufferingMinus1: byte(dpb), MaxNumReorderPics: byte(reo), MaxLatencyIncreasePlus1: byte(lat)})
			// the full ue(v) value (the struct field is only a byte) is kept beside the struct
			tr.MaxLatencyIncreasePlus1 = append(tr.MaxLatencyIncreasePlus1, uint32(lat))
		}
	}
	maxDpb := int(s.SubLayeringOrderingInfos[len(s.SubLayeringOrderingInfos)-1].MaxDecPicBufferingMinus1)
	// transform block sizes: MinTbLog2SizeY < MinCbLog2SizeY, MaxTbLog2SizeY <= Min( CtbLog2SizeY, 5 )
	minTbLog2 := rapid.IntRange(2, hevcMin(minCbLog2-1, 5)).Draw(t, l+"mintb")
	maxTbLog2 := rapid.IntRange(minTbLog2, hevcMin(ctbLog2, 5)).Draw(t, l+"maxtb")
	s.Log2MinLumaTransformBlockSizeMinus2 = byte(minTbLog2 - 2)
	s.Log2DiffMaxMinLumaTransformBlockSize = byte(maxTbLog2 - minTbLog2)
	s.MaxTransformHierarchyDepthInter = byte(rapid.IntRange(0, ctbLog2-minTbLog2).Draw(t, l+"thi"))
	s.MaxTransformHierarchyDepthIntra = byte(rapid.IntRange(0, ctbLog2-minTbLog2).Draw(t, l+"tha"))
	s.ScalingListEnabledFlag = rare(30, 6, "sl")
	if s.ScalingListEnabledFlag {
		s.ScalingListDataPresentFlag = rapid.Bool().Draw(t, l+"sld")
		if s.ScalingListDataPresentFlag {
			tr.ScalingList = hevcGenScalingList(t, l+"sl")
		}
	}
	s.AmpEnabledFlag = rapid.Bool().Draw(t, l+"amp")
	if o.SAO >= 0 {
		s.SampleAdaptiveOffsetEnabledFlag = o.SAO == 1
	} else {
		s.SampleAdaptiveOffsetEnabledFlag = rapid.Bool().Draw(t, l+"sao")
	}
	s.PCMEnabledFlag = hevcPct(t, 30, l+"pcm")
	if s.PCMEnabledFlag {
		// PcmBitDepthY <= BitDepthY, PcmBitDepthC <= BitDepthC (u(4))
		s.PcmSampleBitDepthLumaMinus1 = byte(rapid.IntRange(0, hevcMin(15, int(s.BitDepthLumaMinus8)+7)).Draw(t, l+"pcml"))
		s.PcmSampleBitDepthChromaMinus1 = byte(rapid.IntRange(0, hevcMin(15, int(s.BitDepthChromaMinus8)+7)).Draw(t, l+"pcmc"))
		lo := hevcMin(minCbLog2, 5)
		hi := hevcMin(ctbLog2, 5)
		mn := rapid.IntRange(lo, hi).Draw(t, l+"pcmmin")
		mxp := rapid.IntRange(mn, hi).Draw(t, l+"pcmmax")
		s.Log2MinPcmLumaCodingBlockSize = uint16(mn - 3)
		s.Log2DiffMaxMinPcmLumaCodingBlockSize = uint16(mxp - mn)
		s.PcmLoopFilterDisabledFlag = rapid.Bool().Draw(t, l+"pcmlf")
	}
	// short-term RPSs
	var num int
	switch k := hevcUni(t, 20, l+"nrps?"); {
	case k < 3:
		num = 0
	case k < 7:
		num = 1
	case k < 17:
		num = rapid.IntRange(2, 6).Draw(t, l+"nrps")
	case k < 19 || o.Lean:
		num = rapid.IntRange(7, 17).Draw(t, l+"nrps")
	default:
		num = int(hevcInt(t, 18, 64, l+"nrps"))
	}
	s.NumShortTermRefPicSets = byte(num)
	if num > 0 {
		tr.StRPS = make([]nalgen.HEVCStRPS, num)
		vars := make([]nalgen.HEVCRPSVars, num)
		for i := 0; i < num; i++ {
			tr.StRPS[i], vars[i] = hevcGenRPS(t, i, num+1, vars[:i], maxDpb, l+"rps")
		}
	}
	s.LongTermRefPicsPresentFlag = hevcPct(t, 50, l+"lt")
	if s.LongTermRefPicsPresentFlag {
		var n int
		switch k := hevcUni(t, 10, l+"nlt?"); {
		case k < 2:
			n = 0
		case k < 4:
			n = 1
		case k < 9:
			n = rapid.IntRange(2, 5).Draw(t, l+"nlt")
		default:
			n = int(hevcInt(t, 6, 32, l+"nlt"))
		}
		s.NumLongTermRefPics = uint8(n)
		for i := 0; i < n; i++ {
			s.LongTermRefPicSets = append(s.LongTermRefPicSets, hevc.LongTermRPS{
				PocLsbLt:            uint16(hevcBits(t, pocBits, l+"ltpoc")),
				UsedByCurrPicLtFlag: rapid.Bool().Draw(t, l+"ltu"),
			})
		}
	}
	s.SpsTemporalMvpEnabledFlag = rapid.Bool().Draw(t, l+"tmvp")
	s.StrongIntraSmoothingEnabledFlag = rapid.Bool().Draw(t, l+"sis")
	s.VUIParametersPresentFlag = rare(45, 5, "vui")
	if s.VUIParametersPresentFlag {
		hevcGenVUI(t, tr, l+"v")
	}
	s.ExtensionPresentFlag = hevcPct(t, 45, l+"ext")
	if s.ExtensionPresentFlag {
		s.RangeExtensionFlag = rapid.Bool().Draw(t, l+"rext")
		s.SccExtensionFlag = rapid.Bool().Draw(t, l+"scc")
		if hevcPct(t, 6, l+"e4?") {
			s.Extension4bits = uint8(rapid.IntRange(1, 15).Draw(t, l+"e4"))
		}
	}
	if s.RangeExtensionFlag {
		b := hevcBits(t, 9, l+"rextbits")
		s.RangeExtension = &hevc.SPSRangeExtension{
			TransformSkipRotationEnabledFlag: b&1 != 0, TransformSkipContextEnabledFlag: b&2 != 0, ImplicitRdpcmEnabledFlag: b&4 != 0,
			ExplicitRdpcmEnabledFlag: b&8 != 0, ExtendedPrecisionProcessingFlag: b&16 != 0, IntraSmoothingDisabledFlag: b&32 != 0,
			HighPrecisionOffsetsEnabledFlag: b&64 != 0, PersistentRiceAdaptationEnabledFlag: b&128 != 0, CabacBypassAlignmentEnabledFlag: b&256 != 0,
		}
	}
	if s.SccExtensionFlag {
		e := &hevc.SPSSccExtension{}
		e.CurrPicRefEnabledFlag = rapid.Bool().Draw(t, l+"cpr")
		e.PaletteModeEnabledFlag = rapid.Bool().Draw(t, l+"pal")
		if e.PaletteModeEnabledFlag {
			e.PaletteMaxSize = uint(hevcInt(t, 0, 64, l+"palmax"))
			if e.PaletteMaxSize > 0 { // PaletteMaxPredictorSize = palette_max_size + delta <= 128; delta 0 when palette_max_size 0
				e.DeltaPaletteMaxPredictorSize = uint(hevcInt(t, 0, 128-int64(e.PaletteMaxSize), l+"paldelta"))
			}
			maxPred := int(e.PaletteMaxSize + e.DeltaPaletteMaxPredictorSize)
			if maxPred > 0 {
				e.PalettePredictorInitializersPresentFlag = rapid.Bool().Draw(t, l+"palinit")
			}
			if e.PalettePredictorInitializersPresentFlag {
				n := 1 + rapid.IntRange(0, hevcMin(maxPred-1, 5)).Draw(t, l+"palinitn")
				if hevcPct(t, 5, l+"palinitbig") {
					n = maxPred
				}
				e.NumPalettePredictorInitializersMinus1 = uint(n - 1)
				numComps := 3
				if s.ChromaFormatIDC == 0 {
					numComps = 1
				}
				e.PalettePredictorInitializer = make([][]uint, numComps)
				for c := 0; c < numComps; c++ {
					bd := int(s.BitDepthChromaMinus8) + 8
					if c == 0 {
						bd = int(s.BitDepthLumaMinus8) + 8
					}
					bs := hevcBytes(t, 2*n, l+"palv")
					for i := 0; i < n; i++ {
						e.PalettePredictorInitializer[c] = append(e.PalettePredictorInitializer[c], (uint(bs[2*i])<<8|uint(bs[2*i+1]))&(1<<uint(bd)-1))
					}
				}
			}
		}
		e.MotionVectorResolutionControlIdc = uint8(rapid.IntRange(0, 2).Draw(t, l+"mvres"))
		e.IntraBoundaryFilteringDisabledFlag = rapid.Bool().Draw(t, l+"ibf")
		s.SccExtension = e
	}
	if s.Extension4bits != 0 {
		n := rapid.IntRange(0, 20).Draw(t, l+"e4n")
		b := hevcBits(t, 20, l+"e4bits")
		for i := 0; i < n; i++ {
			s.ExtensionDataFlag = append(s.ExtensionDataFlag, b>>uint(i)&1 != 0)
		}
	}
	return tr
}

func hevcMin(a, b int) int {
	if a < b {
		return a
	}
	return b
}

func hevcMax(a, b int) int {
	if a > b {
		return a
	}
	return b
}

// hevcSPSClasses labels the conditional syntax branches an SPS tree takes.
func hevcSPSClasses(tr *nalgen.HEVCSPSTree) []string {
	s := &tr.SPS
	var c []string
	add := func(b bool, name string) {
		if b {
			c = append(c, name)
		}
	}
	add(s.MaxSubLayersMinus1 > 0, "hevc-sps-sublayers")
	for _, sl := range s.ProfileTierLevel.SubLayers {
		add(sl.ProfilePresentFlag, "hevc-sps-sublayer-profile")
		add(sl.LevelPresentFlag, "hevc-sps-sublayer-level")
	}
	add(s.ProfileTierLevel.GeneralProfileSpace != 0, "hevc-sps-profile-space-nonzero")
	c = append(c, fmt.Sprintf("hevc-sps-chroma-%d", s.ChromaFormatIDC))
	add(s.SeparateColourPlaneFlag, "hevc-sps-separate-colour-plane")
	add(s.ConformanceWindowFlag, "hevc-sps-conf-window")
	add(s.SubLayerOrderingInfoPresentFlag && s.MaxSubLayersMinus1 > 0, "hevc-sps-sublayer-ordering-all")
	add(s.ScalingListEnabledFlag, "hevc-sps-scaling-list-enabled")
	add(s.ScalingListDataPresentFlag, "hevc-sps-scaling-list-data")
	add(s.PCMEnabledFlag, "hevc-sps-pcm")
	c = append(c, "hevc-sps-num-strps-"+hevcBucket(int(s.NumShortTermRefPicSets)))
	inter, explicit := false, false
	for _, r := range tr.StRPS {
		if r.InterRPSPred {
			inter = true
		} else if len(r.DeltaPocS0Minus1)+len(r.DeltaPocS1Minus1) > 0 {
			explicit = true
		}
	}
	add(inter, "hevc-sps-strps-interpred")
	add(explicit, "hevc-sps-strps-explicit")
	add(s.LongTermRefPicsPresentFlag, "hevc-sps-longterm")
	add(s.NumLongTermRefPics > 0, "hevc-sps-longterm-entries")
	add(s.VUIParametersPresentFlag, "hevc-sps-vui")
	if v := s.VUI; v != nil {
		add(tr.VUIExtra.AspectRatioInfoPresentFlag && tr.VUIExtra.AspectRatioIDC == 255, "hevc-sps-vui-extended-sar")
		add(tr.VUIExtra.AspectRatioInfoPresentFlag && tr.VUIExtra.AspectRatioIDC != 255, "hevc-sps-vui-sar-idc")
		add(v.ColourDescriptionFlag, "hevc-sps-vui-colour-description")
		add(v.ChromaLocInfoPresentFlag, "hevc-sps-vui-chroma-loc")
		add(v.DefaultDisplayWindowFlag, "hevc-sps-vui-default-display-window")
		add(v.TimingInfoPresentFlag, "hevc-sps-vui-timing")
		add(v.HrdParametersPresentFlag, "hevc-sps-vui-hrd")
		if h := v.HrdParameters; h != nil {
			add(h.NalHrdParametersPresentFlag, "hevc-sps-vui-hrd-nal")
			add(h.VclHrdParametersPresentFlag, "hevc-sps-vui-hrd-vcl")
			add(h.SubPicHrdParamsPresentFlag, "hevc-sps-vui-hrd-subpic")
			for _, sl := range h.SubLayerHrd {
				add(sl.LowDelayHrdFlag, "hevc-sps-vui-hrd-low-delay")
				add(sl.CpbCntMinus1 > 0, "hevc-sps-vui-hrd-multi-cpb")
			}
		}
		add(v.BitstreamRestrictionFlag, "hevc-sps-vui-bitstream-restriction")
	}
	add(s.ExtensionPresentFlag, "hevc-sps-extension")
	add(s.RangeExtensionFlag, "hevc-sps-range-ext")
	add(s.SccExtensionFlag, "hevc-sps-scc-ext")
	if e := s.SccExtension; e != nil {
		add(e.PaletteModeEnabledFlag, "hevc-sps-scc-palette")
		add(e.PalettePredictorInitializersPresentFlag, "hevc-sps-scc-palette-initializers")
	}
	add(s.Extension4bits != 0, "hevc-sps-extension-4bits-data")
	return c
}

// hevcNontrivial: at least one conditional branch beyond the baseline path (labels listed in baseline are
// the baseline path itself).
func hevcNontrivial(classes []string, baselinePrefixes ...string) bool {
outer:
	for _, c := range classes {
		for _, b := range baselinePrefixes {
			if len(c) >= len(b) && c[:len(b)] == b {
				continue outer
			}
		}
		return true
	}
	return false
}

// ---------------------------------------------------------------------------------------------
// PPS

func hevcGenPPS(t *rapid.T, spsT *nalgen.HEVCSPSTree, id int, l string) *nalgen.HEVCPPSTree {
	sps := &spsT.SPS
	tr := &nalgen.HEVCPPSTree{TemporalIDPlus1: 1}
	p := &tr.PPS
	if id >= 0 {
		p.PicParameterSetID = uint32(id)
	} else {
		p.PicParameterSetID = uint32(hevcInt(t, 0, 63, l+"id"))
	}
	p.SeqParameterSetID = uint32(sps.SpsID)
	chromaArrayType := nalgen.HEVCChromaArrayType(sps)
	ctbLog2 := int(sps.Log2MinLumaCodingBlockSizeMinus3) + 3 + int(sps.Log2DiffMaxMinLumaCodingBlockSize)
	maxTbLog2 := int(sps.Log2MinLumaTransformBlockSizeMinus2) + 2 + int(sps.Log2DiffMaxMinLumaTransformBlockSize)
	p.DependentSliceSegmentsEnabledFlag = rapid.Bool().Draw(t, l+"dep")
	p.OutputFlagPresentFlag = rapid.Bool().Draw(t, l+"out")
	if hevcPct(t, 40, l+"xb?") {
		p.NumExtraSliceHeaderBits = uint8(rapid.IntRange(0, 7).Draw(t, l+"xb"))
	}
	p.SignDataHidingEnabledFlag = rapid.Bool().Draw(t, l+"sdh")
	p.CabacInitPresentFlag = rapid.Bool().Draw(t, l+"cabac")
	p.NumRefIdxL0DefaultActiveMinus1 = uint8(hevcInt(t, 0, 14, l+"l0"))
	p.NumRefIdxL1DefaultActiveMinus1 = uint8(hevcInt(t, 0, 14, l+"l1"))
	qpBdOffsetY := 6 * int64(sps.BitDepthLumaMinus8)
	p.InitQpMinus26 = int8(hevcInt(t, -(26 + qpBdOffsetY), 25, l+"qp"))
	p.ConstrainedIntraPredFlag = rapid.Bool().Draw(t, l+"cip")
	p.TransformSkipEnabledFlag = rapid.Bool().Draw(t, l+"tsk")
	p.CuQpDeltaEnabledFlag = rapid.Bool().Draw(t, l+"cuqp")
	if p.CuQpDeltaEnabledFlag {
		p.DiffCuQpDeltaDepth = uint(rapid.IntRange(0, int(sps.Log2DiffMaxMinLumaCodingBlockSize)).Draw(t, l+"cuqpd"))
	}
	p.CbQpOffset = int8(hevcInt(t, -12, 12, l+"cb"))
	p.CrQpOffset = int8(hevcInt(t, -12, 12, l+"cr"))
	p.SliceChromaQpOffsetsPresentFlag = rapid.Bool().Draw(t, l+"scq")
	p.WeightedPredFlag = rapid.Bool().Draw(t, l+"wp")
	p.WeightedBipredFlag = rapid.Bool().Draw(t, l+"wbp")
	p.TransquantBypassEnabledFlag = rapid.Bool().Draw(t, l+"tqb")
	wCtbs, hCtbs := nalgen.HEVCPicSizeInCtbs(sps)
	p.TilesEnabledFlag = hevcPct(t, 40, l+"tiles") && wCtbs*hCtbs > 1
	p.EntropyCodingSyncEnabledFlag = hevcPct(t, 40, l+"wpp")
	if p.TilesEnabledFlag {
		// num_tile_columns_minus1 0..PicWidthInCtbsY-1 (level limit 20 columns, 22 rows); not both 0
		cols := int(hevcInt(t, 0, int64(hevcMin(int(wCtbs)-1, 19)), l+"tc"))
		rows := int(hevcInt(t, 0, int64(hevcMin(int(hCtbs)-1, 21)), l+"tr"))
		if cols == 0 && rows == 0 {
			if wCtbs > 1 {
				cols = 1
			} else {
				rows = 1
			}
		}
		p.NumTileColumnsMinus1, p.NumTileRowsMinus1 = uint(cols), uint(rows)
		p.UniformSpacingFlag = rapid.Bool().Draw(t, l+"tu")
		if !p.UniformSpacingFlag {
			split := func(n, total int, lab string) []uint {
				// n explicit sizes (each >= 1) whose sum is < total (the last column/row takes the rest, >= 1)
				var out []uint
				spare := total - (n + 1)
				for i := 0; i < n; i++ {
					x := 0
					if spare > 0 {
						x = int(hevcInt(t, 0, int64(spare), l+lab))
					}
					spare -= x
					out = append(out, uint(x))
				}
				return out
			}
			p.ColumnWidthMinus1 = split(cols, int(wCtbs), "tcw")
			p.RowHeightMinus1 = split(rows, int(hCtbs), "trh")
		}
		p.LoopFilterAcrossTilesEnabledFlag = rapid.Bool().Draw(t, l+"tlf")
	}
	p.LoopFilterAcrossSlicesEnabledFlag = rapid.Bool().Draw(t, l+"slf")
	p.DeblockingFilterControlPresentFlag = hevcPct(t, 60, l+"dbc")
	if p.DeblockingFilterControlPresentFlag {
		p.DeblockingFilterOverrideEnabledFlag = rapid.Bool().Draw(t, l+"dbo")
		p.DeblockingFilterDisabledFlag = rapid.Bool().Draw(t, l+"dbd")
		if !p.DeblockingFilterDisabledFlag {
			p.BetaOffsetDiv2 = int8(hevcInt(t, -6, 6, l+"beta"))
			p.TcOffsetDiv2 = int8(hevcInt(t, -6, 6, l+"tc"))
		}
	}
	p.ScalingListDataPresentFlag = hevcPct(t, 8, l+"sl")
	if p.ScalingListDataPresentFlag {
		tr.ScalingList = hevcGenScalingList(t, l+"sl")
	}
	p.ListsModificationPresentFlag = rapid.Bool().Draw(t, l+"lm")
	p.Log2ParallelMergeLevelMinus2 = uint(rapid.IntRange(0, ctbLog2-2).Draw(t, l+"pml"))
	p.SliceSegmentHeaderExtensionPresentFlag = hevcPct(t, 35, l+"she")
	p.ExtensionPresentFlag = hevcPct(t, 45, l+"ext")
	if p.ExtensionPresentFlag {
		p.RangeExtensionFlag = rapid.Bool().Draw(t, l+"rext")
		p.SccExtensionFlag = rapid.Bool().Draw(t, l+"scc")
		if hevcPct(t, 6, l+"e4?") {
			p.Extension4bits = uint8(rapid.IntRange(1, 15).Draw(t, l+"e4"))
		}
	}
	if p.RangeExtensionFlag {
		e := &hevc.RangeExtension{}
		if p.TransformSkipEnabledFlag {
			e.Log2MaxTransformSkipBlockSizeMinus2 = uint(rapid.IntRange(0, maxTbLog2-2).Draw(t, l+"tsb"))
		}
		e.CrossComponentPredictionEnabledFlag = chromaArrayType == 3 && rapid.Bool().Draw(t, l+"ccp")
		e.ChromaQpOffsetListEnabledFlag = chromaArrayType != 0 && rapid.Bool().Draw(t, l+"cql")
		if e.ChromaQpOffsetListEnabledFlag {
			e.DiffCuChromaQpOffsetDepth = uint(rapid.IntRange(0, int(sps.Log2DiffMaxMinLumaCodingBlockSize)).Draw(t, l+"cqd"))
			e.ChromaQpOffsetListLenMinus1 = uint(rapid.IntRange(0, 5).Draw(t, l+"cqn"))
			for i := 0; i <= int(e.ChromaQpOffsetListLenMinus1); i++ {
				e.CbQpOffsetList = append(e.CbQpOffsetList, int8(hevcInt(t, -12, 12, l+"cqcb")))
				e.CrQpOffsetList = append(e.CrQpOffsetList, int8(hevcInt(t, -12, 12, l+"cqcr")))
			}
		}
		e.Log2SaoOffsetScaleLuma = uint(rapid.IntRange(0, hevcMax(0, int(sps.BitDepthLumaMinus8)-2)).Draw(t, l+"sol"))
		e.Log2SaoOffsetScaleChroma = uint(rapid.IntRange(0, hevcMax(0, int(sps.BitDepthChromaMinus8)-2)).Draw(t, l+"soc"))
		p.RangeExtension = e
	}
	if p.SccExtensionFlag {
		e := &hevc.SccExtension{}
		// pps_curr_pic_ref_enabled_flag requires sps_curr_pic_ref_enabled_flag
		e.CurrPicRefEnabledFlag = sps.SccExtension != nil && sps.SccExtension.CurrPicRefEnabledFlag && rapid.Bool().Draw(t, l+"cpr")
		e.ResidualAdaptiveColourTransformEnabledFlag = chromaArrayType == 3 && rapid.Bool().Draw(t, l+"act")
		if e.ResidualAdaptiveColourTransformEnabledFlag {
			e.SliceActQpOffsetsPresentFlag = rapid.Bool().Draw(t, l+"actq")
			e.ActYQpOffsetPlus5 = int(hevcInt(t, -7, 17, l+"acty"))
			e.ActCbQpOffsetPlus5 = int(hevcInt(t, -7, 17, l+"actcb"))
			e.ActCrQpOffsetPlus3 = int(hevcInt(t, -9, 15, l+"actcr"))
		}
		e.PalettePredictorInitializersPresentFlag = rapid.Bool().Draw(t, l+"pal")
		if e.PalettePredictorInitializersPresentFlag {
			maxPred := 128
			if se := sps.SccExtension; se != nil && se.PaletteModeEnabledFlag {
				maxPred = int(se.PaletteMaxSize + se.DeltaPaletteMaxPredictorSize)
			}
			n := rapid.IntRange(0, hevcMin(maxPred, 5)).Draw(t, l+"paln")
			if hevcPct(t, 5, l+"palbig") {
				n = maxPred
			}
			e.NumPalettePredictorInitializers = uint(n)
			if n > 0 {
				e.MonochromePaletteFlag = sps.ChromaFormatIDC == 0
				e.LumaBitDepthEntryMinus8 = uint(sps.BitDepthLumaMinus8)
				numComps := 1
				if !e.MonochromePaletteFlag {
					e.ChromaBitDepthEntryMinus8 = uint(sps.BitDepthChromaMinus8)
					numComps = 3
				}
				e.PalettePredictorInitializer = make([][]uint, numComps)
				for c := 0; c < numComps; c++ {
					bd := int(e.ChromaBitDepthEntryMinus8) + 8
					if c == 0 {
						bd = int(e.LumaBitDepthEntryMinus8) + 8
					}
					bs := hevcBytes(t, 2*n, l+"palv")
					for i := 0; i < n; i++ {
						e.PalettePredictorInitializer[c] = append(e.PalettePredictorInitializer[c], (uint(bs[2*i])<<8|uint(bs[2*i+1]))&(1<<uint(bd)-1))
					}
				}
			}
		}
		p.SccExtension = e
	}
	if p.Extension4bits != 0 {
		n := rapid.IntRange(0, 20).Draw(t, l+"e4n")
		b := hevcBits(t, 20, l+"e4bits")
		for i := 0; i < n; i++ {
			p.ExtensionDataFlag = append(p.ExtensionDataFlag, b>>uint(i)&1 != 0)
		}
	}
	return tr
}

func hevcPPSClasses(tr *nalgen.HEVCPPSTree) []string {
	p := &tr.PPS
	var c []string
	add := func(b bool, name string) {
		if b {
			c = append(c, name)
		}
	}
	add(p.PicParameterSetID != p.SeqParameterSetID, "hevc-pps-id-differs-from-sps-id")
	add(p.CuQpDeltaEnabledFlag, "hevc-pps-cu-qp-delta")
	add(p.TilesEnabledFlag, "hevc-pps-tiles")
	add(p.TilesEnabledFlag && !p.UniformSpacingFlag, "hevc-pps-tiles-explicit-sizes")
	add(p.EntropyCodingSyncEnabledFlag, "hevc-pps-wpp")
	add(p.DeblockingFilterControlPresentFlag, "hevc-pps-deblocking-control")
	add(p.DeblockingFilterControlPresentFlag && !p.DeblockingFilterDisabledFlag, "hevc-pps-deblocking-offsets")
	add(p.ScalingListDataPresentFlag, "hevc-pps-scaling-list-data")
	add(p.NumExtraSliceHeaderBits > 0, "hevc-pps-extra-slice-header-bits")
	add(p.ExtensionPresentFlag, "hevc-pps-extension")
	add(p.RangeExtensionFlag, "hevc-pps-range-ext")
	if e := p.RangeExtension; e != nil {
		add(p.TransformSkipEnabledFlag, "hevc-pps-range-ext-transform-skip-size")
		add(e.ChromaQpOffsetListEnabledFlag, "hevc-pps-range-ext-chroma-qp-offset-list")
	}
	add(p.SccExtensionFlag, "hevc-pps-scc-ext")
	if e := p.SccExtension; e != nil {
		add(e.CurrPicRefEnabledFlag, "hevc-pps-scc-curr-pic-ref")
		add(e.ResidualAdaptiveColourTransformEnabledFlag, "hevc-pps-scc-act")
		add(e.PalettePredictorInitializersPresentFlag, "hevc-pps-scc-palette-present")
		add(e.NumPalettePredictorInitializers > 0, "hevc-pps-scc-palette-initializers")
		add(e.NumPalettePredictorInitializers > 0 && e.MonochromePaletteFlag, "hevc-pps-scc-palette-monochrome")
	}
	add(p.Extension4bits != 0, "hevc-pps-extension-4bits-data")
	return c
}

// ---------------------------------------------------------------------------------------------
// VPS (opaque to the library; used by the configuration record tests)

func hevcGenVPS(t *rapid.T, sps *hevc.SPS, l string) *nalgen.HEVCVPSTree {
	v := &nalgen.HEVCVPSTree{
		VpsID:                  sps.VpsID,
		BaseLayerInternalFlag:  true,
		BaseLayerAvailableFlag: true,
		MaxSubLayersMinus1:     sps.MaxSubLayersMinus1,
		TemporalIDNestingFlag:  sps.TemporalIDNestingFlag,
		PTL:                    sps.ProfileTierLevel,
	}
	v.SubLayerOrderingInfoPresent = sps.SubLayerOrderingInfoPresentFlag
	v.OrderingInfos = sps.SubLayeringOrderingInfos
	v.TimingInfoPresentFlag = rapid.Bool().Draw(t, l+"ti")
	if v.TimingInfoPresentFlag {
		v.NumUnitsInTick = uint32(hevcInt(t, 1, 1<<32-1, l+"nut"))
		v.TimeScale = uint32(hevcInt(t, 1, 1<<32-1, l+"ts"))
		v.PocProportionalToTimingFlag = rapid.Bool().Draw(t, l+"ppt")
		if v.PocProportionalToTimingFlag {
			v.NumTicksPocDiffOneMinus1 = uint32(hevcInt(t, 0, 1<<32-2, l+"ntp"))
		}
	}
	return v
}
