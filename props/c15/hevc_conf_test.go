// C15, HEVC half: configuration record / codec string / sample entry oracle — CreateHEVCDecConfRec,
// DecConfRec.Encode/Decode, hevc.CodecString, mp4.CreateHvcC and TrakBox.SetHEVCDescriptor carry the profile
// space, tier, profile idc, compatibility flags, constraint flags, level, chroma format and bit depths of the
// SPS and the VPS/SPS/PPS NAL units verbatim; the sample entry carries the cropped picture size.
package c15

import (
	"bytes"
	"encoding/json"
	"fmt"
	"strings"
	"testing"

	"github.com/Eyevinn/mp4ff/hevc"
	"github.com/Eyevinn/mp4ff/mp4"
	"pgregory.net/rapid"

	"verif/internal/esgen"
	"verif/internal/harness"
	"verif/internal/nalgen"
)

type hevcConfCase struct {
	VPS nalgen.HEVCVPSTree   `json:"vps"`
	SPS nalgen.HEVCSPSTree   `json:"sps"` // the FIRST SPS: the record's general_* / chroma / bit depth fields come from it
	PPS []nalgen.HEVCPPSTree `json:"pps"`
	// VPS2 / SPS2: a second VPS / SPS handed to the record constructors behind the first one (absent: one of each).
	VPS2          *nalgen.HEVCVPSTree `json:"vps2,omitempty"`
	SPS2          *nalgen.HEVCSPSTree `json:"sps2,omitempty"`
	SampleEntry   string              `json:"sample_entry"` // hvc1 | hev1
	IncludePS     bool                `json:"include_ps"`
	VpsComplete   bool                `json:"vps_complete"`
	SpsComplete   bool                `json:"sps_complete"`
	PpsComplete   bool                `json:"pps_complete"`
	RelaxInterRPS bool                `json:"relax_inter_rps,omitempty"`
}

// hevcRefCodecString: ISO/IEC 14496-15 Annex E. <entry>.<space letter><profile idc>.<compatibility flags, bit
// order reversed, hex>.<L|H><level idc>{.<constraint byte hex>} (trailing zero constraint bytes omitted).
func hevcRefCodecString(entry string, p *hevc.ProfileTierLevel) []string {
	parts := []string{entry}
	parts = append(parts, []string{"", "A", "B", "C"}[p.GeneralProfileSpace]+fmt.Sprintf("%d", p.GeneralProfileIDC))
	var rev uint32
	for i := 0; i < 32; i++ {
		if p.GeneralProfileCompatibilityFlags>>uint(i)&1 != 0 {
			rev |= 1 << uint(31-i)
		}
	}
	parts = append(parts, fmt.Sprintf("%X", rev))
	tier := "L"
	if p.GeneralTierFlag {
		tier = "H"
	}
	parts = append(parts, tier+fmt.Sprintf("%d", p.GeneralLevelIDC))
	var cb []string
	for i := 0; i < 6; i++ {
		cb = append(cb, fmt.Sprintf("%X", byte(p.GeneralConstraintIndicatorFlags>>uint(8*(5-i)))))
	}
	for len(cb) > 0 && cb[len(cb)-1] == "0" {
		cb = cb[:len(cb)-1]
	}
	return append(parts, cb...)
}

// hevcNormCodec splits a codec string and drops trailing zero constraint bytes ("may be omitted"); hex digits
// are compared case-insensitively.
func hevcNormCodec(s string) []string {
	parts := strings.Split(s, ".")
	for len(parts) > 4 && parts[len(parts)-1] == "0" {
		parts = parts[:len(parts)-1]
	}
	for i := range parts {
		if i == 2 || i >= 4 {
			parts[i] = strings.ToUpper(parts[i])
		}
	}
	return parts
}

// hevcRefDecConf parses a HEVCDecoderConfigurationRecord (ISO/IEC 14496-15 8.3.3.1.2) independently.
type hevcRefDecConf struct {
	Version, Space, Tier, IDC byte
	Compat                    uint32
	Constraint                uint64
	Level                     byte
	Chroma, BdLuma, BdChroma  byte
	LengthSizeMinusOne        byte
	Arrays                    []hevcRefArray
	Reserved                  bool // all reserved bits as specified
}

type hevcRefArray struct {
	Complete bool
	Type     byte
	Nalus    [][]byte
}

func hevcParseDecConf(b []byte) (*hevcRefDecConf, error) {
	if len(b) < 23 {
		return nil, fmt.Errorf("short record: %d bytes", len(b))
	}
	r := &hevcRefDecConf{Reserved: true}
	r.Version = b[0]
	r.Space, r.Tier, r.IDC = b[1]>>6, b[1]>>5&1, b[1]&0x1f
	r.Compat = uint32(b[2])<<24 | uint32(b[3])<<16 | uint32(b[4])<<8 | uint32(b[5])
	for i := 0; i < 6; i++ {
		r.Constraint = r.Constraint<<8 | uint64(b[6+i])
	}
	r.Level = b[12]
	if b[13]&0xf0 != 0xf0 || b[15]&0xfc != 0xfc || b[16]&0xfc != 0xfc || b[17]&0xf8 != 0xf8 || b[18]&0xf8 != 0xf8 {
		r.Reserved = false
	}
	r.Chroma, r.BdLuma, r.BdChroma = b[16]&3, b[17]&7, b[18]&7
	r.LengthSizeMinusOne = b[21] & 3
	n := int(b[22])
	pos := 23
	for i := 0; i < n; i++ {
		if pos+3 > len(b) {
			return nil, fmt.Errorf("truncated array header")
		}
		a := hevcRefArray{Complete: b[pos]&0x80 != 0, Type: b[pos] & 0x3f}
		if b[pos]&0x40 != 0 {
			r.Reserved = false
		}
		cnt := int(b[pos+1])<<8 | int(b[pos+2])
		pos += 3
		for j := 0; j < cnt; j++ {
			if pos+2 > len(b) {
				return nil, fmt.Errorf("truncated nalu length")
			}
			l := int(b[pos])<<8 | int(b[pos+1])
			pos += 2
			if pos+l > len(b) {
				return nil, fmt.Errorf("truncated nalu")
			}
			a.Nalus = append(a.Nalus, b[pos:pos+l])
			pos += l
		}
		r.Arrays = append(r.Arrays, a)
	}
	if pos != len(b) {
		return nil, fmt.Errorf("%d trailing bytes", len(b)-pos)
	}
	return r, nil
}

func hevcNalusEqual(a, b [][]byte) bool {
	if len(a) != len(b) {
		return false
	}
	for i := range a {
		if !bytes.Equal(a[i], b[i]) {
			return false
		}
	}
	return true
}

func hevcCheckConf(c hevcConfCase) *harness.Fail {
	s := &c.SPS.SPS
	ptl := &s.ProfileTierLevel
	vps := [][]byte{nalgen.HEVCWriteVPS(&c.VPS)}
	if c.VPS2 != nil {
		vps = append(vps, nalgen.HEVCWriteVPS(c.VPS2))
	}
	spsNal, _ := nalgen.HEVCWriteSPS(&c.SPS)
	spss := [][]byte{spsNal}
	if c.SPS2 != nil {
		// Which SPS of several the record's fields come from is not stated in the doc comment of
		// CreateHEVCDecConfRec ("extract information from sps"); like its AVC sibling it reads spsNalus[0], and
		// SetHEVCDescriptor takes the picture size from spsNALUs[0]. The oracle below therefore compares with the
		// FIRST SPS; the second one must be carried verbatim and must itself parse to its tree.
		nal2, _ := nalgen.HEVCWriteSPS(c.SPS2)
		spss = append(spss, nal2)
		parsed2, err := hevc.ParseSPSNALUnit(nal2)
		if err != nil {
			return harness.Failf("C15|hevc.ParseSPSNALUnit|error on a valid SPS", "%v (second SPS NAL %x)", err, nal2)
		}
		if f := hevcCompareSPS(c.SPS2, parsed2, c.RelaxInterRPS, fmt.Sprintf("second SPS NAL %x", nal2)); f != nil {
			return f
		}
	}
	var ppss [][]byte
	for i := range c.PPS {
		n, _ := nalgen.HEVCWritePPS(&c.PPS[i])
		ppss = append(ppss, n)
	}
	ctx := fmt.Sprintf("SPS NAL %x", spsNal)
	if c.SPS2 != nil {
		ctx = fmt.Sprintf("first of two SPS NAL %x, second %x", spsNal, spss[1])
	}
	parsed, err := hevc.ParseSPSNALUnit(spsNal)
	if err != nil {
		return harness.Failf("C15|hevc.ParseSPSNALUnit|error on a valid SPS", "%v (%s)", err, ctx)
	}
	if f := hevcCompareSPS(&c.SPS, parsed, c.RelaxInterRPS, ctx); f != nil {
		return f
	}
	wantW, wantH := hevcCroppedSize(s)

	// the record's fields against the SPS value tree
	checkRec := func(area string, r *hevc.DecConfRec, includePS bool) *harness.Fail {
		bad := func(field string, got, want interface{}) *harness.Fail {
			return harness.Failf("C15|"+area+"."+field+"|differs from the SPS", "%s.%s = %v, SPS has %v (%s)", area, field, got, want, ctx)
		}
		switch {
		case r.ConfigurationVersion != 1:
			return bad("ConfigurationVersion", r.ConfigurationVersion, 1)
		case r.GeneralProfileSpace != ptl.GeneralProfileSpace:
			return bad("GeneralProfileSpace", r.GeneralProfileSpace, ptl.GeneralProfileSpace)
		case r.GeneralTierFlag != ptl.GeneralTierFlag:
			return bad("GeneralTierFlag", r.GeneralTierFlag, ptl.GeneralTierFlag)
		case r.GeneralProfileIDC != ptl.GeneralProfileIDC:
			return bad("GeneralProfileIDC", r.GeneralProfileIDC, ptl.GeneralProfileIDC)
		case r.GeneralProfileCompatibilityFlags != ptl.GeneralProfileCompatibilityFlags:
			return bad("GeneralProfileCompatibilityFlags", r.GeneralProfileCompatibilityFlags, ptl.GeneralProfileCompatibilityFlags)
		case r.GeneralConstraintIndicatorFlags != ptl.GeneralConstraintIndicatorFlags:
			return bad("GeneralConstraintIndicatorFlags", r.GeneralConstraintIndicatorFlags, ptl.GeneralConstraintIndicatorFlags)
		case r.GeneralLevelIDC != ptl.GeneralLevelIDC:
			return bad("GeneralLevelIDC", r.GeneralLevelIDC, ptl.GeneralLevelIDC)
		case r.ChromaFormatIDC != s.ChromaFormatIDC:
			return bad("ChromaFormatIDC", r.ChromaFormatIDC, s.ChromaFormatIDC)
		case r.BitDepthLumaMinus8 != s.BitDepthLumaMinus8:
			return bad("BitDepthLumaMinus8", r.BitDepthLumaMinus8, s.BitDepthLumaMinus8)
		case r.BitDepthChromaMinus8 != s.BitDepthChromaMinus8:
			return bad("BitDepthChromaMinus8", r.BitDepthChromaMinus8, s.BitDepthChromaMinus8)
		}
		if !includePS {
			if len(r.NaluArrays) != 0 {
				return harness.Failf("C15|"+area+".NaluArrays|present without includePS", "%d arrays", len(r.NaluArrays))
			}
			return nil
		}
		for _, w := range []struct {
			typ      hevc.NaluType
			nalus    [][]byte
			complete bool
		}{{hevc.NALU_VPS, vps, c.VpsComplete}, {hevc.NALU_SPS, spss, c.SpsComplete}, {hevc.NALU_PPS, ppss, c.PpsComplete}} {
			found := false
			for i := range r.NaluArrays {
				a := &r.NaluArrays[i]
				if a.NaluType() != w.typ {
					continue
				}
				found = true
				if !hevcNalusEqual(a.Nalus, w.nalus) {
					return harness.Failf("C15|"+area+".NaluArrays|NAL units not carried verbatim", "type %d: got %x, want %x", w.typ, a.Nalus, w.nalus)
				}
				if (a.Complete() == 1) != w.complete {
					return harness.Failf("C15|"+area+".NaluArrays|array_completeness differs", "type %d: got %d, want %v", w.typ, a.Complete(), w.complete)
				}
			}
			if !found {
				return harness.Failf("C15|"+area+".NaluArrays|array missing", "no array of type %d", w.typ)
			}
		}
		return nil
	}

	// independent parse of the encoded record
	checkBytes := func(area string, enc []byte, includePS, vc, sc, pc bool) *harness.Fail {
		ref, err := hevcParseDecConf(enc)
		if err != nil {
			return harness.Failf("C15|"+area+"|encoded record malformed", "%v: %x", err, enc)
		}
		bdRepresentable := s.BitDepthLumaMinus8 <= 7 && s.BitDepthChromaMinus8 <= 7 // 3-bit fields of the record
		tier := byte(0)
		if ptl.GeneralTierFlag {
			tier = 1
		}
		switch {
		case ref.Version != 1 || ref.Space != ptl.GeneralProfileSpace || ref.Tier != tier || ref.IDC != ptl.GeneralProfileIDC ||
			ref.Compat != ptl.GeneralProfileCompatibilityFlags || ref.Constraint != ptl.GeneralConstraintIndicatorFlags || ref.Level != ptl.GeneralLevelIDC:
			return harness.Failf("C15|"+area+"|encoded profile/tier/level differs from the SPS", "record %+v, SPS PTL %+v (%x)", ref, ptl, enc)
		case ref.Chroma != s.ChromaFormatIDC:
			return harness.Failf("C15|"+area+"|encoded chroma format differs from the SPS", "record %d, SPS %d", ref.Chroma, s.ChromaFormatIDC)
		case bdRepresentable && (ref.BdLuma != s.BitDepthLumaMinus8 || ref.BdChroma != s.BitDepthChromaMinus8):
			return harness.Failf("C15|"+area+"|encoded bit depths differ from the SPS", "record %d/%d, SPS %d/%d", ref.BdLuma, ref.BdChroma, s.BitDepthLumaMinus8, s.BitDepthChromaMinus8)
		case bdRepresentable && !ref.Reserved:
			return harness.Failf("C15|"+area+"|reserved bits of the encoded record wrong", "%x", enc)
		case ref.LengthSizeMinusOne != 3:
			return harness.Failf("C15|"+area+"|lengthSizeMinusOne", "%d", ref.LengthSizeMinusOne)
		}
		if !includePS {
			if len(ref.Arrays) != 0 {
				return harness.Failf("C15|"+area+"|arrays present without includePS", "%d", len(ref.Arrays))
			}
			return nil
		}
		want := []hevcRefArray{{vc, 32, vps}, {sc, 33, spss}, {pc, 34, ppss}}
		if len(ref.Arrays) != 3 {
			return harness.Failf("C15|"+area+"|encoded NAL unit arrays differ", "got %d arrays", len(ref.Arrays))
		}
		for i, w := range want {
			a := ref.Arrays[i]
			if a.Type != w.Type || a.Complete != w.Complete || !hevcNalusEqual(a.Nalus, w.Nalus) {
				return harness.Failf("C15|"+area+"|encoded NAL unit arrays differ", "array %d: got %+v, want %+v", i, a, w)
			}
		}
		return nil
	}

	// 1. CreateHEVCDecConfRec + Encode/Decode
	rec, err := hevc.CreateHEVCDecConfRec(vps, spss, ppss, c.VpsComplete, c.SpsComplete, c.PpsComplete, c.IncludePS)
	if err != nil {
		return harness.Failf("C15|hevc.CreateHEVCDecConfRec|error", "%v (%s)", err, ctx)
	}
	if f := checkRec("hevc.DecConfRec", &rec, c.IncludePS); f != nil {
		return f
	}
	var buf bytes.Buffer
	if err := rec.Encode(&buf); err != nil {
		return harness.Failf("C15|hevc.DecConfRec.Encode|error", "%v", err)
	}
	if uint64(buf.Len()) != rec.Size() {
		return harness.Failf("C15|hevc.DecConfRec.Size|differs from encoded length", "Size %d, encoded %d", rec.Size(), buf.Len())
	}
	if f := checkBytes("hevc.DecConfRec.Encode", buf.Bytes(), c.IncludePS, c.VpsComplete, c.SpsComplete, c.PpsComplete); f != nil {
		return f
	}
	dec, err := hevc.DecodeHEVCDecConfRec(buf.Bytes())
	if err != nil {
		return harness.Failf("C15|hevc.DecodeHEVCDecConfRec|error", "%v (%x)", err, buf.Bytes())
	}
	if s.BitDepthLumaMinus8 <= 7 && s.BitDepthChromaMinus8 <= 7 {
		if f := checkRec("hevc.DecodeHEVCDecConfRec", &dec, c.IncludePS); f != nil {
			return f
		}
	}

	// 2. codec string
	gotCS := hevc.CodecString(c.SampleEntry, parsed)
	wantCS := hevcRefCodecString(c.SampleEntry, ptl)
	if g := hevcNormCodec(gotCS); strings.Join(g, ".") != strings.Join(wantCS, ".") {
		return harness.Failf("C15|hevc.CodecString|differs from ISO/IEC 14496-15 Annex E", "CodecString = %q, reference %q (PTL %+v)", gotCS, strings.Join(wantCS, "."), ptl)
	}

	// 3. CreateHvcC
	hvcC, err := mp4.CreateHvcC(vps, spss, ppss, c.VpsComplete, c.SpsComplete, c.PpsComplete, c.IncludePS)
	if err != nil {
		return harness.Failf("C15|mp4.CreateHvcC|error", "%v", err)
	}
	if f := checkRec("mp4.HvcCBox", &hvcC.DecConfRec, c.IncludePS); f != nil {
		return f
	}
	buf.Reset()
	if err := hvcC.Encode(&buf); err != nil {
		return harness.Failf("C15|mp4.HvcCBox.Encode|error", "%v", err)
	}
	if buf.Len() < 8 || string(buf.Bytes()[4:8]) != "hvcC" || int(uint32(buf.Bytes()[0])<<24|uint32(buf.Bytes()[1])<<16|uint32(buf.Bytes()[2])<<8|uint32(buf.Bytes()[3])) != buf.Len() {
		return harness.Failf("C15|mp4.HvcCBox.Encode|bad box header", "%x", buf.Bytes())
	}
	if f := checkBytes("mp4.HvcCBox.Encode", buf.Bytes()[8:], c.IncludePS, c.VpsComplete, c.SpsComplete, c.PpsComplete); f != nil {
		return f
	}

	// 4. SetHEVCDescriptor (hvc1 needs includePS)
	if c.SampleEntry == "hvc1" && !c.IncludePS {
		return nil
	}
	init := mp4.CreateEmptyInit()
	init.AddEmptyTrack(90000, "video", "und")
	trak := init.Moov.Trak
	if err := trak.SetHEVCDescriptor(c.SampleEntry, vps, spss, ppss, nil, c.IncludePS); err != nil {
		return harness.Failf("C15|mp4.SetHEVCDescriptor|error", "%v (%s)", err, ctx)
	}
	complete := c.SampleEntry == "hvc1"
	checkEntry := func(area string, stsd *mp4.StsdBox, tkhd *mp4.TkhdBox) *harness.Fail {
		e := stsd.HvcX
		if e == nil || e.HvcC == nil {
			return harness.Failf("C15|"+area+"|no hvc1/hev1 sample entry with hvcC", "stsd children %d", len(stsd.Children))
		}
		if e.Type() != c.SampleEntry {
			return harness.Failf("C15|"+area+"|sample entry type", "%s, want %s", e.Type(), c.SampleEntry)
		}
		if uint32(e.Width) != wantW || uint32(e.Height) != wantH {
			return harness.Failf("C15|"+area+"|sample entry width/height differ from the cropped SPS size",
				"entry %dx%d, SPS-derived %dx%d (%s)", e.Width, e.Height, wantW, wantH, ctx)
		}
		if uint32(tkhd.Width) != wantW<<16 || uint32(tkhd.Height) != wantH<<16 {
			return harness.Failf("C15|"+area+"|tkhd width/height differ from the cropped SPS size",
				"tkhd %d/65536 x %d/65536, SPS-derived %dx%d", tkhd.Width, tkhd.Height, wantW, wantH)
		}
		save := [3]bool{c.VpsComplete, c.SpsComplete, c.PpsComplete}
		c.VpsComplete, c.SpsComplete, c.PpsComplete = complete, complete, complete
		f := checkRec(area+".HvcC", &e.HvcC.DecConfRec, c.IncludePS)
		c.VpsComplete, c.SpsComplete, c.PpsComplete = save[0], save[1], save[2]
		return f
	}
	if f := checkEntry("mp4.SetHEVCDescriptor", trak.Mdia.Minf.Stbl.Stsd, trak.Tkhd); f != nil {
		return f
	}
	buf.Reset()
	if err := init.Encode(&buf); err != nil {
		return harness.Failf("C15|mp4.InitSegment.Encode|error", "%v", err)
	}
	file, err := mp4.DecodeFile(bytes.NewReader(buf.Bytes()))
	if err != nil || file.Init == nil || file.Init.Moov == nil || file.Init.Moov.Trak == nil {
		return harness.Failf("C15|mp4.DecodeFile|init segment with HEVC descriptor does not decode", "%v", err)
	}
	if s.BitDepthLumaMinus8 <= 7 && s.BitDepthChromaMinus8 <= 7 {
		t2 := file.Init.Moov.Trak
		if f := checkEntry("mp4.DecodeFile(SetHEVCDescriptor)", t2.Mdia.Minf.Stbl.Stsd, t2.Tkhd); f != nil {
			return f
		}
	}
	return nil
}

func TestHEVCConf(t *testing.T) {
	harness.RunRapid(t, "conf", func(rt *rapid.T) {
		vpss, spss, ppss := esgen.HEVCGenConfSetsMulti(rt)
		sps := &spss[0]
		c := hevcConfCase{SPS: spss[0], VPS: vpss[0], PPS: ppss}
		if len(vpss) > 1 {
			c.VPS2 = &vpss[1]
		}
		if len(spss) > 1 {
			c.SPS2 = &spss[1]
		}
		c.SampleEntry = rapid.SampledFrom([]string{"hvc1", "hev1"}).Draw(rt, "entry")
		c.IncludePS = rapid.Bool().Draw(rt, "include")
		c.VpsComplete, c.SpsComplete, c.PpsComplete = rapid.Bool().Draw(rt, "vc"), rapid.Bool().Draw(rt, "sc"), rapid.Bool().Draw(rt, "pc")
		if c.SPS2 != nil {
			c.RelaxInterRPS = hevcRelaxFor(sps, c.SPS2)
		} else {
			c.RelaxInterRPS = hevcRelaxFor(sps)
		}
		ptl := &sps.SPS.ProfileTierLevel
		classes := []string{"hevc-conf-" + c.SampleEntry}
		add := func(b bool, name string) {
			if b {
				classes = append(classes, name)
			}
		}
		add(c.IncludePS, "hevc-conf-include-ps")
		add(ptl.GeneralProfileSpace != 0, "hevc-conf-profile-space-nonzero")
		add(ptl.GeneralTierFlag, "hevc-conf-high-tier")
		add(ptl.GeneralConstraintIndicatorFlags == 0, "hevc-conf-constraint-all-zero")
		add(ptl.GeneralConstraintIndicatorFlags&0xff != 0, "hevc-conf-constraint-six-bytes")
		add(ptl.GeneralConstraintIndicatorFlags != 0 && ptl.GeneralConstraintIndicatorFlags&0xffffffff == 0, "hevc-conf-constraint-trailing-zero-bytes")
		add(sps.SPS.ChromaFormatIDC != 1, "hevc-conf-chroma-not-420")
		add(sps.SPS.BitDepthLumaMinus8 != 0 || sps.SPS.BitDepthChromaMinus8 != 0, "hevc-conf-bitdepth-not-8")
		add(sps.SPS.BitDepthLumaMinus8 == 8 || sps.SPS.BitDepthChromaMinus8 == 8, "hevc-conf-bitdepth-16-not-representable-in-record")
		add(sps.SPS.ConformanceWindowFlag, "hevc-conf-cropping")
		add(len(c.PPS) == 2, "hevc-conf-two-pps")
		add(len(c.PPS) == 3, "hevc-conf-three-pps")
		add(c.VPS2 != nil, "hevc-conf-two-vps")
		if c.SPS2 != nil {
			// what a record built from the wrong (second) SPS would get wrong
			s2, p2 := &c.SPS2.SPS, &c.SPS2.SPS.ProfileTierLevel
			add(true, "hevc-conf-two-sps")
			add(s2.PicWidthInLumaSamples == sps.SPS.PicWidthInLumaSamples && s2.ChromaFormatIDC == sps.SPS.ChromaFormatIDC &&
				s2.BitDepthLumaMinus8 == sps.SPS.BitDepthLumaMinus8, "hevc-conf-sps2-same-picture-format")
			add(p2.GeneralProfileSpace != ptl.GeneralProfileSpace, "hevc-conf-sps2-profile-space-differs")
			add(p2.GeneralTierFlag != ptl.GeneralTierFlag, "hevc-conf-sps2-tier-differs")
			add(p2.GeneralProfileIDC != ptl.GeneralProfileIDC, "hevc-conf-sps2-profile-idc-differs")
			add(p2.GeneralProfileCompatibilityFlags != ptl.GeneralProfileCompatibilityFlags, "hevc-conf-sps2-compatibility-differs")
			add(p2.GeneralConstraintIndicatorFlags != ptl.GeneralConstraintIndicatorFlags, "hevc-conf-sps2-constraint-flags-differ")
			add(p2.GeneralLevelIDC != ptl.GeneralLevelIDC, "hevc-conf-sps2-level-differs")
			add(s2.ChromaFormatIDC != sps.SPS.ChromaFormatIDC, "hevc-conf-sps2-chroma-differs")
			add(s2.BitDepthLumaMinus8 != sps.SPS.BitDepthLumaMinus8 || s2.BitDepthChromaMinus8 != sps.SPS.BitDepthChromaMinus8, "hevc-conf-sps2-bitdepth-differs")
			w1, h1 := hevcCroppedSize(&sps.SPS)
			w2, h2 := hevcCroppedSize(s2)
			add(w1 != w2 || h1 != h2, "hevc-conf-sps2-picture-size-differs")
			for i := range c.PPS {
				if c.PPS[i].PPS.SeqParameterSetID == uint32(s2.SpsID) {
					add(true, "hevc-conf-pps-refers-to-sps2")
					break
				}
			}
		}
		raw, _ := json.Marshal(c)
		harness.Rec.Case(len(classes) > 1, raw, classes...)
		if harness.Rec.WantSample() {
			harness.Rec.Sample(map[string]interface{}{"kind": "hevcconf", "case": c})
		}
		f := harness.Guarded(func() *harness.Fail { return hevcCheckConf(c) })
		harness.Report(rt, "hevcconf", c, f)
	})
}
