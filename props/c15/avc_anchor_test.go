// C15, AVC: sanity anchor of the independent serialisers against parameter sets and slice headers made by
// real encoders (hex constants of the library's tests, Annex-B test streams, avcC boxes of test files):
// parse with the library, rebuild the value tree from the parsed struct, serialise, require identical bytes.
package c15

import (
	"bytes"
	"encoding/hex"
	"fmt"
	"os"
	"path/filepath"
	"reflect"
	"sort"
	"strings"
	"testing"

	"github.com/Eyevinn/mp4ff/avc"

	"verif/internal/harness"
	"verif/internal/nalgen"
)

var avcAnchorSPSHex = []string{
	"6764001eacd940a02ff9610000030001000003003c8f162d96",                           // avc/avcdecoderconfig_test.go, slice_test.go
	"6764002aac2cac0780227e5c04f000003e90001d4c0e6a000337ec001bcef5ef80f8442370",   // avc/sei_test.go
	"67640020accac05005bb0169e0000003002000000c9c4c000432380008647c12401cb1c31380", // avc/sps_test.go sps1
	"6764000dacd941419f9e10000003001000000303c0f1429960",                           // sps2
	"27640020ac2ec05005bb011000000300100000078e840016e300005b8d8bdef83b438627",     // sps3
	"674d401fe4605017fcb80b4f00000300010000030032e4800753003a9e08200e58e189c0",     // mp4/initsegment_test.go
}

var avcAnchorPPSHex = []string{"68ebecb22c", "68e84332c8b0"}

// avcTreeFromSPS inverts the derived values of a parsed SPS back into coded syntax elements.
func avcTreeFromSPS(nalHdr byte, p *avc.SPS) (nalgen.AVCSPSTree, error) {
	var tr nalgen.AVCSPSTree
	tr.NalRefIdc = nalHdr >> 5 & 3
	tr.S = *p
	cx, cy := nalgen.AVCCropUnits(p)
	w := p.Width
	h := p.Height
	if p.FrameCroppingFlag {
		w += cx * (p.FrameCropLeftOffset + p.FrameCropRightOffset)
		h += cy * (p.FrameCropTopOffset + p.FrameCropBottomOffset)
	}
	if !p.FrameMbsOnlyFlag {
		h /= 2
	}
	if w%16 != 0 || h%16 != 0 || w == 0 || h == 0 {
		return tr, fmt.Errorf("uncropped size %dx%d is not a whole number of macroblocks", w, h)
	}
	tr.PicWidthInMbsMinus1, tr.PicHeightInMapUnitsMinus1 = w/16-1, h/16-1
	// the unchanged library returns the ue code number of the se(v) offsets in unsigned fields
	unmap := func(v reflect.Value) int64 {
		if v.Kind() == reflect.Int || v.Kind() == reflect.Int64 || v.Kind() == reflect.Int32 {
			return v.Int()
		}
		k := v.Uint()
		if k%2 == 1 {
			return int64(k+1) / 2
		}
		return -int64(k / 2)
	}
	tr.OffsetForNonRefPic = unmap(reflect.ValueOf(p.OffsetForNonRefPic))
	tr.OffsetForTopToBottomField = unmap(reflect.ValueOf(p.OffsetForTopToBottomField))
	for i := range p.RefFramesInPicOrderCntCycle {
		tr.OffsetForRefFrame = append(tr.OffsetForRefFrame, unmap(reflect.ValueOf(p.RefFramesInPicOrderCntCycle[i])))
	}
	for _, l := range p.SeqScalingLists {
		tr.ScalingLists = append(tr.ScalingLists, avcScalingSyntaxFromValues(l))
	}
	if v := p.VUI; v != nil && (v.SampleAspectRatioWidth != 0 || v.SampleAspectRatioHeight != 0) {
		tr.AspectRatioInfoPresent = true
		tr.AspectRatioIDC = 255
		for i := 1; i < len(nalgen.AVCSARTable); i++ {
			if nalgen.AVCSARTable[i][0] == v.SampleAspectRatioWidth && nalgen.AVCSARTable[i][1] == v.SampleAspectRatioHeight {
				tr.AspectRatioIDC = uint8(i)
				break
			}
		}
	}
	return tr, nil
}

// avcScalingSyntaxFromValues codes a list the way encoders do: deltas until the rest of the list is constant.
func avcScalingSyntaxFromValues(l avc.ScalingList) nalgen.ScalingListSyntax {
	if l == nil {
		return nalgen.ScalingListSyntax{}
	}
	s := nalgen.ScalingListSyntax{Present: true}
	last := 8
	for j, v := range l {
		rest := true
		for _, x := range l[j:] {
			if x != last {
				rest = false
			}
		}
		if rest && j > 0 {
			d := (256 - last) % 256
			if d > 127 {
				d -= 256
			}
			s.Deltas = append(s.Deltas, d)
			break
		}
		d := v - last
		if d > 127 {
			d -= 256
		}
		if d < -128 {
			d += 256
		}
		s.Deltas = append(s.Deltas, d)
		last = v
	}
	return s
}

func avcTreeFromPPS(nalHdr byte, p *avc.PPS, nalu []byte) nalgen.AVCPPSTree {
	var tr nalgen.AVCPPSTree
	tr.NalRefIdc = nalHdr >> 5 & 3
	tr.P = *p
	for _, l := range p.PicScalingLists {
		tr.ScalingLists = append(tr.ScalingLists, avcScalingSyntaxFromValues(l))
	}
	// the tail is present iff the PPS without tail is shorter than the NAL unit
	noTail := tr
	noTail.TailPresent = false
	short, _ := nalgen.SerializeAVCPPS(&noTail, 1)
	tr.TailPresent = len(short) < len(nalu) || !bytes.Equal(short, nalu)
	return tr
}

// avcSplitAnnexB is an own start-code scanner (00 00 01; trailing zero bytes of a NAL unit dropped).
func avcSplitAnnexB(b []byte) [][]byte {
	var starts []int
	for i := 0; i+2 < len(b); i++ {
		if b[i] == 0 && b[i+1] == 0 && b[i+2] == 1 {
			starts = append(starts, i+3)
			i += 2
		}
	}
	var out [][]byte
	for k, s := range starts {
		e := len(b)
		if k+1 < len(starts) {
			e = starts[k+1] - 3
		}
		for e > s && b[e-1] == 0 {
			e--
		}
		if e > s {
			out = append(out, b[s:e])
		}
	}
	return out
}

// avcFindAvcC extracts the parameter sets of every avcC box found in a file by a plain byte search.
func avcFindAvcC(b []byte) (sps, pps [][]byte) {
	for off := 0; ; {
		i := bytes.Index(b[off:], []byte("avcC"))
		if i < 0 {
			return
		}
		p := off + i + 4
		off = p
		if p+6 > len(b) || b[p] != 1 {
			continue
		}
		n := int(b[p+5] & 0x1f)
		q := p + 6
		ok := true
		var s, pp [][]byte
		rd := func(cnt int, dst *[][]byte) {
			for k := 0; k < cnt && ok; k++ {
				if q+2 > len(b) {
					ok = false
					return
				}
				l := int(b[q])<<8 | int(b[q+1])
				q += 2
				if q+l > len(b) || l == 0 {
					ok = false
					return
				}
				*dst = append(*dst, b[q:q+l])
				q += l
			}
		}
		rd(n, &s)
		if ok && q < len(b) {
			m := int(b[q])
			q++
			rd(m, &pp)
		}
		if ok {
			sps = append(sps, s...)
			pps = append(pps, pp...)
		}
	}
}

func TestAVCAnchor(t *testing.T) {
	type src struct {
		name string
		nalu []byte
	}
	var spsL, ppsL []src
	type stream struct {
		name  string
		nalus [][]byte
	}
	var streams []stream
	for i, h := range avcAnchorSPSHex {
		b, _ := hex.DecodeString(h)
		spsL = append(spsL, src{fmt.Sprintf("const-sps-%d", i), b})
	}
	for i, h := range avcAnchorPPSHex {
		b, _ := hex.DecodeString(h)
		ppsL = append(ppsL, src{fmt.Sprintf("const-pps-%d", i), b})
	}
	var files []string
	_ = filepath.Walk(harness.E.RepoDir, func(p string, info os.FileInfo, err error) error {
		if err != nil || info.IsDir() {
			if err == nil && info.Name() == ".git" {
				return filepath.SkipDir
			}
			return nil
		}
		if info.Size() > 64<<20 {
			return nil
		}
		switch strings.ToLower(filepath.Ext(p)) {
		case ".264", ".h264", ".mp4", ".cmfv", ".m4s", ".m4v", ".mov", ".ismv":
			files = append(files, p)
		}
		return nil
	})
	sort.Strings(files)
	for _, p := range files {
		b, err := os.ReadFile(p)
		if err != nil {
			continue
		}
		rel := strings.TrimPrefix(p, harness.E.RepoDir+"/")
		if strings.HasSuffix(p, "264") {
			nalus := avcSplitAnnexB(b)
			streams = append(streams, stream{rel, nalus})
			for _, n := range nalus {
				switch n[0] & 0x1f {
				case 7:
					spsL = append(spsL, src{rel, n})
				case 8:
					ppsL = append(ppsL, src{rel, n})
				}
			}
			continue
		}
		s, pp := avcFindAvcC(b)
		for _, n := range s {
			if n[0]&0x1f == 7 {
				spsL = append(spsL, src{rel, n})
			}
		}
		for _, n := range pp {
			if n[0]&0x1f == 8 {
				ppsL = append(ppsL, src{rel, n})
			}
		}
	}

	// SPS
	spsMap := map[uint32]*avc.SPS{}
	seen := map[string]bool{}
	nSPS, nPPS, nSlice, nSliceSkipped := 0, 0, 0, 0
	for _, s := range spsL {
		if seen[string(s.nalu)] {
			continue
		}
		seen[string(s.nalu)] = true
		p, err := avc.ParseSPSNALUnit(s.nalu, true)
		if err != nil {
			t.Errorf("%s: library cannot parse SPS %x: %v", s.name, s.nalu, err)
			continue
		}
		tr, err := avcTreeFromSPS(s.nalu[0], p)
		if err != nil {
			t.Errorf("%s: SPS %x: %v", s.name, s.nalu, err)
			continue
		}
		out, info := nalgen.SerializeAVCSPS(&tr)
		if !bytes.Equal(out, s.nalu) && tr.AspectRatioInfoPresent && tr.AspectRatioIDC != 255 {
			// a table ratio may also have been coded as Extended_SAR: the parsed struct cannot tell
			tr.AspectRatioIDC = 255
			out, info = nalgen.SerializeAVCSPS(&tr)
		}
		if !bytes.Equal(out, s.nalu) {
			t.Errorf("%s: SPS re-serialisation differs\n real   %x\n serial %x\n parsed %+v", s.name, s.nalu, out, *p)
			continue
		}
		// and the forward oracle holds on the real SPS too
		if f := avcCompareSPS(&tr, info, p, true, s.name); f != nil {
			t.Errorf("%s: %v", s.name, f)
		}
		if _, dup := spsMap[p.ParameterID]; !dup {
			spsMap[p.ParameterID] = p
		}
		nSPS++
		harness.Rec.CaseDistinct(true, "avc-anchor-sps")
	}
	// PPS (each parsed with a map holding an SPS with the id it refers to, if we have one)
	for _, s := range ppsL {
		if seen[string(s.nalu)] {
			continue
		}
		seen[string(s.nalu)] = true
		p, err := avc.ParsePPSNALUnit(s.nalu, spsMap)
		if err != nil {
			t.Errorf("%s: library cannot parse PPS %x: %v", s.name, s.nalu, err)
			continue
		}
		cf := byte(1)
		if sp := spsMap[p.SeqParameterSetID]; sp != nil {
			cf = sp.ChromaFormatIDC
		}
		tr := avcTreeFromPPS(s.nalu[0], p, s.nalu)
		out, _ := nalgen.SerializeAVCPPS(&tr, cf)
		if !bytes.Equal(out, s.nalu) {
			t.Errorf("%s: PPS re-serialisation differs\n real   %x\n serial %x\n parsed %+v", s.name, s.nalu, out, *p)
			continue
		}
		nPPS++
		harness.Rec.CaseDistinct(true, "avc-anchor-pps")
	}
	// slice headers of the Annex-B streams
	for _, st := range streams {
		sm := map[uint32]*avc.SPS{}
		pm := map[uint32]*avc.PPS{}
		st2 := map[uint32]*nalgen.AVCSPSTree{}
		pt2 := map[uint32]*nalgen.AVCPPSTree{}
		for _, n := range st.nalus {
			switch n[0] & 0x1f {
			case 7:
				if p, err := avc.ParseSPSNALUnit(n, true); err == nil {
					if tr, err := avcTreeFromSPS(n[0], p); err == nil {
						sm[p.ParameterID] = p
						st2[p.ParameterID] = &tr
					}
				}
			case 8:
				if p, err := avc.ParsePPSNALUnit(n, sm); err == nil {
					tr := avcTreeFromPPS(n[0], p, n)
					pm[p.PicParameterSetID] = p
					pt2[p.PicParameterSetID] = &tr
				}
			case 1, 5:
				h, err := avc.ParseSliceHeader(n, sm, pm)
				if err != nil {
					t.Errorf("%s: library cannot parse slice header %x: %v", st.name, n[:avcMin(len(n), 24)], err)
					continue
				}
				pps := pt2[h.PicParamID]
				if pps == nil || st2[pps.P.SeqParameterSetID] == nil || pps.P.SeqParameterSetID != pps.P.PicParameterSetID {
					nSliceSkipped++
					continue
				}
				sps := st2[pps.P.SeqParameterSetID]
				tr := nalgen.AVCSliceTree{NalRefIdc: n[0] >> 5 & 3, NalUnitType: n[0] & 0x1f, H: *h}
				stp := uint32(h.SliceType) % 5
				pwt := (pps.P.WeightedPredFlag && (stp == 0 || stp == 3)) || (pps.P.WeightedBipredIDC == 1 && stp == 1)
				if h.RefPicListModificationL0Flag || h.RefPicListModificationL1Flag || h.AdaptiveRefPicMarkingModeFlag || pwt {
					nSliceSkipped++ // loops are not stored in the parsed struct: cannot be rebuilt
					harness.Rec.Class("avc-anchor-slice-not-rebuildable")
					continue
				}
				_, info := nalgen.SerializeAVCSlice(&tr, sps, pps)
				real := nalgen.Unescape(n[1:])
				if !avcBitPrefixEqual(info.RBSP, real, info.HeaderBits) {
					t.Errorf("%s: slice header re-serialisation differs in the first %d bits\n real   %x\n serial %x\n parsed %+v", st.name, info.HeaderBits, real[:avcMin(len(real), len(info.RBSP))], info.RBSP, *h)
					continue
				}
				if int(h.Size) != info.HeaderBytes {
					t.Errorf("%s: slice header Size %d, serialiser says %d bytes", st.name, h.Size, info.HeaderBytes)
				}
				nSlice++
				harness.Rec.CaseDistinct(true, "avc-anchor-slice")
			}
		}
	}
	t.Logf("anchor: %d SPS, %d PPS, %d slice headers re-serialised identically (%d slices not rebuildable) from %d files + constants", nSPS, nPPS, nSlice, nSliceSkipped, len(files))
	if nSPS < 6 || nPPS < 2 {
		t.Errorf("anchor found too few real parameter sets: %d SPS, %d PPS", nSPS, nPPS)
	}
}

func avcMin(a, b int) int {
	if a < b {
		return a
	}
	return b
}

func avcBitPrefixEqual(a, b []byte, nbits int) bool {
	if len(a)*8 < nbits || len(b)*8 < nbits {
		return false
	}
	n := nbits / 8
	if !bytes.Equal(a[:n], b[:n]) {
		return false
	}
	if r := nbits % 8; r != 0 {
		mask := byte(0xff) << uint(8-r)
		return a[n]&mask == b[n]&mask
	}
	return true
}
