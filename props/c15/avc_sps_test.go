// C15, AVC SPS: value tree -> independent serialiser -> avc.ParseSPSNALUnit == value tree.
package c15

import (
	"encoding/json"
	"fmt"
	"testing"

	"github.com/Eyevinn/mp4ff/avc"
	"pgregory.net/rapid"

	"verif/internal/esgen"
	"verif/internal/harness"
	"verif/internal/nalgen"
)

type avcSPSCase struct {
	Tree nalgen.AVCSPSTree `json:"tree"`
	Hex  string            `json:"hex,omitempty"` // informational: the serialised NAL unit
}

// avcExpectedSPS builds the struct the parser must return for the tree (full: parseVUIBeyondAspectRatio).
// The three se(v) offsets are left zero here: they are compared separately (the struct fields are unsigned).
func avcExpectedSPS(tr *nalgen.AVCSPSTree, info nalgen.AVCSPSBits, full bool) avc.SPS {
	e := tr.S
	e.SeqScalingLists = nil
	if e.SeqScalingMatrixPresentFlag {
		e.SeqScalingLists = make([]avc.ScalingList, len(tr.ScalingLists))
		for i, l := range tr.ScalingLists {
			if !l.Present {
				continue
			}
			size := 16
			if i >= 6 {
				size = 64
			}
			vals, _, _, _ := nalgen.ScalingListValues(l.Deltas, size)
			e.SeqScalingLists[i] = vals
		}
	}
	e.OffsetForNonRefPic, e.OffsetForTopToBottomField, e.RefFramesInPicOrderCntCycle = 0, 0, nil
	e.Width, e.Height = nalgen.AVCDisplaySize(tr)
	e.NrBytesBeforeVUI = nalgen.NalOccupied(info.RBSP, info.BitsThroughVUIF)
	if tr.S.VUI != nil {
		v := *tr.S.VUI
		v.SampleAspectRatioWidth, v.SampleAspectRatioHeight = 0, 0
		if tr.AspectRatioInfoPresent {
			if tr.AspectRatioIDC == 255 {
				v.SampleAspectRatioWidth, v.SampleAspectRatioHeight = tr.S.VUI.SampleAspectRatioWidth, tr.S.VUI.SampleAspectRatioHeight
			} else if int(tr.AspectRatioIDC) < len(nalgen.AVCSARTable) {
				v.SampleAspectRatioWidth, v.SampleAspectRatioHeight = nalgen.AVCSARTable[tr.AspectRatioIDC][0], nalgen.AVCSARTable[tr.AspectRatioIDC][1]
			}
		}
		if full {
			e.VUI = &v
			e.NrBytesRead = nalgen.NalOccupied(info.RBSP, info.BitsData)
		} else {
			e.VUI = &avc.VUIParameters{SampleAspectRatioWidth: v.SampleAspectRatioWidth, SampleAspectRatioHeight: v.SampleAspectRatioHeight}
			e.NrBytesRead = nalgen.NalOccupied(info.RBSP, info.BitsThroughAR)
		}
	} else {
		e.NrBytesRead = e.NrBytesBeforeVUI
	}
	return e
}

// avcCompareSPS compares a parsed SPS with the tree.
func avcCompareSPS(tr *nalgen.AVCSPSTree, info nalgen.AVCSPSBits, got *avc.SPS, full bool, ctx string) *harness.Fail {
	g := *got
	// se(v) offsets first (stored in unsigned fields by the library)
	if tr.S.PicOrderCntType == 1 {
		if int64(g.OffsetForNonRefPic) != tr.OffsetForNonRefPic {
			return harness.Failf("C15|avc.SPS.OffsetForNonRefPic|signed value returned as code number",
				"offset_for_non_ref_pic coded %d (se(v) code number %d), parser returned %d (%s)", tr.OffsetForNonRefPic, nalgen.SEMap(tr.OffsetForNonRefPic), g.OffsetForNonRefPic, ctx)
		}
		if int64(g.OffsetForTopToBottomField) != tr.OffsetForTopToBottomField {
			return harness.Failf("C15|avc.SPS.OffsetForTopToBottomField|signed value returned as code number",
				"offset_for_top_to_bottom_field coded %d (code number %d), parser returned %d (%s)", tr.OffsetForTopToBottomField, nalgen.SEMap(tr.OffsetForTopToBottomField), g.OffsetForTopToBottomField, ctx)
		}
		if len(g.RefFramesInPicOrderCntCycle) != len(tr.OffsetForRefFrame) {
			return harness.Failf("C15|avc.SPS.RefFramesInPicOrderCntCycle|value differs",
				"num_ref_frames_in_pic_order_cnt_cycle coded %d, parser returned %d entries (%s)", len(tr.OffsetForRefFrame), len(g.RefFramesInPicOrderCntCycle), ctx)
		}
		for i, o := range tr.OffsetForRefFrame {
			if int64(g.RefFramesInPicOrderCntCycle[i]) != o {
				return harness.Failf("C15|avc.SPS.RefFramesInPicOrderCntCycle|signed value returned as code number",
					"offset_for_ref_frame[%d] coded %d (code number %d), parser returned %d (%s)", i, o, nalgen.SEMap(o), g.RefFramesInPicOrderCntCycle[i], ctx)
			}
		}
	}
	g.OffsetForNonRefPic, g.OffsetForTopToBottomField, g.RefFramesInPicOrderCntCycle = 0, 0, nil
	want := avcExpectedSPS(tr, info, full)
	return avcFieldFail("avc.SPS", &want, &g, ctx)
}

// avcSPSFeature names rarely used syntax of an SPS (part of the key when the parser rejects the SPS).
func avcSPSFeature(tr *nalgen.AVCSPSTree) string {
	if tr.S.VUI != nil && tr.AspectRatioInfoPresent && tr.AspectRatioIDC == 0 {
		return " with aspect_ratio_idc 0"
	}
	return ""
}

func checkAVCSPS(c avcSPSCase) *harness.Fail {
	tr := c.Tree
	nalu, info := nalgen.SerializeAVCSPS(&tr)
	for _, full := range []bool{true, false} {
		ctx := fmt.Sprintf("parseVUIBeyondAspectRatio=%v, nalu %x", full, nalu)
		got, err := avc.ParseSPSNALUnit(nalu, full)
		if err != nil {
			return harness.Failf("C15|avc.ParseSPSNALUnit|error on valid SPS"+avcSPSFeature(&tr), "%v (%s)", err, ctx)
		}
		if f := avcCompareSPS(&tr, info, got, full, ctx); f != nil {
			return f
		}
	}
	return nil
}

func TestAVCSPS(t *testing.T) {
	harness.RunRapid(t, "sps", func(rt *rapid.T) {
		id := uint32(rapid.SampledFrom([]int{0, 0, 1, 2, 3, 15, 30, 31}).Draw(rt, "seq_parameter_set_id"))
		c := avcSPSCase{Tree: esgen.GenAVCSPS(rt, esgen.AVCSPSOpts{ID: id, PocCycleAny: true})}
		cl := esgen.AVCSPSClasses(&c.Tree)
		raw, _ := json.Marshal(c)
		harness.Rec.Case(esgen.AVCNontrivial(cl, "avc-sps-profile-", "avc-sps-poc0", "avc-sps-baseline-main-extended"), raw, cl...)
		if harness.Rec.WantSample() {
			n, _ := nalgen.SerializeAVCSPS(&c.Tree)
			c.Hex = fmt.Sprintf("%x", n)
			harness.Rec.Sample(map[string]interface{}{"kind": "avcsps", "case": c})
		}
		f := harness.Guarded(func() *harness.Fail { return checkAVCSPS(c) })
		avcReplayConsistent(rt, raw, f, harness.Replayer(checkAVCSPS))
		harness.Report(rt, "avcsps", c, f)
	})
}
