// C15, AVC SPS: value tree -> independent serialiser -> avc.ParseSPSNALUnit == value tree.
package c15

import (
	"encoding/json"
	"fmt"
	"testing"

	"github.com/Eyevinn/mp4ff/avc"
	"pgregory.net/rapid"

	"verif/internal/harness"
	"verif/internal/nalgen"
)

type avcSPSCase struct {
	Tree nalgen.AVCSPSTree `json:"tree"`
	Hex  string            `json:"hex,omitempty"` // informational: the serialised NAL unit
}

var avcProfiles = []uint32{66, 77, 88, 100, 110, 122, 244, 44, 83, 86, 118, 128, 138, 139, 134, 135}
var avcLevels = []uint32{9, 10, 11, 12, 13, 20, 21, 22, 30, 31, 32, 40, 41, 42, 50, 51, 52, 60, 61, 62}

// avcSPSOpts steers the SPS generator.
type avcSPSOpts struct {
	ID    uint32
	Light bool // fewer/lighter scaling lists, VUI, poc cycles (slice and conf contexts)
	Conf  bool // first SPS of a configuration record (known-defect avoidance of the conf checks applies)
}

func genAVCScalingList(t *rapid.T, size int, label string) nalgen.ScalingListSyntax {
	l := nalgen.ScalingListSyntax{Present: true}
	mode := rapid.IntRange(0, 5).Draw(t, label+"-mode")
	if mode == 0 {
		l.Deltas = []int{-8} // nextScale 0 at j==0: useDefaultScalingMatrixFlag
		return l
	}
	stopAt := -1
	if mode == 1 {
		stopAt = rapid.IntRange(1, size-1).Draw(t, label+"-stop")
	}
	last := 8
	for j := 0; j < size; j++ {
		var d int
		switch {
		case j == stopAt:
			d = (256 - last) % 256 // makes nextScale 0: the rest of the list repeats lastScale
			if d > 127 {
				d -= 256
			}
		case mode == 2:
			d = rapid.IntRange(-2, 2).Draw(t, label)
		case mode == 3:
			d = rapid.SampledFrom([]int{-128, 127, -127, 126, 0, 1, -1}).Draw(t, label)
		default:
			d = rapid.IntRange(-128, 127).Draw(t, label)
		}
		l.Deltas = append(l.Deltas, d)
		next := (last + d + 256) % 256
		if next == 0 {
			break
		}
		last = next
	}
	return l
}

func genAVCScalingLists(t *rapid.T, n int, light bool, label string) []nalgen.ScalingListSyntax {
	out := make([]nalgen.ScalingListSyntax, n)
	for i := range out {
		den := 2
		if light || i >= 6 {
			den = 4
		}
		if avcChance(t, 1, den, label+"-present") {
			size := 16
			if i >= 6 {
				size = 64
			}
			out[i] = genAVCScalingList(t, size, label)
		}
	}
	return out
}

func genAVCHRD(t *rapid.T, label string) *avc.HrdParameters {
	h := &avc.HrdParameters{}
	h.CpbCountMinus1 = uint(rapid.SampledFrom([]int{0, 0, 0, 1, 2, 31}).Draw(t, label+"-cpbcnt"))
	h.BitRateScale = uint(rapid.IntRange(0, 15).Draw(t, label+"-brs"))
	h.CpbSizeScale = uint(rapid.IntRange(0, 15).Draw(t, label+"-css"))
	n := int(h.CpbCountMinus1) + 1
	// bit_rate_value_minus1 strictly increasing, cpb_size_value_minus1 non-increasing with SchedSelIdx (E.2.2)
	br := avcDrawUint(t, 0, 1<<32-2-uint64(n-1), label+"-br0")
	cs := avcDrawUint(t, 0, 1<<32-2, label+"-cs0")
	for i := 0; i < n; i++ {
		h.CpbEntries = append(h.CpbEntries, avc.CpbEntry{BitRateValueMinus1: br, CpbSizeValueMinus1: cs, CbrFlag: rapid.Bool().Draw(t, label+"-cbr")})
		if i+1 < n {
			room := uint64(1<<32-2) - uint64(br) - uint64(n-i-2)
			step := uint64(1)
			if room > 1 && avcChance(t, 1, 2, label+"-brstep") {
				step = uint64(avcDrawUint(t, 1, room, label+"-brinc"))
			}
			br += uint(step)
			if cs > 0 && avcChance(t, 1, 2, label+"-csstep") {
				cs = avcDrawUint(t, 0, uint64(cs), label+"-csdec")
			}
		}
	}
	h.InitialCpbRemovalDelayLengthMinus1 = uint(rapid.IntRange(0, 31).Draw(t, label+"-icrd"))
	h.CpbRemovalDelayLengthMinus1 = uint(rapid.IntRange(0, 31).Draw(t, label+"-crd"))
	h.DpbOutputDelayLengthMinus1 = uint(rapid.IntRange(0, 31).Draw(t, label+"-dod"))
	h.TimeOffsetLength = uint(rapid.IntRange(0, 31).Draw(t, label+"-tol"))
	return h
}

func genAVCVUI(t *rapid.T, tr *nalgen.AVCSPSTree, light bool) {
	v := &avc.VUIParameters{}
	tr.S.VUI = v
	tr.AspectRatioInfoPresent = rapid.Bool().Draw(t, "aspect_ratio_info_present_flag")
	if tr.AspectRatioInfoPresent {
		idc := rapid.SampledFrom([]int{0, 1, 2, 13, 16, 255, 255, -1}).Draw(t, "aspect_ratio_idc")
		if idc < 0 {
			idc = rapid.IntRange(1, 16).Draw(t, "aspect_ratio_idc-table")
		}
		if avcAvoid("avc-sps-aspect-ratio-idc0", idc == 0) {
			idc = 1
		}
		tr.AspectRatioIDC = uint8(idc)
		if idc == 255 {
			v.SampleAspectRatioWidth = avcDrawUint(t, 0, 65535, "sar_width")
			v.SampleAspectRatioHeight = avcDrawUint(t, 0, 65535, "sar_height")
		}
	}
	v.OverscanInfoPresentFlag = rapid.Bool().Draw(t, "overscan_info_present_flag")
	if v.OverscanInfoPresentFlag {
		v.OverscanAppropriateFlag = rapid.Bool().Draw(t, "overscan_appropriate_flag")
	}
	v.VideoSignalTypePresentFlag = rapid.Bool().Draw(t, "video_signal_type_present_flag")
	if v.VideoSignalTypePresentFlag {
		v.VideoFormat = uint(rapid.IntRange(0, 5).Draw(t, "video_format"))
		v.VideoFullRangeFlag = rapid.Bool().Draw(t, "video_full_range_flag")
		v.ColourDescriptionFlag = rapid.Bool().Draw(t, "colour_description_present_flag")
		if v.ColourDescriptionFlag {
			v.ColourPrimaries = avcDrawUint(t, 0, 255, "colour_primaries")
			v.TransferCharacteristics = avcDrawUint(t, 0, 255, "transfer_characteristics")
			v.MatrixCoefficients = avcDrawUint(t, 0, 255, "matrix_coefficients")
		}
	}
	v.ChromaLocInfoPresentFlag = rapid.Bool().Draw(t, "chroma_loc_info_present_flag")
	if v.ChromaLocInfoPresentFlag {
		v.ChromaSampleLocTypeTopField = uint(rapid.IntRange(0, 5).Draw(t, "chroma_sample_loc_type_top_field"))
		v.ChromaSampleLocTypeBottomField = uint(rapid.IntRange(0, 5).Draw(t, "chroma_sample_loc_type_bottom_field"))
	}
	v.TimingInfoPresentFlag = rapid.Bool().Draw(t, "timing_info_present_flag")
	if v.TimingInfoPresentFlag {
		v.NumUnitsInTick = avcDrawUint(t, 1, 1<<32-1, "num_units_in_tick")
		v.TimeScale = avcDrawUint(t, 1, 1<<32-1, "time_scale")
		v.FixedFrameRateFlag = rapid.Bool().Draw(t, "fixed_frame_rate_flag")
	}
	hrdDen := 3
	if light {
		hrdDen = 8
	}
	v.NalHrdParametersPresentFlag = avcChance(t, 1, hrdDen, "nal_hrd_parameters_present_flag")
	if v.NalHrdParametersPresentFlag {
		v.NalHrdParameters = genAVCHRD(t, "nalhrd")
	}
	v.VclHrdParametersPresentFlag = avcChance(t, 1, hrdDen, "vcl_hrd_parameters_present_flag")
	if v.VclHrdParametersPresentFlag {
		v.VclHrdParameters = genAVCHRD(t, "vclhrd")
	}
	if v.NalHrdParametersPresentFlag || v.VclHrdParametersPresentFlag {
		v.LowDelayHrdFlag = rapid.Bool().Draw(t, "low_delay_hrd_flag")
	}
	v.PicStructPresentFlag = rapid.Bool().Draw(t, "pic_struct_present_flag")
	v.BitstreamRestrictionFlag = rapid.Bool().Draw(t, "bitstream_restriction_flag")
	if v.BitstreamRestrictionFlag {
		v.MotionVectorsOverPicBoundariesFlag = rapid.Bool().Draw(t, "motion_vectors_over_pic_boundaries_flag")
		v.MaxBytesPerPicDenom = uint(rapid.IntRange(0, 16).Draw(t, "max_bytes_per_pic_denom"))
		v.MaxBitsPerMbDenom = uint(rapid.IntRange(0, 16).Draw(t, "max_bits_per_mb_denom"))
		v.Log2MaxMvLengthHorizontal = uint(rapid.IntRange(0, 16).Draw(t, "log2_max_mv_length_horizontal"))
		v.Log2MaxMvLengthVertical = uint(rapid.IntRange(0, 16).Draw(t, "log2_max_mv_length_vertical"))
		lo := tr.S.NumRefFrames
		if lo > 16 {
			lo = 16
		}
		v.MaxDecFrameBuffering = uint(rapid.IntRange(int(lo), 16).Draw(t, "max_dec_frame_buffering"))
		v.MaxNumReorderFrames = uint(rapid.IntRange(0, int(v.MaxDecFrameBuffering)).Draw(t, "max_num_reorder_frames"))
	}
}

// avcDims draws PicWidthInMbs and PicHeightInMapUnits (frame height in MBs <= 1055, frame size <= 139264 MBs: level 6.2).
func avcDims(t *rapid.T, frameMbsOnly bool) (uint, uint) {
	var w, h int
	switch rapid.IntRange(0, 9).Draw(t, "dims-mode") {
	case 0, 1, 2, 3:
		w = rapid.IntRange(1, 8).Draw(t, "PicWidthInMbs")
		h = rapid.IntRange(1, 8).Draw(t, "PicHeightInMapUnits")
	case 4:
		d := rapid.SampledFrom([][2]int{{120, 68}, {80, 45}, {45, 36}, {22, 18}, {11, 9}, {240, 135}, {256, 135}, {40, 30}, {480, 270}}).Draw(t, "dims-real")
		w, h = d[0], d[1]
	case 5:
		w = 1055
		h = rapid.IntRange(1, 132).Draw(t, "PicHeightInMapUnits")
	case 6:
		h = 1055
		w = rapid.IntRange(1, 132).Draw(t, "PicWidthInMbs")
	default:
		w = int(avcDrawInt(t, 1, 1055, "PicWidthInMbs"))
		h = int(avcDrawInt(t, 1, 139264/int64(w), "PicHeightInMapUnits"))
		if h > 1055 {
			h = 1055
		}
	}
	if !frameMbsOnly {
		// h is FrameHeightInMbs/2
		h = (h + 1) / 2
	}
	return uint(w), uint(h)
}

func genAVCSPS(t *rapid.T, o avcSPSOpts) nalgen.AVCSPSTree {
	var tr nalgen.AVCSPSTree
	s := &tr.S
	tr.NalRefIdc = uint8(rapid.IntRange(1, 3).Draw(t, "sps-nal_ref_idc"))
	s.Profile = rapid.SampledFrom(avcProfiles).Draw(t, "profile_idc")
	s.ProfileCompatibility = uint32(rapid.IntRange(0, 63).Draw(t, "constraint_set_flags")) << 2
	s.Level = rapid.SampledFrom(avcLevels).Draw(t, "level_idc")
	s.ParameterID = o.ID
	s.ChromaFormatIDC = 1
	if nalgen.AVCHighProfileFields(s.Profile) {
		s.ChromaFormatIDC = byte(rapid.SampledFrom([]int{1, 1, 0, 2, 3, 3}).Draw(t, "chroma_format_idc"))
		s.BitDepthLumaMinus8 = uint(rapid.SampledFrom([]int{0, 0, 1, 2, 4, 6}).Draw(t, "bit_depth_luma_minus8"))
		s.BitDepthChromaMinus8 = uint(rapid.SampledFrom([]int{0, 0, 1, 2, 4, 6}).Draw(t, "bit_depth_chroma_minus8"))
		if o.Conf && avcAvoid("avc-conf-chroma-bitdepth-hardcoded", s.ChromaFormatIDC != 1 || s.BitDepthLumaMinus8 != 0 || s.BitDepthChromaMinus8 != 0) {
			s.ChromaFormatIDC, s.BitDepthLumaMinus8, s.BitDepthChromaMinus8 = 1, 0, 0
		}
		if s.ChromaFormatIDC == 3 {
			s.SeparateColourPlaneFlag = rapid.Bool().Draw(t, "separate_colour_plane_flag")
		}
		s.QPPrimeYZeroTransformBypassFlag = rapid.Bool().Draw(t, "qpprime_y_zero_transform_bypass_flag")
		den := 4
		if o.Light {
			den = 12
		}
		s.SeqScalingMatrixPresentFlag = avcChance(t, 1, den, "seq_scaling_matrix_present_flag")
		if s.SeqScalingMatrixPresentFlag {
			n := 8
			if s.ChromaFormatIDC == 3 {
				n = 12
			}
			tr.ScalingLists = genAVCScalingLists(t, n, o.Light, "seq_scaling_list")
		}
	}
	s.Log2MaxFrameNumMinus4 = uint(rapid.IntRange(0, 12).Draw(t, "log2_max_frame_num_minus4"))
	s.PicOrderCntType = uint(rapid.IntRange(0, 2).Draw(t, "pic_order_cnt_type"))
	switch s.PicOrderCntType {
	case 0:
		s.Log2MaxPicOrderCntLsbMinus4 = uint(rapid.IntRange(0, 12).Draw(t, "log2_max_pic_order_cnt_lsb_minus4"))
	case 1:
		s.DeltaPicOrderAlwaysZeroFlag = rapid.Bool().Draw(t, "delta_pic_order_always_zero_flag")
		const m = 1<<31 - 1
		drawOff := func(label string) int64 {
			v := avcDrawInt(t, -m, m, label)
			if avcAvoid("avc-sps-poc1-offsets-unsigned", v != 0 && v != 1) {
				v &= 1
			}
			return v
		}
		tr.OffsetForNonRefPic = drawOff("offset_for_non_ref_pic")
		tr.OffsetForTopToBottomField = drawOff("offset_for_top_to_bottom_field")
		n := rapid.SampledFrom([]int{0, 1, 1, 2, 3, 7, 255}).Draw(t, "num_ref_frames_in_pic_order_cnt_cycle")
		if o.Light && n > 7 {
			n = 4
		}
		for i := 0; i < n; i++ {
			tr.OffsetForRefFrame = append(tr.OffsetForRefFrame, drawOff("offset_for_ref_frame"))
		}
	}
	s.NumRefFrames = uint(rapid.SampledFrom([]int{0, 1, 1, 2, 3, 4, 15, 16}).Draw(t, "max_num_ref_frames"))
	s.GapsInFrameNumValueAllowedFlag = rapid.Bool().Draw(t, "gaps_in_frame_num_value_allowed_flag")
	s.FrameMbsOnlyFlag = avcChance(t, 2, 3, "frame_mbs_only_flag")
	w, h := avcDims(t, s.FrameMbsOnlyFlag)
	tr.PicWidthInMbsMinus1, tr.PicHeightInMapUnitsMinus1 = w-1, h-1
	if !s.FrameMbsOnlyFlag {
		s.MbAdaptiveFrameFieldFlag = rapid.Bool().Draw(t, "mb_adaptive_frame_field_flag")
	}
	s.Direct8x8InferenceFlag = !s.FrameMbsOnlyFlag || rapid.Bool().Draw(t, "direct_8x8_inference_flag") // shall be 1 when frame_mbs_only_flag is 0
	s.FrameCroppingFlag = rapid.Bool().Draw(t, "frame_cropping_flag")
	if s.FrameCroppingFlag {
		cx, cy := nalgen.AVCCropUnits(s)
		fw := w * 16
		fh := h * 16
		if !s.FrameMbsOnlyFlag {
			fh *= 2
		}
		// CropUnitX*(left+right) < width, CropUnitY*(top+bottom) < height (7.4.2.1.1)
		maxX := (fw - 1) / cx
		maxY := (fh - 1) / cy
		hor := avcDrawUint(t, 0, uint64(maxX), "crop-hor")
		ver := avcDrawUint(t, 0, uint64(maxY), "crop-ver")
		s.FrameCropLeftOffset = uint(rapid.IntRange(0, int(hor)).Draw(t, "frame_crop_left_offset"))
		s.FrameCropRightOffset = hor - s.FrameCropLeftOffset
		s.FrameCropTopOffset = uint(rapid.IntRange(0, int(ver)).Draw(t, "frame_crop_top_offset"))
		s.FrameCropBottomOffset = ver - s.FrameCropTopOffset
	}
	den := 2
	if o.Light {
		den = 5
	}
	if avcChance(t, 1, den, "vui_parameters_present_flag") {
		genAVCVUI(t, &tr, o.Light)
	}
	return tr
}

func avcSPSClasses(tr *nalgen.AVCSPSTree) []string {
	s := &tr.S
	cl := []string{fmt.Sprintf("avc-sps-profile-%d", s.Profile), fmt.Sprintf("avc-sps-poc%d", s.PicOrderCntType)}
	if nalgen.AVCHighProfileFields(s.Profile) {
		cl = append(cl, "avc-sps-high-profile", fmt.Sprintf("avc-sps-chroma%d", s.ChromaFormatIDC))
		if s.SeparateColourPlaneFlag {
			cl = append(cl, "avc-sps-separate-colour-plane")
		}
		if s.BitDepthLumaMinus8 != 0 || s.BitDepthChromaMinus8 != 0 {
			cl = append(cl, "avc-sps-highbitdepth")
		}
		if s.SeqScalingMatrixPresentFlag {
			cl = append(cl, "avc-sps-scaling-lists")
			for i, l := range tr.ScalingLists {
				if !l.Present {
					continue
				}
				size := 16
				if i >= 6 {
					size = 64
					cl = append(cl, "avc-sps-scaling-list-8x8")
				}
				if _, _, def, _ := nalgen.ScalingListValues(l.Deltas, size); def {
					cl = append(cl, "avc-sps-scaling-list-usedefault")
				} else if len(l.Deltas) < size {
					cl = append(cl, "avc-sps-scaling-list-earlystop")
				}
			}
		}
	} else {
		cl = append(cl, "avc-sps-baseline-main-extended")
	}
	if s.PicOrderCntType == 1 {
		cl = append(cl, fmt.Sprintf("avc-sps-poc1-cycle-%d", avcBucket(len(tr.OffsetForRefFrame))))
		if tr.OffsetForNonRefPic < 0 || tr.OffsetForTopToBottomField < 0 {
			cl = append(cl, "avc-sps-poc1-negative-offset")
		}
	}
	if !s.FrameMbsOnlyFlag {
		cl = append(cl, "avc-sps-fieldcoding")
		if s.MbAdaptiveFrameFieldFlag {
			cl = append(cl, "avc-sps-mbaff")
		}
	}
	if s.FrameCroppingFlag {
		cl = append(cl, "avc-sps-cropping")
	}
	if v := s.VUI; v != nil {
		cl = append(cl, "avc-sps-vui")
		if tr.AspectRatioInfoPresent {
			if tr.AspectRatioIDC == 255 {
				cl = append(cl, "avc-sps-vui-extended-sar")
			} else {
				cl = append(cl, "avc-sps-vui-sar-table")
			}
		}
		if v.VideoSignalTypePresentFlag {
			cl = append(cl, "avc-sps-vui-videosignal")
			if v.ColourDescriptionFlag {
				cl = append(cl, "avc-sps-vui-colourdesc")
			}
		}
		if v.ChromaLocInfoPresentFlag {
			cl = append(cl, "avc-sps-vui-chromaloc")
		}
		if v.TimingInfoPresentFlag {
			cl = append(cl, "avc-sps-vui-timing")
		}
		if v.NalHrdParametersPresentFlag {
			cl = append(cl, "avc-sps-vui-nalhrd")
		}
		if v.VclHrdParametersPresentFlag {
			cl = append(cl, "avc-sps-vui-vclhrd")
		}
		if v.BitstreamRestrictionFlag {
			cl = append(cl, "avc-sps-vui-bitstream-restriction")
		}
	}
	return cl
}

func avcBucket(n int) int {
	switch {
	case n <= 2:
		return n
	case n < 8:
		return 3
	case n < 255:
		return 8
	}
	return 255
}

// avcExpectedSPS builds the struct the parser must return for the tree (full: parseVUIBeyondAspectRatio).
// The three se(v) offsets are left zero here: they are compared separately (the struct fields are unsigned).
func avcExpectedSPS(tr *nalgen.AVCSPSTree, info nalgen.AVCSPSBits, full bool) avc.SPS {
	e := tr.S
	e.SeqScalingLists = nil
	if e.SeqScalingMatrixPresentFlag {
		e.SeqScalingLists = make([]avc.ScalingList, len(tr.ScalingLists))
		for i, l := range tr.ScalingLists {
			if !l.Present {
				continue
			}
			size := 16
			if i >= 6 {
				size = 64
			}
			vals, _, _, _ := nalgen.ScalingListValues(l.Deltas, size)
			e.SeqScalingLists[i] = vals
		}
	}
	e.OffsetForNonRefPic, e.OffsetForTopToBottomField, e.RefFramesInPicOrderCntCycle = 0, 0, nil
	e.Width, e.Height = nalgen.AVCDisplaySize(tr)
	e.NrBytesBeforeVUI = nalgen.NalOccupied(info.RBSP, info.BitsThroughVUIF)
	if tr.S.VUI != nil {
		v := *tr.S.VUI
		v.SampleAspectRatioWidth, v.SampleAspectRatioHeight = 0, 0
		if tr.AspectRatioInfoPresent {
			if tr.AspectRatioIDC == 255 {
				v.SampleAspectRatioWidth, v.SampleAspectRatioHeight = tr.S.VUI.SampleAspectRatioWidth, tr.S.VUI.SampleAspectRatioHeight
			} else if int(tr.AspectRatioIDC) < len(nalgen.AVCSARTable) {
				v.SampleAspectRatioWidth, v.SampleAspectRatioHeight = nalgen.AVCSARTable[tr.AspectRatioIDC][0], nalgen.AVCSARTable[tr.AspectRatioIDC][1]
			}
		}
		if full {
			e.VUI = &v
			e.NrBytesRead = nalgen.NalOccupied(info.RBSP, info.BitsData)
		} else {
			e.VUI = &avc.VUIParameters{SampleAspectRatioWidth: v.SampleAspectRatioWidth, SampleAspectRatioHeight: v.SampleAspectRatioHeight}
			e.NrBytesRead = nalgen.NalOccupied(info.RBSP, info.BitsThroughAR)
		}
	} else {
		e.NrBytesRead = e.NrBytesBeforeVUI
	}
	return e
}

// avcCompareSPS compares a parsed SPS with the tree.
func avcCompareSPS(tr *nalgen.AVCSPSTree, info nalgen.AVCSPSBits, got *avc.SPS, full bool, ctx string) *harness.Fail {
	g := *got
	// se(v) offsets first (stored in unsigned fields by the library)
	if tr.S.PicOrderCntType == 1 {
		if int64(g.OffsetForNonRefPic) != tr.OffsetForNonRefPic {
			return harness.Failf("C15|avc.SPS.OffsetForNonRefPic|signed value returned as code number",
				"offset_for_non_ref_pic coded %d (se(v) code number %d), parser returned %d (%s)", tr.OffsetForNonRefPic, nalgen.SEMap(tr.OffsetForNonRefPic), g.OffsetForNonRefPic, ctx)
		}
		if int64(g.OffsetForTopToBottomField) != tr.OffsetForTopToBottomField {
			return harness.Failf("C15|avc.SPS.OffsetForTopToBottomField|signed value returned as code number",
				"offset_for_top_to_bottom_field coded %d (code number %d), parser returned %d (%s)", tr.OffsetForTopToBottomField, nalgen.SEMap(tr.OffsetForTopToBottomField), g.OffsetForTopToBottomField, ctx)
		}
		if len(g.RefFramesInPicOrderCntCycle) != len(tr.OffsetForRefFrame) {
			return harness.Failf("C15|avc.SPS.RefFramesInPicOrderCntCycle|value differs",
				"num_ref_frames_in_pic_order_cnt_cycle coded %d, parser returned %d entries (%s)", len(tr.OffsetForRefFrame), len(g.RefFramesInPicOrderCntCycle), ctx)
		}
		for i, o := range tr.OffsetForRefFrame {
			if int64(g.RefFramesInPicOrderCntCycle[i]) != o {
				return harness.Failf("C15|avc.SPS.RefFramesInPicOrderCntCycle|signed value returned as code number",
					"offset_for_ref_frame[%d] coded %d (code number %d), parser returned %d (%s)", i, o, nalgen.SEMap(o), g.RefFramesInPicOrderCntCycle[i], ctx)
			}
		}
	}
	g.OffsetForNonRefPic, g.OffsetForTopToBottomField, g.RefFramesInPicOrderCntCycle = 0, 0, nil
	want := avcExpectedSPS(tr, info, full)
	return avcFieldFail("avc.SPS", &want, &g, ctx)
}

// avcSPSFeature names rarely used syntax of an SPS (part of the key when the parser rejects the SPS).
func avcSPSFeature(tr *nalgen.AVCSPSTree) string {
	if tr.S.VUI != nil && tr.AspectRatioInfoPresent && tr.AspectRatioIDC == 0 {
		return " with aspect_ratio_idc 0"
	}
	return ""
}

func checkAVCSPS(c avcSPSCase) *harness.Fail {
	tr := c.Tree
	nalu, info := nalgen.SerializeAVCSPS(&tr)
	for _, full := range []bool{true, false} {
		ctx := fmt.Sprintf("parseVUIBeyondAspectRatio=%v, nalu %x", full, nalu)
		got, err := avc.ParseSPSNALUnit(nalu, full)
		if err != nil {
			return harness.Failf("C15|avc.ParseSPSNALUnit|error on valid SPS"+avcSPSFeature(&tr), "%v (%s)", err, ctx)
		}
		if f := avcCompareSPS(&tr, info, got, full, ctx); f != nil {
			return f
		}
	}
	return nil
}

func TestAVCSPS(t *testing.T) {
	harness.RunRapid(t, "sps", func(rt *rapid.T) {
		id := uint32(rapid.SampledFrom([]int{0, 0, 1, 2, 3, 15, 30, 31}).Draw(rt, "seq_parameter_set_id"))
		c := avcSPSCase{Tree: genAVCSPS(rt, avcSPSOpts{ID: id})}
		cl := avcSPSClasses(&c.Tree)
		raw, _ := json.Marshal(c)
		harness.Rec.Case(avcNontrivial(cl, "avc-sps-profile-", "avc-sps-poc0", "avc-sps-baseline-main-extended"), raw, cl...)
		if harness.Rec.WantSample() {
			n, _ := nalgen.SerializeAVCSPS(&c.Tree)
			c.Hex = fmt.Sprintf("%x", n)
			harness.Rec.Sample(map[string]interface{}{"kind": "avcsps", "case": c})
		}
		f := harness.Guarded(func() *harness.Fail { return checkAVCSPS(c) })
		avcReplayConsistent(rt, raw, f, harness.Replayer(checkAVCSPS))
		harness.Report(rt, "avcsps", c, f)
	})
}
