// C15, HEVC half: hand-made minimal reproducers of the confirmed library defects (one per avoid switch in
// hevcAvoidKnown). They are stored as replay files /verif/replay/C15/kf-<switch>.json
// (C15_HEVC_WRITE_KF=1 go test ./props/c15 -run TestHEVCKnownFindings rewrites them) and re-checked here:
// on the unchanged tree each one must still fail with the recorded key; one that stops failing is reported
// (the defect was repaired: switch the avoid switch off for good).
package c15

import (
	"encoding/json"
	"os"
	"path/filepath"
	"testing"

	"github.com/Eyevinn/mp4ff/hevc"

	"verif/internal/esgen"
	"verif/internal/harness"
	"verif/internal/nalgen"
)

// hevcBaseSPS: 64x64, 4:2:0, 8 bit, CTB 16, poc lsb 4 bits, DPB 4, nothing optional.
func hevcBaseSPS(id byte) nalgen.HEVCSPSTree {
	return nalgen.HEVCSPSTree{TemporalIDPlus1: 1, SPS: hevc.SPS{
		TemporalIDNestingFlag: true,
		ProfileTierLevel:      hevc.ProfileTierLevel{GeneralProfileIDC: 1, GeneralProfileCompatibilityFlags: 0x60000000, GeneralLevelIDC: 30},
		SpsID:                 id, ChromaFormatIDC: 1, PicWidthInLumaSamples: 64, PicHeightInLumaSamples: 64,
		SubLayeringOrderingInfos:          []hevc.SubLayerOrderingInfo{{MaxDecPicBufferingMinus1: 4}},
		Log2DiffMaxMinLumaCodingBlockSize: 1,
	}}
}

func hevcBasePPS(id, spsID uint32) nalgen.HEVCPPSTree {
	return nalgen.HEVCPPSTree{TemporalIDPlus1: 1, PPS: hevc.PPS{PicParameterSetID: id, SeqParameterSetID: spsID}}
}

// hevcBaseSlice: first slice segment of a TRAIL_R picture, I slice, in-header empty RPS.
func hevcBaseSlice(ppsID uint32) nalgen.HEVCSliceTree {
	return nalgen.HEVCSliceTree{NalType: nalgen.HEVCNalTrailR, TemporalIDPlus1: 1,
		SH:    hevc.SliceHeader{FirstSliceSegmentInPicFlag: true, PicParameterSetId: ppsID, SliceType: hevc.SLICE_I, CollocatedFromL0Flag: true},
		Extra: nalgen.HEVCSliceExtra{StRPS: &nalgen.HEVCStRPS{}}}
}

type hevcKF struct {
	Switch string
	Kind   string
	Key    string
	Case   interface{}
}

func hevcKnownFindingCases() []hevcKF {
	var out []hevcKF

	// aspect_ratio_idc = 0
	{
		s := hevcBaseSPS(0)
		s.SPS.VUIParametersPresentFlag = true
		s.SPS.VUI = &hevc.VUIParameters{}
		s.VUIExtra = nalgen.HEVCVUIExtra{AspectRatioInfoPresentFlag: true, AspectRatioIDC: 0}
		out = append(out, hevcKF{"hevc-vui-aspect-ratio-idc-0", "hevcsps", "C15|hevc.ParseSPSNALUnit|error on a valid SPS", hevcSPSCase{Tree: s}})
	}
	// sps_max_latency_increase_plus1 = 256
	{
		s := hevcBaseSPS(0)
		s.MaxLatencyIncreasePlus1 = []uint32{256}
		out = append(out, hevcKF{"hevc-sps-max-latency-increase-byte", "hevcsps",
			"C15|hevc.SPS.SubLayeringOrderingInfos.MaxLatencyIncreasePlus1|value differs", hevcSPSCase{Tree: s}})
	}
	// inter-predicted RPS: set 0 = { -1 (used) }, set 1 predicted from set 0 with deltaRps = -1, both candidates kept:
	// (7-61) gives DeltaPocS0 = { -1, -2 }, both used
	{
		s := hevcBaseSPS(0)
		s.SPS.NumShortTermRefPicSets = 2
		s.StRPS = []nalgen.HEVCStRPS{
			{DeltaPocS0Minus1: []uint32{0}, UsedByCurrPicS0: []bool{true}},
			{InterRPSPred: true, DeltaRpsSign: true, AbsDeltaRpsMinus1: 0, UsedByCurrPicFlag: []bool{true, true}, UseDeltaFlag: []bool{true, true}},
		}
		out = append(out, hevcKF{"hevc-strps-interpred-not-derived", "hevcsps",
			"C15|hevc.SPS.ShortTermRefPicSets.DeltaPocS0.len|value differs", hevcSPSCase{Tree: s}})
	}
	// short_term_ref_pic_set_idx inferred 0 (one RPS in the SPS, chosen by short_term_ref_pic_set_sps_flag)
	{
		s := hevcBaseSPS(0)
		s.SPS.NumShortTermRefPicSets = 1
		s.StRPS = []nalgen.HEVCStRPS{{DeltaPocS0Minus1: []uint32{0}, UsedByCurrPicS0: []bool{true}}}
		sl := hevcBaseSlice(0)
		sl.Extra.StRPS = nil
		sl.SH.ShortTermRefPicSetSpsFlag = true
		sl.SH.PicOrderCntLsb = 1
		out = append(out, hevcKF{"hevc-slice-strps-idx-inferred", "hevcslice",
			"C15|hevc.SliceHeader.ShortTermRefPicSet.DeltaPocS0.len|value differs",
			hevcSliceCase{SPS: []nalgen.HEVCSPSTree{s}, PPS: []nalgen.HEVCPPSTree{hevcBasePPS(0, 0)}, Slice: sl}})
	}
	// lt_idx_sps inferred 0 (one candidate long-term picture in the SPS)
	{
		s := hevcBaseSPS(0)
		s.SPS.LongTermRefPicsPresentFlag = true
		s.SPS.NumLongTermRefPics = 1
		s.SPS.LongTermRefPicSets = []hevc.LongTermRPS{{PocLsbLt: 5, UsedByCurrPicLtFlag: true}}
		sl := hevcBaseSlice(0)
		sl.SH.PicOrderCntLsb = 9
		sl.SH.NumLongTermSps = 1
		sl.SH.LongTermRefPicSets = []hevc.LongTermRPS{{PocLsbLt: 5, UsedByCurrPicLtFlag: true}}
		sl.Extra.LtIdxSps = []uint32{0}
		out = append(out, hevcKF{"hevc-slice-lt-idx-inferred", "hevcslice",
			"C15|hevc.SliceHeader.LongTermRefPicSets.PocLsbLt|value differs",
			hevcSliceCase{SPS: []nalgen.HEVCSPSTree{s}, PPS: []nalgen.HEVCPPSTree{hevcBasePPS(0, 0)}, Slice: sl}})
	}
	// slice_deblocking_filter_disabled_flag inferred from the PPS: slice_loop_filter_across_slices_enabled_flag absent
	{
		s := hevcBaseSPS(0)
		p := hevcBasePPS(0, 0)
		p.PPS.LoopFilterAcrossSlicesEnabledFlag = true
		p.PPS.DeblockingFilterControlPresentFlag = true
		p.PPS.DeblockingFilterDisabledFlag = true
		sl := hevcBaseSlice(0)
		sl.SH.QpDelta = 3
		out = append(out, hevcKF{"hevc-slice-deblocking-disabled-inferred", "hevcslice",
			"C15|hevc.ParseSliceHeader|error on a valid slice segment header",
			hevcSliceCase{SPS: []nalgen.HEVCSPSTree{s}, PPS: []nalgen.HEVCPPSTree{p}, Slice: sl}})
	}
	// pred_weight_table with the current picture as only reference (pps_curr_pic_ref_enabled_flag): no weight flags
	{
		s := hevcBaseSPS(0)
		s.SPS.ExtensionPresentFlag = true
		s.SPS.SccExtensionFlag = true
		s.SPS.SccExtension = &hevc.SPSSccExtension{CurrPicRefEnabledFlag: true}
		p := hevcBasePPS(0, 0)
		p.PPS.WeightedPredFlag = true
		p.PPS.ExtensionPresentFlag = true
		p.PPS.SccExtensionFlag = true
		p.PPS.SccExtension = &hevc.SccExtension{CurrPicRefEnabledFlag: true}
		sl := hevcBaseSlice(0)
		sl.SH.SliceType = hevc.SLICE_P
		sl.SH.PredWeightTable = &hevc.PredWeightTable{LumaLog2WeightDenom: 0, WeightsL0: []hevc.WeightingFactors{{}}}
		sl.Extra.PwtCurrPicL0 = []bool{true}
		sl.SH.FiveMinusMaxNumMergeCand = 0
		sl.SH.QpDelta = 0
		out = append(out, hevcKF{"hevc-slice-pwt-currpic-entry", "hevcslice",
			"C15|hevc.ParseSliceHeader|error on a valid slice segment header",
			hevcSliceCase{SPS: []nalgen.HEVCSPSTree{s}, PPS: []nalgen.HEVCPPSTree{p}, Slice: sl}})
	}
	return out
}

func TestHEVCKnownFindings(t *testing.T) {
	dir := filepath.Join(harness.E.VerifDir, "replay", "C15")
	cases := hevcKnownFindingCases()
	seen := map[string]bool{}
	for _, kf := range cases {
		seen[kf.Switch] = true
		if _, ok := esgen.HEVCAvoidKnown[kf.Switch]; !ok {
			t.Errorf("reproducer for unknown switch %s", kf.Switch)
		}
		raw, err := json.Marshal(kf.Case)
		if err != nil {
			t.Fatal(err)
		}
		var f *harness.Fail
		switch kf.Kind {
		case "hevcsps":
			f = harness.Replayer(hevcCheckSPS)(raw)
		case "hevcslice":
			f = harness.Replayer(hevcCheckSlice)(raw)
		default:
			t.Fatalf("kind %s", kf.Kind)
		}
		switch {
		case f == nil:
			t.Logf("known finding %s does NOT reproduce any more (repaired?): the avoid switch can be removed", kf.Switch)
		case f.Key != kf.Key:
			t.Errorf("known finding %s reproduces with key %q, recorded key %q: %s", kf.Switch, f.Key, kf.Key, f.Msg)
		default:
			t.Logf("known finding %s reproduces: %s", kf.Switch, f.Msg)
		}
		if os.Getenv("C15_HEVC_WRITE_KF") == "" {
			continue // the replay files (kf-* known, fixed-* repaired) are re-executed by the driver's replay tier
		}
		msg := ""
		if f != nil {
			msg = f.Msg
		}
		rf := harness.ReplayFile{Property: "C15", Kind: kf.Kind, Key: kf.Key, Msg: msg, Case: raw}
		want, _ := json.MarshalIndent(rf, "", " ")
		path := filepath.Join(dir, "kf-"+kf.Switch+".json")
		if os.Getenv("C15_HEVC_WRITE_KF") != "" {
			_ = os.MkdirAll(dir, 0o755)
			if err := os.WriteFile(path, append(want, '\n'), 0o644); err != nil {
				t.Fatal(err)
			}
			continue
		}
		have, err := os.ReadFile(path)
		if err != nil {
			t.Errorf("reproducer file missing: %v (run with C15_HEVC_WRITE_KF=1)", err)
			continue
		}
		var onDisk harness.ReplayFile
		if err := json.Unmarshal(have, &onDisk); err != nil || onDisk.Kind != kf.Kind || onDisk.Key != kf.Key {
			t.Errorf("%s: not the recorded reproducer (kind %q key %q)", path, onDisk.Kind, onDisk.Key)
			continue
		}
		// the file must replay to the same verdict as the in-code case
		var f2 *harness.Fail
		if kf.Kind == "hevcsps" {
			f2 = harness.Replayer(hevcCheckSPS)(onDisk.Case)
		} else {
			f2 = harness.Replayer(hevcCheckSlice)(onDisk.Case)
		}
		if (f == nil) != (f2 == nil) || (f != nil && f.Key != f2.Key) {
			t.Errorf("%s replays differently from the in-code case", path)
		}
	}
	for name := range esgen.HEVCAvoidKnown {
		if !seen[name] {
			t.Errorf("avoid switch %s has no reproducer", name)
		}
	}
}
