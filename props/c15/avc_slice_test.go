// C15, AVC slice header: value tree -> independent serialiser -> avc.ParseSliceHeader == value tree,
// Size == bytes the header occupies, PPS/SPS resolved through pic_parameter_set_id -> seq_parameter_set_id.
package c15

import (
	"encoding/json"
	"fmt"
	"testing"

	"github.com/Eyevinn/mp4ff/avc"
	"pgregory.net/rapid"

	"verif/internal/esgen"
	"verif/internal/harness"
	"verif/internal/nalgen"
)

type avcSliceCase struct {
	SPS   []nalgen.AVCSPSTree `json:"sps"`
	PPS   []nalgen.AVCPPSTree `json:"pps"`
	Slice nalgen.AVCSliceTree `json:"slice"` // Slice.H.PicParamID selects the PPS
	Hex   string              `json:"hex,omitempty"`
}

func (c *avcSliceCase) resolve() (*nalgen.AVCSPSTree, *nalgen.AVCPPSTree) {
	for i := range c.PPS {
		if c.PPS[i].P.PicParameterSetID == c.Slice.H.PicParamID {
			for j := range c.SPS {
				if c.SPS[j].S.ParameterID == c.PPS[i].P.SeqParameterSetID {
					return &c.SPS[j], &c.PPS[i]
				}
			}
		}
	}
	return nil, nil
}

func avcSliceClasses(c *avcSliceCase, info nalgen.AVCSliceBits) []string {
	tr := &c.Slice
	h := &tr.H
	cl := []string{fmt.Sprintf("avc-slice-type-%d", h.SliceType), fmt.Sprintf("avc-slice-naltype-%d", tr.NalUnitType)}
	sps, pps := c.resolve()
	if pps.P.PicParameterSetID != pps.P.SeqParameterSetID {
		cl = append(cl, "avc-slice-ppsid-differs-from-spsid")
		for i := range c.SPS {
			if c.SPS[i].S.ParameterID == pps.P.PicParameterSetID {
				cl = append(cl, "avc-slice-decoy-sps-with-pps-id")
			}
		}
	}
	if sps.S.SeparateColourPlaneFlag {
		cl = append(cl, "avc-slice-colour-plane")
	}
	if h.FieldPicFlag {
		cl = append(cl, "avc-slice-field")
	} else if !sps.S.FrameMbsOnlyFlag {
		cl = append(cl, "avc-slice-frame-in-field-sps")
	}
	cl = append(cl, fmt.Sprintf("avc-slice-poc%d", sps.S.PicOrderCntType))
	if h.NumRefIdxActiveOverrideFlag {
		cl = append(cl, "avc-slice-num-ref-idx-override")
	}
	if h.RefPicListModificationL0Flag || h.RefPicListModificationL1Flag {
		cl = append(cl, "avc-slice-ref-pic-list-modification")
	}
	if info.PredWeightTablePresent {
		cl = append(cl, "avc-slice-pred-weight-table")
	}
	if tr.NalRefIdc != 0 {
		cl = append(cl, "avc-slice-dec-ref-pic-marking")
		if h.AdaptiveRefPicMarkingModeFlag {
			cl = append(cl, "avc-slice-mmco")
		}
	}
	if pps.P.EntropyCodingModeFlag && h.SliceType%5 != 2 && h.SliceType%5 != 4 {
		cl = append(cl, "avc-slice-cabac-init")
	}
	if pps.P.DeblockingFilterControlPresentFlag {
		cl = append(cl, "avc-slice-deblocking")
	}
	if pps.P.RedundantPicCntPresentFlag {
		cl = append(cl, "avc-slice-redundant-pic-cnt")
	}
	if pps.P.NumSliceGroupsMinus1 > 0 && pps.P.SliceGroupMapType >= 3 && pps.P.SliceGroupMapType <= 5 {
		cl = append(cl, "avc-slice-group-change-cycle")
	}
	if n := len(nalgen.Escape(info.RBSP[:(info.HeaderBits+7)/8])) - (info.HeaderBits+7)/8; n > 0 {
		cl = append(cl, "avc-slice-escape-inside-header")
	}
	return cl
}

// avcExpectedSlice builds the struct the parser must return. For syntax elements that occur in loops the
// struct has one scalar field each; the value coded last (in bitstream order) is expected there.
func avcExpectedSlice(tr *nalgen.AVCSliceTree, pps *nalgen.AVCPPSTree, info nalgen.AVCSliceBits) avc.SliceHeader {
	e := tr.H
	st := uint32(e.SliceType) % 5
	e.SeqParamID = pps.P.SeqParameterSetID
	e.Size = uint32(info.HeaderBytes)
	e.ModificationOfPicNumsIDC, e.AbsDiffPicNumMinus1, e.LongTermPicNum, e.AbsDiffViewIdxMinus1 = 0, 0, 0, 0
	e.DifferenceOfPicNumsMinus1, e.LongTermFramIdx, e.MaxLongTermFrameIdxPlus1 = 0, 0, 0
	mods := func(l []nalgen.RefPicListMod) {
		for _, m := range l {
			if m.IDC == 2 {
				e.LongTermPicNum = m.Value
			} else {
				e.AbsDiffPicNumMinus1 = m.Value
			}
		}
		e.ModificationOfPicNumsIDC = 3
	}
	if st != 2 && st != 4 && e.RefPicListModificationL0Flag {
		mods(tr.ModL0)
	}
	if st == 1 && e.RefPicListModificationL1Flag {
		mods(tr.ModL1)
	}
	if tr.NalRefIdc != 0 && tr.NalUnitType != 5 && e.AdaptiveRefPicMarkingModeFlag {
		for _, m := range tr.MMCOs {
			if m.Op == 1 || m.Op == 3 {
				e.DifferenceOfPicNumsMinus1 = m.DifferenceOfPicNumsMinus1
			}
			if m.Op == 2 {
				e.LongTermPicNum = m.LongTermPicNum
			}
			if m.Op == 3 || m.Op == 6 {
				e.LongTermFramIdx = m.LongTermFrameIdx
			}
			if m.Op == 4 {
				e.MaxLongTermFrameIdxPlus1 = m.MaxLongTermFrameIdxPlus1
			}
		}
	}
	return e
}

func checkAVCSlice(c avcSliceCase) *harness.Fail {
	sps, pps := c.resolve()
	if sps == nil {
		return harness.Failf("harness|bad-case", "slice pps id %d does not resolve inside the case", c.Slice.H.PicParamID)
	}
	spsMap, ppsMap, _, _, f := avcParseSets(c.SPS, c.PPS)
	if f != nil {
		return f
	}
	nalu, info := nalgen.SerializeAVCSlice(&c.Slice, sps, pps)
	ctx := fmt.Sprintf("slice nalu %x, header %d bits, pps id %d -> sps id %d", nalu, info.HeaderBits, pps.P.PicParameterSetID, pps.P.SeqParameterSetID)
	want := avcExpectedSlice(&c.Slice, pps, info)
	judge := func(got *avc.SliceHeader, err error) *harness.Fail {
		if err != nil {
			return harness.Failf("C15|avc.ParseSliceHeader|error on valid slice", "%v (%s)", err, ctx)
		}
		want, g := want, *got
		if st := uint32(want.SliceType) % 5; st != 1 {
			// num_ref_idx_l1_active_minus1 is neither coded nor inferred for slices other than B: not judged
			want.NumRefIdxL1ActiveMinus1, g.NumRefIdxL1ActiveMinus1 = 0, 0
		}
		// Size last: a wrong Size usually is the consequence of a wrong field which is the better diagnosis
		ws, gs := want.Size, g.Size
		want.Size, g.Size = 0, 0
		if f := avcFieldFail("avc.SliceHeader", &want, &g, ctx); f != nil {
			return f
		}
		if ws != gs {
			return harness.Failf("C15|avc.SliceHeader.Size|differs from bytes occupied by the header",
				"Size %d, the header occupies %d bytes (NAL header byte + %d header bits, emulation prevention included) (%s)", gs, ws, info.HeaderBits, ctx)
		}
		return nil
	}
	got, err := avc.ParseSliceHeader(nalu, spsMap, ppsMap)
	f = judge(got, err)
	if f != nil && pps.P.PicParameterSetID != pps.P.SeqParameterSetID {
		// Root-cause probe: does the verdict change when the right SPS is (also) filed under the PPS's own id?
		alt := map[uint32]*avc.SPS{}
		for k, v := range spsMap {
			alt[k] = v
		}
		alt[pps.P.PicParameterSetID] = spsMap[pps.P.SeqParameterSetID]
		got2, err2 := avc.ParseSliceHeader(nalu, alt, ppsMap)
		if f2 := judge(got2, err2); f2 == nil || f2.Key == "C15|avc.SliceHeader.SeqParamID|value differs" {
			return harness.Failf("C15|avc.ParseSliceHeader|SPS looked up with pic_parameter_set_id instead of the PPS's seq_parameter_set_id",
				"%s [the verdict disappears when the SPS %d is also stored under key %d of the SPS map]", f.Msg, pps.P.SeqParameterSetID, pps.P.PicParameterSetID)
		}
	}
	return f
}

func genAVCSliceCase(rt *rapid.T) avcSliceCase {
	var c avcSliceCase
	// PBBias: P, B and I about equally often (the plain generator, which C16 uses, ends 58 % of the slices as I/SI)
	c.SPS, c.PPS, c.Slice, _, _ = esgen.GenAVCSliceSetOpt(rt, esgen.AVCSliceOpts{PBBias: true})
	return c
}

func TestAVCSlice(t *testing.T) {
	harness.RunRapid(t, "slice", func(rt *rapid.T) {
		c := genAVCSliceCase(rt)
		sps, pps := c.resolve()
		_, info := nalgen.SerializeAVCSlice(&c.Slice, sps, pps)
		cl := avcSliceClasses(&c, info)
		raw, _ := json.Marshal(c)
		harness.Rec.Case(esgen.AVCNontrivial(cl, "avc-slice-type-", "avc-slice-naltype-", "avc-slice-poc0"), raw, cl...)
		if harness.Rec.WantSample() {
			harness.Rec.Sample(map[string]interface{}{"kind": "avcslice", "case": c})
		}
		f := harness.Guarded(func() *harness.Fail { return checkAVCSlice(c) })
		avcReplayConsistent(rt, raw, f, harness.Replayer(checkAVCSlice))
		harness.Report(rt, "avcslice", c, f)
	})
}
