// C15, AVC slice header: value tree -> independent serialiser -> avc.ParseSliceHeader == value tree,
// Size == bytes the header occupies, PPS/SPS resolved through pic_parameter_set_id -> seq_parameter_set_id.
package c15

import (
	"encoding/json"
	"fmt"
	"testing"

	"github.com/Eyevinn/mp4ff/avc"
	"pgregory.net/rapid"

	"verif/internal/harness"
	"verif/internal/nalgen"
)

type avcSliceCase struct {
	SPS   []nalgen.AVCSPSTree `json:"sps"`
	PPS   []nalgen.AVCPPSTree `json:"pps"`
	Slice nalgen.AVCSliceTree `json:"slice"` // Slice.H.PicParamID selects the PPS
	Hex   string              `json:"hex,omitempty"`
}

func (c *avcSliceCase) resolve() (*nalgen.AVCSPSTree, *nalgen.AVCPPSTree) {
	for i := range c.PPS {
		if c.PPS[i].P.PicParameterSetID == c.Slice.H.PicParamID {
			for j := range c.SPS {
				if c.SPS[j].S.ParameterID == c.PPS[i].P.SeqParameterSetID {
					return &c.SPS[j], &c.PPS[i]
				}
			}
		}
	}
	return nil, nil
}

func genAVCRefPicListMod(t *rapid.T, maxOps int, maxPicNum uint64, label string) []nalgen.RefPicListMod {
	n := rapid.IntRange(1, maxOps).Draw(t, label+"-n")
	if n > 4 && !avcChance(t, 1, 4, label+"-many") {
		n = 1 + n%4
	}
	var out []nalgen.RefPicListMod
	for i := 0; i < n; i++ {
		idc := uint32(rapid.IntRange(0, 2).Draw(t, label+"-modification_of_pic_nums_idc"))
		var v uint32
		if idc == 2 {
			v = uint32(avcDrawUint(t, 0, 31, label+"-long_term_pic_num"))
		} else {
			v = uint32(avcDrawUint(t, 0, maxPicNum-1, label+"-abs_diff_pic_num_minus1"))
		}
		out = append(out, nalgen.RefPicListMod{IDC: idc, Value: v})
	}
	return out
}

func genAVCPredWeights(t *rapid.T, n uint32, chroma bool, label string) []nalgen.PredWeight {
	out := make([]nalgen.PredWeight, n+1)
	for i := range out {
		e := &out[i]
		e.LumaFlag = rapid.Bool().Draw(t, label+"-luma_weight_flag")
		if e.LumaFlag {
			e.LumaWeight = int32(avcDrawInt(t, -128, 127, label+"-luma_weight"))
			e.LumaOffset = int32(avcDrawInt(t, -128, 127, label+"-luma_offset"))
		}
		if chroma {
			e.ChromaFlag = rapid.Bool().Draw(t, label+"-chroma_weight_flag")
			if e.ChromaFlag {
				for j := 0; j < 2; j++ {
					e.ChromaWeight[j] = int32(avcDrawInt(t, -128, 127, label+"-chroma_weight"))
					e.ChromaOffset[j] = int32(avcDrawInt(t, -128, 127, label+"-chroma_offset"))
				}
			}
		}
	}
	return out
}

// genAVCSlice draws a slice header that refers to pps (-> sps).
func genAVCSlice(t *rapid.T, sps *nalgen.AVCSPSTree, pps *nalgen.AVCPPSTree) nalgen.AVCSliceTree {
	var tr nalgen.AVCSliceTree
	h := &tr.H
	s := &sps.S
	p := &pps.P
	idr := avcChance(t, 1, 3, "idr")
	tr.NalUnitType = 1
	if idr {
		tr.NalUnitType = 5
		tr.NalRefIdc = uint8(rapid.IntRange(1, 3).Draw(t, "nal_ref_idc"))
		h.SliceType = avc.SliceType(rapid.SampledFrom([]int{2, 7, 4, 9}).Draw(t, "slice_type"))
	} else {
		tr.NalRefIdc = uint8(rapid.IntRange(0, 3).Draw(t, "nal_ref_idc"))
		h.SliceType = avc.SliceType(rapid.IntRange(0, 9).Draw(t, "slice_type"))
	}
	st := uint32(h.SliceType) % 5
	isP, isB, isI, isSP, isSI := st == 0, st == 1, st == 2, st == 3, st == 4
	h.PicParamID = p.PicParameterSetID
	chromaArrayType := avcChromaFormatIDC(s)
	if s.SeparateColourPlaneFlag {
		chromaArrayType = 0
		h.ColorPlaneID = uint32(rapid.IntRange(0, 2).Draw(t, "colour_plane_id"))
	}
	maxFrameNum := uint64(1) << (s.Log2MaxFrameNumMinus4 + 4)
	if !idr {
		h.FrameNum = uint32(avcDrawUint(t, 0, maxFrameNum-1, "frame_num"))
	}
	if !s.FrameMbsOnlyFlag {
		h.FieldPicFlag = rapid.Bool().Draw(t, "field_pic_flag")
		if h.FieldPicFlag {
			h.BottomFieldFlag = rapid.Bool().Draw(t, "bottom_field_flag")
		}
	}
	// first_mb_in_slice: 0..PicSizeInMbs-1 (PicSizeInMbs/2-1 in MBAFF frames)
	frameHeightInMbs := uint64(sps.PicHeightInMapUnitsMinus1 + 1)
	if !s.FrameMbsOnlyFlag {
		frameHeightInMbs *= 2
	}
	picHeightInMbs := frameHeightInMbs
	if h.FieldPicFlag {
		picHeightInMbs /= 2
	}
	picSizeInMbs := uint64(sps.PicWidthInMbsMinus1+1) * picHeightInMbs
	if s.MbAdaptiveFrameFieldFlag && !h.FieldPicFlag {
		picSizeInMbs /= 2
	}
	h.FirstMBInSlice = uint32(avcDrawUint(t, 0, picSizeInMbs-1, "first_mb_in_slice"))
	if idr {
		h.IDRPicID = uint32(avcDrawUint(t, 0, 65535, "idr_pic_id"))
	}
	const m31 = 1<<31 - 1
	if s.PicOrderCntType == 0 {
		h.PicOrderCntLsb = uint32(avcDrawUint(t, 0, uint64(1)<<(s.Log2MaxPicOrderCntLsbMinus4+4)-1, "pic_order_cnt_lsb"))
		if p.BottomFieldPicOrderInFramePresentFlag && !h.FieldPicFlag {
			h.DeltaPicOrderCntBottom = int32(avcDrawInt(t, -m31, m31, "delta_pic_order_cnt_bottom"))
		}
	}
	if s.PicOrderCntType == 1 && !s.DeltaPicOrderAlwaysZeroFlag {
		h.DeltaPicOrderCnt[0] = int32(avcDrawInt(t, -m31, m31, "delta_pic_order_cnt[0]"))
		if p.BottomFieldPicOrderInFramePresentFlag && !h.FieldPicFlag {
			h.DeltaPicOrderCnt[1] = int32(avcDrawInt(t, -m31, m31, "delta_pic_order_cnt[1]"))
		}
	}
	if p.RedundantPicCntPresentFlag {
		h.RedundantPicCnt = uint32(avcDrawUint(t, 0, 127, "redundant_pic_cnt"))
	}
	if isB {
		h.DirectSpatialMvPredFlag = rapid.Bool().Draw(t, "direct_spatial_mv_pred_flag")
	}
	maxIdx := uint64(15)
	if h.FieldPicFlag {
		maxIdx = 31
	}
	if isP || isSP || isB {
		needOverride := uint64(p.NumRefIdxI0DefaultActiveMinus1) > maxIdx || (isB && uint64(p.NumRefIdxI1DefaultActiveMinus1) > maxIdx)
		h.NumRefIdxActiveOverrideFlag = needOverride || rapid.Bool().Draw(t, "num_ref_idx_active_override_flag")
		if h.NumRefIdxActiveOverrideFlag {
			h.NumRefIdxL0ActiveMinus1 = uint32(avcDrawUint(t, 0, maxIdx, "num_ref_idx_l0_active_minus1"))
			if isB {
				h.NumRefIdxL1ActiveMinus1 = uint32(avcDrawUint(t, 0, maxIdx, "num_ref_idx_l1_active_minus1"))
			}
		} else {
			// inferred from the PPS (7.4.3)
			h.NumRefIdxL0ActiveMinus1 = uint32(p.NumRefIdxI0DefaultActiveMinus1)
			if isB {
				h.NumRefIdxL1ActiveMinus1 = uint32(p.NumRefIdxI1DefaultActiveMinus1)
			}
		}
	}
	maxPicNum := maxFrameNum
	if h.FieldPicFlag {
		maxPicNum *= 2
	}
	if !isI && !isSI {
		h.RefPicListModificationL0Flag = avcChance(t, 1, 3, "ref_pic_list_modification_flag_l0")
		if h.RefPicListModificationL0Flag {
			tr.ModL0 = genAVCRefPicListMod(t, int(h.NumRefIdxL0ActiveMinus1)+1, maxPicNum, "l0")
		}
	}
	if isB {
		h.RefPicListModificationL1Flag = avcChance(t, 1, 3, "ref_pic_list_modification_flag_l1")
		if h.RefPicListModificationL1Flag {
			tr.ModL1 = genAVCRefPicListMod(t, int(h.NumRefIdxL1ActiveMinus1)+1, maxPicNum, "l1")
		}
	}
	if (p.WeightedPredFlag && (isP || isSP)) || (p.WeightedBipredIDC == 1 && isB) {
		h.LumaLog2WeightDenom = uint32(rapid.IntRange(0, 7).Draw(t, "luma_log2_weight_denom"))
		if chromaArrayType != 0 {
			h.ChromaLog2WeightDenom = uint32(rapid.IntRange(0, 7).Draw(t, "chroma_log2_weight_denom"))
		}
		tr.PredWeightL0 = genAVCPredWeights(t, h.NumRefIdxL0ActiveMinus1, chromaArrayType != 0, "pwt-l0")
		if isB {
			tr.PredWeightL1 = genAVCPredWeights(t, h.NumRefIdxL1ActiveMinus1, chromaArrayType != 0, "pwt-l1")
		}
	}
	if tr.NalRefIdc != 0 {
		if idr {
			h.NoOutputOfPriorPicsFlag = rapid.Bool().Draw(t, "no_output_of_prior_pics_flag")
			h.LongTermReferenceFlag = rapid.Bool().Draw(t, "long_term_reference_flag")
		} else {
			h.AdaptiveRefPicMarkingModeFlag = avcChance(t, 1, 3, "adaptive_ref_pic_marking_mode_flag")
			if h.AdaptiveRefPicMarkingModeFlag {
				n := rapid.IntRange(1, 6).Draw(t, "mmco-n")
				seen4, seen5 := false, false
				for i := 0; i < n; i++ {
					op := uint32(rapid.IntRange(1, 6).Draw(t, "memory_management_control_operation"))
					if (op == 4 && seen4) || (op == 5 && seen5) {
						op = 1
					}
					seen4 = seen4 || op == 4
					seen5 = seen5 || op == 5
					mm := nalgen.MMCO{Op: op}
					if op == 1 || op == 3 {
						mm.DifferenceOfPicNumsMinus1 = uint32(avcDrawUint(t, 0, maxPicNum-1, "difference_of_pic_nums_minus1"))
					}
					if op == 2 {
						mm.LongTermPicNum = uint32(avcDrawUint(t, 0, 31, "mmco-long_term_pic_num"))
					}
					if op == 3 || op == 6 {
						mm.LongTermFrameIdx = uint32(avcDrawUint(t, 0, 15, "long_term_frame_idx"))
					}
					if op == 4 {
						mm.MaxLongTermFrameIdxPlus1 = uint32(avcDrawUint(t, 0, 16, "max_long_term_frame_idx_plus1"))
					}
					tr.MMCOs = append(tr.MMCOs, mm)
				}
			}
		}
	}
	if p.EntropyCodingModeFlag && !isI && !isSI {
		h.CabacInitIDC = uint32(rapid.IntRange(0, 2).Draw(t, "cabac_init_idc"))
	}
	// SliceQPY = 26 + pic_init_qp_minus26 + slice_qp_delta in -QpBdOffsetY..51
	qpBd := 6 * int64(s.BitDepthLumaMinus8)
	base := 26 + int64(p.PicInitQpMinus26)
	h.SliceQPDelta = int32(avcDrawInt(t, -qpBd-base, 51-base, "slice_qp_delta"))
	if isSP || isSI {
		if isSP {
			h.SPForSwitchFlag = rapid.Bool().Draw(t, "sp_for_switch_flag")
		}
		qsBase := 26 + int64(p.PicInitQsMinus26)
		h.SliceQSDelta = int32(avcDrawInt(t, -qsBase, 51-qsBase, "slice_qs_delta"))
	}
	if p.DeblockingFilterControlPresentFlag {
		h.DisableDeblockingFilterIDC = uint32(rapid.IntRange(0, 2).Draw(t, "disable_deblocking_filter_idc"))
		if h.DisableDeblockingFilterIDC != 1 {
			h.SliceAlphaC0OffsetDiv2 = int32(rapid.IntRange(-6, 6).Draw(t, "slice_alpha_c0_offset_div2"))
			h.SliceBetaOffsetDiv2 = int32(rapid.IntRange(-6, 6).Draw(t, "slice_beta_offset_div2"))
		}
	}
	if p.NumSliceGroupsMinus1 > 0 && p.SliceGroupMapType >= 3 && p.SliceGroupMapType <= 5 {
		ps := nalgen.AVCPicSizeInMapUnits(sps)
		rate := uint64(p.SliceGroupChangeRateMinus1) + 1
		h.SliceGroupChangeCycle = uint32(avcDrawUint(t, 0, (ps+rate-1)/rate, "slice_group_change_cycle"))
	}
	// opaque slice data; zero-heavy so that emulation prevention happens right behind (and inside) the header
	tr.SliceData = rapid.SliceOfN(rapid.SampledFrom([]byte{0, 0, 0, 1, 2, 3, 4, 0x80, 0xff}), 0, 6).Draw(t, "slice_data")
	return tr
}

func avcSliceClasses(c *avcSliceCase, info nalgen.AVCSliceBits) []string {
	tr := &c.Slice
	h := &tr.H
	cl := []string{fmt.Sprintf("avc-slice-type-%d", h.SliceType), fmt.Sprintf("avc-slice-naltype-%d", tr.NalUnitType)}
	sps, pps := c.resolve()
	if pps.P.PicParameterSetID != pps.P.SeqParameterSetID {
		cl = append(cl, "avc-slice-ppsid-differs-from-spsid")
		for i := range c.SPS {
			if c.SPS[i].S.ParameterID == pps.P.PicParameterSetID {
				cl = append(cl, "avc-slice-decoy-sps-with-pps-id")
			}
		}
	}
	if sps.S.SeparateColourPlaneFlag {
		cl = append(cl, "avc-slice-colour-plane")
	}
	if h.FieldPicFlag {
		cl = append(cl, "avc-slice-field")
	} else if !sps.S.FrameMbsOnlyFlag {
		cl = append(cl, "avc-slice-frame-in-field-sps")
	}
	cl = append(cl, fmt.Sprintf("avc-slice-poc%d", sps.S.PicOrderCntType))
	if h.NumRefIdxActiveOverrideFlag {
		cl = append(cl, "avc-slice-num-ref-idx-override")
	}
	if h.RefPicListModificationL0Flag || h.RefPicListModificationL1Flag {
		cl = append(cl, "avc-slice-ref-pic-list-modification")
	}
	if info.PredWeightTablePresent {
		cl = append(cl, "avc-slice-pred-weight-table")
	}
	if tr.NalRefIdc != 0 {
		cl = append(cl, "avc-slice-dec-ref-pic-marking")
		if h.AdaptiveRefPicMarkingModeFlag {
			cl = append(cl, "avc-slice-mmco")
		}
	}
	if pps.P.EntropyCodingModeFlag && h.SliceType%5 != 2 && h.SliceType%5 != 4 {
		cl = append(cl, "avc-slice-cabac-init")
	}
	if pps.P.DeblockingFilterControlPresentFlag {
		cl = append(cl, "avc-slice-deblocking")
	}
	if pps.P.RedundantPicCntPresentFlag {
		cl = append(cl, "avc-slice-redundant-pic-cnt")
	}
	if pps.P.NumSliceGroupsMinus1 > 0 && pps.P.SliceGroupMapType >= 3 && pps.P.SliceGroupMapType <= 5 {
		cl = append(cl, "avc-slice-group-change-cycle")
	}
	if n := len(nalgen.Escape(info.RBSP[:(info.HeaderBits+7)/8])) - (info.HeaderBits+7)/8; n > 0 {
		cl = append(cl, "avc-slice-escape-inside-header")
	}
	return cl
}

// avcExpectedSlice builds the struct the parser must return. For syntax elements that occur in loops the
// struct has one scalar field each; the value coded last (in bitstream order) is expected there.
func avcExpectedSlice(tr *nalgen.AVCSliceTree, pps *nalgen.AVCPPSTree, info nalgen.AVCSliceBits) avc.SliceHeader {
	e := tr.H
	st := uint32(e.SliceType) % 5
	e.SeqParamID = pps.P.SeqParameterSetID
	e.Size = uint32(info.HeaderBytes)
	e.ModificationOfPicNumsIDC, e.AbsDiffPicNumMinus1, e.LongTermPicNum, e.AbsDiffViewIdxMinus1 = 0, 0, 0, 0
	e.DifferenceOfPicNumsMinus1, e.LongTermFramIdx, e.MaxLongTermFrameIdxPlus1 = 0, 0, 0
	mods := func(l []nalgen.RefPicListMod) {
		for _, m := range l {
			if m.IDC == 2 {
				e.LongTermPicNum = m.Value
			} else {
				e.AbsDiffPicNumMinus1 = m.Value
			}
		}
		e.ModificationOfPicNumsIDC = 3
	}
	if st != 2 && st != 4 && e.RefPicListModificationL0Flag {
		mods(tr.ModL0)
	}
	if st == 1 && e.RefPicListModificationL1Flag {
		mods(tr.ModL1)
	}
	if tr.NalRefIdc != 0 && tr.NalUnitType != 5 && e.AdaptiveRefPicMarkingModeFlag {
		for _, m := range tr.MMCOs {
			if m.Op == 1 || m.Op == 3 {
				e.DifferenceOfPicNumsMinus1 = m.DifferenceOfPicNumsMinus1
			}
			if m.Op == 2 {
				e.LongTermPicNum = m.LongTermPicNum
			}
			if m.Op == 3 || m.Op == 6 {
				e.LongTermFramIdx = m.LongTermFrameIdx
			}
			if m.Op == 4 {
				e.MaxLongTermFrameIdxPlus1 = m.MaxLongTermFrameIdxPlus1
			}
		}
	}
	return e
}

func checkAVCSlice(c avcSliceCase) *harness.Fail {
	sps, pps := c.resolve()
	if sps == nil {
		return harness.Failf("harness|bad-case", "slice pps id %d does not resolve inside the case", c.Slice.H.PicParamID)
	}
	spsMap, ppsMap, _, _, f := avcParseSets(c.SPS, c.PPS)
	if f != nil {
		return f
	}
	nalu, info := nalgen.SerializeAVCSlice(&c.Slice, sps, pps)
	ctx := fmt.Sprintf("slice nalu %x, header %d bits, pps id %d -> sps id %d", nalu, info.HeaderBits, pps.P.PicParameterSetID, pps.P.SeqParameterSetID)
	want := avcExpectedSlice(&c.Slice, pps, info)
	judge := func(got *avc.SliceHeader, err error) *harness.Fail {
		if err != nil {
			return harness.Failf("C15|avc.ParseSliceHeader|error on valid slice", "%v (%s)", err, ctx)
		}
		want, g := want, *got
		if st := uint32(want.SliceType) % 5; st != 1 {
			// num_ref_idx_l1_active_minus1 is neither coded nor inferred for slices other than B: not judged
			want.NumRefIdxL1ActiveMinus1, g.NumRefIdxL1ActiveMinus1 = 0, 0
		}
		// Size last: a wrong Size usually is the consequence of a wrong field which is the better diagnosis
		ws, gs := want.Size, g.Size
		want.Size, g.Size = 0, 0
		if f := avcFieldFail("avc.SliceHeader", &want, &g, ctx); f != nil {
			return f
		}
		if ws != gs {
			return harness.Failf("C15|avc.SliceHeader.Size|differs from bytes occupied by the header",
				"Size %d, the header occupies %d bytes (NAL header byte + %d header bits, emulation prevention included) (%s)", gs, ws, info.HeaderBits, ctx)
		}
		return nil
	}
	got, err := avc.ParseSliceHeader(nalu, spsMap, ppsMap)
	f = judge(got, err)
	if f != nil && pps.P.PicParameterSetID != pps.P.SeqParameterSetID {
		// Root-cause probe: does the verdict change when the right SPS is (also) filed under the PPS's own id?
		alt := map[uint32]*avc.SPS{}
		for k, v := range spsMap {
			alt[k] = v
		}
		alt[pps.P.PicParameterSetID] = spsMap[pps.P.SeqParameterSetID]
		got2, err2 := avc.ParseSliceHeader(nalu, alt, ppsMap)
		if f2 := judge(got2, err2); f2 == nil || f2.Key == "C15|avc.SliceHeader.SeqParamID|value differs" {
			return harness.Failf("C15|avc.ParseSliceHeader|SPS looked up with pic_parameter_set_id instead of the PPS's seq_parameter_set_id",
				"%s [the verdict disappears when the SPS %d is also stored under key %d of the SPS map]", f.Msg, pps.P.SeqParameterSetID, pps.P.PicParameterSetID)
		}
	}
	return f
}

func genAVCSliceCase(rt *rapid.T) avcSliceCase {
	var c avcSliceCase
	nSPS := rapid.IntRange(1, 3).Draw(rt, "nSPS")
	nPPS := rapid.IntRange(1, 4).Draw(rt, "nPPS")
	spsIDs := avcDistinct(rt, nSPS, 31, "seq_parameter_set_id")
	ppsIDs := avcDistinct(rt, nPPS, 255, "pic_parameter_set_id")
	refs := make([]int, nPPS)
	for i := range refs {
		refs[i] = rapid.IntRange(0, nSPS-1).Draw(rt, "pps-refers-to")
	}
	use := rapid.IntRange(0, nPPS-1).Draw(rt, "slice-uses-pps")
	// known-defect avoidance on the ids of the pair the slice uses
	if avcAvoid("avc-slice-seqparamid-unset", spsIDs[refs[use]] != 0) {
		for i := range spsIDs {
			if spsIDs[i] == 0 {
				spsIDs[i] = spsIDs[refs[use]]
			}
		}
		spsIDs[refs[use]] = 0
	}
	if avcAvoid("avc-slice-spsid-via-ppsid", ppsIDs[use] != spsIDs[refs[use]]) {
		for i := range ppsIDs {
			if ppsIDs[i] == spsIDs[refs[use]] {
				ppsIDs[i] = ppsIDs[use]
			}
		}
		ppsIDs[use] = spsIDs[refs[use]]
	}
	for i := 0; i < nSPS; i++ {
		c.SPS = append(c.SPS, genAVCSPS(rt, avcSPSOpts{ID: spsIDs[i], Light: true}))
	}
	for i := 0; i < nPPS; i++ {
		c.PPS = append(c.PPS, genAVCPPS(rt, avcPPSOpts{ID: ppsIDs[i], NoChangeCycleTypes: i == use}, &c.SPS[refs[i]]))
	}
	c.Slice = genAVCSlice(rt, &c.SPS[refs[use]], &c.PPS[use])
	return c
}

func TestAVCSlice(t *testing.T) {
	harness.RunRapid(t, "slice", func(rt *rapid.T) {
		c := genAVCSliceCase(rt)
		sps, pps := c.resolve()
		_, info := nalgen.SerializeAVCSlice(&c.Slice, sps, pps)
		cl := avcSliceClasses(&c, info)
		raw, _ := json.Marshal(c)
		harness.Rec.Case(avcNontrivial(cl, "avc-slice-type-", "avc-slice-naltype-", "avc-slice-poc0"), raw, cl...)
		if harness.Rec.WantSample() {
			harness.Rec.Sample(map[string]interface{}{"kind": "avcslice", "case": c})
		}
		f := harness.Guarded(func() *harness.Fail { return checkAVCSlice(c) })
		avcReplayConsistent(rt, raw, f, harness.Replayer(checkAVCSlice))
		harness.Report(rt, "avcslice", c, f)
	})
}
