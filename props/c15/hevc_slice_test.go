// C15, HEVC half: slice segment header oracle — hevc.ParseSliceHeader returns the coded values, resolves the
// PPS through slice_pic_parameter_set_id and the SPS through that PPS's pps_seq_parameter_set_id, and reports
// Size = bytes the header occupies (NAL header and emulation prevention bytes included).
package c15

import (
	"encoding/json"
	"fmt"
	"testing"

	"github.com/Eyevinn/mp4ff/hevc"
	"pgregory.net/rapid"

	"verif/internal/harness"
	"verif/internal/nalgen"
)

type hevcSliceCase struct {
	SPS           []nalgen.HEVCSPSTree `json:"sps"`
	PPS           []nalgen.HEVCPPSTree `json:"pps"`
	Slice         nalgen.HEVCSliceTree `json:"slice"`
	RelaxInterRPS bool                 `json:"relax_inter_rps,omitempty"`
	Hex           string               `json:"hex,omitempty"`
}

// resolve: the harness' own resolution slice -> PPS (by slice_pic_parameter_set_id) -> SPS (by that PPS's
// pps_seq_parameter_set_id).
func (c *hevcSliceCase) resolve() (*nalgen.HEVCSPSTree, *nalgen.HEVCPPSTree) {
	for i := range c.PPS {
		if c.PPS[i].PPS.PicParameterSetID == c.Slice.SH.PicParameterSetId {
			for j := range c.SPS {
				if uint32(c.SPS[j].SPS.SpsID) == c.PPS[i].PPS.SeqParameterSetID {
					return &c.SPS[j], &c.PPS[i]
				}
			}
		}
	}
	return nil, nil
}

var hevcSliceNalTypes = []byte{0, 1, 2, 3, 4, 5, 6, 7, 8, 9, 16, 17, 18, 19, 20, 21}

func hevcSmallOr(t *rapid.T, small, hi int64, l string) int64 {
	if small > hi {
		small = hi
	}
	if hevcPct(t, 80, l+"?") {
		return rapid.Int64Range(0, small).Draw(t, l)
	}
	return hevcInt(t, 0, hi, l)
}

// hevcCurrPicEntries: which entries of RefPicListX are the current picture (pps_curr_pic_ref_enabled_flag = 1),
// 8.3.4: RefPicListTempX is the cyclic repetition of the NumPicTotalCurr candidates with the current picture
// last; without list modification RefPicListX[i] = RefPicListTempX[i] and, for list 0, when
// NumRpsCurrTempList0 > num_ref_idx_l0_active_minus1 + 1 the last active entry is replaced by the current picture.
func hevcCurrPicEntries(nptc, numActive int, modFlag bool, entries []uint8, isL0 bool) []bool {
	out := make([]bool, numActive)
	for i := range out {
		if modFlag {
			out[i] = int(entries[i]) == nptc-1
		} else {
			out[i] = i%nptc == nptc-1
		}
	}
	if isL0 && !modFlag && hevcMax(numActive, nptc) > numActive {
		out[numActive-1] = true
	}
	return out
}

func hevcGenWeights(t *rapid.T, n int, curr []bool, chroma bool, budget *int, halfY, halfC int64, l string) []hevc.WeightingFactors {
	ws := make([]hevc.WeightingFactors, n)
	for i := range ws {
		if i < len(curr) && curr[i] {
			continue // flags not present, inferred 0
		}
		if *budget >= 1 && rapid.Bool().Draw(t, l+"lf") {
			ws[i].LumaWeightFlag = true
			*budget--
		}
	}
	if chroma {
		for i := range ws {
			if i < len(curr) && curr[i] {
				continue
			}
			if *budget >= 2 && rapid.Bool().Draw(t, l+"cf") {
				ws[i].ChromaWeightFlag = true
				*budget -= 2
			}
		}
	}
	for i := range ws {
		if ws[i].LumaWeightFlag {
			ws[i].DeltaLumaWeight = int8(hevcInt(t, -128, 127, l+"lw"))
			ws[i].LumaOffset = int(hevcInt(t, -halfY, halfY-1, l+"lo"))
		}
		if ws[i].ChromaWeightFlag {
			for j := 0; j < 2; j++ {
				ws[i].DeltaChromaWeight[j] = int8(hevcInt(t, -128, 127, l+"cw"))
				ws[i].DeltaChromaOffset[j] = int(hevcInt(t, -4*halfC, 4*halfC-1, l+"co"))
			}
		}
	}
	return ws
}

// hevcGenSlice draws a slice segment value tree for the active parameter sets.
func hevcGenSlice(t *rapid.T, spsT *nalgen.HEVCSPSTree, ppsT *nalgen.HEVCPPSTree) nalgen.HEVCSliceTree {
	sps, pps := &spsT.SPS, &ppsT.PPS
	var tr nalgen.HEVCSliceTree
	sh, x := &tr.SH, &tr.Extra
	if hevcPct(t, 72, "ntvcl") {
		tr.NalType = hevcSliceNalTypes[hevcUni(t, 10, "nt")] // TRAIL_N .. RASL_R
	} else {
		tr.NalType = hevcSliceNalTypes[10+hevcUni(t, 6, "nt")] // BLA_W_LP .. CRA_NUT
	}
	if hevcPct(t, 4, "ntrsv") {
		tr.NalType = byte(rapid.IntRange(22, 23).Draw(t, "ntr")) // RSV_IRAP_VCL22..23: the parser treats them as IRAP
	}
	nt := int(tr.NalType)
	irap := nt >= 16 && nt <= 23
	idr := nt == 19 || nt == 20
	tr.TemporalIDPlus1 = 1
	if !irap {
		tr.TemporalIDPlus1 = byte(rapid.IntRange(1, int(sps.MaxSubLayersMinus1)+1).Draw(t, "tid"))
	}
	sh.PicParameterSetId = pps.PicParameterSetID
	wc, hc := nalgen.HEVCPicSizeInCtbs(sps)
	picSize := wc * hc
	sh.FirstSliceSegmentInPicFlag = picSize < 2 || hevcPct(t, 55, "first")
	if irap {
		sh.NoOutputOfPriorPicsFlag = rapid.Bool().Draw(t, "noout")
	}
	if !sh.FirstSliceSegmentInPicFlag {
		if pps.DependentSliceSegmentsEnabledFlag {
			sh.DependentSliceSegmentFlag = rapid.Bool().Draw(t, "dep")
		}
		sh.SegmentAddress = uint(hevcInt(t, 1, int64(picSize-1), "addr"))
	}
	currPicRef := pps.SccExtension != nil && pps.SccExtension.CurrPicRefEnabledFlag
	chromaArrayType := nalgen.HEVCChromaArrayType(sps)
	sliceDeblockingDisabled := pps.DeblockingFilterDisabledFlag
	if !sh.DependentSliceSegmentFlag {
		sh.CollocatedFromL0Flag = true // inferred 1 when not present
		if pps.NumExtraSliceHeaderBits > 0 {
			b := hevcBits(t, int(pps.NumExtraSliceHeaderBits), "rsv")
			for i := 0; i < int(pps.NumExtraSliceHeaderBits); i++ {
				x.SliceReservedFlag = append(x.SliceReservedFlag, b>>uint(i)&1 != 0)
			}
		}
		var cur nalgen.HEVCRPSVars
		activeInter := false
		usedLt := 0
		if !idr {
			pocBits := int(sps.Log2MaxPicOrderCntLsbMinus4) + 4
			sh.PicOrderCntLsb = uint16(hevcBits(t, pocBits, "poc"))
			num := int(sps.NumShortTermRefPicSets)
			var vars []nalgen.HEVCRPSVars
			if num > 0 {
				vars = nalgen.HEVCDeriveAllRPS(spsT.StRPS)
			}
			maxDpb := int(sps.SubLayeringOrderingInfos[len(sps.SubLayeringOrderingInfos)-1].MaxDecPicBufferingMinus1)
			spsFlag := num > 0 && hevcPct(t, 55, "spsrps")
			if spsFlag && num == 1 && hevcAvoid("hevc-slice-strps-idx-inferred") {
				harness.Rec.Exclude("hevc-slice-strps-idx-inferred")
				spsFlag = false
			}
			sh.ShortTermRefPicSetSpsFlag = spsFlag
			if spsFlag {
				idx := 0
				if num > 1 {
					idx = int(hevcInt(t, 0, int64(num-1), "rpsidx"))
				}
				sh.ShortTermRefPicSetIdx = byte(idx)
				cur = vars[idx]
				activeInter = spsT.StRPS[idx].InterRPSPred
			} else {
				c, v := hevcGenRPS(t, num, num, vars, maxDpb, "hr")
				if !c.InterRPSPred && v.NumUsed() == 0 && v.NumDeltaPocs() < maxDpb && hevcPct(t, 60, "wantref") {
					// make P/B slices possible more often: one more (used) negative picture
					c.DeltaPocS0Minus1 = append(c.DeltaPocS0Minus1, hevcDrawDeltaMinus1(t, "hrd0"))
					c.UsedByCurrPicS0 = append(c.UsedByCurrPicS0, true)
					v = nalgen.HEVCDeriveRPS(&c, nil)
				}
				x.StRPS = &c
				cur = v
				activeInter = c.InterRPSPred
			}
			if sps.LongTermRefPicsPresentFlag {
				budget := hevcMax(0, maxDpb-cur.NumDeltaPocs())
				nsps := 0
				if sps.NumLongTermRefPics > 0 {
					nsps = int(hevcSmallOr(t, 3, int64(hevcMin(budget, int(sps.NumLongTermRefPics))), "nltsps"))
				}
				if nsps > 0 && sps.NumLongTermRefPics == 1 && hevcAvoid("hevc-slice-lt-idx-inferred") {
					harness.Rec.Exclude("hevc-slice-lt-idx-inferred")
					nsps = 0
				}
				npics := int(hevcSmallOr(t, 3, int64(budget-nsps), "nltpics"))
				sh.NumLongTermSps, sh.NumLongTermPics = uint8(nsps), uint(npics)
				for i := 0; i < nsps+npics; i++ {
					var lt hevc.LongTermRPS
					if i < nsps {
						idx := 0
						if sps.NumLongTermRefPics > 1 {
							idx = int(hevcInt(t, 0, int64(sps.NumLongTermRefPics)-1, "ltidx"))
						}
						x.LtIdxSps = append(x.LtIdxSps, uint32(idx))
						lt.PocLsbLt = sps.LongTermRefPicSets[idx].PocLsbLt                       // PocLsbLt[ i ] = lt_ref_pic_poc_lsb_sps[ lt_idx_sps[ i ] ]
						lt.UsedByCurrPicLtFlag = sps.LongTermRefPicSets[idx].UsedByCurrPicLtFlag // UsedByCurrPicLt[ i ]
					} else {
						lt.PocLsbLt = uint16(hevcBits(t, pocBits, "ltpoc"))
						lt.UsedByCurrPicLtFlag = rapid.Bool().Draw(t, "ltused")
					}
					if lt.UsedByCurrPicLtFlag {
						usedLt++
					}
					lt.DeltaPocMsbPresentFlag = rapid.Bool().Draw(t, "ltmsb")
					if lt.DeltaPocMsbPresentFlag {
						lt.DeltaPocMsbCycleLt = uint(hevcInt(t, 0, int64(1)<<uint(31-pocBits)-1, "ltcyc"))
					}
					sh.LongTermRefPicSets = append(sh.LongTermRefPicSets, lt)
				}
			}
			if sps.SpsTemporalMvpEnabledFlag {
				sh.TemporalMvpEnabledFlag = rapid.Bool().Draw(t, "tmvp")
			}
		}
		nptc := 0 // NumPicTotalCurr (7-55)
		if !idr {
			nptc = cur.NumUsed() + usedLt
		}
		if currPicRef {
			nptc++
		}
		st := 2
		if hevcPct(t, 78, "pb") {
			st = hevcUni(t, 2, "type")
		}
		if irap && !currPicRef {
			if st != 2 {
				harness.Rec.Class("hevc-gen-slice-type-forced-I-irap")
			}
			st = 2 // IRAP picture without current-picture referencing: slice_type shall be 2
		}
		if nptc == 0 {
			if st != 2 {
				harness.Rec.Class("hevc-gen-slice-type-forced-I-no-reference")
			}
			st = 2
		}
		if st != 2 && activeInter && pps.ListsModificationPresentFlag && nptc > 1 && cur.NumUsed() > 0 && hevcAvoid("hevc-strps-interpred-not-derived") {
			harness.Rec.Exclude("hevc-strps-interpred-not-derived")
			st = 2
		}
		pwtApplies := func(st int) bool {
			return (pps.WeightedPredFlag && st == 1) || (pps.WeightedBipredFlag && st == 0)
		}
		if currPicRef && pwtApplies(st) && hevcAvoid("hevc-slice-pwt-currpic-entry") {
			harness.Rec.Exclude("hevc-slice-pwt-currpic-entry")
			st = 2
		}
		sh.SliceType = hevc.SliceType(st)
		if pps.OutputFlagPresentFlag {
			sh.PicOutputFlag = rapid.Bool().Draw(t, "picout")
		}
		if sps.SeparateColourPlaneFlag {
			sh.ColourPlaneId = uint8(rapid.IntRange(0, 2).Draw(t, "cplane"))
		}
		if sps.SampleAdaptiveOffsetEnabledFlag {
			sh.SaoLumaFlag = rapid.Bool().Draw(t, "saol")
			if chromaArrayType != 0 {
				sh.SaoChromaFlag = rapid.Bool().Draw(t, "saoc")
			}
		}
		isP, isB := st == 1, st == 0
		if isP || isB {
			sh.NumRefIdxActiveOverrideFlag = rapid.Bool().Draw(t, "ovr")
			l0, l1 := int(pps.NumRefIdxL0DefaultActiveMinus1), int(pps.NumRefIdxL1DefaultActiveMinus1)
			if sh.NumRefIdxActiveOverrideFlag {
				l0 = int(hevcSmallOr(t, 3, 14, "l0"))
				if isB {
					l1 = int(hevcSmallOr(t, 3, 14, "l1"))
				}
			}
			sh.NumRefIdxL0ActiveMinus1 = uint8(l0)
			if isB {
				sh.NumRefIdxL1ActiveMinus1 = uint8(l1)
			}
			if pps.ListsModificationPresentFlag && nptc > 1 {
				m := &hevc.RefPicListsModification{}
				m.RefPicListModificationFlagL0 = rapid.Bool().Draw(t, "lm0")
				if m.RefPicListModificationFlagL0 {
					for i := 0; i <= l0; i++ {
						m.ListEntryL0 = append(m.ListEntryL0, uint8(rapid.IntRange(0, nptc-1).Draw(t, "le0")))
					}
				}
				if isB {
					m.RefPicListModificationFlagL1 = rapid.Bool().Draw(t, "lm1")
					if m.RefPicListModificationFlagL1 {
						for i := 0; i <= l1; i++ {
							m.ListEntryL1 = append(m.ListEntryL1, uint8(rapid.IntRange(0, nptc-1).Draw(t, "le1")))
						}
					}
				}
				sh.RefPicListsModification = m
			}
			if isB {
				sh.MvdL1ZeroFlag = rapid.Bool().Draw(t, "mvdl1")
			}
			if pps.CabacInitPresentFlag {
				sh.CabacInitFlag = rapid.Bool().Draw(t, "cabac")
			}
			if sh.TemporalMvpEnabledFlag {
				if isB {
					sh.CollocatedFromL0Flag = rapid.Bool().Draw(t, "coll0")
				}
				n := l1
				if sh.CollocatedFromL0Flag {
					n = l0
				}
				if n > 0 {
					sh.CollocatedRefIdx = uint8(rapid.IntRange(0, n).Draw(t, "collidx"))
				}
			}
			if pwtApplies(st) {
				p := &hevc.PredWeightTable{}
				p.LumaLog2WeightDenom = uint8(rapid.IntRange(0, 7).Draw(t, "wld"))
				if chromaArrayType != 0 {
					p.DeltaChromaLog2WeightDenom = int8(rapid.IntRange(-int(p.LumaLog2WeightDenom), 7-int(p.LumaLog2WeightDenom)).Draw(t, "wcd"))
				}
				if currPicRef { // only reachable with the avoid switch off
					var e0, e1 []uint8
					m0, m1 := false, false
					if m := sh.RefPicListsModification; m != nil {
						m0, m1, e0, e1 = m.RefPicListModificationFlagL0, m.RefPicListModificationFlagL1, m.ListEntryL0, m.ListEntryL1
					}
					x.PwtCurrPicL0 = hevcCurrPicEntries(nptc, l0+1, m0, e0, true)
					if isB {
						x.PwtCurrPicL1 = hevcCurrPicEntries(nptc, l1+1, m1, e1, false)
					}
				}
				high := sps.RangeExtension != nil && sps.RangeExtension.HighPrecisionOffsetsEnabledFlag
				halfY, halfC := int64(128), int64(128)
				if high {
					halfY = 1 << uint(int(sps.BitDepthLumaMinus8)+7)
					halfC = 1 << uint(int(sps.BitDepthChromaMinus8)+7)
				}
				budget := 24 // sum of luma_weight_lX_flag + 2 * chroma_weight_lX_flag <= 24
				p.WeightsL0 = hevcGenWeights(t, l0+1, x.PwtCurrPicL0, chromaArrayType != 0, &budget, halfY, halfC, "w0")
				if isB {
					p.WeightsL1 = hevcGenWeights(t, l1+1, x.PwtCurrPicL1, chromaArrayType != 0, &budget, halfY, halfC, "w1")
				}
				sh.PredWeightTable = p
			}
			sh.FiveMinusMaxNumMergeCand = uint8(rapid.IntRange(0, 4).Draw(t, "merge"))
			if sps.SccExtension != nil && sps.SccExtension.MotionVectorResolutionControlIdc == 2 {
				sh.UseIntegerMvFlag = rapid.Bool().Draw(t, "intmv")
			}
		}
		// SliceQpY = 26 + init_qp_minus26 + slice_qp_delta in -QpBdOffsetY..51
		qpBd := 6 * int64(sps.BitDepthLumaMinus8)
		sh.QpDelta = int(hevcInt(t, -qpBd-26-int64(pps.InitQpMinus26), 51-26-int64(pps.InitQpMinus26), "qpd"))
		off := func(ppsOff int64, l string) int64 { // slice offset in -12..12 and pps + slice in -12..12
			lo, hi := int64(-12), int64(12)
			if -12-ppsOff > lo {
				lo = -12 - ppsOff
			}
			if 12-ppsOff < hi {
				hi = 12 - ppsOff
			}
			return hevcInt(t, lo, hi, l)
		}
		if pps.SliceChromaQpOffsetsPresentFlag {
			sh.CbQpOffset = int8(off(int64(pps.CbQpOffset), "cbq"))
			sh.CrQpOffset = int8(off(int64(pps.CrQpOffset), "crq"))
		}
		if e := pps.SccExtension; e != nil && e.SliceActQpOffsetsPresentFlag {
			sh.ActYQpOffset = int8(off(int64(e.ActYQpOffsetPlus5-5), "acty"))
			sh.ActCbQpOffset = int8(off(int64(e.ActCbQpOffsetPlus5-5), "actcb"))
			sh.ActCrQpOffset = int8(off(int64(e.ActCrQpOffsetPlus3-3), "actcr"))
		}
		if e := pps.RangeExtension; e != nil && e.ChromaQpOffsetListEnabledFlag {
			sh.CuChromaQpOffsetEnabledFlag = rapid.Bool().Draw(t, "cuq")
		}
		if pps.DeblockingFilterOverrideEnabledFlag {
			sh.DeblockingFilterOverrideFlag = rapid.Bool().Draw(t, "dbo")
		}
		if sh.DeblockingFilterOverrideFlag {
			sh.DeblockingFilterDisabledFlag = rapid.Bool().Draw(t, "dbd")
			sliceDeblockingDisabled = sh.DeblockingFilterDisabledFlag
			if !sh.DeblockingFilterDisabledFlag {
				sh.BetaOffsetDiv2 = int8(hevcInt(t, -6, 6, "beta"))
				sh.TcOffsetDiv2 = int8(hevcInt(t, -6, 6, "tc"))
			}
		}
		if pps.LoopFilterAcrossSlicesEnabledFlag && (sh.SaoLumaFlag || sh.SaoChromaFlag || !sliceDeblockingDisabled) {
			sh.LoopFilterAcrossSlicesEnabledFlag = rapid.Bool().Draw(t, "slf")
		}
	}
	if pps.TilesEnabledFlag || pps.EntropyCodingSyncEnabledFlag {
		cols, rows := int64(1), int64(1)
		if pps.TilesEnabledFlag {
			cols, rows = int64(pps.NumTileColumnsMinus1)+1, int64(pps.NumTileRowsMinus1)+1
		}
		var mx int64
		switch {
		case !pps.TilesEnabledFlag:
			mx = int64(hc) - 1
		case !pps.EntropyCodingSyncEnabledFlag:
			mx = cols*rows - 1
		default:
			mx = cols*int64(hc) - 1
		}
		n := int64(0)
		if mx > 0 && hevcPct(t, 70, "nep?") {
			if hevcPct(t, 90, "nepsmall") {
				n = hevcInt(t, 0, int64(hevcMin(int(mx), 12)), "nep")
			} else {
				n = hevcInt(t, 0, int64(hevcMin(int(mx), 440)), "nep")
			}
		}
		sh.NumEntryPointOffsets = uint(n)
		if n > 0 {
			sh.OffsetLenMinus1 = uint8(hevcInt(t, 0, 31, "eplen"))
			bs := hevcBytes(t, 4*int(n), "epv")
			zeroish := hevcPct(t, 30, "epzero")
			for i := 0; i < int(n); i++ {
				v := uint32(bs[4*i])<<24 | uint32(bs[4*i+1])<<16 | uint32(bs[4*i+2])<<8 | uint32(bs[4*i+3])
				if zeroish {
					v &= 0x00030001
				}
				v &= uint32(uint64(1)<<(uint(sh.OffsetLenMinus1)+1) - 1)
				sh.EntryPointOffsetMinus1 = append(sh.EntryPointOffsetMinus1, v)
			}
		}
	}
	if pps.SliceSegmentHeaderExtensionPresentFlag {
		n := 0
		switch k := hevcUni(t, 10, "extn?"); {
		case k < 4:
			n = 0
		case k < 9:
			n = rapid.IntRange(1, 8).Draw(t, "extn")
		default:
			n = int(hevcInt(t, 9, 256, "extn"))
		}
		sh.SegmentHeaderExtensionLength = uint16(n)
		if n > 0 {
			bs := hevcBytes(t, n, "extv")
			if hevcPct(t, 50, "extzero") {
				for i := range bs {
					bs[i] &= 3 // zero-heavy: emulation prevention inside the header
				}
			}
			sh.SegmentHeaderExtensionDataByte = bs
		}
	}
	np := rapid.IntRange(0, 6).Draw(t, "npay")
	if np > 0 {
		tr.Payload = hevcBytes(t, np, "pay")
		if hevcPct(t, 60, "payzero") {
			for i := range tr.Payload {
				tr.Payload[i] &= 3
			}
		}
	}
	return tr
}

// hevcExpectedSlice builds the struct the parser has to return: coded values; for elements that are not
// present the inferred value where the library implements the inference (num_ref_idx defaults,
// collocated_from_l0_flag), else the zero value with the standard's inferred value as accepted alternative.
func hevcExpectedSlice(tr *nalgen.HEVCSliceTree, spsT *nalgen.HEVCSPSTree, pps *hevc.PPS, d *nalgen.HEVCSliceDerived, relaxInter bool) (hevc.SliceHeader, *hevcDiffOpts) {
	want := tr.SH
	o := &hevcDiffOpts{Skip: map[string]bool{"Size": true}, Alt: map[string]interface{}{}}
	nt := int(tr.NalType)
	idr := nt == 19 || nt == 20
	dep := want.DependentSliceSegmentFlag
	want.ShortTermRefPicSet = hevc.ShortTermRPS{}
	if !dep && !idr {
		want.ShortTermRefPicSet = hevcLibRPS(&d.CurrRPS)
		inter := false
		if want.ShortTermRefPicSetSpsFlag {
			inter = spsT.StRPS != nil && spsT.StRPS[want.ShortTermRefPicSetIdx].InterRPSPred
		} else {
			inter = tr.Extra.StRPS != nil && tr.Extra.StRPS.InterRPSPred
		}
		if inter && relaxInter {
			for _, f := range []string{"NumNegativePics", "NumPositivePics", "DeltaPocS0", "DeltaPocS1", "UsedByCurrPicS0", "UsedByCurrPicS1"} {
				o.Skip["ShortTermRefPicSet."+f] = true
			}
		}
	}
	if dep {
		o.Alt["CollocatedFromL0Flag"] = true // the library pre-sets the default
	} else {
		isP, isB := want.SliceType == hevc.SLICE_P, want.SliceType == hevc.SLICE_B
		if isP {
			o.Skip["NumRefIdxL1ActiveMinus1"] = true // meaningless for P slices
		}
		_ = isB
		if !pps.OutputFlagPresentFlag {
			o.Alt["PicOutputFlag"] = true // inferred 1
		}
		if !want.DeblockingFilterOverrideFlag {
			o.Alt["DeblockingFilterDisabledFlag"] = pps.DeblockingFilterDisabledFlag // inferred
			o.Alt["BetaOffsetDiv2"] = pps.BetaOffsetDiv2
			o.Alt["TcOffsetDiv2"] = pps.TcOffsetDiv2
		}
		sliceDbfDisabled := pps.DeblockingFilterDisabledFlag
		if want.DeblockingFilterOverrideFlag {
			sliceDbfDisabled = want.DeblockingFilterDisabledFlag
		}
		if !(pps.LoopFilterAcrossSlicesEnabledFlag && (want.SaoLumaFlag || want.SaoChromaFlag || !sliceDbfDisabled)) {
			o.Alt["LoopFilterAcrossSlicesEnabledFlag"] = pps.LoopFilterAcrossSlicesEnabledFlag // inferred
		}
	}
	return want, o
}

func hevcCheckSlice(c hevcSliceCase) *harness.Fail {
	spsT, ppsT := c.resolve()
	if spsT == nil {
		return harness.Failf("harness|hevcslice|bad case", "slice pps id %d does not resolve", c.Slice.SH.PicParameterSetId)
	}
	spsMap, f := hevcParseSPSs(c.SPS, c.RelaxInterRPS)
	if f != nil {
		return f
	}
	ppsMap := map[uint32]*hevc.PPS{}
	for i := range c.PPS {
		nal, _ := nalgen.HEVCWritePPS(&c.PPS[i])
		got, err := hevc.ParsePPSNALUnit(nal, spsMap)
		if err != nil {
			return harness.Failf("C15|hevc.ParsePPSNALUnit|error on a valid PPS", "ParsePPSNALUnit: %v (PPS NAL %x)", err, nal)
		}
		if f := hevcComparePPS(&c.PPS[i], got, fmt.Sprintf("PPS NAL %x", nal)); f != nil {
			return f
		}
		ppsMap[got.PicParameterSetID] = got
	}
	nal, d := nalgen.HEVCWriteSlice(&c.Slice, spsT, &ppsT.PPS)
	hdrBytes := nalgen.HEVCHeaderSizeInNal(nal, d.HeaderBits)
	ctx := fmt.Sprintf("slice NAL %x (header %d bits = %d bytes in the NAL unit), pps id %d -> sps id %d, NumPicTotalCurr %d",
		nal, d.HeaderBits, hdrBytes, ppsT.PPS.PicParameterSetID, ppsT.PPS.SeqParameterSetID, d.NumPicTotalCurr)
	got, err := hevc.ParseSliceHeader(nal, spsMap, ppsMap)
	if err != nil {
		return harness.Failf("C15|hevc.ParseSliceHeader|error on a valid slice segment header", "ParseSliceHeader: %v (%s)", err, ctx)
	}
	want, o := hevcExpectedSlice(&c.Slice, spsT, &ppsT.PPS, &d, c.RelaxInterRPS)
	if p, w, g := hevcDiff(&want, got, o); p != "" {
		return hevcFieldFail("SliceHeader", p, w, g, ctx)
	}
	if int(got.Size) != hdrBytes {
		return harness.Failf("C15|hevc.SliceHeader.Size|differs from the bytes the header occupies",
			"Size = %d, the header occupies %d bytes (%s)", got.Size, hdrBytes, ctx)
	}
	return nil
}

func hevcSliceClasses(c *hevcSliceCase, nal []byte, d *nalgen.HEVCSliceDerived) []string {
	tr := &c.Slice
	sh := &tr.SH
	spsT, ppsT := c.resolve()
	var cl []string
	add := func(b bool, name string) {
		if b {
			cl = append(cl, name)
		}
	}
	cl = append(cl, fmt.Sprintf("hevc-slice-nal-%d", tr.NalType))
	if n := nalgen.HEVCHeaderSizeInNal(nal, d.HeaderBits); true {
		add(n > d.HeaderBits/8, "hevc-slice-emulation-prevention-inside-header")
		// (the last header byte holds alignment_bit_equal_to_one, so no escape can directly follow the header)
	}
	add(d.NumPicTotalCurr > 1, "hevc-slice-numpictotalcurr-gt1")
	add(sh.PicParameterSetId != ppsT.PPS.SeqParameterSetID, "hevc-slice-ppsid-differs-from-spsid")
	for i := range c.SPS {
		if uint32(c.SPS[i].SPS.SpsID) == sh.PicParameterSetId && &c.SPS[i] != spsT {
			add(true, "hevc-slice-other-sps-has-id-of-pps")
		}
	}
	add(!sh.FirstSliceSegmentInPicFlag, "hevc-slice-not-first")
	add(sh.DependentSliceSegmentFlag, "hevc-slice-dependent")
	if !sh.DependentSliceSegmentFlag {
		cl = append(cl, fmt.Sprintf("hevc-slice-type-%d", sh.SliceType))
		nt := int(tr.NalType)
		idr := nt == 19 || nt == 20
		add(len(tr.Extra.SliceReservedFlag) > 0, "hevc-slice-reserved-flags")
		add(spsT.SPS.SeparateColourPlaneFlag, "hevc-slice-colour-plane-id")
		if !idr {
			add(sh.ShortTermRefPicSetSpsFlag, "hevc-slice-strps-by-idx")
			add(sh.ShortTermRefPicSetSpsFlag && spsT.SPS.NumShortTermRefPicSets == 1, "hevc-slice-strps-idx-inferred")
			add(!sh.ShortTermRefPicSetSpsFlag, "hevc-slice-strps-in-header")
			add(tr.Extra.StRPS != nil && tr.Extra.StRPS.InterRPSPred, "hevc-slice-strps-in-header-interpred")
			add(sh.ShortTermRefPicSetSpsFlag && spsT.StRPS[sh.ShortTermRefPicSetIdx].InterRPSPred, "hevc-slice-strps-by-idx-interpred")
			add(spsT.SPS.LongTermRefPicsPresentFlag, "hevc-slice-longterm-syntax")
			add(sh.NumLongTermSps > 0, "hevc-slice-longterm-from-sps")
			add(sh.NumLongTermSps > 0 && spsT.SPS.NumLongTermRefPics == 1, "hevc-slice-longterm-idx-inferred")
			add(sh.NumLongTermPics > 0, "hevc-slice-longterm-in-header")
			for _, lt := range sh.LongTermRefPicSets {
				add(lt.DeltaPocMsbPresentFlag, "hevc-slice-longterm-msb")
			}
			add(spsT.SPS.SpsTemporalMvpEnabledFlag, "hevc-slice-temporal-mvp-flag")
		}
		add(spsT.SPS.SampleAdaptiveOffsetEnabledFlag, "hevc-slice-sao")
		add(sh.NumRefIdxActiveOverrideFlag, "hevc-slice-num-ref-idx-override")
		add(sh.RefPicListsModification != nil, "hevc-slice-ref-pic-lists-modification")
		if m := sh.RefPicListsModification; m != nil {
			add(m.RefPicListModificationFlagL0 || m.RefPicListModificationFlagL1, "hevc-slice-list-entries")
		}
		add(sh.TemporalMvpEnabledFlag && sh.SliceType != hevc.SLICE_I, "hevc-slice-collocated")
		add(sh.PredWeightTable != nil, "hevc-slice-pred-weight-table")
		if len(tr.Extra.PwtCurrPicL0)+len(tr.Extra.PwtCurrPicL1) > 0 {
			add(true, "hevc-slice-pwt-with-curr-pic-ref")
		}
		add(ppsT.PPS.SliceChromaQpOffsetsPresentFlag, "hevc-slice-chroma-qp-offsets")
		add(ppsT.PPS.SccExtension != nil && ppsT.PPS.SccExtension.SliceActQpOffsetsPresentFlag, "hevc-slice-act-qp-offsets")
		add(ppsT.PPS.SccExtension != nil && ppsT.PPS.SccExtension.CurrPicRefEnabledFlag, "hevc-slice-curr-pic-ref")
		add(ppsT.PPS.RangeExtension != nil && ppsT.PPS.RangeExtension.ChromaQpOffsetListEnabledFlag, "hevc-slice-cu-chroma-qp-offset-flag")
		add(sh.DeblockingFilterOverrideFlag, "hevc-slice-deblocking-override")
		add(sh.DeblockingFilterOverrideFlag && !sh.DeblockingFilterDisabledFlag, "hevc-slice-deblocking-offsets")
		add(!sh.DeblockingFilterOverrideFlag && ppsT.PPS.DeblockingFilterDisabledFlag, "hevc-slice-deblocking-disabled-inferred-from-pps")
		add(spsT.SPS.SccExtension != nil && spsT.SPS.SccExtension.MotionVectorResolutionControlIdc == 2 && sh.SliceType != hevc.SLICE_I, "hevc-slice-use-integer-mv")
	}
	add(ppsT.PPS.TilesEnabledFlag || ppsT.PPS.EntropyCodingSyncEnabledFlag, "hevc-slice-entry-point-syntax")
	add(sh.NumEntryPointOffsets > 0, "hevc-slice-entry-points")
	add(ppsT.PPS.SliceSegmentHeaderExtensionPresentFlag, "hevc-slice-header-extension-syntax")
	add(sh.SegmentHeaderExtensionLength > 0, "hevc-slice-header-extension-bytes")
	return cl
}

// hevcGenSliceCase draws the parameter sets (2..3 SPS, 2..4 PPS, ids crossing) and the slice.
func hevcGenSliceCase(rt *rapid.T) hevcSliceCase {
	nSPS := rapid.IntRange(2, 3).Draw(rt, "nsps")
	spss := hevcGenSPSSet(rt, nSPS, 8192)
	nPPS := rapid.IntRange(2, 4).Draw(rt, "npps")
	// pps ids: distinct; the first ones reuse ids of SPSs (of ANOTHER SPS than the one they refer to)
	ids := hevcDistinct(rt, nPPS, 63, "ppsid")
	var ppss []nalgen.HEVCPPSTree
	for i := 0; i < nPPS; i++ {
		ref := rapid.IntRange(0, nSPS-1).Draw(rt, "ppsref")
		id := ids[i]
		if i < nSPS && hevcPct(rt, 60, "idtrap") {
			cand := int(spss[(ref+1)%nSPS].SPS.SpsID)
			clash := false
			for j := range ids {
				if j != i && ids[j] == cand {
					clash = true
				}
			}
			if !clash {
				id = cand
				ids[i] = cand
			}
		}
		pps := hevcGenPPS(rt, &spss[ref], id, fmt.Sprintf("p%d", i))
		p := &pps.PPS
		if p.LoopFilterAcrossSlicesEnabledFlag && p.DeblockingFilterDisabledFlag && !p.DeblockingFilterOverrideEnabledFlag &&
			!spss[ref].SPS.SampleAdaptiveOffsetEnabledFlag && hevcAvoid("hevc-slice-deblocking-disabled-inferred") {
			// no slice of this PPS/SPS pair can avoid the defect: change the PPS
			harness.Rec.Exclude("hevc-slice-deblocking-disabled-inferred")
			p.LoopFilterAcrossSlicesEnabledFlag = false
		}
		ppss = append(ppss, *pps)
	}
	act := rapid.IntRange(0, nPPS-1).Draw(rt, "act")
	c := hevcSliceCase{SPS: spss, PPS: ppss}
	c.Slice.SH.PicParameterSetId = ppss[act].PPS.PicParameterSetID
	spsT, ppsT := c.resolve()
	c.Slice = hevcGenSlice(rt, spsT, ppsT)
	if hevcAvoid("hevc-slice-deblocking-disabled-inferred") {
		sh, p := &c.Slice.SH, &ppsT.PPS
		if !sh.DependentSliceSegmentFlag && p.LoopFilterAcrossSlicesEnabledFlag && p.DeblockingFilterDisabledFlag &&
			!sh.DeblockingFilterOverrideFlag && !sh.SaoLumaFlag && !sh.SaoChromaFlag {
			// slice_deblocking_filter_disabled_flag inferred 1 from the PPS, no SAO: steer the slice away
			harness.Rec.Exclude("hevc-slice-deblocking-disabled-inferred")
			if spsT.SPS.SampleAdaptiveOffsetEnabledFlag {
				sh.SaoLumaFlag = true
				sh.LoopFilterAcrossSlicesEnabledFlag = rapid.Bool().Draw(rt, "slf2")
			} else { // override is enabled in this PPS (see above)
				sh.DeblockingFilterOverrideFlag = true
				sh.DeblockingFilterDisabledFlag = true
			}
		}
	}
	var ptrs []*nalgen.HEVCSPSTree
	for i := range spss {
		ptrs = append(ptrs, &c.SPS[i])
	}
	c.RelaxInterRPS = hevcRelaxFor(ptrs...)
	if !c.RelaxInterRPS && c.Slice.Extra.StRPS != nil && c.Slice.Extra.StRPS.InterRPSPred && hevcAvoid("hevc-strps-interpred-not-derived") {
		harness.Rec.Exclude("hevc-strps-interpred-not-derived")
		c.RelaxInterRPS = true
	}
	return c
}

func TestHEVCSlice(t *testing.T) {
	harness.RunRapid(t, "slice", func(rt *rapid.T) {
		c := hevcGenSliceCase(rt)
		spsT, ppsT := c.resolve()
		nal, d := nalgen.HEVCWriteSlice(&c.Slice, spsT, &ppsT.PPS)
		classes := hevcSliceClasses(&c, nal, &d)
		raw, _ := json.Marshal(c)
		harness.Rec.Case(hevcNontrivial(classes, "hevc-slice-nal-", "hevc-slice-type-2"), raw, classes...)
		if harness.Rec.WantSample() {
			c.Hex = fmt.Sprintf("%x", nal)
			harness.Rec.Sample(map[string]interface{}{"kind": "hevcslice", "case": c})
		}
		f := harness.Guarded(func() *harness.Fail { return hevcCheckSlice(c) })
		harness.Report(rt, "hevcslice", c, f)
	})
}
