// C15, HEVC half: slice segment header oracle — hevc.ParseSliceHeader returns the coded values, resolves the
// PPS through slice_pic_parameter_set_id and the SPS through that PPS's pps_seq_parameter_set_id, and reports
// Size = bytes the header occupies (NAL header and emulation prevention bytes included).
package c15

import (
	"encoding/json"
	"fmt"
	"testing"

	"github.com/Eyevinn/mp4ff/hevc"
	"pgregory.net/rapid"

	"verif/internal/esgen"
	"verif/internal/harness"
	"verif/internal/nalgen"
)

type hevcSliceCase struct {
	SPS           []nalgen.HEVCSPSTree `json:"sps"`
	PPS           []nalgen.HEVCPPSTree `json:"pps"`
	Slice         nalgen.HEVCSliceTree `json:"slice"`
	RelaxInterRPS bool                 `json:"relax_inter_rps,omitempty"`
	Hex           string               `json:"hex,omitempty"`
}

// resolve: the harness' own resolution slice -> PPS (by slice_pic_parameter_set_id) -> SPS (by that PPS's
// pps_seq_parameter_set_id).
func (c *hevcSliceCase) resolve() (*nalgen.HEVCSPSTree, *nalgen.HEVCPPSTree) {
	for i := range c.PPS {
		if c.PPS[i].PPS.PicParameterSetID == c.Slice.SH.PicParameterSetId {
			for j := range c.SPS {
				if uint32(c.SPS[j].SPS.SpsID) == c.PPS[i].PPS.SeqParameterSetID {
					return &c.SPS[j], &c.PPS[i]
				}
			}
		}
	}
	return nil, nil
}

// hevcExpectedSlice builds the struct the parser has to return: coded values; for elements that are not
// present the inferred value where the library implements the inference (num_ref_idx defaults,
// collocated_from_l0_flag), else the zero value with the standard's inferred value as accepted alternative.
func hevcExpectedSlice(tr *nalgen.HEVCSliceTree, spsT *nalgen.HEVCSPSTree, pps *hevc.PPS, d *nalgen.HEVCSliceDerived, relaxInter bool) (hevc.SliceHeader, *hevcDiffOpts) {
	want := tr.SH
	o := &hevcDiffOpts{Skip: map[string]bool{"Size": true}, Alt: map[string]interface{}{}}
	nt := int(tr.NalType)
	idr := nt == 19 || nt == 20
	dep := want.DependentSliceSegmentFlag
	want.ShortTermRefPicSet = hevc.ShortTermRPS{}
	if !dep && !idr {
		want.ShortTermRefPicSet = hevcLibRPS(&d.CurrRPS)
		inter := false
		if want.ShortTermRefPicSetSpsFlag {
			inter = spsT.StRPS != nil && spsT.StRPS[want.ShortTermRefPicSetIdx].InterRPSPred
		} else {
			inter = tr.Extra.StRPS != nil && tr.Extra.StRPS.InterRPSPred
		}
		if inter && relaxInter {
			for _, f := range []string{"NumNegativePics", "NumPositivePics", "DeltaPocS0", "DeltaPocS1", "UsedByCurrPicS0", "UsedByCurrPicS1"} {
				o.Skip["ShortTermRefPicSet."+f] = true
			}
		}
	}
	if dep {
		o.Alt["CollocatedFromL0Flag"] = true // the library pre-sets the default
	} else {
		isP, isB := want.SliceType == hevc.SLICE_P, want.SliceType == hevc.SLICE_B
		if isP {
			o.Skip["NumRefIdxL1ActiveMinus1"] = true // meaningless for P slices
		}
		_ = isB
		if !pps.OutputFlagPresentFlag {
			o.Alt["PicOutputFlag"] = true // inferred 1
		}
		if !want.DeblockingFilterOverrideFlag {
			o.Alt["DeblockingFilterDisabledFlag"] = pps.DeblockingFilterDisabledFlag // inferred
			o.Alt["BetaOffsetDiv2"] = pps.BetaOffsetDiv2
			o.Alt["TcOffsetDiv2"] = pps.TcOffsetDiv2
		}
		sliceDbfDisabled := pps.DeblockingFilterDisabledFlag
		if want.DeblockingFilterOverrideFlag {
			sliceDbfDisabled = want.DeblockingFilterDisabledFlag
		}
		if !(pps.LoopFilterAcrossSlicesEnabledFlag && (want.SaoLumaFlag || want.SaoChromaFlag || !sliceDbfDisabled)) {
			o.Alt["LoopFilterAcrossSlicesEnabledFlag"] = pps.LoopFilterAcrossSlicesEnabledFlag // inferred
		}
	}
	return want, o
}

func hevcCheckSlice(c hevcSliceCase) *harness.Fail {
	spsT, ppsT := c.resolve()
	if spsT == nil {
		return harness.Failf("harness|hevcslice|bad case", "slice pps id %d does not resolve", c.Slice.SH.PicParameterSetId)
	}
	spsMap, f := hevcParseSPSs(c.SPS, c.RelaxInterRPS)
	if f != nil {
		return f
	}
	ppsMap := map[uint32]*hevc.PPS{}
	for i := range c.PPS {
		nal, _ := nalgen.HEVCWritePPS(&c.PPS[i])
		got, err := hevc.ParsePPSNALUnit(nal, spsMap)
		if err != nil {
			return harness.Failf("C15|hevc.ParsePPSNALUnit|error on a valid PPS", "ParsePPSNALUnit: %v (PPS NAL %x)", err, nal)
		}
		if f := hevcComparePPS(&c.PPS[i], got, fmt.Sprintf("PPS NAL %x", nal)); f != nil {
			return f
		}
		ppsMap[got.PicParameterSetID] = got
	}
	nal, d := nalgen.HEVCWriteSlice(&c.Slice, spsT, &ppsT.PPS)
	hdrBytes := nalgen.HEVCHeaderSizeInNal(nal, d.HeaderBits)
	ctx := fmt.Sprintf("slice NAL %x (header %d bits = %d bytes in the NAL unit), pps id %d -> sps id %d, NumPicTotalCurr %d",
		nal, d.HeaderBits, hdrBytes, ppsT.PPS.PicParameterSetID, ppsT.PPS.SeqParameterSetID, d.NumPicTotalCurr)
	got, err := hevc.ParseSliceHeader(nal, spsMap, ppsMap)
	if err != nil {
		return harness.Failf("C15|hevc.ParseSliceHeader|error on a valid slice segment header", "ParseSliceHeader: %v (%s)", err, ctx)
	}
	want, o := hevcExpectedSlice(&c.Slice, spsT, &ppsT.PPS, &d, c.RelaxInterRPS)
	if p, w, g := hevcDiff(&want, got, o); p != "" {
		return hevcFieldFail("SliceHeader", p, w, g, ctx)
	}
	if int(got.Size) != hdrBytes {
		return harness.Failf("C15|hevc.SliceHeader.Size|differs from the bytes the header occupies",
			"Size = %d, the header occupies %d bytes (%s)", got.Size, hdrBytes, ctx)
	}
	// the same header once more on the same maps: parsing a slice is a read of the parameter sets, so the second
	// result (and with it every later slice that uses these sets) is the same
	again, err := hevc.ParseSliceHeader(nal, spsMap, ppsMap)
	if err != nil {
		return harness.Failf("C15|hevc.ParseSliceHeader|error on a valid slice segment header", "second parse with the same parameter set maps: %v (%s)", err, ctx)
	}
	if p, w, g := hevcDiff(&want, again, o); p != "" {
		f := hevcFieldFail("SliceHeader", p, w, g, "second parse with the same parameter set maps: "+ctx)
		return f
	}
	// and the parameter sets themselves are what a fresh parse gives
	freshSPS, f := hevcParseSPSs(c.SPS, c.RelaxInterRPS)
	if f != nil {
		return f
	}
	for id, sp := range freshSPS {
		if p, w, g := hevcDiff(sp, spsMap[id], nil); p != "" {
			return harness.Failf("C15|hevc.ParseSliceHeader|parameter set changed by parsing a slice header", "SPS %d field %s: %s after the slice was parsed, %s in a fresh parse (%s)", id, p, g, w, ctx)
		}
	}
	return nil
}

func hevcSliceClasses(c *hevcSliceCase, nal []byte, d *nalgen.HEVCSliceDerived) []string {
	tr := &c.Slice
	sh := &tr.SH
	spsT, ppsT := c.resolve()
	var cl []string
	add := func(b bool, name string) {
		if b {
			cl = append(cl, name)
		}
	}
	cl = append(cl, fmt.Sprintf("hevc-slice-nal-%d", tr.NalType))
	if n := nalgen.HEVCHeaderSizeInNal(nal, d.HeaderBits); true {
		add(n > d.HeaderBits/8, "hevc-slice-emulation-prevention-inside-header")
		// (the last header byte holds alignment_bit_equal_to_one, so no escape can directly follow the header)
	}
	add(d.NumPicTotalCurr > 1, "hevc-slice-numpictotalcurr-gt1")
	add(sh.PicParameterSetId != ppsT.PPS.SeqParameterSetID, "hevc-slice-ppsid-differs-from-spsid")
	for i := range c.SPS {
		if uint32(c.SPS[i].SPS.SpsID) == sh.PicParameterSetId && &c.SPS[i] != spsT {
			add(true, "hevc-slice-other-sps-has-id-of-pps")
		}
	}
	add(!sh.FirstSliceSegmentInPicFlag, "hevc-slice-not-first")
	add(sh.DependentSliceSegmentFlag, "hevc-slice-dependent")
	if !sh.DependentSliceSegmentFlag {
		cl = append(cl, fmt.Sprintf("hevc-slice-type-%d", sh.SliceType))
		nt := int(tr.NalType)
		idr := nt == 19 || nt == 20
		add(len(tr.Extra.SliceReservedFlag) > 0, "hevc-slice-reserved-flags")
		add(spsT.SPS.SeparateColourPlaneFlag, "hevc-slice-colour-plane-id")
		if !idr {
			add(sh.ShortTermRefPicSetSpsFlag, "hevc-slice-strps-by-idx")
			add(sh.ShortTermRefPicSetSpsFlag && spsT.SPS.NumShortTermRefPicSets == 1, "hevc-slice-strps-idx-inferred")
			add(!sh.ShortTermRefPicSetSpsFlag, "hevc-slice-strps-in-header")
			add(tr.Extra.StRPS != nil && tr.Extra.StRPS.InterRPSPred, "hevc-slice-strps-in-header-interpred")
			add(sh.ShortTermRefPicSetSpsFlag && spsT.StRPS[sh.ShortTermRefPicSetIdx].InterRPSPred, "hevc-slice-strps-by-idx-interpred")
			add(spsT.SPS.LongTermRefPicsPresentFlag, "hevc-slice-longterm-syntax")
			add(sh.NumLongTermSps > 0, "hevc-slice-longterm-from-sps")
			add(sh.NumLongTermSps > 0 && spsT.SPS.NumLongTermRefPics == 1, "hevc-slice-longterm-idx-inferred")
			add(sh.NumLongTermPics > 0, "hevc-slice-longterm-in-header")
			for _, lt := range sh.LongTermRefPicSets {
				add(lt.DeltaPocMsbPresentFlag, "hevc-slice-longterm-msb")
			}
			add(spsT.SPS.SpsTemporalMvpEnabledFlag, "hevc-slice-temporal-mvp-flag")
		}
		add(spsT.SPS.SampleAdaptiveOffsetEnabledFlag, "hevc-slice-sao")
		add(sh.NumRefIdxActiveOverrideFlag, "hevc-slice-num-ref-idx-override")
		add(sh.RefPicListsModification != nil, "hevc-slice-ref-pic-lists-modification")
		if m := sh.RefPicListsModification; m != nil {
			add(m.RefPicListModificationFlagL0 || m.RefPicListModificationFlagL1, "hevc-slice-list-entries")
		}
		add(sh.TemporalMvpEnabledFlag && sh.SliceType != hevc.SLICE_I, "hevc-slice-collocated")
		add(sh.PredWeightTable != nil, "hevc-slice-pred-weight-table")
		if len(tr.Extra.PwtCurrPicL0)+len(tr.Extra.PwtCurrPicL1) > 0 {
			add(true, "hevc-slice-pwt-with-curr-pic-ref")
		}
		add(ppsT.PPS.SliceChromaQpOffsetsPresentFlag, "hevc-slice-chroma-qp-offsets")
		add(ppsT.PPS.SccExtension != nil && ppsT.PPS.SccExtension.SliceActQpOffsetsPresentFlag, "hevc-slice-act-qp-offsets")
		add(ppsT.PPS.SccExtension != nil && ppsT.PPS.SccExtension.CurrPicRefEnabledFlag, "hevc-slice-curr-pic-ref")
		add(ppsT.PPS.RangeExtension != nil && ppsT.PPS.RangeExtension.ChromaQpOffsetListEnabledFlag, "hevc-slice-cu-chroma-qp-offset-flag")
		add(sh.DeblockingFilterOverrideFlag, "hevc-slice-deblocking-override")
		add(sh.DeblockingFilterOverrideFlag && !sh.DeblockingFilterDisabledFlag, "hevc-slice-deblocking-offsets")
		add(!sh.DeblockingFilterOverrideFlag && ppsT.PPS.DeblockingFilterDisabledFlag, "hevc-slice-deblocking-disabled-inferred-from-pps")
		add(spsT.SPS.SccExtension != nil && spsT.SPS.SccExtension.MotionVectorResolutionControlIdc == 2 && sh.SliceType != hevc.SLICE_I, "hevc-slice-use-integer-mv")
	}
	add(ppsT.PPS.TilesEnabledFlag || ppsT.PPS.EntropyCodingSyncEnabledFlag, "hevc-slice-entry-point-syntax")
	add(sh.NumEntryPointOffsets > 0, "hevc-slice-entry-points")
	add(ppsT.PPS.SliceSegmentHeaderExtensionPresentFlag, "hevc-slice-header-extension-syntax")
	add(sh.SegmentHeaderExtensionLength > 0, "hevc-slice-header-extension-bytes")
	return cl
}

// hevcGenSliceCase draws the parameter sets (2..3 SPS, 2..4 PPS, ids crossing) and the slice.
func hevcGenSliceCase(rt *rapid.T) hevcSliceCase {
	var c hevcSliceCase
	// PBBias: P and B about as often as I (the plain generator, which C16 uses, ends 68 % of the slices as I)
	c.SPS, c.PPS, c.Slice, _, _ = esgen.HEVCGenSliceSetOpt(rt, esgen.HEVCSliceOpts{PBBias: true})
	spss := c.SPS
	var ptrs []*nalgen.HEVCSPSTree
	for i := range spss {
		ptrs = append(ptrs, &c.SPS[i])
	}
	c.RelaxInterRPS = hevcRelaxFor(ptrs...)
	if !c.RelaxInterRPS && c.Slice.Extra.StRPS != nil && c.Slice.Extra.StRPS.InterRPSPred && esgen.HEVCAvoid("hevc-strps-interpred-not-derived") {
		harness.Rec.Exclude("hevc-strps-interpred-not-derived")
		c.RelaxInterRPS = true
	}
	return c
}

func TestHEVCSlice(t *testing.T) {
	harness.RunRapid(t, "slice", func(rt *rapid.T) {
		c := hevcGenSliceCase(rt)
		spsT, ppsT := c.resolve()
		nal, d := nalgen.HEVCWriteSlice(&c.Slice, spsT, &ppsT.PPS)
		classes := hevcSliceClasses(&c, nal, &d)
		raw, _ := json.Marshal(c)
		harness.Rec.Case(esgen.HEVCNontrivial(classes, "hevc-slice-nal-", "hevc-slice-type-2"), raw, classes...)
		if harness.Rec.WantSample() {
			c.Hex = fmt.Sprintf("%x", nal)
			harness.Rec.Sample(map[string]interface{}{"kind": "hevcslice", "case": c})
		}
		f := harness.Guarded(func() *harness.Fail { return hevcCheckSlice(c) })
		harness.Report(rt, "hevcslice", c, f)
	})
}
