// C15, HEVC half: SPS oracle — hevc.ParseSPSNALUnit returns the coded values; ImageSize follows the
// conformance-window cropping formulas (7-? / Table 6-1).
package c15

import (
	"encoding/json"
	"fmt"
	"testing"

	"github.com/Eyevinn/mp4ff/hevc"
	"pgregory.net/rapid"

	"verif/internal/esgen"
	"verif/internal/harness"
	"verif/internal/nalgen"
)

type hevcSPSCase struct {
	Tree nalgen.HEVCSPSTree `json:"tree"`
	// RelaxInterRPS (set by the generator while the avoid switch hevc-strps-interpred-not-derived is on):
	// for inter-predicted short-term RPSs only NumDeltaPocs is compared.
	RelaxInterRPS bool   `json:"relax_inter_rps,omitempty"`
	Hex           string `json:"hex,omitempty"` // the serialised NAL unit (informational)
}

// hevcExpectedSPS is the struct the parser has to return for the tree: the coded values, plus what the
// standard derives for elements that are not stored as coded (short-term RPS variables, SAR from Table E.1).
func hevcExpectedSPS(tr *nalgen.HEVCSPSTree) hevc.SPS {
	want := tr.SPS
	want.ShortTermRefPicSets = nil
	if cs := tr.RPSCodings(); len(cs) > 0 {
		vars := nalgen.HEVCDeriveAllRPS(cs)
		for i := range vars {
			want.ShortTermRefPicSets = append(want.ShortTermRefPicSets, hevcLibRPS(&vars[i]))
		}
	}
	return want
}

// hevcLibRPS converts the standard's variables into the representation of hevc.ShortTermRPS (DeltaPocSX[i]
// holds delta_poc_sX_minus1[i] + 1, i.e. the distance to the previous entry).
func hevcLibRPS(v *nalgen.HEVCRPSVars) hevc.ShortTermRPS {
	r := hevc.ShortTermRPS{
		NumNegativePics: byte(v.NumNegativePics()),
		NumPositivePics: byte(v.NumPositivePics()),
		NumDeltaPocs:    byte(v.NumDeltaPocs()),
	}
	prev := int64(0)
	for i, d := range v.DeltaPocS0 {
		r.DeltaPocS0 = append(r.DeltaPocS0, uint32(prev-d))
		r.UsedByCurrPicS0 = append(r.UsedByCurrPicS0, v.UsedS0[i])
		prev = d
	}
	prev = 0
	for i, d := range v.DeltaPocS1 {
		r.DeltaPocS1 = append(r.DeltaPocS1, uint32(d-prev))
		r.UsedByCurrPicS1 = append(r.UsedByCurrPicS1, v.UsedS1[i])
		prev = d
	}
	return r
}

// hevcCompareSPS compares got with the tree. ctx goes into the message.
func hevcCompareSPS(tr *nalgen.HEVCSPSTree, got *hevc.SPS, relaxInter bool, ctx string) *harness.Fail {
	want := hevcExpectedSPS(tr)
	o := &hevcDiffOpts{Skip: map[string]bool{}}
	if len(tr.MaxLatencyIncreasePlus1) > 0 {
		o.Skip["SubLayeringOrderingInfos.MaxLatencyIncreasePlus1"] = true
	}
	if relaxInter {
		// counted exclusion for the known defect: compare inter-predicted sets through NumDeltaPocs only
		o.Skip["ShortTermRefPicSets"] = true
	}
	if p, w, g := hevcDiff(&want, got, o); p != "" {
		return hevcFieldFail("SPS", p, w, g, ctx)
	}
	for i, full := range tr.MaxLatencyIncreasePlus1 {
		if i < len(got.SubLayeringOrderingInfos) && uint32(got.SubLayeringOrderingInfos[i].MaxLatencyIncreasePlus1) != full {
			return hevcFieldFail("SPS", fmt.Sprintf("SubLayeringOrderingInfos[%d].MaxLatencyIncreasePlus1", i),
				fmt.Sprint(full), fmt.Sprint(got.SubLayeringOrderingInfos[i].MaxLatencyIncreasePlus1), ctx)
		}
	}
	if relaxInter {
		if len(got.ShortTermRefPicSets) != len(want.ShortTermRefPicSets) {
			return hevcFieldFail("SPS", "ShortTermRefPicSets.len", fmt.Sprint(len(want.ShortTermRefPicSets)), fmt.Sprint(len(got.ShortTermRefPicSets)), ctx)
		}
		for i := range want.ShortTermRefPicSets {
			pth := fmt.Sprintf("ShortTermRefPicSets[%d]", i)
			if tr.StRPS != nil && tr.StRPS[i].InterRPSPred {
				if want.ShortTermRefPicSets[i].NumDeltaPocs != got.ShortTermRefPicSets[i].NumDeltaPocs {
					return hevcFieldFail("SPS", pth+".NumDeltaPocs", fmt.Sprint(want.ShortTermRefPicSets[i].NumDeltaPocs), fmt.Sprint(got.ShortTermRefPicSets[i].NumDeltaPocs), ctx)
				}
				continue
			}
			if p, w, g := hevcDiffValueTop(pth, want.ShortTermRefPicSets[i], got.ShortTermRefPicSets[i]); p != "" {
				return hevcFieldFail("SPS", p, w, g, ctx)
			}
		}
	}
	return nil
}

func hevcDiffValueTop(prefix string, want, got interface{}) (string, string, string) {
	p, w, g := hevcDiff(want, got, nil)
	if p == "" {
		return "", "", ""
	}
	return prefix + "." + p, w, g
}

// hevcCroppedSize: the standard's cropped picture size. The conformance window contains the luma samples
// with horizontal coordinates SubWidthC * conf_win_left_offset .. pic_width_in_luma_samples −
// ( SubWidthC * conf_win_right_offset + 1 ) and likewise vertically (7.4.3.2.1).
func hevcCroppedSize(s *hevc.SPS) (uint32, uint32) {
	sw, sh := esgen.HEVCSubWH(s.ChromaFormatIDC, s.SeparateColourPlaneFlag)
	w := s.PicWidthInLumaSamples - sw*(s.ConformanceWindow.LeftOffset+s.ConformanceWindow.RightOffset)
	h := s.PicHeightInLumaSamples - sh*(s.ConformanceWindow.TopOffset+s.ConformanceWindow.BottomOffset)
	return w, h
}

func hevcCheckSPS(c hevcSPSCase) *harness.Fail {
	nal, _ := nalgen.HEVCWriteSPS(&c.Tree)
	ctx := fmt.Sprintf("SPS NAL %x", nal)
	got, err := hevc.ParseSPSNALUnit(nal)
	if err != nil {
		return harness.Failf("C15|hevc.ParseSPSNALUnit|error on a valid SPS", "ParseSPSNALUnit: %v (%s)", err, ctx)
	}
	if f := hevcCompareSPS(&c.Tree, got, c.RelaxInterRPS, ctx); f != nil {
		return f
	}
	ww, wh := hevcCroppedSize(&c.Tree.SPS)
	gw, gh := got.ImageSize()
	if gw != ww || gh != wh {
		return harness.Failf("C15|hevc.SPS.ImageSize|differs from the conformance window formula",
			"ImageSize() = %dx%d, standard: %dx%d (chroma_format_idc %d, separate planes %v, pic %dx%d, window %+v) (%s)",
			gw, gh, ww, wh, c.Tree.SPS.ChromaFormatIDC, c.Tree.SPS.SeparateColourPlaneFlag,
			c.Tree.SPS.PicWidthInLumaSamples, c.Tree.SPS.PicHeightInLumaSamples, c.Tree.SPS.ConformanceWindow, ctx)
	}
	return nil
}

// hevcRelaxFor decides the RelaxInterRPS flag for a set of SPS trees and counts the exclusion.
func hevcRelaxFor(trees ...*nalgen.HEVCSPSTree) bool {
	if !esgen.HEVCAvoid("hevc-strps-interpred-not-derived") {
		return false
	}
	for _, tr := range trees {
		for _, r := range tr.StRPS {
			if r.InterRPSPred {
				harness.Rec.Exclude("hevc-strps-interpred-not-derived")
				return true
			}
		}
	}
	return false
}

func TestHEVCSPS(t *testing.T) {
	harness.RunRapid(t, "sps", func(rt *rapid.T) {
		tr := esgen.HEVCGenSPS(rt, esgen.HEVCSPSOpts{ID: -1, Log2Poc: -1, SAO: -1}, "")
		c := hevcSPSCase{Tree: *tr, RelaxInterRPS: hevcRelaxFor(tr)}
		classes := esgen.HEVCSPSClasses(tr)
		raw, _ := json.Marshal(c)
		harness.Rec.Case(esgen.HEVCNontrivial(classes, "hevc-sps-chroma-", "hevc-sps-num-strps-0"), raw, classes...)
		if harness.Rec.WantSample() {
			nal, _ := nalgen.HEVCWriteSPS(tr)
			c.Hex = fmt.Sprintf("%x", nal)
			harness.Rec.Sample(map[string]interface{}{"kind": "hevcsps", "case": c})
		}
		f := harness.Guarded(func() *harness.Fail { return hevcCheckSPS(c) })
		harness.Report(rt, "hevcsps", c, f)
	})
}
