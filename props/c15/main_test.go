// C15 — parameter sets and slice headers parse to the values that were coded.
// avc_*_test.go and hevc_*_test.go hold the generators and oracles; serialisers are in internal/nalgen.
package c15

import (
	"testing"

	"verif/internal/harness"
)

func TestMain(m *testing.M) { harness.Main(m) }

func TestReplay(t *testing.T) { harness.ReplayPath(t) }
