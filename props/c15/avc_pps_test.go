// C15, AVC PPS: value tree -> independent serialiser -> avc.ParsePPSNALUnit == value tree.
package c15

import (
	"encoding/json"
	"fmt"
	"testing"

	"github.com/Eyevinn/mp4ff/avc"
	"pgregory.net/rapid"

	"verif/internal/harness"
	"verif/internal/nalgen"
)

// avcPPSCase: several SPS (distinct ids) and several PPS (distinct ids, each referring to one of the SPS).
type avcPPSCase struct {
	SPS []nalgen.AVCSPSTree `json:"sps"`
	PPS []nalgen.AVCPPSTree `json:"pps"`
	Hex []string            `json:"hex,omitempty"` // informational
}

type avcPPSOpts struct {
	ID                 uint32
	NoChangeCycleTypes bool // the PPS will be used by a slice and avc-slice-group-change-cycle-bits is avoided
}

// genAVCPPS draws a PPS referring to sps.
func genAVCPPS(t *rapid.T, o avcPPSOpts, sps *nalgen.AVCSPSTree) nalgen.AVCPPSTree {
	var tr nalgen.AVCPPSTree
	p := &tr.P
	tr.NalRefIdc = uint8(rapid.IntRange(1, 3).Draw(t, "pps-nal_ref_idc"))
	p.PicParameterSetID = o.ID
	p.SeqParameterSetID = sps.S.ParameterID
	p.EntropyCodingModeFlag = rapid.Bool().Draw(t, "entropy_coding_mode_flag")
	p.BottomFieldPicOrderInFramePresentFlag = rapid.Bool().Draw(t, "bottom_field_pic_order_in_frame_present_flag")
	picSize := nalgen.AVCPicSizeInMapUnits(sps)
	picW := uint64(sps.PicWidthInMbsMinus1) + 1
	if picSize >= 2 && avcChance(t, 2, 5, "slice-groups") {
		p.NumSliceGroupsMinus1 = uint(rapid.IntRange(1, 7).Draw(t, "num_slice_groups_minus1"))
		mt := uint(rapid.IntRange(0, 6).Draw(t, "slice_group_map_type"))
		if mt == 6 && picSize > 300 {
			mt = uint(rapid.IntRange(0, 5).Draw(t, "slice_group_map_type-small"))
		}
		if avcAvoid("avc-pps-slicegroup-type2-extra-pair", mt == 2) {
			mt = 1
		}
		if avcAvoid("avc-pps-slicegroup-type6", mt == 6) {
			mt = 0
		}
		if o.NoChangeCycleTypes && mt >= 3 && mt <= 5 {
			rate := avcDrawUint(t, 0, picSize-1, "slice_group_change_rate_minus1") + 1
			libBits := 0
			if rate == 1 {
				libBits = 1
			}
			if avcAvoid("avc-slice-group-change-cycle-bits", nalgen.AVCSliceGroupChangeCycleBits(picSize, uint64(rate)) != libBits) {
				mt = 1
			} else {
				p.SliceGroupChangeDirectionFlag = rapid.Bool().Draw(t, "slice_group_change_direction_flag")
				p.SliceGroupChangeRateMinus1 = rate - 1
			}
		} else if mt >= 3 && mt <= 5 {
			p.SliceGroupChangeDirectionFlag = rapid.Bool().Draw(t, "slice_group_change_direction_flag")
			p.SliceGroupChangeRateMinus1 = avcDrawUint(t, 0, picSize-1, "slice_group_change_rate_minus1")
		}
		p.SliceGroupMapType = mt
		switch mt {
		case 0:
			for i := uint(0); i <= p.NumSliceGroupsMinus1; i++ {
				p.RunLengthMinus1 = append(p.RunLengthMinus1, avcDrawUint(t, 0, picSize-1, "run_length_minus1"))
			}
		case 2:
			picH := picSize / picW
			for i := uint(0); i < p.NumSliceGroupsMinus1; i++ {
				x1 := uint64(rapid.IntRange(0, int(picW-1)).Draw(t, "tl-x-max"))
				x0 := uint64(rapid.IntRange(0, int(x1)).Draw(t, "tl-x"))
				y1 := uint64(rapid.IntRange(0, int(picH-1)).Draw(t, "br-y"))
				y0 := uint64(rapid.IntRange(0, int(y1)).Draw(t, "tl-y"))
				p.TopLeft = append(p.TopLeft, uint(y0*picW+x0))
				p.BottomRight = append(p.BottomRight, uint(y1*picW+x1))
			}
		case 6:
			p.PicSizeInMapUnitsMinus1 = uint(picSize - 1)
			for i := uint64(0); i < picSize; i++ {
				p.SliceGroupID = append(p.SliceGroupID, uint(rapid.IntRange(0, int(p.NumSliceGroupsMinus1)).Draw(t, "slice_group_id")))
			}
		}
	}
	p.NumRefIdxI0DefaultActiveMinus1 = uint(rapid.SampledFrom([]int{0, 0, 1, 2, 3, 15, 16, 31}).Draw(t, "num_ref_idx_l0_default_active_minus1"))
	p.NumRefIdxI1DefaultActiveMinus1 = uint(rapid.SampledFrom([]int{0, 0, 1, 2, 3, 15, 16, 31}).Draw(t, "num_ref_idx_l1_default_active_minus1"))
	p.WeightedPredFlag = rapid.Bool().Draw(t, "weighted_pred_flag")
	p.WeightedBipredIDC = uint(rapid.IntRange(0, 2).Draw(t, "weighted_bipred_idc"))
	qpBdOffsetY := 6 * int64(sps.S.BitDepthLumaMinus8)
	p.PicInitQpMinus26 = int(avcDrawInt(t, -(26 + qpBdOffsetY), 25, "pic_init_qp_minus26"))
	p.PicInitQsMinus26 = int(avcDrawInt(t, -26, 25, "pic_init_qs_minus26"))
	p.ChromaQpIndexOffset = int(avcDrawInt(t, -12, 12, "chroma_qp_index_offset"))
	p.DeblockingFilterControlPresentFlag = rapid.Bool().Draw(t, "deblocking_filter_control_present_flag")
	p.ConstrainedIntraPredFlag = rapid.Bool().Draw(t, "constrained_intra_pred_flag")
	p.RedundantPicCntPresentFlag = rapid.Bool().Draw(t, "redundant_pic_cnt_present_flag")
	tr.TailPresent = avcChance(t, 3, 5, "pps-tail")
	if tr.TailPresent {
		p.Transform8x8ModeFlag = rapid.Bool().Draw(t, "transform_8x8_mode_flag")
		p.PicScalingMatrixPresentFlag = avcChance(t, 1, 3, "pic_scaling_matrix_present_flag")
		if avcAvoid("avc-pps-scalinglists-without-8x8", p.PicScalingMatrixPresentFlag && !p.Transform8x8ModeFlag) {
			p.Transform8x8ModeFlag = true
		}
		if p.PicScalingMatrixPresentFlag {
			tr.ScalingLists = genAVCScalingLists(t, nalgen.AVCNumPicScalingLists(avcChromaFormatIDC(&sps.S), p.Transform8x8ModeFlag), false, "pic_scaling_list")
		}
		p.SecondChromaQpIndexOffset = int(avcDrawInt(t, -12, 12, "second_chroma_qp_index_offset"))
	}
	return tr
}

// avcChromaFormatIDC is chroma_format_idc, inferred to be 1 when not coded.
func avcChromaFormatIDC(s *avc.SPS) byte {
	if !nalgen.AVCHighProfileFields(s.Profile) {
		return 1
	}
	return s.ChromaFormatIDC
}

func avcPPSClasses(tr *nalgen.AVCPPSTree) []string {
	p := &tr.P
	var cl []string
	if p.NumSliceGroupsMinus1 > 0 {
		cl = append(cl, fmt.Sprintf("avc-pps-slicegroups-type%d", p.SliceGroupMapType))
	} else {
		cl = append(cl, "avc-pps-one-slice-group")
	}
	if tr.TailPresent {
		cl = append(cl, "avc-pps-tail")
		if p.Transform8x8ModeFlag {
			cl = append(cl, "avc-pps-transform8x8")
		}
		if p.PicScalingMatrixPresentFlag {
			cl = append(cl, fmt.Sprintf("avc-pps-scaling-lists-%d", len(tr.ScalingLists)))
		}
	}
	if p.PicParameterSetID != p.SeqParameterSetID {
		cl = append(cl, "avc-pps-id-differs-from-sps-id")
	}
	return cl
}

func avcExpectedPPS(tr *nalgen.AVCPPSTree) avc.PPS {
	e := tr.P
	e.PicScalingLists = nil
	if tr.TailPresent && e.PicScalingMatrixPresentFlag {
		e.PicScalingLists = make([]avc.ScalingList, len(tr.ScalingLists))
		for i, l := range tr.ScalingLists {
			if !l.Present {
				continue
			}
			size := 16
			if i >= 6 {
				size = 64
			}
			vals, _, _, _ := nalgen.ScalingListValues(l.Deltas, size)
			e.PicScalingLists[i] = vals
		}
	}
	return e
}

// avcComparePPS: when the optional tail is absent, second_chroma_qp_index_offset has no coded value
// (its inferred value is chroma_qp_index_offset, 7.4.2.2); the struct field is then not judged.
func avcComparePPS(tr *nalgen.AVCPPSTree, got *avc.PPS, ctx string) *harness.Fail {
	want := avcExpectedPPS(tr)
	g := *got
	if f := avcPPSFeature(tr); f != "" {
		ctx += "; PPS" + f
	}
	if !tr.TailPresent {
		want.SecondChromaQpIndexOffset, g.SecondChromaQpIndexOffset = 0, 0
	}
	return avcFieldFail("avc.PPS", &want, &g, ctx)
}

// avcParseSets serialises and parses all parameter sets of a case (SPS first, PPS with the SPS map), comparing
// each with its tree. It returns the maps keyed by the parsed ids, and the NAL units.
func avcParseSets(spsT []nalgen.AVCSPSTree, ppsT []nalgen.AVCPPSTree) (map[uint32]*avc.SPS, map[uint32]*avc.PPS, [][]byte, [][]byte, *harness.Fail) {
	spsMap := map[uint32]*avc.SPS{}
	ppsMap := map[uint32]*avc.PPS{}
	var spsN, ppsN [][]byte
	byID := map[uint32]*nalgen.AVCSPSTree{}
	for i := range spsT {
		nalu, info := nalgen.SerializeAVCSPS(&spsT[i])
		spsN = append(spsN, nalu)
		ctx := fmt.Sprintf("sps[%d] %x", i, nalu)
		got, err := avc.ParseSPSNALUnit(nalu, true)
		if err != nil {
			return nil, nil, nil, nil, harness.Failf("C15|avc.ParseSPSNALUnit|error on valid SPS"+avcSPSFeature(&spsT[i]), "%v (%s)", err, ctx)
		}
		if f := avcCompareSPS(&spsT[i], info, got, true, ctx); f != nil {
			return nil, nil, nil, nil, f
		}
		spsMap[got.ParameterID] = got
		byID[spsT[i].S.ParameterID] = &spsT[i]
	}
	for i := range ppsT {
		ref := byID[ppsT[i].P.SeqParameterSetID]
		if ref == nil {
			return nil, nil, nil, nil, harness.Failf("harness|bad-case", "pps[%d] refers to sps id %d which is not in the case", i, ppsT[i].P.SeqParameterSetID)
		}
		nalu, _ := nalgen.SerializeAVCPPS(&ppsT[i], avcChromaFormatIDC(&ref.S))
		ppsN = append(ppsN, nalu)
		ctx := fmt.Sprintf("pps[%d] %x (pps id %d -> sps id %d)", i, nalu, ppsT[i].P.PicParameterSetID, ppsT[i].P.SeqParameterSetID)
		got, err := avc.ParsePPSNALUnit(nalu, spsMap)
		if err != nil {
			return nil, nil, nil, nil, harness.Failf("C15|avc.ParsePPSNALUnit|error on valid PPS"+avcPPSFeature(&ppsT[i]), "%v (%s)", err, ctx)
		}
		if f := avcComparePPS(&ppsT[i], got, ctx); f != nil {
			return nil, nil, nil, nil, f
		}
		ppsMap[got.PicParameterSetID] = got
	}
	return spsMap, ppsMap, spsN, ppsN, nil
}

// avcPPSFeature names the rarely used syntax a PPS contains (part of the key when the parser rejects the PPS).
func avcPPSFeature(tr *nalgen.AVCPPSTree) string {
	f := ""
	if tr.P.NumSliceGroupsMinus1 > 0 {
		f += fmt.Sprintf(" with slice_group_map_type %d", tr.P.SliceGroupMapType)
	}
	if tr.TailPresent && tr.P.PicScalingMatrixPresentFlag && !tr.P.Transform8x8ModeFlag {
		f += " with pic_scaling_matrix_present_flag=1 and transform_8x8_mode_flag=0"
	}
	return f
}

func checkAVCPPS(c avcPPSCase) *harness.Fail {
	_, _, _, _, f := avcParseSets(c.SPS, c.PPS)
	return f
}

// avcDistinct draws n distinct ids; small ids are frequent so that SPS ids and PPS ids collide across the two maps.
func avcDistinct(t *rapid.T, n int, max int, label string) []uint32 {
	seen := map[uint32]bool{}
	var out []uint32
	for len(out) < n {
		var v int
		if avcChance(t, 3, 4, label+"-small") {
			v = rapid.IntRange(0, 4).Draw(t, label)
		} else {
			v = int(avcDrawInt(t, 0, int64(max), label))
		}
		for seen[uint32(v)] {
			v = (v + 1) % (max + 1)
		}
		seen[uint32(v)] = true
		out = append(out, uint32(v))
	}
	return out
}

func TestAVCPPS(t *testing.T) {
	harness.RunRapid(t, "pps", func(rt *rapid.T) {
		var c avcPPSCase
		nSPS := rapid.IntRange(1, 3).Draw(rt, "nSPS")
		nPPS := rapid.IntRange(1, 3).Draw(rt, "nPPS")
		spsIDs := avcDistinct(rt, nSPS, 31, "seq_parameter_set_id")
		ppsIDs := avcDistinct(rt, nPPS, 255, "pic_parameter_set_id")
		for i := 0; i < nSPS; i++ {
			c.SPS = append(c.SPS, genAVCSPS(rt, avcSPSOpts{ID: spsIDs[i], Light: true}))
		}
		var cl []string
		for i := 0; i < nPPS; i++ {
			ref := rapid.IntRange(0, nSPS-1).Draw(rt, "pps-refers-to")
			c.PPS = append(c.PPS, genAVCPPS(rt, avcPPSOpts{ID: ppsIDs[i]}, &c.SPS[ref]))
			cl = append(cl, avcPPSClasses(&c.PPS[i])...)
		}
		raw, _ := json.Marshal(c)
		harness.Rec.Case(avcNontrivial(cl, "avc-pps-one-slice-group"), raw, cl...)
		if harness.Rec.WantSample() {
			harness.Rec.Sample(map[string]interface{}{"kind": "avcpps", "case": c})
		}
		f := harness.Guarded(func() *harness.Fail { return checkAVCPPS(c) })
		avcReplayConsistent(rt, raw, f, harness.Replayer(checkAVCPPS))
		harness.Report(rt, "avcpps", c, f)
	})
}
