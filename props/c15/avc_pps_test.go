// C15, AVC PPS: value tree -> independent serialiser -> avc.ParsePPSNALUnit == value tree.
package c15

import (
	"encoding/json"
	"fmt"
	"testing"

	"github.com/Eyevinn/mp4ff/avc"
	"pgregory.net/rapid"

	"verif/internal/esgen"
	"verif/internal/harness"
	"verif/internal/nalgen"
)

// avcPPSCase: several SPS (distinct ids) and several PPS (distinct ids, each referring to one of the SPS).
type avcPPSCase struct {
	SPS []nalgen.AVCSPSTree `json:"sps"`
	PPS []nalgen.AVCPPSTree `json:"pps"`
	Hex []string            `json:"hex,omitempty"` // informational
}

func avcExpectedPPS(tr *nalgen.AVCPPSTree) avc.PPS {
	e := tr.P
	e.PicScalingLists = nil
	if tr.TailPresent && e.PicScalingMatrixPresentFlag {
		e.PicScalingLists = make([]avc.ScalingList, len(tr.ScalingLists))
		for i, l := range tr.ScalingLists {
			if !l.Present {
				continue
			}
			size := 16
			if i >= 6 {
				size = 64
			}
			vals, _, _, _ := nalgen.ScalingListValues(l.Deltas, size)
			e.PicScalingLists[i] = vals
		}
	}
	return e
}

// avcComparePPS: when the optional tail is absent, second_chroma_qp_index_offset has no coded value
// (its inferred value is chroma_qp_index_offset, 7.4.2.2); the struct field is then not judged.
func avcComparePPS(tr *nalgen.AVCPPSTree, got *avc.PPS, ctx string) *harness.Fail {
	want := avcExpectedPPS(tr)
	g := *got
	if f := avcPPSFeature(tr); f != "" {
		ctx += "; PPS" + f
	}
	if !tr.TailPresent {
		want.SecondChromaQpIndexOffset, g.SecondChromaQpIndexOffset = 0, 0
	}
	return avcFieldFail("avc.PPS", &want, &g, ctx)
}

// avcParseSets serialises and parses all parameter sets of a case (SPS first, PPS with the SPS map), comparing
// each with its tree. It returns the maps keyed by the parsed ids, and the NAL units.
func avcParseSets(spsT []nalgen.AVCSPSTree, ppsT []nalgen.AVCPPSTree) (map[uint32]*avc.SPS, map[uint32]*avc.PPS, [][]byte, [][]byte, *harness.Fail) {
	spsMap := map[uint32]*avc.SPS{}
	ppsMap := map[uint32]*avc.PPS{}
	var spsN, ppsN [][]byte
	byID := map[uint32]*nalgen.AVCSPSTree{}
	for i := range spsT {
		nalu, info := nalgen.SerializeAVCSPS(&spsT[i])
		spsN = append(spsN, nalu)
		ctx := fmt.Sprintf("sps[%d] %x", i, nalu)
		got, err := avc.ParseSPSNALUnit(nalu, true)
		if err != nil {
			return nil, nil, nil, nil, harness.Failf("C15|avc.ParseSPSNALUnit|error on valid SPS"+avcSPSFeature(&spsT[i]), "%v (%s)", err, ctx)
		}
		if f := avcCompareSPS(&spsT[i], info, got, true, ctx); f != nil {
			return nil, nil, nil, nil, f
		}
		spsMap[got.ParameterID] = got
		byID[spsT[i].S.ParameterID] = &spsT[i]
	}
	for i := range ppsT {
		ref := byID[ppsT[i].P.SeqParameterSetID]
		if ref == nil {
			return nil, nil, nil, nil, harness.Failf("harness|bad-case", "pps[%d] refers to sps id %d which is not in the case", i, ppsT[i].P.SeqParameterSetID)
		}
		nalu, _ := nalgen.SerializeAVCPPS(&ppsT[i], esgen.AVCChromaFormatIDC(&ref.S))
		ppsN = append(ppsN, nalu)
		ctx := fmt.Sprintf("pps[%d] %x (pps id %d -> sps id %d)", i, nalu, ppsT[i].P.PicParameterSetID, ppsT[i].P.SeqParameterSetID)
		got, err := avc.ParsePPSNALUnit(nalu, spsMap)
		if err != nil {
			return nil, nil, nil, nil, harness.Failf("C15|avc.ParsePPSNALUnit|error on valid PPS"+avcPPSFeature(&ppsT[i]), "%v (%s)", err, ctx)
		}
		if f := avcComparePPS(&ppsT[i], got, ctx); f != nil {
			return nil, nil, nil, nil, f
		}
		ppsMap[got.PicParameterSetID] = got
	}
	return spsMap, ppsMap, spsN, ppsN, nil
}

// avcPPSFeature names the rarely used syntax a PPS contains (part of the key when the parser rejects the PPS).
func avcPPSFeature(tr *nalgen.AVCPPSTree) string {
	f := ""
	if tr.P.NumSliceGroupsMinus1 > 0 {
		f += fmt.Sprintf(" with slice_group_map_type %d", tr.P.SliceGroupMapType)
	}
	if tr.TailPresent && tr.P.PicScalingMatrixPresentFlag && !tr.P.Transform8x8ModeFlag {
		f += " with pic_scaling_matrix_present_flag=1 and transform_8x8_mode_flag=0"
	}
	return f
}

func checkAVCPPS(c avcPPSCase) *harness.Fail {
	_, _, _, _, f := avcParseSets(c.SPS, c.PPS)
	return f
}

func TestAVCPPS(t *testing.T) {
	harness.RunRapid(t, "pps", func(rt *rapid.T) {
		var c avcPPSCase
		c.SPS, c.PPS = esgen.GenAVCPPSSet(rt)
		var cl []string
		for i := range c.PPS {
			cl = append(cl, esgen.AVCPPSClasses(&c.PPS[i])...)
		}
		raw, _ := json.Marshal(c)
		harness.Rec.Case(esgen.AVCNontrivial(cl, "avc-pps-one-slice-group"), raw, cl...)
		if harness.Rec.WantSample() {
			harness.Rec.Sample(map[string]interface{}{"kind": "avcpps", "case": c})
		}
		f := harness.Guarded(func() *harness.Fail { return checkAVCPPS(c) })
		avcReplayConsistent(rt, raw, f, harness.Replayer(checkAVCPPS))
		harness.Report(rt, "avcpps", c, f)
	})
}
