// C09 — sample-table queries agree with the ISO/IEC 14496-12 table semantics.
//
// A per-sample model and a table layout are drawn, serialised by the harness' own writer
// (mp4build.BuildProgressive), decoded by the library (mp4.DecodeFile) and then every query the
// library offers on the sample tables is compared with the naive expansion of the table entries
// (tablemodel), for every sample number, every chunk (incl. its sample description index), every
// interval (all of them for N <= 40) and all sample start times +-1. The generator includes empty
// samples (size 0, up to whole chunks and tracks without bytes), zero-count stts/ctts entries and, for
// the tables rebuilt through the API, co64 offsets beyond 32 bits.
package c09

import (
	"bytes"
	"encoding/json"
	"fmt"
	"os"
	"sort"
	"strings"
	"testing"
	"time"

	"github.com/Eyevinn/mp4ff/mp4"
	"pgregory.net/rapid"

	"verif/internal/harness"
	"verif/internal/mp4build"
	"verif/internal/tablemodel"
)

func TestMain(m *testing.M) { harness.Main(m) }

func init() {
	harness.RegisterReplay("tables", harness.Replayer(checkTables))
	// development aid: VERIF_C09_NOAVOID=all or a comma-separated list of switch names evaluates the
	// known-defect argument classes as well
	if v := os.Getenv("VERIF_C09_NOAVOID"); v == "all" {
		avoidKnown = map[string]bool{}
	} else if v != "" {
		for _, name := range strings.Split(v, ",") {
			delete(avoidKnown, name)
		}
	}
}

func TestReplay(t *testing.T) { harness.ReplayPath(t) }

// avoidKnown lists the confirmed library defects whose argument class is skipped (and counted) so
// that the search continues behind them. Each name has a reproducer /verif/replay/C09/kf-<name>.json
// (those cases carry "noAvoid": true, so replaying them shows the failure).
var avoidKnown = map[string]bool{
	// The two confirmed defects found while building this check were repaired in /repo
	// ("fix:" commits aa1187f TrakBox.GetSampleData index, 8f32030 NewSdtpEntry); their reproducers
	// replay/C09/fixed-*.json are replayed on every run as regression inputs.
	//
	// Found by the audit extensions, repaired in /repo (reproducers replay/C09/fixed-<name>.json):
	//
	// SttsBox.GetSampleNrAtTime recognises the final zero-duration sample only when the LAST table entry is
	// (1, 0): with zero-count entries after it (e.g. stts [(1,0),(0,0)]) the start time of that sample gives
	// "no matching sample found". Oracle side: that one time value is not queried on such tables.
	"stts-getsamplenrattime-final-zero-dur-before-zero-count-entry": false, // repaired in /repo (fix: 53c79ef)
	// File.CopySampleData on a file decoded with the mdat in memory: when every mdat box of the file is empty
	// (all samples of all tracks have size 0 and there are extra empty mdat boxes), File.Mdat is the LAST
	// mdat box; a chunk offset that points at the (empty) payload of an earlier one gives
	// offset-PayloadAbsoluteOffset() < 0 as uint64 and the slice expression panics instead of copying 0
	// bytes (also after DecModeLazyMdat: an empty mdat is never lazy). Oracle side: the copies are not made
	// when all mdat boxes are empty and File.Mdat is not the one the chunk offsets point into.
	"copysampledata-all-mdat-empty-wrong-box": false, // repaired in /repo (fix: 0efe418)
}

// allIntervalsMax: up to this many samples every interval 1<=a<=b<=N is evaluated.
const allIntervalsMax = 40

type tablesCase struct {
	Tracks     []mp4build.Track    `json:"tracks"`
	Layout     mp4build.ProgLayout `json:"layout"`
	TrackIndex int                 `json:"trackIndex"`
	Variant    string              `json:"variant"`             // "decode" (default) | "api"
	Intervals  [][2]uint32         `json:"intervals,omitempty"` // evaluated when N > allIntervalsMax
	WorkSpace  int                 `json:"workSpace"`           // work space size for the lazy CopySampleData
	// OffsetShift (variant "api" on a co64 track only) is added to every chunk offset of the rebuilt co64 box
	// and of the reference, so that offsets beyond 32 bits are queried; the data copies are left out then
	OffsetShift uint64 `json:"offsetShift,omitempty"`
	// SizeScale > 1 (variant "api" on a co64 track only): every sample size and every chunk offset of the rebuilt
	// tables and of the reference is multiplied by it (the layout stays consistent: chunks and gaps grow alike), so
	// that sizes near 2^31 and sums of sizes and offsets far beyond 2^32 are queried; the data copies are left out
	SizeScale uint64 `json:"sizeScale,omitempty"`
	NoAvoid   bool   `json:"noAvoid,omitempty"` // ignore avoidKnown (reproducers of known findings)
}

type stats struct {
	queries int64
	skipped map[string]int64
}

func (c *tablesCase) avoid(st *stats, name string) bool {
	if c.NoAvoid || !avoidKnown[name] {
		return false
	}
	if st.skipped == nil {
		st.skipped = map[string]int64{}
	}
	st.skipped[name]++
	return true
}

func checkTables(c tablesCase) *harness.Fail {
	var st stats
	return evalTables(&c, &st)
}

// expFlags is the sample-flags word of ISO/IEC 14496-12 8.8.3.1 that corresponds to the stss and
// sdtp information of a progressive track: sample_is_non_sync_sample from stss; the four 2-bit
// dependency fields from sdtp if present; without sdtp a sync sample listed in stss is marked
// sample_depends_on=2 (the translation the library documents in createSampleFlagsFromProgressiveBoxes).
func expFlags(hasStss, sync, hasSdtp bool, sdtp byte) uint32 {
	var leading, dependsOn, dependedOn, redundancy, nonSync uint32
	if hasStss {
		if sync {
			dependsOn = 2
		} else {
			nonSync = 1
		}
	}
	if hasSdtp {
		leading = uint32(sdtp>>6) & 3
		dependsOn = uint32(sdtp>>4) & 3
		dependedOn = uint32(sdtp>>2) & 3
		redundancy = uint32(sdtp) & 3
	}
	return leading<<26 | dependsOn<<24 | dependedOn<<22 | redundancy<<20 | nonSync<<16
}

// apiStbl rebuilds the sample tables of a track through the library's public construction API from
// the raw table entries.
func apiStbl(c *tablesCase, st *stats, tb *tablemodel.Tables, stsd *mp4.StsdBox) (*mp4.StblBox, *harness.Fail) {
	stbl := mp4.NewStblBox()
	stbl.AddChild(stsd)
	stts := &mp4.SttsBox{}
	for _, e := range tb.Stts {
		stts.SampleCount = append(stts.SampleCount, e.Count)
		stts.SampleTimeDelta = append(stts.SampleTimeDelta, e.Delta)
	}
	stbl.AddChild(stts)
	if tb.CttsVersion >= 0 {
		ctts := &mp4.CttsBox{Version: byte(tb.CttsVersion)}
		// two calls, so that the accumulation across calls is exercised as well
		half := len(tb.Ctts) / 2
		for _, part := range [][]tablemodel.CttsEntry{tb.Ctts[:half], tb.Ctts[half:]} {
			var counts []uint32
			var offsets []int32
			for _, e := range part {
				counts = append(counts, e.Count)
				offsets = append(offsets, e.Offset)
			}
			if err := ctts.AddSampleCountsAndOffset(counts, offsets); err != nil {
				return nil, harness.Failf("C09|CttsBox.AddSampleCountsAndOffset|error on consistent entries", "%v", err)
			}
		}
		stbl.AddChild(ctts)
	}
	stsc := &mp4.StscBox{}
	for _, e := range tb.Stsc {
		if err := stsc.AddEntry(e.FirstChunk, e.SamplesPerChunk, e.DescIdx); err != nil {
			return nil, harness.Failf("C09|StscBox.AddEntry|error on consistent entries", "AddEntry(%d,%d,%d): %v", e.FirstChunk, e.SamplesPerChunk, e.DescIdx, err)
		}
	}
	stbl.AddChild(stsc)
	stbl.AddChild(&mp4.StszBox{SampleUniformSize: tb.UniformSize, SampleNumber: tb.SampleCount, SampleSize: append([]uint32{}, tb.Sizes...)})
	if tb.Co64 {
		stbl.AddChild(&mp4.Co64Box{ChunkOffset: append([]uint64{}, tb.ChunkOffsets...)})
	} else {
		co := &mp4.StcoBox{}
		for _, o := range tb.ChunkOffsets {
			co.ChunkOffset = append(co.ChunkOffset, uint32(o))
		}
		stbl.AddChild(co)
	}
	if tb.HasStss {
		stbl.AddChild(&mp4.StssBox{SampleNumber: append([]uint32{}, tb.Stss...)})
	}
	if tb.HasSdtp {
		entries := make([]mp4.SdtpEntry, len(tb.Sdtp))
		useConv := c.avoid(st, "sdtp-newsdtpentry-dependson")
		for i, b := range tb.Sdtp {
			if useConv {
				entries[i] = mp4.SdtpEntry(b)
			} else {
				entries[i] = mp4.NewSdtpEntry(b>>6&3, b>>4&3, b>>2&3, b&3)
				st.queries++
				if byte(entries[i]) != b { // ISO/IEC 14496-12 8.6.4.2: is_leading, depends_on, is_depended_on, has_redundancy, 2 bits each
					return nil, harness.Failf("C09|NewSdtpEntry|entry byte differs from the four 2-bit fields",
						"NewSdtpEntry(isLeading=%d, dependsOn=%d, dependedOn=%d, redundancy=%d) = %#02x, ISO 14496-12 8.6.4.2 layout gives %#02x", b>>6&3, b>>4&3, b>>2&3, b&3, byte(entries[i]), b)
				}
			}
		}
		stbl.AddChild(mp4.CreateSdtpBox(entries))
	}
	return stbl, nil
}

func evalTables(c *tablesCase, st *stats) *harness.Fail {
	if c.TrackIndex < 0 || c.TrackIndex >= len(c.Tracks) {
		return harness.Failf("harness|c09|bad-case", "track index %d of %d", c.TrackIndex, len(c.Tracks))
	}
	file, truth, err := mp4build.BuildProgressive(c.Tracks, c.Layout)
	if err != nil {
		return harness.Failf("harness|c09|build", "%v", err)
	}
	// the reference: independent byte-level parse + naive expansion, cross-checked with the model
	mv, err := tablemodel.ParseProgressive(file)
	if err != nil {
		return harness.Failf("harness|c09|reference-parse", "%v", err)
	}
	model := c.Tracks[c.TrackIndex]
	tl := c.Layout.Tracks[c.TrackIndex]
	tt := truth.Tracks[c.TrackIndex]
	ref := mv.Tracks[c.TrackIndex]
	tb := &ref.Tables
	x := ref.X
	n := len(model.Samples)
	if x.N != n || x.NrChunks() != len(tl.ChunkSizes) {
		return harness.Failf("harness|c09|reference-differs-from-model", "N %d/%d chunks %d/%d", x.N, n, x.NrChunks(), len(tl.ChunkSizes))
	}
	pos := make([]int, n+1) // pos[k] = number of data bytes of samples 1..k
	var all []byte
	for i, s := range model.Samples {
		nr := i + 1
		if x.Dur[nr] != s.Dur || x.Cto[nr] != s.Cto || x.Size[nr] != uint32(len(s.Data)) || x.Sync[nr] != s.Sync || x.Sdtp[nr] != s.Sdtp ||
			x.Offset[nr] != tt.SampleOffset[i] || x.Chunk[nr] != tt.SampleChunk[i] || x.DescIdx[nr] != tt.SampleDescID[i] ||
			!bytes.Equal(mv.SampleBytes(file, c.TrackIndex, nr), s.Data) {
			return harness.Failf("harness|c09|reference-differs-from-model", "sample %d", nr)
		}
		all = append(all, s.Data...)
		pos[nr] = len(all)
	}
	nc := x.NrChunks()
	if c.SizeScale > 1 {
		if c.Variant != "api" || !tb.Co64 || c.SizeScale > 1<<25 {
			return harness.Failf("harness|c09|bad-case", "size scale %d needs variant api and a co64 track", c.SizeScale)
		}
		scaled := *tb
		scaled.ChunkOffsets = make([]uint64, len(tb.ChunkOffsets))
		for i, o := range tb.ChunkOffsets {
			scaled.ChunkOffsets[i] = o * c.SizeScale
		}
		scaled.Sizes = make([]uint32, len(tb.Sizes))
		for i, z := range tb.Sizes {
			if uint64(z)*c.SizeScale > 0xffffffff {
				return harness.Failf("harness|c09|bad-case", "size %d x %d does not fit 32 bits", z, c.SizeScale)
			}
			scaled.Sizes[i] = uint32(uint64(z) * c.SizeScale)
		}
		if uint64(tb.UniformSize)*c.SizeScale > 0xffffffff {
			return harness.Failf("harness|c09|bad-case", "uniform size %d x %d does not fit 32 bits", tb.UniformSize, c.SizeScale)
		}
		scaled.UniformSize = uint32(uint64(tb.UniformSize) * c.SizeScale)
		tb = &scaled
		if x, err = tb.Expand(); err != nil {
			return harness.Failf("harness|c09|reference-parse", "scaled tables: %v", err)
		}
	}
	if c.OffsetShift != 0 {
		if c.Variant != "api" || !tb.Co64 || c.OffsetShift > 1<<62 {
			return harness.Failf("harness|c09|bad-case", "offset shift %d needs variant api and a co64 track", c.OffsetShift)
		}
		shifted := *tb
		shifted.ChunkOffsets = make([]uint64, len(tb.ChunkOffsets))
		for i, o := range tb.ChunkOffsets {
			shifted.ChunkOffsets[i] = o + c.OffsetShift
		}
		tb = &shifted
		if x, err = tb.Expand(); err != nil {
			return harness.Failf("harness|c09|reference-parse", "shifted tables: %v", err)
		}
	}

	// the library's view
	f, err := mp4.DecodeFile(bytes.NewReader(file))
	if err != nil {
		return harness.Failf("C09|DecodeFile|error on consistent progressive file", "%v", err)
	}
	fl, err := mp4.DecodeFile(bytes.NewReader(file), mp4.WithDecodeMode(mp4.DecModeLazyMdat))
	if err != nil {
		return harness.Failf("C09|DecodeFile|error on consistent progressive file (lazy mdat)", "%v", err)
	}
	if f.Moov == nil || len(f.Moov.Traks) != len(c.Tracks) || fl.Moov == nil || len(fl.Moov.Traks) != len(c.Tracks) || f.Mdat == nil || fl.Mdat == nil {
		return harness.Failf("C09|DecodeFile|decoded structure incomplete", "moov/traks/mdat missing")
	}
	trak := f.Moov.Traks[c.TrackIndex]
	trakL := fl.Moov.Traks[c.TrackIndex]
	if trak.Tkhd == nil || trak.Tkhd.TrackID != model.ID {
		return harness.Failf("C09|DecodeFile|wrong track", "trak %d has id %v, model %d", c.TrackIndex, trak.Tkhd, model.ID)
	}
	if c.Variant == "api" {
		for _, tk := range []*mp4.TrakBox{trak, trakL} {
			stbl, fail := apiStbl(c, st, tb, tk.Mdia.Minf.Stbl.Stsd)
			if fail != nil {
				return fail
			}
			tk.Mdia.Minf.Stbl = stbl
		}
	}
	stbl := trak.Mdia.Minf.Stbl
	if stbl.Stts == nil || stbl.Stsc == nil || stbl.Stsz == nil || (stbl.Stco == nil) == (stbl.Co64 == nil) ||
		(stbl.Ctts != nil) != (tb.CttsVersion >= 0) || (stbl.Stss != nil) != tb.HasStss || (stbl.Sdtp != nil) != tb.HasSdtp || (stbl.Co64 != nil) != tb.Co64 {
		return harness.Failf("C09|DecodeFile|table boxes present differ", "stts %v ctts %v stsc %v stsz %v stco %v co64 %v stss %v sdtp %v",
			stbl.Stts != nil, stbl.Ctts != nil, stbl.Stsc != nil, stbl.Stsz != nil, stbl.Stco != nil, stbl.Co64 != nil, stbl.Stss != nil, stbl.Sdtp != nil)
	}
	q := &st.queries
	if stbl.Sdtp != nil && len(stbl.Sdtp.Entries) != n {
		return harness.Failf("C09|SdtpBox|number of entries differs", "%d entries, %d samples", len(stbl.Sdtp.Entries), n)
	}

	// ---- counts
	*q += 2
	if got := stbl.Stsz.GetNrSamples(); got != uint32(n) {
		return harness.Failf("C09|StszBox.GetNrSamples|count differs", "got %d, tables hold %d samples", got, n)
	}
	if got := trak.GetNrSamples(); got != uint32(n) {
		return harness.Failf("C09|TrakBox.GetNrSamples|count differs", "got %d, tables hold %d samples", got, n)
	}

	// ---- per sample: in ascending order, then descending, then jumping between both ends (a lookup that follows
	// another one far away in the table: the answers must not depend on what was asked before)
	visit := func(n int) []int {
		out := make([]int, 0, 3*n)
		for i := 1; i <= n; i++ {
			out = append(out, i)
		}
		for i := n; i >= 1; i-- {
			out = append(out, i)
		}
		for lo, hi := 1, n; lo <= hi; lo, hi = lo+1, hi-1 {
			out = append(out, hi, lo)
		}
		return out
	}
	for _, nr := range visit(n) {
		u := uint32(nr)
		*q += 7
		dt, dur := stbl.Stts.GetDecodeTime(u)
		if dt != x.DecodeTime[nr] {
			return harness.Failf("C09|SttsBox.GetDecodeTime|decode time differs", "GetDecodeTime(%d) = %d, expansion %d (stts %v)", nr, dt, x.DecodeTime[nr], tb.Stts)
		}
		if dur != x.Dur[nr] {
			return harness.Failf("C09|SttsBox.GetDecodeTime|duration differs", "GetDecodeTime(%d) dur = %d, expansion %d (stts %v)", nr, dur, x.Dur[nr], tb.Stts)
		}
		if got := stbl.Stts.GetDur(u); got != x.Dur[nr] {
			return harness.Failf("C09|SttsBox.GetDur|duration differs", "GetDur(%d) = %d, expansion %d (stts %v)", nr, got, x.Dur[nr], tb.Stts)
		}
		// floor(units*1e9/timescale) without intermediate overflow (units < 2^39 here, so the result fits)
		tsc := uint64(model.Timescale)
		wantTC := time.Duration(x.DecodeTime[nr]/tsc)*time.Second + time.Duration(x.DecodeTime[nr]%tsc*1000000000/tsc)
		if got := stbl.Stts.GetTimeCode(u, model.Timescale); got != wantTC {
			return harness.Failf("C09|SttsBox.GetTimeCode|time differs", "GetTimeCode(%d,%d) = %v, expansion %v (stts %v)", nr, model.Timescale, got, wantTC, tb.Stts)
		}
		if stbl.Ctts != nil {
			*q++
			if got := stbl.Ctts.GetCompositionTimeOffset(u); got != x.Cto[nr] {
				return harness.Failf("C09|CttsBox.GetCompositionTimeOffset|offset differs", "GetCompositionTimeOffset(%d) = %d, expansion %d (ctts v%d %v)", nr, got, x.Cto[nr], tb.CttsVersion, tb.Ctts)
			}
		}
		if got := stbl.Stsz.GetSampleSize(nr); got != x.Size[nr] {
			return harness.Failf("C09|StszBox.GetSampleSize|size differs", "GetSampleSize(%d) = %d, expansion %d", nr, got, x.Size[nr])
		}
		if stbl.Stss != nil {
			*q++
			if got := stbl.Stss.IsSyncSample(u); got != x.Sync[nr] {
				return harness.Failf("C09|StssBox.IsSyncSample|sync status differs", "IsSyncSample(%d) = %v, stss %v", nr, got, tb.Stss)
			}
		}
		if stbl.Sdtp != nil {
			// ISO/IEC 14496-12 8.6.4.2: is_leading, sample_depends_on, sample_is_depended_on, sample_has_redundancy, 2 bits each from the top
			*q += 4
			e, b := stbl.Sdtp.Entries[nr-1], x.Sdtp[nr]
			got := [4]uint8{e.IsLeading(), e.SampleDependsOn(), e.SampleIsDependedOn(), e.SampleHasRedundancy()}
			want := [4]uint8{b >> 6 & 3, b >> 4 & 3, b >> 2 & 3, b & 3}
			if got != want {
				return harness.Failf("C09|SdtpEntry accessors|field differs from the 2-bit field of the entry byte",
					"sample %d: sdtp byte %#02x: IsLeading/SampleDependsOn/SampleIsDependedOn/SampleHasRedundancy = %v, bit fields %v", nr, b, got, want)
			}
		}
		ch, first, err := stbl.Stsc.ChunkNrFromSampleNr(nr)
		if err != nil {
			return harness.Failf("C09|StscBox.ChunkNrFromSampleNr|error for valid sample", "ChunkNrFromSampleNr(%d): %v (stsc %v)", nr, err, tb.Stsc)
		}
		if ch != int(x.Chunk[nr]) {
			return harness.Failf("C09|StscBox.ChunkNrFromSampleNr|chunk differs", "ChunkNrFromSampleNr(%d) = chunk %d, expansion %d (stsc %v)", nr, ch, x.Chunk[nr], tb.Stsc)
		}
		if first != int(x.Chunks[x.Chunk[nr]].FirstSample) {
			return harness.Failf("C09|StscBox.ChunkNrFromSampleNr|first sample in chunk differs", "ChunkNrFromSampleNr(%d) = first %d, expansion %d (stsc %v)", nr, first, x.Chunks[x.Chunk[nr]].FirstSample, tb.Stsc)
		}
		for _, low := range []uint32{0, x.StscEntry[nr] / 2, x.StscEntry[nr]} {
			if got := stbl.Stsc.FindEntryNrForSampleNr(u, low); got != x.StscEntry[nr] {
				return harness.Failf("C09|StscBox.FindEntryNrForSampleNr|entry differs", "FindEntryNrForSampleNr(%d,%d) = %d, expansion %d (stsc %v)", nr, low, got, x.StscEntry[nr], tb.Stsc)
			}
		}
	}
	if stbl.Stss != nil {
		*q++
		if stbl.Stss.IsSyncSample(uint32(n + 1)) {
			return harness.Failf("C09|StssBox.IsSyncSample|sync status differs", "IsSyncSample(%d) = true for N=%d, stss %v", n+1, n, tb.Stss)
		}
	}

	// ---- per chunk
	getOffset := func(chunkNr int) (uint64, error) {
		if stbl.Stco != nil {
			return stbl.Stco.GetOffset(chunkNr)
		}
		return stbl.Co64.GetOffset(chunkNr)
	}
	offName := "StcoBox.GetOffset"
	if stbl.Co64 != nil {
		offName = "Co64Box.GetOffset"
	}
	for _, cn := range visit(nc) {
		*q += 3
		if got := stbl.Stsc.GetSampleDescriptionID(cn); got != x.Chunks[cn].DescIdx {
			return harness.Failf("C09|StscBox.GetSampleDescriptionID|description index differs", "GetSampleDescriptionID(%d) = %d, expansion %d (stsc %v)", cn, got, x.Chunks[cn].DescIdx, tb.Stsc)
		}
		want := mp4.Chunk{ChunkNr: uint32(cn), StartSampleNr: x.Chunks[cn].FirstSample, NrSamples: x.Chunks[cn].NrSamples}
		if got := stbl.Stsc.GetChunk(uint32(cn)); got != want {
			return harness.Failf("C09|StscBox.GetChunk|chunk differs", "GetChunk(%d) = %+v, expansion %+v (stsc %v)", cn, got, want, tb.Stsc)
		}
		off, err := getOffset(cn)
		if err != nil {
			return harness.Failf("C09|"+offName+"|error for valid chunk", "GetOffset(%d): %v (%d chunks)", cn, err, nc)
		}
		if off != x.Chunks[cn].Offset {
			return harness.Failf("C09|"+offName+"|offset differs", "GetOffset(%d) = %d, table %d", cn, off, x.Chunks[cn].Offset)
		}
	}
	if c.Variant == "api" && nc > 0 {
		// SetSingleSampleDescriptionID on a copy: that value for every chunk, the original keeps its own
		single := *stbl.Stsc
		v := x.Chunks[nc].DescIdx%3 + 1 + uint32(n%2)*3
		single.SetSingleSampleDescriptionID(v)
		for cn := 1; cn <= nc; cn++ {
			*q += 2
			if got := single.GetSampleDescriptionID(cn); got != v {
				return harness.Failf("C09|StscBox.SetSingleSampleDescriptionID|description index differs", "after SetSingleSampleDescriptionID(%d): GetSampleDescriptionID(%d) = %d (stsc %v)", v, cn, got, tb.Stsc)
			}
			if got := stbl.Stsc.GetSampleDescriptionID(cn); got != x.Chunks[cn].DescIdx {
				return harness.Failf("C09|StscBox.SetSingleSampleDescriptionID|changed the box it was copied from", "GetSampleDescriptionID(%d) = %d, expansion %d (stsc %v)", cn, got, x.Chunks[cn].DescIdx, tb.Stsc)
			}
		}
	}
	for _, cn := range []int{0, nc + 1, -1} {
		*q++
		if _, err := getOffset(cn); err == nil {
			return harness.Failf("C09|"+offName+"|no error for chunk number out of range", "GetOffset(%d) with %d chunks", cn, nc)
		}
	}

	// ---- times
	checkTime := func(t uint64) *harness.Fail {
		*q++
		want := x.SampleNrAtTime(t)
		got, err := stbl.Stts.GetSampleNrAtTime(t)
		if t == x.TotalDur && x.Dur[n] == 0 && len(tb.Stts) > 0 && tb.Stts[len(tb.Stts)-1].Count == 0 &&
			c.avoid(st, "stts-getsamplenrattime-final-zero-dur-before-zero-count-entry") {
			return nil
		}
		if t > x.DecodeTime[n] && t < x.TotalDur {
			// strictly inside the last sample: "the sample number at or as soon as possible after time" is the
			// position after the last sample, N+1, without error (the library's own stts_test.go pins this and
			// mp4ff-crop uses it as an exclusive end); the error is documented for times that cannot be reached,
			// i.e. t >= end of track.
			if err != nil || got != uint32(n)+1 {
				return harness.Failf("C09|SttsBox.GetSampleNrAtTime|inside last sample: want N+1 without error", "GetSampleNrAtTime(%d) = %d, %v; N=%d (stts %v)", t, got, err, n, tb.Stts)
			}
			return nil
		}
		switch {
		case want == 0 && err == nil:
			return harness.Failf("C09|SttsBox.GetSampleNrAtTime|no error past the last sample start", "GetSampleNrAtTime(%d) = %d, no sample starts at or after it (stts %v)", t, got, tb.Stts)
		case want != 0 && err != nil:
			return harness.Failf("C09|SttsBox.GetSampleNrAtTime|error for reachable time", "GetSampleNrAtTime(%d): %v, expansion %d (stts %v)", t, err, want, tb.Stts)
		case want != 0 && got != want:
			return harness.Failf("C09|SttsBox.GetSampleNrAtTime|sample number differs", "GetSampleNrAtTime(%d) = %d, first sample starting at or after it is %d (stts %v)", t, got, want, tb.Stts)
		}
		return nil
	}
	for nr := 1; nr <= n; nr++ {
		t := x.DecodeTime[nr]
		if t > 0 {
			if fail := checkTime(t - 1); fail != nil {
				return fail
			}
		}
		if fail := checkTime(t); fail != nil {
			return fail
		}
		if fail := checkTime(t + 1); fail != nil {
			return fail
		}
	}
	for _, t := range []uint64{x.TotalDur, x.TotalDur + 1, x.TotalDur + 1000, 1 << 40} {
		if fail := checkTime(t); fail != nil {
			return fail
		}
	}

	// ---- intervals
	var ws []byte
	if c.WorkSpace > 0 {
		ws = make([]byte, c.WorkSpace)
	}
	rs := bytes.NewReader(file)
	var out bytes.Buffer
	checkInterval := func(a, b uint32) *harness.Fail {
		*q += 6
		// total size
		wantSize := x.TotalSize(a, b)
		gotSize, err := stbl.Stsz.GetTotalSampleSize(a, b)
		if err != nil {
			return harness.Failf("C09|StszBox.GetTotalSampleSize|error for valid interval", "GetTotalSampleSize(%d,%d): %v (N=%d)", a, b, err, n)
		}
		if gotSize != wantSize {
			return harness.Failf("C09|StszBox.GetTotalSampleSize|total size differs", "GetTotalSampleSize(%d,%d) = %d, expansion %d (N=%d)", a, b, gotSize, wantSize, n)
		}
		// containing chunks
		var wantChunks []mp4.Chunk
		for cn := x.Chunk[a]; cn <= x.Chunk[b]; cn++ {
			wantChunks = append(wantChunks, mp4.Chunk{ChunkNr: cn, StartSampleNr: x.Chunks[cn].FirstSample, NrSamples: x.Chunks[cn].NrSamples})
		}
		gotChunks, err := stbl.Stsc.GetContainingChunks(a, b)
		if err != nil {
			return harness.Failf("C09|StscBox.GetContainingChunks|error for valid interval", "GetContainingChunks(%d,%d): %v (stsc %v)", a, b, err, tb.Stsc)
		}
		if !chunksEqual(gotChunks, wantChunks) {
			return harness.Failf("C09|StscBox.GetContainingChunks|chunk list differs", "GetContainingChunks(%d,%d) = %v, expansion %v (stsc %v)", a, b, gotChunks, wantChunks, tb.Stsc)
		}
		// byte ranges (compared as normalised lists: adjacent ranges merged)
		wantRanges := x.Ranges(a, b)
		gotRanges, err := trak.GetRangesForSampleInterval(a, b)
		if err != nil {
			return harness.Failf("C09|TrakBox.GetRangesForSampleInterval|error for valid interval", "GetRangesForSampleInterval(%d,%d): %v (N=%d)", a, b, err, n)
		}
		var norm []tablemodel.ByteRange
		for _, r := range gotRanges {
			norm = tablemodel.AppendRange(norm, tablemodel.ByteRange{Offset: r.Offset, Size: r.Size})
		}
		if !rangesEqual(norm, wantRanges) {
			return harness.Failf("C09|TrakBox.GetRangesForSampleInterval|byte ranges differ", "GetRangesForSampleInterval(%d,%d) = %v (normalised %v), expansion %v (stsc %v, chunk offsets %v)", a, b, gotRanges, norm, wantRanges, tb.Stsc, tb.ChunkOffsets)
		}
		// sample metadata
		if a == 1 || !c.avoid(st, "trak-getsampledata-a-gt-1") {
			samples, err := trak.GetSampleData(a, b)
			if err != nil {
				return harness.Failf("C09|TrakBox.GetSampleData|error for valid interval", "GetSampleData(%d,%d): %v (N=%d)", a, b, err, n)
			}
			if len(samples) != int(b-a+1) {
				return harness.Failf("C09|TrakBox.GetSampleData|number of samples differs", "GetSampleData(%d,%d) returned %d samples", a, b, len(samples))
			}
			for nr := a; nr <= b; nr++ {
				want := mp4.Sample{Flags: expFlags(tb.HasStss, x.Sync[nr], tb.HasSdtp, x.Sdtp[nr]), Dur: x.Dur[nr], Size: x.Size[nr], CompositionTimeOffset: x.Cto[nr]}
				if got := samples[nr-a]; got != want {
					key := "C09|TrakBox.GetSampleData|sample metadata differs"
					if got.Dur == want.Dur && got.Size == want.Size && got.CompositionTimeOffset == want.CompositionTimeOffset {
						key = "C09|TrakBox.GetSampleData|sample flags differ"
					}
					return harness.Failf(key, "GetSampleData(%d,%d)[%d] = %+v (flags %#x), expansion of sample %d gives %+v (flags %#x; stss present %v sync %v, sdtp present %v byte %#x)",
						a, b, nr-a, got, got.Flags, nr, want, want.Flags, tb.HasStss, x.Sync[nr], tb.HasSdtp, x.Sdtp[nr])
				}
			}
		}
		if c.OffsetShift != 0 || c.SizeScale > 1 {
			*q -= 2
			return nil // the shifted / scaled offsets point outside the file: no data copies
		}
		// sample data: in-memory mdat, lazy mdat without and with work space
		wantBytes := all[pos[a-1]:pos[b]]
		out.Reset()
		if truth.MdatPayloadSize == 0 && f.Mdat.PayloadAbsoluteOffset() != truth.MdatPayloadStart && c.avoid(st, "copysampledata-all-mdat-empty-wrong-box") {
			*q--
		} else {
			if err := f.CopySampleData(&out, nil, trak, a, b, nil); err != nil {
				return harness.Failf("C09|File.CopySampleData|error for valid interval", "CopySampleData(%d,%d): %v (N=%d)", a, b, err, n)
			}
			if !bytes.Equal(out.Bytes(), wantBytes) {
				return harness.Failf("C09|File.CopySampleData|copied bytes differ", "CopySampleData(%d,%d) wrote %s, the samples are %s", a, b, harness.HexTrunc(out.Bytes(), 48), harness.HexTrunc(wantBytes, 48))
			}
		}
		out.Reset()
		var wsArg []byte
		if (a+b)%2 == 1 {
			wsArg = ws
		}
		// (an empty mdat box is never "lazy": the lazily decoded file takes the in-memory path as well)
		if truth.MdatPayloadSize == 0 && fl.Mdat.PayloadAbsoluteOffset() != truth.MdatPayloadStart && c.avoid(st, "copysampledata-all-mdat-empty-wrong-box") {
			*q--
			return nil
		}
		if err := fl.CopySampleData(&out, rs, trakL, a, b, wsArg); err != nil {
			return harness.Failf("C09|File.CopySampleData|error for valid interval (lazy mdat)", "CopySampleData(%d,%d) work space %d: %v (N=%d)", a, b, len(wsArg), err, n)
		}
		if !bytes.Equal(out.Bytes(), wantBytes) {
			return harness.Failf("C09|File.CopySampleData|copied bytes differ (lazy mdat)", "CopySampleData(%d,%d) work space %d wrote %s, the samples are %s", a, b, len(wsArg), harness.HexTrunc(out.Bytes(), 48), harness.HexTrunc(wantBytes, 48))
		}
		return nil
	}
	if n <= allIntervalsMax {
		for a := uint32(1); a <= uint32(n); a++ {
			for b := a; b <= uint32(n); b++ {
				if fail := checkInterval(a, b); fail != nil {
					return fail
				}
			}
		}
	} else {
		for _, iv := range c.Intervals {
			if iv[0] < 1 || iv[0] > iv[1] || iv[1] > uint32(n) {
				return harness.Failf("harness|c09|bad-case", "interval %v with N=%d", iv, n)
			}
			if fail := checkInterval(iv[0], iv[1]); fail != nil {
				return fail
			}
		}
	}

	// ---- arguments outside 1..N must give an error where the signature has one
	u := uint32(n)
	type errq struct {
		name string
		a, b uint32
		call func(a, b uint32) error
	}
	sink := &bytes.Buffer{}
	errqs := []errq{
		{"StszBox.GetTotalSampleSize", 0, u, func(a, b uint32) error { _, err := stbl.Stsz.GetTotalSampleSize(a, b); return err }},
		{"StszBox.GetTotalSampleSize", 1, u + 1, func(a, b uint32) error { _, err := stbl.Stsz.GetTotalSampleSize(a, b); return err }},
		{"StscBox.GetContainingChunks", 0, u, func(a, b uint32) error { _, err := stbl.Stsc.GetContainingChunks(a, b); return err }},
		{"TrakBox.GetSampleData", 0, u, func(a, b uint32) error { _, err := trak.GetSampleData(a, b); return err }},
		{"TrakBox.GetSampleData", 1, u + 1, func(a, b uint32) error { _, err := trak.GetSampleData(a, b); return err }},
		{"TrakBox.GetRangesForSampleInterval", 0, u, func(a, b uint32) error { _, err := trak.GetRangesForSampleInterval(a, b); return err }},
		{"TrakBox.GetRangesForSampleInterval", 1, u + 1, func(a, b uint32) error { _, err := trak.GetRangesForSampleInterval(a, b); return err }},
	}
	wrongMdat := truth.MdatPayloadSize == 0 && f.Mdat.PayloadAbsoluteOffset() != truth.MdatPayloadStart && c.avoid(st, "copysampledata-all-mdat-empty-wrong-box")
	if c.OffsetShift == 0 && c.SizeScale <= 1 && !wrongMdat {
		errqs = append(errqs,
			errq{"File.CopySampleData", 0, u, func(a, b uint32) error { return f.CopySampleData(sink, nil, trak, a, b, nil) }},
			errq{"File.CopySampleData", 1, u + 1, func(a, b uint32) error { return f.CopySampleData(sink, nil, trak, a, b, nil) }},
		)
	}
	if n >= 2 {
		errqs = append(errqs,
			errq{"StscBox.GetContainingChunks", u, u - 1, func(a, b uint32) error { _, err := stbl.Stsc.GetContainingChunks(a, b); return err }},
			errq{"TrakBox.GetRangesForSampleInterval", u, u - 1, func(a, b uint32) error { _, err := trak.GetRangesForSampleInterval(a, b); return err }},
		)
	}
	for _, e := range errqs {
		*q++
		if err := e.call(e.a, e.b); err == nil {
			return harness.Failf("C09|"+e.name+"|no error for interval outside the samples", "%s(%d,%d) with N=%d returned no error", e.name, e.a, e.b, n)
		}
	}
	return nil
}

func chunksEqual(a, b []mp4.Chunk) bool {
	if len(a) != len(b) {
		return false
	}
	for i := range a {
		if a[i] != b[i] {
			return false
		}
	}
	return true
}

func rangesEqual(a, b []tablemodel.ByteRange) bool {
	if len(a) != len(b) {
		return false
	}
	for i := range a {
		if a[i] != b[i] {
			return false
		}
	}
	return true
}

// ---------------------------------------------------------------------------------------------
// generator, evidence

func genCase(t *rapid.T, variant string) tablesCase {
	maxN := harness.Pick(40, 120)
	if rapid.IntRange(0, 9).Draw(t, "bigN") == 0 {
		maxN = harness.Pick(60, 120) // some cases above the all-intervals bound in the quick tier as well
	}
	tracks := mp4build.GenTracks(t, mp4build.GenOpt{MaxSamples: maxN, AllowFinalZeroDur: true, ExtremeCto: true, ExtremeDur: true,
		AllowZeroSize: rapid.IntRange(0, 2).Draw(t, "allowZeroSize") == 0,
		StsdEntries:   rapid.SampledFrom([]int{1, 1, 2, 3}).Draw(t, "stsdEntries")})
	c := tablesCase{Tracks: tracks, Variant: variant}
	c.Layout = mp4build.GenProgLayout(t, tracks)
	mp4build.GenEmptyChunkAt(t, &c.Layout)
	c.TrackIndex = rapid.IntRange(0, len(tracks)-1).Draw(t, "trackIndex")
	// zero-count stts/ctts entries on the evaluated track, one case in five
	if rapid.IntRange(0, 4).Draw(t, "zeroRuns") == 0 {
		mp4build.GenZeroRuns(t, tracks[c.TrackIndex], &c.Layout.Tracks[c.TrackIndex])
	}
	// co64 offsets beyond 32 bits (only the rebuilt tables can have them: the file is small)
	if variant == "api" && c.Layout.Tracks[c.TrackIndex].Co64 && rapid.IntRange(0, 2).Draw(t, "offsetShift") == 0 {
		c.OffsetShift = 1 << 33
	}
	// sample sizes near 2^31 and sums far beyond 2^32, same restriction
	if variant == "api" && c.Layout.Tracks[c.TrackIndex].Co64 && rapid.IntRange(0, 2).Draw(t, "sizeScale") == 0 {
		c.SizeScale = rapid.SampledFrom([]uint64{1 << 20, 1 << 24, 1 << 25, 3<<23 + 1}).Draw(t, "sizeScaleValue")
	}
	n := len(tracks[c.TrackIndex].Samples)
	if n > allIntervalsMax {
		c.Intervals = [][2]uint32{{1, uint32(n)}, {1, 1}, {uint32(n), uint32(n)}}
		for i := 0; i < 150; i++ {
			a := rapid.IntRange(1, n).Draw(t, "a")
			b := rapid.IntRange(a, n).Draw(t, "b")
			c.Intervals = append(c.Intervals, [2]uint32{uint32(a), uint32(b)})
		}
	}
	c.WorkSpace = rapid.SampledFrom([]int{1, 2, 7, 16, 64, 1000}).Draw(t, "workSpace")
	return c
}

func classify(c *tablesCase) (nontrivial bool, classes []string) {
	tr := c.Tracks[c.TrackIndex]
	tl := c.Layout.Tracks[c.TrackIndex]
	n := len(tr.Samples)
	sttsRuns := 0
	for i, s := range tr.Samples {
		if i == 0 || tl.NoMerge || s.Dur != tr.Samples[i-1].Dur {
			sttsRuns++
		}
	}
	stscRuns := len(mp4build.StscRuns(tl.ChunkSizes, tl.DescIDs, tl.NoMerge))
	bigChunk := false
	for _, cs := range tl.ChunkSizes {
		if cs >= 2 {
			bigChunk = true
		}
	}
	nontrivial = (stscRuns >= 2 || bigChunk) && sttsRuns >= 2
	add := func(cond bool, yes, no string) {
		if cond && yes != "" {
			classes = append(classes, yes)
		}
		if !cond && no != "" {
			classes = append(classes, no)
		}
	}
	classes = append(classes, "variant-"+c.Variant, fmt.Sprintf("tracks-%d", len(c.Tracks)))
	switch tl.CttsVersion {
	case -1:
		classes = append(classes, "ctts-absent")
	case 0:
		classes = append(classes, "ctts-v0")
	default:
		classes = append(classes, "ctts-v1")
	}
	neg := false
	for _, s := range tr.Samples {
		neg = neg || s.Cto < 0
	}
	add(neg, "ctts-negative-offsets", "")
	add(tl.Co64, "co64", "stco")
	add(tl.Stss, "stss-present", "stss-absent")
	add(tl.Sdtp, "sdtp-present", "sdtp-absent")
	add(mp4build.IsUniform(tr, tl), "uniform-stsz", "explicit-stsz")
	multi := false
	for _, d := range tl.DescIDs {
		multi = multi || d != tl.DescIDs[0]
	}
	add(multi, "multi-desc-ids", "")
	nch := len(tl.ChunkSizes)
	add(nch >= 2 && tl.ChunkSizes[nch-1] < tl.ChunkSizes[nch-2], "last-chunk-partial", "")
	add(nch == 1, "one-chunk", "")
	add(nch == n && n > 1, "one-sample-per-chunk", "")
	add(stscRuns >= 2, "stsc-entries>=2", "stsc-entries-1")
	add(stscRuns >= 4, "stsc-entries>=4", "")
	add(sttsRuns >= 2, "stts-runs>=2", "stts-runs-1")
	add(tl.NoMerge, "runs-not-merged", "")
	add(n <= allIntervalsMax, "N<=40-all-intervals", "N>40-drawn-intervals")
	add(n == 1, "N=1", "")
	add(tr.Samples[n-1].Dur == 0, "final-zero-duration", "")
	add(len(tl.SttsZero) > 0, "stts-zero-count-entry", "")
	add(len(tl.CttsZero) > 0 && tl.CttsVersion >= 0, "ctts-zero-count-entry", "")
	for _, z := range tl.SttsZero {
		add(z.At >= sttsRuns, "stts-zero-count-entry-last", "")
		add(z.At == 0, "stts-zero-count-entry-first", "")
	}
	empty, emptyChunk := 0, false
	si := 0
	for _, cs := range tl.ChunkSizes {
		bytesInChunk := 0
		for k := 0; k < cs; k++ {
			if len(tr.Samples[si].Data) == 0 {
				empty++
			}
			bytesInChunk += len(tr.Samples[si].Data)
			si++
		}
		emptyChunk = emptyChunk || bytesInChunk == 0
	}
	add(empty > 0, "zero-size-sample", "")
	add(empty == n, "zero-size-all-samples", "")
	add(emptyChunk, "zero-size-chunk", "")
	add(len(tr.Samples[n-1].Data) == 0, "zero-size-last-sample", "")
	add(c.OffsetShift != 0, "co64-offsets-beyond-32-bits", "")
	add(c.SizeScale > 1, "sample-sizes-scaled-sums-beyond-32-bits", "")
	add(c.Layout.MdatFirst, "mdat-first", "moov-first")
	add(c.Layout.MdatLarge, "mdat-largesize", "")
	add(c.Layout.GapBytes != nil, "gaps-between-chunks", "")
	interleaved := false
	for i := 1; i < len(c.Layout.ChunkOrder); i++ {
		if c.Layout.ChunkOrder[i][0] < c.Layout.ChunkOrder[i-1][0] {
			interleaved = true
		}
	}
	add(interleaved, "chunks-interleaved-across-tracks", "")
	add(tr.Handler == "vide", "video-track", "audio-track")
	return nontrivial, classes
}

func runTables(t *testing.T, variant string) {
	harness.RunRapid(t, "tables-"+variant, func(rt *rapid.T) {
		c := genCase(rt, variant)
		raw, _ := json.Marshal(c)
		nt, classes := classify(&c)
		harness.Rec.Case(nt, raw, classes...)
		if harness.Rec.WantSample() && nt {
			harness.Rec.Sample(map[string]interface{}{"kind": "tables", "case": c})
		}
		var st stats
		f := harness.Guarded(func() *harness.Fail { return evalTables(&c, &st) })
		harness.Rec.ClassN("queries", st.queries)
		names := make([]string, 0, len(st.skipped))
		for name := range st.skipped {
			names = append(names, name)
		}
		sort.Strings(names)
		for _, name := range names {
			harness.Rec.Exclude(name)
			harness.Rec.ClassN("skipped-arguments:"+name, st.skipped[name])
		}
		harness.Report(rt, "tables", c, f)
	})
}

// TestTables: tables as decoded by the library from the harness-written file.
func TestTables(t *testing.T) { runTables(t, "decode") }

// TestTablesAPI: the same queries on table boxes built through the library's construction API
// (struct fields, CttsBox.AddSampleCountsAndOffset, StscBox.AddEntry, CreateSdtpBox/NewSdtpEntry), plus
// StscBox.SetSingleSampleDescriptionID on a copy and, on co64 tracks, chunk offsets shifted by 2^33.
func TestTablesAPI(t *testing.T) { runTables(t, "api") }

// ---------------------------------------------------------------------------------------------
// reproducers of the known findings (regenerate with VERIF_C09_WRITE_KF=1 go test ./props/c09 -run TestWriteKnownFindingRepros)

func minimalCase(variant string, samples []mp4build.Sample, tl mp4build.TrackLayout) tablesCase {
	v, _, err := mp4build.DefaultStsd()
	if err != nil {
		panic(err)
	}
	tr := mp4build.Track{ID: 1, Timescale: 1000, Handler: "vide", StsdRaw: v, Width: 16, Height: 16, Samples: samples}
	lay := mp4build.ProgLayout{Tracks: []mp4build.TrackLayout{tl}, MovieTimescale: 1000}
	lay.ChunkOrder = mp4build.SequentialChunkOrder(lay.Tracks)
	return tablesCase{Tracks: []mp4build.Track{tr}, Layout: lay, Variant: variant, WorkSpace: 16, NoAvoid: true}
}

func knownFindingCases() map[string]tablesCase {
	return map[string]tablesCase{
		"trak-getsampledata-a-gt-1": minimalCase("decode",
			[]mp4build.Sample{{Data: []byte{0xa1}, Dur: 1, Sync: true}, {Data: []byte{0xa2}, Dur: 1, Sync: true}},
			mp4build.TrackLayout{ChunkSizes: []int{2}, CttsVersion: -1}),
		"sdtp-newsdtpentry-dependson": minimalCase("api",
			[]mp4build.Sample{{Data: []byte{0xa1}, Dur: 1, Sync: true, Sdtp: 0x20}},
			mp4build.TrackLayout{ChunkSizes: []int{1}, CttsVersion: -1, Sdtp: true}),
		"stts-getsamplenrattime-inside-last-sample": minimalCase("decode",
			[]mp4build.Sample{{Data: []byte{0xa1}, Dur: 2, Sync: true}},
			mp4build.TrackLayout{ChunkSizes: []int{1}, CttsVersion: -1}),
	}
}

// pendingFindingCases: minimal reproducers of the findings that wait for triage
// (VERIF_C09_WRITE_PENDING=1 go test -tags verif ./props/c09 -run TestWritePendingFindingRepros writes
// them to /verif/replay/C09/pending/new-<name>.json, a directory the driver does not replay).
func pendingFindingCases() map[string]tablesCase {
	empty := minimalCase("decode",
		[]mp4build.Sample{{Data: []byte{}, Dur: 1, Sync: true}},
		mp4build.TrackLayout{ChunkSizes: []int{1}, CttsVersion: -1})
	empty.Layout.Trail = []string{"mdat0"}
	return map[string]tablesCase{
		// stts [(2,10),(1,0),(0,5)]: GetSampleNrAtTime(20) must give sample 3
		"stts-getsamplenrattime-final-zero-dur-before-zero-count-entry": minimalCase("decode",
			[]mp4build.Sample{{Data: []byte{0xa1}, Dur: 10, Sync: true}, {Data: []byte{0xa2}, Dur: 10, Sync: true}, {Data: []byte{0xa3}, Dur: 0, Sync: true}},
			mp4build.TrackLayout{ChunkSizes: []int{3}, CttsVersion: -1, SttsZero: []mp4build.ZeroRun{{At: 2, Value: 5}}}),
		// ftyp moov mdat(empty) mdat(empty), one sample of size 0 whose chunk offset points into the first mdat
		"copysampledata-all-mdat-empty-wrong-box": empty,
	}
}

func TestWritePendingFindingRepros(t *testing.T) {
	if os.Getenv("VERIF_C09_WRITE_PENDING") == "" {
		t.Skip("VERIF_C09_WRITE_PENDING not set")
	}
	writeRepros(t, harness.E.VerifDir+"/replay/C09/pending", "new-", pendingFindingCases())
}

func TestWriteKnownFindingRepros(t *testing.T) {
	if os.Getenv("VERIF_C09_WRITE_KF") == "" {
		t.Skip("VERIF_C09_WRITE_KF not set")
	}
	writeRepros(t, harness.E.VerifDir+"/replay/C09", "kf-", knownFindingCases())
}

func writeRepros(t *testing.T, dir, prefix string, cases map[string]tablesCase) {
	if err := os.MkdirAll(dir, 0o755); err != nil {
		t.Fatal(err)
	}
	for name, c := range cases {
		c := c
		f := harness.Guarded(func() *harness.Fail { return checkTables(c) })
		if f == nil {
			t.Errorf("%s: the case does not fail (defect repaired?)", name)
			continue
		}
		raw, _ := json.Marshal(c)
		msg := f.Msg
		if i := strings.Index(msg, "\n"); i > 0 {
			msg = msg[:i]
		}
		b, _ := json.MarshalIndent(harness.ReplayFile{Property: "C09", Kind: "tables", Key: f.Key, Msg: msg, Case: raw}, "", " ")
		if err := os.WriteFile(dir+"/"+prefix+name+".json", append(b, '\n'), 0o644); err != nil {
			t.Fatal(err)
		}
		t.Logf("%s: %s", name, f.Key)
	}
}
