package c16

// Native coverage-guided fuzzing of the same oracle (thorough tier only, leg "fuzz"): the fuzzing engine of the Go
// toolchain mutates (target index, small parameter, bytes) under coverage feedback from the library; every input goes
// through checkES, i.e. the panic, watchdog, allocation and time rules of the rapid legs. The corpus starts from the
// stored replay files of the property and from real NAL units, configuration records and headers of the repository's
// test data. A failing input is written as an ordinary replay file (kind "es"), which the driver replays afterwards.

import (
	"encoding/json"
	"os"
	"path/filepath"
	"testing"

	"verif/internal/harness"
)

func FuzzES(f *testing.F) {
	harness.LimitFuzzWorker(4 << 30)
	loadSeeds()
	idx := map[string]int{}
	for i, n := range targetNames {
		idx[n] = i
	}
	// stored replay files (reproducers of repaired defects and hostile constants)
	files, _ := filepath.Glob(filepath.Join(harness.E.VerifDir, "replay", "C16", "*.json"))
	for _, p := range files {
		b, err := os.ReadFile(p)
		if err != nil {
			continue
		}
		var rf harness.ReplayFile
		var c esCase
		if json.Unmarshal(b, &rf) != nil || json.Unmarshal(rf.Case, &c) != nil {
			continue
		}
		if i, ok := idx[c.Target]; ok && len(c.Data) <= 1<<16 {
			f.Add(uint16(i), uint16(c.P&0xffff), []byte(c.Data))
		}
	}
	// real inputs, each offered to the targets that parse that kind of input
	offer := func(data [][]byte, names ...string) {
		for k, d := range data {
			if k >= 6 || len(d) > 4096 {
				continue
			}
			for _, n := range names {
				if i, ok := idx[n]; ok {
					f.Add(uint16(i), uint16(0), d)
				}
			}
		}
	}
	offer(seeds.avcSPS, "avc.ParseSPSNALUnit")
	offer(seeds.avcPPS, "avc.ParsePPSNALUnit")
	offer(seeds.avcSlice, "avc.ParseSliceHeader")
	offer(seeds.avcSEI, "avc.ParseSEINalu", "sei.ExtractSEIData")
	offer(seeds.hevcSPS, "hevc.ParseSPSNALUnit")
	offer(seeds.hevcPPS, "hevc.ParsePPSNALUnit")
	offer(seeds.hevcSlice, "hevc.ParseSliceHeader")
	offer(seeds.hevcSEI, "hevc.ParseSEINalu", "sei.ExtractSEIData")
	offer(seeds.avcC, "avc.DecodeAVCDecConfRec")
	offer(seeds.hvcC, "hevc.DecodeHEVCDecConfRec")
	offer(seeds.asc, "aac.DecodeAudioSpecificConfig")
	offer(seeds.adts, "aac.DecodeADTSHeader")
	f.Fuzz(func(t *testing.T, ti uint16, p uint16, data []byte) {
		if len(data) > 1<<16 {
			return
		}
		c := esCase{Target: targetNames[int(ti)%len(targetNames)], Data: data, P: int(p), Origin: "fuzz"}
		raw, _ := json.Marshal(c)
		harness.SetCurrentCase("es", raw)
		if name := guardedShape(&c); name != "" && avoidKnown[name] {
			return
		}
		harness.FuzzReport(t, "es", c, checkES(c))
	})
}
