// C16 — untrusted elementary-stream bytes never crash or hang the codec helpers.
// Every case runs in an isolated worker process (ulimit -v, current-case file, watchdog); see DESIGN 2.5.
package c16

import (
	"bytes"
	"encoding/binary"
	"encoding/json"
	"fmt"
	"os"
	"path/filepath"
	"sort"
	"strings"
	"sync"
	"testing"
	"time"

	"github.com/Eyevinn/mp4ff/aac"
	"github.com/Eyevinn/mp4ff/av1"
	"github.com/Eyevinn/mp4ff/avc"
	mp4bits "github.com/Eyevinn/mp4ff/bits"
	"github.com/Eyevinn/mp4ff/hevc"
	"github.com/Eyevinn/mp4ff/sei"
	"pgregory.net/rapid"

	"verif/internal/boxwalk"
	"verif/internal/esgen"
	"verif/internal/harness"
)

func TestMain(m *testing.M) { harness.Main(m) }

func init() { harness.RegisterReplay("es", harness.Replayer(checkES)) }

func TestReplay(t *testing.T) { harness.ReplayPath(t) }

type esCase struct {
	Target string           `json:"target"`
	Data   harness.HexBytes `json:"data"`
	P      int              `json:"p"` // small parameter (NAL type, flags, lengths) interpreted by the target
	Origin string           `json:"origin,omitempty"`
	pure   bool             // grammar origin without hostile hook and without byte mutation (evidence only)
	tags   []string         // evidence class labels set by the generator (not part of the case)
}

// ---------------------------------------------------------------------------------------------
// targets. Each returns true when the library returned a value (not an error). (Four more targets, which parse
// parameter sets and slice headers with maps built from the same input, are added by grammar_test.go.)

var (
	avcSPSMap  map[uint32]*avc.SPS
	avcPPSMap  map[uint32]*avc.PPS
	hevcSPSMap map[uint32]*hevc.SPS
	hevcPPSMap map[uint32]*hevc.PPS
	avcSPSHrd  *avc.SPS
	hevcSPSVui *hevc.SPS
)

func useMsgs(msgs []sei.SEIMessage) {
	for _, m := range msgs {
		if m == nil {
			continue
		}
		_ = m.String()
		_ = m.Payload()
		_ = m.Size()
		_ = m.Type()
	}
}

var targets = map[string]func(d []byte, p int) bool{
	"avc.GetNalusFromSample":              func(d []byte, p int) bool { _, err := avc.GetNalusFromSample(d); return err == nil },
	"avc.FindNaluTypes":                   func(d []byte, p int) bool { return avc.FindNaluTypes(d) != nil },
	"avc.FindNaluTypesUpToFirstVideoNALU": func(d []byte, p int) bool { return avc.FindNaluTypesUpToFirstVideoNALU(d) != nil },
	"avc.ContainsNaluType":                func(d []byte, p int) bool { return avc.ContainsNaluType(d, avc.NaluType(p&31)) },
	"avc.IsIDRSample":                     func(d []byte, p int) bool { return avc.IsIDRSample(d) },
	"avc.HasParameterSets":                func(d []byte, p int) bool { return avc.HasParameterSets(d) },
	"avc.GetParameterSets":                func(d []byte, p int) bool { s, q := avc.GetParameterSets(d); return len(s)+len(q) > 0 },
	"avc.ExtractNalusFromByteStream":      func(d []byte, p int) bool { return avc.ExtractNalusFromByteStream(d) != nil },
	"avc.ConvertByteStreamToNaluSample":   func(d []byte, p int) bool { return len(avc.ConvertByteStreamToNaluSample(append([]byte{}, d...))) > 0 },
	"avc.ConvertSampleToByteStream":       func(d []byte, p int) bool { return len(avc.ConvertSampleToByteStream(append([]byte{}, d...))) > 0 },
	"avc.GetParameterSetsFromByteStream":  func(d []byte, p int) bool { s, q := avc.GetParameterSetsFromByteStream(d); return len(s)+len(q) > 0 },
	"avc.ExtractNalusOfTypeFromByteStream": func(d []byte, p int) bool {
		return avc.ExtractNalusOfTypeFromByteStream(avc.NaluType(p&31), d, p&32 != 0) != nil
	},
	"avc.GetFirstAVCVideoNALUFromByteStream": func(d []byte, p int) bool { return avc.GetFirstAVCVideoNALUFromByteStream(d) != nil },
	"avc.ParseSPSNALUnit": func(d []byte, p int) bool {
		s, err := avc.ParseSPSNALUnit(d, p&1 == 1)
		if err == nil && s != nil {
			_ = avc.CodecString("avc1", s)
			_, _, _, _ = s.CpbDpbDelaysPresent(), s.PicStructPresent(), s.ChromaArrayType(), s.ConstraintFlags()
		}
		return err == nil
	},
	"avc.ParsePPSNALUnit": func(d []byte, p int) bool {
		m := avcSPSMap
		if p&1 == 1 {
			m = map[uint32]*avc.SPS{}
		}
		_, err := avc.ParsePPSNALUnit(d, m)
		return err == nil
	},
	"avc.ParseSliceHeader": func(d []byte, p int) bool {
		sm, pm := avcSPSMap, avcPPSMap
		if p&1 == 1 {
			sm = map[uint32]*avc.SPS{}
		}
		if p&2 == 2 {
			pm = map[uint32]*avc.PPS{}
		}
		_, err := avc.ParseSliceHeader(d, sm, pm)
		return err == nil
	},
	"avc.GetSliceTypeFromNALU": func(d []byte, p int) bool { _, err := avc.GetSliceTypeFromNALU(d); return err == nil },
	"avc.ParseSEINalu": func(d []byte, p int) bool {
		var s *avc.SPS
		if p&1 == 1 {
			s = avcSPSHrd
		}
		msgs, err := avc.ParseSEINalu(d, s)
		useMsgs(msgs)
		return err == nil
	},
	"avc.DecodeAVCDecConfRec": func(d []byte, p int) bool {
		r, err := avc.DecodeAVCDecConfRec(d)
		if err == nil {
			_ = r.Size()
			var b bytes.Buffer
			_ = r.Encode(&b)
		}
		return err == nil
	},
	"avc.CreateAVCDecConfRec": func(d []byte, p int) bool {
		_, err := avc.CreateAVCDecConfRec([][]byte{d}, [][]byte{d}, p&1 == 1)
		return err == nil
	},
	"hevc.FindNaluTypes":                   func(d []byte, p int) bool { return len(hevc.FindNaluTypes(d)) > 0 },
	"hevc.FindNaluTypesUpToFirstVideoNalu": func(d []byte, p int) bool { return len(hevc.FindNaluTypesUpToFirstVideoNalu(d)) > 0 },
	"hevc.ContainsNaluType":                func(d []byte, p int) bool { return hevc.ContainsNaluType(d, hevc.NaluType(p&63)) },
	"hevc.IsRAPSample":                     func(d []byte, p int) bool { return hevc.IsRAPSample(d) },
	"hevc.IsIDRSample":                     func(d []byte, p int) bool { return hevc.IsIDRSample(d) },
	"hevc.HasParameterSets":                func(d []byte, p int) bool { return hevc.HasParameterSets(d) },
	"hevc.GetParameterSets":                func(d []byte, p int) bool { a, b, c := hevc.GetParameterSets(d); return len(a)+len(b)+len(c) > 0 },
	"hevc.GetParameterSetsFromByteStream": func(d []byte, p int) bool {
		a, b, c := hevc.GetParameterSetsFromByteStream(d)
		return len(a)+len(b)+len(c) > 0
	},
	"hevc.ExtractNalusOfTypeFromByteStream": func(d []byte, p int) bool {
		return hevc.ExtractNalusOfTypeFromByteStream(hevc.NaluType(p&63), d, p&64 != 0) != nil
	},
	"hevc.ParseSPSNALUnit": func(d []byte, p int) bool {
		s, err := hevc.ParseSPSNALUnit(d)
		if err == nil && s != nil {
			_ = hevc.CodecString("hvc1", s)
			_, _ = s.ImageSize()
		}
		return err == nil
	},
	"hevc.ParsePPSNALUnit": func(d []byte, p int) bool {
		m := hevcSPSMap
		if p&1 == 1 {
			m = map[uint32]*hevc.SPS{}
		}
		_, err := hevc.ParsePPSNALUnit(d, m)
		return err == nil
	},
	"hevc.ParseSliceHeader": func(d []byte, p int) bool {
		sm, pm := hevcSPSMap, hevcPPSMap
		if p&1 == 1 {
			sm = map[uint32]*hevc.SPS{}
		}
		if p&2 == 2 {
			pm = map[uint32]*hevc.PPS{}
		}
		_, err := hevc.ParseSliceHeader(d, sm, pm)
		return err == nil
	},
	"hevc.ParseSEINalu": func(d []byte, p int) bool {
		var s *hevc.SPS
		if p&1 == 1 {
			s = hevcSPSVui
		}
		msgs, err := hevc.ParseSEINalu(d, s)
		useMsgs(msgs)
		return err == nil
	},
	"hevc.DecodeHEVCDecConfRec": func(d []byte, p int) bool {
		r, err := hevc.DecodeHEVCDecConfRec(d)
		if err == nil {
			_ = r.Size()
			var b bytes.Buffer
			_ = r.Encode(&b)
			_ = r.GetNalusForType(hevc.NALU_SPS)
		}
		return err == nil
	},
	"hevc.CreateHEVCDecConfRec": func(d []byte, p int) bool {
		_, err := hevc.CreateHEVCDecConfRec([][]byte{d}, [][]byte{d}, [][]byte{d}, p&1 == 1, p&2 == 2, p&4 == 4, p&8 == 8)
		return err == nil
	},
	"sei.ExtractSEIData+Decode": func(d []byte, p int) bool {
		sds, err := sei.ExtractSEIData(bytes.NewReader(d))
		for i := range sds {
			for _, codec := range []sei.Codec{sei.AVC, sei.HEVC} {
				m, e := sei.DecodeSEIMessage(&sds[i], codec)
				if e == nil {
					useMsgs([]sei.SEIMessage{m})
				}
			}
		}
		return err == nil
	},
	"sei.DecodeSEIMessage": func(d []byte, p int) bool {
		// p: bit0 codec, bits 1.. payload type selector
		types := []uint{0, 1, 4, 5, 6, 45, 136, 137, 144, 200}
		ty := types[(p>>1)%len(types)]
		m, err := sei.DecodeSEIMessage(sei.NewSEIData(ty, d), sei.Codec(p&1))
		if err == nil {
			useMsgs([]sei.SEIMessage{m})
		}
		return err == nil
	},
	"sei.DecodePicTimingAvcSEIHRD": func(d []byte, p int) bool {
		var cbp *sei.CbpDbpDelay
		if p&1 == 1 {
			cbp = &sei.CbpDbpDelay{CpbRemovalDelayLengthMinus1: byte(p>>1) & 31, DpbOutputDelayLengthMinus1: byte(p>>6) & 31}
		}
		m, err := sei.DecodePicTimingAvcSEIHRD(sei.NewSEIData(1, d), cbp, byte(p>>11)&31)
		if err == nil {
			useMsgs([]sei.SEIMessage{m})
		}
		return err == nil
	},
	"sei.DecodePicTimingHevcSEI": func(d []byte, p int) bool {
		pr := sei.HEVCPicTimingParams{FrameFieldInfoPresentFlag: p&1 != 0, CpbDpbDelaysPresentFlag: p&2 != 0, SubPicHrdParamsPresentFlag: p&4 != 0,
			SubPicCpbParamsInPicTimingSeiFlag: p&8 != 0, AuCbpRemovalDelayLengthMinus1: uint8(p>>4) & 31, DpbOutputDelayLengthMinus1: uint8(p>>9) & 31,
			DpbOutputDelayDuLengthMinus1: uint8(p>>14) & 31, DuCpbRemovalDelayIncrementLengthMinus1: uint8(p>>19) & 31}
		m, err := sei.DecodePicTimingHevcSEI(sei.NewSEIData(1, d), pr)
		if err == nil {
			useMsgs([]sei.SEIMessage{m})
		}
		return err == nil
	},
	"sei.ParseCEA608": func(d []byte, p int) bool { _, _, err := sei.ParseCEA608(d); return err == nil },
	// direct sei-package entry points (DecodeSEIMessage only reaches the typed decoders whose payload type matches
	// the codec; an application may call any exported decoder with any SEIData)
	"sei.ExtractCEA608sei": func(d []byte, p int) bool {
		m, err := sei.ExtractCEA608sei(sei.NewSEIData(sei.SEIUserDataRegisteredITUtT35Type, d))
		if err == nil && m != nil {
			useMsgs([]sei.SEIMessage{m})
		}
		return err == nil
	},
	"sei.DecodeSEIMessage/anytype": func(d []byte, p int) bool {
		// p: bit0 codec, bits 1..8 payload type 0..255 (every type the package names, and the reserved ones); the
		// message is then written back with WriteSEIMessages (uses Type/Size/Payload of the decoded message)
		m, err := sei.DecodeSEIMessage(sei.NewSEIData(uint(p>>1)&0xff, d), sei.Codec(p&1))
		if err == nil && m != nil {
			useMsgs([]sei.SEIMessage{m})
			var b bytes.Buffer
			_ = sei.WriteSEIMessages(&b, []sei.SEIMessage{m})
		}
		return err == nil
	},
	"sei.DecodeTypedDirect": func(d []byte, p int) bool {
		// p: bits 0..2 decoder, bits 3..10 the payload type stored in the SEIData (a decoder does not check it)
		sd := sei.NewSEIData(uint(p>>3)&0xff, d)
		var m sei.SEIMessage
		var err error
		switch p & 7 {
		case 0:
			m, err = sei.DecodePicTimingAvcSEI(sd)
		case 1:
			m, err = sei.DecodeUserDataRegisteredSEI(sd)
		case 2:
			m, err = sei.DecodeUserDataUnregisteredSEI(sd)
		case 3:
			m, err = sei.DecodeTimeCodeSEI(sd)
		case 4:
			m, err = sei.DecodeMasteringDisplayColourVolumeSEI(sd)
		case 5:
			m, err = sei.DecodeContentLightLevelInformationSEI(sd)
		case 6:
			m = sei.DecodeGeneralSEI(sd)
		default:
			m = sei.NewRegisteredSEI(sd, sei.ITUData{CountryCode: byte(p >> 11), UserDataTypeCode: byte(p >> 19)})
			useMsgs([]sei.SEIMessage{sei.NewUnregisteredSEI(sd, d[:min(len(d), p>>11&31)])})
		}
		if err == nil && m != nil {
			useMsgs([]sei.SEIMessage{m})
			var b bytes.Buffer
			_ = sei.WriteSEIMessages(&b, []sei.SEIMessage{m})
		}
		return err == nil
	},
	"sei.DecodeClockTS": func(d []byte, p int) bool {
		// p: bit0 0 = HEVC time_code clock (DecodeClockTS), 1 = AVC pic_timing clock with time_offset_length p>>1&31
		br := mp4bits.NewReader(bytes.NewReader(d))
		if p&1 == 0 {
			c := sei.DecodeClockTS(br)
			_ = c.String()
		} else {
			c := sei.DecodeClockTSAvc(br, byte(p>>1)&31)
			_ = c.String()
			_ = c.NrBits()
			_, _ = c.MarshalJSON()
			sw := mp4bits.NewFixedSliceWriter((c.NrBits() + 7) / 8)
			c.WriteToSliceWriter(sw)
		}
		return br.AccError() == nil
	},
	"aac.DecodeADTSHeader": func(d []byte, p int) bool {
		h, _, err := aac.DecodeADTSHeader(bytes.NewReader(d))
		if err == nil {
			_ = h.Encode()
			_ = h.Frequency()
		}
		return err == nil
	},
	"aac.DecodeAudioSpecificConfig": func(d []byte, p int) bool {
		a, err := aac.DecodeAudioSpecificConfig(bytes.NewReader(d))
		if err == nil && a != nil {
			var b bytes.Buffer
			_ = a.Encode(&b)
		}
		return err == nil
	},
	"av1.DecodeAV1CodecConfRec": func(d []byte, p int) bool {
		r, err := av1.DecodeAV1CodecConfRec(d)
		if err == nil {
			_ = r.Size()
			var b bytes.Buffer
			_ = r.Encode(&b)
		}
		return err == nil
	},
}

var targetNames []string

// ---------------------------------------------------------------------------------------------
// oracle

// Allocation rule 1 (all inputs): cumulative heap allocation of one call <= allocConst + allocPerByte x len(input).
const allocConst = 4 << 20
const allocPerByte = 1024

// Allocation rule 2 (inputs shorter than smallInputLen): <= max(smallAllocConst, smallAllocPerByte x len(input)),
// i.e. 1 MiB. Rule 1 alone lets a count-driven make() of up to 4 MiB per call through for a 20-byte input. What is
// measured is the cumulative number of heap bytes allocated during the call (not the largest single allocation).
const smallInputLen = 4096
const smallAllocConst = 1 << 20
const smallAllocPerByte = 64

func allocBound(n int) (bound uint64, rule string) {
	bound, rule = allocConst+allocPerByte*uint64(n), fmt.Sprintf("%d + %d x len", allocConst, allocPerByte)
	if n < smallInputLen {
		if b := uint64(max(smallAllocConst, smallAllocPerByte*n)); b < bound {
			bound, rule = b, fmt.Sprintf("inputs < %d bytes: max(%d, %d x len)", smallInputLen, smallAllocConst, smallAllocPerByte)
		}
	}
	return bound, rule
}

// Time rule: a case that takes longer than slowBound(len) is run again three times; it fails with key
// C16|<target>|slow when the median of the three exceeds the bound. (Beyond the 10 s watchdog the process is
// ended; the driver then runs the case alone in a fresh process, where this rule applies again.)
func slowBound(n int) time.Duration {
	return max(2*time.Second, time.Duration(n)*50*time.Microsecond)
}

func watchBudget(n int) time.Duration { return 10*time.Second + time.Duration(n)*10*time.Microsecond }

// runOnce runs the target once on a private copy of the input under the watchdog.
func runOnce(fn func(d []byte, p int) bool, data []byte, p int) (returned bool, f *harness.Fail, alloc uint64, el time.Duration) {
	d := append([]byte{}, data...)
	harness.StartWatch(watchBudget(len(d)))
	t0 := time.Now()
	before := harness.HeapAllocs()
	f = harness.Guarded(func() *harness.Fail { returned = fn(d, p); return nil })
	alloc = harness.HeapAllocs() - before
	el = time.Since(t0)
	harness.StopWatch()
	return
}

func checkES(c esCase) *harness.Fail {
	loadSeeds() // parameter-set maps used by the slice/PPS/SEI targets
	fn := targets[c.Target]
	if fn == nil {
		return harness.Failf("harness|c16|unknown target", "%q", c.Target)
	}
	data := []byte(c.Data)
	returned, f, alloc, el := runOnce(fn, data, c.P)
	lastReturned, lastElapsed = returned, el
	if f != nil {
		return f
	}
	if bound, rule := allocBound(len(data)); alloc > bound {
		// /gc/heap/allocs:bytes is updated when a span leaves a per-P cache, so a call can be charged with objects
		// allocated before it. Confirm with an exact measurement (runtime.ReadMemStats flushes the caches before
		// and after) of a second call; one-time initialisation inside the library is thereby not counted either.
		var f2 *harness.Fail
		harness.StartWatch(watchBudget(len(data)))
		alloc2 := harness.AllocDelta(func() {
			d := append([]byte{}, data...)
			f2 = harness.Guarded(func() *harness.Fail { fn(d, c.P); return nil })
		})
		harness.StopWatch()
		harness.Rec.Class("alloc-remeasured")
		if f2 != nil {
			return f2
		}
		if alloc2 > bound {
			return harness.Failf("alloc|"+c.Target, "%d bytes allocated for %d input bytes (second call: %d; bound %s = %d)", alloc, len(data), alloc2, rule, bound)
		}
	}
	if bound := slowBound(len(data)); el > bound {
		durs := make([]time.Duration, 3)
		for i := range durs {
			_, f3, _, d := runOnce(fn, data, c.P)
			if f3 != nil {
				return f3
			}
			durs[i] = d
		}
		harness.Rec.Class("slow-rerun")
		harness.Rec.Note(fmt.Sprintf("slow candidate: target %s, %d input bytes, first run %s, reruns %v (bound %s)", c.Target, len(data), el.Round(time.Millisecond), durs, bound))
		sorted := append([]time.Duration{}, durs...)
		sort.Slice(sorted, func(i, j int) bool { return sorted[i] < sorted[j] })
		if sorted[1] > bound {
			return harness.Failf("C16|"+c.Target+"|slow", "%d input bytes take %s (first run) and %v (three reruns, median %s); bound max(2 s, 50 us per input byte) = %s",
				len(data), el, durs, sorted[1], bound)
		}
	}
	return nil
}

var (
	lastReturned bool
	lastElapsed  time.Duration
)

// ---------------------------------------------------------------------------------------------
// seeds: real NAL units, config records and headers from the repository's test data

type seedSet struct {
	avcNalus, hevcNalus       [][]byte
	avcSPS, avcPPS, avcSlice  [][]byte
	avcSEI                    [][]byte
	hevcVPS, hevcSPS, hevcPPS [][]byte
	hevcSlice, hevcSEI        [][]byte
	avcC, hvcC, av1C, asc     [][]byte
	adts                      [][]byte
}

var seeds seedSet

func annexbSplit(d []byte) [][]byte {
	var out [][]byte
	start := -1
	for i := 0; i+2 < len(d); i++ {
		if d[i] == 0 && d[i+1] == 0 && d[i+2] == 1 {
			if start >= 0 {
				e := i
				for e > start && d[e-1] == 0 {
					e--
				}
				out = append(out, d[start:e])
			}
			start = i + 3
		}
	}
	if start >= 0 && start < len(d) {
		out = append(out, d[start:])
	}
	return out
}

func findBoxes(d []byte, fourcc string) [][]byte {
	var out [][]byte
	for i := 4; i+4 <= len(d); i++ {
		if string(d[i:i+4]) == fourcc {
			sz := int(binary.BigEndian.Uint32(d[i-4:]))
			if sz >= 8 && i-4+sz <= len(d) && sz < 4096 {
				out = append(out, d[i+4:i-4+sz])
			}
		}
	}
	return out
}

func dedupe(l [][]byte, max int) [][]byte {
	seen := map[string]bool{}
	var out [][]byte
	for _, x := range l {
		if len(x) == 0 || seen[string(x)] {
			continue
		}
		seen[string(x)] = true
		out = append(out, x)
	}
	sort.Slice(out, func(i, j int) bool { return bytes.Compare(out[i], out[j]) < 0 })
	if len(out) > max {
		// keep a spread
		step := len(out) / max
		var o2 [][]byte
		for i := 0; i < len(out) && len(o2) < max; i += step {
			o2 = append(o2, out[i])
		}
		out = o2
	}
	return out
}

var seedsOnce sync.Once

func loadSeeds() { seedsOnce.Do(loadSeedsOnce) }

func loadSeedsOnce() {
	repo := harness.E.RepoDir
	files := boxwalk.MediaFiles(repo, []string{".264", ".265"}, 8<<20)
	for _, f := range files {
		nalus := annexbSplit(f.Data)
		for _, n := range nalus {
			if len(n) > 3000 {
				n = n[:3000]
			}
			if strings.HasSuffix(f.Path, ".264") {
				seeds.avcNalus = append(seeds.avcNalus, n)
				switch n[0] & 31 {
				case 7:
					seeds.avcSPS = append(seeds.avcSPS, n)
				case 8:
					seeds.avcPPS = append(seeds.avcPPS, n)
				case 6:
					seeds.avcSEI = append(seeds.avcSEI, n)
				case 1, 5:
					seeds.avcSlice = append(seeds.avcSlice, n)
				}
			} else {
				seeds.hevcNalus = append(seeds.hevcNalus, n)
				switch t := (n[0] >> 1) & 63; {
				case t == 32:
					seeds.hevcVPS = append(seeds.hevcVPS, n)
				case t == 33:
					seeds.hevcSPS = append(seeds.hevcSPS, n)
				case t == 34:
					seeds.hevcPPS = append(seeds.hevcPPS, n)
				case t == 39 || t == 40:
					seeds.hevcSEI = append(seeds.hevcSEI, n)
				case t < 32:
					seeds.hevcSlice = append(seeds.hevcSlice, n)
				}
			}
		}
	}
	for _, f := range boxwalk.MediaFiles(repo, boxwalk.Mp4Exts, 4<<20) {
		seeds.avcC = append(seeds.avcC, findBoxes(f.Data, "avcC")...)
		seeds.hvcC = append(seeds.hvcC, findBoxes(f.Data, "hvcC")...)
		seeds.av1C = append(seeds.av1C, findBoxes(f.Data, "av1C")...)
		for _, e := range findBoxes(f.Data, "esds") {
			// DecoderSpecificInfo: tag 05 len ...
			for i := 0; i+2 < len(e); i++ {
				if e[i] == 5 && int(e[i+1]) > 0 && i+2+int(e[i+1]) <= len(e) && e[i+1] < 32 {
					seeds.asc = append(seeds.asc, e[i+2:i+2+int(e[i+1])])
				}
			}
		}
		// parameter sets inside avcC / hvcC and SEI/slices inside samples are reached through the records
	}
	for _, r := range seeds.avcC {
		// avcC: 5 bytes, numSPS&31, (len16, sps)*, numPPS, (len16, pps)*
		if len(r) < 7 {
			continue
		}
		p := 5
		n := int(r[p] & 31)
		p++
		for i := 0; i < n && p+2 <= len(r); i++ {
			l := int(binary.BigEndian.Uint16(r[p:]))
			p += 2
			if p+l > len(r) {
				break
			}
			seeds.avcSPS = append(seeds.avcSPS, r[p:p+l])
			p += l
		}
		if p < len(r) {
			n = int(r[p])
			p++
			for i := 0; i < n && p+2 <= len(r); i++ {
				l := int(binary.BigEndian.Uint16(r[p:]))
				p += 2
				if p+l > len(r) {
					break
				}
				seeds.avcPPS = append(seeds.avcPPS, r[p:p+l])
				p += l
			}
		}
	}
	for _, r := range seeds.hvcC {
		if len(r) < 23 {
			continue
		}
		p := 22
		na := int(r[p])
		p++
		for a := 0; a < na && p+3 <= len(r); a++ {
			ty := r[p] & 63
			cnt := int(binary.BigEndian.Uint16(r[p+1:]))
			p += 3
			for i := 0; i < cnt && p+2 <= len(r); i++ {
				l := int(binary.BigEndian.Uint16(r[p:]))
				p += 2
				if p+l > len(r) {
					break
				}
				switch ty {
				case 32:
					seeds.hevcVPS = append(seeds.hevcVPS, r[p:p+l])
				case 33:
					seeds.hevcSPS = append(seeds.hevcSPS, r[p:p+l])
				case 34:
					seeds.hevcPPS = append(seeds.hevcPPS, r[p:p+l])
				}
				p += l
			}
		}
	}
	seeds.adts = [][]byte{{0xff, 0xf1, 0x4c, 0x80, 0x2e, 0x9f, 0xfc}, {0xff, 0xf0, 0x4c, 0x80, 0x2e, 0xdf, 0xfc, 0x12, 0x34}}
	// hand-made SEI payloads with the typed messages
	seeds.avcSEI = append(seeds.avcSEI,
		[]byte{0x06, 0x01, 0x01, 0x10, 0x80},
		[]byte{0x06, 0x04, 0x0b, 0xb5, 0x00, 0x31, 0x47, 0x41, 0x39, 0x34, 0x03, 0xc1, 0xff, 0xfc, 0x80},
		[]byte{0x06, 0x05, 0x11, 1, 2, 3, 4, 5, 6, 7, 8, 9, 10, 11, 12, 13, 14, 15, 16, 0x41, 0x80})
	seeds.hevcSEI = append(seeds.hevcSEI,
		[]byte{0x4e, 0x01, 0x88, 0x01, 0x20, 0x80},
		[]byte{0x4e, 0x01, 0x89, 0x18, 1, 2, 3, 4, 5, 6, 7, 8, 9, 10, 11, 12, 13, 14, 15, 16, 17, 18, 19, 20, 21, 22, 23, 24, 0x80},
		[]byte{0x4e, 0x01, 0x90, 0x04, 1, 2, 3, 4, 0x80},
		[]byte{0x4e, 0x01, 0x88, 0x06, 0x60, 0x80, 0x20, 0x10, 0x08, 0x04, 0x80})
	seeds.avcSPS, seeds.avcPPS, seeds.avcSlice, seeds.avcSEI = dedupe(seeds.avcSPS, 40), dedupe(seeds.avcPPS, 40), dedupe(seeds.avcSlice, 40), dedupe(seeds.avcSEI, 40)
	seeds.hevcVPS, seeds.hevcSPS, seeds.hevcPPS = dedupe(seeds.hevcVPS, 20), dedupe(seeds.hevcSPS, 40), dedupe(seeds.hevcPPS, 40)
	seeds.hevcSlice, seeds.hevcSEI = dedupe(seeds.hevcSlice, 40), dedupe(seeds.hevcSEI, 40)
	seeds.avcNalus, seeds.hevcNalus = dedupe(seeds.avcNalus, 80), dedupe(seeds.hevcNalus, 80)
	seeds.avcC, seeds.hvcC, seeds.av1C, seeds.asc = dedupe(seeds.avcC, 30), dedupe(seeds.hvcC, 30), dedupe(seeds.av1C, 10), dedupe(seeds.asc, 20)

	// parameter-set maps for the parsers that need them (built with the library from the real seeds)
	avcSPSMap, avcPPSMap = map[uint32]*avc.SPS{}, map[uint32]*avc.PPS{}
	for _, n := range seeds.avcSPS {
		if s, err := safeAVCSPS(n); err == nil && s != nil {
			if _, ok := avcSPSMap[s.ParameterID]; !ok {
				avcSPSMap[s.ParameterID] = s
			}
			if s.VUI != nil && (s.VUI.NalHrdParameters != nil || s.VUI.VclHrdParameters != nil) && avcSPSHrd == nil {
				avcSPSHrd = s
			}
		}
	}
	if avcSPSHrd == nil {
		for _, s := range avcSPSMap {
			c := *s
			c.VUI = &avc.VUIParameters{NalHrdParameters: &avc.HrdParameters{CpbRemovalDelayLengthMinus1: 23, DpbOutputDelayLengthMinus1: 23, TimeOffsetLength: 24}}
			avcSPSHrd = &c
			break
		}
	}
	for _, n := range seeds.avcPPS {
		if p, err := safeAVCPPS(n); err == nil && p != nil {
			if _, ok := avcPPSMap[uint32(p.PicParameterSetID)]; !ok {
				avcPPSMap[uint32(p.PicParameterSetID)] = p
			}
		}
	}
	hevcSPSMap, hevcPPSMap = map[uint32]*hevc.SPS{}, map[uint32]*hevc.PPS{}
	for _, n := range seeds.hevcSPS {
		if s, err := safeHEVCSPS(n); err == nil && s != nil {
			if _, ok := hevcSPSMap[uint32(s.SpsID)]; !ok {
				hevcSPSMap[uint32(s.SpsID)] = s
			}
			if s.VUI != nil && hevcSPSVui == nil {
				hevcSPSVui = s
			}
		}
	}
	for _, n := range seeds.hevcPPS {
		if p, err := safeHEVCPPS(n); err == nil && p != nil {
			if _, ok := hevcPPSMap[p.PicParameterSetID]; !ok {
				hevcPPSMap[p.PicParameterSetID] = p
			}
		}
	}
	for n := range targets {
		targetNames = append(targetNames, n)
	}
	sort.Strings(targetNames)
}

func safeAVCSPS(n []byte) (s *avc.SPS, err error) {
	defer func() {
		if recover() != nil {
			err = fmt.Errorf("panic")
		}
	}()
	return avc.ParseSPSNALUnit(n, true)
}
func safeAVCPPS(n []byte) (p *avc.PPS, err error) {
	defer func() {
		if recover() != nil {
			err = fmt.Errorf("panic")
		}
	}()
	return avc.ParsePPSNALUnit(n, avcSPSMap)
}
func safeHEVCSPS(n []byte) (s *hevc.SPS, err error) {
	defer func() {
		if recover() != nil {
			err = fmt.Errorf("panic")
		}
	}()
	return hevc.ParseSPSNALUnit(n)
}
func safeHEVCPPS(n []byte) (p *hevc.PPS, err error) {
	defer func() {
		if recover() != nil {
			err = fmt.Errorf("panic")
		}
	}()
	return hevc.ParsePPSNALUnit(n, hevcSPSMap)
}

// seedsFor returns natural seeds for a target.
func seedsFor(target string) [][]byte {
	switch {
	case strings.Contains(target, "avc.ParseSPS"), target == "avc.CreateAVCDecConfRec":
		return seeds.avcSPS
	case strings.Contains(target, "avc.ParsePPS"):
		return seeds.avcPPS
	case strings.Contains(target, "avc.ParseSlice"), strings.Contains(target, "avc.GetSliceType"):
		return seeds.avcSlice
	case target == "avc.ParseSEINalu":
		return seeds.avcSEI
	case strings.Contains(target, "+"): // the additional targets of grammar_test.go
		return compoundSeeds(target)
	case target == "avc.DecodeAVCDecConfRec":
		return seeds.avcC
	case strings.Contains(target, "hevc.ParseSPS"), target == "hevc.CreateHEVCDecConfRec":
		return seeds.hevcSPS
	case strings.Contains(target, "hevc.ParsePPS"):
		return seeds.hevcPPS
	case strings.Contains(target, "hevc.ParseSlice"):
		return seeds.hevcSlice
	case target == "hevc.ParseSEINalu":
		return seeds.hevcSEI
	case target == "hevc.DecodeHEVCDecConfRec":
		return seeds.hvcC
	case target == "av1.DecodeAV1CodecConfRec":
		return seeds.av1C
	case target == "aac.DecodeAudioSpecificConfig":
		return seeds.asc
	case target == "aac.DecodeADTSHeader":
		return seeds.adts
	case target == "sei.ExtractCEA608sei": // the payload of a user_data_registered_itu_t_t35 message carrying cc_data
		return [][]byte{
			{0xb5, 0x00, 0x31, 0x47, 0x41, 0x39, 0x34, 0x03, 0xc1, 0xff, 0xfc, 0x80, 0x80, 0xff},
			{0xb5, 0x00, 0x31, 0x47, 0x41, 0x39, 0x34, 0x03, 0xc2, 0xff, 0xfc, 0x94, 0x2c, 0xfd, 0x80, 0x80, 0xff},
			{0xb5, 0x00, 0x31, 0x47, 0x41, 0x39, 0x34, 0x03, 0xc0, 0xff, 0xff},
		}
	case strings.HasPrefix(target, "sei."):
		var out [][]byte
		for _, n := range seeds.avcSEI {
			if len(n) > 1 {
				out = append(out, n[1:])
			}
		}
		for _, n := range seeds.hevcSEI {
			if len(n) > 2 {
				out = append(out, n[2:])
			}
		}
		return out
	}
	return nil
}

// ---------------------------------------------------------------------------------------------
// generators

var hostile32 = []uint32{0, 1, 2, 3, 4, 5, 0x7fffffff, 0x80000000, 0x80000001, 0xfffffff0, 0xfffffffb, 0xfffffffc, 0xfffffffd, 0xfffffffe, 0xffffffff}

func mutate(t *rapid.T, d []byte) []byte {
	d = append([]byte{}, d...)
	n := rapid.IntRange(1, 4).Draw(t, "nmut")
	for i := 0; i < n; i++ {
		if len(d) == 0 {
			d = append(d, rapid.Byte().Draw(t, "b"))
			continue
		}
		switch rapid.IntRange(0, 15).Draw(t, "mut") {
		case 14, 15: // overwrite the bits from a drawn bit position on with the Exp-Golomb codeword of a hostile value
			v := rapid.SampledFrom([]uint64{1<<32 - 1, 1<<32 - 2, 1 << 31, 1<<31 - 1, 1 << 24, 1 << 16, 65535, 4096, 255, 248, 64, 32}).Draw(t, "ue")
			p := rapid.IntRange(0, len(d)*8-1).Draw(t, "bit")
			x := v + 1
			nb := 0
			for y := x; y > 0; y >>= 1 {
				nb++
			}
			code := make([]byte, 0, 2*nb-1)
			for i := 0; i < nb-1; i++ {
				code = append(code, 0)
			}
			for i := nb - 1; i >= 0; i-- {
				code = append(code, byte(x>>uint(i))&1)
			}
			for len(d)*8 < p+len(code) && len(d) < 64 {
				d = append(d, 0x80)
			}
			for i, b := range code {
				q := p + i
				if q/8 >= len(d) {
					break
				}
				if b == 1 {
					d[q/8] |= 1 << uint(7-q%8)
				} else {
					d[q/8] &^= 1 << uint(7-q%8)
				}
			}
		case 12, 13: // a 16/32-bit field that looks like the length of the LAST element (it points within 8 bytes of the
			// end of the input) is made to point 1..3 bytes past the end, or exactly at it
			type cand struct{ p, w, rest int }
			var cs []cand
			for p := 0; p+2 <= len(d); p++ {
				rest := len(d) - p - 2
				if v := int(binary.BigEndian.Uint16(d[p:])); v > 0 && v <= rest && rest-v <= 8 {
					cs = append(cs, cand{p, 2, rest})
				}
				if p+4 <= len(d) {
					rest4 := len(d) - p - 4
					if v := int(binary.BigEndian.Uint32(d[p:])); v > 0 && v <= rest4 && rest4-v <= 8 {
						cs = append(cs, cand{p, 4, rest4})
					}
				}
			}
			if len(cs) == 0 {
				continue
			}
			c := cs[rapid.IntRange(0, len(cs)-1).Draw(t, "lenfield")]
			nv := c.rest + rapid.SampledFrom([]int{1, 1, 2, 3, 0}).Draw(t, "over")
			if c.w == 2 {
				binary.BigEndian.PutUint16(d[c.p:], uint16(nv))
			} else {
				binary.BigEndian.PutUint32(d[c.p:], uint32(nv))
			}
		case 9: // add a small delta to a 16- or 32-bit big-endian field (length fields that are off by a few)
			delta := rapid.SampledFrom([]int{1, -1, 2, -2, 3, 4, 8, -8, 16}).Draw(t, "delta")
			if rapid.Bool().Draw(t, "wide") && len(d) >= 4 {
				p := rapid.IntRange(0, len(d)-4).Draw(t, "pos")
				binary.BigEndian.PutUint32(d[p:], binary.BigEndian.Uint32(d[p:])+uint32(delta))
			} else if len(d) >= 2 {
				p := rapid.IntRange(0, len(d)-2).Draw(t, "pos")
				binary.BigEndian.PutUint16(d[p:], binary.BigEndian.Uint16(d[p:])+uint16(delta))
			}
		case 10: // drop a few bytes at the end
			k := rapid.IntRange(1, 8).Draw(t, "tail")
			if k > len(d) {
				k = len(d)
			}
			d = d[:len(d)-k]
		case 11: // append a few bytes
			d = append(d, rapid.SliceOfN(rapid.SampledFrom([]byte{0, 0, 1, 3, 0x80, 0xff}), 1, 6).Draw(t, "more")...)
		case 0: // flip a bit
			p := rapid.IntRange(0, len(d)*8-1).Draw(t, "bit")
			d[p/8] ^= 1 << uint(7-p%8)
		case 1: // overwrite a byte with a boundary value
			d[rapid.IntRange(0, len(d)-1).Draw(t, "pos")] = rapid.SampledFrom([]byte{0, 1, 0x7f, 0x80, 0xfe, 0xff}).Draw(t, "val")
		case 2: // truncate
			d = d[:rapid.IntRange(0, len(d)).Draw(t, "cut")]
		case 3: // zero a range (long Exp-Golomb prefixes)
			a := rapid.IntRange(0, len(d)-1).Draw(t, "a")
			l := rapid.IntRange(1, 30).Draw(t, "l")
			for j := a; j < a+l && j < len(d); j++ {
				d[j] = 0
			}
		case 4: // ff a range
			a := rapid.IntRange(0, len(d)-1).Draw(t, "a")
			l := rapid.IntRange(1, 12).Draw(t, "l")
			for j := a; j < a+l && j < len(d); j++ {
				d[j] = 0xff
			}
		case 5: // insert zeros
			a := rapid.IntRange(0, len(d)).Draw(t, "a")
			z := make([]byte, rapid.IntRange(1, 30).Draw(t, "l"))
			d = append(d[:a], append(z, d[a:]...)...)
		case 6: // random byte
			d[rapid.IntRange(0, len(d)-1).Draw(t, "pos")] = rapid.Byte().Draw(t, "val")
		case 7: // overwrite 4 bytes with a hostile 32-bit value
			if len(d) >= 4 {
				binary.BigEndian.PutUint32(d[rapid.IntRange(0, len(d)-4).Draw(t, "pos"):], rapid.SampledFrom(hostile32).Draw(t, "h"))
			}
		case 8: // duplicate a range
			a := rapid.IntRange(0, len(d)-1).Draw(t, "a")
			b := rapid.IntRange(a, len(d)).Draw(t, "b")
			d = append(d[:b], append(append([]byte{}, d[a:b]...), d[b:]...)...)
		}
	}
	return d
}

// hostile length-prefixed sample
func genSample(t *rapid.T, hevcMode bool) []byte {
	pool := seeds.avcNalus
	if hevcMode {
		pool = seeds.hevcNalus
	}
	n := rapid.IntRange(0, 4).Draw(t, "n")
	var s []byte
	for i := 0; i < n; i++ {
		var nalu []byte
		if len(pool) > 0 && rapid.Bool().Draw(t, "real") {
			nalu = rapid.SampledFrom(pool).Draw(t, "nalu")
			if len(nalu) > 64 {
				nalu = nalu[:rapid.IntRange(1, 64).Draw(t, "cut")]
			}
		} else {
			nalu = rapid.SliceOfN(rapid.Byte(), 0, 12).Draw(t, "nalu")
		}
		l := uint32(len(nalu))
		switch rapid.IntRange(0, 5).Draw(t, "lenmode") {
		case 0:
			l = rapid.SampledFrom(hostile32).Draw(t, "hl")
		case 1:
			l = uint32(int64(len(nalu)) + int64(rapid.IntRange(-4, 4).Draw(t, "dl")))
		}
		s = binary.BigEndian.AppendUint32(s, l)
		s = append(s, nalu...)
	}
	// tail: 0..3 stray bytes
	s = append(s, rapid.SliceOfN(rapid.Byte(), 0, 3).Draw(t, "tail")...)
	if rapid.IntRange(0, 9).Draw(t, "short") == 0 && len(s) > 0 {
		s = s[:rapid.IntRange(0, min(len(s), 5)).Draw(t, "shortlen")]
	}
	return s
}

func genByteStream(t *rapid.T, hevcMode bool) []byte {
	pool := seeds.avcNalus
	if hevcMode {
		pool = seeds.hevcNalus
	}
	n := rapid.IntRange(0, 5).Draw(t, "n")
	var s []byte
	s = append(s, rapid.SliceOfN(rapid.SampledFrom([]byte{0, 0, 1, 0xff}), 0, 3).Draw(t, "lead")...)
	for i := 0; i < n; i++ {
		s = append(s, rapid.SampledFrom([][]byte{{0, 0, 1}, {0, 0, 0, 1}, {0, 0, 0, 0, 1}, {0, 1}, {0, 0}}).Draw(t, "sc")...)
		if len(pool) > 0 && rapid.Bool().Draw(t, "real") {
			nalu := rapid.SampledFrom(pool).Draw(t, "nalu")
			if len(nalu) > 40 {
				nalu = nalu[:rapid.IntRange(0, 40).Draw(t, "cut")]
			}
			s = append(s, nalu...)
		} else {
			s = append(s, rapid.SliceOfN(rapid.SampledFrom([]byte{0, 0, 1, 5, 7, 8, 0x40, 0x42, 0x44, 0x26, 0xff}), 0, 6).Draw(t, "nalu")...)
		}
	}
	return s
}

// SEI rbsp with hostile type/size coding and truncated typed payloads
func genSEI(t *rapid.T) []byte {
	var s []byte
	n := rapid.IntRange(1, 3).Draw(t, "n")
	for i := 0; i < n; i++ {
		ty := rapid.SampledFrom([]int{0, 1, 4, 5, 136, 137, 144, 255, 300}).Draw(t, "ty")
		for ; ty >= 255; ty -= 255 {
			s = append(s, 0xff)
		}
		s = append(s, byte(ty))
		pl := rapid.SliceOfN(rapid.OneOf(rapid.SampledFrom([]byte{0, 0xff, 0xb5, 0x31, 0x80}), rapid.Byte()), 0, 30).Draw(t, "pl")
		sz := len(pl)
		switch rapid.IntRange(0, 4).Draw(t, "szmode") {
		case 0:
			sz = rapid.SampledFrom([]int{0, 1, 254, 255, 256, 1000, 70000}).Draw(t, "sz")
		case 1:
			ffs := rapid.IntRange(1, 40).Draw(t, "ffrun")
			for j := 0; j < ffs; j++ {
				s = append(s, 0xff)
			}
		}
		for ; sz >= 255; sz -= 255 {
			s = append(s, 0xff)
		}
		s = append(s, byte(sz))
		s = append(s, pl...)
	}
	if rapid.Bool().Draw(t, "trail") {
		s = append(s, 0x80)
	}
	return s
}

func genCase(t *rapid.T) esCase {
	c := esCase{Target: rapid.SampledFrom(targetNames).Draw(t, "target")}
	c.P = rapid.OneOf(rapid.IntRange(0, 127), rapid.IntRange(0, 1<<24-1)).Draw(t, "p")
	isHevc := strings.HasPrefix(c.Target, "hevc.")
	isSampleWalker := strings.Contains(c.Target, "FindNaluTypes") || strings.Contains(c.Target, "ContainsNaluType") || strings.Contains(c.Target, "Sample") ||
		strings.HasSuffix(c.Target, ".HasParameterSets") || strings.HasSuffix(c.Target, ".GetParameterSets")
	isStream := strings.Contains(c.Target, "ByteStream") && !strings.Contains(c.Target, "ConvertSampleToByteStream")
	nat := seedsFor(c.Target)
	if kind, pct := grammarKind(c.Target); kind != gNone && esgen.HEVCPct(t, pct, "grammar?") {
		genGrammar(t, &c, kind)
		return c
	}
	mode := rapid.IntRange(0, 9).Draw(t, "mode")
	switch {
	case isSampleWalker && mode < 7:
		c.Data, c.Origin = genSample(t, isHevc), "hostile-sample"
	case isStream && mode < 7:
		c.Data, c.Origin = genByteStream(t, isHevc), "hostile-bytestream"
	case strings.HasPrefix(c.Target, "sei.") && mode < 4:
		c.Data, c.Origin = genSEI(t), "hostile-sei"
	case (c.Target == "avc.ParseSEINalu" || c.Target == "hevc.ParseSEINalu") && mode < 4:
		hdr := []byte{6}
		if isHevc {
			hdr = []byte{0x4e, 1}
		}
		c.Data, c.Origin = append(hdr, genSEI(t)...), "hostile-sei"
	case len(nat) > 0 && mode < 8:
		c.Data, c.Origin = mutate(t, rapid.SampledFrom(nat).Draw(t, "seed")), "mutated-seed"
	case mode == 8:
		// golomb bomb: header byte(s) then zeros
		hdr := rapid.SliceOfN(rapid.Byte(), 1, 4).Draw(t, "hdr")
		z := make([]byte, rapid.IntRange(4, 40).Draw(t, "zeros"))
		c.Data, c.Origin = append(append(hdr, z...), rapid.SliceOfN(rapid.Byte(), 0, 4).Draw(t, "tail")...), "golomb-bomb"
	default:
		c.Data, c.Origin = rapid.SliceOfN(rapid.OneOf(rapid.SampledFrom([]byte{0, 0, 1, 0xff, 0x80}), rapid.Byte()), 0, 48).Draw(t, "random"), "random"
	}
	return c
}

func TestES(t *testing.T) {
	loadSeeds()
	if len(seeds.avcSPS) == 0 || len(seeds.hevcSPS) == 0 || len(seeds.avcC) == 0 {
		t.Fatalf("seed harvest failed: %d avc sps, %d hevc sps, %d avcC", len(seeds.avcSPS), len(seeds.hevcSPS), len(seeds.avcC))
	}
	harness.RunRapid(t, "es", func(rt *rapid.T) {
		c := genCase(rt)
		raw, _ := json.Marshal(c)
		// the case is persisted BEFORE anything looks at its bytes: the shape predicates of switched-on library
		// defects may call library parsers (guardedShape: under the watchdog, panics recovered), so a hang there
		// ends this process with THIS case as the current one and the driver re-runs it alone through checkES.
		harness.SetCurrentCase("es", raw)
		if name := guardedShape(&c); name != "" && avoidKnown[name] {
			harness.Rec.Exclude(name) // a recorded defect of the unchanged library (see avoidKnown): not executed
			return
		}
		f := checkES(c)
		grammar := strings.HasPrefix(c.Origin, "grammar")
		nt := lastReturned || grammar || c.Origin == "mutated-seed" || c.Origin == "hostile-sample" || c.Origin == "hostile-bytestream" || c.Origin == "hostile-sei"
		cls := []string{"origin-" + c.Origin, "target-" + c.Target}
		if grammar {
			cls = append(cls, "origin-"+c.Origin+"@"+c.Target)
			if c.pure { // an unmodified valid tree: does the target accept it? (measures the packaging, not the library)
				if lastReturned {
					cls = append(cls, "grammar-valid-accepted@"+c.Target)
				} else {
					cls = append(cls, "grammar-valid-rejected@"+c.Target)
				}
			}
		}
		if lastReturned {
			cls = append(cls, "returned-value")
		} else {
			cls = append(cls, "returned-error-or-empty")
		}
		cls = append(cls, c.tags...)
		switch { // measured duration of the (first) call
		case lastElapsed < time.Millisecond:
			cls = append(cls, "elapsed-lt-1ms")
		case lastElapsed < 100*time.Millisecond:
			cls = append(cls, "elapsed-1ms-100ms")
		case lastElapsed < 2*time.Second:
			cls = append(cls, "elapsed-100ms-2s")
		default:
			cls = append(cls, "elapsed-ge-2s")
		}
		harness.Rec.Case(nt, raw, cls...)
		if nt && harness.Rec.WantSample() && len(c.Data) > 8 && len(c.Data) < 80 {
			harness.Rec.Sample(map[string]interface{}{"kind": "es", "case": c})
		}
		harness.Report(rt, "es", c, f)
	})
	harness.ClearCurrentCase()
}

// TestSeedsClean: every unmodified seed is handled by its natural target (sanity of harvest + targets).
func TestSeedsClean(t *testing.T) {
	loadSeeds()
	n := 0
	for _, name := range targetNames {
		for _, s := range seedsFor(name) {
			c := esCase{Target: name, Data: s, P: 0, Origin: "seed"}
			raw, _ := json.Marshal(c)
			harness.SetCurrentCase("es", raw)
			if shape := guardedShape(&c); shape != "" && avoidKnown[shape] {
				harness.Rec.Exclude(shape)
				continue
			}
			harness.Rec.Case(true, raw, "origin-seed")
			harness.ReportDirect(t, "es", c, checkES(c))
			n++
		}
	}
	harness.ClearCurrentCase()
	_ = os.MkdirAll(filepath.Dir(harness.E.OutDir), 0o755)
	t.Logf("%d seeds", n)
}
