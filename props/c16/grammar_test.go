// C16, input origins "grammar" / "grammar-hostile": VALID syntax trees of every optional branch (the C15 generators
// of verif/internal/esgen), serialised by the independent writers of verif/internal/nalgen, in 60 % of the cases
// with one hostile change made while writing (one Exp-Golomb codeword replaced by a huge / boundary / over-long
// one, the stream cut, a bit inverted), optionally byte mutations on top. The harvested seeds reach few syntax
// branches; these inputs put hostile counts behind every optional branch (VUI/HRD, scaling lists, slice groups,
// range/SCC extensions, RPS, pred weight tables, entry points ...).
//
// The case keeps only the final bytes (esCase.Data) and the origin label, so replay is unchanged.
package c16

import (
	"encoding/binary"
	"fmt"
	"sort"
	"strings"

	"github.com/Eyevinn/mp4ff/avc"
	mp4bits "github.com/Eyevinn/mp4ff/bits"
	"github.com/Eyevinn/mp4ff/hevc"
	"pgregory.net/rapid"

	"verif/internal/esgen"
	"verif/internal/harness"
	"verif/internal/nalgen"
)

func init() {
	// C15's value defects (wrong field values) are irrelevant here: generate every shape, count nothing.
	esgen.DisableAvoidance()
	esgen.Quiet = true
	for name, fn := range grammarTargets {
		targets[name] = fn
	}
}

// avoidKnown: genuine robustness defects of the unchanged library found by the grammar origins; each entry names
// a reproducer /verif/replay/C16/fixed-<name>.json. While a switch is true, a generated case that has that specific
// shape (knownShape, a predicate of the input bytes) is not executed but counted with harness.Rec.Exclude(name),
// so that the search goes on. Set a switch to false after the library has been repaired.
var avoidKnown = map[string]bool{
	// avc.ParseSliceHeader reads frame_num / pic_order_cnt_lsb with r.Read(int(sps.Log2Max...Minus4 + 4)). ParseSPSNALUnit
	// accepts any ue(v) there; a code number >= 2^63-4 (a 63-bit prefix) makes the width negative, EBSPReader.Read
	// then leaves its bit counter n at ~2^63, every later Read(1) returns 0 without consuming input or setting an
	// error, and the next ReadExpGolomb never terminates.
	"avc-slice-negative-read-width-from-sps": false, // repaired in /repo (acb1de8)
	// hevc.ParseSliceHeader (slice.go:150) computes CtbSizeY = 1 << (Log2MinLumaCodingBlockSizeMinus3 + 3 +
	// Log2DiffMaxMinLumaCodingBlockSize) in byte arithmetic from an SPS that ParseSPSNALUnit accepted unchecked; a sum
	// >= 64 gives 0 and ceilDiv divides by zero for every slice segment that is not the first of its picture.
	"hevc-slice-ctbsize-zero-from-sps": false, // repaired in /repo (1e050c0)
	// hevc.parseShortTermRPS, called from ParseSliceHeader for the st_ref_pic_set in the slice header
	// (idx == num_short_term_ref_pic_sets): deltaIdx = byte(delta_idx_minus1 + 1); a value such as 255 or 0xffff
	// wraps to 0, passes the check deltaIdx > idx, and sps.ShortTermRefPicSets[idx - 0] is one past the end:
	// index out of range.
	"hevc-slice-strps-delta-idx-wraps": false, // repaired in /repo (7b1cc04)
	// Same root cause as avc-slice-negative-read-width-from-sps (bits.EBSPReader.Read does not reject a negative
	// bit count and is left with n ~ 2^63), reached inside hevc.ParsePPSNALUnit: parseSccExtension reads the palette
	// predictor initialisers with r.Read(int(luma_bit_depth_entry_minus8 + 8)) (chroma alike), both ue(v) of the
	// same PPS; a code number >= 2^63-8 makes the width negative and the sps_extension_data_flag / trailing-bits loops
	// (MoreRbspData) never end. The code number needs a prefix of >= 62 zero bits. Shape (a necessary condition,
	// ~5 % of the PPS cases): an HEVC PPS NAL unit whose RBSP contains 62 or more consecutive zero bits.
	"hevc-pps-negative-read-width": false, // repaired in /repo (acb1de8)
	// sei.ExtractCEA608sei (sei/sei4.go, exported) slices sd.payload[8:] without a length check: any SEIData whose
	// payload is shorter than 8 bytes panics (slice bounds out of range), e.g.
	// sei.ExtractCEA608sei(sei.NewSEIData(4, []byte{1, 2, 3})). DecodeUserDataRegisteredSEI checks the length before it
	// calls it, so the defect needs the direct call (target sei.ExtractCEA608sei). Reproducer
	// replay/C16/pending/new-panic-sei-ExtractCEA608sei-short-payload.json.
	"sei-extractcea608-payload-shorter-than-8": false, // repaired in /repo (fix: 9cf50de)
}

// libShapes are the avoidKnown entries whose shape predicate calls library parsers (the harness has no SPS/PPS
// reader of its own). They are only evaluated while their switch is on, and then inside guardedShape.
var libShapes = []string{"avc-slice-negative-read-width-from-sps", "hevc-slice-ctbsize-zero-from-sps", "hevc-slice-strps-delta-idx-wraps"}

// guardedShape evaluates knownShape for the case that has just been persisted as the current case: the watchdog
// is armed, a panic of a library parser inside a predicate is recovered and means "no known shape" (the case is
// then executed and checkES reports the panic with the proper key).
func guardedShape(c *esCase) (name string) {
	if s := byteShape(c); s != "" {
		return s
	}
	on := false
	for _, n := range libShapes {
		on = on || avoidKnown[n]
	}
	if !on {
		return ""
	}
	harness.StartWatch(watchBudget(len(c.Data)))
	defer harness.StopWatch()
	defer func() {
		if recover() != nil {
			name = ""
		}
	}()
	return knownShape(c)
}

// byteShape: the known-defect shapes that are predicates of the input bytes alone (harness code only).
func byteShape(c *esCase) string {
	switch c.Target {
	case "sei.ExtractCEA608sei":
		if len(c.Data) < 8 {
			return "sei-extractcea608-payload-shorter-than-8"
		}
	case "hevc.PS+ParseSliceHeader":
		for _, n := range splitSample(c.Data) {
			if hevcPPSZeroRun(n) {
				return "hevc-pps-negative-read-width"
			}
		}
	case "hevc.ParsePPSNALUnit":
		if hevcPPSZeroRun(c.Data) {
			return "hevc-pps-negative-read-width"
		}
	case "hevc.DecodeHEVCDecConfRec+ParsePS":
		for _, n := range hvcCNalus(c.Data) {
			if hevcPPSZeroRun(n) {
				return "hevc-pps-negative-read-width"
			}
		}
	}
	return ""
}

// knownShape names the known-defect shape a case has ("" if none) for the shapes that need parsed parameter sets
// (libShapes). Only the targets that parse slice headers with parameter sets taken from the same input can have
// them. Called through guardedShape only.
func knownShape(c *esCase) string {
	switch c.Target {
	case "avc.PS+ParseSliceHeader":
		nalus := splitSample(c.Data)
		hasSlice := false
		for _, n := range nalus {
			if len(n) > 0 && (n[0]&31 == 1 || n[0]&31 == 5) {
				hasSlice = true
			}
		}
		for _, n := range nalus {
			if !hasSlice || len(n) == 0 || n[0]&31 != 7 {
				continue
			}
			if s, err := safeAVCSPS(n); err == nil && s != nil {
				if int(s.Log2MaxFrameNumMinus4+4) < 0 || int(s.Log2MaxPicOrderCntLsbMinus4+4) < 0 {
					return "avc-slice-negative-read-width-from-sps"
				}
			}
		}
	case "hevc.PS+ParseSliceHeader":
		nalus := splitSample(c.Data)
		hasSlice := false
		for _, n := range nalus {
			if len(n) > 1 && n[0]>>1&63 < 32 {
				hasSlice = true
			}
		}
		for _, n := range nalus {
			if !hasSlice || len(n) < 2 || n[0]>>1&63 != 33 {
				continue
			}
			if s, err := safeHEVCSPS(n); err == nil && s != nil {
				if uint(1)<<(s.Log2MinLumaCodingBlockSizeMinus3+3+s.Log2DiffMaxMinLumaCodingBlockSize) == 0 {
					return "hevc-slice-ctbsize-zero-from-sps"
				}
			}
		}
		// the parameter-set maps as the target builds them
		sm, pm := map[uint32]*hevc.SPS{}, map[uint32]*hevc.PPS{}
		for _, n := range nalus {
			if len(n) < 2 {
				continue
			}
			switch t := n[0] >> 1 & 63; {
			case t == 33:
				if s, err := safeHEVCSPS(n); err == nil && s != nil {
					sm[uint32(s.SpsID)] = s
				}
			case t == 34:
				if q, err := safeHEVCPPSWith(n, sm); err == nil && q != nil {
					pm[q.PicParameterSetID] = q
				}
			case t < 32:
				if hevcSliceDeltaIdxWraps(n, sm, pm) {
					return "hevc-slice-strps-delta-idx-wraps"
				}
			}
		}
	case "hevc.ParseSliceHeader":
		sm, pm := hevcSPSMap, hevcPPSMap
		if c.P&1 == 1 || c.P&2 == 2 {
			return "" // an empty map: the parser stops at the lookup
		}
		if hevcSliceDeltaIdxWraps(c.Data, sm, pm) {
			return "hevc-slice-strps-delta-idx-wraps"
		}
	}
	return ""
}

func hevcPPSZeroRun(n []byte) bool {
	return len(n) > 2 && n[0]>>1&63 == 34 && zeroBitRun(n, 2, 62)
}

// hvcCNalus splits the NAL units out of a HEVCDecoderConfigurationRecord with the harness' own bounds checks.
func hvcCNalus(b []byte) [][]byte {
	var out [][]byte
	if len(b) < 23 {
		return nil
	}
	pos := 23
	for a := 0; a < int(b[22]) && pos+3 <= len(b); a++ {
		cnt := int(b[pos+1])<<8 | int(b[pos+2])
		pos += 3
		for i := 0; i < cnt && pos+2 <= len(b) && len(out) < 256; i++ {
			l := int(b[pos])<<8 | int(b[pos+1])
			pos += 2
			if l > len(b)-pos {
				l = len(b) - pos
			}
			out = append(out, b[pos:pos+l])
			pos += l
		}
	}
	return out
}

// zeroBitRun reports whether the RBSP of the NAL unit (emulation prevention removed, hdr header bytes skipped)
// contains at least min consecutive zero bits.
func zeroBitRun(n []byte, hdr, min int) bool {
	if len(n) <= hdr {
		return false
	}
	run := 0
	for _, b := range nalgen.Unescape(n[hdr:]) {
		if b == 0 {
			run += 8
		} else {
			for i := 7; i >= 0; i-- {
				if b>>uint(i)&1 == 0 {
					run++
				} else {
					if run >= min {
						return true
					}
					run = 0
				}
			}
		}
		if run >= min {
			return true
		}
	}
	return false
}

func safeHEVCPPSWith(n []byte, sm map[uint32]*hevc.SPS) (p *hevc.PPS, err error) {
	defer func() {
		if recover() != nil {
			err = fmt.Errorf("panic")
		}
	}()
	return hevc.ParsePPSNALUnit(n, sm)
}

// hevcSliceDeltaIdxWraps follows slice_segment_header() (7.3.6.1) with the harness' own bit reader up to the
// st_ref_pic_set( num_short_term_ref_pic_sets ) in the header and reports whether it is inter-predicted with a
// delta_idx_minus1 whose value + 1 is a multiple of 256 (the shape of avoidKnown["hevc-slice-strps-delta-idx-wraps"]).
func hevcSliceDeltaIdxWraps(n []byte, sm map[uint32]*hevc.SPS, pm map[uint32]*hevc.PPS) bool {
	if len(n) < 3 {
		return false
	}
	nt := int(n[0]>>1) & 63
	if nt >= 32 {
		return false
	}
	r := nalgen.NewHEVCBitReader(nalgen.Unescape(n[2:]), 0)
	first := r.Flag()
	if nt >= 16 && nt <= 23 {
		r.Flag()
	}
	pps := pm[uint32(r.UE())]
	if r.Err || pps == nil {
		return false
	}
	sps := sm[pps.SeqParameterSetID]
	if sps == nil {
		return false
	}
	dep := false
	if !first {
		if pps.DependentSliceSegmentsEnabledFlag {
			dep = r.Flag()
		}
		ctb := uint(1) << (sps.Log2MinLumaCodingBlockSizeMinus3 + 3 + sps.Log2DiffMaxMinLumaCodingBlockSize)
		if ctb == 0 {
			return false
		}
		cd := func(a, b uint) uint { return (a + b - 1) / b }
		r.U(mp4bits.CeilLog2(cd(uint(sps.PicWidthInLumaSamples), ctb) * cd(uint(sps.PicHeightInLumaSamples), ctb)))
	}
	if dep || nt == 19 || nt == 20 {
		return false
	}
	r.U(int(pps.NumExtraSliceHeaderBits))
	r.UE() // slice_type
	if pps.OutputFlagPresentFlag {
		r.U(1)
	}
	if sps.SeparateColourPlaneFlag {
		r.U(2)
	}
	r.U(int(sps.Log2MaxPicOrderCntLsbMinus4) + 4)
	if r.Flag() || sps.NumShortTermRefPicSets == 0 { // short_term_ref_pic_set_sps_flag
		return false
	}
	if !r.Flag() || r.Err { // inter_ref_pic_set_prediction_flag
		return false
	}
	zeros := 0
	for r.U(1) == 0 {
		if r.Err {
			return false
		}
		zeros++
	}
	if zeros >= 64 {
		return true // an over-long codeword: what the library makes of it is not modelled here
	}
	v := uint64(1)<<uint(zeros) - 1 + r.U(zeros)
	return !r.Err && byte(v+1) == 0
}

// ---------------------------------------------------------------------------------------------
// additional targets: the parsers in the order an application uses them, with parameter-set maps built from
// the SAME input (the maps of the plain ParsePPSNALUnit / ParseSliceHeader targets come from the harvested seeds,
// to which a generated PPS / slice header does not fit).

// splitSample splits 4-byte length-prefixed NAL units with the harness' own bounds checks (a length beyond the
// end takes the rest).
func splitSample(d []byte) [][]byte {
	var out [][]byte
	for pos := 0; pos+4 <= len(d) && len(out) < 64; {
		l := int(binary.BigEndian.Uint32(d[pos:]))
		pos += 4
		if l > len(d)-pos {
			l = len(d) - pos
		}
		out = append(out, d[pos:pos+l])
		pos += l
	}
	return out
}

func avcParseAll(nalus [][]byte, full bool) bool {
	sm, pm := map[uint32]*avc.SPS{}, map[uint32]*avc.PPS{}
	var last *avc.SPS
	ok := false
	for _, n := range nalus {
		if len(n) == 0 {
			continue
		}
		switch avc.GetNaluType(n[0]) {
		case avc.NALU_SPS:
			s, err := avc.ParseSPSNALUnit(n, full)
			if ok = err == nil; ok && s != nil {
				sm[s.ParameterID], last = s, s
				_ = avc.CodecString("avc1", s)
			}
		case avc.NALU_PPS:
			q, err := avc.ParsePPSNALUnit(n, sm)
			if ok = err == nil; ok && q != nil {
				pm[q.PicParameterSetID] = q
			}
		case avc.NALU_NON_IDR, avc.NALU_IDR:
			_, err := avc.ParseSliceHeader(n, sm, pm)
			ok = err == nil
			_, _ = avc.GetSliceTypeFromNALU(n)
		case avc.NALU_SEI:
			msgs, err := avc.ParseSEINalu(n, last)
			useMsgs(msgs)
			ok = err == nil
		}
	}
	return ok
}

func hevcParseAll(nalus [][]byte) bool {
	sm, pm := map[uint32]*hevc.SPS{}, map[uint32]*hevc.PPS{}
	var last *hevc.SPS
	ok := false
	for _, n := range nalus {
		if len(n) < 2 {
			continue
		}
		switch t := hevc.GetNaluType(n[0]); {
		case t == hevc.NALU_SPS:
			s, err := hevc.ParseSPSNALUnit(n)
			if ok = err == nil; ok && s != nil {
				sm[uint32(s.SpsID)], last = s, s
				_ = hevc.CodecString("hvc1", s)
				_, _ = s.ImageSize()
			}
		case t == hevc.NALU_PPS:
			q, err := hevc.ParsePPSNALUnit(n, sm)
			if ok = err == nil; ok && q != nil {
				pm[q.PicParameterSetID] = q
			}
		case t < 32:
			_, err := hevc.ParseSliceHeader(n, sm, pm)
			ok = err == nil
		case t == hevc.NALU_SEI_PREFIX || t == hevc.NALU_SEI_SUFFIX:
			msgs, err := hevc.ParseSEINalu(n, last)
			useMsgs(msgs)
			ok = err == nil
		}
	}
	return ok
}

var grammarTargets = map[string]func(d []byte, p int) bool{
	// a sample (4-byte lengths) of SPS*, PPS*, slice/SEI: each parsed with the maps filled by the ones before it
	"avc.PS+ParseSliceHeader":  func(d []byte, p int) bool { return avcParseAll(splitSample(d), p&1 == 0) },
	"hevc.PS+ParseSliceHeader": func(d []byte, p int) bool { return hevcParseAll(splitSample(d)) },
	// a configuration record is decoded and the parameter sets it carries are parsed (what mp4ff-pslister does)
	"avc.DecodeAVCDecConfRec+ParsePS": func(d []byte, p int) bool {
		r, err := avc.DecodeAVCDecConfRec(d)
		if err != nil {
			return false
		}
		return avcParseAll(append(append([][]byte{}, r.SPSnalus...), r.PPSnalus...), p&1 == 0)
	},
	"hevc.DecodeHEVCDecConfRec+ParsePS": func(d []byte, p int) bool {
		r, err := hevc.DecodeHEVCDecConfRec(d)
		if err != nil {
			return false
		}
		var nalus [][]byte
		for _, t := range []hevc.NaluType{hevc.NALU_VPS, hevc.NALU_SPS, hevc.NALU_PPS} {
			nalus = append(nalus, r.GetNalusForType(t)...)
		}
		return hevcParseAll(nalus)
	},
}

// compoundSeeds builds natural seeds for the additional targets from the harvested units.
func compoundSeeds(target string) [][]byte {
	pack := func(sps, pps, slices [][]byte) [][]byte {
		var out [][]byte
		if len(sps) == 0 || len(pps) == 0 {
			return nil
		}
		for i, sl := range slices {
			if i >= 20 {
				break
			}
			out = append(out, lengthPrefixed([][]byte{sps[i%len(sps)], pps[i%len(pps)], sl}))
		}
		return out
	}
	switch target {
	case "avc.PS+ParseSliceHeader":
		return pack(seeds.avcSPS, seeds.avcPPS, seeds.avcSlice)
	case "hevc.PS+ParseSliceHeader":
		return pack(seeds.hevcSPS, seeds.hevcPPS, seeds.hevcSlice)
	case "avc.DecodeAVCDecConfRec+ParsePS":
		return seeds.avcC
	case "hevc.DecodeHEVCDecConfRec+ParsePS":
		return seeds.hvcC
	case "avc.SPS+ParseSEINalu":
		return seiSeeds(seeds.avcSPS, seeds.avcSEI)
	case "hevc.SPS+ParseSEINalu":
		return seiSeeds(seeds.hevcSPS, seeds.hevcSEI)
	}
	return nil
}

// ---------------------------------------------------------------------------------------------
// packaging

func lengthPrefixed(nalus [][]byte) []byte {
	var s []byte
	for _, n := range nalus {
		s = binary.BigEndian.AppendUint32(s, uint32(len(n)))
		s = append(s, n...)
	}
	return s
}

func annexB(t *rapid.T, nalus [][]byte) []byte {
	var s []byte
	for _, n := range nalus {
		if rapid.Bool().Draw(t, "sc4") {
			s = append(s, 0)
		}
		s = append(s, 0, 0, 1)
		s = append(s, n...)
	}
	return s
}

func len16(n []byte) []byte {
	l := len(n)
	if l > 0xffff {
		l = 0xffff
	}
	return []byte{byte(l >> 8), byte(l)}
}

// avcCRecord: AVCDecoderConfigurationRecord (ISO/IEC 14496-15 5.3.3.1.2), lengthSizeMinusOne = 3.
func avcCRecord(s *nalgen.AVCSPSTree, sps, pps [][]byte, ext bool) []byte {
	b := []byte{1, byte(s.S.Profile), byte(s.S.ProfileCompatibility), byte(s.S.Level), 0xff, 0xe0 | byte(len(sps)&31)}
	for _, n := range sps {
		b = append(append(b, len16(n)...), n...)
	}
	b = append(b, byte(len(pps)))
	for _, n := range pps {
		b = append(append(b, len16(n)...), n...)
	}
	if ext {
		b = append(b, 0xfc|esgen.AVCChromaFormatIDC(&s.S), 0xf8|byte(s.S.BitDepthLumaMinus8)&7, 0xf8|byte(s.S.BitDepthChromaMinus8)&7, 0)
	}
	return b
}

// hvcCRecord: HEVCDecoderConfigurationRecord (ISO/IEC 14496-15 8.3.3.1.2), lengthSizeMinusOne = 3.
func hvcCRecord(s *hevc.SPS, complete [3]bool, vps, sps, pps [][]byte) []byte {
	p := &s.ProfileTierLevel
	b1 := p.GeneralProfileSpace<<6 | p.GeneralProfileIDC&31
	if p.GeneralTierFlag {
		b1 |= 0x20
	}
	b := []byte{1, b1}
	b = binary.BigEndian.AppendUint32(b, p.GeneralProfileCompatibilityFlags)
	for i := 5; i >= 0; i-- {
		b = append(b, byte(p.GeneralConstraintIndicatorFlags>>uint(8*i)))
	}
	b = append(b, p.GeneralLevelIDC, 0xf0, 0x00, 0xfc, 0xfc|s.ChromaFormatIDC&3, 0xf8|s.BitDepthLumaMinus8&7, 0xf8|s.BitDepthChromaMinus8&7, 0, 0)
	nest := byte(0)
	if s.TemporalIDNestingFlag {
		nest = 4
	}
	b = append(b, (s.MaxSubLayersMinus1+1)&7<<3|nest|3, 3)
	for i, arr := range [][][]byte{vps, sps, pps} {
		ty := byte(32 + i)
		if complete[i] {
			ty |= 0x80
		}
		b = append(b, ty, byte(len(arr)>>8), byte(len(arr)))
		for _, n := range arr {
			b = append(append(b, len16(n)...), n...)
		}
	}
	return b
}

// ---------------------------------------------------------------------------------------------
// hostile hook

// uniform draws from 0..n-1 nearly uniformly from fair coin flips (rapid's integer generators favour small
// values and the ends of the range).
func uniform(t *rapid.T, n int, label string) int {
	if n <= 1 {
		return 0
	}
	v := uint64(0)
	for k := uint64(1); k < 8*uint64(n); k <<= 1 {
		v <<= 1
		if rapid.Bool().Draw(t, label) {
			v |= 1
		}
	}
	return int(v % uint64(n))
}

var hostileUE = []uint64{0xffff, 0x10000, 0xffffff, 1<<31 - 1, 1 << 31, 1<<32 - 2}

func drawHostile(t *rapid.T, nUE, nBits int) *nalgen.Hostile {
	h := &nalgen.Hostile{}
	var replace, trunc, flip bool
	switch k := uniform(t, 20, "hz-kind"); {
	case k < 13:
		replace = true
	case k < 15:
		replace, trunc = true, true
	case k < 17:
		replace, flip = true, true
	case k < 18:
		trunc = true
	case k < 19:
		flip = true
	default:
		trunc, flip = true, true
	}
	if replace && nUE > 0 {
		h.ReplaceUE = true
		h.UEIndex = uniform(t, nUE, "hz-ue-index")
		switch k := uniform(t, 12, "hz-ue-kind"); {
		case k < 6:
			h.UEValue = hostileUE[k]
		case k == 6: // uniform over the legal code numbers
			for i := 0; i < 32; i++ {
				h.UEValue <<= 1
				if rapid.Bool().Draw(t, "hz-ue-bit") {
					h.UEValue |= 1
				}
			}
			if h.UEValue == 1<<32-1 {
				h.UEValue--
			}
		case k == 7: // moderately large: passes sanity limits that stop 2^31, still far too many elements
			h.UEValue = uint64(1)<<uint(rapid.IntRange(8, 30).Draw(t, "hz-ue-pow")) + uint64(rapid.IntRange(0, 2).Draw(t, "hz-ue-off")) - 1
		case k == 8:
			// small values: limits of tables, and values that make a byte-typed "x + 8" / "x + 4" / "x + 1" wrap
			h.UEValue = rapid.SampledFrom([]uint64{31, 32, 63, 64, 247, 248, 249, 251, 252, 254, 255, 256, 1000, 4096, 65534}).Draw(t, "hz-ue-small")
		case k == 9: // code numbers no conforming stream contains
			h.UEValue = rapid.SampledFrom([]uint64{1<<32 - 1, 1 << 32, 1 << 33, 1<<63 - 1}).Draw(t, "hz-ue-illegal")
		default: // over-long codeword
			h.UEPrefixZeros = rapid.SampledFrom([]int{32, 33, 40, 63, 64, 65, 100, 200}).Draw(t, "hz-ue-prefix")
			h.UEValue = rapid.Uint64().Draw(t, "hz-ue-suffix")
		}
	}
	if replace && nUE > 1 && uniform(t, 3, "hz-ue2") == 0 {
		// a second hostile value somewhere else (two cooperating fields: a width and a count, two dimensions ...)
		h.ReplaceUE2 = true
		h.UEIndex2 = uniform(t, nUE, "hz-ue2-index")
		h.UEValue2 = rapid.SampledFrom([]uint64{0, 1, 7, 8, 15, 16, 31, 32, 60, 61, 63, 64, 247, 248, 252, 255, 256, 4095, 65535, 1 << 20, 1 << 24, 1<<31 - 1, 1<<32 - 2}).Draw(t, "hz-ue2-value")
	}
	if trunc && nBits > 1 {
		h.TruncateBits = rapid.IntRange(1, nBits-1).Draw(t, "hz-truncate")
	}
	if flip && nBits > 0 {
		h.Flip = true
		h.FlipBit = rapid.IntRange(0, nBits-1).Draw(t, "hz-flip")
	}
	return h
}

// unit serialises one NAL unit of the drawn trees (h nil: unmodified).
type unit func(h *nalgen.Hostile) []byte

// serialiseUnits serialises the units; if hostile, one of them (uniformly chosen) gets a drawn hook.
func serialiseUnits(t *rapid.T, units []unit, hostile bool) [][]byte {
	u := -1
	var hook *nalgen.Hostile
	if hostile && len(units) > 0 {
		u = uniform(t, len(units), "hz-unit")
		probe := &nalgen.Hostile{}
		units[u](probe) // first serialisation: count the Exp-Golomb codewords and bits
		hook = drawHostile(t, probe.SeenUE, probe.SeenBits)
	}
	out := make([][]byte, len(units))
	for i, f := range units {
		if i == u {
			out[i] = f(hook)
		} else {
			out[i] = f(nil)
		}
	}
	return out
}

// ---------------------------------------------------------------------------------------------
// which targets get grammar inputs, and how they are packaged

const (
	gNone      = iota
	gAVCSPS    // one SPS NAL unit
	gAVCPPS    // one PPS NAL unit (its SPS id is one of the harvested map)
	gAVCSlice  // one slice NAL unit (its PPS id is one of the harvested map)
	gAVCSample // SPS*, PPS*, slice as 4-byte length-prefixed sample
	gAVCStream // the same as Annex B byte stream
	gAVCConf   // avcC record
	gHEVCSPS
	gHEVCPPS
	gHEVCSlice
	gHEVCSample
	gHEVCStream
	gHEVCConf
	gAVCSEI     // one SEI NAL unit written for the harvested SPS the plain target passes (avcSPSHrd)
	gHEVCSEI    // (hevcSPSVui)
	gAVCSPSSEI  // SPS, SEI+ as 4-byte length-prefixed sample; the SEI written for that SPS tree
	gHEVCSPSSEI //
)

// grammarKind returns the packaging for a target and the share (percent) of grammar cases among its cases.
func grammarKind(target string) (kind int, pct int) {
	switch target {
	case "avc.ParseSPSNALUnit", "avc.CreateAVCDecConfRec":
		return gAVCSPS, 35
	case "avc.ParsePPSNALUnit":
		return gAVCPPS, 35
	case "avc.ParseSliceHeader", "avc.GetSliceTypeFromNALU":
		return gAVCSlice, 35
	case "avc.PS+ParseSliceHeader":
		return gAVCSample, 45 // (this target exists for these inputs)
	case "avc.DecodeAVCDecConfRec", "avc.DecodeAVCDecConfRec+ParsePS":
		return gAVCConf, 35
	case "hevc.ParseSPSNALUnit", "hevc.CreateHEVCDecConfRec":
		return gHEVCSPS, 35
	case "hevc.ParsePPSNALUnit":
		return gHEVCPPS, 35
	case "hevc.ParseSliceHeader":
		return gHEVCSlice, 35
	case "hevc.PS+ParseSliceHeader":
		return gHEVCSample, 45
	case "hevc.DecodeHEVCDecConfRec", "hevc.DecodeHEVCDecConfRec+ParsePS":
		return gHEVCConf, 35
	case "avc.ParseSEINalu":
		return gAVCSEI, 35
	case "hevc.ParseSEINalu":
		return gHEVCSEI, 35
	case "avc.SPS+ParseSEINalu":
		return gAVCSPSSEI, 60 // (this target exists for these inputs)
	case "hevc.SPS+ParseSEINalu":
		return gHEVCSPSSEI, 60
	}
	isHevc := strings.HasPrefix(target, "hevc.")
	isAvc := strings.HasPrefix(target, "avc.")
	if !isHevc && !isAvc {
		return gNone, 0
	}
	// the walkers look at lengths / start codes and NAL unit types only: a small share
	walker := strings.Contains(target, "FindNaluTypes") || strings.Contains(target, "ContainsNaluType") || strings.Contains(target, "Sample") ||
		strings.HasSuffix(target, ".HasParameterSets") || strings.HasSuffix(target, ".GetParameterSets")
	stream := strings.Contains(target, "ByteStream") && !strings.Contains(target, "ConvertSampleToByteStream")
	switch {
	case stream && isAvc:
		return gAVCStream, 12
	case stream:
		return gHEVCStream, 12
	case walker && isAvc:
		return gAVCSample, 12
	case walker:
		return gHEVCSample, 12
	}
	return gNone, 0
}

func sortedKeys[V any](m map[uint32]V) []uint32 {
	var k []uint32
	for id := range m {
		k = append(k, id)
	}
	sort.Slice(k, func(i, j int) bool { return k[i] < k[j] })
	return k
}

// hevcExtTags returns the evidence labels of the multilayer / 3D extension branches (esgen.HEVCSPSClasses /
// HEVCPPSClasses labels, prefixed "grammar-") that the given parameter-set trees take, each label once.
func hevcExtTags(sps []nalgen.HEVCSPSTree, pps []nalgen.HEVCPPSTree) []string {
	seen := map[string]bool{}
	var out []string
	add := func(cs []string) {
		for _, c := range cs {
			if !(strings.Contains(c, "-multilayer-") || strings.Contains(c, "-3d-") || strings.Contains(c, "-cm-")) || seen[c] {
				continue
			}
			seen[c] = true
			out = append(out, "grammar-"+c)
		}
	}
	for i := range sps {
		add(esgen.HEVCSPSClasses(&sps[i]))
	}
	for i := range pps {
		add(esgen.HEVCPPSClasses(&pps[i]))
	}
	return out
}

// genGrammar draws the data for a grammar case. It may adjust c.P so that the target uses populated maps / the
// full VUI parse.
func genGrammar(t *rapid.T, c *esCase, kind int) {
	hostile := esgen.HEVCPct(t, 60, "hostile")
	var units []unit
	var pack func(nalus [][]byte) []byte
	single := func(n [][]byte) []byte { return n[0] }

	avcSetUnits := func(sps []nalgen.AVCSPSTree, pps []nalgen.AVCPPSTree) (su, pu []unit) {
		byID := map[uint32]*nalgen.AVCSPSTree{}
		for i := range sps {
			tr := &sps[i]
			byID[tr.S.ParameterID] = tr
			su = append(su, func(h *nalgen.Hostile) []byte { n, _ := nalgen.SerializeAVCSPSH(tr, h); return n })
		}
		for i := range pps {
			tr := &pps[i]
			cf := byte(1)
			if s := byID[tr.P.SeqParameterSetID]; s != nil {
				cf = esgen.AVCChromaFormatIDC(&s.S)
			}
			pu = append(pu, func(h *nalgen.Hostile) []byte { n, _ := nalgen.SerializeAVCPPSH(tr, cf, h); return n })
		}
		return su, pu
	}
	hevcSetUnits := func(sps []nalgen.HEVCSPSTree, pps []nalgen.HEVCPPSTree) (su, pu []unit) {
		for i := range sps {
			tr := &sps[i]
			su = append(su, func(h *nalgen.Hostile) []byte { n, _ := nalgen.HEVCWriteSPSH(tr, h); return n })
		}
		for i := range pps {
			tr := &pps[i]
			pu = append(pu, func(h *nalgen.Hostile) []byte { n, _ := nalgen.HEVCWritePPSH(tr, h); return n })
		}
		return su, pu
	}

	switch kind {
	case gAVCSPS:
		id := uint32(rapid.SampledFrom([]int{0, 0, 1, 2, 3, 15, 30, 31}).Draw(t, "seq_parameter_set_id"))
		tr := esgen.GenAVCSPS(t, esgen.AVCSPSOpts{ID: id})
		units = []unit{func(h *nalgen.Hostile) []byte { n, _ := nalgen.SerializeAVCSPSH(&tr, h); return n }}
		pack = single
		c.P |= 1 // avc.ParseSPSNALUnit: parse the whole VUI
	case gAVCPPS:
		spsID := uint32(0)
		if ids := sortedKeys(avcSPSMap); len(ids) > 0 {
			spsID = rapid.SampledFrom(ids).Draw(t, "sps-id-of-map")
		}
		sps := esgen.GenAVCSPS(t, esgen.AVCSPSOpts{ID: spsID, Light: true})
		pps := esgen.GenAVCPPS(t, esgen.AVCPPSOpts{ID: esgen.AVCDistinct(t, 1, 255, "pic_parameter_set_id")[0]}, &sps)
		cf := esgen.AVCChromaFormatIDC(&sps.S)
		units = []unit{func(h *nalgen.Hostile) []byte { n, _ := nalgen.SerializeAVCPPSH(&pps, cf, h); return n }}
		pack = single
		c.P &^= 1 // populated SPS map
	case gAVCSlice, gAVCSample, gAVCStream:
		sps, pps, slice, us, up := esgen.GenAVCSliceSet(t)
		if kind == gAVCSlice {
			if ids := sortedKeys(avcPPSMap); len(ids) > 0 {
				slice.H.PicParamID = rapid.SampledFrom(ids).Draw(t, "pps-id-of-map")
			}
			c.P &^= 3 // populated maps
		}
		sl := func(h *nalgen.Hostile) []byte {
			n, _ := nalgen.SerializeAVCSliceH(&slice, &sps[us], &pps[up], h)
			return n
		}
		switch kind {
		case gAVCSlice:
			units, pack = []unit{sl}, single
		default:
			su, pu := avcSetUnits(sps, pps)
			units = append(su, pu...)
			if esgen.HEVCPct(t, 40, "with-sei") { // an SEI NAL unit written for the slice's SPS, in front of the slice
				par := avcSEIParams(&sps[us].S)
				u, tags := genSEIUnit(t, par, hostile)
				units = append(units, u)
				c.tags = append(append(append(c.tags, "grammar-sei-in-sample"), tags...), seiParamTags(par)...)
			}
			units = append(units, sl)
			pack = lengthPrefixed
			if kind == gAVCStream {
				pack = func(n [][]byte) []byte { return annexB(t, n) }
			}
		}
	case gAVCConf:
		sps, pps := esgen.GenAVCConfSets(t)
		su, pu := avcSetUnits(sps, pps)
		units = append(su, pu...)
		ext := sps[0].S.Profile != 66 && sps[0].S.Profile != 77 && sps[0].S.Profile != 88 && rapid.Bool().Draw(t, "avcc-ext")
		pack = func(n [][]byte) []byte { return avcCRecord(&sps[0], n[:len(sps)], n[len(sps):], ext) }
	case gHEVCSPS:
		tr := esgen.HEVCGenSPS(t, esgen.HEVCSPSOpts{ID: -1, Log2Poc: -1, SAO: -1}, "")
		units = []unit{func(h *nalgen.Hostile) []byte { n, _ := nalgen.HEVCWriteSPSH(tr, h); return n }}
		pack = single
		c.tags = append(c.tags, hevcExtTags([]nalgen.HEVCSPSTree{*tr}, nil)...)
	case gHEVCPPS:
		spsID := 0
		if ids := sortedKeys(hevcSPSMap); len(ids) > 0 {
			spsID = int(rapid.SampledFrom(ids).Draw(t, "sps-id-of-map")) & 15
		}
		sps := esgen.HEVCGenSPS(t, esgen.HEVCSPSOpts{ID: spsID, Lean: true, Log2Poc: -1, SAO: -1, MaxDim: 8192}, "s")
		pps := esgen.HEVCGenPPS(t, sps, -1, "p")
		units = []unit{func(h *nalgen.Hostile) []byte { n, _ := nalgen.HEVCWritePPSH(pps, h); return n }}
		pack = single
		c.P &^= 1
		c.tags = append(c.tags, hevcExtTags(nil, []nalgen.HEVCPPSTree{*pps})...)
	case gHEVCSlice, gHEVCSample, gHEVCStream:
		sps, pps, slice, us, up := esgen.HEVCGenSliceSet(t)
		if kind == gHEVCSlice {
			if ids := sortedKeys(hevcPPSMap); len(ids) > 0 {
				slice.SH.PicParameterSetId = rapid.SampledFrom(ids).Draw(t, "pps-id-of-map")
			}
			c.P &^= 3
		}
		sl := func(h *nalgen.Hostile) []byte {
			n, _ := nalgen.HEVCWriteSliceH(&slice, &sps[us], &pps[up].PPS, h)
			return n
		}
		switch kind {
		case gHEVCSlice:
			units, pack = []unit{sl}, single
		default:
			su, pu := hevcSetUnits(sps, pps)
			units = append(su, pu...)
			c.tags = append(c.tags, hevcExtTags(sps, pps)...)
			if esgen.HEVCPct(t, 40, "with-sei") {
				par := hevcSEIParams(&sps[us].SPS)
				u, tags := genSEIUnit(t, par, hostile)
				units = append(units, u)
				c.tags = append(append(append(c.tags, "grammar-sei-in-sample"), tags...), seiParamTags(par)...)
			}
			units = append(units, sl)
			if rapid.Bool().Draw(t, "with-vps") {
				vps := esgen.HEVCGenVPS(t, &sps[us].SPS, "v")
				units = append([]unit{func(h *nalgen.Hostile) []byte { return nalgen.HEVCWriteVPSH(vps, h) }}, units...)
			}
			pack = lengthPrefixed
			if kind == gHEVCStream {
				pack = func(n [][]byte) []byte { return annexB(t, n) }
			}
		}
	case gHEVCConf:
		vps, sps, pps := esgen.HEVCGenConfSets(t)
		_, pu := hevcSetUnits(nil, pps)
		c.tags = append(c.tags, hevcExtTags([]nalgen.HEVCSPSTree{*sps}, pps)...)
		units = append([]unit{
			func(h *nalgen.Hostile) []byte { return nalgen.HEVCWriteVPSH(vps, h) },
			func(h *nalgen.Hostile) []byte { n, _ := nalgen.HEVCWriteSPSH(sps, h); return n },
		}, pu...)
		var complete [3]bool
		for i := range complete {
			complete[i] = rapid.Bool().Draw(t, "array_completeness")
		}
		pack = func(n [][]byte) []byte { return hvcCRecord(&sps.SPS, complete, n[:1], n[1:2], n[2:]) }
	case gAVCSEI, gHEVCSEI:
		par := avcSEIParams(avcSPSHrd)
		if kind == gHEVCSEI {
			par = hevcSEIParams(hevcSPSVui)
		}
		u, tags := genSEIUnit(t, par, hostile)
		units, pack = []unit{u}, single
		c.tags = append(append(c.tags, tags...), seiParamTags(par)...)
		c.P |= 1 // the plain targets pass their harvested SPS
	case gAVCSPSSEI:
		tr := avcSPSForSEI(t)
		par := avcSEIParams(&tr.S)
		units = []unit{func(h *nalgen.Hostile) []byte { n, _ := nalgen.SerializeAVCSPSH(&tr, h); return n }}
		c.tags = append(c.tags, seiParamTags(par)...)
		for i, n := 0, rapid.IntRange(1, 2).Draw(t, "sei-units"); i < n; i++ {
			u, tags := genSEIUnit(t, par, hostile)
			units = append(units, u)
			c.tags = append(c.tags, tags...)
		}
		pack = lengthPrefixed
		c.P &^= 2 // parse the whole VUI (the HRD lengths are behind the aspect ratio)
	case gHEVCSPSSEI:
		tr := hevcSPSForSEI(t)
		par := hevcSEIParams(&tr.SPS)
		units = []unit{func(h *nalgen.Hostile) []byte { n, _ := nalgen.HEVCWriteSPSH(tr, h); return n }}
		c.tags = append(c.tags, seiParamTags(par)...)
		for i, n := 0, rapid.IntRange(1, 2).Draw(t, "sei-units"); i < n; i++ {
			u, tags := genSEIUnit(t, par, hostile)
			units = append(units, u)
			c.tags = append(c.tags, tags...)
		}
		pack = lengthPrefixed
	}
	nalus := serialiseUnits(t, units, hostile)
	c.Data = pack(nalus)
	c.Origin = "grammar"
	if hostile {
		c.Origin = "grammar-hostile"
	}
	if esgen.HEVCPct(t, 25, "mutate-on-top") {
		c.Data = mutate(t, c.Data)
	} else {
		c.pure = !hostile
	}
	if c.Data == nil {
		c.Data = []byte{}
	}
}
