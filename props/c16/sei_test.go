// C16, SEI NAL units for the grammar origins. The parameter-set generators of verif/internal/esgen emit no SEI; the
// SEI decoders (pic_timing for both codecs, time_code, the user-data messages ...) take their field widths from the
// SPS of the same stream, so the harvested SEI seeds (whose SPS is a fixed harvested one) reach few of their
// branches. Here an sei_rbsp() is written by the harness' own bit writer (ISO/IEC 14496-10 7.3.2.3 / D.1, ISO/IEC
// 23008-2 7.3.5 / D.2; the payload writers follow props/c17's reference writers) for the VUI/HRD parameters of the
// SPS TREE of the same case, valid, or with hostile payload_type / payload_size codings and payloads shorter than
// their fixed headers, plus the nalgen.Hostile hook (truncation, bit flip, replaced Exp-Golomb codeword).
//
// Targets avc.SPS+ParseSEINalu / hevc.SPS+ParseSEINalu: a length-prefixed sample SPS, SEI*; the SPS is parsed by the
// library inside the target and every SEI NAL unit is parsed WITH that SPS and WITHOUT one.
package c16

import (
	"github.com/Eyevinn/mp4ff/avc"
	"github.com/Eyevinn/mp4ff/hevc"
	"github.com/Eyevinn/mp4ff/sei"
	"pgregory.net/rapid"

	"verif/internal/esgen"
	"verif/internal/nalgen"
)

func init() {
	for name, fn := range seiTargets {
		targets[name] = fn
	}
}

var seiTargets = map[string]func(d []byte, p int) bool{
	"avc.SPS+ParseSEINalu": func(d []byte, p int) bool {
		var sps *avc.SPS
		ok := false
		for _, n := range splitSample(d) {
			if len(n) == 0 {
				continue
			}
			switch avc.GetNaluType(n[0]) {
			case avc.NALU_SPS:
				if s, err := avc.ParseSPSNALUnit(n, p&2 == 0); err == nil && s != nil {
					sps = s
				}
			case avc.NALU_SEI:
				msgs, err := avc.ParseSEINalu(n, sps)
				useMsgs(msgs)
				ok = err == nil
				msgs, _ = avc.ParseSEINalu(n, nil)
				useMsgs(msgs)
			}
		}
		return ok
	},
	"hevc.SPS+ParseSEINalu": func(d []byte, p int) bool {
		var sps *hevc.SPS
		ok := false
		for _, n := range splitSample(d) {
			if len(n) < 2 {
				continue
			}
			switch hevc.GetNaluType(n[0]) {
			case hevc.NALU_SPS:
				if s, err := hevc.ParseSPSNALUnit(n); err == nil && s != nil {
					sps = s
				}
			case hevc.NALU_SEI_PREFIX, hevc.NALU_SEI_SUFFIX:
				msgs, err := hevc.ParseSEINalu(n, sps)
				useMsgs(msgs)
				ok = err == nil
				msgs, _ = hevc.ParseSEINalu(n, nil)
				useMsgs(msgs)
			}
		}
		return ok
	},
}

// seiSeeds: natural seeds for the two targets (a harvested SPS followed by a harvested SEI NAL unit).
func seiSeeds(sps, seis [][]byte) [][]byte {
	var out [][]byte
	if len(sps) == 0 {
		return nil
	}
	for i, s := range seis {
		if i >= 20 {
			break
		}
		out = append(out, lengthPrefixed([][]byte{sps[i%len(sps)], s}))
	}
	return out
}

// seiParams: what the SPS of the case says about the SEI syntax (taken from the TREE / the struct the generator
// holds, by the standards' rules; nothing is parsed).
type seiParams struct {
	hevcMode bool
	// AVC (E.1.1 / D.1.3): CpbDpbDelaysPresentFlag, the u(v) lengths of the HRD, pic_struct_present_flag
	hrd                         bool
	cpbLenM1, dpbLenM1, timeOff int
	picStruct                   bool
	// HEVC (D.2.3)
	pt sei.HEVCPicTimingParams
}

func avcSEIParams(s *avc.SPS) seiParams {
	p := seiParams{}
	if s == nil || s.VUI == nil {
		return p
	}
	h := s.VUI.VclHrdParameters
	if h == nil {
		h = s.VUI.NalHrdParameters
	}
	if h != nil {
		p.hrd, p.cpbLenM1, p.dpbLenM1, p.timeOff = true, int(h.CpbRemovalDelayLengthMinus1)&31, int(h.DpbOutputDelayLengthMinus1)&31, int(h.TimeOffsetLength)&31
	}
	p.picStruct = s.VUI.PicStructPresentFlag
	return p
}

func hevcSEIParams(s *hevc.SPS) seiParams {
	p := seiParams{hevcMode: true}
	if s == nil || s.VUI == nil {
		return p
	}
	p.pt.FrameFieldInfoPresentFlag = s.VUI.FrameFieldInfoPresentFlag
	if h := s.VUI.HrdParameters; h != nil {
		p.pt.CpbDpbDelaysPresentFlag = h.NalHrdParametersPresentFlag || h.VclHrdParametersPresentFlag
		p.pt.SubPicHrdParamsPresentFlag = h.SubPicHrdParamsPresentFlag
		p.pt.SubPicCpbParamsInPicTimingSeiFlag = h.SubPicCpbParamsInPicTimingSeiFlag
		p.pt.AuCbpRemovalDelayLengthMinus1 = h.AuCpbRemovalDelayLengthMinus1 & 31
		p.pt.DpbOutputDelayLengthMinus1 = h.DpbOutputDelayLengthMinus1 & 31
		p.pt.DpbOutputDelayDuLengthMinus1 = h.DpbOutputDelayDuLengthMinus1 & 31
		p.pt.DuCpbRemovalDelayIncrementLengthMinus1 = h.DuCpbRemovalDelayIncrementLengthMinus1 & 31
	}
	return p
}

// seiMsg is one sei_message(): the payload is either bits written by write (Exp-Golomb codewords go through the
// hostile hook) or the bytes raw; codedType / codedSize are what the ff-run coded payloadType / payloadSize say.
type seiMsg struct {
	name      string
	hz        []string // hostile codings applied (evidence)
	codedType uint64
	codedSize int // -1: the actual size
	write     func(w *nalgen.BitWriter)
	raw       []byte
}

func bitsOf(t *rapid.T, n int, label string) uint64 { return esgen.HEVCBits(t, n, label) }

// clock_timestamp of H.264 D.1.3 (offLen: time_offset_length of the HRD) / of H.265 D.2.27 (hevcMode: n_frames u(9),
// no ct_type, own time_offset_length)
func genClock(t *rapid.T, hevcMode bool, offLen int) func(w *nalgen.BitWriter) {
	present := rapid.IntRange(0, 3).Draw(t, "clock_timestamp_flag") > 0
	ct := bitsOf(t, 2, "ct_type")
	ufb := rapid.Bool().Draw(t, "units_field_based_flag")
	counting := bitsOf(t, 5, "counting_type")
	full := rapid.Bool().Draw(t, "full_timestamp_flag")
	disc, dropped := rapid.Bool().Draw(t, "discontinuity_flag"), rapid.Bool().Draw(t, "cnt_dropped_flag")
	nframes := bitsOf(t, 9, "n_frames")
	sf, mf, hf := rapid.Bool().Draw(t, "seconds_flag"), rapid.Bool().Draw(t, "minutes_flag"), rapid.Bool().Draw(t, "hours_flag")
	s, m, h := bitsOf(t, 6, "seconds"), bitsOf(t, 6, "minutes"), bitsOf(t, 5, "hours")
	if hevcMode {
		offLen = rapid.SampledFrom([]int{0, 0, 1, 5, 24, 31}).Draw(t, "time_offset_length")
	}
	off := bitsOf(t, 32, "time_offset_value")
	return func(w *nalgen.BitWriter) {
		w.Flag(present)
		if !present {
			return
		}
		if !hevcMode {
			w.U(ct, 2)
		}
		w.Flag(ufb)
		w.U(counting, 5)
		w.Flag(full)
		w.Flag(disc)
		w.Flag(dropped)
		if hevcMode {
			w.U(nframes, 9)
		} else {
			w.U(nframes, 8)
		}
		if full {
			w.U(s, 6)
			w.U(m, 6)
			w.U(h, 5)
		} else {
			w.Flag(sf)
			if sf {
				w.U(s, 6)
				w.Flag(mf)
				if mf {
					w.U(m, 6)
					w.Flag(hf)
					if hf {
						w.U(h, 5)
					}
				}
			}
		}
		if hevcMode {
			w.U(uint64(offLen), 5)
		}
		if offLen > 0 {
			w.U(off, offLen)
		}
	}
}

// H.264 D.1.3 pic_timing
func genAVCPicTiming(t *rapid.T, p seiParams) (func(w *nalgen.BitWriter), int) {
	cpb, dpb := bitsOf(t, p.cpbLenM1+1, "cpb_removal_delay"), bitsOf(t, p.dpbLenM1+1, "dpb_output_delay")
	ps := rapid.IntRange(0, 8).Draw(t, "pic_struct")
	n := []int{1, 1, 1, 2, 2, 3, 3, 2, 3}[ps] // NumClockTS, Table D-1
	var clocks []func(w *nalgen.BitWriter)
	for i := 0; i < n; i++ {
		clocks = append(clocks, genClock(t, false, p.timeOff))
	}
	return func(w *nalgen.BitWriter) {
		if p.hrd {
			w.U(cpb, p.cpbLenM1+1)
			w.U(dpb, p.dpbLenM1+1)
		}
		if p.picStruct {
			w.U(uint64(ps), 4)
			for _, c := range clocks {
				c(w)
			}
		}
	}, ps
}

// H.265 D.2.3 pic_timing
func genHEVCPicTiming(t *rapid.T, p seiParams) func(w *nalgen.BitWriter) {
	pr := p.pt
	ps, scan, dup := bitsOf(t, 4, "pic_struct"), bitsOf(t, 2, "source_scan_type"), rapid.Bool().Draw(t, "duplicate_flag")
	au, dpb := bitsOf(t, int(pr.AuCbpRemovalDelayLengthMinus1)+1, "au_cpb_removal_delay_minus1"), bitsOf(t, int(pr.DpbOutputDelayLengthMinus1)+1, "pic_dpb_output_delay")
	du := bitsOf(t, int(pr.DpbOutputDelayDuLengthMinus1)+1, "pic_dpb_output_du_delay")
	ndu := rapid.SampledFrom([]int{1, 1, 2, 3, 8, 40}).Draw(t, "num_decoding_units")
	common := rapid.Bool().Draw(t, "du_common_cpb_removal_delay_flag")
	il := int(pr.DuCpbRemovalDelayIncrementLengthMinus1) + 1
	commonInc := bitsOf(t, il, "du_common_cpb_removal_delay_increment_minus1")
	nalus, incs := make([]uint64, ndu), make([]uint64, ndu)
	for i := range nalus {
		nalus[i] = uint64(rapid.SampledFrom([]int{0, 0, 1, 7, 255, 65535}).Draw(t, "num_nalus_in_du_minus1"))
		incs[i] = bitsOf(t, il, "du_cpb_removal_delay_increment_minus1")
	}
	return func(w *nalgen.BitWriter) {
		if pr.FrameFieldInfoPresentFlag {
			w.U(ps, 4)
			w.U(scan, 2)
			w.Flag(dup)
		}
		if pr.CpbDpbDelaysPresentFlag {
			w.U(au, int(pr.AuCbpRemovalDelayLengthMinus1)+1)
			w.U(dpb, int(pr.DpbOutputDelayLengthMinus1)+1)
			if pr.SubPicHrdParamsPresentFlag {
				w.U(du, int(pr.DpbOutputDelayDuLengthMinus1)+1)
				if pr.SubPicCpbParamsInPicTimingSeiFlag {
					w.UE(uint64(ndu - 1))
					w.Flag(common)
					if common {
						w.U(commonInc, il)
					}
					for i := 0; i < ndu; i++ {
						w.UE(nalus[i])
						if !common && i < ndu-1 {
							w.U(incs[i], il)
						}
					}
				}
			}
		}
	}
}

// knownSEITypes: the payload types the sei package decodes, and some it only carries
var knownSEITypes = []uint64{0, 1, 4, 5, 6, 45, 129, 132, 136, 137, 144, 147, 200}

// genSEIMsg draws one message; hostile: the coded type / size may disagree with the payload.
func genSEIMsg(t *rapid.T, p seiParams, hostile bool) seiMsg {
	m := seiMsg{codedSize: -1}
	kinds := []string{"pic_timing", "pic_timing", "registered-cea608", "registered-other", "unregistered", "generic"}
	if p.hevcMode {
		kinds = append(kinds, "time_code", "time_code", "mastering_display", "content_light_level")
	}
	m.name = rapid.SampledFrom(kinds).Draw(t, "sei-message")
	if m.name == "pic_timing" && !p.hevcMode && !p.picStruct && !hostile {
		// sei.DecodePicTimingAvcSEIHRD documents that it assumes pic_struct_present_flag = 1 (it always reads the four
		// pic_struct bits), so a valid pic_timing without pic_struct is an error to it: kept out of the unmodified
		// inputs, whose acceptance rate measures the packaging (the hostile ones contain it).
		m.name = "generic"
	}
	switch m.name {
	case "pic_timing":
		m.codedType = 1
		if p.hevcMode {
			m.write = genHEVCPicTiming(t, p)
		} else {
			var ps int
			m.write, ps = genAVCPicTiming(t, p)
			if p.picStruct && ps == 7 {
				// By-catch (a value defect, C17's subject, no C16 failure): sei.DecodePicTimingAvcSEIHRD reads three
				// clock timestamps for pic_struct 7 (frame doubling), Table D-1 says NumClockTS = 2; it runs into the
				// end of the payload and returns EOF for such a valid message.
				m.hz = append(m.hz, "sei-avc-pic-struct-7")
			}
		}
	case "time_code":
		m.codedType = 136
		n := rapid.IntRange(0, 3).Draw(t, "num_clock_ts")
		var clocks []func(w *nalgen.BitWriter)
		for i := 0; i < n; i++ {
			clocks = append(clocks, genClock(t, true, 0))
		}
		m.write = func(w *nalgen.BitWriter) {
			w.U(uint64(n), 2)
			for _, c := range clocks {
				c(w)
			}
		}
	case "mastering_display":
		m.codedType, m.raw = 137, esgen.HEVCBytes(t, 24, "mastering_display_colour_volume")
	case "content_light_level":
		m.codedType, m.raw = 144, esgen.HEVCBytes(t, 4, "content_light_level_info")
	case "registered-cea608": // ATSC A/53 cc_data in user_data_registered_itu_t_t35
		m.codedType = 4
		cnt := rapid.IntRange(0, 31).Draw(t, "cc_count")
		have := cnt
		if hostile && rapid.Bool().Draw(t, "cc-short") {
			have = rapid.IntRange(0, cnt).Draw(t, "cc-triplets-present")
		}
		m.raw = []byte{0xb5, 0x00, 0x31, 'G', 'A', '9', '4', 0x03, 0xc0 | byte(cnt), 0xff}
		for i := 0; i < have; i++ {
			m.raw = append(m.raw, 0xf8|byte(rapid.IntRange(0, 7).Draw(t, "cc_valid+type")), rapid.Byte().Draw(t, "cc_data_1"), rapid.Byte().Draw(t, "cc_data_2"))
		}
		m.raw = append(m.raw, 0xff)
	case "registered-other":
		m.codedType = 4
		m.raw = append([]byte{0xb5, 0x00, byte(rapid.SampledFrom([]int{0x31, 0x3c, 0x3b}).Draw(t, "provider"))}, rapid.SliceOfN(rapid.Byte(), 5, 24).Draw(t, "t35-payload")...)
	case "unregistered":
		m.codedType = 5
		m.raw = append(esgen.HEVCBytes(t, 16, "uuid_iso_iec_11578"), rapid.SliceOfN(rapid.Byte(), 0, 20).Draw(t, "user_data_payload")...)
	default:
		m.codedType = rapid.SampledFrom([]uint64{0, 2, 3, 6, 45, 47, 128, 129, 132, 147, 200, 254, 255, 256, 300, 1000}).Draw(t, "payload_type")
		m.raw = rapid.SliceOfN(rapid.Byte(), 0, 24).Draw(t, "payload")
	}
	if !hostile {
		return m
	}
	// hostile codings (each with probability ~1/4; both may apply)
	if rapid.IntRange(0, 3).Draw(t, "hz-sei-type") == 0 {
		// the payload of one message under the type of another (the typed decoders meet foreign layouts and lengths)
		m.codedType = rapid.SampledFrom(append([]uint64{255, 256, 510, 70000}, knownSEITypes...)).Draw(t, "coded_payload_type")
		m.hz = append(m.hz, "sei-hz-foreign-type")
	}
	switch rapid.IntRange(0, 7).Draw(t, "hz-sei-size") {
	case 0: // the payload is cut short and payload_size says so: a typed payload shorter than its fixed header
		scratch := nalgen.NewBitWriter()
		m.render(scratch)
		full := scratch.Out()
		m.raw, m.write = full[:rapid.IntRange(0, len(full)).Draw(t, "payload-cut")], nil
		m.hz = append(m.hz, "sei-hz-payload-cut")
	case 1: // payload_size disagrees with the bytes that follow
		m.codedSize = rapid.SampledFrom([]int{0, 1, 2, 7, 8, 15, 16, 23, 24, 25, 254, 255, 256, 510, 1000, 70000}).Draw(t, "coded_payload_size")
		m.hz = append(m.hz, "sei-hz-coded-size")
	}
	return m
}

// render writes the payload and completes it to whole bytes (bit_equal_to_one, bit_equal_to_zero*) relative to
// where it started.
func (m *seiMsg) render(w *nalgen.BitWriter) {
	if m.write == nil {
		w.Bytes(m.raw)
		return
	}
	start := w.NrBits()
	m.write(w)
	if (w.NrBits()-start)%8 != 0 {
		w.U(1, 1)
		for (w.NrBits()-start)%8 != 0 {
			w.U(0, 1)
		}
	}
}

func ffRun(w *nalgen.BitWriter, v uint64) {
	for ; v >= 255; v -= 255 {
		w.U(0xff, 8)
	}
	w.U(v, 8)
}

// genSEIUnit draws an SEI NAL unit (1..3 messages) for the given parameters and returns its serialiser and the
// evidence labels of what it contains.
func genSEIUnit(t *rapid.T, p seiParams, hostile bool) (unit, []string) {
	n := rapid.IntRange(1, 3).Draw(t, "sei-messages")
	msgs := make([]seiMsg, n)
	var tags []string
	for i := range msgs {
		msgs[i] = genSEIMsg(t, p, hostile)
		tags = append(append(tags, "sei-msg-"+msgs[i].name), msgs[i].hz...)
	}
	hdr := []byte{0x06}
	if p.hevcMode {
		hdr = nalgen.HEVCNalHeader(byte(rapid.SampledFrom([]int{39, 39, 40}).Draw(t, "sei-nal-type")), 0, 1)
	}
	trailing := true
	var extra []byte
	if hostile {
		switch rapid.IntRange(0, 7).Draw(t, "hz-sei-trailing") {
		case 0:
			trailing = false // (the library reports this with ErrRbspTrailingBitsMissing and still decodes)
			tags = append(tags, "sei-no-trailing-bits")
		case 1:
			extra = rapid.SliceOfN(rapid.SampledFrom([]byte{0, 0, 0x80, 0xff, 1}), 1, 6).Draw(t, "after-trailing-bits")
			tags = append(tags, "sei-bytes-after-trailing-bits")
		}
	}
	u := func(h *nalgen.Hostile) []byte {
		w := nalgen.NewHostileBitWriter(h)
		w.Bytes(hdr)
		for i := range msgs {
			m := &msgs[i]
			size := m.codedSize
			if size < 0 {
				scratch := nalgen.NewBitWriter()
				m.render(scratch)
				size = len(scratch.Out())
			}
			ffRun(w, m.codedType)
			ffRun(w, uint64(size))
			m.render(w)
		}
		if trailing {
			w.TrailingBits()
		}
		w.Bytes(extra)
		raw := w.Out()
		if len(raw) <= len(hdr) {
			return raw
		}
		return append(append([]byte{}, raw[:len(hdr)]...), nalgen.Escape(raw[len(hdr):])...)
	}
	return u, tags
}

// avcSPSForSEI / hevcSPSForSEI draw an SPS tree whose VUI (HRD lengths, pic_struct_present_flag / frame_field_info)
// decides the pic_timing syntax: a VUI is forced in 70 % of the trees without one, HRD parameters in 60 % of those
// without.
func avcSPSForSEI(t *rapid.T) nalgen.AVCSPSTree {
	id := uint32(rapid.SampledFrom([]int{0, 0, 1, 31}).Draw(t, "seq_parameter_set_id"))
	tr := esgen.GenAVCSPS(t, esgen.AVCSPSOpts{ID: id, Light: true})
	if tr.S.VUI == nil && esgen.HEVCPct(t, 70, "force-vui") {
		esgen.GenAVCVUI(t, &tr, true)
	}
	if v := tr.S.VUI; v != nil && v.NalHrdParameters == nil && v.VclHrdParameters == nil && esgen.HEVCPct(t, 60, "force-hrd") {
		if rapid.Bool().Draw(t, "force-hrd-vcl") {
			v.VclHrdParametersPresentFlag, v.VclHrdParameters = true, esgen.GenAVCHRD(t, "vclhrd")
		} else {
			v.NalHrdParametersPresentFlag, v.NalHrdParameters = true, esgen.GenAVCHRD(t, "nalhrd")
		}
		v.LowDelayHrdFlag = rapid.Bool().Draw(t, "low_delay_hrd_flag")
	}
	return tr
}

func hevcSPSForSEI(t *rapid.T) *nalgen.HEVCSPSTree {
	tr := esgen.HEVCGenSPS(t, esgen.HEVCSPSOpts{ID: -1, Lean: true, Log2Poc: -1, SAO: -1, MaxDim: 8192}, "")
	if !tr.SPS.VUIParametersPresentFlag && esgen.HEVCPct(t, 70, "force-vui") {
		tr.SPS.VUIParametersPresentFlag = true
		esgen.HEVCGenVUI(t, tr, "v")
	}
	if v := tr.SPS.VUI; tr.SPS.VUIParametersPresentFlag && v != nil && v.HrdParameters == nil && esgen.HEVCPct(t, 60, "force-hrd") {
		if !v.TimingInfoPresentFlag {
			v.TimingInfoPresentFlag, v.NumUnitsInTick, v.TimeScale = true, 1, 50
		}
		v.HrdParametersPresentFlag, v.HrdParameters = true, esgen.HEVCGenHRD(t, int(tr.SPS.MaxSubLayersMinus1), "h")
	}
	return tr
}

func seiParamTags(p seiParams) []string {
	var tags []string
	if p.hevcMode {
		if p.pt.FrameFieldInfoPresentFlag {
			tags = append(tags, "sei-sps-frame-field-info")
		}
		if p.pt.CpbDpbDelaysPresentFlag {
			tags = append(tags, "sei-sps-cpb-dpb-delays")
		}
		if p.pt.CpbDpbDelaysPresentFlag && p.pt.SubPicHrdParamsPresentFlag && p.pt.SubPicCpbParamsInPicTimingSeiFlag {
			tags = append(tags, "sei-sps-sub-pic-params-in-pic-timing")
		}
		return tags
	}
	if p.hrd {
		tags = append(tags, "sei-sps-cpb-dpb-delays")
	}
	if p.picStruct {
		tags = append(tags, "sei-sps-pic-struct")
	}
	return tags
}
