package c02

// Native coverage-guided fuzzing (thorough tier only, leg "fuzz"): Go's fuzzing engine mutates (level, decoder path,
// bytes) under coverage feedback from the library; every input goes through the size oracle: checkSizes (Size() == bytes written == size fields at every level, both encoders, Info in between).
// The corpus starts from the stored replay files and from single boxes harvested from the small seed files. A failing
// input is written as an ordinary replay file, which the driver replays afterwards with the uninstrumented binary.

import (
	"encoding/json"
	"os"
	"path/filepath"
	"testing"

	"verif/internal/boxprop"
	"verif/internal/boxwalk"
	"verif/internal/harness"
	"verif/internal/seeds"
)

func FuzzSizes(f *testing.F) {
	harness.LimitFuzzWorker(4 << 30)
	repo := harness.E.RepoDir
	files, _ := filepath.Glob(filepath.Join(harness.E.VerifDir, "replay", "C02", "*.json"))
	for _, p := range files {
		b, err := os.ReadFile(p)
		if err != nil {
			continue
		}
		var rf harness.ReplayFile
		var c boxprop.Case
		if json.Unmarshal(b, &rf) != nil || json.Unmarshal(rf.Case, &c) != nil {
			continue
		}
		if d := c.Bytes(); len(d) > 0 && len(d) <= 16<<10 {
			f.Add(c.Level == "file", c.Path == "sr", d)
		}
	}
	seen := map[string]int{}
	for _, name := range seeds.Names(repo, 16<<10) {
		data := seeds.Get(repo, name)
		tree, _ := boxwalk.WalkAll(data)
		for _, b := range boxwalk.Flatten(tree) {
			if b.Size > 2048 || seen[b.Type] >= 3 {
				continue
			}
			seen[b.Type]++
			f.Add(false, seen[b.Type]%2 == 0, append([]byte{}, data[b.Start:b.End()]...))
		}
	}
	f.Fuzz(func(t *testing.T, file, sr bool, data []byte) {
		if len(data) > 64<<10 {
			return
		}
		c := boxprop.Case{Data: data, Box: -1, Level: "box", Path: "reader", Origin: "fuzz"}
		if file {
			c.Level = "file"
		}
		if sr {
			c.Path = "sr"
		}
		fail := harness.Guarded(func() *harness.Fail { return checkSizes(c) })
		harness.FuzzReport(t, "sizes", c, fail)
	})
}
