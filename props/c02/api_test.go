// C02 (and C03 clause A) for structures BUILT THROUGH THE PUBLIC API, under generated histories of
// Size / Info / Encode / EncodeSW calls.
//
// A case is a recipe (plain JSON data, package internal/apigen): which constructors and Add... calls to make with which
// arguments, whether trun optimisation is switched on, and a history of 1..8 operations. apigen.Build turns the recipe into a library
// structure (init segment, fragment, media segment, fragmented or progressive file, or a single box); the oracle
// runs the history on it and checks after every step what the property text says: bytes written == Size() (after,
// and before unless this is the first encode under OptimizeTrun), EncodeSW into exactly Size() bytes neither
// overflows nor leaves space, every encoding equals the first one (Encode vs EncodeSW: C03 clause A; Info/Size in
// between change nothing), Size() is stable over Size/Info calls, and finally the independent box walker goes
// through the output in lock-step with the library tree (size field == box length == node.Size(), container ==
// header + children).
package c02

import (
	"bytes"
	"encoding/json"
	"errors"
	"fmt"
	"os"
	"regexp"
	"sort"
	"strings"
	"testing"

	"pgregory.net/rapid"

	"verif/internal/apigen"
	"verif/internal/boxprop"
	"verif/internal/boxwalk"
	"verif/internal/harness"
)

func init() {
	harness.RegisterReplay("api", harness.Replayer(checkAPI))
	// development aid: VERIF_C02_NOAVOID=all or a comma-separated list of switch names
	if v := os.Getenv("VERIF_C02_NOAVOID"); v == "all" {
		apigen.AvoidKnown = map[string]bool{}
	} else if v != "" {
		for _, name := range strings.Split(v, ",") {
			if _, ok := apigen.AvoidKnown[name]; !ok {
				fmt.Fprintf(os.Stderr, "VERIF_C02_NOAVOID: unknown switch %q\n", name)
				os.Exit(2)
			}
			delete(apigen.AvoidKnown, name)
		}
	}
}

func badCase(format string, a ...interface{}) *harness.Fail {
	return harness.Failf("harness|c02api|bad-case", format, a...)
}

// ---------------------------------------------------------------------------------------------
// the oracle

var digits = regexp.MustCompile(`[0-9]+`)

// the recipes hold a few KB of payload at most
const maxPlausibleSize = 4 << 20

func countBoxes(bs []*boxwalk.Box) int { return len(boxwalk.Flatten(bs)) }

func checkAPI(c apigen.Case) *harness.Fail { return evalAPI(&c, &apigen.Stats{}) }

func evalAPI(c *apigen.Case, st *apigen.Stats) *harness.Fail {
	if len(c.Hist) == 0 || len(c.Hist) > 8 {
		return badCase("history of %d operations", len(c.Hist))
	}
	if what, ue, fe, us, fs, uerr, ferr, ok := apigen.ReuseAfterUse(c); ok {
		st.Class("box-used-then-public-fields-replaced")
		switch {
		case (uerr == nil) != (ferr == nil):
			return harness.Failf("C02|"+what+"|a box that was used before encodes differently after the same change of its public fields", "used object: %v, unused object: %v", uerr, ferr)
		case us != fs:
			return harness.Failf("C02|"+what+"|Size() of a box that was used before differs after the same change of its public fields", "used object %d, unused object %d (encoded: %d / %d bytes)", us, fs, len(ue), len(fe))
		case uerr == nil && !bytes.Equal(ue, fe):
			return harness.Failf("C02|"+what+"|a box that was used before encodes differently after the same change of its public fields", "used object %x, unused object %x", ue, fe)
		}
	}
	t, err := apigen.Build(c, st)
	if err != nil {
		var rj apigen.RejectedError
		if errors.As(err, &rj) {
			st.Rejected = err.Error()
			st.Class("build-rejected")
			st.Class("build-rejected:" + digits.ReplaceAllString(st.Rejected, "N"))
			return nil
		}
		return badCase("%v", err)
	}
	optimise := c.Opt && t.SetOpt != nil
	if optimise {
		t.SetOpt()
	}
	w := t.What
	var first []byte
	firstVia := ""
	nOK, nErr := 0, 0
	var firstErr error
	firstErrVia := ""
	for i, op := range c.Hist {
		switch op {
		case "size":
			s1, s2 := t.Size(), t.Size()
			if s1 != s2 {
				return harness.Failf("C02|"+w+"|Size() changes between two calls", "step %d: %d then %d", i, s1, s2)
			}
			continue
		case "info", "info-all", "info-trun":
			levels := map[string]string{"info": "", "info-all": "all:1", "info-trun": "trun:1,senc:1"}[op]
			before := t.Size()
			var b bytes.Buffer
			if err := t.Info(&b, levels); err != nil {
				st.Class("info-error")
			}
			if after := t.Size(); after != before {
				return harness.Failf("C02|"+w+"|Size() changed by Info", "step %d (%q): %d then %d", i, levels, before, after)
			}
			continue
		case "enc", "sw", "swbig":
		default:
			return badCase("unknown operation %q", op)
		}
		firstOpt := optimise && nOK == 0
		before := t.Size()
		if before > maxPlausibleSize {
			// nothing the generator builds comes near this; a buffer of that size must not be allocated
			return harness.Failf("C02|"+w+"|Size() far beyond anything the structure can encode to", "step %d: Size() %d", i, before)
		}
		var out []byte
		var err error
		capacity := -1
		switch op {
		case "enc":
			var buf bytes.Buffer
			err = t.Enc(&buf)
			out = buf.Bytes()
		case "sw", "swbig":
			capacity = int(before)
			if op == "swbig" {
				capacity += 17
			}
			sw := boxprop.DirtySW(capacity) // not zeroed: an encoder that skips bytes shows up against the io.Writer path
			err = t.EncSW(sw)
			if err == nil {
				err = sw.AccError()
			}
			out = append([]byte{}, sw.Bytes()...)
		}
		after := t.Size()
		if err != nil {
			if boxprop.IsOverflow(err) {
				// the encoders allocate exactly Size() bytes (or were given them): an overflow means Size() is too small
				if op == "enc" {
					return harness.Failf("C02|"+w+"|Encode overflows a buffer of Size() bytes", "step %d: %v (Size() before %d, after %d)", i, err, before, after)
				}
				return harness.Failf("C02|"+w+"|EncodeSW overflows a buffer of at least Size() bytes", "step %d (%s): %v (capacity %d, Size() after %d)", i, op, err, capacity, after)
			}
			if nOK > 0 {
				if (op == "enc") != (firstVia == "enc") {
					return harness.Failf("C03|"+w+"|one encoder fails where the other succeeds", "step %d (%s): %v; first success through %s", i, op, err, firstVia)
				}
				return harness.Failf("C02|"+w+"|encoding fails after an earlier encoding of the same structure succeeded", "step %d (%s): %v", i, op, err)
			}
			nErr++
			if firstErr == nil {
				firstErr, firstErrVia = err, op
			}
			continue
		}
		if nErr > 0 {
			if (op == "enc") != (firstErrVia == "enc") {
				return harness.Failf("C03|"+w+"|one encoder fails where the other succeeds", "step %d (%s) succeeds; %s failed earlier: %v", i, op, firstErrVia, firstErr)
			}
			return harness.Failf("C02|"+w+"|encoding succeeds after an earlier encoding of the same structure failed", "step %d (%s) succeeds; earlier: %v", i, op, firstErr)
		}
		{
			if uint64(len(out)) != after {
				return harness.Failf("C02|"+w+"|bytes written differ from Size()", "step %d (%s): written %d, Size() afterwards %d (before %d)", i, op, len(out), after, before)
			}
			if !firstOpt && before != after {
				return harness.Failf("C02|"+w+"|Size() changed by encoding", "step %d (%s): before %d, after %d, optimise %v", i, op, before, after, optimise)
			}
			if firstOpt && after > before {
				return harness.Failf("C02|"+w+"|Size() grew under trun optimisation", "step %d (%s): before %d, after %d", i, op, before, after)
			}
			if op == "sw" && !firstOpt && len(out) != capacity {
				return harness.Failf("C02|"+w+"|EncodeSW leaves space in a buffer of exactly Size() bytes", "step %d: wrote %d of %d", i, len(out), capacity)
			}
		}
		if first == nil {
			first, firstVia = out, op
			if first == nil {
				first = []byte{}
			}
		} else if !bytes.Equal(out, first) {
			key := "C02|" + w + "|repeated encoding differs from the first one"
			if (op == "enc") != (firstVia == "enc") {
				key = "C03|" + w + "|Encode and EncodeSW bytes differ"
			}
			return harness.Failf(key, "step %d (%s) vs first (%s): %d vs %d bytes, first difference at %d", i, op, firstVia, len(out), len(first), firstDiff(out, first))
		}
		nOK++
	}
	if nOK == 0 {
		if nErr > 0 {
			st.Class("encode-refused")
			st.Class("encode-refused:" + digits.ReplaceAllString(firstErr.Error(), "N"))
			st.Rejected = firstErr.Error()
		}
		return nil
	}
	st.Class("encoded")
	tree, werr := boxwalk.WalkAll(first)
	st.NBoxes = countBoxes(tree)
	if werr != nil {
		return harness.Failf("C02|"+w+"|size fields inconsistent (independent walker)", "%v", werr)
	}
	if diff := boxprop.SizeWalk(first, t.Top()); diff != nil {
		return harness.Failf(diff.Key, "%s: %s", w, diff.Msg)
	}
	return nil
}

// ---------------------------------------------------------------------------------------------
// the property

func TestAPI(t *testing.T) {
	harness.RunRapid(t, "api", func(rt *rapid.T) {
		c := apigen.Gen(rt)
		raw, _ := json.Marshal(c)
		var st apigen.Stats
		f := harness.Guarded(func() *harness.Fail { return evalAPI(&c, &st) })
		encodes, infoBetween, hcl := apigen.HistShape(&c)
		cl := append(apigen.Classify(&c), hcl...)
		dyn := make([]string, 0, len(st.Classes))
		for k := range st.Classes {
			dyn = append(dyn, k)
		}
		sort.Strings(dyn)
		cl = append(cl, dyn...)
		nt := st.Classes["encoded"] && st.NBoxes >= 3 && (encodes >= 2 || infoBetween)
		harness.Rec.Case(nt, raw, cl...)
		if nt && harness.Rec.WantSample() && len(raw) < 3000 {
			harness.Rec.Sample(map[string]interface{}{"kind": "api", "case": c})
		}
		names := make([]string, 0, len(st.Skipped))
		for name := range st.Skipped {
			names = append(names, name)
		}
		sort.Strings(names)
		for _, name := range names {
			harness.Rec.Exclude(name)
		}
		// one case in 16: the JSON form of the case gives the same verdict (replay files reproduce what was seen)
		if harness.Hash(raw)%16 == 0 {
			f2 := harness.Guarded(func() *harness.Fail { return harness.Replayer(checkAPI)(raw) })
			if (f == nil) != (f2 == nil) || (f != nil && f.Key != f2.Key) {
				rt.Fatalf("harness|replay-inconsistent: direct verdict %v, verdict on the JSON round trip %v", f, f2)
			}
		}
		harness.Report(rt, "api", c, f)
	})
}
