// C02 — Size() equals bytes written equals the header size field, at every level.
package c02

import (
	"bytes"
	"encoding/json"
	"testing"

	"github.com/Eyevinn/mp4ff/bits"
	"github.com/Eyevinn/mp4ff/mp4"
	"pgregory.net/rapid"

	"verif/internal/boxprop"
	"verif/internal/harness"
)

func TestMain(m *testing.M) { harness.Main(m) }

func init() { harness.RegisterReplay("sizes", harness.Replayer(checkSizes)) }

func TestReplay(t *testing.T) { harness.ReplayPath(t) }

type outcome struct {
	accepted, encoded bool
	nodes             int
	segments          int
	wholeFile         bool // File.Size/Encode/EncodeSW judged on the whole file in box-tree / progressive mode
}

var last outcome

// overflowFail: an encoder that runs out of a buffer of Size() bytes. Every leaf encoder allocates
// FixedSliceWriter(Size()) itself, so a Size() that is too small shows as this error from Encode AND EncodeSW; it is a
// violation of "Size() == bytes written", not a refusal.
func overflowFail(what, via string, err error, size uint64) *harness.Fail {
	return harness.Failf("C02|"+what+"|Encode/EncodeSW overflows a buffer of Size() bytes", "%s: %v (Size() %d)", via, err, size)
}

// oversized: third pass, EncodeSW into a buffer that is 17 bytes larger than Size(). An encoder that writes through
// the caller's slice writer (containers, mdat, files) and is handed exactly Size() bytes cannot show an overestimate
// other than as "wrote fewer bytes"; with room to spare an underestimate shows as an offset beyond Size() instead of an
// error that could be mistaken for a refusal. The bytes must be those of the first encoding.
func oversized(what string, size func() uint64, encSW func(bits.SliceWriter) error, first []byte) *harness.Fail {
	want := size()
	sw := boxprop.DirtySW(int(want) + 17)
	err := encSW(sw)
	if err == nil {
		err = sw.AccError()
	}
	if err != nil {
		if boxprop.IsOverflow(err) {
			return overflowFail(what, "EncodeSW into Size()+17 bytes", err, want)
		}
		return harness.Failf("C02|"+what+"|EncodeSW into a larger buffer fails after a successful encoding", "%v (Size %d)", err, want)
	}
	if uint64(sw.Offset()) != want {
		return harness.Failf("C02|"+what+"|EncodeSW into a larger buffer stops at an offset other than Size()", "offset %d, Size() %d", sw.Offset(), want)
	}
	if !bytes.Equal(sw.Bytes(), first) {
		return harness.Failf("C02|"+what+"|EncodeSW into a larger buffer gives different bytes", "%d vs %d bytes, first difference at %d", sw.Len(), len(first), firstDiff(sw.Bytes(), first))
	}
	return nil
}

// encodeBoth encodes x (anything with Size/Encode/EncodeSW) and checks Size()==bytes written for both
// encoders, that EncodeSW into a buffer of exactly Size() bytes does not overflow and fills it, that
// both outputs are identical, and that EncodeSW into a larger buffer stops at Size().
func encodeBoth(what string, size func() uint64, enc func(*bytes.Buffer) error, encSW func(bits.SliceWriter) error, optimise, swFirst bool) ([]byte, *harness.Fail) {
	before := size()
	if swFirst {
		// the slice-writer path sees the structure first (trun optimisation happens inside it); the buffer has
		// the size announced beforehand, which is never smaller than what is needed
		sw := boxprop.DirtySW(int(before))
		errS := encSW(sw)
		if errS == nil {
			errS = sw.AccError()
		}
		after := size()
		if boxprop.IsOverflow(errS) {
			return nil, overflowFail(what, "EncodeSW (first encoding)", errS, before)
		}
		if errS != nil {
			return nil, nil // refused: no claim (same rule as for Encode below)
		}
		if uint64(sw.Len()) != after {
			return nil, harness.Failf("C02|"+what+"|bytes written by EncodeSW differ from Size()", "written %d, Size() %d", sw.Len(), after)
		}
		if !optimise && before != after {
			return nil, harness.Failf("C02|"+what+"|Size() changed by EncodeSW without optimisation", "before %d after %d", before, after)
		}
		first := append([]byte{}, sw.Bytes()...)
		var buf bytes.Buffer
		if err := enc(&buf); err != nil {
			return nil, harness.Failf("C02|"+what+"|Encode fails after a successful EncodeSW", "%v", err)
		}
		if !bytes.Equal(buf.Bytes(), first) {
			return nil, harness.Failf("C02|"+what+"|Encode after EncodeSW gives different bytes", "%d vs %d bytes, first difference at %d", buf.Len(), len(first), firstDiff(buf.Bytes(), first))
		}
		sw2 := boxprop.DirtySW(int(size()))
		if err := encSW(sw2); err != nil || sw2.AccError() != nil || !bytes.Equal(sw2.Bytes(), first) {
			return nil, harness.Failf("C02|"+what+"|second EncodeSW differs from the first", "err %v/%v, %d vs %d bytes, first difference at %d", err, sw2.AccError(), sw2.Len(), len(first), firstDiff(sw2.Bytes(), first))
		}
		if f := oversized(what, size, encSW, first); f != nil {
			return nil, f
		}
		return first, nil
	}
	var buf bytes.Buffer
	errW := enc(&buf)
	after := size()
	if boxprop.IsOverflow(errW) {
		return nil, overflowFail(what, "Encode (first encoding)", errW, before)
	}
	if errW != nil {
		return nil, nil // encoder refuses: no claim here (C01 judges encode errors after a successful decode)
	}
	if uint64(buf.Len()) != after {
		return nil, harness.Failf("C02|"+what+"|bytes written by Encode differ from Size()", "written %d, Size() %d", buf.Len(), after)
	}
	if !optimise && before != after {
		return nil, harness.Failf("C02|"+what+"|Size() changed by Encode without optimisation", "before %d after %d", before, after)
	}
	sw := boxprop.DirtySW(int(size()))
	errS := encSW(sw)
	if errS == nil {
		errS = sw.AccError()
	}
	if errS != nil {
		return nil, harness.Failf("C02|"+what+"|EncodeSW into a buffer of exactly Size() bytes fails", "%v (Size %d)", errS, size())
	}
	if sw.Len() != sw.Capacity() {
		return nil, harness.Failf("C02|"+what+"|EncodeSW wrote fewer bytes than Size()", "wrote %d of %d", sw.Len(), sw.Capacity())
	}
	if !bytes.Equal(sw.Bytes(), buf.Bytes()) {
		return nil, harness.Failf("C02|"+what+"|Encode and EncodeSW bytes differ", "")
	}
	if f := oversized(what, size, encSW, buf.Bytes()); f != nil {
		return nil, f
	}
	return buf.Bytes(), nil
}

func firstDiff(a, b []byte) int {
	for i := 0; i < len(a) && i < len(b); i++ {
		if a[i] != b[i] {
			return i
		}
	}
	if len(a) < len(b) {
		return len(a)
	}
	return len(b)
}

func checkSizes(c boxprop.Case) *harness.Fail {
	last = outcome{}
	in := c.Bytes()
	if len(in) == 0 {
		return nil
	}
	d, err := boxprop.Decode(in, c.Level, c.Path)
	if err != nil || d.Nil() {
		return nil
	}
	last.accepted = true
	// Info: level "" in the case stands for "all:1" (what every case used before the field existed), "none" for the
	// empty specificBoxLevels argument
	level := c.InfoLevel
	switch level {
	case "":
		level = "all:1"
	case "none":
		level = ""
	}
	infoText := func() string {
		var b bytes.Buffer
		if d.File != nil {
			_ = d.File.Info(&b, level, "", "  ")
		} else {
			_ = d.Box.Info(&b, level, "", "  ")
		}
		return b.String()
	}
	infoFirst := c.Info && c.InfoFirst
	if infoFirst {
		_ = infoText() // a structure that Info has looked at encodes like one that it has not (compared below)
	}
	// ---- box tree (every top-level box of the decoded input)
	var outTree []byte
	for i, b := range d.TopBoxes() {
		b := b
		out, f := encodeBoth(b.Type(), b.Size, func(w *bytes.Buffer) error { return b.Encode(w) }, b.EncodeSW, false, c.SWFirst)
		if f != nil {
			return f
		}
		if out == nil {
			return nil
		}
		outTree = append(outTree, out...)
		// encoding twice, and with Info in between, gives identical bytes. The Info call sits after the first encoding of
		// the first box only (the file-level Info walks every box) unless the case says otherwise
		var info1 string
		info := c.Info && (i == 0 || !c.InfoFirst)
		if info {
			info1 = infoText()
		}
		var again bytes.Buffer
		if err := b.Encode(&again); err != nil || !bytes.Equal(again.Bytes(), out) {
			return harness.Failf("C02|"+b.Type()+"|second Encode differs from the first", "err %v, %d vs %d bytes", err, again.Len(), len(out))
		}
		if info && infoText() != info1 {
			return harness.Failf("C02|"+b.Type()+"|Info output changes between calls", "")
		}
	}
	last.encoded = true
	if diff := boxprop.SizeWalk(outTree, d.TopBoxes()); diff != nil {
		return harness.Failf(diff.Key, "%s", diff.Msg)
	}
	if infoFirst {
		// the same input, decoded afresh and encoded without any Info call
		if d0, err := boxprop.Decode(in, c.Level, c.Path); err == nil && !d0.Nil() {
			var plain bytes.Buffer
			ok := true
			for _, b := range d0.TopBoxes() {
				if err := b.Encode(&plain); err != nil {
					ok = false
					break
				}
			}
			if ok && !bytes.Equal(plain.Bytes(), outTree) {
				return harness.Failf("C02|"+d.TopBoxes()[0].Type()+"|Info before the first encoding changes the bytes written", "level %q: %d vs %d bytes, first difference at %d", level, len(outTree), plain.Len(), firstDiff(outTree, plain.Bytes()))
			}
		}
	}
	// ---- the whole file through File.Size / File.Encode / File.EncodeSW, box by box (progressive file, or box-tree
	// mode of a fragmented one; File.Size follows the encode mode): Size() == bytes written, the bytes are those of the
	// boxes encoded one by one, and the lock-step walk holds on that output as well
	if f := d.File; f != nil && len(d.TopBoxes()) > 0 { // a file without boxes (e.g. a truncated first header) writes nothing
		f.FragEncMode, f.EncOptimize = mp4.EncModeBoxTree, mp4.OptimizeNone
		what := "File(progressive)"
		if f.IsFragmented() {
			what = "File(box tree)"
		}
		whole, fl := encodeBoth(what, f.Size, func(w *bytes.Buffer) error { return f.Encode(w) }, f.EncodeSW, false, c.SWFirst)
		if fl != nil {
			return fl
		}
		if whole == nil {
			return harness.Failf("C02|"+what+"|File encoding fails although every box encodes on its own", "")
		}
		if !bytes.Equal(whole, outTree) {
			return harness.Failf("C02|"+what+"|File encoding differs from its boxes encoded one by one", "%d vs %d bytes, first difference at %d", len(whole), len(outTree), firstDiff(whole, outTree))
		}
		if diff := boxprop.SizeWalk(whole, f.Children); diff != nil {
			return harness.Failf(diff.Key, "%s: %s", what, diff.Msg)
		}
		last.wholeFile = true
	}
	last.nodes = bytes.Count(outTree, nil)
	if d.File == nil || !d.File.IsFragmented() {
		return nil
	}
	// ---- fragmented file: init segment, media segments, fragments, whole file in segment mode
	f := d.File
	total := uint64(0)
	if f.Init != nil {
		out, fl := encodeBoth("InitSegment", f.Init.Size, func(w *bytes.Buffer) error { return f.Init.Encode(w) }, f.Init.EncodeSW, false, c.SWFirst)
		if fl != nil {
			return fl
		}
		if out == nil {
			return nil
		}
		total += uint64(len(out))
	}
	for _, sx := range f.Sidxs {
		total += sx.Size()
	}
	for _, seg := range f.Segments {
		seg := seg
		if c.Opt {
			seg.EncOptimize = mp4.OptimizeTrun
		}
		for _, fr := range seg.Fragments {
			fr := fr
			if c.Opt {
				fr.EncOptimize = mp4.OptimizeTrun
			}
			out, fl := encodeBoth("Fragment", fr.Size, func(w *bytes.Buffer) error { return fr.Encode(w) }, fr.EncodeSW, c.Opt, c.SWFirst)
			if fl != nil {
				return fl
			}
			if out == nil {
				return nil
			}
		}
		out, fl := encodeBoth("MediaSegment", seg.Size, func(w *bytes.Buffer) error { return seg.Encode(w) }, seg.EncodeSW, c.Opt, c.SWFirst)
		if fl != nil {
			return fl
		}
		if out == nil {
			return nil
		}
		total += uint64(len(out))
		last.segments++
	}
	if f.Mfra != nil {
		total += f.Mfra.Size()
	}
	// whole file in segment mode: the parts above are exactly what File.Encode writes
	f.FragEncMode = mp4.EncModeSegment
	if c.Opt {
		f.EncOptimize = mp4.OptimizeTrun
	}
	var whole bytes.Buffer
	if err := f.Encode(&whole); err != nil {
		if boxprop.IsOverflow(err) {
			return overflowFail("File(segment mode)", "Encode", err, f.Size())
		}
		return nil
	}
	if got := f.Size(); got != uint64(whole.Len()) {
		return harness.Failf("C02|File(segment mode)|bytes written differ from Size()", "written %d, File.Size() %d", whole.Len(), got)
	}
	if uint64(whole.Len()) != total {
		return harness.Failf("C02|File(segment mode)|bytes written differ from the sum of the parts' Size()", "written %d, init+sidx+segments+mfra %d", whole.Len(), total)
	}
	sw := boxprop.DirtySW(whole.Len())
	if err := f.EncodeSW(sw); err != nil || sw.AccError() != nil || !bytes.Equal(sw.Bytes(), whole.Bytes()) {
		return harness.Failf("C02|File(segment mode)|EncodeSW differs from Encode", "err %v/%v, %d vs %d bytes", err, sw.AccError(), sw.Len(), whole.Len())
	}
	return nil
}

func run(t *testing.T, name string, cfg boxprop.GenConfig) {
	harness.RunRapid(t, name, func(rt *rapid.T) {
		c := boxprop.Gen(rt, cfg)
		raw, _ := json.Marshal(c)
		f := harness.Guarded(func() *harness.Fail { return checkSizes(c) })
		cls := []string{"level-" + c.Level, "path-" + c.Path, "seedkind-" + c.SeedKind()}
		if c.Synth != nil {
			cls = append(cls, "synth", "synth-"+c.Origin)
		}
		switch {
		case last.encoded:
			cls = append(cls, "accepted+encoded")
		case last.accepted:
			cls = append(cls, "accepted")
		default:
			cls = append(cls, "rejected")
		}
		if last.segments > 0 {
			cls = append(cls, "fragmented-file-with-segments")
			if c.Opt {
				cls = append(cls, "fragmented-file-optimize-trun")
			}
		}
		if c.Info {
			cls = append(cls, "info-between-encodes", "info-level-"+map[string]string{"": "all:1"}[c.InfoLevel]+c.InfoLevel)
			if c.InfoFirst {
				cls = append(cls, "info-before-first-encode")
			}
		}
		if last.wholeFile {
			cls = append(cls, "whole-file-size-vs-encode")
		}
		if c.SWFirst {
			cls = append(cls, "sw-first")
		}
		nt := last.encoded && (c.Level == "file" || len(c.Muts) > 0 || c.Synth != nil)
		harness.Rec.Case(nt, raw, cls...)
		if nt && harness.Rec.WantSample() && len(raw) < 400 {
			harness.Rec.Sample(map[string]interface{}{"kind": "sizes", "case": c})
		}
		if f != nil {
			c.Data = c.Bytes()
			if len(c.Data) > 64<<10 {
				c.Data = nil
			}
		}
		harness.Report(rt, "sizes", c, f)
	})
}

func TestPristine(t *testing.T) { run(t, "pristine", boxprop.GenConfig{MaxSeed: 300 << 10}) }
func TestMutated(t *testing.T) {
	run(t, "mutated", boxprop.GenConfig{MaxSeed: harness.Pick(64<<10, 300<<10), Mutate: true})
}

// TestSynth: boxes and files written by the grammar generator internal/boxgen, unmodified and with field mutations.
func TestSynth(t *testing.T) { run(t, "synth", boxprop.GenConfig{MaxSeed: 300 << 10, SynthPct: 100}) }
func TestSynthMutated(t *testing.T) {
	run(t, "synthmut", boxprop.GenConfig{MaxSeed: 300 << 10, SynthPct: 100, Mutate: true, FieldOnly: true})
}
