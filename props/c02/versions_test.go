package c02

// TestVersionSweep: a deterministic sweep over (box type, instance, version byte). Size() formulas and
// encoders branch on the version separately ("== 0", "== 1", ">= 1" ...); a disagreement for a version the
// box does not define (which the decoders accept) is invisible to random field mutation unless it happens to
// hit the version byte of that very box. Every leaf type the grammar generator knows is instantiated a number of
// times and re-stamped with each version of a fixed list; the usual size oracle (checkSizes) judges the result.

import (
	"fmt"
	"testing"

	"pgregory.net/rapid"

	"verif/internal/boxgen"
	"verif/internal/boxmut"
	"verif/internal/boxprop"
	"verif/internal/boxwalk"
	"verif/internal/harness"
)

var sweepVersions = []uint64{0, 1, 2, 3, 4, 0x7f, 0x80, 0xff}

func TestVersionSweep(t *testing.T) {
	types := boxgen.LeafTypes()
	instances := harness.Pick(12, 60)
	bad := 0
	for ti, typ := range types {
		if ti%harness.E.NShards != harness.E.Shard {
			continue
		}
		typ := typ
		gen := rapid.Custom(func(rt *rapid.T) []byte { return boxgen.Box(rt, typ, boxgen.Opt{}) })
		accepted := 0
		for i := 0; i < instances; i++ {
			base := gen.Example(i)
			if len(base) < 12 {
				continue
			}
			// keep the flags of the instance, replace the version
			flags := uint64(0)
			if tree, _ := boxwalk.WalkAll(base); len(tree) > 0 && tree[0].PayloadStart()+4 <= len(base) {
				ps := tree[0].PayloadStart()
				flags = uint64(base[ps+1])<<16 | uint64(base[ps+2])<<8 | uint64(base[ps+3])
			}
			for _, v := range sweepVersions {
				for _, path := range []string{"reader", "sr"} {
					c := boxprop.Case{Box: -1, Level: "box", Path: path, Synth: base, Origin: "box:" + typ,
						Muts: []boxmut.Mut{{Op: "verflags", Box: 0, Val: v<<24 | flags}}, SWFirst: i%2 == 1}
					f := harness.Guarded(func() *harness.Fail { return checkSizes(c) })
					if last.encoded {
						accepted++
					}
					if f != nil && harness.ReportDirect(t, "sizes", c, f) {
						bad++
					}
					if bad > 5 {
						return
					}
				}
			}
		}
		n := int64(instances * len(sweepVersions) * 2)
		harness.Rec.BulkDistinct(n, int64(accepted), "versionsweep-"+typ)
		if harness.Rec.WantSample() {
			harness.Rec.Sample(map[string]interface{}{"kind": "versionsweep", "type": typ, "instances": instances, "versions": fmt.Sprint(sweepVersions), "accepted+encoded": accepted})
		}
	}
	harness.Rec.Exhaustive(fmt.Sprintf("version sweep: %d leaf types x %d grammar instances x versions %v x {reader, sr}", len(types), instances, sweepVersions))
}
