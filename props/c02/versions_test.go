package c02

// TestVersionSweep: a deterministic sweep over (box type, instance, version byte). Size() formulas and
// encoders branch on the version separately ("== 0", "== 1", ">= 1" ...); a disagreement for a version the
// box does not define (which the decoders accept) is invisible to random field mutation unless it happens to
// hit the version byte of that very box. Every leaf type the grammar generator knows, its full-box containers (meta,
// stsd, dref, trep) and its sample entries are instantiated a number of times and re-stamped with each version of a
// fixed list (at the instance's own flags) and with each flag value of a second list (at the instance's own version);
// the usual size oracle (checkSizes) judges the result.

import (
	"fmt"
	"testing"

	"pgregory.net/rapid"

	"verif/internal/boxgen"
	"verif/internal/boxmut"
	"verif/internal/boxprop"
	"verif/internal/boxwalk"
	"verif/internal/harness"
)

var sweepVersions = []uint64{0, 1, 2, 3, 4, 0x7f, 0x80, 0xff}

// sweepFlags: flag values stamped on every instance at the instance's own version. The don't-care list never masks
// full-box flags ("Fullbox flags are never masked"): a box accepted with flag bits it does not define has to write them
// back (judged by C01; here: Size() formulas and encoders that branch on flags must agree). 1 and 0x100 are the lowest bits of the two low flag bytes (defined for some boxes, undefined for most).
var sweepFlags = []uint64{1, 0x100, 0xffffff}

// sweepContainers: the container types of the grammar generator that start with version/flags (full-box containers)
// and the sample entries (for those the four bytes are the first of SampleEntry.reserved[6]: whatever they hold, the
// entry has to decode to the same structure and re-encode with the children intact).
var sweepContainers = []string{"meta", "stsd", "dref", "trep",
	"avc1", "avc3", "hvc1", "hev1", "encv", "av01", "vp08", "vp09", "mp4a", "enca", "ac-3", "ec-3", "wvtt", "stpp", "evte"}

// sweepTypes returns the leaf types followed by those of sweepContainers the generator knows.
func sweepTypes() (types []string, nLeaf, nCont int) {
	types = boxgen.LeafTypes()
	nLeaf = len(types)
	known := map[string]bool{}
	for _, c := range boxgen.ContainerTypes() {
		known[c] = true
	}
	for _, c := range sweepContainers {
		if known[c] {
			types = append(types, c)
			nCont++
		}
	}
	return
}

func TestVersionSweep(t *testing.T) {
	types, nLeaf, nCont := sweepTypes()
	instances := harness.Pick(12, 60)
	bad := 0
	for ti, typ := range types {
		if ti%harness.E.NShards != harness.E.Shard {
			continue
		}
		typ := typ
		gen := rapid.Custom(func(rt *rapid.T) []byte { return boxgen.Box(rt, typ, boxgen.Opt{}) })
		accepted, acceptedFlags := 0, 0
		for i := 0; i < instances; i++ {
			base := gen.Example(i)
			if len(base) < 12 {
				continue
			}
			// keep the flags of the instance, replace the version; then keep the version and replace the flags
			flags, version := uint64(0), uint64(0)
			if tree, _ := boxwalk.WalkAll(base); len(tree) > 0 && tree[0].PayloadStart()+4 <= len(base) {
				ps := tree[0].PayloadStart()
				version = uint64(base[ps])
				flags = uint64(base[ps+1])<<16 | uint64(base[ps+2])<<8 | uint64(base[ps+3])
			}
			var stamps []uint64
			for _, v := range sweepVersions {
				stamps = append(stamps, v<<24|flags)
			}
			for _, fl := range sweepFlags {
				stamps = append(stamps, version<<24|fl)
			}
			for si, vf := range stamps {
				for _, path := range []string{"reader", "sr"} {
					c := boxprop.Case{Box: -1, Level: "box", Path: path, Synth: base, Origin: "box:" + typ,
						Muts: []boxmut.Mut{{Op: "verflags", Box: 0, Val: vf}}, SWFirst: i%2 == 1}
					f := harness.Guarded(func() *harness.Fail { return checkSizes(c) })
					if last.encoded && si < len(sweepVersions) {
						accepted++
					} else if last.encoded {
						acceptedFlags++
					}
					if f != nil && harness.ReportDirect(t, "sizes", c, f) {
						bad++
					}
					if bad > 5 {
						return
					}
				}
			}
		}
		harness.Rec.BulkDistinct(int64(instances*len(sweepVersions)*2), int64(accepted), "versionsweep-"+typ)
		harness.Rec.BulkDistinct(int64(instances*len(sweepFlags)*2), int64(acceptedFlags), "flagsweep-"+typ)
		if harness.Rec.WantSample() {
			harness.Rec.Sample(map[string]interface{}{"kind": "versionsweep", "type": typ, "instances": instances, "versions": fmt.Sprint(sweepVersions), "flags": fmt.Sprint(sweepFlags),
				"accepted+encoded": accepted, "accepted+encoded (flag stamps)": acceptedFlags})
		}
	}
	harness.Rec.Exhaustive(fmt.Sprintf("version sweep: (%d leaf types + %d full-box containers and sample entries) x %d grammar instances x (versions %v at the instance's flags + flags %x at the instance's version) x {reader, sr}", nLeaf, nCont, instances, sweepVersions, sweepFlags))
}
