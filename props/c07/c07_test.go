// C07 — encrypted output is well-formed Common Encryption and matches a reference cipher.
//
// The clear input comes from internal/cryptgen (fragbuild writer, nalgen NAL units: the NAL layout and the
// slice header lengths are known from the value trees, not from the library's parsers). It is encrypted
// through the library as cmd/mp4ff-encrypt does (DecodeFile -> InitProtect -> EncryptFragment per fragment
// -> Encode). The ENCRYPTED FILE BYTES are then inspected with byte-level parsers of frma/schm/tenc/saiz/
// saio/senc (located with boxwalk) and fragbuild's reader:
//
//	(a) the sub-sample entries of a sample add up to the sample size;
//	(b) length fields, NAL headers, non-VCL NAL units and (cbcs) slice headers are clear; every VCL NAL unit
//	    longer than 127 bytes is protected up to its end, from at most 127 bytes in and in whole 16-byte
//	    blocks (cenc) / from the end of its slice header (cbcs); audio samples are protected whole;
//	(c) saiz sizes and count describe the senc entries; saio points at the first entry;
//	(d) cenc: IV[i+1]-IV[i] >= number of counter blocks of sample i and the counter intervals of a fragment
//	    are pairwise disjoint (128-bit arithmetic, wrap included);
//	(e) the sample bytes equal internal/refcrypto's AES-CTR / AES-CBC-pattern output for the signalled ranges;
//	(f) everything else equals the clear input (box by box; added: sinf, pssh, saiz, saio, senc).
//
// Assumption: AES-CTR increments the full 128-bit counter block (NIST SP 800-38A B.1, m = 128), which is what
// Go's crypto/cipher does and what refcrypto does. ISO/IEC 23001-7 words the counter as a 64-bit block
// counter in the low half; the two readings differ only when the low 64 bits overflow inside one sample. Such
// cases are generated (16-byte IVs ending in ff..ff), counted in the class "iv-counter-wrap", and judged
// against the 128-bit reading.
package c07

import (
	"bytes"
	"encoding/json"
	"fmt"
	"os"
	"strings"
	"testing"

	"github.com/Eyevinn/mp4ff/mp4"
	"pgregory.net/rapid"

	"verif/internal/boxwalk"
	"verif/internal/cryptgen"
	"verif/internal/fragbuild"
	"verif/internal/harness"
	"verif/internal/refcrypto"
)

func TestMain(m *testing.M) { harness.Main(m) }

func init() {
	harness.RegisterReplay("cryptform", harness.Replayer(checkForm))
	if v := os.Getenv("VERIF_C07_NOAVOID"); v == "all" {
		avoidKnown = map[string]bool{}
	} else if v != "" {
		for _, name := range strings.Split(v, ",") {
			delete(avoidKnown, name)
		}
	}
}

func TestReplay(t *testing.T) { harness.ReplayPath(t) }

// avoidKnown: confirmed library defects whose triggering feature the GENERATOR leaves out (counted with
// harness.Rec.Exclude(name)); reproducers are /verif/replay/C07/kf-<name>.json. Replay evaluates a case as
// written and never consults this map.
var avoidKnown = map[string]bool{
	cryptgen.FeatPrftBeforeMoof: false, // repaired in /repo
	cryptgen.FeatExplicitBase:   true,
}

func encryptLikeCLI(clear []byte, c *cryptgen.Case) ([]byte, *harness.Fail) {
	inFile, err := mp4.DecodeFile(bytes.NewReader(clear))
	if err != nil {
		return nil, harness.Failf("C07|DecodeFile(clear input)|error", "%v", err)
	}
	if inFile.Init == nil {
		return nil, harness.Failf("C07|DecodeFile(clear input)|no init segment", "")
	}
	psshBoxes, err := mp4.PsshBoxesFromBytes(c.Pssh)
	if err != nil {
		return nil, harness.Failf("C07|PsshBoxesFromBytes|error", "%v", err)
	}
	ipd, err := mp4.InitProtect(inFile.Init, c.Key, c.IV, c.Scheme, mp4.UUID(c.KID), psshBoxes)
	if err != nil {
		return nil, harness.Failf("C07|InitProtect|error on valid input", "%v", err)
	}
	fi := 0
	for _, s := range inFile.Segments {
		for _, f := range s.Fragments {
			key := c.KeyOf(fi) // with RotateKeys: another key for every call on the same InitProtectData
			fi++
			if err := mp4.EncryptFragment(f, key, c.IV, ipd); err != nil {
				return nil, harness.Failf("C07|EncryptFragment|error on valid input", "%v", err)
			}
		}
	}
	var out bytes.Buffer
	if err := inFile.Encode(&out); err != nil {
		return nil, harness.Failf("C07|File.Encode(encrypted)|error", "%v", err)
	}
	return out.Bytes(), nil
}

type formStats struct {
	protected  int  // protected bytes in the file
	wrap       bool // the low 64 counter bits overflow inside a sample
	splitClear bool // a clear run was split into several entries (> 65535)
}

func withoutMdat(bs []*boxwalk.Box) []*boxwalk.Box {
	var out []*boxwalk.Box
	for _, b := range bs {
		if b.Type != "mdat" {
			out = append(out, b)
		}
	}
	return out
}

func kids(b *boxwalk.Box, typ string) []*boxwalk.Box {
	var out []*boxwalk.Box
	for _, c := range b.Children {
		if c.Type == typ {
			out = append(out, c)
		}
	}
	return out
}

// checkSignalling judges sinf/frma/schm/tenc of the encrypted init segment.
func checkSignalling(c *cryptgen.Case, enc []byte, et []*boxwalk.Box) (*cryptgen.Tenc, *harness.Fail) {
	entry := cryptgen.EntryOf(et)
	if entry == nil {
		return nil, harness.Failf("C07|init|no sample entry", "")
	}
	want := "encv"
	if !c.Video() {
		want = "enca"
	}
	if entry.Type != want {
		return nil, harness.Failf("C07|init|sample entry type is not encv/enca", "got %q want %q", entry.Type, want)
	}
	p, err := cryptgen.ParseProtection(enc, entry)
	if err != nil {
		return nil, harness.Failf("C07|sinf|malformed", "%v", err)
	}
	if p == nil || p.NSinf != 1 {
		return nil, harness.Failf("C07|sinf|not exactly one sinf in the sample entry", "")
	}
	if p.Original != c.Codec {
		return nil, harness.Failf("C07|frma|data_format is not the original sample entry type", "got %q want %q", p.Original, c.Codec)
	}
	if p.Scheme != c.Scheme || p.SchemeVersion != 0x00010000 {
		return nil, harness.Failf("C07|schm|scheme type or version", "got %q %#x want %q 0x10000", p.Scheme, p.SchemeVersion, c.Scheme)
	}
	t := p.Tenc
	if t == nil {
		return nil, harness.Failf("C07|tenc|missing", "")
	}
	if t.IsProtected != 1 || t.Reserved != 0 {
		return nil, harness.Failf("C07|tenc|default_isProtected is not 1", "%+v", *t)
	}
	if !bytes.Equal(t.KID, c.KID) {
		return nil, harness.Failf("C07|tenc|default_KID differs from the key id given", "got %x want %x", t.KID, []byte(c.KID))
	}
	switch c.Scheme {
	case "cenc":
		if (t.IVSize != 8 && t.IVSize != 16) || t.ConstIV != nil {
			return nil, harness.Failf("C07|tenc|cenc needs a per-sample IV size of 8 or 16", "%+v", *t)
		}
		if t.Crypt != 0 || t.Skip != 0 {
			return nil, harness.Failf("C07|tenc|cenc with a block pattern", "%d:%d", t.Crypt, t.Skip)
		}
	case "cbcs":
		if t.IVSize != 0 || (len(t.ConstIV) != 8 && len(t.ConstIV) != 16) {
			return nil, harness.Failf("C07|tenc|cbcs needs a constant IV of 8 or 16 bytes", "%+v", *t)
		}
		iv := make([]byte, 16)
		copy(iv, t.ConstIV)
		if !bytes.Equal(iv, c.IV16()) {
			return nil, harness.Failf("C07|tenc|constant IV differs from the IV given", "got %x want %x", t.ConstIV, []byte(c.IV))
		}
		wc, ws := byte(1), byte(9)
		if !c.Video() {
			wc, ws = 0, 0
		}
		if t.Version < 1 || t.Crypt != wc || t.Skip != ws {
			return nil, harness.Failf("C07|tenc|cbcs pattern is not 1:9 (video) / 0:0 (audio) in a version 1 box", "version %d pattern %d:%d want %d:%d", t.Version, t.Crypt, t.Skip, wc, ws)
		}
	}
	return t, nil
}

// checkMeta: sizes and timing of the encrypted samples equal the clear model.
func checkMeta(c *cryptgen.Case, b *cryptgen.Built, p *fragbuild.Parsed) *harness.Fail {
	got := p.TrackSamples(c.TrackID)
	if len(p.Moofs) != len(c.Frags) {
		return harness.Failf("C07|fragments|count differs", "%d moof boxes, input %d", len(p.Moofs), len(c.Frags))
	}
	for f := range p.Moofs {
		if n := len(p.Moofs[f].TrackSamples(c.TrackID)); n != c.Frags[f].N {
			return harness.Failf("C07|fragments|samples per fragment differ", "fragment %d: %d samples, input %d", f, n, c.Frags[f].N)
		}
	}
	if len(got) != len(c.Samples) {
		return harness.Failf("C07|samples|count differs", "%d vs %d", len(got), len(c.Samples))
	}
	tm := c.StartTime
	for i := range got {
		g, s := &got[i], &c.Samples[i]
		cto := g.Cto
		if cto > 0x7fffffff {
			cto = int64(int32(uint32(cto)))
		}
		switch {
		case int(g.Size) != len(b.Data[i]):
			return harness.Failf("C07|samples|size differs", "sample %d: %d, input %d", i, g.Size, len(b.Data[i]))
		case g.Dur != s.Dur:
			return harness.Failf("C07|samples|duration differs", "sample %d: %d, input %d", i, g.Dur, s.Dur)
		case g.Flags != s.Flags:
			return harness.Failf("C07|samples|flags differ", "sample %d: %#x, input %#x", i, g.Flags, s.Flags)
		case cto != int64(s.Cto):
			return harness.Failf("C07|samples|composition offset differs", "sample %d: %d, input %d", i, cto, s.Cto)
		case g.DecodeTime != tm:
			return harness.Failf("C07|samples|decode time differs", "sample %d: %d, input %d", i, g.DecodeTime, tm)
		}
		tm += uint64(s.Dur)
	}
	return nil
}

// checkRanges is (b): the protected ranges against the NAL layout of the clear sample.
func checkRanges(c *cryptgen.Case, gi int, ranges []refcrypto.Range) *harness.Fail {
	spans := c.Spans(gi)
	for _, r := range ranges {
		var sp *cryptgen.NalSpan
		for k := range spans {
			if r.Start >= spans[k].LenOff && r.Start < spans[k].Off+spans[k].Len {
				sp = &spans[k]
				break
			}
		}
		where := fmt.Sprintf("sample %d range [%d,%d)", gi, r.Start, r.Start+r.Len)
		switch {
		case sp == nil:
			return harness.Failf("C07|subsamples|protected range outside the NAL units", "%s", where)
		case r.Start < sp.Off:
			return harness.Failf("C07|subsamples|NAL length field protected", "%s, length field at %d", where, sp.LenOff)
		case !sp.VCL:
			return harness.Failf("C07|subsamples|non-video NAL unit protected", "%s lies in a %s NAL unit [%d,%d)", where, sp.Kind, sp.Off, sp.Off+sp.Len)
		case r.Start+r.Len > sp.Off+sp.Len:
			return harness.Failf("C07|subsamples|protected range runs over the end of its NAL unit", "%s, NAL unit [%d,%d)", where, sp.Off, sp.Off+sp.Len)
		case r.Start < sp.Off+sp.NalHdr:
			return harness.Failf("C07|subsamples|NAL header protected", "%s, NAL unit at %d", where, sp.Off)
		case c.Scheme == "cbcs" && r.Start < sp.Off+sp.Hdr:
			return harness.Failf("C07|subsamples|cbcs: slice header protected", "%s, NAL unit at %d with %d header bytes", where, sp.Off, sp.Hdr)
		}
	}
	for k := range spans {
		sp := &spans[k]
		if !sp.VCL || sp.Len <= 127 || (c.Scheme == "cbcs" && sp.Hdr >= sp.Len) {
			continue
		}
		var hit *refcrypto.Range
		for i := range ranges {
			if ranges[i].Start+ranges[i].Len == sp.Off+sp.Len && ranges[i].Len > 0 {
				hit = &ranges[i]
			}
		}
		where := fmt.Sprintf("sample %d NAL unit [%d,%d) (%d bytes, header %d bytes)", gi, sp.Off, sp.Off+sp.Len, sp.Len, sp.Hdr)
		if hit == nil {
			return harness.Failf("C07|subsamples|video NAL unit longer than 127 bytes is not protected up to its end", "%s, ranges %v", where, ranges)
		}
		if c.Scheme == "cenc" {
			if hit.Start-sp.Off > 127 {
				return harness.Failf("C07|subsamples|cenc: protection starts more than 127 bytes into the NAL unit", "%s, range %v", where, *hit)
			}
			if hit.Len%16 != 0 {
				return harness.Failf("C07|subsamples|cenc: protected range is not a whole number of 16-byte blocks", "%s, range %v", where, *hit)
			}
		} else if hit.Start != sp.Off+sp.Hdr {
			return harness.Failf("C07|subsamples|cbcs: protection does not start at the end of the slice header", "%s, range starts at %d, header ends at %d", where, hit.Start, sp.Off+sp.Hdr)
		}
	}
	return nil
}

func evalForm(c *cryptgen.Case, st *formStats) *harness.Fail {
	b, err := c.Build()
	if err != nil {
		return harness.Failf("harness|cryptgen.Build", "%v", err)
	}
	enc, f := encryptLikeCLI(b.File, c)
	if f != nil {
		if c.SaizLimit() && f.Key == "C07|EncryptFragment|error on valid input" {
			// a sample needs more sub-sample entries than saiz can size: refusing is correct
			harness.Rec.Class("refused: sub-sample table beyond the saiz size limit")
			return nil
		}
		return f
	}
	et, werr := boxwalk.WalkAll(enc)
	if werr != nil {
		return harness.Failf("C07|output|box structure broken", "%v", werr)
	}
	ct, _ := boxwalk.WalkAll(b.File)
	tenc, f := checkSignalling(c, enc, et)
	if f != nil {
		return f
	}
	// (f), box level
	encEntry := "encv"
	if !c.Video() {
		encEntry = "enca"
	}
	opts := &cryptgen.DiffOpts{MaskOffsets: true, Rename: map[string]string{c.Codec: encEntry},
		Added: map[string][]string{"moov": {"pssh"}, "traf": {"saiz", "saio", "senc"}, c.Codec: {"sinf"}}}
	if d := cryptgen.DiffBoxes(b.File, withoutMdat(ct), enc, withoutMdat(et), "", "", opts); d != nil {
		path := strings.TrimPrefix(d.Path, "/")
		if path == "" {
			path = "top level"
		}
		return harness.Failf(fmt.Sprintf("C07|%s|%s box %s", path, d.Type, d.What), "%s", d.String())
	}
	var psshGot []byte
	if moov := boxwalk.Path(et, "moov"); moov != nil {
		for _, k := range kids(moov, "pssh") {
			psshGot = append(psshGot, enc[k.Start:k.End()]...)
		}
	}
	if !bytes.Equal(psshGot, c.Pssh) {
		return harness.Failf("C07|moov|pssh boxes differ from those handed to InitProtect", "got %x want %x", psshGot, []byte(c.Pssh))
	}
	p, err := fragbuild.Read(enc)
	if err != nil {
		return harness.Failf("C07|output|data offsets or sample tables do not resolve", "%v", err)
	}
	if f := checkMeta(c, b, p); f != nil {
		return f
	}
	// mdat boxes keep their size and header form
	cm, em := kids(&boxwalk.Box{Children: ct}, "mdat"), kids(&boxwalk.Box{Children: et}, "mdat")
	if len(cm) != len(em) {
		return harness.Failf("C07|mdat|count differs", "%d vs %d", len(em), len(cm))
	}
	for i := range cm {
		if cm[i].Size != em[i].Size || cm[i].HdrSize != em[i].HdrSize {
			return harness.Failf("C07|mdat|size or header form differs", "mdat %d: size %d hdr %d, input size %d hdr %d", i, em[i].Size, em[i].HdrSize, cm[i].Size, cm[i].HdrSize)
		}
	}
	moofs := kids(&boxwalk.Box{Children: et}, "moof")
	if len(moofs) != len(c.Frags) {
		return harness.Failf("C07|fragments|count differs", "")
	}
	got := p.TrackSamples(c.TrackID)
	ivSize := int(tenc.IVSize)
	for fi, moof := range moofs {
		trafs := kids(moof, "traf")
		if len(trafs) != 1 {
			return harness.Failf("C07|moof|not exactly one traf", "")
		}
		traf := trafs[0]
		sz, so, se := kids(traf, "saiz"), kids(traf, "saio"), kids(traf, "senc")
		if len(sz) != 1 || len(so) != 1 || len(se) != 1 {
			return harness.Failf("C07|traf|not exactly one saiz, saio and senc", "saiz %d saio %d senc %d", len(sz), len(so), len(se))
		}
		senc, err := cryptgen.ParseSenc(enc, se[0], ivSize)
		if err != nil {
			return harness.Failf("C07|senc|entries do not fill the box", "fragment %d: %v", fi, err)
		}
		n := c.Frags[fi].N
		if senc.Count != n {
			return harness.Failf("C07|senc|sample_count differs from the number of samples", "fragment %d: %d vs %d", fi, senc.Count, n)
		}
		// (c)
		saiz, err := cryptgen.ParseSaiz(enc, sz[0])
		if err != nil {
			return harness.Failf("C07|saiz|malformed", "%v", err)
		}
		if saiz.Flags&1 != 0 && saiz.AuxType != c.Scheme {
			return harness.Failf("C07|saiz|aux_info_type is not the scheme type", "%q", saiz.AuxType)
		}
		if saiz.Count > n {
			return harness.Failf("C07|saiz|sample_count larger than the number of samples", "fragment %d: %d vs %d", fi, saiz.Count, n)
		}
		for k := 0; k < n; k++ {
			es := senc.Samples[k].Size
			if k < saiz.Count {
				if int(saiz.Sizes[k]) != es {
					return harness.Failf("C07|saiz|sample_info_size differs from the size of the senc entry", "fragment %d sample %d: saiz %d, entry %d bytes", fi, k, saiz.Sizes[k], es)
				}
			} else if es != 0 {
				return harness.Failf("C07|saiz|sample_count does not cover all non-empty senc entries", "fragment %d: saiz sample_count %d, entry %d has %d bytes", fi, saiz.Count, k, es)
			}
		}
		saio, err := cryptgen.ParseSaio(enc, so[0])
		if err != nil {
			return harness.Failf("C07|saio|malformed", "%v", err)
		}
		if saio.Flags&1 != 0 && saio.AuxType != c.Scheme {
			return harness.Failf("C07|saio|aux_info_type is not the scheme type", "%q", saio.AuxType)
		}
		if len(saio.Offsets) != 1 {
			return harness.Failf("C07|saio|entry_count is not 1", "%d", len(saio.Offsets))
		}
		if int64(moof.Start)+saio.Offsets[0] != int64(senc.DataStart) {
			return harness.Failf("C07|saio|offset does not point at the first senc entry", "fragment %d: moof at %d + offset %d = %d, first entry at %d",
				fi, moof.Start, saio.Offsets[0], int64(moof.Start)+saio.Offsets[0], senc.DataStart)
		}
		// per sample
		type ivl struct {
			iv     []byte
			blocks uint64
		}
		var ivs []ivl
		for k := 0; k < n; k++ {
			gi := b.FirstOf[fi] + k
			clear, e := b.Data[gi], &senc.Samples[k]
			var ranges []refcrypto.Range
			if senc.Flags&2 != 0 {
				var total int
				ranges, total = refcrypto.RangesOf(e.Subs)
				if total != len(clear) { // (a)
					return harness.Failf("C07|senc|sub-sample sizes do not add up to the sample size", "sample %d: entries %v sum %d, sample size %d", gi, e.Subs, total, len(clear))
				}
				for _, s := range e.Subs {
					if s.Clear == 65535 && s.Protected == 0 {
						st.splitClear = true
					}
				}
			} else {
				ranges = refcrypto.Whole(len(clear))
			}
			if c.Video() {
				if senc.Flags&2 == 0 {
					return harness.Failf("C07|senc|video sample without sub-sample map", "sample %d", gi)
				}
				if f := checkRanges(c, gi, ranges); f != nil {
					return f
				}
			} else if len(clear) > 0 && (len(ranges) != 1 || ranges[0].Start != 0 || ranges[0].Len != len(clear)) {
				return harness.Failf("C07|subsamples|audio sample not protected as a whole", "sample %d (%d bytes): %v", gi, len(clear), ranges)
			}
			st.protected += refcrypto.ProtectedBytes(ranges)
			// (e)
			var want []byte
			if c.Scheme == "cenc" {
				iv := make([]byte, 16)
				copy(iv, e.IV)
				blocks := refcrypto.CencBlocks(ranges)
				ivs = append(ivs, ivl{iv, blocks})
				lo := uint64(0)
				for _, x := range iv[8:] {
					lo = lo<<8 | uint64(x)
				}
				if blocks >= 2 && ^lo < blocks-1 {
					st.wrap = true
				}
				want = refcrypto.CencCrypt(c.KeyOf(fi), iv, clear, ranges)
			} else {
				want = refcrypto.CbcsCrypt(c.KeyOf(fi), tenc.ConstIV, clear, ranges, int(tenc.Crypt), int(tenc.Skip), false)
			}
			if g := got[gi].Data; !bytes.Equal(g, want) {
				d := 0
				for d < len(want) && g[d] == want[d] {
					d++
				}
				inside := false
				for _, r := range ranges {
					inside = inside || (d >= r.Start && d < r.Start+r.Len)
				}
				if !inside {
					return harness.Failf("C07|mdat|bytes outside the protected ranges changed", "sample %d byte %d: got %s clear %s", gi, d, harness.HexTrunc(g[d:], 16), harness.HexTrunc(clear[d:], 16))
				}
				return harness.Failf("C07|"+c.Scheme+"|protected bytes differ from the reference cipher", "sample %d (%d bytes) from byte %d on: got %s want %s; ranges %v",
					gi, len(clear), d, harness.HexTrunc(g[d:], 24), harness.HexTrunc(want[d:], 24), ranges)
			}
		}
		// (d)
		for k := 0; k+1 < len(ivs); k++ {
			hi, lo := refcrypto.Sub128(ivs[k+1].iv, ivs[k].iv)
			if hi == 0 && lo < ivs[k].blocks {
				return harness.Failf("C07|senc|IV advances by less than the number of cipher blocks of the sample", "fragment %d sample %d: IV %x, next %x, %d blocks", fi, k, ivs[k].iv, ivs[k+1].iv, ivs[k].blocks)
			}
		}
		for x := range ivs {
			for y := range ivs {
				if x == y || ivs[x].blocks == 0 || ivs[y].blocks == 0 {
					continue
				}
				// y's first counter block inside [x, x+blocks)?
				if hi, lo := refcrypto.Sub128(ivs[y].iv, ivs[x].iv); hi == 0 && lo < ivs[x].blocks {
					return harness.Failf("C07|senc|counter blocks reused inside a fragment", "fragment %d: sample %d IV %x (%d blocks), sample %d IV %x", fi, x, ivs[x].iv, ivs[x].blocks, y, ivs[y].iv)
				}
			}
		}
	}
	return nil
}

func checkForm(c cryptgen.Case) *harness.Fail {
	var st formStats
	return evalForm(&c, &st)
}

func TestEncryptedForm(t *testing.T) {
	harness.RunRapid(t, "form", func(rt *rapid.T) {
		c := cryptgen.Gen(rt, cryptgen.GenOpt{Avoid: avoidKnown})
		// one case in four with two or more fragments: every EncryptFragment call gets a key of its own
		if len(c.Frags) >= 2 && rapid.IntRange(0, 3).Draw(rt, "rotateKeys") == 0 {
			c.RotateKeys = true
		}
		raw, _ := json.Marshal(c)
		var st formStats
		f := harness.Guarded(func() *harness.Fail { return evalForm(&c, &st) })
		cl := cryptgen.Classes(&c)
		if st.wrap {
			cl = append(cl, "iv-low64-overflow-inside-sample")
		}
		if st.splitClear {
			cl = append(cl, "clear-run-split-into-65535-entries")
		}
		if c.RotateKeys {
			cl = append(cl, "another-key-for-every-fragment")
		}
		harness.Rec.Case(st.protected > 0, raw, cl...)
		if harness.Rec.WantSample() && len(raw) < 6000 && st.protected > 0 {
			harness.Rec.Sample(map[string]interface{}{"kind": "cryptform", "case": c})
		}
		harness.Report(rt, "cryptform", c, f)
	})
}
