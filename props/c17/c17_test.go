// C17 — SEI messages survive write/parse round trips.
package c17

import (
	"bytes"
	"encoding/json"
	"errors"
	"fmt"
	"reflect"
	"testing"

	"github.com/Eyevinn/mp4ff/avc"
	"github.com/Eyevinn/mp4ff/hevc"
	"github.com/Eyevinn/mp4ff/sei"
	"pgregory.net/rapid"

	"verif/internal/harness"
	"verif/internal/nalgen"
)

func TestMain(m *testing.M) { harness.Main(m) }

func init() {
	harness.RegisterReplay("seilist", harness.Replayer(checkList))
	harness.RegisterReplay("pictiming", harness.Replayer(checkPicTiming))
	harness.RegisterReplay("timecode", harness.Replayer(checkTimeCode))
	harness.RegisterReplay("fixedsei", harness.Replayer(checkFixed))
	harness.RegisterReplay("passthrough", harness.Replayer(checkPass))
}

func TestReplay(t *testing.T) { harness.ReplayPath(t) }

// ---------------------------------------------------------------------------------------------
// message lists

type msg struct {
	Type    uint             `json:"type"`
	Payload harness.HexBytes `json:"payload"`
}

type listCase struct {
	Msgs  []msg  `json:"msgs"`
	Route string `json:"route"` // "extract" | "avc" | "hevc"
}

// refSEI serialises the sei_rbsp independently: ff-run coded type and size, payload, trailing bits; then escapes.
func refSEI(msgs []msg) []byte {
	w := nalgen.NewBitWriter()
	ffrun := func(v uint) {
		for v >= 255 {
			w.U(0xff, 8)
			v -= 255
		}
		w.U(uint64(v), 8)
	}
	for _, m := range msgs {
		ffrun(m.Type)
		ffrun(uint(len(m.Payload)))
		w.Bytes(m.Payload)
	}
	w.TrailingBits()
	return nalgen.Escape(w.Out())
}

func checkList(c listCase) *harness.Fail {
	var in []sei.SEIMessage
	for _, m := range c.Msgs {
		in = append(in, sei.NewSEIData(m.Type, append([]byte{}, m.Payload...)))
	}
	buf := bytes.Buffer{}
	if err := sei.WriteSEIMessages(&buf, in); err != nil {
		return harness.Failf("C17|WriteSEIMessages|error", "%v", err)
	}
	out := buf.Bytes()
	if ref := refSEI(c.Msgs); !bytes.Equal(out, ref) {
		return harness.Failf("C17|WriteSEIMessages|bytes differ from reference sei_rbsp", "got %s want %s", harness.HexTrunc(out, 300), harness.HexTrunc(ref, 300))
	}
	switch c.Route {
	case "extract":
		got, err := sei.ExtractSEIData(bytes.NewReader(out))
		if err != nil {
			key := "C17|ExtractSEIData|error"
			if errors.Is(err, sei.ErrRbspTrailingBitsMissing) {
				key = "C17|ExtractSEIData|trailing-bits error on written stream"
			}
			return harness.Failf(key, "%v (stream %s)", err, harness.HexTrunc(out, 300))
		}
		if len(got) != len(c.Msgs) {
			return harness.Failf("C17|ExtractSEIData|message count differs", "got %d want %d (stream %s)", len(got), len(c.Msgs), harness.HexTrunc(out, 300))
		}
		for i := range got {
			if got[i].Type() != c.Msgs[i].Type || !bytes.Equal(got[i].Payload(), c.Msgs[i].Payload) {
				return harness.Failf("C17|ExtractSEIData|(type,payload) differs", "msg %d: got (%d,%s) want (%d,%s)", i, got[i].Type(), harness.HexTrunc(got[i].Payload(), 80), c.Msgs[i].Type, harness.HexTrunc(c.Msgs[i].Payload, 80))
			}
			if got[i].Size() != uint(len(c.Msgs[i].Payload)) {
				return harness.Failf("C17|SEIData.Size|differs", "msg %d", i)
			}
		}
	case "avc", "hevc":
		var msgs []sei.SEIMessage
		var err error
		if c.Route == "avc" {
			msgs, err = avc.ParseSEINalu(append([]byte{0x06}, out...), nil)
		} else {
			msgs, err = hevc.ParseSEINalu(append([]byte{0x4e, 0x01}, out...), nil)
		}
		if err != nil {
			return harness.Failf("C17|"+c.Route+".ParseSEINalu|error", "%v (stream %s)", err, harness.HexTrunc(out, 300))
		}
		if len(msgs) != len(c.Msgs) {
			return harness.Failf("C17|"+c.Route+".ParseSEINalu|message count differs", "got %d want %d", len(msgs), len(c.Msgs))
		}
		for i := range msgs {
			if msgs[i].Type() != c.Msgs[i].Type || !bytes.Equal(msgs[i].Payload(), c.Msgs[i].Payload) {
				return harness.Failf("C17|"+c.Route+".ParseSEINalu|(type,payload) differs", "msg %d: got (%d,%s) want (%d,%s)", i, msgs[i].Type(), harness.HexTrunc(msgs[i].Payload(), 80), c.Msgs[i].Type, harness.HexTrunc(c.Msgs[i].Payload, 80))
			}
			if msgs[i].Size() != uint(len(c.Msgs[i].Payload)) {
				return harness.Failf("C17|SEIMessage.Size|differs from payload length", "msg %d type %d: Size %d len %d", i, msgs[i].Type(), msgs[i].Size(), len(c.Msgs[i].Payload))
			}
			_ = msgs[i].String()
		}
	}
	return nil
}

var payloadByte = rapid.OneOf(rapid.SampledFrom([]byte{0, 0, 0, 1, 2, 3, 0x80, 0xff}), rapid.Byte())

func genPayload(t *rapid.T, min int) []byte {
	n := rapid.OneOf(rapid.IntRange(0, 20), rapid.IntRange(0, 700),
		rapid.SampledFrom([]int{0, 1, 253, 254, 255, 256, 509, 510, 511, 765})).Draw(t, "size")
	if n < min {
		n = min
	}
	p := rapid.SliceOfN(payloadByte, n, n).Draw(t, "payload")
	switch rapid.IntRange(0, 5).Draw(t, "tailshape") {
	case 0:
		if n >= 1 {
			p[n-1] = 0
		}
	case 1:
		if n >= 2 {
			p[n-1], p[n-2] = 0, 0
		}
	case 2:
		if n >= 1 {
			p[0] = 0x80
		}
	}
	return p
}

// typed payload generators for types whose decoders interpret the payload (used on the avc/hevc routes)
func validPayloadFor(t *rapid.T, route string, ty uint) []byte {
	switch {
	case ty == 4:
		p := genPayload(t, 8)
		if p[0] == 0xb5 && p[1] == 0 && p[2] == 0x31 {
			p[0] = 0xb4 // keep it a plain registered message here; CEA-608 is generated in the pass-through test
		}
		return p
	case ty == 5:
		return genPayload(t, 16)
	case ty == 1 && route == "avc":
		return refPicTiming(genPicTiming(t, false))
	case ty == 136 && route == "hevc":
		return refTimeCode(genTimeCode(t))
	case ty == 137 && route == "hevc":
		return rapid.SliceOfN(rapid.Byte(), 24, 24).Draw(t, "p137")
	case ty == 144 && route == "hevc":
		return rapid.SliceOfN(rapid.Byte(), 4, 4).Draw(t, "p144")
	}
	return genPayload(t, 0)
}

func genList(t *rapid.T) listCase {
	c := listCase{Route: rapid.SampledFrom([]string{"extract", "extract", "avc", "hevc"}).Draw(t, "route")}
	n := rapid.IntRange(1, 6).Draw(t, "n")
	for i := 0; i < n; i++ {
		ty := uint(rapid.OneOf(rapid.IntRange(0, 400), rapid.SampledFrom([]int{0, 1, 3, 4, 5, 6, 128, 136, 137, 144, 254, 255, 256, 509, 510, 511, 765, 1000})).Draw(t, "type"))
		var p []byte
		if c.Route == "extract" {
			p = genPayload(t, 0)
		} else {
			p = validPayloadFor(t, c.Route, ty)
		}
		c.Msgs = append(c.Msgs, msg{Type: ty, Payload: p})
	}
	return c
}

func TestLists(t *testing.T) {
	harness.RunRapid(t, "lists", func(rt *rapid.T) {
		c := genList(rt)
		raw, _ := json.Marshal(c)
		big, esc := false, false
		var rb []byte
		for _, m := range c.Msgs {
			if m.Type >= 255 || len(m.Payload) >= 255 {
				big = true
			}
			rb = append(rb, m.Payload...)
		}
		ref := refSEI(c.Msgs)
		total := 0
		for _, m := range c.Msgs {
			total += 2 + int(m.Type/255) + len(m.Payload)/255 + len(m.Payload)
		}
		esc = len(ref) > total+1
		cls := []string{"list-route-" + c.Route}
		if big {
			cls = append(cls, "list-type-or-size>=255")
		}
		if esc {
			cls = append(cls, "list-needs-escape")
		}
		harness.Rec.Case(big || esc, raw, cls...)
		if (big || esc) && harness.Rec.WantSample() && len(raw) < 500 {
			harness.Rec.Sample(map[string]interface{}{"kind": "seilist", "case": c})
		}
		harness.Report(rt, "seilist", c, harness.Guarded(func() *harness.Fail { return checkList(c) }))
	})
}

// ---------------------------------------------------------------------------------------------
// AVC pic timing

type clockAvc struct {
	Present, NuitFieldBased, Full, Disc, CntDropped, SecF, MinF, HourF bool
	CtType, CountingType, NFrames, H, M, S                             byte
	Offset                                                             int
}

type picTimingCase struct {
	HasHRD        bool       `json:"has_hrd"`
	CpbLenM1      byte       `json:"cpb_len_m1"`
	DpbLenM1      byte       `json:"dpb_len_m1"`
	Cpb, Dpb      uint       `json:"-"`
	CpbV          uint64     `json:"cpb"`
	DpbV          uint64     `json:"dpb"`
	TimeOffsetLen byte       `json:"time_offset_len"`
	PictStruct    byte       `json:"pict_struct"`
	Clocks        []clockAvc `json:"clocks"`
}

func genClockAvc(t *rapid.T, tol byte) clockAvc {
	c := clockAvc{Present: rapid.Bool().Draw(t, "present")}
	if !c.Present {
		return c
	}
	c.CtType = byte(rapid.IntRange(0, 3).Draw(t, "ct"))
	c.NuitFieldBased = rapid.Bool().Draw(t, "nuit")
	c.CountingType = byte(rapid.IntRange(0, 31).Draw(t, "counting"))
	c.Full = rapid.Bool().Draw(t, "full")
	c.Disc = rapid.Bool().Draw(t, "disc")
	c.CntDropped = rapid.Bool().Draw(t, "cnt")
	c.NFrames = rapid.Byte().Draw(t, "nframes")
	if c.Full {
		c.S, c.M, c.H = byte(rapid.IntRange(0, 63).Draw(t, "s")), byte(rapid.IntRange(0, 63).Draw(t, "m")), byte(rapid.IntRange(0, 31).Draw(t, "h"))
	} else {
		c.SecF = rapid.Bool().Draw(t, "sf")
		if c.SecF {
			c.S = byte(rapid.IntRange(0, 63).Draw(t, "s"))
			c.MinF = rapid.Bool().Draw(t, "mf")
			if c.MinF {
				c.M = byte(rapid.IntRange(0, 63).Draw(t, "m"))
				c.HourF = rapid.Bool().Draw(t, "hf")
				if c.HourF {
					c.H = byte(rapid.IntRange(0, 31).Draw(t, "h"))
				}
			}
		}
	}
	if tol > 0 {
		lo, hi := -(int64(1) << (tol - 1)), int64(1)<<(tol-1)-1
		c.Offset = int(rapid.OneOf(rapid.Int64Range(lo, hi), rapid.SampledFrom([]int64{lo, hi, 0, -1, 1}).Filter(func(v int64) bool { return v >= lo && v <= hi })).Draw(t, "offset"))
	}
	return c
}

func genPicTiming(t *rapid.T, allowHRD bool) picTimingCase {
	c := picTimingCase{}
	if allowHRD {
		c.HasHRD = rapid.Bool().Draw(t, "hrd")
		c.TimeOffsetLen = byte(rapid.OneOf(rapid.IntRange(0, 31), rapid.SampledFrom([]int{0, 1, 24, 31})).Draw(t, "tol"))
	}
	if c.HasHRD {
		c.CpbLenM1 = byte(rapid.IntRange(0, 31).Draw(t, "cpblen"))
		c.DpbLenM1 = byte(rapid.IntRange(0, 31).Draw(t, "dpblen"))
		c.CpbV = rapid.Uint64Range(0, 1<<(uint(c.CpbLenM1)+1)-1).Draw(t, "cpb")
		c.DpbV = rapid.Uint64Range(0, 1<<(uint(c.DpbLenM1)+1)-1).Draw(t, "dpb")
	}
	c.PictStruct = byte(rapid.IntRange(0, 8).Draw(t, "ps"))
	n := 1
	if c.PictStruct >= 3 {
		n = 2
	}
	if c.PictStruct >= 5 {
		n = 3
	}
	for i := 0; i < n; i++ {
		c.Clocks = append(c.Clocks, genClockAvc(t, c.TimeOffsetLen))
	}
	return c
}

// refPicTiming: H.264 D.1.3 pic_timing written by the harness' own bit writer
func refPicTiming(c picTimingCase) []byte {
	w := nalgen.NewBitWriter()
	if c.HasHRD {
		w.U(c.CpbV, int(c.CpbLenM1)+1)
		w.U(c.DpbV, int(c.DpbLenM1)+1)
	}
	w.U(uint64(c.PictStruct), 4)
	for _, k := range c.Clocks {
		w.Flag(k.Present)
		if !k.Present {
			continue
		}
		w.U(uint64(k.CtType), 2)
		w.Flag(k.NuitFieldBased)
		w.U(uint64(k.CountingType), 5)
		w.Flag(k.Full)
		w.Flag(k.Disc)
		w.Flag(k.CntDropped)
		w.U(uint64(k.NFrames), 8)
		if k.Full {
			w.U(uint64(k.S), 6)
			w.U(uint64(k.M), 6)
			w.U(uint64(k.H), 5)
		} else {
			w.Flag(k.SecF)
			if k.SecF {
				w.U(uint64(k.S), 6)
				w.Flag(k.MinF)
				if k.MinF {
					w.U(uint64(k.M), 6)
					w.Flag(k.HourF)
					if k.HourF {
						w.U(uint64(k.H), 5)
					}
				}
			}
		}
		if c.TimeOffsetLen > 0 {
			w.U(uint64(int64(k.Offset))&(1<<c.TimeOffsetLen-1), int(c.TimeOffsetLen))
		}
	}
	return w.Out()
}

func (c picTimingCase) message() *sei.PicTimingAvcSEI {
	m := &sei.PicTimingAvcSEI{TimeOffsetLength: c.TimeOffsetLen, PictStruct: c.PictStruct}
	if c.HasHRD {
		m.CbpDbpDelay = &sei.CbpDbpDelay{CpbRemovalDelay: uint(c.CpbV), DpbOutputDelay: uint(c.DpbV),
			CpbRemovalDelayLengthMinus1: c.CpbLenM1, DpbOutputDelayLengthMinus1: c.DpbLenM1}
	}
	for _, k := range c.Clocks {
		m.Clocks = append(m.Clocks, sei.ClockTSAvc{CtType: k.CtType, NuitFieldBasedFlag: k.NuitFieldBased, CountingType: k.CountingType,
			NFrames: k.NFrames, Hours: k.H, Minutes: k.M, Seconds: k.S, ClockTimeStampFlag: k.Present, FullTimeStampFlag: k.Full,
			SecondsFlag: k.SecF, MinutesFlag: k.MinF, HoursFlag: k.HourF, DiscontinuityFlag: k.Disc, CntDroppedFlag: k.CntDropped,
			TimeOffsetLength: c.TimeOffsetLen, TimeOffsetValue: k.Offset})
	}
	return m
}

func checkPicTiming(c picTimingCase) *harness.Fail {
	m := c.message()
	ref := refPicTiming(c)
	p := m.Payload()
	if !bytes.Equal(p, ref) {
		return harness.Failf("C17|PicTimingAvcSEI.Payload|differs from reference serialisation", "got %x want %x (%+v)", p, ref, c)
	}
	if m.Size() != uint(len(p)) {
		return harness.Failf("C17|PicTimingAvcSEI.Size|differs from serialised length", "Size %d len %d", m.Size(), len(p))
	}
	var cbp *sei.CbpDbpDelay
	if c.HasHRD {
		cbp = &sei.CbpDbpDelay{CpbRemovalDelayLengthMinus1: c.CpbLenM1, DpbOutputDelayLengthMinus1: c.DpbLenM1}
	}
	got, err := sei.DecodePicTimingAvcSEIHRD(sei.NewSEIData(1, p), cbp, c.TimeOffsetLen)
	if err != nil {
		return harness.Failf("C17|DecodePicTimingAvcSEIHRD|error", "%v (payload %x)", err, p)
	}
	if !reflect.DeepEqual(got, sei.SEIMessage(m)) {
		return harness.Failf("C17|DecodePicTimingAvcSEIHRD|decoded message differs", "payload %x:\n got %s\nwant %s", p, dump(got), dump(m))
	}
	if !c.HasHRD && c.TimeOffsetLen == 0 {
		got2, err := sei.DecodeSEIMessage(sei.NewSEIData(1, p), sei.AVC)
		if err != nil || !reflect.DeepEqual(got2, sei.SEIMessage(m)) {
			return harness.Failf("C17|DecodeSEIMessage(AVC pic timing)|decoded message differs", "payload %x err %v", p, err)
		}
	}
	_ = got.String()
	return nil
}

func dump(v interface{}) string {
	b, _ := json.Marshal(v)
	return fmt.Sprintf("%+v / %s", v, b)
}

func TestPicTiming(t *testing.T) {
	harness.RunRapid(t, "pictiming", func(rt *rapid.T) {
		c := genPicTiming(rt, true)
		raw, _ := json.Marshal(c)
		bits := len(refPicTiming(c))
		cls := []string{fmt.Sprintf("pictiming-clocks%d", len(c.Clocks))}
		if c.HasHRD {
			cls = append(cls, "pictiming-hrd")
		}
		if c.TimeOffsetLen > 0 {
			cls = append(cls, "pictiming-timeoffset")
		}
		harness.Rec.Case(c.HasHRD || c.TimeOffsetLen > 0 || bits > 2, raw, cls...)
		if harness.Rec.WantSample() && c.HasHRD {
			harness.Rec.Sample(map[string]interface{}{"kind": "pictiming", "case": c})
		}
		harness.Report(rt, "pictiming", c, harness.Guarded(func() *harness.Fail { return checkPicTiming(c) }))
	})
}

// ---------------------------------------------------------------------------------------------
// HEVC time code (136)

type clockTC struct {
	Present, UnitsFieldBased, Full, Disc, CntDropped, SecF, MinF, HourF bool
	CountingType, H, M, S, OffLen                                       byte
	NFrames                                                             uint16
	Offset                                                              uint32
}

type timeCodeCase struct {
	Clocks []clockTC `json:"clocks"`
}

func genTimeCode(t *rapid.T) timeCodeCase {
	c := timeCodeCase{}
	n := rapid.IntRange(0, 3).Draw(t, "n")
	for i := 0; i < n; i++ {
		k := clockTC{Present: rapid.IntRange(0, 4).Draw(t, "present") > 0}
		if k.Present {
			k.UnitsFieldBased = rapid.Bool().Draw(t, "ufb")
			k.CountingType = byte(rapid.IntRange(0, 31).Draw(t, "counting"))
			k.Full = rapid.Bool().Draw(t, "full")
			k.Disc = rapid.Bool().Draw(t, "disc")
			k.CntDropped = rapid.Bool().Draw(t, "cnt")
			k.NFrames = uint16(rapid.IntRange(0, 511).Draw(t, "nframes"))
			if k.Full {
				k.S, k.M, k.H = byte(rapid.IntRange(0, 63).Draw(t, "s")), byte(rapid.IntRange(0, 63).Draw(t, "m")), byte(rapid.IntRange(0, 31).Draw(t, "h"))
			} else {
				k.SecF = rapid.Bool().Draw(t, "sf")
				if k.SecF {
					k.S = byte(rapid.IntRange(0, 63).Draw(t, "s"))
					k.MinF = rapid.Bool().Draw(t, "mf")
					if k.MinF {
						k.M = byte(rapid.IntRange(0, 63).Draw(t, "m"))
						k.HourF = rapid.Bool().Draw(t, "hf")
						if k.HourF {
							k.H = byte(rapid.IntRange(0, 31).Draw(t, "h"))
						}
					}
				}
			}
			k.OffLen = byte(rapid.OneOf(rapid.IntRange(0, 31), rapid.SampledFrom([]int{0, 0, 1, 31})).Draw(t, "offlen"))
			if k.OffLen > 0 {
				k.Offset = uint32(rapid.Uint64Range(0, 1<<k.OffLen-1).Draw(t, "offset"))
			}
		}
		c.Clocks = append(c.Clocks, k)
	}
	return c
}

func tcBits(c timeCodeCase) *nalgen.BitWriter {
	w := nalgen.NewBitWriter()
	w.U(uint64(len(c.Clocks)), 2)
	for _, k := range c.Clocks {
		w.Flag(k.Present)
		if !k.Present {
			continue
		}
		w.Flag(k.UnitsFieldBased)
		w.U(uint64(k.CountingType), 5)
		w.Flag(k.Full)
		w.Flag(k.Disc)
		w.Flag(k.CntDropped)
		w.U(uint64(k.NFrames), 9)
		if k.Full {
			w.U(uint64(k.S), 6)
			w.U(uint64(k.M), 6)
			w.U(uint64(k.H), 5)
		} else {
			w.Flag(k.SecF)
			if k.SecF {
				w.U(uint64(k.S), 6)
				w.Flag(k.MinF)
				if k.MinF {
					w.U(uint64(k.M), 6)
					w.Flag(k.HourF)
					if k.HourF {
						w.U(uint64(k.H), 5)
					}
				}
			}
		}
		w.U(uint64(k.OffLen), 5)
		if k.OffLen > 0 {
			w.U(uint64(k.Offset), int(k.OffLen))
		}
	}
	return w
}

// refTimeCode: H.265 D.2.27 time_code; the sei_payload is completed with payload bit equal to one +
// alignment zeros when the syntax does not end byte aligned (D.2.1 / 7.3.5).
func refTimeCode(c timeCodeCase) []byte {
	w := tcBits(c)
	if !w.Aligned() {
		w.TrailingBits()
	}
	return w.Out()
}

func (c timeCodeCase) message() *sei.TimeCodeSEI {
	m := &sei.TimeCodeSEI{}
	for _, k := range c.Clocks {
		m.Clocks = append(m.Clocks, sei.ClockTS{TimeOffsetValue: k.Offset, NFrames: k.NFrames, Hours: k.H, Minutes: k.M, Seconds: k.S,
			ClockTimeStampFlag: k.Present, UnitsFieldBasedFlag: k.UnitsFieldBased, FullTimeStampFlag: k.Full, SecondsFlag: k.SecF,
			MinutesFlag: k.MinF, HoursFlag: k.HourF, DiscontinuityFlag: k.Disc, CntDroppedFlag: k.CntDropped, CountingType: k.CountingType,
			TimeOffsetLength: k.OffLen})
	}
	return m
}

func checkTimeCode(c timeCodeCase) *harness.Fail {
	m := c.message()
	p := m.Payload()
	if ref := refTimeCode(c); !bytes.Equal(p, ref) {
		return harness.Failf("C17|TimeCodeSEI.Payload|differs from reference serialisation", "got %x want %x", p, ref)
	}
	if m.Size() != uint(len(p)) {
		return harness.Failf("C17|TimeCodeSEI.Size|differs from serialised length", "Size %d len %d (payload %x)", m.Size(), len(p), p)
	}
	got, err := sei.DecodeTimeCodeSEI(sei.NewSEIData(136, p))
	if err != nil {
		return harness.Failf("C17|DecodeTimeCodeSEI|error", "%v (payload %x)", err, p)
	}
	g := got.(*sei.TimeCodeSEI)
	if len(g.Clocks) != len(m.Clocks) {
		return harness.Failf("C17|DecodeTimeCodeSEI|clock count differs", "got %d want %d", len(g.Clocks), len(m.Clocks))
	}
	for i := range g.Clocks {
		if g.Clocks[i] != m.Clocks[i] {
			return harness.Failf("C17|DecodeTimeCodeSEI|decoded message differs", "payload %x clock %d: got %+v want %+v", p, i, g.Clocks[i], m.Clocks[i])
		}
	}
	got2, err := sei.DecodeSEIMessage(sei.NewSEIData(136, p), sei.HEVC)
	if err != nil || len(got2.(*sei.TimeCodeSEI).Clocks) != len(m.Clocks) {
		return harness.Failf("C17|DecodeSEIMessage(HEVC time code)|differs", "err %v", err)
	}
	if len(m.Clocks) > 0 {
		_ = got.String() // zero clocks: String() indexes Clocks[0]; that robustness issue is judged under C16
	}
	return nil
}

func TestTimeCode(t *testing.T) {
	harness.RunRapid(t, "timecode", func(rt *rapid.T) {
		c := genTimeCode(rt)
		raw, _ := json.Marshal(c)
		aligned := tcBits(c).Aligned()
		cls := []string{fmt.Sprintf("timecode-clocks%d", len(c.Clocks))}
		if aligned {
			cls = append(cls, "timecode-bitlength-multiple-of-8")
		}
		harness.Rec.Case(len(c.Clocks) > 0, raw, cls...)
		if harness.Rec.WantSample() && len(c.Clocks) >= 2 {
			harness.Rec.Sample(map[string]interface{}{"kind": "timecode", "case": c})
		}
		harness.Report(rt, "timecode", c, harness.Guarded(func() *harness.Fail { return checkTimeCode(c) }))
	})
}

// ---------------------------------------------------------------------------------------------
// 137 / 144

type fixedCase struct {
	Kind int       `json:"kind"` // 137 | 144
	PX   [3]uint16 `json:"px"`
	PY   [3]uint16 `json:"py"`
	WX   uint16    `json:"wx"`
	WY   uint16    `json:"wy"`
	MaxL uint32    `json:"maxl"`
	MinL uint32    `json:"minl"`
	CLL  uint16    `json:"cll"`
	FALL uint16    `json:"fall"`
}

func checkFixed(c fixedCase) *harness.Fail {
	be16 := func(b []byte, v uint16) []byte { return append(b, byte(v>>8), byte(v)) }
	be32 := func(b []byte, v uint32) []byte { return append(b, byte(v>>24), byte(v>>16), byte(v>>8), byte(v)) }
	if c.Kind == 137 {
		m := sei.MasteringDisplayColourVolumeSEI{DisplayPrimariesX: c.PX, DisplayPrimariesY: c.PY, WhitePointX: c.WX, WhitePointY: c.WY,
			MaxDisplayMasteringLuminance: c.MaxL, MinDisplayMasteringLuminance: c.MinL}
		var ref []byte
		for i := 0; i < 3; i++ {
			ref = be16(be16(ref, c.PX[i]), c.PY[i])
		}
		ref = be32(be32(be16(be16(ref, c.WX), c.WY), c.MaxL), c.MinL)
		p := m.Payload()
		if !bytes.Equal(p, ref) {
			return harness.Failf("C17|MasteringDisplayColourVolumeSEI.Payload|differs from reference", "got %x want %x", p, ref)
		}
		if m.Size() != uint(len(p)) {
			return harness.Failf("C17|MasteringDisplayColourVolumeSEI.Size|differs", "")
		}
		got, err := sei.DecodeSEIMessage(sei.NewSEIData(137, p), sei.HEVC)
		if err != nil {
			return harness.Failf("C17|DecodeMasteringDisplayColourVolumeSEI|error", "%v", err)
		}
		if g, ok := got.(*sei.MasteringDisplayColourVolumeSEI); !ok || *g != m {
			return harness.Failf("C17|DecodeMasteringDisplayColourVolumeSEI|decoded message differs", "got %+v want %+v", got, m)
		}
		_ = got.String()
		return nil
	}
	m := sei.ContentLightLevelInformationSEI{MaxContentLightLevel: c.CLL, MaxPicAverageLightLevel: c.FALL}
	p := m.Payload()
	if ref := be16(be16(nil, c.CLL), c.FALL); !bytes.Equal(p, ref) {
		return harness.Failf("C17|ContentLightLevelInformationSEI.Payload|differs from reference", "got %x want %x", p, ref)
	}
	if m.Size() != uint(len(p)) {
		return harness.Failf("C17|ContentLightLevelInformationSEI.Size|differs", "")
	}
	got, err := sei.DecodeSEIMessage(sei.NewSEIData(144, p), sei.HEVC)
	if err != nil {
		return harness.Failf("C17|DecodeContentLightLevelInformationSEI|error", "%v", err)
	}
	if g, ok := got.(*sei.ContentLightLevelInformationSEI); !ok || *g != m {
		return harness.Failf("C17|DecodeContentLightLevelInformationSEI|decoded message differs", "got %+v want %+v", got, m)
	}
	_ = got.String()
	return nil
}

func TestFixed(t *testing.T) {
	u16 := rapid.OneOf(rapid.Uint16(), rapid.SampledFrom([]uint16{0, 1, 255, 256, 0x7fff, 0x8000, 0xffff}))
	u32 := rapid.OneOf(rapid.Uint32(), rapid.SampledFrom([]uint32{0, 1, 0xffff, 0x10000, 0x7fffffff, 0x80000000, 0xffffffff}))
	harness.RunRapid(t, "fixed", func(rt *rapid.T) {
		c := fixedCase{Kind: rapid.SampledFrom([]int{137, 144}).Draw(rt, "kind")}
		if c.Kind == 137 {
			for i := 0; i < 3; i++ {
				c.PX[i], c.PY[i] = u16.Draw(rt, "px"), u16.Draw(rt, "py")
			}
			c.WX, c.WY, c.MaxL, c.MinL = u16.Draw(rt, "wx"), u16.Draw(rt, "wy"), u32.Draw(rt, "maxl"), u32.Draw(rt, "minl")
		} else {
			c.CLL, c.FALL = u16.Draw(rt, "cll"), u16.Draw(rt, "fall")
		}
		raw, _ := json.Marshal(c)
		harness.Rec.Case(true, raw, fmt.Sprintf("fixed-%d", c.Kind))
		harness.Report(rt, "fixedsei", c, harness.Guarded(func() *harness.Fail { return checkFixed(c) }))
	})
}

// ---------------------------------------------------------------------------------------------
// pass-through messages

type passCase struct {
	Kind    string                  `json:"kind"` // "registered" | "cea608" | "unregistered" | "hevcpictiming"
	Payload harness.HexBytes        `json:"payload"`
	Params  sei.HEVCPicTimingParams `json:"params"`
	PT      *hevcPT                 `json:"pt,omitempty"`
}

// hevcPT is the value tree of an HEVC pic_timing SEI (H.265 D.2.3) for the given external parameters.
type hevcPT struct {
	PicStruct, Scan uint8
	Dup             bool
	Au, Dpb, Du     uint32
	Common          bool
	CommonInc       uint32
	Nalus, Incs     []uint32
}

func refHevcPT(pr sei.HEVCPicTimingParams, v *hevcPT) []byte {
	w := nalgen.NewBitWriter()
	if pr.FrameFieldInfoPresentFlag {
		w.U(uint64(v.PicStruct), 4)
		w.U(uint64(v.Scan), 2)
		w.Flag(v.Dup)
	}
	if pr.CpbDpbDelaysPresentFlag {
		w.U(uint64(v.Au), int(pr.AuCbpRemovalDelayLengthMinus1)+1)
		w.U(uint64(v.Dpb), int(pr.DpbOutputDelayLengthMinus1)+1)
		if pr.SubPicHrdParamsPresentFlag {
			w.U(uint64(v.Du), int(pr.DpbOutputDelayDuLengthMinus1)+1)
			if pr.SubPicCpbParamsInPicTimingSeiFlag {
				il := int(pr.DuCpbRemovalDelayIncrementLengthMinus1) + 1
				w.UE(uint64(len(v.Nalus) - 1))
				w.Flag(v.Common)
				if v.Common {
					w.U(uint64(v.CommonInc), il)
				}
				for i, n := range v.Nalus {
					w.UE(uint64(n))
					if !v.Common && i < len(v.Nalus)-1 {
						w.U(uint64(v.Incs[i]), il)
					}
				}
			}
		}
	}
	if !w.Aligned() {
		w.TrailingBits()
	}
	return w.Out()
}

func checkPass(c passCase) *harness.Fail {
	var got sei.SEIMessage
	var err error
	wantType := uint(0)
	switch c.Kind {
	case "registered", "cea608":
		wantType = 4
		codec := sei.AVC
		if len(c.Payload)%2 == 1 {
			codec = sei.HEVC
		}
		got, err = sei.DecodeSEIMessage(sei.NewSEIData(4, c.Payload), codec)
	case "unregistered":
		wantType = 5
		got, err = sei.DecodeSEIMessage(sei.NewSEIData(5, c.Payload), sei.HEVC)
	case "hevcpictiming":
		wantType = 1
		got, err = sei.DecodePicTimingHevcSEI(sei.NewSEIData(1, c.Payload), c.Params)
	}
	if err != nil {
		return harness.Failf("C17|pass-through "+c.Kind+"|decode error", "%v (payload %x)", err, []byte(c.Payload))
	}
	if c.Kind == "hevcpictiming" && c.PT != nil {
		g := got.(*sei.PicTimingHevcSEI)
		v := c.PT
		bad := ""
		if c.Params.FrameFieldInfoPresentFlag != (g.FrameFieldInfo != nil) {
			bad = "FrameFieldInfo presence"
		} else if g.FrameFieldInfo != nil && (g.FrameFieldInfo.PicStruct != v.PicStruct || g.FrameFieldInfo.SourceScanType != v.Scan || g.FrameFieldInfo.DuplicateFlag != v.Dup) {
			bad = "FrameFieldInfo"
		} else if g.AuCpbRemovalDelayMinus1 != v.Au || g.PicDpbOutputDelay != v.Dpb || g.PicDpbOutputDuDelay != v.Du {
			bad = "delays"
		} else if g.DuCommonCpbRemovalDelayFlag != v.Common || g.DuCommonCpbRemovalDelayIncrementMinus1 != v.CommonInc {
			bad = "common du delay"
		} else if len(v.Nalus) > 0 && (int(g.NumDecodingUnitsMinus1) != len(v.Nalus)-1 || !reflect.DeepEqual(g.NumNalusInDuMinus1, v.Nalus)) {
			bad = "NumNalusInDuMinus1"
		} else if len(v.Incs) > 0 && !reflect.DeepEqual(g.DuCpbRemovalDelayIncrementMinus1[:len(v.Incs)], v.Incs) {
			bad = "DuCpbRemovalDelayIncrementMinus1"
		}
		if bad != "" {
			return harness.Failf("C17|DecodePicTimingHevcSEI|decoded "+bad+" differs from value tree", "payload %x params %+v: got %s want %+v", []byte(c.Payload), c.Params, dump(g), *v)
		}
	}
	if c.Kind == "cea608" {
		if _, ok := got.(*sei.CEA608sei); !ok {
			return harness.Failf("C17|pass-through cea608|not recognised as CEA-608", "%T", got)
		}
	}
	if got.Type() != wantType {
		return harness.Failf("C17|pass-through "+c.Kind+"|type differs", "got %d", got.Type())
	}
	if !bytes.Equal(got.Payload(), c.Payload) {
		return harness.Failf("C17|pass-through "+c.Kind+"|payload changed", "got %x want %x", got.Payload(), []byte(c.Payload))
	}
	if got.Size() != uint(len(c.Payload)) {
		return harness.Failf("C17|pass-through "+c.Kind+"|Size differs from payload length", "Size %d len %d", got.Size(), len(c.Payload))
	}
	_ = got.String()
	return nil
}

func genPass(t *rapid.T) passCase {
	c := passCase{Kind: rapid.SampledFrom([]string{"registered", "cea608", "unregistered", "hevcpictiming"}).Draw(t, "kind")}
	switch c.Kind {
	case "registered":
		p := genPayload(t, 8)
		if p[0] == 0xb5 && p[1] == 0 && p[2] == 0x31 && p[7] == 3 {
			p[7] = 4
		}
		c.Payload = p
	case "cea608":
		p := []byte{0xb5, 0x00, 0x31, 0x47, 0x41, 0x39, 0x34, 0x03}
		n := rapid.IntRange(0, 31).Draw(t, "cc_count")
		p = append(p, 0xc0|byte(n), 0xff)
		for i := 0; i < n; i++ {
			p = append(p, 0xf8|byte(rapid.IntRange(0, 7).Draw(t, "validtype")), rapid.Byte().Draw(t, "d1"), rapid.Byte().Draw(t, "d2"))
		}
		p = append(p, 0xff)
		c.Payload = p
	case "unregistered":
		c.Payload = genPayload(t, 16)
	case "hevcpictiming":
		pr := sei.HEVCPicTimingParams{FrameFieldInfoPresentFlag: rapid.Bool().Draw(t, "ffi"), CpbDpbDelaysPresentFlag: rapid.Bool().Draw(t, "cpbdpb"),
			SubPicHrdParamsPresentFlag: rapid.Bool().Draw(t, "subpic"), SubPicCpbParamsInPicTimingSeiFlag: rapid.Bool().Draw(t, "subpicinsei"),
			AuCbpRemovalDelayLengthMinus1: uint8(rapid.IntRange(0, 31).Draw(t, "a")), DpbOutputDelayLengthMinus1: uint8(rapid.IntRange(0, 31).Draw(t, "b")),
			DpbOutputDelayDuLengthMinus1: uint8(rapid.IntRange(0, 31).Draw(t, "c")), DuCpbRemovalDelayIncrementLengthMinus1: uint8(rapid.IntRange(0, 31).Draw(t, "d"))}
		c.Params = pr
		v := &hevcPT{}
		c.PT = v
		if pr.FrameFieldInfoPresentFlag {
			v.PicStruct, v.Scan, v.Dup = uint8(rapid.IntRange(0, 12).Draw(t, "pic_struct")), uint8(rapid.IntRange(0, 3).Draw(t, "scan")), rapid.Bool().Draw(t, "dup")
		}
		if pr.CpbDpbDelaysPresentFlag {
			v.Au = uint32(rapid.Uint64Range(0, 1<<(uint(pr.AuCbpRemovalDelayLengthMinus1)+1)-1).Draw(t, "au"))
			v.Dpb = uint32(rapid.Uint64Range(0, 1<<(uint(pr.DpbOutputDelayLengthMinus1)+1)-1).Draw(t, "dpb"))
			if pr.SubPicHrdParamsPresentFlag {
				v.Du = uint32(rapid.Uint64Range(0, 1<<(uint(pr.DpbOutputDelayDuLengthMinus1)+1)-1).Draw(t, "du"))
				if pr.SubPicCpbParamsInPicTimingSeiFlag {
					il := uint(pr.DuCpbRemovalDelayIncrementLengthMinus1) + 1
					n := rapid.IntRange(0, 6).Draw(t, "num_du_minus1")
					v.Common = rapid.Bool().Draw(t, "common")
					if v.Common {
						v.CommonInc = uint32(rapid.Uint64Range(0, 1<<il-1).Draw(t, "inc"))
					}
					for i := 0; i <= n; i++ {
						v.Nalus = append(v.Nalus, uint32(rapid.IntRange(0, 300).Draw(t, "nalus")))
						if !v.Common && i < n {
							v.Incs = append(v.Incs, uint32(rapid.Uint64Range(0, 1<<il-1).Draw(t, "inc")))
						}
					}
				}
			}
		}
		c.Payload = refHevcPT(pr, v)
	}
	return c
}

func TestPassThrough(t *testing.T) {
	harness.RunRapid(t, "pass", func(rt *rapid.T) {
		c := genPass(rt)
		raw, _ := json.Marshal(c)
		harness.Rec.Case(len(c.Payload) > 0, raw, "pass-"+c.Kind)
		harness.Report(rt, "passthrough", c, harness.Guarded(func() *harness.Fail { return checkPass(c) }))
	})
}
