// C17 — SEI messages survive write/parse round trips.
package c17

import (
	"bytes"
	"encoding/json"
	"errors"
	"fmt"
	"os"
	"reflect"
	"strings"
	"testing"

	"github.com/Eyevinn/mp4ff/avc"
	"github.com/Eyevinn/mp4ff/hevc"
	"github.com/Eyevinn/mp4ff/sei"
	"pgregory.net/rapid"

	"verif/internal/harness"
	"verif/internal/nalgen"
)

func TestMain(m *testing.M) { harness.Main(m) }

func init() {
	harness.RegisterReplay("seilist", harness.Replayer(checkList))
	harness.RegisterReplay("pictiming", harness.Replayer(checkPicTiming))
	harness.RegisterReplay("timecode", harness.Replayer(checkTimeCode))
	harness.RegisterReplay("fixedsei", harness.Replayer(checkFixed))
	harness.RegisterReplay("fixedpair", harness.Replayer(checkFixedPair))
	harness.RegisterReplay("pictimingreuse", harness.Replayer(checkPicTimingReuse))
	harness.RegisterReplay("timecodereuse", harness.Replayer(checkTimeCodeReuse))
	harness.RegisterReplay("passthrough", harness.Replayer(checkPass))
	// development aid: VERIF_C17_NOAVOID=all or a comma-separated list of switch names
	if v := os.Getenv("VERIF_C17_NOAVOID"); v == "all" {
		avoidKnown = map[string]bool{}
	} else if v != "" {
		for _, name := range strings.Split(v, ",") {
			delete(avoidKnown, name)
		}
	}
}

// avoidKnown lists library behaviours that contradict the property / the standard on the unchanged tree.
// The relation concerned is judged in the library's form (and counted with harness.Rec.Exclude(name)) so
// that the search continues behind it; a case carrying "noAvoid": true (the parked reproducers) is judged
// against the standard.
var avoidKnown = map[string]bool{}

// acceptZeroPadded: sei.PicTimingAvcSEI.Payload() completes a pic_timing whose syntax does not end byte
// aligned with zero bits only (FixedSliceWriter.FlushBits), where H.264 D.1 sei_payload() has "if(
// !byte_aligned( ) ) { bit_equal_to_one; while( !byte_aligned( ) ) bit_equal_to_zero }" (as H.265 D.2.1 has
// it and as sei.TimeCodeSEI.Payload() does). C17 demands that the serialised message decodes to an equal
// message and that Size() is the serialised length, not that stop bit: BOTH forms of the last byte are
// accepted (exactly that one bit is free), both are decoded, and which one the library wrote is counted in
// the classes "pictiming-zero-padded" / "pictiming-stop-bit". An observation, not a finding of C17.
const acceptZeroPadded = true

func avoid(noAvoid bool, name string) bool {
	if noAvoid || !avoidKnown[name] {
		return false
	}
	harness.Rec.Exclude(name)
	return true
}

// withoutStopBit returns the payload with the sei_payload stop bit (bit number nbits, 0 = MSB of byte 0)
// cleared: the library's form of an AVC pic_timing payload of nbits syntax bits, nbits%8 != 0.
func withoutStopBit(p []byte, nbits int) []byte {
	q := append([]byte{}, p...)
	if nbits%8 != 0 && nbits/8 < len(q) {
		q[nbits/8] &^= 0x80 >> uint(nbits%8)
	}
	return q
}

func TestReplay(t *testing.T) { harness.ReplayPath(t) }

// ---------------------------------------------------------------------------------------------
// message lists

type msg struct {
	Type    uint             `json:"type"`
	Payload harness.HexBytes `json:"payload"` // the expected payload (for typed messages: the reference serialisation)
	// PTBits: number of syntax bits of an AVC pic_timing payload that was serialised from a value tree (the
	// rest of the last byte is the sei_payload stop bit + alignment); 0 for everything else
	PTBits int `json:"pt_bits,omitempty"`
	// Typed: the message is handed to WriteSEIMessages as a typed message object built from this value
	// tree instead of a *sei.SEIData
	Typed *typedMsg `json:"typed,omitempty"`
}

type typedMsg struct {
	Kind string         `json:"kind"` // "pictiming" (AVC, no HRD) | "timecode" | "137" | "144" | "cea608" (decoded from Payload)
	PT   *picTimingCase `json:"pt,omitempty"`
	TC   *timeCodeCase  `json:"tc,omitempty"`
	FX   *fixedCase     `json:"fx,omitempty"`
}

type listCase struct {
	Msgs    []msg  `json:"msgs"`
	Route   string `json:"route"` // "extract" | "avc" | "hevc"
	NoAvoid bool   `json:"noAvoid,omitempty"`
}

// object builds the message object handed to the writer and the (type, payload) pair the value tree stands for.
func (m msg) object() (sei.SEIMessage, uint, []byte, *harness.Fail) {
	if m.Typed == nil {
		return sei.NewSEIData(m.Type, append([]byte{}, m.Payload...)), m.Type, m.Payload, nil
	}
	t := m.Typed
	switch {
	case t.Kind == "pictiming" && t.PT != nil:
		return t.PT.message(), 1, refPicTiming(*t.PT), nil
	case t.Kind == "timecode" && t.TC != nil:
		return t.TC.message(), 136, refTimeCode(*t.TC), nil
	case (t.Kind == "137" || t.Kind == "144") && t.FX != nil:
		o, ref := t.FX.message()
		return o, uint(t.FX.Kind), ref, nil
	case t.Kind == "cea608":
		o, err := sei.DecodeSEIMessage(sei.NewSEIData(4, append([]byte{}, m.Payload...)), sei.AVC)
		if err != nil {
			return nil, 0, nil, harness.Failf("C17|pass-through cea608|decode error", "%v (payload %x)", err, []byte(m.Payload))
		}
		if _, ok := o.(*sei.CEA608sei); !ok {
			return nil, 0, nil, harness.Failf("C17|pass-through cea608|not recognised as CEA-608", "%T", o)
		}
		return o, 4, m.Payload, nil
	}
	return nil, 0, nil, harness.Failf("harness|c17|bad-case", "typed message %+v", *t)
}

// refSEI serialises the sei_rbsp independently: ff-run coded type and size, payload, trailing bits; then escapes.
func refSEI(msgs []msg) []byte {
	w := nalgen.NewBitWriter()
	ffrun := func(v uint) {
		for v >= 255 {
			w.U(0xff, 8)
			v -= 255
		}
		w.U(uint64(v), 8)
	}
	for _, m := range msgs {
		ffrun(m.Type)
		ffrun(uint(len(m.Payload)))
		w.Bytes(m.Payload)
	}
	w.TrailingBits()
	return nalgen.Escape(w.Out())
}

func checkList(c listCase) *harness.Fail {
	var in []sei.SEIMessage
	// wire: what the property expects on the wire; back: what Payload() of the parsed message is expected
	// to return. Both are the (type, payload) pairs of the case, except behind the known switch: an AVC
	// pic_timing with a partial last byte is serialised by the library when it is written from a typed
	// message, and again by Payload() of the message decoded on the avc route.
	wire := make([]msg, len(c.Msgs))
	back := make([]msg, len(c.Msgs))
	libWire := make([]msg, len(c.Msgs)) // the library's form, for naming the root cause
	affected := false
	for i, m := range c.Msgs {
		o, ty, ref, f := m.object()
		if f != nil {
			return f
		}
		if ty != m.Type || !bytes.Equal(ref, m.Payload) {
			return harness.Failf("harness|c17|bad-case", "msg %d: (type,payload) of the case (%d,%x) is not the reference serialisation of its value tree (%d,%x)", i, m.Type, []byte(m.Payload), ty, ref)
		}
		in = append(in, o)
		wire[i] = msg{Type: m.Type, Payload: m.Payload}
		back[i], libWire[i] = wire[i], wire[i]
		if m.Type == 1 && m.PTBits%8 != 0 && (m.Typed != nil || c.Route == "avc") {
			affected = true
		}
	}
	useLib := affected && acceptZeroPadded
	for i, m := range c.Msgs {
		if m.Type != 1 || m.PTBits%8 == 0 {
			continue
		}
		lib := withoutStopBit(m.Payload, m.PTBits)
		if m.Typed != nil {
			libWire[i].Payload = lib
			if useLib {
				wire[i].Payload, back[i].Payload = lib, lib
			}
		}
		if c.Route == "avc" && useLib {
			back[i].Payload = lib
		}
	}
	buf := bytes.Buffer{}
	if err := sei.WriteSEIMessages(&buf, in); err != nil {
		return harness.Failf("C17|WriteSEIMessages|error", "%v", err)
	}
	out := buf.Bytes()
	if ref := refSEI(wire); !bytes.Equal(out, ref) {
		key := "C17|WriteSEIMessages|bytes differ from reference sei_rbsp"
		if bytes.Equal(out, refSEI(libWire)) {
			key = "C17|PicTimingAvcSEI.Payload|no bit_equal_to_one before the alignment zeros"
		}
		return harness.Failf(key, "got %s want %s", harness.HexTrunc(out, 300), harness.HexTrunc(ref, 300))
	}
	switch c.Route {
	case "extract":
		got, err := sei.ExtractSEIData(bytes.NewReader(out))
		if err != nil {
			key := "C17|ExtractSEIData|error"
			if errors.Is(err, sei.ErrRbspTrailingBitsMissing) {
				key = "C17|ExtractSEIData|trailing-bits error on written stream"
			}
			return harness.Failf(key, "%v (stream %s)", err, harness.HexTrunc(out, 300))
		}
		if len(got) != len(c.Msgs) {
			return harness.Failf("C17|ExtractSEIData|message count differs", "got %d want %d (stream %s)", len(got), len(c.Msgs), harness.HexTrunc(out, 300))
		}
		for i := range got {
			if got[i].Type() != wire[i].Type || !bytes.Equal(got[i].Payload(), wire[i].Payload) {
				return harness.Failf("C17|ExtractSEIData|(type,payload) differs", "msg %d: got (%d,%s) want (%d,%s)", i, got[i].Type(), harness.HexTrunc(got[i].Payload(), 80), wire[i].Type, harness.HexTrunc(wire[i].Payload, 80))
			}
			if got[i].Size() != uint(len(wire[i].Payload)) {
				return harness.Failf("C17|SEIData.Size|differs", "msg %d", i)
			}
		}
	case "avc", "hevc":
		var msgs []sei.SEIMessage
		var err error
		if c.Route == "avc" {
			msgs, err = avc.ParseSEINalu(append([]byte{0x06}, out...), nil)
		} else {
			msgs, err = hevc.ParseSEINalu(append([]byte{0x4e, 0x01}, out...), nil)
		}
		if err != nil {
			return harness.Failf("C17|"+c.Route+".ParseSEINalu|error", "%v (stream %s)", err, harness.HexTrunc(out, 300))
		}
		if len(msgs) != len(c.Msgs) {
			return harness.Failf("C17|"+c.Route+".ParseSEINalu|message count differs", "got %d want %d", len(msgs), len(c.Msgs))
		}
		for i := range msgs {
			if msgs[i].Type() != back[i].Type || !bytes.Equal(msgs[i].Payload(), back[i].Payload) {
				key := "C17|" + c.Route + ".ParseSEINalu|(type,payload) differs"
				if m := c.Msgs[i]; m.Type == 1 && m.PTBits%8 != 0 && msgs[i].Type() == 1 && bytes.Equal(msgs[i].Payload(), withoutStopBit(m.Payload, m.PTBits)) {
					key = "C17|PicTimingAvcSEI.Payload|no bit_equal_to_one before the alignment zeros"
				}
				return harness.Failf(key, "msg %d: got (%d,%s) want (%d,%s)", i, msgs[i].Type(), harness.HexTrunc(msgs[i].Payload(), 80), back[i].Type, harness.HexTrunc(back[i].Payload, 80))
			}
			if msgs[i].Size() != uint(len(back[i].Payload)) {
				return harness.Failf("C17|SEIMessage.Size|differs from payload length", "msg %d type %d: Size %d len %d", i, msgs[i].Type(), msgs[i].Size(), len(back[i].Payload))
			}
			_ = msgs[i].String()
		}
	}
	return nil
}

var payloadByte = rapid.OneOf(rapid.SampledFrom([]byte{0, 0, 0, 1, 2, 3, 0x80, 0xff}), rapid.Byte())

// bigSizes: payload sizes whose ff-run coding needs 4..274 size bytes and that lie around powers of two
var bigSizes = []int{1023, 1024, 1025, 4095, 4096, 65535, 65536, 70000}

func genPayload(t *rapid.T, min int) []byte {
	n := rapid.OneOf(rapid.IntRange(0, 20), rapid.IntRange(0, 700),
		rapid.SampledFrom([]int{0, 1, 253, 254, 255, 256, 509, 510, 511, 765})).Draw(t, "size")
	if rapid.IntRange(0, 49).Draw(t, "bigsize") == 0 { // about 2 %
		n = rapid.SampledFrom(bigSizes).Draw(t, "size")
	}
	if n < min {
		n = min
	}
	var p []byte
	if n > 1000 {
		// a drawn period of 1..61 bytes repeated: cheap to draw, still zero-heavy
		unit := rapid.SliceOfN(payloadByte, 1, 61).Draw(t, "unit")
		p = make([]byte, n)
		for i := range p {
			p[i] = unit[i%len(unit)]
		}
	} else {
		p = rapid.SliceOfN(payloadByte, n, n).Draw(t, "payload")
	}
	switch rapid.IntRange(0, 5).Draw(t, "tailshape") {
	case 0:
		if n >= 1 {
			p[n-1] = 0
		}
	case 1:
		if n >= 2 {
			p[n-1], p[n-2] = 0, 0
		}
	case 2:
		if n >= 1 {
			p[0] = 0x80
		}
	}
	return p
}

// typed payload generators for types whose decoders interpret the payload (used on the avc/hevc routes)
// The second result is the number of syntax bits of a generated AVC pic_timing payload (msg.PTBits).
func validPayloadFor(t *rapid.T, route string, ty uint) ([]byte, int) {
	switch {
	case ty == 4:
		p := genPayload(t, 8)
		if p[0] == 0xb5 && p[1] == 0 && p[2] == 0x31 {
			p[0] = 0xb4 // keep it a plain registered message here; CEA-608 comes as typed message and in the pass-through test
		}
		return p, 0
	case ty == 5:
		return genPayload(t, 16), 0
	case ty == 1 && route == "avc":
		pt := genPicTiming(t, false)
		return refPicTiming(pt), ptBits(pt).NrBits()
	case ty == 136 && route == "hevc":
		return refTimeCode(genTimeCode(t)), 0
	case ty == 137 && route == "hevc":
		return rapid.SliceOfN(rapid.Byte(), 24, 24).Draw(t, "p137"), 0
	case ty == 144 && route == "hevc":
		return rapid.SliceOfN(rapid.Byte(), 4, 4).Draw(t, "p144"), 0
	}
	return genPayload(t, 0), 0
}

// genTypedMsg: a message that reaches WriteSEIMessages as a typed object; (Type, Payload) is the reference
// serialisation of its value tree.
func genTypedMsg(t *rapid.T) msg {
	switch kind := rapid.SampledFrom([]string{"pictiming", "timecode", "137", "144", "cea608"}).Draw(t, "typedkind"); kind {
	case "pictiming":
		pt := genPicTiming(t, false)
		return msg{Type: 1, Payload: refPicTiming(pt), PTBits: ptBits(pt).NrBits(), Typed: &typedMsg{Kind: kind, PT: &pt}}
	case "timecode":
		tc := genTimeCode(t)
		return msg{Type: 136, Payload: refTimeCode(tc), Typed: &typedMsg{Kind: kind, TC: &tc}}
	case "137", "144":
		k := 137
		if kind == "144" {
			k = 144
		}
		fx := genFixed(t, k)
		_, ref := fx.message()
		return msg{Type: uint(k), Payload: ref, Typed: &typedMsg{Kind: kind, FX: &fx}}
	}
	return msg{Type: 4, Payload: genCEA608(t), Typed: &typedMsg{Kind: "cea608"}}
}

func genList(t *rapid.T) listCase {
	c := listCase{Route: rapid.SampledFrom([]string{"extract", "extract", "avc", "hevc"}).Draw(t, "route")}
	// list length: 1..6 mostly, 20..40 in about one case of ten. An empty list is not generated: the
	// property speaks of "the same list of (type, payload) pairs" extracted from the written sei_rbsp, and
	// sei_rbsp() (H.264 7.3.2.3 / H.265 7.3.2.4: do sei_message() while more_rbsp_data()) holds at least
	// one message, so a list of none has no representation to extract from.
	n := rapid.IntRange(1, 6).Draw(t, "n")
	if rapid.IntRange(0, 9).Draw(t, "long") == 0 {
		n = rapid.IntRange(20, 40).Draw(t, "n")
	}
	for i := 0; i < n; i++ {
		if rapid.IntRange(0, 3).Draw(t, "typed") == 0 {
			c.Msgs = append(c.Msgs, genTypedMsg(t))
			continue
		}
		ty := uint(rapid.OneOf(rapid.IntRange(0, 400), rapid.SampledFrom([]int{0, 1, 3, 4, 5, 6, 128, 136, 137, 144, 254, 255, 256, 509, 510, 511, 765, 1000,
			4095, 65535, 65536})).Draw(t, "type"))
		var p []byte
		ptb := 0
		if c.Route == "extract" {
			p = genPayload(t, 0)
		} else {
			p, ptb = validPayloadFor(t, c.Route, ty)
		}
		c.Msgs = append(c.Msgs, msg{Type: ty, Payload: p, PTBits: ptb})
	}
	return c
}

func TestLists(t *testing.T) {
	harness.RunRapid(t, "lists", func(rt *rapid.T) {
		c := genList(rt)
		raw, _ := json.Marshal(c)
		big, esc := false, false
		var rb []byte
		for _, m := range c.Msgs {
			if m.Type >= 255 || len(m.Payload) >= 255 {
				big = true
			}
			rb = append(rb, m.Payload...)
		}
		ref := refSEI(c.Msgs)
		total := 0
		for _, m := range c.Msgs {
			total += 2 + int(m.Type/255) + len(m.Payload)/255 + len(m.Payload)
		}
		esc = len(ref) > total+1
		cls := []string{"list-route-" + c.Route}
		if big {
			cls = append(cls, "list-type-or-size>=255")
		}
		seen := map[string]bool{}
		for _, m := range c.Msgs {
			if m.Typed != nil {
				seen["list-typed-"+m.Typed.Kind] = true
			}
			if len(m.Payload) >= 1023 {
				seen["list-size>=1023"] = true
			}
			if len(m.Payload) >= 65535 {
				seen["list-size>=65535"] = true
			}
			if m.Type >= 4095 {
				seen["list-type>=4095"] = true
			}
			if m.Type == 1 && m.PTBits%8 != 0 {
				seen["list-avc-pictiming-with-stop-bit"] = true
			}
		}
		if len(c.Msgs) >= 20 {
			seen["list-length-20..40"] = true
		}
		for _, l := range []string{"list-typed-pictiming", "list-typed-timecode", "list-typed-137", "list-typed-144", "list-typed-cea608",
			"list-size>=1023", "list-size>=65535", "list-type>=4095", "list-avc-pictiming-with-stop-bit", "list-length-20..40"} {
			if seen[l] {
				cls = append(cls, l)
			}
		}
		if esc {
			cls = append(cls, "list-needs-escape")
		}
		harness.Rec.Case(big || esc, raw, cls...)
		if (big || esc) && harness.Rec.WantSample() && len(raw) < 900 {
			harness.Rec.Sample(map[string]interface{}{"kind": "seilist", "case": c})
		}
		harness.Report(rt, "seilist", c, harness.Guarded(func() *harness.Fail { return checkList(c) }))
	})
}

// ---------------------------------------------------------------------------------------------
// AVC pic timing

type clockAvc struct {
	Present, NuitFieldBased, Full, Disc, CntDropped, SecF, MinF, HourF bool
	CtType, CountingType, NFrames, H, M, S                             byte
	Offset                                                             int
}

type picTimingCase struct {
	// HrdKind selects the SPS handed to avc.ParseSEINalu. With HRD: 0 NAL HRD parameters, 1 VCL HRD
	// parameters, 2 both (equal, as E.2.1 requires). Without: 0 SPS with VUI without HRD, 1 no SPS, 2 SPS without VUI.
	HrdKind int  `json:"hrd_kind,omitempty"`
	NoAvoid bool `json:"noAvoid,omitempty"`

	HasHRD        bool       `json:"has_hrd"`
	CpbLenM1      byte       `json:"cpb_len_m1"`
	DpbLenM1      byte       `json:"dpb_len_m1"`
	Cpb, Dpb      uint       `json:"-"`
	CpbV          uint64     `json:"cpb"`
	DpbV          uint64     `json:"dpb"`
	TimeOffsetLen byte       `json:"time_offset_len"`
	PictStruct    byte       `json:"pict_struct"`
	Clocks        []clockAvc `json:"clocks"`
}

func genClockAvc(t *rapid.T, tol byte) clockAvc {
	c := clockAvc{Present: rapid.Bool().Draw(t, "present")}
	if !c.Present {
		return c
	}
	c.CtType = byte(rapid.IntRange(0, 3).Draw(t, "ct"))
	c.NuitFieldBased = rapid.Bool().Draw(t, "nuit")
	c.CountingType = byte(rapid.IntRange(0, 31).Draw(t, "counting"))
	c.Full = rapid.Bool().Draw(t, "full")
	c.Disc = rapid.Bool().Draw(t, "disc")
	c.CntDropped = rapid.Bool().Draw(t, "cnt")
	c.NFrames = rapid.Byte().Draw(t, "nframes")
	if c.Full {
		c.S, c.M, c.H = byte(rapid.IntRange(0, 63).Draw(t, "s")), byte(rapid.IntRange(0, 63).Draw(t, "m")), byte(rapid.IntRange(0, 31).Draw(t, "h"))
	} else {
		c.SecF = rapid.Bool().Draw(t, "sf")
		if c.SecF {
			c.S = byte(rapid.IntRange(0, 63).Draw(t, "s"))
			c.MinF = rapid.Bool().Draw(t, "mf")
			if c.MinF {
				c.M = byte(rapid.IntRange(0, 63).Draw(t, "m"))
				c.HourF = rapid.Bool().Draw(t, "hf")
				if c.HourF {
					c.H = byte(rapid.IntRange(0, 31).Draw(t, "h"))
				}
			}
		}
	}
	if tol > 0 {
		lo, hi := -(int64(1) << (tol - 1)), int64(1)<<(tol-1)-1
		c.Offset = int(rapid.OneOf(rapid.Int64Range(lo, hi), rapid.SampledFrom([]int64{lo, hi, 0, -1, 1}).Filter(func(v int64) bool { return v >= lo && v <= hi })).Draw(t, "offset"))
	}
	return c
}

func genPicTiming(t *rapid.T, allowHRD bool) picTimingCase {
	c := picTimingCase{}
	if allowHRD {
		c.HasHRD = rapid.Bool().Draw(t, "hrd")
		c.HrdKind = rapid.IntRange(0, 2).Draw(t, "hrdkind")
		c.TimeOffsetLen = byte(rapid.OneOf(rapid.IntRange(0, 31), rapid.SampledFrom([]int{0, 1, 24, 31})).Draw(t, "tol"))
	}
	if c.HasHRD {
		c.CpbLenM1 = byte(rapid.IntRange(0, 31).Draw(t, "cpblen"))
		c.DpbLenM1 = byte(rapid.IntRange(0, 31).Draw(t, "dpblen"))
		c.CpbV = rapid.Uint64Range(0, 1<<(uint(c.CpbLenM1)+1)-1).Draw(t, "cpb")
		c.DpbV = rapid.Uint64Range(0, 1<<(uint(c.DpbLenM1)+1)-1).Draw(t, "dpb")
	}
	c.PictStruct = byte(rapid.IntRange(0, 8).Draw(t, "ps"))
	n := 1
	if c.PictStruct >= 3 {
		n = 2
	}
	if c.PictStruct >= 5 {
		n = 3
	}
	for i := 0; i < n; i++ {
		c.Clocks = append(c.Clocks, genClockAvc(t, c.TimeOffsetLen))
	}
	return c
}

// refPicTiming: H.264 D.1.3 pic_timing written by the harness' own bit writer, completed as D.1
// sei_payload() prescribes: "if( !byte_aligned( ) ) { bit_equal_to_one /* equal to 1 */
// while( !byte_aligned( ) ) bit_equal_to_zero }" (the same rule as H.265 D.2.1, see refTimeCode); payloadSize counts
// these bits. A payload whose last byte is completed with zero bits only is not a sei_payload( ) of the
// standard; the library's decoder accepts both forms (it does not look at the bits behind the syntax).
func refPicTiming(c picTimingCase) []byte {
	w := ptBits(c)
	if !w.Aligned() {
		w.TrailingBits()
	}
	return w.Out()
}

// ptBits: the pic_timing( ) syntax elements alone.
func ptBits(c picTimingCase) *nalgen.BitWriter {
	w := nalgen.NewBitWriter()
	if c.HasHRD {
		w.U(c.CpbV, int(c.CpbLenM1)+1)
		w.U(c.DpbV, int(c.DpbLenM1)+1)
	}
	w.U(uint64(c.PictStruct), 4)
	for _, k := range c.Clocks {
		w.Flag(k.Present)
		if !k.Present {
			continue
		}
		w.U(uint64(k.CtType), 2)
		w.Flag(k.NuitFieldBased)
		w.U(uint64(k.CountingType), 5)
		w.Flag(k.Full)
		w.Flag(k.Disc)
		w.Flag(k.CntDropped)
		w.U(uint64(k.NFrames), 8)
		if k.Full {
			w.U(uint64(k.S), 6)
			w.U(uint64(k.M), 6)
			w.U(uint64(k.H), 5)
		} else {
			w.Flag(k.SecF)
			if k.SecF {
				w.U(uint64(k.S), 6)
				w.Flag(k.MinF)
				if k.MinF {
					w.U(uint64(k.M), 6)
					w.Flag(k.HourF)
					if k.HourF {
						w.U(uint64(k.H), 5)
					}
				}
			}
		}
		if c.TimeOffsetLen > 0 {
			w.U(uint64(int64(k.Offset))&(1<<c.TimeOffsetLen-1), int(c.TimeOffsetLen))
		}
	}
	return w
}

func (c picTimingCase) message() *sei.PicTimingAvcSEI {
	m := &sei.PicTimingAvcSEI{TimeOffsetLength: c.TimeOffsetLen, PictStruct: c.PictStruct}
	if c.HasHRD {
		m.CbpDbpDelay = &sei.CbpDbpDelay{CpbRemovalDelay: uint(c.CpbV), DpbOutputDelay: uint(c.DpbV),
			CpbRemovalDelayLengthMinus1: c.CpbLenM1, DpbOutputDelayLengthMinus1: c.DpbLenM1}
	}
	for _, k := range c.Clocks {
		m.Clocks = append(m.Clocks, sei.ClockTSAvc{CtType: k.CtType, NuitFieldBasedFlag: k.NuitFieldBased, CountingType: k.CountingType,
			NFrames: k.NFrames, Hours: k.H, Minutes: k.M, Seconds: k.S, ClockTimeStampFlag: k.Present, FullTimeStampFlag: k.Full,
			SecondsFlag: k.SecF, MinutesFlag: k.MinF, HoursFlag: k.HourF, DiscontinuityFlag: k.Disc, CntDroppedFlag: k.CntDropped,
			TimeOffsetLength: c.TimeOffsetLen, TimeOffsetValue: k.Offset})
	}
	return m
}

// sps builds what avc.ParseSEINalu consults: VUI.VclHrdParameters / NalHrdParameters with the three length
// fields. ok=false: no SPS can express the case (a time offset length without HRD parameters).
func (c picTimingCase) sps() (sps *avc.SPS, ok bool) {
	if !c.HasHRD {
		if c.TimeOffsetLen != 0 {
			return nil, false
		}
		switch c.HrdKind {
		case 1:
			return nil, true
		case 2:
			return &avc.SPS{}, true
		}
		return &avc.SPS{VUI: &avc.VUIParameters{PicStructPresentFlag: true}}, true
	}
	hp := func() *avc.HrdParameters {
		return &avc.HrdParameters{CpbEntries: []avc.CpbEntry{{}}, InitialCpbRemovalDelayLengthMinus1: 23,
			CpbRemovalDelayLengthMinus1: uint(c.CpbLenM1), DpbOutputDelayLengthMinus1: uint(c.DpbLenM1), TimeOffsetLength: uint(c.TimeOffsetLen)}
	}
	vui := &avc.VUIParameters{PicStructPresentFlag: true}
	if c.HrdKind == 0 || c.HrdKind == 2 {
		vui.NalHrdParametersPresentFlag, vui.NalHrdParameters = true, hp()
	}
	if c.HrdKind == 1 || c.HrdKind == 2 {
		vui.VclHrdParametersPresentFlag, vui.VclHrdParameters = true, hp()
	}
	return &avc.SPS{VUI: vui}, true
}

func checkPicTiming(c picTimingCase) *harness.Fail {
	m := c.message()
	ref := refPicTiming(c)
	nbits := ptBits(c).NrBits()
	p := m.Payload()
	if !bytes.Equal(p, ref) {
		lib := withoutStopBit(ref, nbits)
		if !bytes.Equal(p, lib) {
			return harness.Failf("C17|PicTimingAvcSEI.Payload|differs from reference serialisation", "got %x want %x (%+v)", p, ref, c)
		}
		if !acceptZeroPadded {
			return harness.Failf("C17|PicTimingAvcSEI.Payload|no bit_equal_to_one before the alignment zeros", "%d syntax bits: got %x want %x (H.264 D.1 sei_payload) (%+v)", nbits, p, ref, c)
		}
		harness.Rec.Class("pictiming-zero-padded")
	} else if nbits%8 != 0 {
		harness.Rec.Class("pictiming-stop-bit")
	}
	if m.Size() != uint(len(p)) || len(p) != len(ref) {
		return harness.Failf("C17|PicTimingAvcSEI.Size|differs from serialised length", "Size %d len %d reference %d", m.Size(), len(p), len(ref))
	}
	var cbp *sei.CbpDbpDelay
	if c.HasHRD {
		cbp = &sei.CbpDbpDelay{CpbRemovalDelayLengthMinus1: c.CpbLenM1, DpbOutputDelayLengthMinus1: c.DpbLenM1}
	}
	var got sei.SEIMessage
	// the library's own serialisation and the standard's form of the payload decode to the same message
	for _, pl := range [][]byte{p, ref} {
		var err error
		got, err = sei.DecodePicTimingAvcSEIHRD(sei.NewSEIData(1, pl), cbp, c.TimeOffsetLen)
		if err != nil {
			return harness.Failf("C17|DecodePicTimingAvcSEIHRD|error", "%v (payload %x)", err, pl)
		}
		if !reflect.DeepEqual(got, sei.SEIMessage(m)) {
			return harness.Failf("C17|DecodePicTimingAvcSEIHRD|decoded message differs", "payload %x:\n got %s\nwant %s", pl, dump(got), dump(m))
		}
	}
	if !c.HasHRD && c.TimeOffsetLen == 0 {
		got2, err := sei.DecodeSEIMessage(sei.NewSEIData(1, p), sei.AVC)
		if err != nil || !reflect.DeepEqual(got2, sei.SEIMessage(m)) {
			return harness.Failf("C17|DecodeSEIMessage(AVC pic timing)|decoded message differs", "payload %x err %v", p, err)
		}
	}
	_ = got.String()
	// through the NAL unit parser with the SPS that carries the field lengths: the message as the library
	// writes it, and the standard's serialisation
	if sps, ok := c.sps(); ok {
		buf := bytes.Buffer{}
		buf.WriteByte(0x06)
		if err := sei.WriteSEIMessages(&buf, []sei.SEIMessage{m}); err != nil {
			return harness.Failf("C17|WriteSEIMessages|error", "%v", err)
		}
		std := append([]byte{0x06}, refSEI([]msg{{Type: 1, Payload: ref}})...)
		for _, nalu := range [][]byte{buf.Bytes(), std} {
			pristine := append([]byte{}, nalu...)
			msgs, err := avc.ParseSEINalu(nalu, sps)
			if err != nil {
				return harness.Failf("C17|avc.ParseSEINalu(sps)|error", "%v (nalu %x)", err, nalu)
			}
			if len(msgs) != 1 || !reflect.DeepEqual(msgs[0], sei.SEIMessage(m)) {
				return harness.Failf("C17|avc.ParseSEINalu(sps)|decoded pic_timing differs", "nalu %x hrd kind %d:\n got %s\nwant %s", nalu, c.HrdKind, dump(msgs), dump(m))
			}
			if !bytes.Equal(nalu, pristine) {
				return harness.Failf("C17|avc.ParseSEINalu(sps)|input modified", "")
			}
		}
	}
	return nil
}

// checkReuse: a message object that has been sized, serialised and printed once gets the public fields of another
// message value and is serialised again: payload and Size() must be those of a fresh object with the new values.
func checkReuse(what string, used, next sei.SEIMessage, fresh sei.SEIMessage) *harness.Fail {
	_ = used.Size()
	_ = used.Payload()
	func() {
		defer func() { _ = recover() }() // String() of some messages has preconditions judged elsewhere
		_ = used.String()
	}()
	harness.AssignExported(used, next)
	want := fresh.Payload()
	got := used.Payload()
	if !bytes.Equal(got, want) {
		return harness.Failf("C17|"+what+".Payload|object used before, public fields changed, serialised again: differs from a fresh object", "got %x, a fresh object with the same field values gives %x", got, want)
	}
	if used.Size() != uint(len(want)) || fresh.Size() != uint(len(want)) {
		return harness.Failf("C17|"+what+".Size|object used before, public fields changed: differs from serialised length", "Size %d, fresh %d, payload %d bytes", used.Size(), fresh.Size(), len(want))
	}
	return nil
}

func dump(v interface{}) string {
	b, _ := json.Marshal(v)
	return fmt.Sprintf("%+v / %s", v, b)
}

func TestPicTiming(t *testing.T) {
	harness.RunRapid(t, "pictiming", func(rt *rapid.T) {
		c := genPicTiming(rt, true)
		raw, _ := json.Marshal(c)
		bits := len(refPicTiming(c))
		cls := []string{fmt.Sprintf("pictiming-clocks%d", len(c.Clocks))}
		if c.HasHRD {
			cls = append(cls, "pictiming-hrd")
		}
		if c.TimeOffsetLen > 0 {
			cls = append(cls, "pictiming-timeoffset")
		}
		if _, ok := c.sps(); ok {
			if c.HasHRD {
				cls = append(cls, "pictiming-parsenalu-"+[]string{"nal-hrd", "vcl-hrd", "nal+vcl-hrd"}[c.HrdKind%3])
			} else {
				cls = append(cls, "pictiming-parsenalu-"+[]string{"vui-without-hrd", "nil-sps", "sps-without-vui"}[c.HrdKind%3])
			}
		}
		if bits > 0 && ptBits(c).NrBits()%8 != 0 {
			cls = append(cls, "pictiming-partial-last-byte")
		}
		harness.Rec.Case(c.HasHRD || c.TimeOffsetLen > 0 || bits > 2, raw, cls...)
		if harness.Rec.WantSample() && c.HasHRD {
			harness.Rec.Sample(map[string]interface{}{"kind": "pictiming", "case": c})
		}
		if !harness.Report(rt, "pictiming", c, harness.Guarded(func() *harness.Fail { return checkPicTiming(c) })) && rapid.IntRange(0, 2).Draw(rt, "reuse") == 0 {
			c2 := genPicTiming(rt, true)
			pc := picTimingReuse{A: c, B: c2}
			harness.Rec.Class("pictiming-object-reused-with-other-field-values")
			harness.Report(rt, "pictimingreuse", pc, harness.Guarded(func() *harness.Fail { return checkPicTimingReuse(pc) }))
		}
	})
}

type picTimingReuse struct {
	A picTimingCase `json:"a"`
	B picTimingCase `json:"b"`
}

func checkPicTimingReuse(c picTimingReuse) *harness.Fail {
	return checkReuse("PicTimingAvcSEI", c.A.message(), c.B.message(), c.B.message())
}

// ---------------------------------------------------------------------------------------------
// HEVC time code (136)

type clockTC struct {
	Present, UnitsFieldBased, Full, Disc, CntDropped, SecF, MinF, HourF bool
	CountingType, H, M, S, OffLen                                       byte
	NFrames                                                             uint16
	Offset                                                              uint32
}

type timeCodeCase struct {
	Clocks []clockTC `json:"clocks"`
}

func genTimeCode(t *rapid.T) timeCodeCase {
	c := timeCodeCase{}
	n := rapid.IntRange(0, 3).Draw(t, "n")
	for i := 0; i < n; i++ {
		k := clockTC{Present: rapid.IntRange(0, 4).Draw(t, "present") > 0}
		if k.Present {
			k.UnitsFieldBased = rapid.Bool().Draw(t, "ufb")
			k.CountingType = byte(rapid.IntRange(0, 31).Draw(t, "counting"))
			k.Full = rapid.Bool().Draw(t, "full")
			k.Disc = rapid.Bool().Draw(t, "disc")
			k.CntDropped = rapid.Bool().Draw(t, "cnt")
			k.NFrames = uint16(rapid.IntRange(0, 511).Draw(t, "nframes"))
			if k.Full {
				k.S, k.M, k.H = byte(rapid.IntRange(0, 63).Draw(t, "s")), byte(rapid.IntRange(0, 63).Draw(t, "m")), byte(rapid.IntRange(0, 31).Draw(t, "h"))
			} else {
				k.SecF = rapid.Bool().Draw(t, "sf")
				if k.SecF {
					k.S = byte(rapid.IntRange(0, 63).Draw(t, "s"))
					k.MinF = rapid.Bool().Draw(t, "mf")
					if k.MinF {
						k.M = byte(rapid.IntRange(0, 63).Draw(t, "m"))
						k.HourF = rapid.Bool().Draw(t, "hf")
						if k.HourF {
							k.H = byte(rapid.IntRange(0, 31).Draw(t, "h"))
						}
					}
				}
			}
			k.OffLen = byte(rapid.OneOf(rapid.IntRange(0, 31), rapid.SampledFrom([]int{0, 0, 1, 31})).Draw(t, "offlen"))
			if k.OffLen > 0 {
				k.Offset = uint32(rapid.Uint64Range(0, 1<<k.OffLen-1).Draw(t, "offset"))
			}
		}
		c.Clocks = append(c.Clocks, k)
	}
	return c
}

func tcBits(c timeCodeCase) *nalgen.BitWriter {
	w := nalgen.NewBitWriter()
	w.U(uint64(len(c.Clocks)), 2)
	for _, k := range c.Clocks {
		w.Flag(k.Present)
		if !k.Present {
			continue
		}
		w.Flag(k.UnitsFieldBased)
		w.U(uint64(k.CountingType), 5)
		w.Flag(k.Full)
		w.Flag(k.Disc)
		w.Flag(k.CntDropped)
		w.U(uint64(k.NFrames), 9)
		if k.Full {
			w.U(uint64(k.S), 6)
			w.U(uint64(k.M), 6)
			w.U(uint64(k.H), 5)
		} else {
			w.Flag(k.SecF)
			if k.SecF {
				w.U(uint64(k.S), 6)
				w.Flag(k.MinF)
				if k.MinF {
					w.U(uint64(k.M), 6)
					w.Flag(k.HourF)
					if k.HourF {
						w.U(uint64(k.H), 5)
					}
				}
			}
		}
		w.U(uint64(k.OffLen), 5)
		if k.OffLen > 0 {
			w.U(uint64(k.Offset), int(k.OffLen))
		}
	}
	return w
}

// refTimeCode: H.265 D.2.27 time_code; the sei_payload is completed with payload bit equal to one +
// alignment zeros when the syntax does not end byte aligned (D.2.1 / 7.3.5).
func refTimeCode(c timeCodeCase) []byte {
	w := tcBits(c)
	if !w.Aligned() {
		w.TrailingBits()
	}
	return w.Out()
}

func (c timeCodeCase) message() *sei.TimeCodeSEI {
	m := &sei.TimeCodeSEI{}
	for _, k := range c.Clocks {
		m.Clocks = append(m.Clocks, sei.ClockTS{TimeOffsetValue: k.Offset, NFrames: k.NFrames, Hours: k.H, Minutes: k.M, Seconds: k.S,
			ClockTimeStampFlag: k.Present, UnitsFieldBasedFlag: k.UnitsFieldBased, FullTimeStampFlag: k.Full, SecondsFlag: k.SecF,
			MinutesFlag: k.MinF, HoursFlag: k.HourF, DiscontinuityFlag: k.Disc, CntDroppedFlag: k.CntDropped, CountingType: k.CountingType,
			TimeOffsetLength: k.OffLen})
	}
	return m
}

func checkTimeCode(c timeCodeCase) *harness.Fail {
	m := c.message()
	p := m.Payload()
	if ref := refTimeCode(c); !bytes.Equal(p, ref) {
		return harness.Failf("C17|TimeCodeSEI.Payload|differs from reference serialisation", "got %x want %x", p, ref)
	}
	if m.Size() != uint(len(p)) {
		return harness.Failf("C17|TimeCodeSEI.Size|differs from serialised length", "Size %d len %d (payload %x)", m.Size(), len(p), p)
	}
	got, err := sei.DecodeTimeCodeSEI(sei.NewSEIData(136, p))
	if err != nil {
		return harness.Failf("C17|DecodeTimeCodeSEI|error", "%v (payload %x)", err, p)
	}
	g := got.(*sei.TimeCodeSEI)
	if len(g.Clocks) != len(m.Clocks) {
		return harness.Failf("C17|DecodeTimeCodeSEI|clock count differs", "got %d want %d", len(g.Clocks), len(m.Clocks))
	}
	for i := range g.Clocks {
		if g.Clocks[i] != m.Clocks[i] {
			return harness.Failf("C17|DecodeTimeCodeSEI|decoded message differs", "payload %x clock %d: got %+v want %+v", p, i, g.Clocks[i], m.Clocks[i])
		}
	}
	got2, err := sei.DecodeSEIMessage(sei.NewSEIData(136, p), sei.HEVC)
	if err != nil || len(got2.(*sei.TimeCodeSEI).Clocks) != len(m.Clocks) {
		return harness.Failf("C17|DecodeSEIMessage(HEVC time code)|differs", "err %v", err)
	}
	if len(m.Clocks) > 0 {
		_ = got.String() // zero clocks: String() indexes Clocks[0]; that robustness issue is judged under C16
	}
	return nil
}

func TestTimeCode(t *testing.T) {
	harness.RunRapid(t, "timecode", func(rt *rapid.T) {
		c := genTimeCode(rt)
		raw, _ := json.Marshal(c)
		aligned := tcBits(c).Aligned()
		cls := []string{fmt.Sprintf("timecode-clocks%d", len(c.Clocks))}
		if aligned {
			cls = append(cls, "timecode-bitlength-multiple-of-8")
		}
		harness.Rec.Case(len(c.Clocks) > 0, raw, cls...)
		if harness.Rec.WantSample() && len(c.Clocks) >= 2 {
			harness.Rec.Sample(map[string]interface{}{"kind": "timecode", "case": c})
		}
		if !harness.Report(rt, "timecode", c, harness.Guarded(func() *harness.Fail { return checkTimeCode(c) })) && rapid.IntRange(0, 2).Draw(rt, "reuse") == 0 {
			pc := timeCodeReuse{A: c, B: genTimeCode(rt)}
			harness.Rec.Class("timecode-object-reused-with-other-field-values")
			harness.Report(rt, "timecodereuse", pc, harness.Guarded(func() *harness.Fail { return checkTimeCodeReuse(pc) }))
		}
	})
}

type timeCodeReuse struct {
	A timeCodeCase `json:"a"`
	B timeCodeCase `json:"b"`
}

func checkTimeCodeReuse(c timeCodeReuse) *harness.Fail {
	return checkReuse("TimeCodeSEI", c.A.message(), c.B.message(), c.B.message())
}

// ---------------------------------------------------------------------------------------------
// 137 / 144

type fixedCase struct {
	Kind int       `json:"kind"` // 137 | 144
	PX   [3]uint16 `json:"px"`
	PY   [3]uint16 `json:"py"`
	WX   uint16    `json:"wx"`
	WY   uint16    `json:"wy"`
	MaxL uint32    `json:"maxl"`
	MinL uint32    `json:"minl"`
	CLL  uint16    `json:"cll"`
	FALL uint16    `json:"fall"`
}

// message returns the typed message of the case and its reference payload (big-endian fields, D.2.28 / D.2.35).
func (c fixedCase) message() (sei.SEIMessage, []byte) {
	be16 := func(b []byte, v uint16) []byte { return append(b, byte(v>>8), byte(v)) }
	be32 := func(b []byte, v uint32) []byte { return append(b, byte(v>>24), byte(v>>16), byte(v>>8), byte(v)) }
	if c.Kind == 137 {
		m := &sei.MasteringDisplayColourVolumeSEI{DisplayPrimariesX: c.PX, DisplayPrimariesY: c.PY, WhitePointX: c.WX, WhitePointY: c.WY,
			MaxDisplayMasteringLuminance: c.MaxL, MinDisplayMasteringLuminance: c.MinL}
		var ref []byte
		for i := 0; i < 3; i++ {
			ref = be16(be16(ref, c.PX[i]), c.PY[i])
		}
		return m, be32(be32(be16(be16(ref, c.WX), c.WY), c.MaxL), c.MinL)
	}
	m := &sei.ContentLightLevelInformationSEI{MaxContentLightLevel: c.CLL, MaxPicAverageLightLevel: c.FALL}
	return m, be16(be16(nil, c.CLL), c.FALL)
}

func checkFixed(c fixedCase) *harness.Fail {
	if c.Kind == 137 {
		mi, ref := c.message()
		m := *mi.(*sei.MasteringDisplayColourVolumeSEI)
		p := m.Payload()
		if !bytes.Equal(p, ref) {
			return harness.Failf("C17|MasteringDisplayColourVolumeSEI.Payload|differs from reference", "got %x want %x", p, ref)
		}
		if m.Size() != uint(len(p)) {
			return harness.Failf("C17|MasteringDisplayColourVolumeSEI.Size|differs", "")
		}
		got, err := sei.DecodeSEIMessage(sei.NewSEIData(137, p), sei.HEVC)
		if err != nil {
			return harness.Failf("C17|DecodeMasteringDisplayColourVolumeSEI|error", "%v", err)
		}
		if g, ok := got.(*sei.MasteringDisplayColourVolumeSEI); !ok || *g != m {
			return harness.Failf("C17|DecodeMasteringDisplayColourVolumeSEI|decoded message differs", "got %+v want %+v", got, m)
		}
		_ = got.String()
		return nil
	}
	mi, ref := c.message()
	m := *mi.(*sei.ContentLightLevelInformationSEI)
	p := m.Payload()
	if !bytes.Equal(p, ref) {
		return harness.Failf("C17|ContentLightLevelInformationSEI.Payload|differs from reference", "got %x want %x", p, ref)
	}
	if m.Size() != uint(len(p)) {
		return harness.Failf("C17|ContentLightLevelInformationSEI.Size|differs", "")
	}
	got, err := sei.DecodeSEIMessage(sei.NewSEIData(144, p), sei.HEVC)
	if err != nil {
		return harness.Failf("C17|DecodeContentLightLevelInformationSEI|error", "%v", err)
	}
	if g, ok := got.(*sei.ContentLightLevelInformationSEI); !ok || *g != m {
		return harness.Failf("C17|DecodeContentLightLevelInformationSEI|decoded message differs", "got %+v want %+v", got, m)
	}
	_ = got.String()
	return nil
}

var (
	fixedU16 = rapid.OneOf(rapid.Uint16(), rapid.SampledFrom([]uint16{0, 1, 255, 256, 0x7fff, 0x8000, 0xffff}))
	fixedU32 = rapid.OneOf(rapid.Uint32(), rapid.SampledFrom([]uint32{0, 1, 0xffff, 0x10000, 0x7fffffff, 0x80000000, 0xffffffff}))
)

func genFixed(rt *rapid.T, kind int) fixedCase {
	u16, u32 := fixedU16, fixedU32
	c := fixedCase{Kind: kind}
	if c.Kind == 137 {
		for i := 0; i < 3; i++ {
			c.PX[i], c.PY[i] = u16.Draw(rt, "px"), u16.Draw(rt, "py")
		}
		c.WX, c.WY, c.MaxL, c.MinL = u16.Draw(rt, "wx"), u16.Draw(rt, "wy"), u32.Draw(rt, "maxl"), u32.Draw(rt, "minl")
	} else {
		c.CLL, c.FALL = u16.Draw(rt, "cll"), u16.Draw(rt, "fall")
	}
	return c
}

// fixedPairCase: two typed messages serialised one after the other; the payload of the first one is decoded only
// after the second one has been serialised (a caller that collects the payloads of a list before writing it).
type fixedPairCase struct {
	A fixedCase `json:"a"`
	B fixedCase `json:"b"`
}

func checkFixedPair(c fixedPairCase) *harness.Fail {
	ma, refA := c.A.message()
	mb, refB := c.B.message()
	pa := ma.Payload()
	pb := mb.Payload()
	for i, x := range []struct {
		p, ref []byte
		m      sei.SEIMessage
	}{{pa, refA, ma}, {pb, refB, mb}} {
		if !bytes.Equal(x.p, x.ref) {
			return harness.Failf("C17|typed SEI Payload|payload obtained earlier changed when another message was serialised", "message %d (type %d): payload %x, reference %x", i, x.m.Type(), x.p, x.ref)
		}
		got, err := sei.DecodeSEIMessage(sei.NewSEIData(x.m.Type(), x.p), sei.HEVC)
		if err != nil {
			return harness.Failf("C17|DecodeSEIMessage|error", "message %d of a pair: %v", i, err)
		}
		if !reflect.DeepEqual(got, x.m) {
			return harness.Failf("C17|typed SEI|decoded message differs", "message %d of a pair: got %+v want %+v", i, got, x.m)
		}
	}
	if c.A.Kind == c.B.Kind {
		ua, _ := c.A.message()
		nb, _ := c.B.message()
		fb, _ := c.B.message()
		if f := checkReuse(fmt.Sprintf("typed SEI %d", c.A.Kind), ua, nb, fb); f != nil {
			return f
		}
	}
	// the same two as a list: write, extract, compare
	list := []sei.SEIMessage{sei.NewSEIData(ma.Type(), pa), sei.NewSEIData(mb.Type(), pb)}
	var w bytes.Buffer
	if err := sei.WriteSEIMessages(&w, list); err != nil {
		return harness.Failf("C17|WriteSEIMessages|error", "%v", err)
	}
	back, err := sei.ExtractSEIData(bytes.NewReader(w.Bytes()))
	if err != nil || len(back) != 2 {
		return harness.Failf("C17|ExtractSEIData|error", "%v (%d messages)", err, len(back))
	}
	if !bytes.Equal(back[0].Payload(), refA) || !bytes.Equal(back[1].Payload(), refB) || back[0].Type() != ma.Type() || back[1].Type() != mb.Type() {
		return harness.Failf("C17|ExtractSEIData|(type,payload) differs", "pair of typed messages: got (%d,%x) (%d,%x)", back[0].Type(), back[0].Payload(), back[1].Type(), back[1].Payload())
	}
	return nil
}

func TestFixed(t *testing.T) {
	harness.RunRapid(t, "fixed", func(rt *rapid.T) {
		c := genFixed(rt, rapid.SampledFrom([]int{137, 144}).Draw(rt, "kind"))
		raw, _ := json.Marshal(c)
		harness.Rec.Case(true, raw, fmt.Sprintf("fixed-%d", c.Kind))
		if !harness.Report(rt, "fixedsei", c, harness.Guarded(func() *harness.Fail { return checkFixed(c) })) {
			// a second message of either kind behind it
			pc := fixedPairCase{A: c, B: genFixed(rt, rapid.SampledFrom([]int{137, 144}).Draw(rt, "kindB"))}
			harness.Rec.Class(fmt.Sprintf("fixed-pair-%d-%d", pc.A.Kind, pc.B.Kind))
			harness.Report(rt, "fixedpair", pc, harness.Guarded(func() *harness.Fail { return checkFixedPair(pc) }))
		}
	})
}

// ---------------------------------------------------------------------------------------------
// pass-through messages

type passCase struct {
	Kind    string                  `json:"kind"` // "registered" | "cea608" | "unregistered" | "hevcpictiming"
	Payload harness.HexBytes        `json:"payload"`
	Params  sei.HEVCPicTimingParams `json:"params"`
	PT      *hevcPT                 `json:"pt,omitempty"`
}

// hevcPT is the value tree of an HEVC pic_timing SEI (H.265 D.2.3) for the given external parameters.
type hevcPT struct {
	PicStruct, Scan uint8
	Dup             bool
	Au, Dpb, Du     uint32
	Common          bool
	CommonInc       uint32
	Nalus, Incs     []uint32
}

func refHevcPT(pr sei.HEVCPicTimingParams, v *hevcPT) []byte {
	w := nalgen.NewBitWriter()
	if pr.FrameFieldInfoPresentFlag {
		w.U(uint64(v.PicStruct), 4)
		w.U(uint64(v.Scan), 2)
		w.Flag(v.Dup)
	}
	if pr.CpbDpbDelaysPresentFlag {
		w.U(uint64(v.Au), int(pr.AuCbpRemovalDelayLengthMinus1)+1)
		w.U(uint64(v.Dpb), int(pr.DpbOutputDelayLengthMinus1)+1)
		if pr.SubPicHrdParamsPresentFlag {
			w.U(uint64(v.Du), int(pr.DpbOutputDelayDuLengthMinus1)+1)
			if pr.SubPicCpbParamsInPicTimingSeiFlag {
				il := int(pr.DuCpbRemovalDelayIncrementLengthMinus1) + 1
				w.UE(uint64(len(v.Nalus) - 1))
				w.Flag(v.Common)
				if v.Common {
					w.U(uint64(v.CommonInc), il)
				}
				for i, n := range v.Nalus {
					w.UE(uint64(n))
					if !v.Common && i < len(v.Nalus)-1 {
						w.U(uint64(v.Incs[i]), il)
					}
				}
			}
		}
	}
	if !w.Aligned() {
		w.TrailingBits()
	}
	return w.Out()
}

func checkPass(c passCase) *harness.Fail {
	var got sei.SEIMessage
	var err error
	wantType := uint(0)
	switch c.Kind {
	case "registered", "cea608":
		wantType = 4
		codec := sei.AVC
		if len(c.Payload)%2 == 1 {
			codec = sei.HEVC
		}
		got, err = sei.DecodeSEIMessage(sei.NewSEIData(4, c.Payload), codec)
	case "unregistered":
		wantType = 5
		got, err = sei.DecodeSEIMessage(sei.NewSEIData(5, c.Payload), sei.HEVC)
	case "hevcpictiming":
		wantType = 1
		got, err = sei.DecodePicTimingHevcSEI(sei.NewSEIData(1, c.Payload), c.Params)
	}
	if err != nil {
		return harness.Failf("C17|pass-through "+c.Kind+"|decode error", "%v (payload %x)", err, []byte(c.Payload))
	}
	if c.Kind == "hevcpictiming" && c.PT != nil {
		g := got.(*sei.PicTimingHevcSEI)
		v := c.PT
		bad := ""
		if c.Params.FrameFieldInfoPresentFlag != (g.FrameFieldInfo != nil) {
			bad = "FrameFieldInfo presence"
		} else if g.FrameFieldInfo != nil && (g.FrameFieldInfo.PicStruct != v.PicStruct || g.FrameFieldInfo.SourceScanType != v.Scan || g.FrameFieldInfo.DuplicateFlag != v.Dup) {
			bad = "FrameFieldInfo"
		} else if g.AuCpbRemovalDelayMinus1 != v.Au || g.PicDpbOutputDelay != v.Dpb || g.PicDpbOutputDuDelay != v.Du {
			bad = "delays"
		} else if g.DuCommonCpbRemovalDelayFlag != v.Common || g.DuCommonCpbRemovalDelayIncrementMinus1 != v.CommonInc {
			bad = "common du delay"
		} else if len(v.Nalus) > 0 && (int(g.NumDecodingUnitsMinus1) != len(v.Nalus)-1 || !reflect.DeepEqual(g.NumNalusInDuMinus1, v.Nalus)) {
			bad = "NumNalusInDuMinus1"
		} else if len(v.Incs) > 0 && !reflect.DeepEqual(g.DuCpbRemovalDelayIncrementMinus1[:len(v.Incs)], v.Incs) {
			bad = "DuCpbRemovalDelayIncrementMinus1"
		}
		if bad != "" {
			return harness.Failf("C17|DecodePicTimingHevcSEI|decoded "+bad+" differs from value tree", "payload %x params %+v: got %s want %+v", []byte(c.Payload), c.Params, dump(g), *v)
		}
	}
	if c.Kind == "hevcpictiming" {
		// the same payload in an SEI NAL unit (prefix or suffix), parsed with an SPS whose VUI / HRD
		// parameters carry the external parameters (hevc.fillHEVCPicTimingParams)
		pr := c.Params
		hrd := &hevc.HrdParameters{SubPicHrdParamsPresentFlag: pr.SubPicHrdParamsPresentFlag,
			SubPicCpbParamsInPicTimingSeiFlag:      pr.SubPicCpbParamsInPicTimingSeiFlag,
			AuCpbRemovalDelayLengthMinus1:          pr.AuCbpRemovalDelayLengthMinus1,
			DpbOutputDelayLengthMinus1:             pr.DpbOutputDelayLengthMinus1,
			DpbOutputDelayDuLengthMinus1:           pr.DpbOutputDelayDuLengthMinus1,
			DuCpbRemovalDelayIncrementLengthMinus1: pr.DuCpbRemovalDelayIncrementLengthMinus1,
			InitialCpbRemovalDelayLengthMinus1:     23}
		hdr := []byte{0x4e, 0x01}
		if pr.CpbDpbDelaysPresentFlag {
			// CpbDpbDelaysPresentFlag = nal_hrd_parameters_present_flag || vcl_hrd_parameters_present_flag (E.3.2)
			switch len(c.Payload) % 3 {
			case 0:
				hrd.NalHrdParametersPresentFlag = true
			case 1:
				hrd.VclHrdParametersPresentFlag = true
				hdr = []byte{0x50, 0x01}
			default:
				hrd.NalHrdParametersPresentFlag, hrd.VclHrdParametersPresentFlag = true, true
			}
		}
		sps := &hevc.SPS{VUI: &hevc.VUIParameters{FrameFieldInfoPresentFlag: pr.FrameFieldInfoPresentFlag, HrdParameters: hrd}}
		nalu := append(hdr, refSEI([]msg{{Type: 1, Payload: c.Payload}})...)
		msgs, err := hevc.ParseSEINalu(nalu, sps)
		if err != nil {
			return harness.Failf("C17|hevc.ParseSEINalu(sps)|error", "%v (nalu %x params %+v)", err, nalu, pr)
		}
		if len(msgs) != 1 || !reflect.DeepEqual(msgs[0], got) {
			return harness.Failf("C17|hevc.ParseSEINalu(sps)|decoded pic_timing differs from DecodePicTimingHevcSEI", "nalu %x params %+v:\n got %s\nwant %s", nalu, pr, dump(msgs), dump(got))
		}
	}
	if c.Kind == "cea608" {
		if _, ok := got.(*sei.CEA608sei); !ok {
			return harness.Failf("C17|pass-through cea608|not recognised as CEA-608", "%T", got)
		}
	}
	if got.Type() != wantType {
		return harness.Failf("C17|pass-through "+c.Kind+"|type differs", "got %d", got.Type())
	}
	if !bytes.Equal(got.Payload(), c.Payload) {
		return harness.Failf("C17|pass-through "+c.Kind+"|payload changed", "got %x want %x", got.Payload(), []byte(c.Payload))
	}
	if got.Size() != uint(len(c.Payload)) {
		return harness.Failf("C17|pass-through "+c.Kind+"|Size differs from payload length", "Size %d len %d", got.Size(), len(c.Payload))
	}
	_ = got.String()
	return nil
}

// genCEA608: user_data_registered_itu_t_t35 with the ATSC A/53 GA94 cc_data structure
func genCEA608(t *rapid.T) []byte {
	p := []byte{0xb5, 0x00, 0x31, 0x47, 0x41, 0x39, 0x34, 0x03}
	n := rapid.IntRange(0, 31).Draw(t, "cc_count")
	p = append(p, 0xc0|byte(n), 0xff)
	for i := 0; i < n; i++ {
		p = append(p, 0xf8|byte(rapid.IntRange(0, 7).Draw(t, "validtype")), rapid.Byte().Draw(t, "d1"), rapid.Byte().Draw(t, "d2"))
	}
	return append(p, 0xff)
}

func genPass(t *rapid.T) passCase {
	c := passCase{Kind: rapid.SampledFrom([]string{"registered", "cea608", "unregistered", "hevcpictiming"}).Draw(t, "kind")}
	switch c.Kind {
	case "registered":
		p := genPayload(t, 8)
		if p[0] == 0xb5 && p[1] == 0 && p[2] == 0x31 && p[7] == 3 {
			p[7] = 4
		}
		c.Payload = p
	case "cea608":
		c.Payload = genCEA608(t)
	case "unregistered":
		c.Payload = genPayload(t, 16)
	case "hevcpictiming":
		pr := sei.HEVCPicTimingParams{FrameFieldInfoPresentFlag: rapid.Bool().Draw(t, "ffi"), CpbDpbDelaysPresentFlag: rapid.Bool().Draw(t, "cpbdpb"),
			SubPicHrdParamsPresentFlag: rapid.Bool().Draw(t, "subpic"), SubPicCpbParamsInPicTimingSeiFlag: rapid.Bool().Draw(t, "subpicinsei"),
			AuCbpRemovalDelayLengthMinus1: uint8(rapid.IntRange(0, 31).Draw(t, "a")), DpbOutputDelayLengthMinus1: uint8(rapid.IntRange(0, 31).Draw(t, "b")),
			DpbOutputDelayDuLengthMinus1: uint8(rapid.IntRange(0, 31).Draw(t, "c")), DuCpbRemovalDelayIncrementLengthMinus1: uint8(rapid.IntRange(0, 31).Draw(t, "d"))}
		c.Params = pr
		v := &hevcPT{}
		c.PT = v
		if pr.FrameFieldInfoPresentFlag {
			v.PicStruct, v.Scan, v.Dup = uint8(rapid.IntRange(0, 12).Draw(t, "pic_struct")), uint8(rapid.IntRange(0, 3).Draw(t, "scan")), rapid.Bool().Draw(t, "dup")
		}
		if pr.CpbDpbDelaysPresentFlag {
			v.Au = uint32(rapid.Uint64Range(0, 1<<(uint(pr.AuCbpRemovalDelayLengthMinus1)+1)-1).Draw(t, "au"))
			v.Dpb = uint32(rapid.Uint64Range(0, 1<<(uint(pr.DpbOutputDelayLengthMinus1)+1)-1).Draw(t, "dpb"))
			if pr.SubPicHrdParamsPresentFlag {
				v.Du = uint32(rapid.Uint64Range(0, 1<<(uint(pr.DpbOutputDelayDuLengthMinus1)+1)-1).Draw(t, "du"))
				if pr.SubPicCpbParamsInPicTimingSeiFlag {
					il := uint(pr.DuCpbRemovalDelayIncrementLengthMinus1) + 1
					n := rapid.IntRange(0, 6).Draw(t, "num_du_minus1")
					dense := rapid.IntRange(0, 3).Draw(t, "denseDUs") == 0
					if dense {
						// many decoding units of one NAL unit each (one bit per entry): more units than payload bytes
						n = rapid.IntRange(8, 120).Draw(t, "num_du_minus1_many")
					}
					v.Common = rapid.Bool().Draw(t, "common") || dense
					if v.Common {
						v.CommonInc = uint32(rapid.Uint64Range(0, 1<<il-1).Draw(t, "inc"))
					}
					for i := 0; i <= n; i++ {
						if dense {
							v.Nalus = append(v.Nalus, uint32(rapid.IntRange(0, 1).Draw(t, "nalusDense")*rapid.IntRange(0, 1).Draw(t, "nalusDense2")))
						} else {
							v.Nalus = append(v.Nalus, uint32(rapid.IntRange(0, 300).Draw(t, "nalus")))
						}
						if !v.Common && i < n {
							v.Incs = append(v.Incs, uint32(rapid.Uint64Range(0, 1<<il-1).Draw(t, "inc")))
						}
					}
				}
			}
		}
		c.Payload = refHevcPT(pr, v)
	}
	return c
}

func TestPassThrough(t *testing.T) {
	harness.RunRapid(t, "pass", func(rt *rapid.T) {
		c := genPass(rt)
		raw, _ := json.Marshal(c)
		harness.Rec.Case(len(c.Payload) > 0, raw, "pass-"+c.Kind)
		harness.Report(rt, "passthrough", c, harness.Guarded(func() *harness.Fail { return checkPass(c) }))
	})
}
