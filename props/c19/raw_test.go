// C19 helpers that do not use the library's decoders: normalising deep comparison of two box trees, byte-level
// reading of the sample description written into the encoded init segment, reference serialisations.
package c19

import (
	"bytes"
	"encoding/binary"
	"fmt"
	"reflect"

	"verif/internal/nalgen"
)

// treeDiff compares two values field by field (unexported fields included); a nil slice equals an empty slice,
// fields named StartPos (file positions filled in by the parser) are ignored. It returns the key of the first
// difference ("<innermost struct type>.<field>"), its full path with indices and both values; "" if equal.
func treeDiff(a, b reflect.Value, ignore func(key string, parent reflect.Value) bool) (string, string, string) {
	ctx := &diffCtx{seen: map[[2]uintptr]bool{}, ignore: ignore}
	if m := ctx.diff(a, b); m != "" {
		return ctx.key, ctx.where, m
	}
	return "", "", ""
}

type pathSeg struct {
	name string // field name, or "" for an index
	idx  int
}

type diffCtx struct {
	// seen holds the pointer pairs already compared (the trees reach the same box through alias pointers such as
	// Moov.Trak / Moov.Traks[0] / Moov.Children[2])
	seen map[[2]uintptr]bool
	// ignore is asked for every differing struct field (key "<struct type>.<field>", parent = the struct on the
	// first tree); true: the difference is a counted known defect and the comparison goes on
	ignore     func(key string, parent reflect.Value) bool
	path       []pathSeg
	key, where string
}

func (c *diffCtx) found(m string) string {
	var sb []byte
	for _, s := range c.path {
		if s.name != "" {
			sb = append(append(sb, '.'), s.name...)
		} else {
			sb = append(sb, fmt.Sprintf("[%d]", s.idx)...)
		}
	}
	c.where = string(sb)
	return m
}

func (c *diffCtx) diff(a, b reflect.Value) string {
	if a.IsValid() != b.IsValid() {
		return c.found(fmt.Sprintf("valid %v / %v", a.IsValid(), b.IsValid()))
	}
	if !a.IsValid() {
		return ""
	}
	if a.Type() != b.Type() {
		return c.found(fmt.Sprintf("type %v / %v", a.Type(), b.Type()))
	}
	switch a.Kind() {
	case reflect.Ptr, reflect.Interface:
		if a.IsNil() != b.IsNil() {
			return c.found(fmt.Sprintf("nil %v / %v", a.IsNil(), b.IsNil()))
		}
		if a.IsNil() {
			return ""
		}
		if a.Kind() == reflect.Ptr {
			k := [2]uintptr{a.Pointer(), b.Pointer()}
			if c.seen[k] {
				return ""
			}
			c.seen[k] = true
		}
		return c.diff(a.Elem(), b.Elem())
	case reflect.Struct:
		t := a.Type()
		for i := 0; i < a.NumField(); i++ {
			name := t.Field(i).Name
			if name == "StartPos" {
				continue
			}
			c.path = append(c.path, pathSeg{name: name})
			m := c.diff(a.Field(i), b.Field(i))
			c.path = c.path[:len(c.path)-1]
			if m == "" {
				continue
			}
			if c.key == "" {
				c.key = t.Name() + "." + name
				if c.ignore != nil && c.ignore(c.key, a) {
					c.key = ""
					continue
				}
			}
			return m
		}
		return ""
	case reflect.Slice, reflect.Array:
		if a.Len() != b.Len() {
			return c.found(fmt.Sprintf("len %d / %d", a.Len(), b.Len()))
		}
		if a.Kind() == reflect.Slice && a.Type().Elem().Kind() == reflect.Uint8 {
			if x, y := a.Bytes(), b.Bytes(); !bytes.Equal(x, y) {
				return c.found(fmt.Sprintf("%x / %x", x, y))
			}
			return ""
		}
		for i := 0; i < a.Len(); i++ {
			c.path = append(c.path, pathSeg{idx: i})
			m := c.diff(a.Index(i), b.Index(i))
			c.path = c.path[:len(c.path)-1]
			if m != "" {
				return m
			}
		}
		return ""
	case reflect.Map:
		if a.Len() != b.Len() {
			return c.found(fmt.Sprintf("map len %d / %d", a.Len(), b.Len()))
		}
	case reflect.Bool:
		if a.Bool() != b.Bool() {
			return c.found(fmt.Sprintf("%v / %v", a.Bool(), b.Bool()))
		}
	case reflect.Int, reflect.Int8, reflect.Int16, reflect.Int32, reflect.Int64:
		if a.Int() != b.Int() {
			return c.found(fmt.Sprintf("%d / %d", a.Int(), b.Int()))
		}
	case reflect.Uint, reflect.Uint8, reflect.Uint16, reflect.Uint32, reflect.Uint64:
		if a.Uint() != b.Uint() {
			return c.found(fmt.Sprintf("%d / %d", a.Uint(), b.Uint()))
		}
	case reflect.String:
		if a.String() != b.String() {
			return c.found(fmt.Sprintf("%q / %q", a.String(), b.String()))
		}
	case reflect.Float32, reflect.Float64:
		if a.Float() != b.Float() {
			return c.found(fmt.Sprintf("%v / %v", a.Float(), b.Float()))
		}
	}
	return ""
}

// ---------------------------------------------------------------------------------------------
// raw sample description

type rawEntry struct {
	Type          string
	DataRefIdx    uint16
	Width, Height uint16 // visual
	Channels      uint16 // audio
	SampleSize    uint16
	SampleRate    uint32            // 16.16
	Boxes         map[string][]byte // payload of the child boxes (first of each type)
	BoxOrder      []string
	Strings       []string // stpp: the zero-terminated strings
}

// parseStsd reads the complete stsd box (header included) as written in the file.
func parseStsd(raw []byte) ([]rawEntry, error) {
	if len(raw) < 16 || string(raw[4:8]) != "stsd" {
		return nil, fmt.Errorf("not an stsd box")
	}
	count := binary.BigEndian.Uint32(raw[12:])
	pos := 16
	var out []rawEntry
	for pos < len(raw) {
		if len(raw)-pos < 16 {
			return nil, fmt.Errorf("trailing bytes in stsd")
		}
		size := int(binary.BigEndian.Uint32(raw[pos:]))
		if size < 16 || pos+size > len(raw) {
			return nil, fmt.Errorf("sample entry size %d", size)
		}
		b := raw[pos : pos+size]
		e := rawEntry{Type: string(b[4:8]), DataRefIdx: binary.BigEndian.Uint16(b[14:]), Boxes: map[string][]byte{}}
		if !bytes.Equal(b[8:14], make([]byte, 6)) {
			return nil, fmt.Errorf("%s: reserved bytes not zero", e.Type)
		}
		kids := -1
		switch e.Type {
		case "avc1", "avc3", "hvc1", "hev1":
			if size < 86 {
				return nil, fmt.Errorf("%s: short visual sample entry", e.Type)
			}
			e.Width, e.Height = binary.BigEndian.Uint16(b[32:]), binary.BigEndian.Uint16(b[34:])
			kids = 86
		case "mp4a", "ac-3", "ec-3":
			if size < 36 {
				return nil, fmt.Errorf("%s: short audio sample entry", e.Type)
			}
			e.Channels, e.SampleSize, e.SampleRate = binary.BigEndian.Uint16(b[24:]), binary.BigEndian.Uint16(b[26:]), binary.BigEndian.Uint32(b[32:])
			kids = 36
		case "wvtt":
			kids = 16
		case "stpp":
			p := 16
			for i := 0; i < 3; i++ {
				z := bytes.IndexByte(b[p:], 0)
				if z < 0 {
					return nil, fmt.Errorf("stpp: string %d not terminated", i)
				}
				e.Strings = append(e.Strings, string(b[p:p+z]))
				p += z + 1
			}
			kids = p
		}
		for kids >= 0 && kids < size {
			if size-kids < 8 {
				return nil, fmt.Errorf("%s: trailing bytes", e.Type)
			}
			cs := int(binary.BigEndian.Uint32(b[kids:]))
			if cs < 8 || kids+cs > size {
				return nil, fmt.Errorf("%s: child box size %d", e.Type, cs)
			}
			ct := string(b[kids+4 : kids+8])
			if _, dup := e.Boxes[ct]; !dup {
				e.Boxes[ct] = b[kids+8 : kids+cs]
			}
			e.BoxOrder = append(e.BoxOrder, ct)
			kids += cs
		}
		out = append(out, e)
		pos += size
	}
	if int(count) != len(out) {
		return nil, fmt.Errorf("entry_count %d, %d entries", count, len(out))
	}
	return out, nil
}

// refAvcC: AVCDecoderConfigurationRecord (ISO/IEC 14496-15 5.3.3.1.2), lengthSizeMinusOne = 3, without the
// High-profile tail. profile/compat/level are bytes 1..3 of the first SPS NAL unit.
func refAvcC(sps, pps [][]byte, include bool) []byte {
	b := []byte{1, sps[0][1], sps[0][2], sps[0][3], 0xff}
	if !include {
		return append(b, 0xe0, 0)
	}
	b = append(b, 0xe0|byte(len(sps)))
	for _, n := range sps {
		b = append(append(b, byte(len(n)>>8), byte(len(n))), n...)
	}
	b = append(b, byte(len(pps)))
	for _, n := range pps {
		b = append(append(b, byte(len(n)>>8), byte(len(n))), n...)
	}
	return b
}

type rawArray struct {
	Complete bool
	Type     byte
	Nalus    [][]byte
}

// parseHvcCArrays reads the NAL unit arrays of a HEVCDecoderConfigurationRecord (ISO/IEC 14496-15 8.3.3.1.2).
func parseHvcCArrays(b []byte) ([]rawArray, error) {
	if len(b) < 23 {
		return nil, fmt.Errorf("short record")
	}
	n, pos := int(b[22]), 23
	var out []rawArray
	for i := 0; i < n; i++ {
		if pos+3 > len(b) {
			return nil, fmt.Errorf("truncated array header")
		}
		a := rawArray{Complete: b[pos]&0x80 != 0, Type: b[pos] & 0x3f}
		cnt := int(binary.BigEndian.Uint16(b[pos+1:]))
		pos += 3
		for j := 0; j < cnt; j++ {
			if pos+2 > len(b) {
				return nil, fmt.Errorf("truncated nalu length")
			}
			l := int(binary.BigEndian.Uint16(b[pos:]))
			pos += 2
			if pos+l > len(b) {
				return nil, fmt.Errorf("truncated nalu")
			}
			a.Nalus = append(a.Nalus, b[pos:pos+l])
			pos += l
		}
		out = append(out, a)
	}
	if pos != len(b) {
		return nil, fmt.Errorf("%d trailing bytes", len(b)-pos)
	}
	return out, nil
}

// refASC: AudioSpecificConfig (ISO/IEC 14496-3 1.6.2.1) of AAC-LC, or of HE-AAC / HE-AAC v2 with explicit
// hierarchical signalling (audioObjectType 5 / 29, extension sampling frequency = 2 x base, core AAC-LC),
// GASpecificConfig = 000.
func refASC(objType byte, freq int) (asc []byte, channelConfig byte) {
	idx := func(f int) int {
		for i, v := range aacFreqs {
			if v == f {
				return i
			}
		}
		return -1
	}
	w := nalgen.NewBitWriter()
	putFreq := func(f int) {
		if i := idx(f); i >= 0 {
			w.U(uint64(i), 4)
		} else {
			w.U(15, 4)
			w.U(uint64(f), 24)
		}
	}
	channelConfig = 2
	if objType == 29 {
		channelConfig = 1 // mono core, parametric stereo
	}
	w.U(uint64(objType), 5)
	putFreq(freq)
	w.U(uint64(channelConfig), 4)
	if objType == 5 || objType == 29 {
		putFreq(2 * freq)
		w.U(2, 5)
	}
	w.U(0, 3)
	return w.Out(), channelConfig
}

// ascFromEsds walks ES_Descriptor (tag 3) -> DecoderConfigDescriptor (4) -> DecoderSpecificInfo (5) in an esds payload.
func ascFromEsds(p []byte) ([]byte, byte, error) {
	pos := 4 // version + flags
	readHdr := func(want byte) (int, error) {
		if pos >= len(p) || p[pos] != want {
			return 0, fmt.Errorf("descriptor tag %d expected at %d", want, pos)
		}
		pos++
		size := 0
		for i := 0; i < 4; i++ {
			if pos >= len(p) {
				return 0, fmt.Errorf("truncated size")
			}
			c := p[pos]
			pos++
			size = size<<7 | int(c&0x7f)
			if c&0x80 == 0 {
				break
			}
		}
		if pos+size > len(p) {
			return 0, fmt.Errorf("descriptor %d exceeds box", want)
		}
		return size, nil
	}
	if _, err := readHdr(3); err != nil {
		return nil, 0, err
	}
	if pos+3 > len(p) || p[pos+2]&0xe0 != 0 {
		return nil, 0, fmt.Errorf("ES_Descriptor with optional fields")
	}
	pos += 3
	if _, err := readHdr(4); err != nil {
		return nil, 0, err
	}
	if pos+13 > len(p) {
		return nil, 0, fmt.Errorf("truncated DecoderConfigDescriptor")
	}
	objectTypeIndication := p[pos]
	pos += 13
	n, err := readHdr(5)
	if err != nil {
		return nil, 0, err
	}
	return p[pos : pos+n], objectTypeIndication, nil
}

var acmodChannels = [8]uint16{2, 1, 2, 3, 3, 4, 4, 5} // ETSI TS 102 366 Table 4.3 (nfchans)
var ac3Rates = [3]uint32{48000, 44100, 32000}         // Table 4.1

func refDac3(d *dac3Fields) []byte {
	w := nalgen.NewBitWriter()
	w.U(uint64(d.FSCod), 2)
	w.U(uint64(d.BSID), 5)
	w.U(uint64(d.BSMod), 3)
	w.U(uint64(d.ACMod), 3)
	w.U(uint64(d.LFEOn), 1)
	w.U(uint64(d.BitRateCode), 5)
	w.U(0, 5)
	return w.Out()
}

// refDec3: EC3SpecificBox payload (ETSI TS 102 366 F.6).
func refDec3(d *dec3Fields) []byte {
	w := nalgen.NewBitWriter()
	w.U(uint64(d.DataRate), 13)
	w.U(uint64(len(d.Subs)-1), 3)
	for _, s := range d.Subs {
		w.U(uint64(s.FSCod), 2)
		w.U(uint64(s.BSID), 5)
		w.U(0, 1)
		w.U(uint64(s.ASVC), 1)
		w.U(uint64(s.BSMod), 3)
		w.U(uint64(s.ACMod), 3)
		w.U(uint64(s.LFEOn), 1)
		w.U(0, 3)
		w.U(uint64(s.NumDepSub), 4)
		if s.NumDepSub > 0 {
			w.U(uint64(s.ChanLoc), 9)
		} else {
			w.U(0, 1)
		}
	}
	return w.Out()
}

// ec3Channels: channels of independent substream 0 plus the locations carried by its dependent substreams
// (chan_loc bits, Table F.6.1: bit 0 Lc/Rc, 1 Lrs/Rrs, 2 Cs, 3 Ts, 4 Lsd/Rsd, 5 Lw/Rw, 6 Lvh/Rvh, 7 Cvh, 8 LFE2).
func ec3Channels(s ec3Sub) uint16 {
	n := acmodChannels[s.ACMod] + uint16(s.LFEOn)
	if s.NumDepSub > 0 {
		pair := [9]uint16{2, 2, 1, 1, 2, 2, 2, 1, 1}
		for i := 0; i < 9; i++ {
			if s.ChanLoc>>uint(i)&1 != 0 {
				n += pair[i]
			}
		}
	}
	return n
}

func packLang(l string) uint16 { // ISO/IEC 14496-12 8.4.2.3: three 5-bit values, each the character minus 0x60
	return uint16(l[0]-0x60)<<10 | uint16(l[1]-0x60)<<5 | uint16(l[2]-0x60)
}

func nalusEqual(a [][]byte, b [][]byte) bool {
	if len(a) != len(b) {
		return false
	}
	for i := range a {
		if !bytes.Equal(a[i], b[i]) {
			return false
		}
	}
	return true
}
