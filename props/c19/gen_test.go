// C19 generators: op lists (AddEmptyTrack + one Set*Descriptor each) with parameter sets serialised by nalgen.
package c19

import (
	"fmt"

	"github.com/Eyevinn/mp4ff/hevc"
	"pgregory.net/rapid"

	"verif/internal/harness"
	"verif/internal/nalgen"
)

// avoidKnown: one switch per CONFIRMED defect of the unchanged library (reproducers: /verif/replay/C19/kf-<name>.json,
// they carry "noAvoid": true). While a switch is on, the generator steers away from the triggering feature or the
// oracle skips exactly the one relation concerned; every such event is counted with harness.Rec.Exclude(name).
// VERIF_C19_NOAVOID=all|name,name switches them off for one run.
var avoidKnown = map[string]bool{
	// CreateEmptyTrak picks the media header box (and the audio tkhd volume) by comparing the mediaType STRING with
	// "video"/"audio"/"subtitle"..., although CreateHdlr accepts (and documents: "mediaOrHdlrType") the handler codes
	// "vide", "soun", "subt" and "clcp" as well: those tracks get hdlr vide/soun/subt with an nmhd box (ISO/IEC
	// 14496-12 8.4.5: vmhd for video, smhd for audio, sthd for subtitle tracks) and "soun" gets tkhd volume 0.
	// Generator: these four media types are replaced by their long names.
	"mediaheader-from-mediatype-string": false, // repaired in /repo (fix: 647e10f)
	// AddEmptyTrack(ts, "stpp", lang) (the call of examples/initcreator) writes handler_type 'stpp': CreateHdlr has no
	// case for it and falls into the "any four characters" default, CreateEmptyTrak gives the track an sthd box.
	// ISO/IEC 14496-30 5.2 / 14496-12 12.6: subtitle tracks (sthd, XMLSubtitleSampleEntry) use handler 'subt'.
	// Oracle: the handler relation is skipped for media type "stpp".
	"stpp-handler-type": false, // repaired in /repo (fix: 647e10f)
	// SetWvttDescriptor builds WvttBox{} (not NewWvttBox()): data_reference_index 0. ISO/IEC 14496-12 8.5.2.2:
	// the index ranges from 1 to the number of data references. Oracle: that relation is skipped for wvtt.
	"wvtt-data-reference-index-0": false, // repaired in /repo (fix: fb97adc)
	// SetAACDescriptor converts samplingFrequency with uint16(): 96000 -> 30464, 88200 -> 22664 in the sample entry.
	// Generator: those two table frequencies are replaced by 48000.
	"aac-samplerate-over-65535": true,
	// Dec3Box.NumIndSub is a public field that neither the encoder uses (it writes len(EC3Subs)-1) nor the decoder
	// sets: a dec3 with two independent substreams and NumIndSub=1 decodes to NumIndSub=0 (tree not equal).
	// Generator: NumIndSub is left 0.
	"dec3-numindsub-not-decoded": false, // repaired in /repo (fix: 095974d)
	// avc.DecodeAVCDecConfRec leaves ChromaFormat 0 (monochrome) for the profiles whose record has no chroma_format
	// field (66, 77, 88), CreateAVCDecConfRec (and H.264 7.4.2.1.1: chroma_format_idc inferred to be 1) says 1: the
	// decoded avcC differs from the built one. Oracle: that one field difference is skipped for those profiles.
	"avcc-chroma-not-inferred-on-decode": false, // repaired in /repo (fix: e907a20)
	// SetEC3Descriptor indexes AC3SampleRates[fscod] (3 entries): fscod=3 (E-AC-3: reduced sample rate signalled by
	// fscod2, ETSI TS 102 366 E.1.3.1.4/5; dec3 copies fscod) panics with index out of range although the function
	// returns an error. Generator: fscod 0..2.
	"ec3-fscod3-panic": false, // repaired in /repo (fix: f4918d5)
}

func avoidGen(name string, hit bool) bool {
	if hit && avoidKnown[name] {
		harness.Rec.Exclude(name)
		return true
	}
	return false
}

type dac3Fields struct {
	FSCod, BSID, BSMod, ACMod, LFEOn, BitRateCode byte
}

type ec3Sub struct {
	FSCod, BSID, ASVC, BSMod, ACMod, LFEOn, NumDepSub byte
	ChanLoc                                           uint16
}

type dec3Fields struct {
	DataRate  uint16   `json:"dataRate"`
	NumIndSub uint16   `json:"numIndSub"`
	Subs      []ec3Sub `json:"subs"`
}

type sampleSpec struct {
	Data       harness.HexBytes `json:"data"`
	Dur        uint32           `json:"dur"`
	Flags      uint32           `json:"flags"`
	Cto        int32            `json:"cto"`
	DecodeTime uint64           `json:"decodeTime"`
}

// trackOp is one AddEmptyTrack call followed by the Set*Descriptor call named by Codec.
type trackOp struct {
	Timescale uint32 `json:"timescale"`
	MediaType string `json:"mediaType"`
	Lang      string `json:"lang"`
	Codec     string `json:"codec"` // avc | hevc | aac | ac3 | ec3 | wvtt | stpp | none
	// video
	SampleEntry string             `json:"sampleEntry,omitempty"` // avc1 | avc3 | hvc1 | hev1
	IncludePS   bool               `json:"includePS,omitempty"`
	VPS         []harness.HexBytes `json:"vps,omitempty"`
	SPS         []harness.HexBytes `json:"sps,omitempty"`
	PPS         []harness.HexBytes `json:"pps,omitempty"`
	SEI         []harness.HexBytes `json:"sei,omitempty"`
	// what the generator's model (nalgen value tree of SPS[0]) says
	Width    uint32           `json:"width,omitempty"`
	Height   uint32           `json:"height,omitempty"`
	Chroma   byte             `json:"chroma,omitempty"`
	BdLuma   byte             `json:"bdLuma,omitempty"`   // bit_depth_luma_minus8
	BdChroma byte             `json:"bdChroma,omitempty"` // bit_depth_chroma_minus8
	PTL      harness.HexBytes `json:"ptl,omitempty"`      // HEVC: the 12 general profile/tier/level bytes (unescaped)
	// audio
	AACObjType byte        `json:"aacObjType,omitempty"`
	AACFreq    int         `json:"aacFreq,omitempty"`
	Dac3       *dac3Fields `json:"dac3,omitempty"`
	Dec3       *dec3Fields `json:"dec3,omitempty"`
	// text
	VttConfig  string `json:"vttConfig,omitempty"`
	StppNS     string `json:"stppNS,omitempty"`
	StppSchema string `json:"stppSchema,omitempty"`
	StppAux    string `json:"stppAux,omitempty"`
	// the sample written for this track into the fragments
	Sample sampleSpec `json:"sample"`
}

type initCase struct {
	Ops       []trackOp `json:"ops"`
	SingleIdx int       `json:"singleIdx"` // track (index into Ops) of the CreateFragment fragment
	SeqNr     uint32    `json:"seqNr"`
	NoAvoid   bool      `json:"noAvoid,omitempty"`
}

// ---------------------------------------------------------------------------------------------
// small draw helpers

func pct(t *rapid.T, p int, label string) bool { return rapid.IntRange(0, 99).Draw(t, label) < p }

var u32Gen = rapid.OneOf(rapid.SampledFrom([]uint32{1, 2, 1000, 44100, 48000, 90000, 10000000, 0x7fffffff, 0x80000000, 0xffffffff}),
	rapid.Uint32Range(1, 0xffffffff), rapid.Uint32Range(1, 200000))

func hexList(n [][]byte) []harness.HexBytes {
	var out []harness.HexBytes
	for _, b := range n {
		out = append(out, harness.HexBytes(b))
	}
	return out
}

// ---------------------------------------------------------------------------------------------
// language tags

var langs3 = []string{"und", "eng", "swe", "fra", "deu", "zho", "aaa", "zzz", "mul", "qaa"}
var langs2 = []string{"en", "sv", "zh", "de", "pt"}
var langsBCP = []string{"en-US", "zh-Hant-TW", "sr-Latn-RS", "de-CH-1996", "es-419", "x-klingon", "eng-US", "pt-BR", "i-navajo", "en-GB-oxendict", "zh-Hans"}

func genLang(t *rapid.T) string {
	letter := rapid.IntRange('a', 'z')
	switch rapid.IntRange(0, 7).Draw(t, "langShape") {
	case 0, 1:
		return rapid.SampledFrom(langs3).Draw(t, "lang3")
	case 2:
		return string([]byte{byte(letter.Draw(t, "l0")), byte(letter.Draw(t, "l1")), byte(letter.Draw(t, "l2"))})
	case 3:
		return rapid.SampledFrom(langs2).Draw(t, "lang2")
	case 4:
		return string([]byte{byte(letter.Draw(t, "l0")), byte(letter.Draw(t, "l1"))})
	case 5:
		up := rapid.IntRange('A', 'Z')
		n := rapid.IntRange(2, 3).Draw(t, "primaryLen")
		b := []byte{}
		for i := 0; i < n; i++ {
			b = append(b, byte(letter.Draw(t, "l")))
		}
		return string(b) + "-" + string([]byte{byte(up.Draw(t, "r0")), byte(up.Draw(t, "r1"))})
	default:
		return rapid.SampledFrom(langsBCP).Draw(t, "langBCP")
	}
}

func langShape(l string) string {
	isLetters := true
	for _, c := range l {
		if c < 'a' || c > 'z' {
			isLetters = false
		}
	}
	switch {
	case len(l) == 3 && isLetters:
		return "lang-3-letter"
	case len(l) == 2:
		return "lang-2-letter"
	case len(l) == 3:
		return "lang-3-bytes-not-letters"
	default:
		return "lang-bcp47-long"
	}
}

// ---------------------------------------------------------------------------------------------
// AVC parameter sets

var avcProfiles = []uint32{66, 77, 88, 100, 110, 122, 244, 44}
var avcLevels = []uint32{10, 11, 12, 13, 20, 21, 22, 30, 31, 32, 40, 41, 42, 50, 51, 52, 60, 62}

func genAVCSPS(t *rapid.T, id uint32, l string) nalgen.AVCSPSTree {
	var tr nalgen.AVCSPSTree
	s := &tr.S
	tr.NalRefIdc = uint8(rapid.IntRange(1, 3).Draw(t, l+"refidc"))
	s.Profile = rapid.SampledFrom(avcProfiles).Draw(t, l+"profile")
	s.ProfileCompatibility = uint32(rapid.IntRange(0, 63).Draw(t, l+"constraints")) << 2
	s.Level = rapid.SampledFrom(avcLevels).Draw(t, l+"level")
	s.ParameterID = id
	s.ChromaFormatIDC = 1
	if nalgen.AVCHighProfileFields(s.Profile) {
		s.ChromaFormatIDC = byte(rapid.SampledFrom([]int{1, 1, 0, 2, 3}).Draw(t, l+"chroma"))
		s.BitDepthLumaMinus8 = uint(rapid.SampledFrom([]int{0, 0, 1, 2, 4}).Draw(t, l+"bdl"))
		s.BitDepthChromaMinus8 = uint(rapid.SampledFrom([]int{0, 0, 1, 2, 4}).Draw(t, l+"bdc"))
		if s.ChromaFormatIDC == 3 {
			s.SeparateColourPlaneFlag = rapid.Bool().Draw(t, l+"sep")
		}
		s.QPPrimeYZeroTransformBypassFlag = rapid.Bool().Draw(t, l+"qpp")
	}
	s.Log2MaxFrameNumMinus4 = uint(rapid.IntRange(0, 12).Draw(t, l+"fn"))
	s.PicOrderCntType = uint(rapid.SampledFrom([]int{0, 2}).Draw(t, l+"poc"))
	if s.PicOrderCntType == 0 {
		s.Log2MaxPicOrderCntLsbMinus4 = uint(rapid.IntRange(0, 12).Draw(t, l+"poclsb"))
	}
	s.NumRefFrames = uint(rapid.IntRange(0, 16).Draw(t, l+"refs"))
	s.GapsInFrameNumValueAllowedFlag = rapid.Bool().Draw(t, l+"gaps")
	s.FrameMbsOnlyFlag = pct(t, 70, l+"fmo")
	var w, h int
	switch rapid.IntRange(0, 5).Draw(t, l+"dimsMode") {
	case 0, 1, 2:
		w, h = rapid.IntRange(1, 12).Draw(t, l+"wMbs"), rapid.IntRange(1, 12).Draw(t, l+"hMbs")
	case 3, 4:
		d := rapid.SampledFrom([][2]int{{120, 68}, {80, 45}, {45, 36}, {22, 18}, {11, 9}, {240, 135}, {256, 135}, {40, 30}, {480, 270}}).Draw(t, l+"dimsReal")
		w, h = d[0], d[1]
	default:
		w, h = rapid.IntRange(1, 1055).Draw(t, l+"wMbsBig"), rapid.IntRange(1, 130).Draw(t, l+"hMbsBig")
	}
	if !s.FrameMbsOnlyFlag {
		h = (h + 1) / 2
		s.MbAdaptiveFrameFieldFlag = rapid.Bool().Draw(t, l+"mbaff")
	}
	tr.PicWidthInMbsMinus1, tr.PicHeightInMapUnitsMinus1 = uint(w-1), uint(h-1)
	s.Direct8x8InferenceFlag = !s.FrameMbsOnlyFlag || rapid.Bool().Draw(t, l+"d8x8")
	s.FrameCroppingFlag = rapid.Bool().Draw(t, l+"crop")
	if s.FrameCroppingFlag {
		cx, cy := nalgen.AVCCropUnits(s)
		fw, fh := uint(w)*16, uint(h)*16
		if !s.FrameMbsOnlyFlag {
			fh *= 2
		}
		hor := uint(rapid.IntRange(0, int((fw-1)/cx)).Draw(t, l+"cropHor"))
		ver := uint(rapid.IntRange(0, int((fh-1)/cy)).Draw(t, l+"cropVer"))
		if pct(t, 60, l+"cropSmall") { // realistic: less than one macroblock
			hor, ver = hor%(16/cx), ver%(32/cy)
			if ver > (fh-1)/cy {
				ver = (fh - 1) / cy
			}
		}
		s.FrameCropLeftOffset = uint(rapid.IntRange(0, int(hor)).Draw(t, l+"cropL"))
		s.FrameCropRightOffset = hor - s.FrameCropLeftOffset
		s.FrameCropTopOffset = uint(rapid.IntRange(0, int(ver)).Draw(t, l+"cropT"))
		s.FrameCropBottomOffset = ver - s.FrameCropTopOffset
	}
	return tr
}

func genAVCPPS(t *rapid.T, id uint32, sps *nalgen.AVCSPSTree, l string) nalgen.AVCPPSTree {
	var tr nalgen.AVCPPSTree
	p := &tr.P
	tr.NalRefIdc = uint8(rapid.IntRange(1, 3).Draw(t, l+"refidc"))
	p.PicParameterSetID, p.SeqParameterSetID = id, sps.S.ParameterID
	p.EntropyCodingModeFlag = rapid.Bool().Draw(t, l+"cabac")
	p.BottomFieldPicOrderInFramePresentFlag = rapid.Bool().Draw(t, l+"bf")
	p.NumRefIdxI0DefaultActiveMinus1 = uint(rapid.IntRange(0, 31).Draw(t, l+"l0"))
	p.NumRefIdxI1DefaultActiveMinus1 = uint(rapid.IntRange(0, 31).Draw(t, l+"l1"))
	p.WeightedPredFlag = rapid.Bool().Draw(t, l+"wp")
	p.WeightedBipredIDC = uint(rapid.IntRange(0, 2).Draw(t, l+"wbp"))
	p.PicInitQpMinus26 = rapid.IntRange(-26, 25).Draw(t, l+"qp")
	p.PicInitQsMinus26 = rapid.IntRange(-26, 25).Draw(t, l+"qs")
	p.ChromaQpIndexOffset = rapid.IntRange(-12, 12).Draw(t, l+"cqp")
	p.DeblockingFilterControlPresentFlag = rapid.Bool().Draw(t, l+"dbf")
	p.ConstrainedIntraPredFlag = rapid.Bool().Draw(t, l+"cip")
	p.RedundantPicCntPresentFlag = rapid.Bool().Draw(t, l+"red")
	tr.TailPresent = rapid.Bool().Draw(t, l+"tail")
	if tr.TailPresent {
		p.Transform8x8ModeFlag = rapid.Bool().Draw(t, l+"t8x8")
		p.SecondChromaQpIndexOffset = rapid.IntRange(-12, 12).Draw(t, l+"cqp2")
	}
	return tr
}

func distinct(t *rapid.T, n, max int, label string) []int {
	seen := map[int]bool{}
	var out []int
	for len(out) < n {
		v := rapid.IntRange(0, max).Draw(t, label)
		for seen[v] {
			v = (v + 1) % (max + 1)
		}
		seen[v] = true
		out = append(out, v)
	}
	return out
}

func genAVCOp(t *rapid.T, op *trackOp) {
	op.Codec = "avc"
	op.SampleEntry = rapid.SampledFrom([]string{"avc1", "avc3"}).Draw(t, "avcEntry")
	op.IncludePS = op.SampleEntry == "avc1" || pct(t, 60, "includePS") // avc1 without parameter sets is rejected by contract
	nSPS := rapid.SampledFrom([]int{1, 1, 1, 2, 3}).Draw(t, "nSPS")
	nPPS := rapid.SampledFrom([]int{1, 1, 2, 3}).Draw(t, "nPPS")
	sids, pids := distinct(t, nSPS, 31, "spsID"), distinct(t, nPPS, 255, "ppsID")
	var trees []nalgen.AVCSPSTree
	for i := 0; i < nSPS; i++ {
		tr := genAVCSPS(t, uint32(sids[i]), fmt.Sprintf("s%d-", i))
		trees = append(trees, tr)
		n, _ := nalgen.SerializeAVCSPS(&tr)
		op.SPS = append(op.SPS, n)
	}
	for i := 0; i < nPPS; i++ {
		ref := &trees[rapid.IntRange(0, nSPS-1).Draw(t, "ppsRef")]
		tr := genAVCPPS(t, uint32(pids[i]), ref, fmt.Sprintf("p%d-", i))
		chroma := ref.S.ChromaFormatIDC
		n, _ := nalgen.SerializeAVCPPS(&tr, chroma)
		op.PPS = append(op.PPS, n)
	}
	w, h := nalgen.AVCDisplaySize(&trees[0])
	op.Width, op.Height = uint32(w), uint32(h)
	op.Chroma, op.BdLuma, op.BdChroma = trees[0].S.ChromaFormatIDC, byte(trees[0].S.BitDepthLumaMinus8), byte(trees[0].S.BitDepthChromaMinus8)
}

// ---------------------------------------------------------------------------------------------
// HEVC parameter sets

func hevcSubWH(chroma byte) (uint32, uint32) { // Table 6-1
	switch chroma {
	case 1:
		return 2, 2
	case 2:
		return 2, 1
	}
	return 1, 1
}

func genHEVCSPS(t *rapid.T, id int, l string) *nalgen.HEVCSPSTree {
	tr := &nalgen.HEVCSPSTree{TemporalIDPlus1: 1}
	s := &tr.SPS
	s.VpsID = byte(rapid.IntRange(0, 15).Draw(t, l+"vps"))
	s.TemporalIDNestingFlag = true
	p := &s.ProfileTierLevel
	p.GeneralProfileSpace = byte(rapid.SampledFrom([]int{0, 0, 0, 1, 2, 3}).Draw(t, l+"space"))
	p.GeneralTierFlag = rapid.Bool().Draw(t, l+"tier")
	p.GeneralProfileIDC = byte(rapid.IntRange(1, 11).Draw(t, l+"idc"))
	p.GeneralProfileCompatibilityFlags = rapid.OneOf(rapid.Uint32(), rapid.SampledFrom([]uint32{0, 0x60000000, 0x40000000, 1, 0xffffffff})).Draw(t, l+"compat")
	fl := rapid.IntRange(0, 15).Draw(t, l+"srcflags")
	p.GeneralProgressiveSourceFlag, p.GeneralInterlacedSourceFlag = fl&1 != 0, fl&2 != 0
	p.GeneralNonPackedConstraintFlag, p.GeneralFrameOnlyConstraintFlag = fl&4 != 0, fl&8 != 0
	low44 := rapid.OneOf(rapid.Just(uint64(0)), rapid.Uint64Range(0, 1<<44-1)).Draw(t, l+"low44")
	p.GeneralConstraintIndicatorFlags = uint64(fl&1)<<47 | uint64(fl>>1&1)<<46 | uint64(fl>>2&1)<<45 | uint64(fl>>3&1)<<44 | low44
	p.GeneralLevelIDC = byte(rapid.SampledFrom([]int{30, 60, 63, 90, 93, 120, 123, 150, 153, 156, 180, 183, 186, 0, 255}).Draw(t, l+"level"))
	s.SpsID = byte(id)
	s.ChromaFormatIDC = byte(rapid.SampledFrom([]int{1, 1, 0, 2, 3}).Draw(t, l+"chroma"))
	if s.ChromaFormatIDC == 3 {
		s.SeparateColourPlaneFlag = rapid.Bool().Draw(t, l+"sep")
	}
	s.Log2MinLumaCodingBlockSizeMinus3, s.Log2DiffMaxMinLumaCodingBlockSize = 0, byte(rapid.IntRange(1, 3).Draw(t, l+"ctb"))
	const minCb = 8
	var w, h int
	switch rapid.IntRange(0, 4).Draw(t, l+"dimsMode") {
	case 0, 1:
		w, h = rapid.IntRange(1, 40).Draw(t, l+"w8"), rapid.IntRange(1, 40).Draw(t, l+"h8")
	case 2, 3:
		d := rapid.SampledFrom([][2]int{{176, 144}, {352, 288}, {416, 240}, {640, 360}, {1280, 720}, {1920, 1080}, {1920, 1088}, {3840, 2160}, {7680, 4320}, {8192, 4320}}).Draw(t, l+"dimsReal")
		w, h = (d[0]+minCb-1)/minCb, (d[1]+minCb-1)/minCb
	default:
		w, h = rapid.IntRange(1, 8191).Draw(t, l+"w8big"), rapid.IntRange(1, 8191).Draw(t, l+"h8big")
	}
	s.PicWidthInLumaSamples, s.PicHeightInLumaSamples = uint32(w*minCb), uint32(h*minCb)
	s.ConformanceWindowFlag = rapid.Bool().Draw(t, l+"cw")
	if s.ConformanceWindowFlag {
		sw, sh := hevcSubWH(s.ChromaFormatIDC)
		mw, mh := int((s.PicWidthInLumaSamples-1)/sw), int((s.PicHeightInLumaSamples-1)/sh)
		if pct(t, 60, l+"cwSmall") {
			if mw > 7 {
				mw = 7
			}
			if mh > 7 {
				mh = 7
			}
		}
		hor, ver := rapid.IntRange(0, mw).Draw(t, l+"cwHor"), rapid.IntRange(0, mh).Draw(t, l+"cwVer")
		le, to := rapid.IntRange(0, hor).Draw(t, l+"cwL"), rapid.IntRange(0, ver).Draw(t, l+"cwT")
		s.ConformanceWindow = hevc.ConformanceWindow{LeftOffset: uint32(le), RightOffset: uint32(hor - le), TopOffset: uint32(to), BottomOffset: uint32(ver - to)}
	}
	// bit depths up to 15 bits: the 3-bit fields of the hvcC record cannot hold bit_depth_minus8 = 8
	s.BitDepthLumaMinus8 = byte(rapid.SampledFrom([]int{0, 0, 2, 4, 7}).Draw(t, l+"bdl"))
	s.BitDepthChromaMinus8 = byte(rapid.SampledFrom([]int{0, 0, 2, 4, 7}).Draw(t, l+"bdc"))
	s.Log2MaxPicOrderCntLsbMinus4 = byte(rapid.IntRange(0, 12).Draw(t, l+"poc"))
	s.SubLayerOrderingInfoPresentFlag = rapid.Bool().Draw(t, l+"slo")
	dpb := rapid.IntRange(0, 15).Draw(t, l+"dpb")
	s.SubLayeringOrderingInfos = []hevc.SubLayerOrderingInfo{{MaxDecPicBufferingMinus1: byte(dpb),
		MaxNumReorderPics: byte(rapid.IntRange(0, dpb).Draw(t, l+"reo")), MaxLatencyIncreasePlus1: byte(rapid.IntRange(0, 200).Draw(t, l+"lat"))}}
	s.Log2MinLumaTransformBlockSizeMinus2, s.Log2DiffMaxMinLumaTransformBlockSize = 0, 1
	s.MaxTransformHierarchyDepthInter = byte(rapid.IntRange(0, 2).Draw(t, l+"thi"))
	s.MaxTransformHierarchyDepthIntra = byte(rapid.IntRange(0, 2).Draw(t, l+"tha"))
	fl2 := rapid.IntRange(0, 15).Draw(t, l+"toolflags")
	s.AmpEnabledFlag, s.SampleAdaptiveOffsetEnabledFlag = fl2&1 != 0, fl2&2 != 0
	s.SpsTemporalMvpEnabledFlag, s.StrongIntraSmoothingEnabledFlag = fl2&4 != 0, fl2&8 != 0
	return tr
}

func genHEVCPPS(t *rapid.T, id int, sps *nalgen.HEVCSPSTree, l string) *nalgen.HEVCPPSTree {
	tr := &nalgen.HEVCPPSTree{TemporalIDPlus1: 1}
	p := &tr.PPS
	p.PicParameterSetID, p.SeqParameterSetID = uint32(id), uint32(sps.SPS.SpsID)
	fl := rapid.IntRange(0, 255).Draw(t, l+"flags")
	p.DependentSliceSegmentsEnabledFlag, p.OutputFlagPresentFlag, p.SignDataHidingEnabledFlag = fl&1 != 0, fl&2 != 0, fl&4 != 0
	p.CabacInitPresentFlag, p.ConstrainedIntraPredFlag, p.TransformSkipEnabledFlag = fl&8 != 0, fl&16 != 0, fl&32 != 0
	p.WeightedPredFlag, p.EntropyCodingSyncEnabledFlag = fl&64 != 0, fl&128 != 0
	p.NumRefIdxL0DefaultActiveMinus1 = uint8(rapid.IntRange(0, 14).Draw(t, l+"l0"))
	p.InitQpMinus26 = int8(rapid.IntRange(-26, 25).Draw(t, l+"qp"))
	p.CbQpOffset, p.CrQpOffset = int8(rapid.IntRange(-12, 12).Draw(t, l+"cb")), int8(rapid.IntRange(-12, 12).Draw(t, l+"cr"))
	return tr
}

func genHEVCOp(t *rapid.T, op *trackOp) {
	op.Codec = "hevc"
	op.SampleEntry = rapid.SampledFrom([]string{"hvc1", "hev1"}).Draw(t, "hevcEntry")
	op.IncludePS = op.SampleEntry == "hvc1" || pct(t, 60, "includePS") // hvc1 without parameter sets is rejected by contract
	nSPS := rapid.SampledFrom([]int{1, 1, 1, 2}).Draw(t, "nSPS")
	nPPS := rapid.SampledFrom([]int{1, 1, 2, 3}).Draw(t, "nPPS")
	sids, pids := distinct(t, nSPS, 15, "spsID"), distinct(t, nPPS, 63, "ppsID")
	var trees []*nalgen.HEVCSPSTree
	for i := 0; i < nSPS; i++ {
		tr := genHEVCSPS(t, sids[i], fmt.Sprintf("s%d-", i))
		trees = append(trees, tr)
		n, _ := nalgen.HEVCWriteSPS(tr)
		op.SPS = append(op.SPS, n)
	}
	for i := 0; i < nPPS; i++ {
		tr := genHEVCPPS(t, pids[i], trees[rapid.IntRange(0, nSPS-1).Draw(t, "ppsRef")], fmt.Sprintf("p%d-", i))
		n, _ := nalgen.HEVCWritePPS(tr)
		op.PPS = append(op.PPS, n)
	}
	s := &trees[0].SPS
	nVPS := rapid.SampledFrom([]int{1, 1, 1, 2, 0}).Draw(t, "nVPS")
	for i := 0; i < nVPS; i++ {
		v := &nalgen.HEVCVPSTree{VpsID: (s.VpsID + byte(i)) & 15, BaseLayerInternalFlag: true, BaseLayerAvailableFlag: true,
			TemporalIDNestingFlag: true, PTL: s.ProfileTierLevel, SubLayerOrderingInfoPresent: s.SubLayerOrderingInfoPresentFlag,
			OrderingInfos: s.SubLayeringOrderingInfos, TimingInfoPresentFlag: rapid.Bool().Draw(t, "vpsTiming"), NumUnitsInTick: 1001, TimeScale: 60000}
		op.VPS = append(op.VPS, nalgen.HEVCWriteVPS(v))
	}
	if op.IncludePS && pct(t, 30, "sei") { // prefix SEI NAL units are carried opaquely in a fourth array
		n := rapid.IntRange(1, 2).Draw(t, "nSEI")
		for i := 0; i < n; i++ {
			pl := rapid.SliceOfN(rapid.ByteRange(1, 255), 17, 24).Draw(t, "seiPayload")
			nal := append(nalgen.HEVCNalHeader(39, 0, 1), 5, byte(len(pl)))
			op.SEI = append(op.SEI, append(append(nal, pl...), 0x80))
		}
	}
	sw, sh := hevcSubWH(s.ChromaFormatIDC)
	op.Width = s.PicWidthInLumaSamples - sw*(s.ConformanceWindow.LeftOffset+s.ConformanceWindow.RightOffset)
	op.Height = s.PicHeightInLumaSamples - sh*(s.ConformanceWindow.TopOffset+s.ConformanceWindow.BottomOffset)
	op.Chroma, op.BdLuma, op.BdChroma = s.ChromaFormatIDC, s.BitDepthLumaMinus8, s.BitDepthChromaMinus8
	p := &s.ProfileTierLevel
	w := nalgen.NewBitWriter()
	w.U(uint64(p.GeneralProfileSpace), 2)
	w.Flag(p.GeneralTierFlag)
	w.U(uint64(p.GeneralProfileIDC), 5)
	w.U(uint64(p.GeneralProfileCompatibilityFlags), 32)
	w.U(p.GeneralConstraintIndicatorFlags, 48)
	w.U(uint64(p.GeneralLevelIDC), 8)
	op.PTL = w.Out()
}

// ---------------------------------------------------------------------------------------------
// audio, text

var aacFreqs = []int{96000, 88200, 64000, 48000, 44100, 32000, 24000, 22050, 16000, 12000, 11025, 8000, 7350}

func genAudioOp(t *rapid.T, op *trackOp) {
	switch rapid.IntRange(0, 3).Draw(t, "audioCodec") {
	case 0, 1:
		op.Codec = "aac"
		op.AACObjType = rapid.SampledFrom([]byte{2, 5, 29}).Draw(t, "aacObjType")
		op.AACFreq = rapid.SampledFrom(aacFreqs).Draw(t, "aacFreq")
		if avoidGen("aac-samplerate-over-65535", op.AACFreq > 65535) {
			op.AACFreq = 48000
		}
	case 2:
		op.Codec = "ac3"
		op.Dac3 = &dac3Fields{FSCod: byte(rapid.IntRange(0, 2).Draw(t, "fscod")), BSID: byte(rapid.IntRange(0, 31).Draw(t, "bsid")),
			BSMod: byte(rapid.IntRange(0, 7).Draw(t, "bsmod")), ACMod: byte(rapid.IntRange(0, 7).Draw(t, "acmod")),
			LFEOn: byte(rapid.IntRange(0, 1).Draw(t, "lfeon")), BitRateCode: byte(rapid.IntRange(0, 18).Draw(t, "bitRateCode"))}
	default:
		op.Codec = "ec3"
		d := &dec3Fields{DataRate: uint16(rapid.IntRange(0, 8191).Draw(t, "dataRate"))}
		n := rapid.SampledFrom([]int{1, 1, 1, 2, 3, 8}).Draw(t, "nSubs")
		for i := 0; i < n; i++ {
			s := ec3Sub{FSCod: byte(rapid.IntRange(0, 3).Draw(t, "fscod")), BSID: byte(rapid.IntRange(0, 31).Draw(t, "bsid")),
				ASVC: byte(rapid.IntRange(0, 1).Draw(t, "asvc")), BSMod: byte(rapid.IntRange(0, 7).Draw(t, "bsmod")),
				ACMod: byte(rapid.IntRange(0, 7).Draw(t, "acmod")), LFEOn: byte(rapid.IntRange(0, 1).Draw(t, "lfeon"))}
			if i == 0 && avoidGen("ec3-fscod3-panic", s.FSCod == 3) {
				s.FSCod = 0
			}
			if pct(t, 40, "depSubs") {
				s.NumDepSub = byte(rapid.IntRange(1, 15).Draw(t, "numDepSub"))
				s.ChanLoc = uint16(rapid.IntRange(0, 511).Draw(t, "chanLoc"))
			}
			d.Subs = append(d.Subs, s)
		}
		d.NumIndSub = uint16(n - 1) // num_ind_sub of ETSI TS 102 366 F.6: number of independent substreams minus 1
		if avoidGen("dec3-numindsub-not-decoded", d.NumIndSub != 0) {
			d.NumIndSub = 0
		}
		op.Dec3 = d
	}
}

var strChar = rapid.SampledFrom([]rune("abcxyzABZ019 :/._-#é€"))

func genText(t *rapid.T, label string, max int) string {
	return string(rapid.SliceOfN(strChar, 0, max).Draw(t, label))
}

func genWvttOp(t *rapid.T, op *trackOp) {
	op.Codec = "wvtt"
	switch rapid.IntRange(0, 3).Draw(t, "vttShape") {
	case 0:
		op.VttConfig = "" // documented: replaced by "WEBVTT"
	case 1:
		op.VttConfig = "WEBVTT"
	default:
		op.VttConfig = "WEBVTT" + rapid.SampledFrom([]string{"\n", " - ", "\n\nNOTE "}).Draw(t, "vttSep") + genText(t, "vttTail", 30)
	}
}

func genStppOp(t *rapid.T, op *trackOp) {
	op.Codec = "stpp"
	op.StppNS = rapid.SampledFrom([]string{"", "http://www.w3.org/ns/ttml", "http://www.w3.org/ns/ttml http://www.w3.org/ns/ttml#metadata", "urn:x", "ns:" + genText(t, "nsTail", 12)}).Draw(t, "stppNS")
	if pct(t, 50, "schema?") {
		op.StppSchema = rapid.SampledFrom([]string{"http://www.w3.org/ns/ttml/profile/imsc1/text", "a b", genText(t, "schemaTail", 12)}).Draw(t, "stppSchema")
	}
	if pct(t, 50, "aux?") {
		op.StppAux = rapid.SampledFrom([]string{"image/png", "image/png application/x-font-ttf", genText(t, "auxTail", 12)}).Draw(t, "stppAux")
	}
}

// ---------------------------------------------------------------------------------------------
// the op list

func genOp(t *rapid.T) trackOp {
	op := trackOp{Timescale: u32Gen.Draw(t, "timescale"), Lang: genLang(t)}
	mt := rapid.SampledFrom([]string{"video", "video", "video", "audio", "audio", "audio", "vide", "soun", "subtitle", "subt", "stpp", "stpp",
		"text", "wvtt", "wvtt", "meta", "clcp"}).Draw(t, "mediaType")
	if avoidGen("mediaheader-from-mediatype-string", mt == "vide" || mt == "soun" || mt == "subt" || mt == "clcp") {
		mt = map[string]string{"vide": "video", "soun": "audio", "subt": "subtitle", "clcp": "meta"}[mt]
	}
	op.MediaType = mt
	switch mt {
	case "video", "vide":
		if rapid.Bool().Draw(t, "hevc?") {
			genHEVCOp(t, &op)
		} else {
			genAVCOp(t, &op)
		}
	case "audio", "soun":
		genAudioOp(t, &op)
	case "subtitle", "subt", "stpp":
		genStppOp(t, &op)
	case "text", "wvtt":
		genWvttOp(t, &op)
	default:
		op.Codec = "none" // no Set*Descriptor exists for timed metadata / closed caption tracks: the stsd stays empty
	}
	op.Sample = sampleSpec{Data: rapid.SliceOfN(rapid.Byte(), 1, 12).Draw(t, "sampleData"), Dur: rapid.OneOf(rapid.Uint32Range(0, 5000), rapid.Uint32()).Draw(t, "dur"),
		Flags:      rapid.OneOf(rapid.SampledFrom([]uint32{0, 0x02000000, 0x01010000}), rapid.Uint32()).Draw(t, "flags"),
		Cto:        rapid.OneOf(rapid.Int32Range(-5000, 5000), rapid.Int32()).Draw(t, "cto"),
		DecodeTime: rapid.OneOf(rapid.Uint64Range(0, 1<<20), rapid.SampledFrom([]uint64{0, 1<<32 - 1, 1 << 32, 1<<63 - 1}), rapid.Uint64Range(0, 1<<62)).Draw(t, "decodeTime")}
	return op
}

func genCase(t *rapid.T) initCase {
	n := rapid.SampledFrom([]int{1, 1, 2, 2, 3, 4, 5, 6}).Draw(t, "nTracks")
	c := initCase{SeqNr: rapid.OneOf(rapid.Uint32Range(0, 10), rapid.Uint32()).Draw(t, "seqNr")}
	for i := 0; i < n; i++ {
		c.Ops = append(c.Ops, genOp(t))
	}
	c.SingleIdx = rapid.IntRange(0, n-1).Draw(t, "singleIdx")
	return c
}
