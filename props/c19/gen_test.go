// C19 generators: track lists (AddEmptyTrack arguments + the descriptors set on the track), the order in which the
// calls are made, and the fragment-building history. Parameter sets are value trees drawn by verif/internal/esgen
// (every optional syntax branch: VUI, HRD, scaling lists, cropping, sub-layers, extensions ...) and serialised by
// the bit writers of verif/internal/nalgen; what the oracle needs from a tree (cropped size, chroma format, bit
// depths, profile/tier/level bytes) is computed from the TREE when the case is drawn and stored in the case.
package c19

import (
	"fmt"

	"pgregory.net/rapid"

	"verif/internal/esgen"
	"verif/internal/harness"
	"verif/internal/nalgen"
)

func init() {
	// esgen's switches steer C15's VALUE oracles around parser defects; here the parser only has to find the picture
	// size and the record fields, so every shape is generated (as props/c16 does) and nothing is counted by esgen.
	esgen.DisableAvoidance()
	esgen.Quiet = true
}

// avoidKnown: one switch per CONFIRMED defect of the unchanged library (reproducers: /verif/replay/C19/kf-<name>.json,
// they carry "noAvoid": true). While a switch is on, the generator steers away from the triggering feature or the
// oracle skips exactly the one relation concerned; every such event is counted with harness.Rec.Exclude(name).
// VERIF_C19_NOAVOID=all|name,name switches them off for one run.
var avoidKnown = map[string]bool{
	// CreateEmptyTrak picks the media header box (and the audio tkhd volume) by comparing the mediaType STRING with
	// "video"/"audio"/"subtitle"..., although CreateHdlr accepts (and documents: "mediaOrHdlrType") the handler codes
	// "vide", "soun", "subt" and "clcp" as well: those tracks get hdlr vide/soun/subt with an nmhd box (ISO/IEC
	// 14496-12 8.4.5: vmhd for video, smhd for audio, sthd for subtitle tracks) and "soun" gets tkhd volume 0.
	// Generator: these four media types are replaced by their long names.
	"mediaheader-from-mediatype-string": false, // repaired in /repo (fix: 647e10f)
	// AddEmptyTrack(ts, "stpp", lang) (the call of examples/initcreator) writes handler_type 'stpp': CreateHdlr has no
	// case for it and falls into the "any four characters" default, CreateEmptyTrak gives the track an sthd box.
	// ISO/IEC 14496-30 5.2 / 14496-12 12.6: subtitle tracks (sthd, XMLSubtitleSampleEntry) use handler 'subt'.
	// Oracle: the handler relation is skipped for media type "stpp".
	"stpp-handler-type": false, // repaired in /repo (fix: 647e10f)
	// SetWvttDescriptor builds WvttBox{} (not NewWvttBox()): data_reference_index 0. ISO/IEC 14496-12 8.5.2.2:
	// the index ranges from 1 to the number of data references. Oracle: that relation is skipped for wvtt.
	"wvtt-data-reference-index-0": false, // repaired in /repo (fix: fb97adc)
	// SetAACDescriptor converts samplingFrequency with uint16(): 96000 -> 30464, 88200 -> 22664 in the sample entry.
	// Generator: those two table frequencies are replaced by 48000.
	"aac-samplerate-over-65535": true,
	// Dec3Box.NumIndSub is a public field that neither the encoder uses (it writes len(EC3Subs)-1) nor the decoder
	// sets: a dec3 with two independent substreams and NumIndSub=1 decodes to NumIndSub=0 (tree not equal).
	// Generator: NumIndSub is left 0.
	"dec3-numindsub-not-decoded": false, // repaired in /repo (fix: 095974d)
	// avc.DecodeAVCDecConfRec leaves ChromaFormat 0 (monochrome) for the profiles whose record has no chroma_format
	// field (66, 77, 88), CreateAVCDecConfRec (and H.264 7.4.2.1.1: chroma_format_idc inferred to be 1) says 1: the
	// decoded avcC differs from the built one. Oracle: that one field difference is skipped for those profiles.
	"avcc-chroma-not-inferred-on-decode": false, // repaired in /repo (fix: e907a20)
	// SetEC3Descriptor indexes AC3SampleRates[fscod] (3 entries): fscod=3 (E-AC-3: reduced sample rate signalled by
	// fscod2, ETSI TS 102 366 E.1.3.1.4/5; dec3 copies fscod) panics with index out of range although the function
	// returns an error. Generator: fscod 0..2.
	"ec3-fscod3-panic": false, // repaired in /repo (fix: f4918d5)
}

func avoidGen(name string, hit bool) bool {
	if hit && avoidKnown[name] {
		harness.Rec.Exclude(name)
		return true
	}
	return false
}

type dac3Fields struct {
	FSCod, BSID, BSMod, ACMod, LFEOn, BitRateCode byte
}

type ec3Sub struct {
	FSCod, BSID, ASVC, BSMod, ACMod, LFEOn, NumDepSub byte
	ChanLoc                                           uint16
}

type dec3Fields struct {
	DataRate  uint16   `json:"dataRate"`
	NumIndSub uint16   `json:"numIndSub"`
	Subs      []ec3Sub `json:"subs"`
}

type sampleSpec struct {
	Data       harness.HexBytes `json:"data"`
	Dur        uint32           `json:"dur"`
	Flags      uint32           `json:"flags"`
	Cto        int32            `json:"cto"`
	DecodeTime uint64           `json:"decodeTime"`
}

// descSpec is one Set*Descriptor call: the arguments, and for video what the generator's model says about them.
type descSpec struct {
	Codec string `json:"codec"` // avc | hevc | aac | ac3 | ec3 | wvtt | stpp | none
	// video
	SampleEntry string             `json:"sampleEntry,omitempty"` // avc1 | avc3 | hvc1 | hev1
	IncludePS   bool               `json:"includePS,omitempty"`
	VPS         []harness.HexBytes `json:"vps,omitempty"`
	SPS         []harness.HexBytes `json:"sps,omitempty"`
	PPS         []harness.HexBytes `json:"pps,omitempty"`
	SEI         []harness.HexBytes `json:"sei,omitempty"`
	// what the generator's model (value tree of SPS[0]) says: cropped luma size by the formulas of H.264 7.4.2.1.1
	// (7-13, 7-16, 7-18 .. 7-22 and the frame cropping rectangle) / H.265 7.4.3.2.1 (conformance window, Table 6-1)
	Width    uint32           `json:"width,omitempty"`
	Height   uint32           `json:"height,omitempty"`
	Chroma   byte             `json:"chroma,omitempty"`
	BdLuma   byte             `json:"bdLuma,omitempty"`   // bit_depth_luma_minus8
	BdChroma byte             `json:"bdChroma,omitempty"` // bit_depth_chroma_minus8
	PTL      harness.HexBytes `json:"ptl,omitempty"`      // HEVC: the 12 general profile/tier/level bytes (unescaped)
	// audio
	AACObjType byte        `json:"aacObjType,omitempty"`
	AACFreq    int         `json:"aacFreq,omitempty"`
	Dac3       *dac3Fields `json:"dac3,omitempty"`
	Dec3       *dec3Fields `json:"dec3,omitempty"`
	// text
	VttConfig  string `json:"vttConfig,omitempty"`
	StppNS     string `json:"stppNS,omitempty"`
	StppSchema string `json:"stppSchema,omitempty"`
	StppAux    string `json:"stppAux,omitempty"`
}

// trackOp is one AddEmptyTrack call and the descriptor(s) set on that track: the embedded one (its fields appear
// flattened in the JSON form, which is the layout of the cases recorded before "alt" and "order" existed) and an
// optional second one that a history may set on the same track after (or instead of) the first.
type trackOp struct {
	Timescale uint32 `json:"timescale"`
	MediaType string `json:"mediaType"`
	Lang      string `json:"lang"`
	descSpec
	Alt *descSpec `json:"alt,omitempty"`
	// the sample written for this track into the fragments of the fixed (pre-"frags") fragment history
	Sample sampleSpec `json:"sample"`
}

// step is one call of the init-building history.
type step struct {
	Op    string `json:"op"`            // "add": AddEmptyTrack for Ops[Track] (Track must be the number of tracks added so far) | "set": Set*Descriptor on track Track
	Track int    `json:"track"`         // index into Ops (track id - 1)
	Alt   bool   `json:"alt,omitempty"` // "set": the arguments are Ops[Track].Alt instead of the embedded descriptor
}

// fragSpec is one CreateFragment / CreateMultiTrackFragment call; its sequence number is SeqNr + index.
type fragSpec struct {
	Tracks []int `json:"tracks"`          // indices into Ops; distinct
	Multi  bool  `json:"multi,omitempty"` // CreateMultiTrackFragment (always when len(Tracks) != 1)
}

// fragStep is one call of the fragment-building history.
type fragStep struct {
	Op      string      `json:"op"`                // "seg": NewMediaSegment[WithoutStyp] | "frag": create Frags[Frag] | "attach": AddFragment(Frags[Frag]) to the latest segment | "sample"
	Frag    int         `json:"frag,omitempty"`    // index into Frags
	Track   int         `json:"track,omitempty"`   // "sample": index into Ops
	ToTrack bool        `json:"toTrack,omitempty"` // "sample": AddFullSampleToTrack (always for multi-track fragments), else AddFullSample
	Sample  *sampleSpec `json:"sample,omitempty"`
}

// fragPlan: the fragment part of the history. Loose: no media segments, the fragments are encoded one by one in
// creation order with Fragment.Encode (no "seg"/"attach" steps).
type fragPlan struct {
	Frags []fragSpec `json:"frags"`
	Steps []fragStep `json:"steps"`
	Loose bool       `json:"loose,omitempty"`
	Styp  bool       `json:"styp,omitempty"` // NewMediaSegment (styp box) instead of NewMediaSegmentWithoutStyp
}

type initCase struct {
	Ops       []trackOp `json:"ops"`
	SingleIdx int       `json:"singleIdx"` // track (index into Ops) of the CreateFragment fragment of the fixed fragment history
	SeqNr     uint32    `json:"seqNr"`
	NoAvoid   bool      `json:"noAvoid,omitempty"`
	// Order: the init-building history. Absent: add 0, set 0, add 1, set 1, ... (the only shape of the older cases).
	Order []step `json:"order,omitempty"`
	// Frags: the fragment-building history. Absent: the fixed one (one CreateFragment fragment for SingleIdx, one
	// CreateMultiTrackFragment fragment for all tracks, one sample each, encoded without media segment).
	Frags *fragPlan `json:"frags,omitempty"`
}

// history returns the init-building steps of the case.
func (c *initCase) history() []step {
	if len(c.Order) > 0 {
		return c.Order
	}
	var out []step
	for i := range c.Ops {
		out = append(out, step{Op: "add", Track: i}, step{Op: "set", Track: i})
	}
	return out
}

// ---------------------------------------------------------------------------------------------
// small draw helpers

func pct(t *rapid.T, p int, label string) bool { return rapid.IntRange(0, 99).Draw(t, label) < p }

// fair: true with probability p/100 (rapid's integer ranges favour small values, so pct(t, 25, ..) holds in more than
// half of the draws; the history generators want the stated odds).
func fair(t *rapid.T, p int, label string) bool { return esgen.HEVCPct(t, p, label) }

var u32Gen = rapid.OneOf(rapid.SampledFrom([]uint32{1, 2, 1000, 44100, 48000, 90000, 10000000, 0x7fffffff, 0x80000000, 0xffffffff}),
	rapid.Uint32Range(1, 0xffffffff), rapid.Uint32Range(1, 200000))

// ---------------------------------------------------------------------------------------------
// language tags

var langs3 = []string{"und", "eng", "swe", "fra", "deu", "zho", "aaa", "zzz", "mul", "qaa"}
var langs2 = []string{"en", "sv", "zh", "de", "pt"}
var langsBCP = []string{"en-US", "zh-Hant-TW", "sr-Latn-RS", "de-CH-1996", "es-419", "x-klingon", "eng-US", "pt-BR", "i-navajo", "en-GB-oxendict", "zh-Hans"}

func genLang(t *rapid.T) string {
	letter := rapid.IntRange('a', 'z')
	switch rapid.IntRange(0, 7).Draw(t, "langShape") {
	case 0, 1:
		return rapid.SampledFrom(langs3).Draw(t, "lang3")
	case 2:
		return string([]byte{byte(letter.Draw(t, "l0")), byte(letter.Draw(t, "l1")), byte(letter.Draw(t, "l2"))})
	case 3:
		return rapid.SampledFrom(langs2).Draw(t, "lang2")
	case 4:
		return string([]byte{byte(letter.Draw(t, "l0")), byte(letter.Draw(t, "l1"))})
	case 5:
		up := rapid.IntRange('A', 'Z')
		n := rapid.IntRange(2, 3).Draw(t, "primaryLen")
		b := []byte{}
		for i := 0; i < n; i++ {
			b = append(b, byte(letter.Draw(t, "l")))
		}
		return string(b) + "-" + string([]byte{byte(up.Draw(t, "r0")), byte(up.Draw(t, "r1"))})
	default:
		return rapid.SampledFrom(langsBCP).Draw(t, "langBCP")
	}
}

func langShape(l string) string {
	isLetters := true
	for _, c := range l {
		if c < 'a' || c > 'z' {
			isLetters = false
		}
	}
	switch {
	case len(l) == 3 && isLetters:
		return "lang-3-letter"
	case len(l) == 2:
		return "lang-2-letter"
	case len(l) == 3:
		return "lang-3-bytes-not-letters"
	default:
		return "lang-bcp47-long"
	}
}

// ---------------------------------------------------------------------------------------------
// AVC parameter sets (esgen value trees)

func genAVCDesc(t *rapid.T, d *descSpec) []string {
	d.Codec = "avc"
	d.SampleEntry = rapid.SampledFrom([]string{"avc1", "avc3"}).Draw(t, "avcEntry")
	d.IncludePS = d.SampleEntry == "avc1" || pct(t, 60, "includePS") // avc1 without parameter sets is rejected by contract
	// 1..3 SPS with distinct ids (the first one from the full generator: all profiles of 7.3.2.1.1, scaling lists,
	// the three POC types, field coding, cropping up to one luma sample left, VUI with HRD), 0..3 PPS referring to them
	spsT, ppsT := esgen.GenAVCConfSets(t)
	for i := range spsT {
		n, _ := nalgen.SerializeAVCSPS(&spsT[i])
		d.SPS = append(d.SPS, n)
	}
	for i := range ppsT {
		chroma := byte(1)
		for j := range spsT {
			if spsT[j].S.ParameterID == ppsT[i].P.SeqParameterSetID {
				chroma = esgen.AVCChromaFormatIDC(&spsT[j].S)
			}
		}
		n, _ := nalgen.SerializeAVCPPS(&ppsT[i], chroma)
		d.PPS = append(d.PPS, n)
	}
	s := &spsT[0]
	w, h := nalgen.AVCDisplaySize(s)
	d.Width, d.Height = uint32(w), uint32(h)
	d.Chroma, d.BdLuma, d.BdChroma = esgen.AVCChromaFormatIDC(&s.S), byte(s.S.BitDepthLumaMinus8), byte(s.S.BitDepthChromaMinus8)
	cl := esgen.AVCSPSClasses(s)
	uncropW, uncropH := (s.PicWidthInMbsMinus1+1)*16, (s.PicHeightInMapUnitsMinus1+1)*16
	if !s.S.FrameMbsOnlyFlag {
		uncropH *= 2
	}
	if w != uncropW || h != uncropH {
		cl = append(cl, "avc-size-differs-from-coded-size")
		if uncropW-w >= 16 || uncropH-h >= 16 {
			cl = append(cl, "avc-crop-one-macroblock-or-more")
		}
	}
	return cl
}

// ---------------------------------------------------------------------------------------------
// HEVC parameter sets (esgen value trees)

func genHEVCDesc(t *rapid.T, d *descSpec) []string {
	d.Codec = "hevc"
	d.SampleEntry = rapid.SampledFrom([]string{"hvc1", "hev1"}).Draw(t, "hevcEntry")
	d.IncludePS = d.SampleEntry == "hvc1" || pct(t, 60, "includePS") // hvc1 without parameter sets is rejected by contract
	nSPS := rapid.SampledFrom([]int{1, 1, 1, 2}).Draw(t, "nSPS")
	nPPS := rapid.SampledFrom([]int{1, 1, 2, 3}).Draw(t, "nPPS")
	sids, pids := esgen.HEVCDistinct(t, nSPS, 15, "spsID"), esgen.HEVCDistinct(t, nPPS, 63, "ppsID")
	var trees []*nalgen.HEVCSPSTree
	for i := 0; i < nSPS; i++ {
		// MaxDim: sqrt(8 * MaxLumaPs) of level 6.2 (A.4.1)
		o := esgen.HEVCSPSOpts{ID: sids[i], Lean: i > 0, Log2Poc: -1, SAO: -1, MaxDim: 16888}
		var tr *nalgen.HEVCSPSTree
		for try := 0; ; try++ {
			tr = esgen.HEVCGenSPS(t, o, fmt.Sprintf("s%d.%d-", i, try))
			// the 3-bit bitDepthLumaMinus8 / bitDepthChromaMinus8 fields of the hvcC record (ISO/IEC 14496-15 8.3.3.1.2)
			// cannot hold 8 (16 bit): outside the domain of the record for the SPS that determines its fields
			if i > 0 || (tr.SPS.BitDepthLumaMinus8 <= 7 && tr.SPS.BitDepthChromaMinus8 <= 7) {
				break
			}
			harness.Rec.Exclude("hevc-16-bit-depth-not-representable-in-hvcC")
		}
		trees = append(trees, tr)
		n, _ := nalgen.HEVCWriteSPS(tr)
		d.SPS = append(d.SPS, n)
	}
	for i := 0; i < nPPS; i++ {
		tr := esgen.HEVCGenPPS(t, trees[rapid.IntRange(0, nSPS-1).Draw(t, "ppsRef")], pids[i], fmt.Sprintf("p%d-", i))
		n, _ := nalgen.HEVCWritePPS(tr)
		d.PPS = append(d.PPS, n)
	}
	s := &trees[0].SPS
	nVPS := rapid.SampledFrom([]int{1, 1, 1, 2, 0}).Draw(t, "nVPS")
	for i := 0; i < nVPS; i++ {
		v := esgen.HEVCGenVPS(t, s, fmt.Sprintf("v%d-", i))
		v.VpsID = (s.VpsID + byte(i)) & 15
		d.VPS = append(d.VPS, nalgen.HEVCWriteVPS(v))
	}
	if d.IncludePS && pct(t, 30, "sei") { // prefix SEI NAL units are carried opaquely in a fourth array
		n := rapid.IntRange(1, 2).Draw(t, "nSEI")
		for i := 0; i < n; i++ {
			pl := rapid.SliceOfN(rapid.ByteRange(1, 255), 17, 24).Draw(t, "seiPayload")
			nal := append(nalgen.HEVCNalHeader(39, 0, 1), 5, byte(len(pl)))
			d.SEI = append(d.SEI, append(append(nal, pl...), 0x80))
		}
	}
	// 7.4.3.2.1: the conformance window offsets are in units of SubWidthC / SubHeightC (Table 6-1)
	sw, sh := esgen.HEVCSubWH(s.ChromaFormatIDC, s.SeparateColourPlaneFlag)
	d.Width, d.Height = s.PicWidthInLumaSamples, s.PicHeightInLumaSamples
	if s.ConformanceWindowFlag {
		d.Width -= sw * (s.ConformanceWindow.LeftOffset + s.ConformanceWindow.RightOffset)
		d.Height -= sh * (s.ConformanceWindow.TopOffset + s.ConformanceWindow.BottomOffset)
	}
	d.Chroma, d.BdLuma, d.BdChroma = s.ChromaFormatIDC, s.BitDepthLumaMinus8, s.BitDepthChromaMinus8
	p := &s.ProfileTierLevel
	w := nalgen.NewBitWriter()
	w.U(uint64(p.GeneralProfileSpace), 2)
	w.Flag(p.GeneralTierFlag)
	w.U(uint64(p.GeneralProfileIDC), 5)
	w.U(uint64(p.GeneralProfileCompatibilityFlags), 32)
	w.U(p.GeneralConstraintIndicatorFlags, 48)
	w.U(uint64(p.GeneralLevelIDC), 8)
	d.PTL = w.Out()
	cl := esgen.HEVCSPSClasses(trees[0])
	if d.Width != s.PicWidthInLumaSamples || d.Height != s.PicHeightInLumaSamples {
		cl = append(cl, "hevc-size-differs-from-coded-size")
	}
	return cl
}

// ---------------------------------------------------------------------------------------------
// audio, text

var aacFreqs = []int{96000, 88200, 64000, 48000, 44100, 32000, 24000, 22050, 16000, 12000, 11025, 8000, 7350}

func genAudioDesc(t *rapid.T, op *descSpec) {
	switch rapid.IntRange(0, 3).Draw(t, "audioCodec") {
	case 0, 1:
		op.Codec = "aac"
		op.AACObjType = rapid.SampledFrom([]byte{2, 5, 29}).Draw(t, "aacObjType")
		op.AACFreq = rapid.SampledFrom(aacFreqs).Draw(t, "aacFreq")
		if avoidGen("aac-samplerate-over-65535", op.AACFreq > 65535) {
			op.AACFreq = 48000
		}
	case 2:
		op.Codec = "ac3"
		op.Dac3 = &dac3Fields{FSCod: byte(rapid.IntRange(0, 2).Draw(t, "fscod")), BSID: byte(rapid.IntRange(0, 31).Draw(t, "bsid")),
			BSMod: byte(rapid.IntRange(0, 7).Draw(t, "bsmod")), ACMod: byte(rapid.IntRange(0, 7).Draw(t, "acmod")),
			LFEOn: byte(rapid.IntRange(0, 1).Draw(t, "lfeon")), BitRateCode: byte(rapid.IntRange(0, 18).Draw(t, "bitRateCode"))}
	default:
		op.Codec = "ec3"
		d := &dec3Fields{DataRate: uint16(rapid.IntRange(0, 8191).Draw(t, "dataRate"))}
		n := rapid.SampledFrom([]int{1, 1, 1, 2, 3, 8}).Draw(t, "nSubs")
		for i := 0; i < n; i++ {
			s := ec3Sub{FSCod: byte(rapid.IntRange(0, 3).Draw(t, "fscod")), BSID: byte(rapid.IntRange(0, 31).Draw(t, "bsid")),
				ASVC: byte(rapid.IntRange(0, 1).Draw(t, "asvc")), BSMod: byte(rapid.IntRange(0, 7).Draw(t, "bsmod")),
				ACMod: byte(rapid.IntRange(0, 7).Draw(t, "acmod")), LFEOn: byte(rapid.IntRange(0, 1).Draw(t, "lfeon"))}
			if i == 0 && avoidGen("ec3-fscod3-panic", s.FSCod == 3) {
				s.FSCod = 0
			}
			if pct(t, 40, "depSubs") {
				s.NumDepSub = byte(rapid.IntRange(1, 15).Draw(t, "numDepSub"))
				s.ChanLoc = uint16(rapid.IntRange(0, 511).Draw(t, "chanLoc"))
			}
			d.Subs = append(d.Subs, s)
		}
		d.NumIndSub = uint16(n - 1) // num_ind_sub of ETSI TS 102 366 F.6: number of independent substreams minus 1
		if avoidGen("dec3-numindsub-not-decoded", d.NumIndSub != 0) {
			d.NumIndSub = 0
		}
		op.Dec3 = d
	}
}

var strChar = rapid.SampledFrom([]rune("abcxyzABZ019 :/._-#é€"))

func genText(t *rapid.T, label string, max int) string {
	return string(rapid.SliceOfN(strChar, 0, max).Draw(t, label))
}

func genWvttDesc(t *rapid.T, op *descSpec) {
	op.Codec = "wvtt"
	switch rapid.IntRange(0, 3).Draw(t, "vttShape") {
	case 0:
		op.VttConfig = "" // documented: replaced by "WEBVTT"
	case 1:
		op.VttConfig = "WEBVTT"
	default:
		op.VttConfig = "WEBVTT" + rapid.SampledFrom([]string{"\n", " - ", "\n\nNOTE "}).Draw(t, "vttSep") + genText(t, "vttTail", 30)
	}
}

func genStppDesc(t *rapid.T, op *descSpec) {
	op.Codec = "stpp"
	op.StppNS = rapid.SampledFrom([]string{"", "http://www.w3.org/ns/ttml", "http://www.w3.org/ns/ttml http://www.w3.org/ns/ttml#metadata", "urn:x", "ns:" + genText(t, "nsTail", 12)}).Draw(t, "stppNS")
	if pct(t, 50, "schema?") {
		op.StppSchema = rapid.SampledFrom([]string{"http://www.w3.org/ns/ttml/profile/imsc1/text", "a b", genText(t, "schemaTail", 12)}).Draw(t, "stppSchema")
	}
	if pct(t, 50, "aux?") {
		op.StppAux = rapid.SampledFrom([]string{"image/png", "image/png application/x-font-ttf", genText(t, "auxTail", 12)}).Draw(t, "stppAux")
	}
}

// ---------------------------------------------------------------------------------------------
// the track list

// genDesc draws the arguments of a Set*Descriptor call that matches the media type.
func genDesc(t *rapid.T, mt string, d *descSpec) []string {
	switch mt {
	case "video", "vide":
		if rapid.Bool().Draw(t, "hevc?") {
			return genHEVCDesc(t, d)
		}
		return genAVCDesc(t, d)
	case "audio", "soun":
		genAudioDesc(t, d)
	case "subtitle", "subt", "stpp":
		genStppDesc(t, d)
	case "text", "wvtt":
		genWvttDesc(t, d)
	default:
		d.Codec = "none" // no Set*Descriptor exists for timed metadata / closed caption tracks: the stsd stays empty
	}
	return nil
}

func genSample(t *rapid.T) sampleSpec {
	return sampleSpec{Data: rapid.SliceOfN(rapid.Byte(), 1, 12).Draw(t, "sampleData"), Dur: rapid.OneOf(rapid.Uint32Range(0, 5000), rapid.Uint32()).Draw(t, "dur"),
		Flags:      rapid.OneOf(rapid.SampledFrom([]uint32{0, 0x02000000, 0x01010000}), rapid.Uint32()).Draw(t, "flags"),
		Cto:        rapid.OneOf(rapid.Int32Range(-5000, 5000), rapid.Int32()).Draw(t, "cto"),
		DecodeTime: rapid.OneOf(rapid.Uint64Range(0, 1<<20), rapid.SampledFrom([]uint64{0, 1<<32 - 1, 1 << 32, 1<<63 - 1}), rapid.Uint64Range(0, 1<<62)).Draw(t, "decodeTime")}
}

func genOp(t *rapid.T, wantAlt bool) (trackOp, []string) {
	op := trackOp{Timescale: u32Gen.Draw(t, "timescale"), Lang: genLang(t)}
	mt := rapid.SampledFrom([]string{"video", "video", "video", "audio", "audio", "audio", "vide", "soun", "subtitle", "subt", "stpp", "stpp",
		"text", "wvtt", "wvtt", "meta", "clcp"}).Draw(t, "mediaType")
	if avoidGen("mediaheader-from-mediatype-string", mt == "vide" || mt == "soun" || mt == "subt" || mt == "clcp") {
		mt = map[string]string{"vide": "video", "soun": "audio", "subt": "subtitle", "clcp": "meta"}[mt]
	}
	op.MediaType = mt
	cl := genDesc(t, mt, &op.descSpec)
	if wantAlt && op.Codec != "none" {
		op.Alt = &descSpec{}
		cl = append(cl, genDesc(t, mt, op.Alt)...)
	}
	op.Sample = genSample(t)
	return op, cl
}

// genOrder draws the init-building history: the tracks are added in the order of c.Ops (the i-th AddEmptyTrack call
// makes track id i+1), every Set*Descriptor call happens somewhere after the AddEmptyTrack call of its track,
// interleaved with later AddEmptyTrack calls and the Set calls of other tracks. A track with a second descriptor
// gets two Set calls (first/second, or the first one twice); now and then a track is never described.
func genOrder(t *rapid.T, c *initCase) {
	n := len(c.Ops)
	pending := make([][]step, n) // Set calls of the track still to be made, in order
	for k := range c.Ops {
		if c.Ops[k].Codec == "none" {
			continue
		}
		switch {
		case c.Ops[k].Alt != nil:
			switch rapid.IntRange(0, 3).Draw(t, "twiceShape") {
			case 0:
				pending[k] = []step{{Op: "set", Track: k, Alt: true}, {Op: "set", Track: k}}
			case 1:
				pending[k] = []step{{Op: "set", Track: k, Alt: true}} // only the second descriptor is used
			default:
				pending[k] = []step{{Op: "set", Track: k}, {Op: "set", Track: k, Alt: true}}
			}
		case fair(t, 8, "sameTwice"):
			pending[k] = []step{{Op: "set", Track: k}, {Op: "set", Track: k}}
		case fair(t, 6, "neverDescribed"):
		default:
			pending[k] = []step{{Op: "set", Track: k}}
		}
	}
	added := 0
	for {
		var ready []int // tracks added with Set calls pending
		for k := 0; k < added; k++ {
			if len(pending[k]) > 0 {
				ready = append(ready, k)
			}
		}
		if added == n && len(ready) == 0 {
			return
		}
		// choice 0: add the next track (if any); choice i>0: the next Set call of ready[i-1]
		lo, hi := 0, len(ready)
		if added == n {
			lo = 1
		}
		ch := lo
		if hi > lo {
			ch = lo + esgen.HEVCUni(t, hi-lo+1, "next")
		}
		if ch == 0 {
			c.Order = append(c.Order, step{Op: "add", Track: added})
			added++
			continue
		}
		k := ready[ch-1]
		c.Order = append(c.Order, pending[k][0])
		pending[k] = pending[k][1:]
	}
}

// genFrags draws the fragment-building history: 1..4 fragments (single track through CreateFragment, or multi
// track), grouped into media segments in a drawn attach order (or encoded loose), and 1..10 samples added to them
// in a drawn order that interleaves fragments and tracks; creation, attaching and adding are interleaved as well.
func genFrags(t *rapid.T, c *initCase) {
	n := len(c.Ops)
	p := &fragPlan{Loose: fair(t, 25, "loose"), Styp: rapid.Bool().Draw(t, "styp")}
	nFrags := rapid.SampledFrom([]int{1, 2, 2, 3, 4}).Draw(t, "nFrags")
	all := make([]int, n)
	for i := range all {
		all[i] = i
	}
	for i := 0; i < nFrags; i++ {
		var f fragSpec
		if n == 1 || fair(t, 45, "singleTrack") {
			f.Tracks = []int{rapid.IntRange(0, n-1).Draw(t, "fragTrack")}
			f.Multi = fair(t, 25, "multiAPIForOne")
		} else {
			perm := rapid.Permutation(all).Draw(t, "fragTracks")
			f.Tracks = append([]int{}, perm[:rapid.IntRange(2, n).Draw(t, "nFragTracks")]...)
			f.Multi = true
		}
		p.Frags = append(p.Frags, f)
	}
	// samples: every fragment gets at least one; decode times of a track continue inside a fragment (the time of the
	// first sample of a track in a fragment is free)
	nAdds := rapid.IntRange(nFrags, 10).Draw(t, "nAdds")
	type key struct{ f, k int }
	next := map[key]uint64{}
	var adds []fragStep
	for i := 0; i < nAdds; i++ {
		fi := i
		if i >= nFrags {
			fi = esgen.HEVCUni(t, nFrags, "addFrag")
		}
		f := &p.Frags[fi]
		k := f.Tracks[esgen.HEVCUni(t, len(f.Tracks), "addTrack")]
		s := genSample(t)
		if s.Dur > 1<<24 && fair(t, 80, "durSmall") {
			s.Dur >>= 12
		}
		if dt, ok := next[key{fi, k}]; ok {
			s.DecodeTime = dt
		}
		next[key{fi, k}] = s.DecodeTime + uint64(s.Dur)
		adds = append(adds, fragStep{Op: "sample", Frag: fi, Track: k, ToTrack: f.Multi || fair(t, 30, "toTrack"), Sample: &s})
	}
	if fair(t, 60, "shuffleAdds") {
		// any order of the calls, except that the samples of one (fragment, track) pair keep their relative order
		perm := rapid.Permutation(adds).Draw(t, "addOrder")
		idx := map[key][]int{}
		for i, a := range perm {
			idx[key{a.Frag, a.Track}] = append(idx[key{a.Frag, a.Track}], i)
		}
		out := make([]fragStep, len(perm))
		used := map[key]int{}
		for _, a := range adds {
			kk := key{a.Frag, a.Track}
			out[idx[kk][used[kk]]] = a
			used[kk]++
		}
		adds = out
	}
	// weave creation / segment / attach steps in: a fragment is created before its first sample and before it is
	// attached; a segment exists before the first attach; every fragment is attached exactly once
	created := make([]bool, nFrags)
	attached := make([]bool, nFrags)
	segOpen := false
	attach := func(fi int) {
		if p.Loose || attached[fi] {
			return
		}
		if !segOpen || fair(t, 35, "newSeg") {
			p.Steps = append(p.Steps, fragStep{Op: "seg"})
			segOpen = true
		}
		p.Steps = append(p.Steps, fragStep{Op: "attach", Frag: fi})
		attached[fi] = true
	}
	create := func(fi int) {
		if created[fi] {
			return
		}
		if fair(t, 30, "createEarlier") { // create (and maybe attach) another fragment first
			for o := 0; o < nFrags; o++ {
				if !created[o] && o != fi {
					created[o] = true
					p.Steps = append(p.Steps, fragStep{Op: "frag", Frag: o})
					if fair(t, 50, "attachEarly") {
						attach(o)
					}
					break
				}
			}
		}
		created[fi] = true
		p.Steps = append(p.Steps, fragStep{Op: "frag", Frag: fi})
		if fair(t, 50, "attachEarly") {
			attach(fi)
		}
	}
	for _, a := range adds {
		create(a.Frag)
		p.Steps = append(p.Steps, a)
		if fair(t, 20, "attachMid") {
			attach(a.Frag)
		}
	}
	order := make([]int, nFrags)
	for i := range order {
		order[i] = i
	}
	if fair(t, 40, "attachOrder") {
		order = rapid.Permutation(order).Draw(t, "attachPerm")
	}
	for _, fi := range order {
		attach(fi)
	}
	c.Frags = p
}

func genCase(t *rapid.T) (initCase, []string) {
	n := rapid.SampledFrom([]int{1, 1, 2, 2, 3, 4, 5, 6}).Draw(t, "nTracks")
	c := initCase{SeqNr: rapid.OneOf(rapid.Uint32Range(0, 10), rapid.Uint32()).Draw(t, "seqNr")}
	canonical := fair(t, 25, "canonicalOrder") // the old history shape: add, set, add, set ...
	var cl []string
	for i := 0; i < n; i++ {
		op, l := genOp(t, !canonical && fair(t, 25, "secondDescriptor"))
		c.Ops = append(c.Ops, op)
		cl = append(cl, l...)
	}
	c.SingleIdx = rapid.IntRange(0, n-1).Draw(t, "singleIdx")
	if !canonical {
		genOrder(t, &c)
	}
	if fair(t, 85, "fragPlan") {
		genFrags(t, &c)
	}
	return c, cl
}
