// C19: minimal reproducers of the known findings (regenerate with
// VERIF_C19_WRITE_KF=1 go test -tags verif ./props/c19 -run TestWriteKnownFindingRepros).
package c19

import (
	"encoding/json"
	"os"
	"strings"
	"testing"

	"verif/internal/harness"
	"verif/internal/nalgen"
)

func knownFindingCases() map[string]initCase {
	smp := sampleSpec{Data: []byte{0xa1}, Dur: 1}
	one := func(op trackOp) initCase {
		op.Sample = smp
		return initCase{Ops: []trackOp{op}, SeqNr: 1, NoAvoid: true}
	}
	// Baseline 16x16 SPS + PPS
	var st nalgen.AVCSPSTree
	st.NalRefIdc, st.S.Profile, st.S.Level, st.S.ChromaFormatIDC, st.S.FrameMbsOnlyFlag, st.S.PicOrderCntType = 3, 66, 30, 1, true, 2
	sps, _ := nalgen.SerializeAVCSPS(&st)
	var pt nalgen.AVCPPSTree
	pt.NalRefIdc = 3
	pps, _ := nalgen.SerializeAVCPPS(&pt, 1)
	return map[string]initCase{
		"mediaheader-from-mediatype-string": one(trackOp{Timescale: 48000, MediaType: "soun", Lang: "und", descSpec: descSpec{Codec: "aac", AACObjType: 2, AACFreq: 48000}}),
		"stpp-handler-type":                 one(trackOp{Timescale: 1000, MediaType: "stpp", Lang: "und", descSpec: descSpec{Codec: "stpp", StppNS: "http://www.w3.org/ns/ttml"}}),
		"wvtt-data-reference-index-0":       one(trackOp{Timescale: 1000, MediaType: "wvtt", Lang: "und", descSpec: descSpec{Codec: "wvtt", VttConfig: "WEBVTT"}}),
		"aac-samplerate-over-65535":         one(trackOp{Timescale: 96000, MediaType: "audio", Lang: "und", descSpec: descSpec{Codec: "aac", AACObjType: 2, AACFreq: 96000}}),
		"dec3-numindsub-not-decoded": one(trackOp{Timescale: 48000, MediaType: "audio", Lang: "und", descSpec: descSpec{Codec: "ec3",
			Dec3: &dec3Fields{DataRate: 448, NumIndSub: 1, Subs: []ec3Sub{{BSID: 16, ACMod: 2}, {BSID: 16, ACMod: 2}}}}}),
		"ec3-fscod3-panic": one(trackOp{Timescale: 24000, MediaType: "audio", Lang: "und", descSpec: descSpec{Codec: "ec3",
			Dec3: &dec3Fields{DataRate: 96, Subs: []ec3Sub{{FSCod: 3, BSID: 16, ACMod: 2}}}}}),
		"avcc-chroma-not-inferred-on-decode": one(trackOp{Timescale: 90000, MediaType: "video", Lang: "und", descSpec: descSpec{Codec: "avc", SampleEntry: "avc1", IncludePS: true,
			SPS: []harness.HexBytes{sps}, PPS: []harness.HexBytes{pps}, Width: 16, Height: 16, Chroma: 1}}),
	}
}

func TestWriteKnownFindingRepros(t *testing.T) {
	if os.Getenv("VERIF_C19_WRITE_KF") == "" {
		t.Skip("VERIF_C19_WRITE_KF not set")
	}
	dir := harness.E.VerifDir + "/replay/C19"
	if err := os.MkdirAll(dir, 0o755); err != nil {
		t.Fatal(err)
	}
	cases := knownFindingCases()
	for name := range avoidKnown {
		if _, ok := cases[name]; !ok {
			t.Errorf("switch %s has no reproducer", name)
		}
	}
	for name, c := range cases {
		c := c
		f := harness.Guarded(func() *harness.Fail { return checkInit(c) })
		if f == nil {
			t.Errorf("%s: the case does not fail (defect repaired?)", name)
			continue
		}
		c2 := c
		c2.NoAvoid = false
		if f2 := harness.Guarded(func() *harness.Fail { return checkInit(c2) }); f2 != nil && avoidKnown[name] && f2.Key == f.Key && !strings.HasPrefix(f.Key, "panic|") {
			// generator-steered switches fail with or without noAvoid; oracle-skipped ones must be silent without it
			switch name {
			case "stpp-handler-type", "wvtt-data-reference-index-0", "dec3-numindsub-not-decoded", "avcc-chroma-not-inferred-on-decode":
				t.Errorf("%s: the oracle skip does not silence the case: %v", name, f2)
			}
		}
		raw, _ := json.Marshal(c)
		msg := f.Msg
		if i := strings.Index(msg, "\n"); i > 0 {
			msg = msg[:i]
		}
		b, _ := json.MarshalIndent(harness.ReplayFile{Property: "C19", Kind: "inithistory", Key: f.Key, Msg: msg, Case: raw}, "", " ")
		if err := os.WriteFile(dir+"/kf-"+name+".json", append(b, '\n'), 0o644); err != nil {
			t.Fatal(err)
		}
		t.Logf("%s: %s: %s", name, f.Key, msg)
	}
}
