// C19 — init segments built through the API are consistent and self-describing.
//
// A case is a list of track operations (AddEmptyTrack + the matching Set*Descriptor) drawn first and then
// interpreted by the oracle: after every step the tree is checked (track ids 1..n, one trex per track, next
// track id, handler / media header / language rule, sample entry against what was supplied), encoded, compared
// with Size() box by box, decoded (tree deep-equal, bytes of the re-encoding equal, recognised as fragmented
// init) and cross-checked with the harness' own reader (fragbuild.Read + a raw stsd parser). At the end a
// single-track and a multi-track fragment carrying one sample per track are appended and read back.
package c19

import (
	"bytes"
	"encoding/json"
	"fmt"
	"os"
	"reflect"
	"sort"
	"strings"
	"testing"

	"github.com/Eyevinn/mp4ff/mp4"
	"pgregory.net/rapid"

	"verif/internal/boxwalk"
	"verif/internal/fragbuild"
	"verif/internal/harness"
)

func TestMain(m *testing.M) { harness.Main(m) }

func init() {
	harness.RegisterReplay("inithistory", harness.Replayer(checkInit))
	if v := os.Getenv("VERIF_C19_NOAVOID"); v == "all" {
		avoidKnown = map[string]bool{}
	} else if v != "" {
		for _, name := range strings.Split(v, ",") {
			if _, ok := avoidKnown[name]; !ok {
				fmt.Fprintf(os.Stderr, "VERIF_C19_NOAVOID: unknown switch %q\n", name)
				os.Exit(2)
			}
			delete(avoidKnown, name)
		}
	}
}

func TestReplay(t *testing.T) { harness.ReplayPath(t) }

type stats struct{ skipped map[string]int64 }

// avoid reports whether the oracle relation guarded by the named known-defect switch is to be skipped.
func (c *initCase) avoid(st *stats, name string) bool {
	if c.NoAvoid || !avoidKnown[name] {
		return false
	}
	if st.skipped == nil {
		st.skipped = map[string]int64{}
	}
	st.skipped[name]++
	return true
}

func checkInit(c initCase) *harness.Fail { return evalInit(&c, &stats{}) }

// expected handler type and media header box per media type: ISO/IEC 14496-12 8.4.3 / 8.4.5 / 12.x
// (vide+vmhd, soun+smhd, subt+sthd, text+nmhd, meta+nmhd) and ISO/IEC 14496-30 (TTML 'stpp' tracks: subt+sthd,
// WebVTT 'wvtt' tracks: text+nmhd). "clcp": see headerFor.
var handlerFor = map[string]string{"video": "vide", "vide": "vide", "audio": "soun", "soun": "soun", "subtitle": "subt", "subt": "subt",
	"stpp": "subt", "text": "text", "wvtt": "text", "meta": "meta", "clcp": "clcp"}

func headerFor(handler string) string {
	switch handler {
	case "vide":
		return "vmhd"
	case "soun":
		return "smhd"
	case "subt":
		return "sthd"
	}
	return "nmhd"
}

func hexes(h []harness.HexBytes) [][]byte {
	var out [][]byte
	for _, b := range h {
		out = append(out, []byte(b))
	}
	return out
}

// ---------------------------------------------------------------------------------------------
// the interpreter

func evalInit(c *initCase, st *stats) *harness.Fail {
	n := len(c.Ops)
	if n == 0 || c.SingleIdx < 0 || c.SingleIdx >= n {
		return harness.Failf("harness|c19|bad-case", "%d ops, singleIdx %d", n, c.SingleIdx)
	}
	for i := range c.Ops {
		op := &c.Ops[i]
		if _, ok := handlerFor[op.MediaType]; !ok || len(op.Lang) < 2 || op.Timescale == 0 || len(op.Sample.Data) == 0 {
			return harness.Failf("harness|c19|bad-case", "op %d outside the domain", i)
		}
		if (op.Codec == "avc" || op.Codec == "hevc") && (len(op.SPS) == 0 || (!op.IncludePS && (op.SampleEntry == "avc1" || op.SampleEntry == "hvc1"))) {
			return harness.Failf("harness|c19|bad-case", "op %d: video op violates the documented precondition", i)
		}
	}
	init := mp4.CreateEmptyInit()
	if init.Moov == nil || init.Moov.Mvhd == nil || init.Moov.Mvex == nil || init.Ftyp == nil {
		return harness.Failf("C19|CreateEmptyInit|ftyp/moov/mvhd/mvex missing", "%+v", init)
	}
	for i := range c.Ops {
		op := &c.Ops[i]
		init.AddEmptyTrack(op.Timescale, op.MediaType, op.Lang)
		if f := checkState(c, st, init, i+1, i, false); f != nil {
			return f
		}
		if len(init.Moov.Traks) != i+1 {
			return harness.Failf("C19|moov|number of traks differs from number of AddEmptyTrack calls", "%d after %d calls", len(init.Moov.Traks), i+1)
		}
		if err := setDescriptor(init.Moov.Traks[i], op); err != nil {
			return harness.Failf("C19|Set"+op.Codec+"Descriptor|error on valid input", "track %d: %v", i+1, err)
		}
		if f := checkState(c, st, init, i+1, i+1, i == n-1); f != nil {
			return f
		}
	}
	return checkFragments(c, init)
}

func setDescriptor(trak *mp4.TrakBox, op *trackOp) error {
	switch op.Codec {
	case "avc":
		return trak.SetAVCDescriptor(op.SampleEntry, hexes(op.SPS), hexes(op.PPS), op.IncludePS)
	case "hevc":
		return trak.SetHEVCDescriptor(op.SampleEntry, hexes(op.VPS), hexes(op.SPS), hexes(op.PPS), hexes(op.SEI), op.IncludePS)
	case "aac":
		return trak.SetAACDescriptor(op.AACObjType, op.AACFreq)
	case "ac3":
		d := op.Dac3
		return trak.SetAC3Descriptor(&mp4.Dac3Box{FSCod: d.FSCod, BSID: d.BSID, BSMod: d.BSMod, ACMod: d.ACMod, LFEOn: d.LFEOn, BitRateCode: d.BitRateCode})
	case "ec3":
		return trak.SetEC3Descriptor(libDec3(op.Dec3))
	case "wvtt":
		return trak.SetWvttDescriptor(op.VttConfig)
	case "stpp":
		return trak.SetStppDescriptor(op.StppNS, op.StppSchema, op.StppAux)
	}
	return nil
}

func libDec3(d *dec3Fields) *mp4.Dec3Box {
	b := &mp4.Dec3Box{DataRate: d.DataRate, NumIndSub: d.NumIndSub}
	for _, s := range d.Subs {
		b.EC3Subs = append(b.EC3Subs, mp4.EC3Sub{FSCod: s.FSCod, BSID: s.BSID, ASVC: s.ASVC, BSMod: s.BSMod, ACMod: s.ACMod, LFEOn: s.LFEOn, NumDepSub: s.NumDepSub, ChanLoc: s.ChanLoc})
	}
	return b
}

// checkState: n tracks added, the first `described` of them have their sample description.
func checkState(c *initCase, st *stats, init *mp4.InitSegment, n, described int, final bool) *harness.Fail {
	if f := checkTree(c, st, init.Moov, n, described, "built"); f != nil {
		return f
	}
	// encode; Size() against the encoded length, for the segment and box by box
	var buf bytes.Buffer
	if err := init.Encode(&buf); err != nil {
		return harness.Failf("C19|InitSegment.Encode|error", "%v", err)
	}
	enc := buf.Bytes()
	if init.Size() != uint64(len(enc)) {
		return harness.Failf("C19|InitSegment.Size|differs from encoded length", "Size %d, encoded %d", init.Size(), len(enc))
	}
	walked, err := boxwalk.WalkAll(enc)
	if err != nil {
		return harness.Failf("C19|InitSegment.Encode|encoded bytes are not a box sequence", "%v", err)
	}
	if f := checkSizes(init.Children, walked, ""); f != nil {
		return f
	}
	// decode
	file, err := mp4.DecodeFile(bytes.NewReader(enc))
	if err != nil {
		return harness.Failf("C19|DecodeFile|error on the encoded init segment", "%v", err)
	}
	if file.Init == nil || !file.IsFragmented() {
		return harness.Failf("C19|DecodeFile|not recognised as fragmented init", "Init %v IsFragmented %v", file.Init != nil, file.IsFragmented())
	}
	if file.Init.Moov == nil || file.Init.Ftyp == nil || len(file.Segments) != 0 {
		return harness.Failf("C19|DecodeFile|decoded init incomplete", "moov %v ftyp %v segments %d", file.Init.Moov != nil, file.Init.Ftyp != nil, len(file.Segments))
	}
	ignore := func(key string, parent reflect.Value) bool {
		switch key {
		case "Dec3Box.NumIndSub": // only reachable from hand-written cases: the generator leaves NumIndSub 0 while the switch is on
			return c.avoid(st, "dec3-numindsub-not-decoded")
		case "DecConfRec.ChromaFormat":
			if pr := parent.FieldByName("AVCProfileIndication"); pr.IsValid() && (pr.Uint() == 66 || pr.Uint() == 77 || pr.Uint() == 88) {
				return c.avoid(st, "avcc-chroma-not-inferred-on-decode")
			}
		}
		return false
	}
	if kp, p, m := treeDiff(reflect.ValueOf(init), reflect.ValueOf(file.Init), ignore); m != "" {
		return harness.Failf("C19|DecodeFile|decoded tree differs at "+kp, "%s: built / decoded = %s", p, m)
	}
	if f := checkTree(c, st, file.Init.Moov, n, described, "decoded"); f != nil {
		return f
	}
	buf2 := bytes.Buffer{}
	if err := file.Init.Encode(&buf2); err != nil || !bytes.Equal(buf2.Bytes(), enc) {
		return harness.Failf("C19|DecodeFile|re-encoding of the decoded init differs", "err %v, %d / %d bytes", err, buf2.Len(), len(enc))
	}
	if final {
		var ia, ib bytes.Buffer
		ea, eb := init.Info(&ia, "all:1", "", "  "), file.Init.Info(&ib, "all:1", "", "  ")
		if ea != nil || eb != nil || ia.String() != ib.String() {
			return harness.Failf("C19|InitSegment.Info|dump of built and decoded init differ", "err %v / %v", ea, eb)
		}
	}
	return checkRaw(c, st, enc, n, described)
}

// checkSizes compares Size() of every box of the library's tree with the size found in the encoded bytes.
func checkSizes(lib []mp4.Box, raw []*boxwalk.Box, path string) *harness.Fail {
	if len(lib) != len(raw) {
		return harness.Failf("C19|Encode|number of child boxes written differs from the tree", "%s: tree %d, encoded %d", path, len(lib), len(raw))
	}
	for i, b := range lib {
		p := path + "/" + b.Type()
		if b.Type() != raw[i].Type {
			return harness.Failf("C19|Encode|box type written differs from the tree", "%s: encoded %s", p, raw[i].Type)
		}
		if b.Size() != uint64(raw[i].Size) {
			return harness.Failf("C19|Box.Size|differs from encoded length", "%s: Size %d, encoded %d", p, b.Size(), raw[i].Size)
		}
		v := reflect.ValueOf(b)
		if v.Kind() == reflect.Ptr {
			v = v.Elem()
		}
		if v.Kind() != reflect.Struct {
			continue
		}
		if ch := v.FieldByName("Children"); ch.IsValid() && boxwalk.IsContainer(b.Type()) {
			kids, _ := ch.Interface().([]mp4.Box)
			if f := checkSizes(kids, raw[i].Children, p); f != nil {
				return f
			}
		}
	}
	return nil
}

// checkTree: the relations of the property on a moov tree (built or decoded).
func checkTree(c *initCase, st *stats, moov *mp4.MoovBox, n, described int, what string) *harness.Fail {
	bad := func(area, rel, format string, a ...interface{}) *harness.Fail {
		return harness.Failf("C19|"+area+"|"+rel, what+": "+format, a...)
	}
	if moov.Mvhd == nil || moov.Mvex == nil {
		return bad("moov", "mvhd or mvex missing", "")
	}
	if len(moov.Traks) != n || (n > 0 && moov.Trak != moov.Traks[0]) {
		return bad("moov", "number of traks differs from number of AddEmptyTrack calls", "%d traks, %d calls", len(moov.Traks), n)
	}
	if len(moov.Mvex.Trexs) != n || (n > 0 && moov.Mvex.Trex != moov.Mvex.Trexs[0]) {
		return bad("mvex", "number of trex boxes differs from number of tracks", "%d trex, %d tracks", len(moov.Mvex.Trexs), n)
	}
	for k := 0; k < n; k++ {
		op := &c.Ops[k]
		id := uint32(k + 1)
		trak := moov.Traks[k]
		if trak.Tkhd == nil || trak.Mdia == nil || trak.Mdia.Mdhd == nil || trak.Mdia.Hdlr == nil || trak.Mdia.Minf == nil ||
			trak.Mdia.Minf.Stbl == nil || trak.Mdia.Minf.Stbl.Stsd == nil || trak.Mdia.Minf.Dinf == nil || trak.Mdia.Minf.Dinf.Dref == nil {
			return bad("trak", "mandatory box missing", "track %d", id)
		}
		if trak.Tkhd.TrackID != id {
			return bad("tkhd", "track ids are not 1..n in order", "trak %d has track_ID %d", k, trak.Tkhd.TrackID)
		}
		if moov.Mvex.Trexs[k].TrackID != id {
			return bad("trex", "trex track id differs from the track id", "trex %d has track_ID %d, trak %d", k, moov.Mvex.Trexs[k].TrackID, id)
		}
		if tx, ok := moov.Mvex.GetTrex(id); !ok || tx != moov.Mvex.Trexs[k] {
			return bad("mvex", "GetTrex does not return the track's trex", "track %d", id)
		}
		if moov.Mvex.Trexs[k].DefaultSampleDescriptionIndex != 1 {
			return bad("trex", "default_sample_description_index not 1", "track %d: %d", id, moov.Mvex.Trexs[k].DefaultSampleDescriptionIndex)
		}
		if moov.Mvhd.NextTrackID <= id {
			return bad("mvhd", "next_track_ID not larger than all track ids", "next_track_ID %d, track %d", moov.Mvhd.NextTrackID, id)
		}
		mdia := trak.Mdia
		if mdia.Mdhd.Timescale != op.Timescale {
			return bad("mdhd", "timescale differs from the one supplied", "track %d: %d, supplied %d", id, mdia.Mdhd.Timescale, op.Timescale)
		}
		// handler and media header
		wantH := handlerFor[op.MediaType]
		gotH := mdia.Hdlr.HandlerType
		skipHandler := op.MediaType == "stpp" && gotH != wantH && c.avoid(st, "stpp-handler-type")
		if op.MediaType == "clcp" && gotH == "subt" {
			wantH = "subt" // the library deliberately files QuickTime closed captions under the subtitle handler
		}
		if gotH != wantH && !skipHandler {
			return bad("hdlr", "handler type does not match the media type", "track %d media type %q: handler %q, want %q", id, op.MediaType, gotH, wantH)
		}
		wantMH := headerFor(wantH)
		var mhs []string
		for _, ch := range mdia.Minf.Children {
			switch ch.Type() {
			case "vmhd", "smhd", "sthd", "nmhd", "hmhd":
				mhs = append(mhs, ch.Type())
			}
		}
		if len(mhs) != 1 || mhs[0] != wantMH || (mdia.Minf.Vmhd != nil) != (wantMH == "vmhd") || (mdia.Minf.Smhd != nil) != (wantMH == "smhd") || (mdia.Minf.Sthd != nil) != (wantMH == "sthd") {
			return bad("minf", "media header box does not match the handler type", "track %d media type %q handler %q: media header %v, want %s", id, op.MediaType, gotH, mhs, wantMH)
		}
		wantVol := mp4.Fixed16(0)
		if wantH == "soun" {
			wantVol = 0x0100
		}
		if trak.Tkhd.Volume != wantVol {
			return bad("tkhd", "volume does not match the media type", "track %d media type %q: volume %#x, want %#x", id, op.MediaType, trak.Tkhd.Volume, wantVol)
		}
		// language: documented rule of CreateEmptyTrak: 3-letter tag in mdhd and no elng, otherwise "und" + elng with the tag
		if len(op.Lang) == 3 {
			if mdia.Mdhd.Language != packLang(op.Lang) || mdia.Mdhd.GetLanguage() != op.Lang {
				return bad("mdhd", "language differs from the 3-letter tag supplied", "track %d: %#x (%s), supplied %q", id, mdia.Mdhd.Language, mdia.Mdhd.GetLanguage(), op.Lang)
			}
			if mdia.Elng != nil {
				return bad("elng", "present for a 3-letter tag", "track %d lang %q: elng %q", id, op.Lang, mdia.Elng.Language)
			}
		} else {
			if mdia.Mdhd.Language != packLang("und") {
				return bad("mdhd", "language not und for a tag that is not 3 letters", "track %d: %#x (%s), supplied %q", id, mdia.Mdhd.Language, mdia.Mdhd.GetLanguage(), op.Lang)
			}
			if mdia.Elng == nil || mdia.Elng.Language != op.Lang {
				return bad("elng", "missing or differs from the tag supplied", "track %d lang %q: elng %+v", id, op.Lang, mdia.Elng)
			}
			if mdia.Elng.MissingFullBoxBytes() {
				return bad("elng", "not a full box", "track %d lang %q", id, op.Lang)
			}
		}
		// sample description
		stsd := mdia.Minf.Stbl.Stsd
		wantEntries := 0
		if k < described && op.Codec != "none" {
			wantEntries = 1
		}
		if int(stsd.SampleCount) != wantEntries || len(stsd.Children) != wantEntries {
			return bad("stsd", "number of sample entries differs from number of Set*Descriptor calls", "track %d: entry_count %d, %d children, want %d", id, stsd.SampleCount, len(stsd.Children), wantEntries)
		}
		if wantEntries == 1 {
			if f := checkEntry(c, st, trak, op, what); f != nil {
				return f
			}
		} else if trak.Tkhd.Width != 0 || trak.Tkhd.Height != 0 {
			return bad("tkhd", "width/height set without video descriptor", "track %d: %#x x %#x", id, trak.Tkhd.Width, trak.Tkhd.Height)
		}
	}
	return nil
}

// checkEntry: the sample entry of a described track against what was supplied.
func checkEntry(c *initCase, st *stats, trak *mp4.TrakBox, op *trackOp, what string) *harness.Fail {
	id := trak.Tkhd.TrackID
	stsd := trak.Mdia.Minf.Stbl.Stsd
	bad := func(area, rel, format string, a ...interface{}) *harness.Fail {
		return harness.Failf("C19|"+area+"|"+rel, what+fmt.Sprintf(" track %d (%s): ", id, op.Codec)+format, a...)
	}
	var dri uint16
	wantType := map[string]string{"avc": op.SampleEntry, "hevc": op.SampleEntry, "aac": "mp4a", "ac3": "ac-3", "ec3": "ec-3", "wvtt": "wvtt", "stpp": "stpp"}[op.Codec]
	if got := stsd.Children[0].Type(); got != wantType {
		return bad("stsd", "sample entry type differs from the one requested", "%s, want %s", got, wantType)
	}
	switch op.Codec {
	case "avc", "hevc":
		vse := stsd.AvcX
		if op.Codec == "hevc" {
			vse = stsd.HvcX
		}
		if vse == nil || vse != stsd.Children[0] {
			return bad("stsd", "sample entry pointer not set", "")
		}
		dri = vse.DataReferenceIndex
		if uint32(vse.Width) != op.Width || uint32(vse.Height) != op.Height {
			return bad("visual sample entry", "width/height differ from the SPS-derived size", "%dx%d, generator's model %dx%d", vse.Width, vse.Height, op.Width, op.Height)
		}
		if uint64(trak.Tkhd.Width) != uint64(op.Width)<<16 || uint64(trak.Tkhd.Height) != uint64(op.Height)<<16 {
			return bad("tkhd", "width/height differ from 16.16 of the SPS-derived size", "%#x x %#x, generator's model %dx%d", uint32(trak.Tkhd.Width), uint32(trak.Tkhd.Height), op.Width, op.Height)
		}
		if len(vse.Children) != 1 {
			return bad("visual sample entry", "child boxes other than the configuration box", "%d children", len(vse.Children))
		}
		if op.Codec == "avc" {
			if vse.AvcC == nil {
				return bad("avcC", "missing", "")
			}
			r := &vse.AvcC.DecConfRec
			var ws, wp [][]byte
			if op.IncludePS {
				ws, wp = hexes(op.SPS), hexes(op.PPS)
			}
			if !nalusEqual(r.SPSnalus, ws) || !nalusEqual(r.PPSnalus, wp) {
				return bad("avcC", "parameter sets differ from those supplied", "SPS %x PPS %x, supplied %x %x (includePS %v)", r.SPSnalus, r.PPSnalus, ws, wp, op.IncludePS)
			}
			sps := op.SPS[0]
			if r.AVCProfileIndication != sps[1] || r.ProfileCompatibility != sps[2] || r.AVCLevelIndication != sps[3] {
				return bad("avcC", "profile/compatibility/level differ from the first SPS", "%d/%#x/%d, SPS %d/%#x/%d", r.AVCProfileIndication, r.ProfileCompatibility, r.AVCLevelIndication, sps[1], sps[2], sps[3])
			}
		} else {
			if vse.HvcC == nil {
				return bad("hvcC", "missing", "")
			}
			r := &vse.HvcC.DecConfRec
			var want []rawArray
			if op.IncludePS {
				complete := op.SampleEntry == "hvc1" // documented in SetHEVCDescriptor
				want = []rawArray{{complete, 32, hexes(op.VPS)}, {complete, 33, hexes(op.SPS)}, {complete, 34, hexes(op.PPS)}}
				if len(op.SEI) > 0 {
					want = append(want, rawArray{complete, 39, hexes(op.SEI)})
				}
			}
			if len(r.NaluArrays) != len(want) {
				return bad("hvcC", "parameter sets differ from those supplied", "%d arrays, want %d", len(r.NaluArrays), len(want))
			}
			for i, w := range want {
				a := &r.NaluArrays[i]
				if byte(a.NaluType()) != w.Type || (a.Complete() == 1) != w.Complete || !nalusEqual(a.Nalus, w.Nalus) {
					return bad("hvcC", "parameter sets differ from those supplied", "array %d: type %d complete %d %x, want %+v", i, a.NaluType(), a.Complete(), a.Nalus, w)
				}
			}
			if r.ChromaFormatIDC != op.Chroma || r.BitDepthLumaMinus8 != op.BdLuma || r.BitDepthChromaMinus8 != op.BdChroma || r.GeneralLevelIDC != op.PTL[11] || r.LengthSizeMinusOne != 3 {
				return bad("hvcC", "chroma format / bit depths / level differ from the first SPS", "%+v, model chroma %d depths %d %d level %d", r, op.Chroma, op.BdLuma, op.BdChroma, op.PTL[11])
			}
		}
	case "aac", "ac3", "ec3":
		ase := map[string]*mp4.AudioSampleEntryBox{"aac": stsd.Mp4a, "ac3": stsd.AC3, "ec3": stsd.EC3}[op.Codec]
		if ase == nil || ase != stsd.Children[0] {
			return bad("stsd", "sample entry pointer not set", "")
		}
		dri = ase.DataReferenceIndex
		var wantCh uint16
		var wantRate uint32
		switch op.Codec {
		case "aac":
			asc, cc := refASC(op.AACObjType, op.AACFreq)
			wantCh, wantRate = uint16(cc), uint32(op.AACFreq)
			if ase.Esds == nil || ase.Esds.DecConfigDescriptor == nil || ase.Esds.DecConfigDescriptor.DecSpecificInfo == nil {
				return bad("esds", "decoder specific info missing", "")
			}
			if got := ase.Esds.DecConfigDescriptor.DecSpecificInfo.DecConfig; !bytes.Equal(got, asc) {
				return bad("esds", "AudioSpecificConfig differs from the reference for the supplied object type and frequency", "%x, reference %x (object type %d, %d Hz)", got, asc, op.AACObjType, op.AACFreq)
			}
			if ase.Esds.DecConfigDescriptor.ObjectType != 0x40 || ase.Esds.DecConfigDescriptor.StreamType>>2 != 5 {
				return bad("esds", "objectTypeIndication/streamType not MPEG-4 audio", "%#x %#x", ase.Esds.DecConfigDescriptor.ObjectType, ase.Esds.DecConfigDescriptor.StreamType)
			}
		case "ac3":
			d := op.Dac3
			wantCh, wantRate = acmodChannels[d.ACMod]+uint16(d.LFEOn), ac3Rates[d.FSCod]
			if ase.Dac3 == nil || *ase.Dac3 != (mp4.Dac3Box{FSCod: d.FSCod, BSID: d.BSID, BSMod: d.BSMod, ACMod: d.ACMod, LFEOn: d.LFEOn, BitRateCode: d.BitRateCode}) {
				return bad("dac3", "differs from the box supplied", "%+v, supplied %+v", ase.Dac3, *d)
			}
		case "ec3":
			d := op.Dec3
			wantCh = ec3Channels(d.Subs[0])
			if d.Subs[0].FSCod < 3 {
				wantRate = ac3Rates[d.Subs[0].FSCod]
			}
			if ase.Dec3 == nil {
				return bad("dec3", "missing", "")
			}
			want := libDec3(d)
			if what == "decoded" && want.NumIndSub != ase.Dec3.NumIndSub && c.avoid(st, "dec3-numindsub-not-decoded") {
				want.NumIndSub = ase.Dec3.NumIndSub
			}
			if kp, p, m := treeDiff(reflect.ValueOf(want), reflect.ValueOf(ase.Dec3), nil); m != "" {
				return bad("dec3", "differs from the box supplied at "+kp, "%s: supplied / found = %s", p, m)
			}
		}
		if ase.ChannelCount != wantCh {
			return bad("audio sample entry", "channel count differs from the configuration supplied", "%d, want %d", ase.ChannelCount, wantCh)
		}
		// the 16.16 samplerate field holds rates up to 65535 Hz; above that (and for the E-AC-3 reduced rates that
		// dec3 does not carry) only 0 ("see the codec configuration") is not a false statement
		if wantRate > 65535 {
			wantRate = 0
		}
		if uint32(ase.SampleRate) != wantRate {
			return bad("audio sample entry", "sample rate differs from the configuration supplied", "%d, want %d", ase.SampleRate, wantRate)
		}
		if ase.SampleSize != 16 || len(ase.Children) != 1 {
			return bad("audio sample entry", "sample size not 16 or extra child boxes", "samplesize %d, %d children", ase.SampleSize, len(ase.Children))
		}
	case "wvtt":
		w := stsd.Wvtt
		if w == nil || w != stsd.Children[0] || w.VttC == nil || len(w.Children) != 1 {
			return bad("wvtt", "sample entry or vttC missing", "")
		}
		dri = w.DataReferenceIndex
		want := op.VttConfig
		if want == "" {
			want = "WEBVTT" // documented
		}
		if w.VttC.Config != want {
			return bad("vttC", "config differs from the one supplied", "%q, supplied %q", w.VttC.Config, op.VttConfig)
		}
		if dri != 1 && c.avoid(st, "wvtt-data-reference-index-0") {
			dri = 1
		}
	case "stpp":
		s := stsd.Stpp
		if s == nil || s != stsd.Children[0] {
			return bad("stpp", "sample entry missing", "")
		}
		dri = s.DataReferenceIndex
		ns := op.StppNS
		if ns == "" {
			ns = "http://www.w3.org/ns/ttml" // the function's default
		}
		if s.Namespace != ns || s.SchemaLocation != op.StppSchema || s.AuxiliaryMimeTypes != op.StppAux || len(s.Children) != 0 {
			return bad("stpp", "strings differ from those supplied", "%q %q %q, supplied %q %q %q", s.Namespace, s.SchemaLocation, s.AuxiliaryMimeTypes, op.StppNS, op.StppSchema, op.StppAux)
		}
	}
	// ISO/IEC 14496-12 8.5.2.2: data_reference_index ranges from 1 to the number of data references (dref has one entry)
	if nref := trak.Mdia.Minf.Dinf.Dref.EntryCount; dri < 1 || uint32(dri) > nref {
		return bad("sample entry", "data_reference_index outside 1..number of data references", "%d with %d data reference(s)", dri, nref)
	}
	return nil
}

// checkRaw: the encoded init read by the harness' own reader and a byte-level parse of the sample descriptions.
func checkRaw(c *initCase, st *stats, enc []byte, n, described int) *harness.Fail {
	p, err := fragbuild.Read(enc)
	if err != nil {
		return harness.Failf("C19|independent reader|encoded init not readable", "%v", err)
	}
	bad := func(area, rel, format string, a ...interface{}) *harness.Fail {
		return harness.Failf("C19|encoded "+area+"|"+rel, format, a...)
	}
	if !p.HasMoov || len(p.Tracks) != n || len(p.Trexs) != n {
		return bad("moov", "number of trak/trex boxes differs from number of tracks", "%d trak, %d trex, %d tracks", len(p.Tracks), len(p.Trexs), n)
	}
	walked, _ := boxwalk.WalkAll(enc)
	if mv := boxwalk.Path(walked, "moov", "mvhd"); mv == nil || mv.Size != 108 {
		return bad("mvhd", "not a version 0 mvhd", "")
	} else if next := be32(enc[mv.End()-4:]); int(next) <= n {
		return bad("mvhd", "next_track_ID not larger than all track ids", "next_track_ID %d, %d tracks", next, n)
	}
	elngs := map[int]string{} // trak index -> elng language
	ti := -1
	for _, b := range boxwalk.Flatten(walked) {
		switch b.Type {
		case "trak":
			ti++
		case "elng":
			pl := enc[b.PayloadStart():b.End()]
			if len(pl) < 5 || be32(pl) != 0 || pl[len(pl)-1] != 0 {
				return bad("elng", "not a full box with a terminated string", "%x", pl)
			}
			elngs[ti] = string(pl[4 : len(pl)-1])
		}
	}
	for k := 0; k < n; k++ {
		op := &c.Ops[k]
		id := uint32(k + 1)
		t := &p.Tracks[k]
		if t.ID != id || p.Trexs[k].TrackID != id || t.Trex == nil || p.Trexs[k].DescIdx != 1 {
			return bad("trak/trex", "track ids are not 1..n in order with one trex each", "trak %d: track_ID %d, trex track_ID %d", k, t.ID, p.Trexs[k].TrackID)
		}
		if t.Timescale != op.Timescale {
			return bad("mdhd", "timescale differs from the one supplied", "track %d: %d, supplied %d", id, t.Timescale, op.Timescale)
		}
		wantH := handlerFor[op.MediaType]
		skipHandler := op.MediaType == "stpp" && t.Handler != wantH && c.avoid(st, "stpp-handler-type")
		if op.MediaType == "clcp" && t.Handler == "subt" {
			wantH = "subt"
		}
		if t.Handler != wantH && !skipHandler {
			return bad("hdlr", "handler type does not match the media type", "track %d media type %q: %q", id, op.MediaType, t.Handler)
		}
		if t.MediaHeader != headerFor(wantH) {
			return bad("minf", "media header box does not match the handler type", "track %d media type %q handler %q: %s", id, op.MediaType, t.Handler, t.MediaHeader)
		}
		wantLang, wantElng, hasElng := packLang("und"), op.Lang, true
		if len(op.Lang) == 3 {
			wantLang, wantElng, hasElng = packLang(op.Lang), "", false
		}
		if e, ok := elngs[k]; t.Language != wantLang || ok != hasElng || e != wantElng {
			return bad("mdhd/elng", "language differs from the documented rule", "track %d lang %q: mdhd %#x elng %q (present %v)", id, op.Lang, t.Language, e, ok)
		}
		ents, err := parseStsd(t.StsdRaw)
		if err != nil {
			return bad("stsd", "malformed", "track %d: %v", id, err)
		}
		if k >= described || op.Codec == "none" {
			if len(ents) != 0 || t.Width != 0 || t.Height != 0 {
				return bad("stsd", "entries without Set*Descriptor call", "track %d: %d entries, tkhd %#x x %#x", id, len(ents), t.Width, t.Height)
			}
			continue
		}
		if len(ents) != 1 {
			return bad("stsd", "number of sample entries differs from number of Set*Descriptor calls", "track %d: %d", id, len(ents))
		}
		if f := checkRawEntry(c, st, &ents[0], t, op); f != nil {
			return f
		}
	}
	return nil
}

func be32(b []byte) uint32 {
	return uint32(b[0])<<24 | uint32(b[1])<<16 | uint32(b[2])<<8 | uint32(b[3])
}

func checkRawEntry(c *initCase, st *stats, e *rawEntry, t *fragbuild.PTrack, op *trackOp) *harness.Fail {
	bad := func(area, rel, format string, a ...interface{}) *harness.Fail {
		return harness.Failf("C19|encoded "+area+"|"+rel, fmt.Sprintf("track %d (%s): ", t.ID, op.Codec)+format, a...)
	}
	dri := e.DataRefIdx
	switch op.Codec {
	case "avc", "hevc":
		if e.Type != op.SampleEntry {
			return bad("stsd", "sample entry type differs from the one requested", "%s", e.Type)
		}
		if uint32(e.Width) != op.Width || uint32(e.Height) != op.Height || uint64(t.Width) != uint64(op.Width)<<16 || uint64(t.Height) != uint64(op.Height)<<16 {
			return bad("visual sample entry", "width/height differ from the SPS-derived size", "entry %dx%d tkhd %#x x %#x, generator's model %dx%d", e.Width, e.Height, t.Width, t.Height, op.Width, op.Height)
		}
		if op.Codec == "avc" {
			got, ref := e.Boxes["avcC"], refAvcC(hexes(op.SPS), hexes(op.PPS), op.IncludePS)
			// chroma_format / bit depths / numOfSequenceParameterSetExt follow for the High profiles (14496-15 5.3.3.1.2);
			// for which of the other profiles with chroma_format_idc they follow differs between editions: absent or correct
			tail := []byte{0xfc | op.Chroma, 0xf8 | op.BdLuma, 0xf8 | op.BdChroma, 0}
			prof := op.SPS[0][1]
			must := prof == 100 || prof == 110 || prof == 122 || prof == 144
			may := prof != 66 && prof != 77 && prof != 88
			ok := bytes.Equal(got, append(append([]byte{}, ref...), tail...)) && may || bytes.Equal(got, ref) && !must
			if !ok {
				return bad("avcC", "bytes differ from the reference record for the parameter sets supplied", "%x, reference %x [+ %x]", got, ref, tail)
			}
		} else {
			got := e.Boxes["hvcC"]
			arrays, err := parseHvcCArrays(got)
			if err != nil {
				return bad("hvcC", "malformed record", "%v: %x", err, got)
			}
			if got[0] != 1 || !bytes.Equal(got[1:13], op.PTL) || got[16]&3 != op.Chroma || got[17]&7 != op.BdLuma || got[18]&7 != op.BdChroma || got[21]&3 != 3 {
				return bad("hvcC", "profile/tier/level, chroma format or bit depths differ from the first SPS", "%x, model PTL %x chroma %d depths %d %d", got[:23], []byte(op.PTL), op.Chroma, op.BdLuma, op.BdChroma)
			}
			var want []rawArray
			if op.IncludePS {
				cpl := op.SampleEntry == "hvc1"
				want = []rawArray{{cpl, 32, hexes(op.VPS)}, {cpl, 33, hexes(op.SPS)}, {cpl, 34, hexes(op.PPS)}}
				if len(op.SEI) > 0 {
					want = append(want, rawArray{cpl, 39, hexes(op.SEI)})
				}
			}
			if len(arrays) != len(want) {
				return bad("hvcC", "parameter sets differ from those supplied", "%d arrays, want %d", len(arrays), len(want))
			}
			for i, w := range want {
				if a := arrays[i]; a.Type != w.Type || a.Complete != w.Complete || !nalusEqual(a.Nalus, w.Nalus) {
					return bad("hvcC", "parameter sets differ from those supplied", "array %d: %+v, want %+v", i, a, w)
				}
			}
		}
	case "aac", "ac3", "ec3":
		var wantCh uint16
		var wantRate uint32
		wantType := "mp4a"
		switch op.Codec {
		case "aac":
			ref, cc := refASC(op.AACObjType, op.AACFreq)
			wantCh, wantRate = uint16(cc), uint32(op.AACFreq)
			asc, oti, err := ascFromEsds(e.Boxes["esds"])
			if err != nil || oti != 0x40 || !bytes.Equal(asc, ref) {
				return bad("esds", "AudioSpecificConfig differs from the reference for the supplied object type and frequency", "err %v oti %#x asc %x, reference %x", err, oti, asc, ref)
			}
		case "ac3":
			wantType = "ac-3"
			wantCh, wantRate = acmodChannels[op.Dac3.ACMod]+uint16(op.Dac3.LFEOn), ac3Rates[op.Dac3.FSCod]
			if got, ref := e.Boxes["dac3"], refDac3(op.Dac3); !bytes.Equal(got, ref) {
				return bad("dac3", "differs from the box supplied", "%x, reference %x", got, ref)
			}
		case "ec3":
			wantType = "ec-3"
			wantCh = ec3Channels(op.Dec3.Subs[0])
			if op.Dec3.Subs[0].FSCod < 3 {
				wantRate = ac3Rates[op.Dec3.Subs[0].FSCod]
			}
			if got, ref := e.Boxes["dec3"], refDec3(op.Dec3); !bytes.Equal(got, ref) {
				return bad("dec3", "differs from the box supplied", "%x, reference %x", got, ref)
			}
		}
		if wantRate > 65535 {
			wantRate = 0
		}
		if e.Type != wantType || e.Channels != wantCh || e.SampleRate != wantRate<<16 || e.SampleSize != 16 || len(e.BoxOrder) != 1 {
			return bad("audio sample entry", "type, channel count or sample rate differ from the configuration supplied", "%s channels %d rate %#x size %d children %v, want %s %d %d", e.Type, e.Channels, e.SampleRate, e.SampleSize, e.BoxOrder, wantType, wantCh, wantRate)
		}
	case "wvtt":
		want := op.VttConfig
		if want == "" {
			want = "WEBVTT"
		}
		if e.Type != "wvtt" || string(e.Boxes["vttC"]) != want || len(e.BoxOrder) != 1 {
			return bad("wvtt", "config differs from the one supplied", "%s %q %v", e.Type, e.Boxes["vttC"], e.BoxOrder)
		}
		if dri != 1 && c.avoid(st, "wvtt-data-reference-index-0") {
			dri = 1
		}
	case "stpp":
		ns := op.StppNS
		if ns == "" {
			ns = "http://www.w3.org/ns/ttml"
		}
		if e.Type != "stpp" || len(e.Strings) != 3 || e.Strings[0] != ns || e.Strings[1] != op.StppSchema || e.Strings[2] != op.StppAux || len(e.BoxOrder) != 0 {
			return bad("stpp", "strings differ from those supplied", "%s %q", e.Type, e.Strings)
		}
	}
	if dri != 1 {
		return bad("sample entry", "data_reference_index outside 1..number of data references", "%d", dri)
	}
	return nil
}

// ---------------------------------------------------------------------------------------------
// fragments

func fullSample(s *sampleSpec) mp4.FullSample {
	return mp4.FullSample{Sample: mp4.Sample{Flags: s.Flags, Dur: s.Dur, Size: uint32(len(s.Data)), CompositionTimeOffset: s.Cto},
		DecodeTime: s.DecodeTime, Data: append([]byte{}, s.Data...)}
}

func checkFragments(c *initCase, init *mp4.InitSegment) *harness.Fail {
	n := len(c.Ops)
	var buf bytes.Buffer
	if err := init.Encode(&buf); err != nil {
		return harness.Failf("C19|InitSegment.Encode|error", "%v", err)
	}
	single, err := mp4.CreateFragment(c.SeqNr, uint32(c.SingleIdx+1))
	if err != nil {
		return harness.Failf("C19|CreateFragment|error", "%v", err)
	}
	single.AddFullSample(fullSample(&c.Ops[c.SingleIdx].Sample))
	ids := make([]uint32, n)
	for k := range ids {
		ids[k] = uint32(k + 1)
	}
	multi, err := mp4.CreateMultiTrackFragment(c.SeqNr+1, ids)
	if err != nil {
		return harness.Failf("C19|CreateMultiTrackFragment|error", "%v", err)
	}
	for k := range c.Ops {
		if err := multi.AddFullSampleToTrack(fullSample(&c.Ops[k].Sample), ids[k]); err != nil {
			return harness.Failf("C19|AddFullSampleToTrack|error for a track of the init", "track %d: %v", ids[k], err)
		}
	}
	for i, fr := range []*mp4.Fragment{single, multi} {
		before := buf.Len()
		if err := fr.Encode(&buf); err != nil {
			return harness.Failf("C19|Fragment.Encode|error", "fragment %d: %v", i, err)
		}
		if fr.Size() != uint64(buf.Len()-before) {
			return harness.Failf("C19|Fragment.Size|differs from encoded length", "fragment %d: Size %d, encoded %d", i, fr.Size(), buf.Len()-before)
		}
	}
	file, err := mp4.DecodeFile(bytes.NewReader(buf.Bytes()))
	if err != nil {
		return harness.Failf("C19|DecodeFile|error on init + fragments", "%v", err)
	}
	var frags []*mp4.Fragment
	for _, s := range file.Segments {
		frags = append(frags, s.Fragments...)
	}
	if file.Init == nil || !file.IsFragmented() || len(frags) != 2 {
		return harness.Failf("C19|DecodeFile|init + 2 fragments not recognised", "init %v fragmented %v fragments %d", file.Init != nil, file.IsFragmented(), len(frags))
	}
	for k := range c.Ops {
		trex, ok := file.Init.Moov.Mvex.GetTrex(ids[k])
		if !ok {
			return harness.Failf("C19|mvex|GetTrex does not return the track's trex", "decoded, track %d", ids[k])
		}
		for i, fr := range frags {
			got, err := fr.GetFullSamples(trex)
			if err != nil {
				return harness.Failf("C19|Fragment.GetFullSamples|error", "fragment %d track %d: %v", i, ids[k], err)
			}
			if i == 0 && k != c.SingleIdx {
				if len(got) != 0 {
					return harness.Failf("C19|Fragment.GetFullSamples|samples for a track that is not in the fragment", "track %d: %d", ids[k], len(got))
				}
				continue
			}
			want := fullSample(&c.Ops[k].Sample)
			if len(got) != 1 || got[0].Sample != want.Sample || got[0].DecodeTime != want.DecodeTime || !bytes.Equal(got[0].Data, want.Data) {
				return harness.Failf("C19|Fragment.GetFullSamples|samples differ from those added", "fragment %d track %d: got %+v, added %+v", i, ids[k], got, want)
			}
		}
	}
	// the harness' own reader on the same bytes
	p, err := fragbuild.Read(buf.Bytes())
	if err != nil {
		return harness.Failf("C19|independent reader|init + fragments not readable", "%v", err)
	}
	for k := range c.Ops {
		got := p.TrackSamples(ids[k])
		want := []*sampleSpec{&c.Ops[k].Sample}
		if k == c.SingleIdx {
			want = append(want, want[0])
		}
		if len(got) != len(want) {
			return harness.Failf("C19|encoded fragments|number of samples differs from those added", "track %d: %d, want %d", ids[k], len(got), len(want))
		}
		for i, w := range want {
			if g := got[i]; g.Dur != w.Dur || g.Flags != w.Flags || g.Cto != int64(w.Cto) || g.DecodeTime != w.DecodeTime || !bytes.Equal(g.Data, w.Data) {
				return harness.Failf("C19|encoded fragments|samples differ from those added", "track %d sample %d: %+v, added %+v", ids[k], i, g, *w)
			}
		}
	}
	return nil
}

// ---------------------------------------------------------------------------------------------
// the property

func classify(c *initCase) (bool, []string) {
	cl := []string{fmt.Sprintf("tracks-%d", len(c.Ops))}
	nt := len(c.Ops) >= 2
	seen := map[string]bool{}
	add := func(s string) {
		if !seen[s] {
			seen[s] = true
			cl = append(cl, s)
		}
	}
	for i := range c.Ops {
		op := &c.Ops[i]
		add("codec-" + op.Codec)
		add("mediatype-" + op.MediaType)
		add(langShape(op.Lang))
		if len(op.Lang) != 3 {
			nt = true
		}
		switch op.Codec {
		case "avc", "hevc":
			add(fmt.Sprintf("entry-%s-ps%v", op.SampleEntry, op.IncludePS))
			add(fmt.Sprintf("%s-nsps%d-npps%d", op.Codec, len(op.SPS), len(op.PPS)))
			if op.Codec == "hevc" {
				add(fmt.Sprintf("hevc-nvps%d", len(op.VPS)))
				if len(op.SEI) > 0 {
					add("hevc-sei-array")
				}
			}
			if op.Width%8 != 0 || op.Height%8 != 0 {
				add(op.Codec + "-cropped-size-not-multiple-of-8")
			}
		case "aac":
			add(fmt.Sprintf("aac-objtype-%d", op.AACObjType))
			add(fmt.Sprintf("aac-freq-%d", op.AACFreq))
		case "ec3":
			add(fmt.Sprintf("ec3-substreams-%d", len(op.Dec3.Subs)))
			if op.Dec3.Subs[0].NumDepSub > 0 {
				add("ec3-dependent-substreams")
			}
		case "stpp":
			if op.StppNS == "" {
				add("stpp-default-namespace")
			}
			if op.StppSchema != "" || op.StppAux != "" {
				add("stpp-optional-strings")
			}
		case "wvtt":
			if op.VttConfig == "" {
				add("wvtt-default-config")
			}
		}
	}
	return nt, cl
}

func TestInitHistories(t *testing.T) {
	harness.RunRapid(t, "inithistory", func(rt *rapid.T) {
		c := genCase(rt)
		raw, _ := json.Marshal(c)
		nt, cl := classify(&c)
		harness.Rec.Case(nt, raw, cl...)
		if nt && harness.Rec.WantSample() && len(raw) < 3000 {
			harness.Rec.Sample(map[string]interface{}{"kind": "inithistory", "case": c})
		}
		var st stats
		f := harness.Guarded(func() *harness.Fail { return evalInit(&c, &st) })
		names := make([]string, 0, len(st.skipped))
		for name := range st.skipped {
			names = append(names, name)
		}
		sort.Strings(names)
		for _, name := range names {
			harness.Rec.Exclude(name)
			harness.Rec.ClassN("skipped-relations:"+name, st.skipped[name])
		}
		// one case in 16: the JSON form of the case gives the same verdict (replay files reproduce what was seen)
		if harness.Hash(raw)%16 == 0 {
			f2 := harness.Replayer(checkInit)(raw)
			if (f == nil) != (f2 == nil) || (f != nil && f.Key != f2.Key) {
				rt.Fatalf("harness|replay-inconsistent: direct verdict %v, verdict on the JSON round trip %v", f, f2)
			}
		}
		harness.Report(rt, "inithistory", c, f)
	})
}
