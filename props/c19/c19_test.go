// C19 — init segments built through the API are consistent and self-describing.
//
// A case is a list of tracks (AddEmptyTrack arguments, one or two descriptors), the order of the AddEmptyTrack and
// Set*Descriptor calls (tracks described late, descriptors set twice, tracks never described) and a fragment
// history; all of it is drawn first and then interpreted by the oracle: after every step the tree is checked (track
// ids 1..n, one trex per track, next track id, handler / media header / language rule, sample entries against what
// was supplied), encoded, compared with Size() box by box, decoded (tree deep-equal, bytes of the re-encoding equal,
// recognised as fragmented init) and cross-checked with the harness' own reader (fragbuild.Read + a raw stsd
// parser). At the end fragments are created for the track ids, collected in media segments, filled with samples in
// an interleaved order, encoded behind the init and read back (library and own reader).
package c19

import (
	"bytes"
	"encoding/json"
	"fmt"
	"os"
	"reflect"
	"sort"
	"strings"
	"testing"

	"github.com/Eyevinn/mp4ff/mp4"
	"pgregory.net/rapid"

	"verif/internal/boxwalk"
	"verif/internal/fragbuild"
	"verif/internal/harness"
)

func TestMain(m *testing.M) { harness.Main(m) }

func init() {
	harness.RegisterReplay("inithistory", harness.Replayer(checkInit))
	if v := os.Getenv("VERIF_C19_NOAVOID"); v == "all" {
		avoidKnown = map[string]bool{}
	} else if v != "" {
		for _, name := range strings.Split(v, ",") {
			if _, ok := avoidKnown[name]; !ok {
				fmt.Fprintf(os.Stderr, "VERIF_C19_NOAVOID: unknown switch %q\n", name)
				os.Exit(2)
			}
			delete(avoidKnown, name)
		}
	}
}

func TestReplay(t *testing.T) { harness.ReplayPath(t) }

type stats struct {
	skipped  map[string]int64 // known-defect switches that silenced a relation
	observed map[string]bool  // which of several admissible behaviours the library showed (evidence only)
}

func (st *stats) note(what string) {
	if st.observed == nil {
		st.observed = map[string]bool{}
	}
	st.observed[what] = true
}

// avoid reports whether the oracle relation guarded by the named known-defect switch is to be skipped.
func (c *initCase) avoid(st *stats, name string) bool {
	if c.NoAvoid || !avoidKnown[name] {
		return false
	}
	if st.skipped == nil {
		st.skipped = map[string]int64{}
	}
	st.skipped[name]++
	return true
}

func checkInit(c initCase) *harness.Fail { return evalInit(&c, &stats{}) }

// expected handler type and media header box per media type: ISO/IEC 14496-12 8.4.3 / 8.4.5 / 12.x
// (vide+vmhd, soun+smhd, subt+sthd, text+nmhd, meta+nmhd) and ISO/IEC 14496-30 (TTML 'stpp' tracks: subt+sthd,
// WebVTT 'wvtt' tracks: text+nmhd). "clcp": see headerFor.
var handlerFor = map[string]string{"video": "vide", "vide": "vide", "audio": "soun", "soun": "soun", "subtitle": "subt", "subt": "subt",
	"stpp": "subt", "text": "text", "wvtt": "text", "meta": "meta", "clcp": "clcp"}

func headerFor(handler string) string {
	switch handler {
	case "vide":
		return "vmhd"
	case "soun":
		return "smhd"
	case "subt":
		return "sthd"
	}
	return "nmhd"
}

func hexes(h []harness.HexBytes) [][]byte {
	var out [][]byte
	for _, b := range h {
		out = append(out, []byte(b))
	}
	return out
}

// ---------------------------------------------------------------------------------------------
// the interpreter

// model: what the calls made so far amount to.
type model struct {
	n       int           // tracks added
	applied [][]*descSpec // per track: the descriptors set on it, in call order (codec "none": no call exists)
}

func validDesc(d *descSpec, mediaType string) bool {
	class := map[string]string{"avc": "vide", "hevc": "vide", "aac": "soun", "ac3": "soun", "ec3": "soun", "stpp": "subt", "wvtt": "text"}
	switch d.Codec {
	case "none":
		return true
	case "avc", "hevc":
		if len(d.SPS) == 0 || len(d.SPS[0]) < 4 || (!d.IncludePS && (d.SampleEntry == "avc1" || d.SampleEntry == "hvc1")) {
			return false // the documented precondition of the video descriptors
		}
		if d.Codec == "hevc" && len(d.PTL) != 12 {
			return false
		}
	case "ac3":
		if d.Dac3 == nil {
			return false
		}
	case "ec3":
		if d.Dec3 == nil || len(d.Dec3.Subs) == 0 {
			return false
		}
	}
	// the descriptor matches the media type (the handler class; "stpp"/"wvtt" media types are subtitle/text tracks)
	want, ok := class[d.Codec]
	return ok && want == handlerFor[mediaType]
}

func evalInit(c *initCase, st *stats) *harness.Fail {
	n := len(c.Ops)
	if n == 0 || c.SingleIdx < 0 || c.SingleIdx >= n {
		return harness.Failf("harness|c19|bad-case", "%d ops, singleIdx %d", n, c.SingleIdx)
	}
	for i := range c.Ops {
		op := &c.Ops[i]
		if _, ok := handlerFor[op.MediaType]; !ok || len(op.Lang) < 2 || op.Timescale == 0 || len(op.Sample.Data) == 0 {
			return harness.Failf("harness|c19|bad-case", "op %d outside the domain", i)
		}
		if !validDesc(&op.descSpec, op.MediaType) || (op.Alt != nil && (op.Alt.Codec == "none" || !validDesc(op.Alt, op.MediaType))) {
			return harness.Failf("harness|c19|bad-case", "op %d: descriptor violates the documented precondition or does not match the media type", i)
		}
	}
	hist := c.history()
	added, last := 0, 0
	for i, s := range hist {
		switch {
		case s.Op == "add" && s.Track == added && !s.Alt:
			added++
		case s.Op == "set" && s.Track >= 0 && s.Track < added && (!s.Alt || c.Ops[s.Track].Alt != nil):
		default:
			return harness.Failf("harness|c19|bad-case", "history step %d (%+v) is not a call sequence on %d added tracks", i, s, added)
		}
		last = i
	}
	if added != n {
		return harness.Failf("harness|c19|bad-case", "history adds %d of %d tracks", added, n)
	}
	init := mp4.CreateEmptyInit()
	if init.Moov == nil || init.Moov.Mvhd == nil || init.Moov.Mvex == nil || init.Ftyp == nil {
		return harness.Failf("C19|CreateEmptyInit|ftyp/moov/mvhd/mvex missing", "%+v", init)
	}
	m := &model{applied: make([][]*descSpec, n)}
	for i, s := range hist {
		op := &c.Ops[s.Track]
		if s.Op == "add" {
			init.AddEmptyTrack(op.Timescale, op.MediaType, op.Lang)
			m.n++
			if len(init.Moov.Traks) != m.n {
				return harness.Failf("C19|moov|number of traks differs from number of AddEmptyTrack calls", "%d after %d calls", len(init.Moov.Traks), m.n)
			}
		} else {
			d := &op.descSpec
			if s.Alt {
				d = op.Alt
			}
			if err := setDescriptor(init.Moov.Traks[s.Track], d); err != nil {
				return harness.Failf("C19|Set"+d.Codec+"Descriptor|error on valid input", "track %d: %v", s.Track+1, err)
			}
			if d.Codec != "none" {
				m.applied[s.Track] = append(m.applied[s.Track], d)
			}
		}
		if f := checkState(c, st, init, m, i == last); f != nil {
			return f
		}
	}
	if c.Frags != nil {
		return checkFragPlan(c, st, init)
	}
	return checkFragments(c, init)
}

func setDescriptor(trak *mp4.TrakBox, op *descSpec) error {
	switch op.Codec {
	case "avc":
		return trak.SetAVCDescriptor(op.SampleEntry, hexes(op.SPS), hexes(op.PPS), op.IncludePS)
	case "hevc":
		return trak.SetHEVCDescriptor(op.SampleEntry, hexes(op.VPS), hexes(op.SPS), hexes(op.PPS), hexes(op.SEI), op.IncludePS)
	case "aac":
		return trak.SetAACDescriptor(op.AACObjType, op.AACFreq)
	case "ac3":
		d := op.Dac3
		return trak.SetAC3Descriptor(&mp4.Dac3Box{FSCod: d.FSCod, BSID: d.BSID, BSMod: d.BSMod, ACMod: d.ACMod, LFEOn: d.LFEOn, BitRateCode: d.BitRateCode})
	case "ec3":
		return trak.SetEC3Descriptor(libDec3(op.Dec3))
	case "wvtt":
		return trak.SetWvttDescriptor(op.VttConfig)
	case "stpp":
		return trak.SetStppDescriptor(op.StppNS, op.StppSchema, op.StppAux)
	}
	return nil
}

func libDec3(d *dec3Fields) *mp4.Dec3Box {
	b := &mp4.Dec3Box{DataRate: d.DataRate, NumIndSub: d.NumIndSub}
	for _, s := range d.Subs {
		b.EC3Subs = append(b.EC3Subs, mp4.EC3Sub{FSCod: s.FSCod, BSID: s.BSID, ASVC: s.ASVC, BSMod: s.BSMod, ACMod: s.ACMod, LFEOn: s.LFEOn, NumDepSub: s.NumDepSub, ChanLoc: s.ChanLoc})
	}
	return b
}

// checkState: the init segment after the calls summarised by m.
func checkState(c *initCase, st *stats, init *mp4.InitSegment, m *model, final bool) *harness.Fail {
	if f := checkTree(c, st, init.Moov, m, "built"); f != nil {
		return f
	}
	// encode; Size() against the encoded length, for the segment and box by box
	var buf bytes.Buffer
	if err := init.Encode(&buf); err != nil {
		return harness.Failf("C19|InitSegment.Encode|error", "%v", err)
	}
	enc := buf.Bytes()
	if init.Size() != uint64(len(enc)) {
		return harness.Failf("C19|InitSegment.Size|differs from encoded length", "Size %d, encoded %d", init.Size(), len(enc))
	}
	walked, err := boxwalk.WalkAll(enc)
	if err != nil {
		return harness.Failf("C19|InitSegment.Encode|encoded bytes are not a box sequence", "%v", err)
	}
	if f := checkSizes(init.Children, walked, ""); f != nil {
		return f
	}
	// decode
	file, err := mp4.DecodeFile(bytes.NewReader(enc))
	if err != nil {
		return harness.Failf("C19|DecodeFile|error on the encoded init segment", "%v", err)
	}
	if file.Init == nil || !file.IsFragmented() {
		return harness.Failf("C19|DecodeFile|not recognised as fragmented init", "Init %v IsFragmented %v", file.Init != nil, file.IsFragmented())
	}
	if file.Init.Moov == nil || file.Init.Ftyp == nil || len(file.Segments) != 0 {
		return harness.Failf("C19|DecodeFile|decoded init incomplete", "moov %v ftyp %v segments %d", file.Init.Moov != nil, file.Init.Ftyp != nil, len(file.Segments))
	}
	ignore := func(key string, parent reflect.Value) bool {
		switch key {
		case "Dec3Box.NumIndSub": // only reachable from hand-written cases: the generator leaves NumIndSub 0 while the switch is on
			return c.avoid(st, "dec3-numindsub-not-decoded")
		case "DecConfRec.ChromaFormat":
			if pr := parent.FieldByName("AVCProfileIndication"); pr.IsValid() && (pr.Uint() == 66 || pr.Uint() == 77 || pr.Uint() == 88) {
				return c.avoid(st, "avcc-chroma-not-inferred-on-decode")
			}
		}
		return false
	}
	if kp, p, m := treeDiff(reflect.ValueOf(init), reflect.ValueOf(file.Init), ignore); m != "" {
		return harness.Failf("C19|DecodeFile|decoded tree differs at "+kp, "%s: built / decoded = %s", p, m)
	}
	if f := checkTree(c, st, file.Init.Moov, m, "decoded"); f != nil {
		return f
	}
	buf2 := bytes.Buffer{}
	if err := file.Init.Encode(&buf2); err != nil || !bytes.Equal(buf2.Bytes(), enc) {
		return harness.Failf("C19|DecodeFile|re-encoding of the decoded init differs", "err %v, %d / %d bytes", err, buf2.Len(), len(enc))
	}
	if final {
		var ia, ib bytes.Buffer
		ea, eb := init.Info(&ia, "all:1", "", "  "), file.Init.Info(&ib, "all:1", "", "  ")
		if ea != nil || eb != nil || ia.String() != ib.String() {
			return harness.Failf("C19|InitSegment.Info|dump of built and decoded init differ", "err %v / %v", ea, eb)
		}
	}
	return checkRaw(c, st, enc, m)
}

// checkSizes compares Size() of every box of the library's tree with the size found in the encoded bytes.
func checkSizes(lib []mp4.Box, raw []*boxwalk.Box, path string) *harness.Fail {
	if len(lib) != len(raw) {
		return harness.Failf("C19|Encode|number of child boxes written differs from the tree", "%s: tree %d, encoded %d", path, len(lib), len(raw))
	}
	for i, b := range lib {
		p := path + "/" + b.Type()
		if b.Type() != raw[i].Type {
			return harness.Failf("C19|Encode|box type written differs from the tree", "%s: encoded %s", p, raw[i].Type)
		}
		if b.Size() != uint64(raw[i].Size) {
			return harness.Failf("C19|Box.Size|differs from encoded length", "%s: Size %d, encoded %d", p, b.Size(), raw[i].Size)
		}
		v := reflect.ValueOf(b)
		if v.Kind() == reflect.Ptr {
			v = v.Elem()
		}
		if v.Kind() != reflect.Struct {
			continue
		}
		if ch := v.FieldByName("Children"); ch.IsValid() && boxwalk.IsContainer(b.Type()) {
			kids, _ := ch.Interface().([]mp4.Box)
			if f := checkSizes(kids, raw[i].Children, p); f != nil {
				return f
			}
		}
	}
	return nil
}

// Child boxes of a sample entry. The property demands the codec configuration supplied, not that nothing else is in
// the entry: the configuration box must be there exactly once (ISO/IEC 14496-15 5.4.2.1 / 8.4.1.1, ETSI TS 102 366
// F.3 / F.5, ISO/IEC 14496-30 7.5: one avcC / hvcC / dac3 / dec3 / vttC), every other child must be one of the
// optional boxes that the defining specification lists for that kind of sample entry (14496-12 8.5.2 btrt, 12.1.3
// clap / pasp / colr ..., 12.2.3 chnl / dmix / srat, 14496-15 m4ds, 14496-30 vlab / mime). An earlier version
// of this check demanded "exactly one child" ("no child" for stpp), which the property does not state.
var optionalChildren = map[string][]string{
	"visual": {"btrt", "pasp", "clap", "colr", "clli", "mdcv", "ccst", "auxi", "m4ds"},
	"audio":  {"btrt", "chnl", "dmix", "srat"},
	"wvtt":   {"btrt", "vlab"},
	"stpp":   {"btrt", "mime"},
}

func childRule(children []string, conf, kind string) string {
	nConf := 0
	for _, t := range children {
		if t == conf && conf != "" {
			nConf++
			continue
		}
		ok := false
		for _, o := range optionalChildren[kind] {
			ok = ok || o == t
		}
		if !ok {
			return fmt.Sprintf("child box %q is not defined for a %s sample entry (children %v)", t, kind, children)
		}
	}
	if conf != "" && nConf != 1 {
		return fmt.Sprintf("%d %s boxes (children %v)", nConf, conf, children)
	}
	return ""
}

func boxTypes(bs []mp4.Box) []string {
	var out []string
	for _, b := range bs {
		out = append(out, b.Type())
	}
	return out
}

// pointerClass: the StsdBox field that points to a sample entry of the codec (the latest one added wins).
func pointerClass(codec string) string {
	return map[string]string{"avc": "AvcX", "hevc": "HvcX", "aac": "Mp4a", "ac3": "AC3", "ec3": "EC3", "wvtt": "Wvtt", "stpp": "Stpp"}[codec]
}

// wantedEntries: the sample entries a track must have after the Set*Descriptor calls `applied`, given that the stsd
// holds `have` entries. One call: one entry. Several calls on the same track: SetAACDescriptor / SetAC3Descriptor /
// SetEC3Descriptor are documented as "adding" a sample descriptor and SetStppDescriptor as "add stpp box";
// SetAVCDescriptor / SetHEVCDescriptor / SetWvttDescriptor say "Set" without saying what happens to an entry that
// is already there. The property only says that the sample entry equals what was supplied, so both readings are
// admitted: every call added an entry (all of them must then be there, in call order, each equal to its
// arguments), or the latest call replaced what was there (one entry, equal to the latest arguments). Anything
// else (an entry lost, duplicated, out of order, entry_count out of step) is a violation.
func wantedEntries(st *stats, applied []*descSpec, have int) ([]*descSpec, bool) {
	switch {
	case have == len(applied):
		if have > 1 {
			st.note("second-set-appends-sample-entry")
		}
		return applied, true
	case have == 1 && len(applied) > 1:
		st.note("second-set-replaces-sample-entry")
		return applied[len(applied)-1:], true
	}
	return nil, false
}

// lastVideo: the size the tkhd must show: that of the latest video descriptor set on the track.
func lastVideo(applied []*descSpec) *descSpec {
	for i := len(applied) - 1; i >= 0; i-- {
		if applied[i].Codec == "avc" || applied[i].Codec == "hevc" {
			return applied[i]
		}
	}
	return nil
}

// checkTree: the relations of the property on a moov tree (built or decoded).
func checkTree(c *initCase, st *stats, moov *mp4.MoovBox, m *model, what string) *harness.Fail {
	bad := func(area, rel, format string, a ...interface{}) *harness.Fail {
		return harness.Failf("C19|"+area+"|"+rel, what+": "+format, a...)
	}
	n := m.n
	if moov.Mvhd == nil || moov.Mvex == nil {
		return bad("moov", "mvhd or mvex missing", "")
	}
	if len(moov.Traks) != n || (n > 0 && moov.Trak != moov.Traks[0]) {
		return bad("moov", "number of traks differs from number of AddEmptyTrack calls", "%d traks, %d calls", len(moov.Traks), n)
	}
	if len(moov.Mvex.Trexs) != n || (n > 0 && moov.Mvex.Trex != moov.Mvex.Trexs[0]) {
		return bad("mvex", "number of trex boxes differs from number of tracks", "%d trex, %d tracks", len(moov.Mvex.Trexs), n)
	}
	// "one trex per track with the same id": the ORDER of the trex boxes inside mvex is not part of the property
	// (an earlier version of this check demanded trex k to belong to trak k)
	trexOf := map[uint32][]*mp4.TrexBox{}
	for _, tx := range moov.Mvex.Trexs {
		trexOf[tx.TrackID] = append(trexOf[tx.TrackID], tx)
	}
	for k := 0; k < n; k++ {
		op := &c.Ops[k]
		id := uint32(k + 1)
		trak := moov.Traks[k]
		if trak.Tkhd == nil || trak.Mdia == nil || trak.Mdia.Mdhd == nil || trak.Mdia.Hdlr == nil || trak.Mdia.Minf == nil ||
			trak.Mdia.Minf.Stbl == nil || trak.Mdia.Minf.Stbl.Stsd == nil || trak.Mdia.Minf.Dinf == nil || trak.Mdia.Minf.Dinf.Dref == nil {
			return bad("trak", "mandatory box missing", "track %d", id)
		}
		if trak.Tkhd.TrackID != id {
			return bad("tkhd", "track ids are not 1..n in order", "trak %d has track_ID %d", k, trak.Tkhd.TrackID)
		}
		if len(trexOf[id]) != 1 {
			return bad("trex", "trex track id differs from the track id", "%d trex boxes with track_ID %d", len(trexOf[id]), id)
		}
		trex := trexOf[id][0]
		if tx, ok := moov.Mvex.GetTrex(id); !ok || tx != trex {
			return bad("mvex", "GetTrex does not return the track's trex", "track %d", id)
		}
		if moov.Mvhd.NextTrackID <= id {
			return bad("mvhd", "next_track_ID not larger than all track ids", "next_track_ID %d, track %d", moov.Mvhd.NextTrackID, id)
		}
		mdia := trak.Mdia
		if mdia.Mdhd.Timescale != op.Timescale {
			return bad("mdhd", "timescale differs from the one supplied", "track %d: %d, supplied %d", id, mdia.Mdhd.Timescale, op.Timescale)
		}
		// handler and media header
		wantH := handlerFor[op.MediaType]
		gotH := mdia.Hdlr.HandlerType
		skipHandler := op.MediaType == "stpp" && gotH != wantH && c.avoid(st, "stpp-handler-type")
		if op.MediaType == "clcp" && gotH == "subt" {
			wantH = "subt" // the library deliberately files QuickTime closed captions under the subtitle handler
		}
		if gotH != wantH && !skipHandler {
			return bad("hdlr", "handler type does not match the media type", "track %d media type %q: handler %q, want %q", id, op.MediaType, gotH, wantH)
		}
		// ISO/IEC 14496-12 8.4.5.1: "Exactly one specific media header shall be present" - this "exactly one" stays
		wantMH := headerFor(wantH)
		var mhs []string
		for _, ch := range mdia.Minf.Children {
			switch ch.Type() {
			case "vmhd", "smhd", "sthd", "nmhd", "hmhd":
				mhs = append(mhs, ch.Type())
			}
		}
		if len(mhs) != 1 || mhs[0] != wantMH || (mdia.Minf.Vmhd != nil) != (wantMH == "vmhd") || (mdia.Minf.Smhd != nil) != (wantMH == "smhd") || (mdia.Minf.Sthd != nil) != (wantMH == "sthd") {
			return bad("minf", "media header box does not match the handler type", "track %d media type %q handler %q: media header %v, want %s", id, op.MediaType, gotH, mhs, wantMH)
		}
		wantVol := mp4.Fixed16(0)
		if wantH == "soun" {
			wantVol = 0x0100
		}
		if trak.Tkhd.Volume != wantVol {
			return bad("tkhd", "volume does not match the media type", "track %d media type %q: volume %#x, want %#x", id, op.MediaType, trak.Tkhd.Volume, wantVol)
		}
		// language: documented rule of CreateEmptyTrak: 3-letter tag in mdhd and no elng, otherwise "und" + elng with the tag
		if len(op.Lang) == 3 {
			if mdia.Mdhd.Language != packLang(op.Lang) || mdia.Mdhd.GetLanguage() != op.Lang {
				return bad("mdhd", "language differs from the 3-letter tag supplied", "track %d: %#x (%s), supplied %q", id, mdia.Mdhd.Language, mdia.Mdhd.GetLanguage(), op.Lang)
			}
			// an elng box next to a 3-letter mdhd language is legal (14496-12 8.4.6) as long as it says the same
			if mdia.Elng != nil && mdia.Elng.Language != op.Lang {
				return bad("elng", "contradicts the 3-letter tag supplied", "track %d lang %q: elng %q", id, op.Lang, mdia.Elng.Language)
			}
		} else {
			// the statement does not say which 3-letter code mdhd carries for a longer tag ("und" today; the best ISO 639-2
			// match would be as good): any packed three lower-case letters
			if l := mdia.Mdhd.GetLanguage(); len(l) != 3 || l[0] < 'a' || l[0] > 'z' || l[1] < 'a' || l[1] > 'z' || l[2] < 'a' || l[2] > 'z' {
				return bad("mdhd", "language is not a packed 3-letter code", "track %d: %#x (%q), supplied %q", id, mdia.Mdhd.Language, l, op.Lang)
			}
			if mdia.Mdhd.Language == packLang("und") {
				harness.Rec.Class("mdhd-und-for-longer-tag")
			}
			if mdia.Elng == nil || mdia.Elng.Language != op.Lang {
				return bad("elng", "missing or differs from the tag supplied", "track %d lang %q: elng %+v", id, op.Lang, mdia.Elng)
			}
			if mdia.Elng.MissingFullBoxBytes() {
				return bad("elng", "not a full box", "track %d lang %q", id, op.Lang)
			}
		}
		// sample description
		stsd := mdia.Minf.Stbl.Stsd
		if int(stsd.SampleCount) != len(stsd.Children) {
			return bad("stsd", "entry_count differs from the number of sample entries", "track %d: entry_count %d, %d children", id, stsd.SampleCount, len(stsd.Children))
		}
		want, ok := wantedEntries(st, m.applied[k], len(stsd.Children))
		if !ok {
			return bad("stsd", "number of sample entries differs from number of Set*Descriptor calls", "track %d: entry_count %d, %d children after %d calls", id, stsd.SampleCount, len(stsd.Children), len(m.applied[k]))
		}
		// ISO/IEC 14496-12 8.8.3.1: default_sample_description_index is an index into the stsd (1-based); with an empty
		// stsd there is nothing it could point to and any value from 1 is as good as another
		if dsi := trex.DefaultSampleDescriptionIndex; dsi < 1 || (len(want) > 0 && int(dsi) > len(want)) {
			return bad("trex", "default_sample_description_index is not an index into the stsd", "track %d: %d with %d sample entries", id, dsi, len(want))
		}
		for i, d := range want {
			latest := true // the typed pointer of the stsd must be this entry
			for _, later := range want[i+1:] {
				latest = latest && pointerClass(later.Codec) != pointerClass(d.Codec)
			}
			if f := checkEntry(c, st, trak, d, stsd.Children[i], latest, what); f != nil {
				return f
			}
		}
		var w, h uint32
		if v := lastVideo(want); v != nil {
			w, h = v.Width, v.Height
		}
		if uint64(trak.Tkhd.Width) != uint64(w)<<16 || uint64(trak.Tkhd.Height) != uint64(h)<<16 {
			if w == 0 && h == 0 {
				return bad("tkhd", "width/height set without video descriptor", "track %d: %#x x %#x", id, trak.Tkhd.Width, trak.Tkhd.Height)
			}
			return bad("tkhd", "width/height differ from 16.16 of the SPS-derived size", "track %d: %#x x %#x, generator's model %dx%d", id, uint32(trak.Tkhd.Width), uint32(trak.Tkhd.Height), w, h)
		}
	}
	return nil
}

// checkEntry: one sample entry of a track against the arguments of the Set*Descriptor call that made it.
func checkEntry(c *initCase, st *stats, trak *mp4.TrakBox, op *descSpec, entry mp4.Box, latest bool, what string) *harness.Fail {
	id := trak.Tkhd.TrackID
	stsd := trak.Mdia.Minf.Stbl.Stsd
	bad := func(area, rel, format string, a ...interface{}) *harness.Fail {
		return harness.Failf("C19|"+area+"|"+rel, what+fmt.Sprintf(" track %d (%s): ", id, op.Codec)+format, a...)
	}
	var dri uint16
	wantType := map[string]string{"avc": op.SampleEntry, "hevc": op.SampleEntry, "aac": "mp4a", "ac3": "ac-3", "ec3": "ec-3", "wvtt": "wvtt", "stpp": "stpp"}[op.Codec]
	if got := entry.Type(); got != wantType {
		return bad("stsd", "sample entry type differs from the one requested", "%s, want %s", got, wantType)
	}
	switch op.Codec {
	case "avc", "hevc":
		ptr, conf := stsd.AvcX, "avcC"
		if op.Codec == "hevc" {
			ptr, conf = stsd.HvcX, "hvcC"
		}
		vse, ok := entry.(*mp4.VisualSampleEntryBox)
		if !ok || vse == nil || (latest && ptr != vse) {
			return bad("stsd", "sample entry pointer not set", "")
		}
		dri = vse.DataReferenceIndex
		if uint32(vse.Width) != op.Width || uint32(vse.Height) != op.Height {
			return bad("visual sample entry", "width/height differ from the SPS-derived size", "%dx%d, generator's model %dx%d", vse.Width, vse.Height, op.Width, op.Height)
		}
		if why := childRule(boxTypes(vse.Children), conf, "visual"); why != "" {
			return bad("visual sample entry", "child boxes other than the configuration box", "%s", why)
		}
		if op.Codec == "avc" {
			if vse.AvcC == nil {
				return bad("avcC", "missing", "")
			}
			r := &vse.AvcC.DecConfRec
			var ws, wp [][]byte
			if op.IncludePS {
				ws, wp = hexes(op.SPS), hexes(op.PPS)
			}
			if !nalusEqual(r.SPSnalus, ws) || !nalusEqual(r.PPSnalus, wp) {
				return bad("avcC", "parameter sets differ from those supplied", "SPS %x PPS %x, supplied %x %x (includePS %v)", r.SPSnalus, r.PPSnalus, ws, wp, op.IncludePS)
			}
			sps := op.SPS[0]
			if r.AVCProfileIndication != sps[1] || r.ProfileCompatibility != sps[2] || r.AVCLevelIndication != sps[3] {
				return bad("avcC", "profile/compatibility/level differ from the first SPS", "%d/%#x/%d, SPS %d/%#x/%d", r.AVCProfileIndication, r.ProfileCompatibility, r.AVCLevelIndication, sps[1], sps[2], sps[3])
			}
		} else {
			if vse.HvcC == nil {
				return bad("hvcC", "missing", "")
			}
			r := &vse.HvcC.DecConfRec
			var want []rawArray
			if op.IncludePS {
				complete := op.SampleEntry == "hvc1" // documented in SetHEVCDescriptor
				want = []rawArray{{complete, 32, hexes(op.VPS)}, {complete, 33, hexes(op.SPS)}, {complete, 34, hexes(op.PPS)}}
				if len(op.SEI) > 0 {
					want = append(want, rawArray{complete, 39, hexes(op.SEI)})
				}
			}
			if len(r.NaluArrays) != len(want) {
				return bad("hvcC", "parameter sets differ from those supplied", "%d arrays, want %d", len(r.NaluArrays), len(want))
			}
			for i, w := range want {
				a := &r.NaluArrays[i]
				if byte(a.NaluType()) != w.Type || (a.Complete() == 1) != w.Complete || !nalusEqual(a.Nalus, w.Nalus) {
					return bad("hvcC", "parameter sets differ from those supplied", "array %d: type %d complete %d %x, want %+v", i, a.NaluType(), a.Complete(), a.Nalus, w)
				}
			}
			if r.ChromaFormatIDC != op.Chroma || r.BitDepthLumaMinus8 != op.BdLuma || r.BitDepthChromaMinus8 != op.BdChroma || r.GeneralLevelIDC != op.PTL[11] || r.LengthSizeMinusOne != 3 {
				return bad("hvcC", "chroma format / bit depths / level differ from the first SPS", "%+v, model chroma %d depths %d %d level %d", r, op.Chroma, op.BdLuma, op.BdChroma, op.PTL[11])
			}
		}
	case "aac", "ac3", "ec3":
		ptr := map[string]*mp4.AudioSampleEntryBox{"aac": stsd.Mp4a, "ac3": stsd.AC3, "ec3": stsd.EC3}[op.Codec]
		ase, ok := entry.(*mp4.AudioSampleEntryBox)
		if !ok || ase == nil || (latest && ptr != ase) {
			return bad("stsd", "sample entry pointer not set", "")
		}
		dri = ase.DataReferenceIndex
		var wantCh uint16
		var wantRate uint32
		switch op.Codec {
		case "aac":
			asc, cc := refASC(op.AACObjType, op.AACFreq)
			wantCh, wantRate = uint16(cc), uint32(op.AACFreq)
			if ase.Esds == nil || ase.Esds.DecConfigDescriptor == nil || ase.Esds.DecConfigDescriptor.DecSpecificInfo == nil {
				return bad("esds", "decoder specific info missing", "")
			}
			if got := ase.Esds.DecConfigDescriptor.DecSpecificInfo.DecConfig; !bytes.Equal(got, asc) {
				return bad("esds", "AudioSpecificConfig differs from the reference for the supplied object type and frequency", "%x, reference %x (object type %d, %d Hz)", got, asc, op.AACObjType, op.AACFreq)
			}
			if ase.Esds.DecConfigDescriptor.ObjectType != 0x40 || ase.Esds.DecConfigDescriptor.StreamType>>2 != 5 {
				return bad("esds", "objectTypeIndication/streamType not MPEG-4 audio", "%#x %#x", ase.Esds.DecConfigDescriptor.ObjectType, ase.Esds.DecConfigDescriptor.StreamType)
			}
		case "ac3":
			d := op.Dac3
			wantCh, wantRate = acmodChannels[d.ACMod]+uint16(d.LFEOn), ac3Rates[d.FSCod]
			if ase.Dac3 == nil || *ase.Dac3 != (mp4.Dac3Box{FSCod: d.FSCod, BSID: d.BSID, BSMod: d.BSMod, ACMod: d.ACMod, LFEOn: d.LFEOn, BitRateCode: d.BitRateCode}) {
				return bad("dac3", "differs from the box supplied", "%+v, supplied %+v", ase.Dac3, *d)
			}
		case "ec3":
			d := op.Dec3
			wantCh = ec3Channels(d.Subs[0])
			if d.Subs[0].FSCod < 3 {
				wantRate = ac3Rates[d.Subs[0].FSCod]
			}
			if ase.Dec3 == nil {
				return bad("dec3", "missing", "")
			}
			want := libDec3(d)
			if what == "decoded" && want.NumIndSub != ase.Dec3.NumIndSub && c.avoid(st, "dec3-numindsub-not-decoded") {
				want.NumIndSub = ase.Dec3.NumIndSub
			}
			if kp, p, m := treeDiff(reflect.ValueOf(want), reflect.ValueOf(ase.Dec3), nil); m != "" {
				return bad("dec3", "differs from the box supplied at "+kp, "%s: supplied / found = %s", p, m)
			}
		}
		if ase.ChannelCount != wantCh {
			return bad("audio sample entry", "channel count differs from the configuration supplied", "%d, want %d", ase.ChannelCount, wantCh)
		}
		// the 16.16 samplerate field holds rates up to 65535 Hz; above that (and for the E-AC-3 reduced rates that
		// dec3 does not carry) only 0 ("see the codec configuration") is not a false statement
		if wantRate > 65535 {
			wantRate = 0
		}
		if uint32(ase.SampleRate) != wantRate {
			return bad("audio sample entry", "sample rate differs from the configuration supplied", "%d, want %d", ase.SampleRate, wantRate)
		}
		// samplesize: template field of ISO/IEC 14496-12 12.2.3 with default 16, none of the three codecs overrides it
		conf := map[string]string{"aac": "esds", "ac3": "dac3", "ec3": "dec3"}[op.Codec]
		if why := childRule(boxTypes(ase.Children), conf, "audio"); ase.SampleSize != 16 || why != "" {
			return bad("audio sample entry", "sample size not 16 or extra child boxes", "samplesize %d, %s", ase.SampleSize, why)
		}
	case "wvtt":
		w, ok := entry.(*mp4.WvttBox)
		if !ok || w == nil || (latest && stsd.Wvtt != w) {
			return bad("wvtt", "sample entry or vttC missing", "sample entry pointer not set")
		}
		if why := childRule(boxTypes(w.Children), "vttC", "wvtt"); w.VttC == nil || why != "" {
			return bad("wvtt", "sample entry or vttC missing", "%s", why)
		}
		dri = w.DataReferenceIndex
		want := op.VttConfig
		if want == "" {
			want = "WEBVTT" // documented
		}
		if w.VttC.Config != want {
			return bad("vttC", "config differs from the one supplied", "%q, supplied %q", w.VttC.Config, op.VttConfig)
		}
		if dri != 1 && c.avoid(st, "wvtt-data-reference-index-0") {
			dri = 1
		}
	case "stpp":
		s, ok := entry.(*mp4.StppBox)
		if !ok || s == nil || (latest && stsd.Stpp != s) {
			return bad("stpp", "sample entry missing", "")
		}
		dri = s.DataReferenceIndex
		ns := op.StppNS
		if ns == "" {
			ns = "http://www.w3.org/ns/ttml" // the function's default
		}
		if s.Namespace != ns || s.SchemaLocation != op.StppSchema || s.AuxiliaryMimeTypes != op.StppAux || childRule(boxTypes(s.Children), "", "stpp") != "" {
			return bad("stpp", "strings differ from those supplied", "%q %q %q, supplied %q %q %q (%s)", s.Namespace, s.SchemaLocation, s.AuxiliaryMimeTypes, op.StppNS, op.StppSchema, op.StppAux, childRule(boxTypes(s.Children), "", "stpp"))
		}
	}
	// ISO/IEC 14496-12 8.5.2.2: data_reference_index ranges from 1 to the number of data references (dref has one entry)
	if nref := trak.Mdia.Minf.Dinf.Dref.EntryCount; dri < 1 || uint32(dri) > nref {
		return bad("sample entry", "data_reference_index outside 1..number of data references", "%d with %d data reference(s)", dri, nref)
	}
	return nil
}

// checkRaw: the encoded init read by the harness' own reader and a byte-level parse of the sample descriptions.
func checkRaw(c *initCase, st *stats, enc []byte, m *model) *harness.Fail {
	n := m.n
	p, err := fragbuild.Read(enc)
	if err != nil {
		return harness.Failf("C19|independent reader|encoded init not readable", "%v", err)
	}
	bad := func(area, rel, format string, a ...interface{}) *harness.Fail {
		return harness.Failf("C19|encoded "+area+"|"+rel, format, a...)
	}
	if !p.HasMoov || len(p.Tracks) != n || len(p.Trexs) != n {
		return bad("moov", "number of trak/trex boxes differs from number of tracks", "%d trak, %d trex, %d tracks", len(p.Tracks), len(p.Trexs), n)
	}
	walked, _ := boxwalk.WalkAll(enc)
	// mvhd: ISO/IEC 14496-12 8.2.2 has two layouts, version 0 (108 bytes) and version 1 (64-bit times, 120 bytes);
	// next_track_ID is the last field of both. The property does not ask for version 0 (an earlier version of this
	// check did): any of the two, with the size that belongs to the version byte written.
	mv := boxwalk.Path(walked, "moov", "mvhd")
	if mv == nil || mv.End()-mv.PayloadStart() < 4 {
		return bad("mvhd", "not a version 0 mvhd", "mvhd missing or without payload")
	}
	if ver := enc[mv.PayloadStart()]; !(ver == 0 && mv.Size == 108) && !(ver == 1 && mv.Size == 120) {
		return bad("mvhd", "not a version 0 mvhd", "version %d with %d bytes (version 0: 108, version 1: 120)", ver, mv.Size)
	}
	if next := be32(enc[mv.End()-4:]); int64(next) <= int64(n) {
		return bad("mvhd", "next_track_ID not larger than all track ids", "next_track_ID %d, %d tracks", next, n)
	}
	elngs := map[int]string{} // trak index -> elng language
	ti := -1
	for _, b := range boxwalk.Flatten(walked) {
		switch b.Type {
		case "trak":
			ti++
		case "elng":
			pl := enc[b.PayloadStart():b.End()]
			if len(pl) < 5 || be32(pl) != 0 || pl[len(pl)-1] != 0 {
				return bad("elng", "not a full box with a terminated string", "%x", pl)
			}
			elngs[ti] = string(pl[4 : len(pl)-1])
		}
	}
	nTrex := map[uint32]int{}
	for i := range p.Trexs {
		nTrex[p.Trexs[i].TrackID]++
	}
	for k := 0; k < n; k++ {
		op := &c.Ops[k]
		id := uint32(k + 1)
		t := &p.Tracks[k]
		if t.ID != id || nTrex[id] != 1 || t.Trex == nil || t.Trex.TrackID != id {
			return bad("trak/trex", "track ids are not 1..n in order with one trex each", "trak %d: track_ID %d, %d trex boxes with that id", k, t.ID, nTrex[id])
		}
		if t.Timescale != op.Timescale {
			return bad("mdhd", "timescale differs from the one supplied", "track %d: %d, supplied %d", id, t.Timescale, op.Timescale)
		}
		wantH := handlerFor[op.MediaType]
		skipHandler := op.MediaType == "stpp" && t.Handler != wantH && c.avoid(st, "stpp-handler-type")
		if op.MediaType == "clcp" && t.Handler == "subt" {
			wantH = "subt"
		}
		if t.Handler != wantH && !skipHandler {
			return bad("hdlr", "handler type does not match the media type", "track %d media type %q: %q", id, op.MediaType, t.Handler)
		}
		if t.MediaHeader != headerFor(wantH) {
			return bad("minf", "media header box does not match the handler type", "track %d media type %q handler %q: %s", id, op.MediaType, t.Handler, t.MediaHeader)
		}
		// the supplied tag is carried by mdhd (3-letter tags; an elng that says the same may accompany it) or by elng
		// (longer tags; mdhd then holds some packed 3-letter code: the statement does not say which)
		e, ok := elngs[k]
		okLang := false
		if len(op.Lang) == 3 {
			okLang = t.Language == packLang(op.Lang) && (!ok || e == op.Lang)
		} else {
			l := [3]byte{byte(t.Language>>10&31) + 0x60, byte(t.Language>>5&31) + 0x60, byte(t.Language&31) + 0x60}
			okLang = ok && e == op.Lang && t.Language>>15 == 0 && l[0] >= 'a' && l[0] <= 'z' && l[1] >= 'a' && l[1] <= 'z' && l[2] >= 'a' && l[2] <= 'z'
		}
		if !okLang {
			return bad("mdhd/elng", "the encoded init does not carry the language tag supplied", "track %d lang %q: mdhd %#x elng %q (present %v)", id, op.Lang, t.Language, e, ok)
		}
		ents, err := parseStsd(t.StsdRaw)
		if err != nil {
			return bad("stsd", "malformed", "track %d: %v", id, err)
		}
		want, ok := wantedEntries(st, m.applied[k], len(ents))
		if !ok {
			if len(m.applied[k]) == 0 {
				return bad("stsd", "entries without Set*Descriptor call", "track %d: %d entries, tkhd %#x x %#x", id, len(ents), t.Width, t.Height)
			}
			return bad("stsd", "number of sample entries differs from number of Set*Descriptor calls", "track %d: %d after %d calls", id, len(ents), len(m.applied[k]))
		}
		if dsi := t.Trex.DescIdx; dsi < 1 || (len(want) > 0 && int(dsi) > len(want)) {
			return bad("trak/trex", "default_sample_description_index is not an index into the stsd", "track %d: %d with %d sample entries", id, dsi, len(want))
		}
		for i, d := range want {
			if f := checkRawEntry(c, st, &ents[i], t, d); f != nil {
				return f
			}
		}
		var w, h uint32
		if v := lastVideo(want); v != nil {
			w, h = v.Width, v.Height
		}
		if uint64(t.Width) != uint64(w)<<16 || uint64(t.Height) != uint64(h)<<16 {
			return bad("tkhd", "width/height differ from 16.16 of the SPS-derived size", "track %d: %#x x %#x, generator's model %dx%d", id, t.Width, t.Height, w, h)
		}
	}
	return nil
}

func be32(b []byte) uint32 {
	return uint32(b[0])<<24 | uint32(b[1])<<16 | uint32(b[2])<<8 | uint32(b[3])
}

func checkRawEntry(c *initCase, st *stats, e *rawEntry, t *fragbuild.PTrack, op *descSpec) *harness.Fail {
	bad := func(area, rel, format string, a ...interface{}) *harness.Fail {
		return harness.Failf("C19|encoded "+area+"|"+rel, fmt.Sprintf("track %d (%s): ", t.ID, op.Codec)+format, a...)
	}
	dri := e.DataRefIdx
	switch op.Codec {
	case "avc", "hevc":
		if e.Type != op.SampleEntry {
			return bad("stsd", "sample entry type differs from the one requested", "%s", e.Type)
		}
		if uint32(e.Width) != op.Width || uint32(e.Height) != op.Height {
			return bad("visual sample entry", "width/height differ from the SPS-derived size", "entry %dx%d, generator's model %dx%d", e.Width, e.Height, op.Width, op.Height)
		}
		if why := childRule(e.BoxOrder, map[string]string{"avc": "avcC", "hevc": "hvcC"}[op.Codec], "visual"); why != "" {
			return bad("visual sample entry", "child boxes other than the configuration box", "%s", why)
		}
		if op.Codec == "avc" {
			got, ref := e.Boxes["avcC"], refAvcC(hexes(op.SPS), hexes(op.PPS), op.IncludePS)
			// chroma_format / bit depths / numOfSequenceParameterSetExt follow for the High profiles (14496-15 5.3.3.1.2);
			// for which of the other profiles with chroma_format_idc they follow differs between editions: absent or correct
			tail := []byte{0xfc | op.Chroma, 0xf8 | op.BdLuma, 0xf8 | op.BdChroma, 0}
			prof := op.SPS[0][1]
			must := prof == 100 || prof == 110 || prof == 122 || prof == 144
			may := prof != 66 && prof != 77 && prof != 88
			ok := bytes.Equal(got, append(append([]byte{}, ref...), tail...)) && may || bytes.Equal(got, ref) && !must
			if !ok {
				return bad("avcC", "bytes differ from the reference record for the parameter sets supplied", "%x, reference %x [+ %x]", got, ref, tail)
			}
		} else {
			got := e.Boxes["hvcC"]
			arrays, err := parseHvcCArrays(got)
			if err != nil {
				return bad("hvcC", "malformed record", "%v: %x", err, got)
			}
			if got[0] != 1 || !bytes.Equal(got[1:13], op.PTL) || got[16]&3 != op.Chroma || got[17]&7 != op.BdLuma || got[18]&7 != op.BdChroma || got[21]&3 != 3 {
				return bad("hvcC", "profile/tier/level, chroma format or bit depths differ from the first SPS", "%x, model PTL %x chroma %d depths %d %d", got[:23], []byte(op.PTL), op.Chroma, op.BdLuma, op.BdChroma)
			}
			var want []rawArray
			if op.IncludePS {
				cpl := op.SampleEntry == "hvc1"
				want = []rawArray{{cpl, 32, hexes(op.VPS)}, {cpl, 33, hexes(op.SPS)}, {cpl, 34, hexes(op.PPS)}}
				if len(op.SEI) > 0 {
					want = append(want, rawArray{cpl, 39, hexes(op.SEI)})
				}
			}
			if len(arrays) != len(want) {
				return bad("hvcC", "parameter sets differ from those supplied", "%d arrays, want %d", len(arrays), len(want))
			}
			for i, w := range want {
				if a := arrays[i]; a.Type != w.Type || a.Complete != w.Complete || !nalusEqual(a.Nalus, w.Nalus) {
					return bad("hvcC", "parameter sets differ from those supplied", "array %d: %+v, want %+v", i, a, w)
				}
			}
		}
	case "aac", "ac3", "ec3":
		var wantCh uint16
		var wantRate uint32
		wantType := "mp4a"
		switch op.Codec {
		case "aac":
			ref, cc := refASC(op.AACObjType, op.AACFreq)
			wantCh, wantRate = uint16(cc), uint32(op.AACFreq)
			asc, oti, err := ascFromEsds(e.Boxes["esds"])
			if err != nil || oti != 0x40 || !bytes.Equal(asc, ref) {
				return bad("esds", "AudioSpecificConfig differs from the reference for the supplied object type and frequency", "err %v oti %#x asc %x, reference %x", err, oti, asc, ref)
			}
		case "ac3":
			wantType = "ac-3"
			wantCh, wantRate = acmodChannels[op.Dac3.ACMod]+uint16(op.Dac3.LFEOn), ac3Rates[op.Dac3.FSCod]
			if got, ref := e.Boxes["dac3"], refDac3(op.Dac3); !bytes.Equal(got, ref) {
				return bad("dac3", "differs from the box supplied", "%x, reference %x", got, ref)
			}
		case "ec3":
			wantType = "ec-3"
			wantCh = ec3Channels(op.Dec3.Subs[0])
			if op.Dec3.Subs[0].FSCod < 3 {
				wantRate = ac3Rates[op.Dec3.Subs[0].FSCod]
			}
			if got, ref := e.Boxes["dec3"], refDec3(op.Dec3); !bytes.Equal(got, ref) {
				return bad("dec3", "differs from the box supplied", "%x, reference %x", got, ref)
			}
		}
		if wantRate > 65535 {
			wantRate = 0
		}
		conf := map[string]string{"aac": "esds", "ac3": "dac3", "ec3": "dec3"}[op.Codec]
		if e.Type != wantType || e.Channels != wantCh || e.SampleRate != wantRate<<16 || e.SampleSize != 16 || childRule(e.BoxOrder, conf, "audio") != "" {
			return bad("audio sample entry", "type, channel count or sample rate differ from the configuration supplied", "%s channels %d rate %#x size %d children %v, want %s %d %d", e.Type, e.Channels, e.SampleRate, e.SampleSize, e.BoxOrder, wantType, wantCh, wantRate)
		}
	case "wvtt":
		want := op.VttConfig
		if want == "" {
			want = "WEBVTT"
		}
		if e.Type != "wvtt" || string(e.Boxes["vttC"]) != want || childRule(e.BoxOrder, "vttC", "wvtt") != "" {
			return bad("wvtt", "config differs from the one supplied", "%s %q %v", e.Type, e.Boxes["vttC"], e.BoxOrder)
		}
		if dri != 1 && c.avoid(st, "wvtt-data-reference-index-0") {
			dri = 1
		}
	case "stpp":
		ns := op.StppNS
		if ns == "" {
			ns = "http://www.w3.org/ns/ttml"
		}
		if e.Type != "stpp" || len(e.Strings) != 3 || e.Strings[0] != ns || e.Strings[1] != op.StppSchema || e.Strings[2] != op.StppAux || childRule(e.BoxOrder, "", "stpp") != "" {
			return bad("stpp", "strings differ from those supplied", "%s %q", e.Type, e.Strings)
		}
	}
	if dri != 1 {
		return bad("sample entry", "data_reference_index outside 1..number of data references", "%d", dri)
	}
	return nil
}

// ---------------------------------------------------------------------------------------------
// fragments

func fullSample(s *sampleSpec) mp4.FullSample {
	return mp4.FullSample{Sample: mp4.Sample{Flags: s.Flags, Dur: s.Dur, Size: uint32(len(s.Data)), CompositionTimeOffset: s.Cto},
		DecodeTime: s.DecodeTime, Data: append([]byte{}, s.Data...)}
}

func checkFragments(c *initCase, init *mp4.InitSegment) *harness.Fail {
	n := len(c.Ops)
	var buf bytes.Buffer
	if err := init.Encode(&buf); err != nil {
		return harness.Failf("C19|InitSegment.Encode|error", "%v", err)
	}
	single, err := mp4.CreateFragment(c.SeqNr, uint32(c.SingleIdx+1))
	if err != nil {
		return harness.Failf("C19|CreateFragment|error", "%v", err)
	}
	single.AddFullSample(fullSample(&c.Ops[c.SingleIdx].Sample))
	ids := make([]uint32, n)
	for k := range ids {
		ids[k] = uint32(k + 1)
	}
	multi, err := mp4.CreateMultiTrackFragment(c.SeqNr+1, ids)
	if err != nil {
		return harness.Failf("C19|CreateMultiTrackFragment|error", "%v", err)
	}
	for k := range c.Ops {
		if err := multi.AddFullSampleToTrack(fullSample(&c.Ops[k].Sample), ids[k]); err != nil {
			return harness.Failf("C19|AddFullSampleToTrack|error for a track of the init", "track %d: %v", ids[k], err)
		}
	}
	for i, fr := range []*mp4.Fragment{single, multi} {
		before := buf.Len()
		if err := fr.Encode(&buf); err != nil {
			return harness.Failf("C19|Fragment.Encode|error", "fragment %d: %v", i, err)
		}
		if fr.Size() != uint64(buf.Len()-before) {
			return harness.Failf("C19|Fragment.Size|differs from encoded length", "fragment %d: Size %d, encoded %d", i, fr.Size(), buf.Len()-before)
		}
	}
	file, err := mp4.DecodeFile(bytes.NewReader(buf.Bytes()))
	if err != nil {
		return harness.Failf("C19|DecodeFile|error on init + fragments", "%v", err)
	}
	var frags []*mp4.Fragment
	for _, s := range file.Segments {
		frags = append(frags, s.Fragments...)
	}
	if file.Init == nil || !file.IsFragmented() || len(frags) != 2 {
		return harness.Failf("C19|DecodeFile|init + 2 fragments not recognised", "init %v fragmented %v fragments %d", file.Init != nil, file.IsFragmented(), len(frags))
	}
	for k := range c.Ops {
		trex, ok := file.Init.Moov.Mvex.GetTrex(ids[k])
		if !ok {
			return harness.Failf("C19|mvex|GetTrex does not return the track's trex", "decoded, track %d", ids[k])
		}
		for i, fr := range frags {
			got, err := fr.GetFullSamples(trex)
			if err != nil {
				return harness.Failf("C19|Fragment.GetFullSamples|error", "fragment %d track %d: %v", i, ids[k], err)
			}
			if i == 0 && k != c.SingleIdx {
				if len(got) != 0 {
					return harness.Failf("C19|Fragment.GetFullSamples|samples for a track that is not in the fragment", "track %d: %d", ids[k], len(got))
				}
				continue
			}
			want := fullSample(&c.Ops[k].Sample)
			if len(got) != 1 || got[0].Sample != want.Sample || got[0].DecodeTime != want.DecodeTime || !bytes.Equal(got[0].Data, want.Data) {
				return harness.Failf("C19|Fragment.GetFullSamples|samples differ from those added", "fragment %d track %d: got %+v, added %+v", i, ids[k], got, want)
			}
		}
	}
	// the harness' own reader on the same bytes
	p, err := fragbuild.Read(buf.Bytes())
	if err != nil {
		return harness.Failf("C19|independent reader|init + fragments not readable", "%v", err)
	}
	for k := range c.Ops {
		got := p.TrackSamples(ids[k])
		want := []*sampleSpec{&c.Ops[k].Sample}
		if k == c.SingleIdx {
			want = append(want, want[0])
		}
		if len(got) != len(want) {
			return harness.Failf("C19|encoded fragments|number of samples differs from those added", "track %d: %d, want %d", ids[k], len(got), len(want))
		}
		for i, w := range want {
			if g := got[i]; g.Dur != w.Dur || g.Flags != w.Flags || g.Cto != int64(w.Cto) || g.DecodeTime != w.DecodeTime || !bytes.Equal(g.Data, w.Data) {
				return harness.Failf("C19|encoded fragments|samples differ from those added", "track %d sample %d: %+v, added %+v", ids[k], i, g, *w)
			}
		}
	}
	return nil
}

// checkFragPlan interprets the fragment-building history of the case: fragments are created for track ids of the
// init (CreateFragment / CreateMultiTrackFragment), attached to media segments (NewMediaSegment[WithoutStyp] +
// AddFragment) and filled with samples (AddFullSample / AddFullSampleToTrack) in the drawn interleaved order; then
// everything is encoded behind the init, decoded, and every fragment must give back, for every track of the init,
// exactly the samples that were added for it (GetFullSamples with the track's trex, and the harness' own reader).
func checkFragPlan(c *initCase, st *stats, init *mp4.InitSegment) *harness.Fail {
	p := c.Frags
	n := len(c.Ops)
	nf := len(p.Frags)
	if nf == 0 {
		return harness.Failf("harness|c19|bad-case", "fragment plan without fragments")
	}
	for i, f := range p.Frags {
		seen := map[int]bool{}
		for _, k := range f.Tracks {
			if k < 0 || k >= n || seen[k] {
				return harness.Failf("harness|c19|bad-case", "fragment %d: tracks %v", i, f.Tracks)
			}
			seen[k] = true
		}
		if len(f.Tracks) == 0 || (len(f.Tracks) > 1 && !f.Multi) {
			return harness.Failf("harness|c19|bad-case", "fragment %d: %d tracks, multi %v", i, len(f.Tracks), f.Multi)
		}
	}
	type key struct{ f, k int }
	frags := make([]*mp4.Fragment, nf)
	attached := make([]bool, nf)
	added := map[key][]*sampleSpec{} // samples per (fragment, track) in call order
	nAdded := make([]int, nf)
	var segs []*mp4.MediaSegment
	var fileOrder []int // fragment indices in the order they will appear in the file
	for i, s := range p.Steps {
		badStep := func() *harness.Fail {
			return harness.Failf("harness|c19|bad-case", "fragment history step %d (%+v) is not a valid call", i, s)
		}
		if s.Op != "seg" && (s.Frag < 0 || s.Frag >= nf) {
			return badStep()
		}
		switch s.Op {
		case "seg":
			if p.Loose {
				return badStep()
			}
			if p.Styp {
				segs = append(segs, mp4.NewMediaSegment())
			} else {
				segs = append(segs, mp4.NewMediaSegmentWithoutStyp())
			}
		case "frag":
			if frags[s.Frag] != nil {
				return badStep()
			}
			spec := &p.Frags[s.Frag]
			var err error
			if spec.Multi {
				ids := make([]uint32, len(spec.Tracks))
				for j, k := range spec.Tracks {
					ids[j] = uint32(k + 1)
				}
				frags[s.Frag], err = mp4.CreateMultiTrackFragment(c.SeqNr+uint32(s.Frag), ids)
			} else {
				frags[s.Frag], err = mp4.CreateFragment(c.SeqNr+uint32(s.Frag), uint32(spec.Tracks[0]+1))
			}
			if err != nil || frags[s.Frag] == nil {
				return harness.Failf("C19|CreateFragment|error", "fragment %d (%+v): %v", s.Frag, *spec, err)
			}
			if p.Loose {
				fileOrder = append(fileOrder, s.Frag)
			}
		case "attach":
			if p.Loose || frags[s.Frag] == nil || attached[s.Frag] || len(segs) == 0 {
				return badStep()
			}
			segs[len(segs)-1].AddFragment(frags[s.Frag])
			attached[s.Frag] = true
		case "sample":
			spec := &p.Frags[s.Frag]
			inFrag := false
			for _, k := range spec.Tracks {
				inFrag = inFrag || k == s.Track
			}
			if frags[s.Frag] == nil || !inFrag || s.Sample == nil || len(s.Sample.Data) == 0 || (spec.Multi && !s.ToTrack) {
				return badStep()
			}
			if s.ToTrack {
				if err := frags[s.Frag].AddFullSampleToTrack(fullSample(s.Sample), uint32(s.Track+1)); err != nil {
					return harness.Failf("C19|AddFullSampleToTrack|error for a track of the init", "fragment %d track %d: %v", s.Frag, s.Track+1, err)
				}
			} else {
				frags[s.Frag].AddFullSample(fullSample(s.Sample))
			}
			added[key{s.Frag, s.Track}] = append(added[key{s.Frag, s.Track}], s.Sample)
			nAdded[s.Frag]++
		default:
			return badStep()
		}
	}
	for i := range frags {
		if frags[i] == nil || nAdded[i] == 0 || (!p.Loose && !attached[i]) {
			return harness.Failf("harness|c19|bad-case", "fragment %d not created, empty or not attached", i)
		}
	}
	var buf bytes.Buffer
	if err := init.Encode(&buf); err != nil {
		return harness.Failf("C19|InitSegment.Encode|error", "%v", err)
	}
	var segSizes []int // fragments per segment, segments without fragments write nothing but their styp
	if p.Loose {
		for _, fi := range fileOrder {
			before := buf.Len()
			if err := frags[fi].Encode(&buf); err != nil {
				return harness.Failf("C19|Fragment.Encode|error", "fragment %d: %v", fi, err)
			}
			if frags[fi].Size() != uint64(buf.Len()-before) {
				return harness.Failf("C19|Fragment.Size|differs from encoded length", "fragment %d: Size %d, encoded %d", fi, frags[fi].Size(), buf.Len()-before)
			}
		}
	} else {
		for si, seg := range segs {
			before := buf.Len()
			if err := seg.Encode(&buf); err != nil {
				return harness.Failf("C19|MediaSegment.Encode|error", "segment %d: %v", si, err)
			}
			if seg.Size() != uint64(buf.Len()-before) {
				return harness.Failf("C19|MediaSegment.Size|differs from encoded length", "segment %d: Size %d, encoded %d", si, seg.Size(), buf.Len()-before)
			}
			segSizes = append(segSizes, len(seg.Fragments))
			for _, fr := range seg.Fragments {
				for fi := range frags {
					if frags[fi] == fr {
						fileOrder = append(fileOrder, fi)
					}
				}
			}
		}
	}
	if len(fileOrder) != nf {
		return harness.Failf("C19|MediaSegment.AddFragment|segments do not hold the fragments attached", "%d of %d", len(fileOrder), nf)
	}
	// expected samples of a (fragment, track): as added; the decode time of the first one is the base media decode
	// time of the track fragment, the following ones continue from it by the durations
	expect := func(fi, k int) []mp4.FullSample {
		var out []mp4.FullSample
		var t uint64
		for j, s := range added[key{fi, k}] {
			fs := fullSample(s)
			if j == 0 {
				t = s.DecodeTime
			}
			fs.DecodeTime = t
			t += uint64(s.Dur)
			out = append(out, fs)
		}
		return out
	}
	file, err := mp4.DecodeFile(bytes.NewReader(buf.Bytes()))
	if err != nil {
		return harness.Failf("C19|DecodeFile|error on init + fragments", "%v", err)
	}
	var got []*mp4.Fragment
	for _, s := range file.Segments {
		got = append(got, s.Fragments...)
	}
	if file.Init == nil || !file.IsFragmented() || len(got) != nf {
		return harness.Failf("C19|DecodeFile|init + fragments not recognised", "init %v fragmented %v fragments %d, written %d", file.Init != nil, file.IsFragmented(), len(got), nf)
	}
	if !p.Loose && p.Styp {
		// every media segment starts with its styp box: the decoded file must show the same grouping
		if len(file.Segments) != len(segSizes) {
			return harness.Failf("C19|DecodeFile|media segments differ from those written", "%d segments, written %d", len(file.Segments), len(segSizes))
		}
		for si, s := range file.Segments {
			if s.Styp == nil || len(s.Fragments) != segSizes[si] {
				return harness.Failf("C19|DecodeFile|media segments differ from those written", "segment %d: styp %v, %d fragments, written %d", si, s.Styp != nil, len(s.Fragments), segSizes[si])
			}
		}
	}
	for pos, fi := range fileOrder {
		fr := got[pos]
		if fr.Moof == nil || fr.Moof.Mfhd == nil || fr.Moof.Mfhd.SequenceNumber != c.SeqNr+uint32(fi) {
			return harness.Failf("C19|DecodeFile|fragment sequence number differs from the one supplied", "fragment at position %d: want %d", pos, c.SeqNr+uint32(fi))
		}
		for k := 0; k < n; k++ {
			trex, ok := file.Init.Moov.Mvex.GetTrex(uint32(k + 1))
			if !ok {
				return harness.Failf("C19|mvex|GetTrex does not return the track's trex", "decoded, track %d", k+1)
			}
			gs, err := fr.GetFullSamples(trex)
			if err != nil {
				return harness.Failf("C19|Fragment.GetFullSamples|error", "fragment %d track %d: %v", fi, k+1, err)
			}
			want := expect(fi, k)
			if len(gs) != len(want) {
				if len(want) == 0 {
					return harness.Failf("C19|Fragment.GetFullSamples|samples for a track that is not in the fragment", "fragment %d track %d: %d", fi, k+1, len(gs))
				}
				return harness.Failf("C19|Fragment.GetFullSamples|samples differ from those added", "fragment %d track %d: %d samples, added %d", fi, k+1, len(gs), len(want))
			}
			for j := range want {
				if gs[j].Sample != want[j].Sample || gs[j].DecodeTime != want[j].DecodeTime || !bytes.Equal(gs[j].Data, want[j].Data) {
					return harness.Failf("C19|Fragment.GetFullSamples|samples differ from those added", "fragment %d track %d sample %d: got %+v, added %+v", fi, k+1, j, gs[j], want[j])
				}
			}
		}
	}
	// the harness' own reader on the same bytes
	pr, err := fragbuild.Read(buf.Bytes())
	if err != nil {
		return harness.Failf("C19|independent reader|init + fragments not readable", "%v", err)
	}
	if len(pr.Moofs) != nf {
		return harness.Failf("C19|encoded fragments|number of moof boxes differs from the fragments written", "%d, written %d", len(pr.Moofs), nf)
	}
	for pos, fi := range fileOrder {
		mo := &pr.Moofs[pos]
		if mo.Seq != c.SeqNr+uint32(fi) {
			return harness.Failf("C19|encoded fragments|sequence number differs from the one supplied", "moof %d: %d, want %d", pos, mo.Seq, c.SeqNr+uint32(fi))
		}
		for k := 0; k < n; k++ {
			gs, want := mo.TrackSamples(uint32(k+1)), expect(fi, k)
			if len(gs) != len(want) {
				return harness.Failf("C19|encoded fragments|number of samples differs from those added", "fragment %d track %d: %d, want %d", fi, k+1, len(gs), len(want))
			}
			for j, w := range want {
				if g := gs[j]; g.Dur != w.Dur || g.Flags != w.Flags || g.Cto != int64(w.CompositionTimeOffset) || g.DecodeTime != w.DecodeTime || !bytes.Equal(g.Data, w.Data) {
					return harness.Failf("C19|encoded fragments|samples differ from those added", "fragment %d track %d sample %d: %+v, added %+v", fi, k+1, j, g, w)
				}
			}
		}
	}
	if !p.Loose && p.Styp && len(pr.Styps) != len(segs) {
		return harness.Failf("C19|encoded fragments|number of styp boxes differs from the media segments written", "%d, written %d", len(pr.Styps), len(segs))
	}
	return nil
}

// ---------------------------------------------------------------------------------------------
// the property

func classify(c *initCase) (bool, []string) {
	cl := []string{fmt.Sprintf("tracks-%d", len(c.Ops))}
	nt := len(c.Ops) >= 2
	seen := map[string]bool{}
	add := func(s string) {
		if !seen[s] {
			seen[s] = true
			cl = append(cl, s)
		}
	}
	desc := func(op *descSpec) {
		add("codec-" + op.Codec)
		switch op.Codec {
		case "avc", "hevc":
			add(fmt.Sprintf("entry-%s-ps%v", op.SampleEntry, op.IncludePS))
			add(fmt.Sprintf("%s-nsps%d-npps%d", op.Codec, len(op.SPS), len(op.PPS)))
			if op.Codec == "hevc" {
				add(fmt.Sprintf("hevc-nvps%d", len(op.VPS)))
				if len(op.SEI) > 0 {
					add("hevc-sei-array")
				}
			}
			if op.Width%8 != 0 || op.Height%8 != 0 {
				add(op.Codec + "-cropped-size-not-multiple-of-8")
			}
			if op.Width%2 != 0 || op.Height%2 != 0 {
				add(op.Codec + "-cropped-size-odd")
			}
			if op.Width > 4096 || op.Height > 4096 {
				add(op.Codec + "-size-above-4096")
			}
			if len(op.SPS[0]) > 64 {
				add(op.Codec + "-sps-longer-than-64-bytes")
			}
		case "aac":
			add(fmt.Sprintf("aac-objtype-%d", op.AACObjType))
			add(fmt.Sprintf("aac-freq-%d", op.AACFreq))
		case "ec3":
			add(fmt.Sprintf("ec3-substreams-%d", len(op.Dec3.Subs)))
			if op.Dec3.Subs[0].NumDepSub > 0 {
				add("ec3-dependent-substreams")
			}
		case "stpp":
			if op.StppNS == "" {
				add("stpp-default-namespace")
			}
			if op.StppSchema != "" || op.StppAux != "" {
				add("stpp-optional-strings")
			}
		case "wvtt":
			if op.VttConfig == "" {
				add("wvtt-default-config")
			}
		}
	}
	for i := range c.Ops {
		op := &c.Ops[i]
		add("mediatype-" + op.MediaType)
		add(langShape(op.Lang))
		if len(op.Lang) != 3 {
			nt = true
		}
		desc(&op.descSpec)
	}
	// the init-building history
	if len(c.Order) == 0 {
		add("history-canonical-order")
	} else {
		nt = true
		added := 0
		sets := make([][]step, len(c.Ops))
		addsSince := make([]int, len(c.Ops)) // AddEmptyTrack calls between the track's own and its first Set call
		for _, s := range c.Order {
			if s.Op == "add" {
				for k := 0; k < added; k++ {
					if len(sets[k]) == 0 {
						addsSince[k]++
					}
				}
				added++
				continue
			}
			if len(sets[s.Track]) == 0 && addsSince[s.Track] > 0 {
				add("history-set-after-later-tracks-were-added")
				if addsSince[s.Track] >= 3 {
					add("history-set-after-3-or-more-later-adds")
				}
			}
			if s.Track != added-1 {
				add("history-set-on-earlier-track")
			}
			sets[s.Track] = append(sets[s.Track], s)
			if s.Alt {
				desc(c.Ops[s.Track].Alt)
			}
		}
		allAddsFirst := true
		for i, s := range c.Order {
			allAddsFirst = allAddsFirst && (s.Op == "add") == (i < len(c.Ops))
		}
		if allAddsFirst && len(c.Ops) > 1 {
			add("history-all-tracks-added-before-first-set")
		}
		for k, ss := range sets {
			op := &c.Ops[k]
			switch {
			case len(ss) == 0 && op.Codec != "none":
				add("history-track-never-described")
			case len(ss) >= 2:
				add("history-set-twice")
				a, b := &op.descSpec, &op.descSpec
				if ss[0].Alt {
					a = op.Alt
				}
				if ss[1].Alt {
					b = op.Alt
				}
				switch {
				case ss[0].Alt == ss[1].Alt:
					add("history-set-twice-same-arguments")
				case a.Codec != b.Codec:
					add("history-set-twice-other-codec")
				default:
					add("history-set-twice-same-codec-other-arguments")
				}
				if (a.Codec == "avc" || a.Codec == "hevc") && (a.Width != b.Width || a.Height != b.Height) {
					add("history-set-twice-other-picture-size")
				}
			case len(ss) == 1 && ss[0].Alt:
				add("history-only-second-descriptor-set")
			}
		}
	}
	// the fragment-building history
	if p := c.Frags; p == nil {
		add("frags-fixed-history")
	} else {
		nt = true
		add(fmt.Sprintf("frags-%d", len(p.Frags)))
		nseg := 0
		var createOrder, attachOrder []int
		type key struct{ f, k int }
		last := map[int]int{} // fragment -> track of the latest sample added to it
		runs := map[key]int{} // (fragment, track) -> number of runs its samples form
		perFrag := map[int]int{}
		attachedAt := map[int]bool{}
		for _, s := range p.Steps {
			switch s.Op {
			case "seg":
				nseg++
			case "frag":
				createOrder = append(createOrder, s.Frag)
			case "attach":
				attachOrder = append(attachOrder, s.Frag)
				attachedAt[s.Frag] = true
				if perFrag[s.Frag] == 0 {
					add("frag-attached-before-first-sample")
				}
			case "sample":
				if t, ok := last[s.Frag]; !ok || t != s.Track {
					runs[key{s.Frag, s.Track}]++
				}
				last[s.Frag] = s.Track
				perFrag[s.Frag]++
				if attachedAt[s.Frag] {
					add("frag-sample-added-after-attach")
				}
				if !p.Frags[s.Frag].Multi {
					add(fmt.Sprintf("frag-single-track-totrack-%v", s.ToTrack))
				}
			}
		}
		if p.Loose {
			add("frags-loose")
		} else {
			add(fmt.Sprintf("frags-segments-%d-styp-%v", nseg, p.Styp))
			for i := range attachOrder {
				if i < len(createOrder) && attachOrder[i] != createOrder[i] {
					add("frag-attach-order-differs-from-creation-order")
				}
			}
		}
		for i := 1; i < len(createOrder); i++ {
			if createOrder[i] < createOrder[i-1] {
				add("frag-created-out-of-sequence-number-order")
			}
		}
		for i, f := range p.Frags {
			if f.Multi {
				add(fmt.Sprintf("frag-multitrack-%d-tracks", len(f.Tracks)))
				for _, k := range f.Tracks {
					if runs[key{i, k}] == 0 {
						add("frag-multitrack-track-without-samples")
					}
				}
			} else {
				add("frag-singletrack")
			}
			if perFrag[i] >= 3 {
				add("frag-3-or-more-samples")
			}
		}
		for _, r := range runs {
			if r > 1 {
				add("frag-several-truns-for-one-track")
			}
		}
		// samples of different fragments added alternately
		prev, switches := -1, 0
		for _, s := range p.Steps {
			if s.Op == "sample" {
				if prev >= 0 && prev != s.Frag {
					switches++
				}
				prev = s.Frag
			}
		}
		if switches >= len(p.Frags) && len(p.Frags) > 1 {
			add("frag-samples-interleaved-across-fragments")
		}
	}
	return nt, cl
}

func TestInitHistories(t *testing.T) {
	harness.RunRapid(t, "inithistory", func(rt *rapid.T) {
		c, genClasses := genCase(rt)
		raw, _ := json.Marshal(c)
		nt, cl := classify(&c)
		seen := map[string]bool{}
		for _, l := range cl {
			seen[l] = true
		}
		for _, l := range genClasses { // labels of the parameter-set trees (esgen), once per case
			if !seen[l] {
				seen[l] = true
				cl = append(cl, l)
			}
		}
		harness.Rec.Case(nt, raw, cl...)
		if nt && harness.Rec.WantSample() && len(raw) < 6000 {
			harness.Rec.Sample(map[string]interface{}{"kind": "inithistory", "case": c})
		}
		var st stats
		f := harness.Guarded(func() *harness.Fail { return evalInit(&c, &st) })
		names := make([]string, 0, len(st.skipped))
		for name := range st.skipped {
			names = append(names, name)
		}
		sort.Strings(names)
		for _, name := range names {
			harness.Rec.Exclude(name)
			harness.Rec.ClassN("skipped-relations:"+name, st.skipped[name])
		}
		names = names[:0]
		for name := range st.observed {
			names = append(names, name)
		}
		sort.Strings(names)
		for _, name := range names {
			harness.Rec.Class("observed:" + name)
		}
		// one case in 16: the JSON form of the case gives the same verdict (replay files reproduce what was seen)
		if harness.Hash(raw)%16 == 0 {
			f2 := harness.Replayer(checkInit)(raw)
			if (f == nil) != (f2 == nil) || (f != nil && f.Key != f2.Key) {
				rt.Fatalf("harness|replay-inconsistent: direct verdict %v, verdict on the JSON round trip %v", f, f2)
			}
		}
		harness.Report(rt, "inithistory", c, f)
	})
}
