package c01

import (
	"os"
	"testing"

	"pgregory.net/rapid"

	"verif/internal/boxgen"
	"verif/internal/boxmut"
	"verif/internal/boxprop"
	"verif/internal/harness"
)

// TestShortPayloadDev: every grammar type, a few instances, payload cut to 0..24 bytes. Development aid (VERIF_C01_SHORT=1).
func TestShortPayloadDev(t *testing.T) {
	if os.Getenv("VERIF_C01_SHORT") == "" {
		t.Skip("development aid")
	}
	types, _, _ := sweepTypes()
	n, bad := 0, map[string]bool{}
	for _, typ := range types {
		typ := typ
		gen := rapid.Custom(func(rt *rapid.T) []byte { return boxgen.Box(rt, typ, boxgen.Opt{}) })
		for i := 0; i < 6; i++ {
			base := gen.Example(i)
			for keep := 0; keep <= 24; keep++ {
				for _, path := range []string{"reader", "sr"} {
					c := boxprop.Case{Box: -1, Level: "box", Path: path, Synth: base, Origin: "box:" + typ,
						Muts: []boxmut.Mut{{Op: "shrink", Box: 0, Off: keep}}}
					f := harness.Guarded(func() *harness.Fail { return checkRoundTrip(c) })
					n++
					if f != nil && !bad[f.Key] {
						bad[f.Key] = true
						t.Logf("%s keep=%d %s: %s\n%s\n%x", typ, keep, path, f.Key, f.Msg, c.Bytes())
					}
				}
			}
		}
	}
	t.Logf("%d cases, %d distinct failure keys", n, len(bad))
}
