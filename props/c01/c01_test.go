// C01 — decode then encode is lossless outside reserved fields, and a fixed point.
package c01

import (
	"bytes"
	"encoding/json"
	"fmt"
	"regexp"
	"strings"
	"testing"

	"pgregory.net/rapid"

	"verif/internal/boxprop"
	"verif/internal/boxwalk"
	"verif/internal/harness"
)

func TestMain(m *testing.M) { harness.Main(m) }

func init() { harness.RegisterReplay("roundtrip", harness.Replayer(checkRoundTrip)) }

func TestReplay(t *testing.T) { harness.ReplayPath(t) }

type outcome struct {
	accepted bool
	stats    boxprop.CmpStats
	types    []string
}

var last outcome

func encode(d boxprop.Decoded, path string) ([]byte, error) {
	if path == "sr" {
		return boxprop.EncodeSW(d, true, false, -1)
	}
	return boxprop.EncodeW(d, true, false)
}

func checkRoundTrip(c boxprop.Case) *harness.Fail {
	last = outcome{}
	in := c.Bytes()
	if len(in) == 0 {
		return nil
	}
	d1, err := boxprop.Decode(in, c.Level, c.Path)
	if err != nil || d1.Nil() {
		return nil // rejected: no claim
	}
	last.accepted = true
	out1, err := encode(d1, c.Path)
	if err != nil {
		return harness.Failf("C01|encode|error after successful decode: "+errClass(err), "%v (top-level box %q)", err, topType(in))
	}
	if d := boxprop.CompareRoundTrip(in, out1, c.Pristine(), &last.stats); d != nil {
		return harness.Failf(d.Key, "%s", d.Msg)
	}
	// (2) decoding the output again succeeds and yields an equal structure
	d1b, err := boxprop.Decode(in, c.Level, c.Path) // fresh decode of the input (encoding must not have changed d1, but do not rely on it)
	if err != nil {
		return harness.Failf("C01|decode|second decode of the same input fails", "%v", err)
	}
	d2, err := boxprop.Decode(out1, c.Level, c.Path)
	if err != nil || d2.Nil() {
		if err != nil && strings.Contains(err.Error(), "offset from saio") && sencMoved(in, out1) {
			// a box in front of the senc data shrank (64-bit size header written compactly, surplus bytes dropped)
			// and the absolute saio offset, which the library never recomputes outside EncryptFragment, went stale
			return harness.Failf("C01|moof|saio offset stale after a size normalisation in front of senc: output rejected", "%v\n out %s", err, harness.HexTrunc(out1, 200))
		}
		ec := "no structure"
		if err != nil {
			ec = errClass(err)
		}
		return harness.Failf("C01|re-encode|output is rejected by the decoder: "+ec, "%v (top-level box %q)\n out %s", err, topType(in), harness.HexTrunc(out1, 200))
	}
	// positions are compared only when the output is byte-identical to the input (any normalisation,
	// e.g. moov re-ordering or a dropped surplus, moves the boxes that follow)
	opt := boxprop.EqOpt{IgnorePositions: !bytes.Equal(out1, in)}
	var diff string
	if c.Level == "file" && opt.IgnorePositions {
		// the grouping into segments can depend on absolute positions (sidx anchors, tfra offsets), which
		// move when a normalisation changed lengths or order: compare the box trees only
		diff = boxprop.DeepDiff(d1b.File.Children, d2.File.Children, opt)
	} else if c.Level == "file" {
		diff = boxprop.DeepDiff(d1b.File, d2.File, opt)
	} else {
		diff = boxprop.DeepDiff(d1b.Box, d2.Box, opt)
	}
	if diff != "" {
		return harness.Failf("C01|"+topType(in)+"|decoded structure of the output differs from the decoded input", "%s", diff)
	}
	// (3) fixed point
	out2, err := encode(d2, c.Path)
	if err != nil {
		return harness.Failf("C01|"+topType(in)+"|encode error on the second round", "%v", err)
	}
	if !bytes.Equal(out1, out2) {
		return harness.Failf("C01|"+topType(in)+"|second re-encoding differs from the first (no fixed point)", "len %d vs %d", len(out1), len(out2))
	}
	tree, _ := boxwalk.WalkAll(in)
	for _, b := range boxwalk.Flatten(tree) {
		last.types = append(last.types, b.Type)
	}
	return nil
}

func topType(in []byte) string {
	if len(in) >= 8 {
		out := []byte(in[4:8])
		for i, b := range out {
			if b < 0x20 || b > 0x7e {
				out[i] = '?'
			}
		}
		return string(out)
	}
	return "?"
}

var digits = regexp.MustCompile(`[0-9]+`)

// sencMoved reports whether some senc box lies at another distance from the start of its moof in the output than
// in the input: a box in front of it was re-encoded with another length (64-bit size header written compactly,
// surplus bytes of a non-pristine box dropped), which is what makes an absolute saio offset go stale.
func sencMoved(in, out []byte) bool {
	dist := func(data []byte) []int {
		tree, _ := boxwalk.WalkAll(data)
		var d []int
		for _, b := range boxwalk.Flatten(tree) {
			if b.Type != "moof" {
				continue
			}
			for _, s := range boxwalk.Flatten([]*boxwalk.Box{b}) {
				if s.Type == "senc" || s.Type == "uuid" {
					d = append(d, s.PayloadStart()-b.Start)
				}
			}
		}
		return d
	}
	a, b := dist(in), dist(out)
	if len(a) != len(b) {
		return true
	}
	for i := range a {
		if a[i] != b[i] {
			return true
		}
	}
	return false
}

func errClass(err error) string {
	s := err.Error()
	if i := strings.LastIndex(s, ": "); i >= 0 {
		s = s[i+2:]
	}
	return digits.ReplaceAllString(s, "N")
}

func run(t *testing.T, name string, cfg boxprop.GenConfig) {
	harness.RunRapid(t, name, func(rt *rapid.T) {
		c := boxprop.Gen(rt, cfg)
		raw, _ := json.Marshal(c)
		f := harness.Guarded(func() *harness.Fail { return checkRoundTrip(c) })
		cls := []string{"level-" + c.Level, "path-" + c.Path}
		if c.Synth != nil {
			cls = append(cls, "synth", "synth-"+c.Origin)
		}
		if last.accepted {
			cls = append(cls, "accepted")
			if c.Pristine() {
				cls = append(cls, "accepted-pristine")
			} else {
				cls = append(cls, "accepted-mutated")
			}
		} else {
			cls = append(cls, "rejected")
		}
		if last.stats.Surplus > 0 {
			cls = append(cls, "c01-surplus-dropped")
		}
		if last.stats.LargeToSmall > 0 {
			cls = append(cls, "c01-largesize-normalised")
		}
		if last.stats.MoovReorder > 0 {
			cls = append(cls, "c01-moov-reordered")
		}
		if last.stats.Malformed > 0 {
			cls = append(cls, "c01-accepted-input-with-inconsistent-sizes(no byte claim)")
		}
		if last.stats.MaskedBytes > 0 {
			cls = append(cls, "c01-masked-bytes-differ")
		}
		seen := map[string]bool{}
		for _, ty := range last.types {
			if !seen[ty] {
				seen[ty] = true
				cls = append(cls, "type-"+ty)
			}
		}
		nt := last.accepted && len(last.types) > 0 && (!c.Pristine() || c.Synth != nil)
		harness.Rec.Case(nt, raw, cls...)
		if nt && harness.Rec.WantSample() && len(raw) < 500 {
			harness.Rec.Sample(map[string]interface{}{"kind": "roundtrip", "case": c, "input": fmt.Sprintf("%s", harness.HexTrunc(c.Bytes(), 80))})
		}
		if f != nil {
			c.Data = c.Bytes()
			if len(c.Data) > 64<<10 {
				c.Data = nil
			}
		}
		harness.Report(rt, "roundtrip", c, f)
	})
}

// TestPristine: every harvested box and file, unmodified, strict comparison.
func TestPristine(t *testing.T) {
	run(t, "pristine", boxprop.GenConfig{MaxSeed: 300 << 10})
}

// TestFieldMutations: size-preserving field mutations (values, versions, flags, counts).
func TestFieldMutations(t *testing.T) {
	run(t, "fields", boxprop.GenConfig{MaxSeed: harness.Pick(64<<10, 300<<10), Mutate: true, FieldOnly: true})
}

// TestStructureMutations: all structure-aware mutations.
func TestStructureMutations(t *testing.T) {
	run(t, "structure", boxprop.GenConfig{MaxSeed: harness.Pick(64<<10, 300<<10), Mutate: true})
}

// TestSynth: boxes and files written by the grammar generator internal/boxgen (legal field combinations no
// harvested file has), unmodified; TestSynthMutated: the same with field mutations on top.
func TestSynth(t *testing.T) { run(t, "synth", boxprop.GenConfig{MaxSeed: 300 << 10, SynthPct: 100}) }
func TestSynthMutated(t *testing.T) {
	run(t, "synthmut", boxprop.GenConfig{MaxSeed: 300 << 10, SynthPct: 100, Mutate: true, FieldOnly: true})
}
